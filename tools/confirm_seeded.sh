#!/bin/bash
# usage: tools/confirm_seeded.sh <id> …   — re-confirms seeded changes in a scratch worktree (not in /repo): with the patch the
# library builds, ctest passes (7 executables / 20 cases) and the demonstration FAILS; prints one line per id.
# (the "passes without the change" half is shown by tools/import_seeded.sh)
wt=/tmp/wt_confirm
[ -d $wt ] || git -C /repo worktree add --detach $wt HEAD >/dev/null 2>&1
for id in "$@"; do
  d=/verif/seeded/$id
  git -C $wt checkout -q -- . ; git -C $wt apply $d/patch.diff || { echo "$id: patch does not apply"; continue; }
  (cmake -G Ninja -S $wt -B $wt/_b >/dev/null 2>&1 && cmake --build $wt/_b >/dev/null 2>&1) || { echo "$id: BUILD FAILS"; continue; }
  t=$(ctest --test-dir $wt/_b 2>&1 | grep "tests passed" | head -1)
  sc=$(mktemp -d /tmp/confirm.XXXXXX); cp $d/* $sc/
  if [ -f $sc/demo_mpi.cpp ]; then
    (cd $sc && mpic++ -std=c++14 -O1 -I$wt/include -I$wt/_b/include demo_mpi.cpp -ltbb -lboost_timer -lboost_mpi -lboost_serialization -lpthread -o demo >/dev/null 2>&1; timeout 300 mpiexec --allow-run-as-root --oversubscribe -n ${NP:-3} ./demo >/dev/null 2>&1; echo "$id: $t; demo exit with the change = $?")
  elif [ -f $sc/demo.cpp ]; then
    cxx=g++; libs="-ltbb -lboost_timer"; grep -q "mpi" $sc/demo.cpp && { cxx=mpic++; libs="$libs -lboost_mpi -lboost_serialization"; }
    (cd $sc && $cxx -std=c++14 -O1 -I$wt/include -I$wt/_b/include demo.cpp $libs -lpthread -o demo >/dev/null 2>&1; timeout 600 ./demo >/dev/null 2>&1; echo "$id: $t; demo exit with the change = $?")
  else
    (cd $sc && sed -i "s#/repo/_build#$wt/_b#g; s#/repo#$wt#g" demo.sh && bash demo.sh $wt/_b >/dev/null 2>&1; echo "$id: $t; demo exit with the change = $?")
  fi
  rm -rf $sc
done
git -C $wt checkout -q -- . ; git -C /repo worktree remove --force $wt
