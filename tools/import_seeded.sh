#!/bin/bash
# usage: tools/import_seeded.sh <id>   — copies /tmp/wt_<id>/scratch deliverables to seeded/<id>/ and confirms the change against /repo:
# build + ctest with the patch, demo fails with / passes without.  /repo is restored afterwards.
set -u
id=$1; wt=/tmp/wt_$id; d=/verif/seeded/$id
mkdir -p $d
cp $wt/scratch/patch.diff $d/patch.diff
cp $wt/scratch/README.txt $d/README.agent.txt
for f in $wt/scratch/demo.cpp $wt/scratch/demo.sh $wt/scratch/demo_mpi.cpp $wt/scratch/*.dimacs $wt/scratch/*.txt; do
  [ -f "$f" ] && [ $(stat -c %s "$f") -lt 200000 ] && case "$f" in */README.txt|*/out_*.txt) ;; *) cp "$f" $d/ ;; esac
done
sed -i "s#/tmp/wt_$id/_b#/repo/_build#g; s#/tmp/wt_$id#/repo#g" $d/demo.sh 2>/dev/null
if ! git -C /repo diff --quiet; then echo "/repo has uncommitted changes"; exit 2; fi
sc=/tmp/confirm_$id; rm -rf $sc; mkdir -p $sc; cp $d/* $sc/
run_demo() {
  if [ -f $sc/demo_mpi.cpp ]; then
    (cd $sc && mpic++ -std=c++14 -O1 -I/repo/include -I/repo/_build/include demo_mpi.cpp -ltbb -lboost_timer -lboost_mpi -lboost_serialization -lpthread -o demo 2>&1 | tail -3 && ${DEMO_RUN:-timeout 300 mpiexec --allow-run-as-root --oversubscribe -n 2 ./demo} 2>&1 | tail -4; echo "demo exit=${PIPESTATUS[0]}")
  elif [ -f $sc/demo.cpp ]; then
    cxx=g++; libs="-ltbb -lboost_timer"
    grep -q "mpi" $sc/demo.cpp && { cxx=mpic++; libs="$libs -lboost_mpi -lboost_serialization"; }
    (cd $sc && $cxx -std=c++14 -O1 -I/repo/include -I/repo/_build/include demo.cpp $libs -lpthread -o demo 2>&1 | tail -3 && ${DEMO_RUN:-./demo} 2>&1 | tail -4; echo "demo exit=${PIPESTATUS[0]}")
  else
    (cd $sc && sed -i "s#/repo/scratch#$sc#g" demo.sh && bash demo.sh /repo/_build 2>&1 | tail -4; echo "demo exit=${PIPESTATUS[0]}")
  fi
}
git -C /repo apply $d/patch.diff || { echo "patch does not apply"; exit 2; }
trap 'git -C /repo checkout -- . ; cmake --build /repo/_build >/dev/null 2>&1; rm -rf '$sc EXIT
echo "== with the change"; cmake --build /repo/_build 2>&1 | tail -1; ctest --test-dir /repo/_build 2>&1 | grep "tests passed"
run_demo
git -C /repo checkout -- .
echo "== without the change"; cmake --build /repo/_build 2>&1 | tail -1
run_demo
