#!/usr/bin/env python3
"""(re)writes MANIFEST.json from the table below; validates it and every evidence file when jsonschema is available."""
import json, os, sys
V = os.path.dirname(os.path.dirname(os.path.abspath(__file__)))
props = [json.loads(l)['id'] for l in open(os.path.join(V, 'properties.jsonl'))]
COMMON_NOTE = ("Trusted: Lean 4.33.0 kernel (axioms propext, Quot.sound, Classical.choice only; audited on every run), the hand-written "
               "model named in DESIGN.md, and the sampled correspondence between that model and /repo's working tree.")
CLAIMS = {
 "C19": ("proof", "Link half: a Lean theorem (c19_link) says that if no header contributes a strong external definition then ANY set of translation units over ANY of the headers links; its hypothesis is a proof obligation (table_clean, by decide) re-established on every run for the symbol table regenerated from the working tree by compiling each header alone and listing strong symbols with nm — a new non-inline definition breaks the obligation and names the symbol; the link model is validated by really linking two-unit programs (umbrella headers, sampled pairs). Compile half (each header alone and first, TBB/MPI on and off): decided by the compiler alone, not a theorem — reported by the same check.",
         "Lean 4 proof over a generated symbol table (translator: g++ -c + nm) + compiler/linker runs", "§5 C19"),
 "C20": ("proof", "Lean 4 theorems over the state-machine model of global_control (library-owned control + client controls): after set_global_tbb_concurrency(n) the active value is n for every call history, it bounds the parallelism from above in the presence of client controls, and the demos' option block applies --cores whenever parallel is selected, independent of verbose. Correspondence: real call sequences compared with tbb::global_control::active_value and with the number of distinct threads executing a parallel region; demos run under strace counting created threads for --cores n x verbose x unrelated flags.",
         "Lean 4 proof (state machine) + correspondence with active_value and thread counts", "§5 C20"),
 "C17": ("proof", "Lean 4 theorems over the literal model of SpVecGF2 for every operation history (canonical form, refinement to the dense GF(2) computation, size/product/sum laws); model tied to spvecgf2.hpp by differential replay of generated and exhaustive-short histories on the real class; an independent dense oracle decides the property on the implementation.",
         "Lean 4 proof (induction over histories, refinement to dense spec) + correspondence check", "§5 C17"),
 "C01": ("proof", "Lean 4 theorems: for every simple positive graph, every ForestIndex (any unordered_set order), every variant's literal support bookkeeping and every choice of per-phase minimum odd cycles (relational model FullRun), the emitted cycles number m-n+c, are circuits (simple cycles), independent over GF(2) and span the cycle space (abstract de Pina theory, fully proved, instantiated on the literal model). The C++ is tied to the model by trace validation of every run: each emitted cycle must satisfy the phase contract against the model's support vector (per-phase optimum from the model's signed-graph distances, and from a definitional 2^m enumeration when m<=11), plus an independent python oracle (simple cycles, GF(2) rank).",
         "Lean 4 proof (de Pina triangular/exchange argument, refinement of the literal bookkeeping) + trace validation against the implementation", "§5 C01"),
 "C02": ("proof", "Lean 4 theorems: under the same relational model the emitted basis is a minimum cycle basis (no heavier than ANY spanning family of cycle-space elements: exchange-injection argument, no dimension theory), its weight is the same for all variants and tie-breakings, and the accumulated return value is the emitted weight. Trace validation per run as in C01 plus an independent Horton-greedy optimum in python. The sorted-weights sentence is _partial (stated, not proved; compared per run).",
         "Lean 4 proof (exchange argument against arbitrary bases) + trace validation + independent optimum", "§5 C02"),
 "C03": ("proof", "Lean 4 theorems quantified over ALL schedules (Sched: any partition, any seq/fork grouping seeded with the identity, any order-preserving join tree; ForSched: any tiling in any execution order): the min-reduction returns the optimum weight under the sequential search contract, the three cycle_min joins are associative on weights with not-found as identity and left preference, the support update equals the sequential loop, concurrent push_back initialisation yields a permutation of the unit vectors (and the de Pina theorems hold from any such start), the weight reduction returns the sum, task footprints of every parallel region are conflict-free. Correspondence: the REAL library templates run under seeded schedules of a deterministic TBB stand-in placed first on the include path (random, fully sequential and maximally split schedules), every run trace-validated against the literal model including the observed push_back order; plus real oneTBB with 1/2/4/16 threads and (thorough) ThreadSanitizer as supporting evidence.",
         "Lean 4 proof (induction over schedule trees / tilings) + trace validation under a controllable scheduler", "§5 C03"),
 "C04": ("proof", "Lean 4 theorems for every communicator size P >= 1 and every amount of work: the ceil-stride slices of the ranks partition [0,total) (P not dividing total, P > total, total = 0 included), the MPI minimum operator is associative/commutative on weights with not-found as identity, any per-rank TBB schedules combined along any reduction tree over the ranks deliver the optimum weight under the sequential search contract, all ranks execute the same collective script, and — after the repair — the ranks together search exactly the (edge, hidden set) pairs of the sequential heuristic when they share the enumeration order (with per-rank orders an edge can stay unsearched: counterexample theorem for the pinned code). Correspondence: the real entry points under mpiexec -n P (P in 1,2,3,5 quick; up to 8 thorough) with per-rank heap perturbation so that pointer orders differ between ranks, rank-0 output trace-validated and judged by the C01/C02 oracle, other ranks must emit nothing, watchdog for ranks left in a collective.",
         "Lean 4 proof (arithmetic of slices, reduction trees, schedule independence) + MPI runs with layout perturbation", "§5 C04"),
 "C05": ("proof", "Lean 4 theorems: the family assembled by the approximate algorithms (a basis of the cycle space of the retained subgraph + for every dropped edge the edge plus a simple spanner path) is a basis of the cycle space of the caller's graph; every emitted id is an edge of the caller's graph (translated through the spanner edge map) and the returned value is the emitted weight under the caller's weights. Trace validation per run: spanner replay with the observed scan order, exact phase validated in the spanner's own ForestIndex coordinates against the literal support model, every edge cycle must be dropped-edge + a shortest spanner walk; descriptors are dereferenced through the caller's maps after return (ASan in the thorough tier); independent python oracle. The count m-n+c is checked per run (c05 count _partial: needs equality of component counts of spanner and graph).",
         "Lean 4 proof (private-edge independence/spanning argument) + trace validation", "§5 C05"),
 "C06": ("proof", "Lean 4 theorems: k = 0 is rejected with nothing emitted; k = 1 retains every edge of a simple graph so the run is the exact algorithm (C02: minimum basis); the spanner part is a minimum basis of the spanner; every dropped edge is closed by a cycle of weight <= 2k w(e). The global (2k-1) bound against every basis (Kavitha-Mehlhorn-Michail) is NOT proved (c06_bound_partial): it is checked per run against an independent optimum (python Horton-greedy) for k in 0..4.",
         "Lean 4 proof of the ingredients + per-run check of the global bound", "§5 C06"),
 "C13": ("proof", "Lean 4 theorems over the literal model of greedy_fvs (exists/degree arrays, LIFO forRemoval with double pushes, clean-up loops) for every simple graph and EVERY pop order of the heap: output are distinct vertices, degree counters stay accurate (no size_t underflow), the graph minus the output is acyclic (rank argument over removal times), a forest yields the empty output (min-degree-2 subgraphs contain a cycle). The C++ output is replayed as the heap's pop sequence on the model (must reproduce it exactly and leave nothing alive) and judged by an independent union-find oracle.",
         "Lean 4 proof (loop invariants with fuel bound, rank_acyclic) + replay correspondence", "§5 C13"),
 "C15": ("proof", "Lean 4 theorems over the literal model of is_bfs_reachable and construct_spanner for every simple graph, every k >= 1 and every order the unstable sort may leave among equal weights: the hop-bounded BFS decides 'walk of at most b retained edges', retained/dropped partition the edges, the spanner carries the input's endpoints and weights, every dropped edge has a walk of <= 2k-1 retained edges none heavier than it, the retained subgraph has no circuit of <= 2k edges, k = 1 retains everything. Literal replay of the C++ construction with the observed scan order (hook), plus independent oracle (BFS stretch, girth, weights).",
         "Lean 4 proof (BFS correctness with fuel, greedy-scan invariants, walk extraction) + literal correspondence", "§5 C15"),
 "C16": ("proof", "Lean 4 theorems over the literal model of spanning_forest/ForestIndex for every simple graph and every iteration order of the unordered_set: forest edges acyclic and spanning (every off-forest edge closes a cycle with forest edges), n-c of them, index a bijection with inverse lookups, off-forest edges numbered first, dimension m-n+c without underflow, and the reindexed graph lies in the exact domain of the de Pina theory. Literal equality with the C++ (forest emission order, index, reverse, is_on_forest, dimension, components) using the observed unordered_set order; independent union-find oracle.",
         "Lean 4 proof (BFS invariants, algebraic connectivity) + literal correspondence", "§5 C16"),
 "C18": ("proof", "Lean 4 theorems over the literal model of ext_gcd (Bezout + gcd for all integer pairs), get_mult_inverse, is_prime (iff Nat.Prime for every p>=2, for any admissible square-root bound) and SpVecFP (canonical form for every history, add/scale/dot refine arithmetic mod p, negative scalars included); model tied to fp.hpp/spvecfp.hpp by exhaustive-small and random correspondence for long, int and cpp_int.",
         "Lean 4 proof (loop invariants by functional induction, Mathlib Nat.Prime) + correspondence check", "§5 C18"),
}
NOT_YET = "check not built yet in this round (work in progress, see DESIGN.md §10 order); will be claimed when its model, theorems and correspondence exist"
def main():
    checks = []
    for pid in sorted(CLAIMS):
        cat, text, tech, ref = CLAIMS[pid]
        checks.append({"property_id": pid, "quick_cmd": f"python3 checks/check.py {pid} quick",
                       "thorough_cmd": f"python3 checks/check.py {pid} thorough",
                       "evidence_file": f"/verif/evidence/{pid}.json",
                       "replay_cmd_template": f"python3 checks/check.py {pid} quick --replay {{path}}",
                       "engine": "lean4-model+correspondence",
                       "level_claimed": {"category": cat, "text": text, "design_ref": "DESIGN.md " + ref},
                       "level_note": COMMON_NOTE, "technique": tech})
    m = {"version": 1, "setup_cmd": "cd lean && lake build",
         "hooks": {"guard": "PARMCB_VERIF", "enable": "harnesses are compiled with -DPARMCB_VERIF against /repo/include (header-only library); demos are configured with -DCMAKE_CXX_FLAGS=-DPARMCB_VERIF where a hook is needed",
                   "baseline_off_cmd": "cmake -G Ninja -S /repo -B /repo/_build >/dev/null && cmake --build /repo/_build >/dev/null && ctest --test-dir /repo/_build -j8 --timeout 900",
                   "source_commits": ["23d84bd"], "add_only": True},
         "engines": [{"name": "lean4-model+correspondence", "path": "/verif/lean", "serves_properties": sorted(CLAIMS),
                      "kind_free_text": "Lean 4 models + theorems (lake project, Mathlib-free models, compiled model driver), C++ harnesses over the real headers, python orchestration (checks/)"}],
         "checks": checks,
         "notes": "Family: machine-checked proof in Lean 4. See DESIGN.md. known_findings.json lists recorded findings and fix: commits.",
         "not_applicable": [{"property_id": p, "reason": NOT_YET} for p in props if p not in CLAIMS]}
    json.dump(m, open(os.path.join(V, 'MANIFEST.json'), 'w'), indent=1)
    try:
        import jsonschema
    except ImportError:
        print("MANIFEST written (jsonschema not available: not validated)"); return
    jsonschema.validate(m, json.load(open('/root/.vp/MANIFEST.schema.json')))
    es = json.load(open('/root/.vp/EVIDENCE.schema.json'))
    for pid in CLAIMS:
        p = os.path.join(V, 'evidence', pid + '.json')
        if os.path.exists(p): jsonschema.validate(json.load(open(p)), es)
        else: print("missing evidence", pid)
    print("MANIFEST + evidence valid:", sorted(CLAIMS))
main()
