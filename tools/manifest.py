#!/usr/bin/env python3
"""(re)writes MANIFEST.json from the table below; validates it and every evidence file when jsonschema is available."""
import json, os, sys
V = os.path.dirname(os.path.dirname(os.path.abspath(__file__)))
props = [json.loads(l)['id'] for l in open(os.path.join(V, 'properties.jsonl'))]
COMMON_NOTE = ("Trusted: Lean 4.33.0 kernel (axioms propext, Quot.sound, Classical.choice only; audited on every run), the hand-written "
               "model named in DESIGN.md, and the sampled correspondence between that model and /repo's working tree.")
CLAIMS = {
 "C17": ("proof", "Lean 4 theorems over the literal model of SpVecGF2 for every operation history (canonical form, refinement to the dense GF(2) computation, size/product/sum laws); model tied to spvecgf2.hpp by differential replay of generated and exhaustive-short histories on the real class; an independent dense oracle decides the property on the implementation.",
         "Lean 4 proof (induction over histories, refinement to dense spec) + correspondence check", "§5 C17"),
 "C18": ("proof", "Lean 4 theorems over the literal model of ext_gcd (Bezout + gcd for all integer pairs), get_mult_inverse, is_prime (iff Nat.Prime for every p>=2, for any admissible square-root bound) and SpVecFP (canonical form for every history, add/scale/dot refine arithmetic mod p, negative scalars included); model tied to fp.hpp/spvecfp.hpp by exhaustive-small and random correspondence for long, int and cpp_int.",
         "Lean 4 proof (loop invariants by functional induction, Mathlib Nat.Prime) + correspondence check", "§5 C18"),
}
NOT_YET = "check not built yet in this round (work in progress, see DESIGN.md §10 order); will be claimed when its model, theorems and correspondence exist"
def main():
    checks = []
    for pid in sorted(CLAIMS):
        cat, text, tech, ref = CLAIMS[pid]
        checks.append({"property_id": pid, "quick_cmd": f"python3 checks/check.py {pid} quick",
                       "thorough_cmd": f"python3 checks/check.py {pid} thorough",
                       "evidence_file": f"/verif/evidence/{pid}.json",
                       "replay_cmd_template": f"python3 checks/check.py {pid} quick --replay {{path}}",
                       "engine": "lean4-model+correspondence",
                       "level_claimed": {"category": cat, "text": text, "design_ref": "DESIGN.md " + ref},
                       "level_note": COMMON_NOTE, "technique": tech})
    m = {"version": 1, "setup_cmd": "cd lean && lake build",
         "hooks": {"guard": "PARMCB_VERIF", "enable": "harnesses are compiled with -DPARMCB_VERIF against /repo/include (header-only library); demos are configured with -DCMAKE_CXX_FLAGS=-DPARMCB_VERIF where a hook is needed",
                   "baseline_off_cmd": "cmake -G Ninja -S /repo -B /repo/_build >/dev/null && cmake --build /repo/_build >/dev/null && ctest --test-dir /repo/_build -j8 --timeout 900",
                   "source_commits": [], "add_only": True},
         "engines": [{"name": "lean4-model+correspondence", "path": "/verif/lean", "serves_properties": sorted(CLAIMS),
                      "kind_free_text": "Lean 4 models + theorems (lake project, Mathlib-free models, compiled model driver), C++ harnesses over the real headers, python orchestration (checks/)"}],
         "checks": checks,
         "notes": "Family: machine-checked proof in Lean 4. See DESIGN.md. known_findings.json lists recorded findings and fix: commits.",
         "not_applicable": [{"property_id": p, "reason": NOT_YET} for p in props if p not in CLAIMS]}
    json.dump(m, open(os.path.join(V, 'MANIFEST.json'), 'w'), indent=1)
    try:
        import jsonschema
    except ImportError:
        print("MANIFEST written (jsonschema not available: not validated)"); return
    jsonschema.validate(m, json.load(open('/root/.vp/MANIFEST.schema.json')))
    es = json.load(open('/root/.vp/EVIDENCE.schema.json'))
    for pid in CLAIMS:
        p = os.path.join(V, 'evidence', pid + '.json')
        if os.path.exists(p): jsonschema.validate(json.load(open(p)), es)
        else: print("missing evidence", pid)
    print("MANIFEST + evidence valid:", sorted(CLAIMS))
main()
