#!/usr/bin/env python3
"""prints the markdown table of the seeded changes of round 4 (batches 12-14) from seeded/<id>/meta.json"""
import json, os, sys
here = os.path.dirname(os.path.abspath(__file__))
ids = sys.argv[1:]
print("| id | breaks | change | needs | which check catches it |")
print("|----|--------|--------|-------|------------------------|")
for i in ids:
    m = json.load(open(os.path.join(here, "..", "seeded", i, "meta.json")))
    fr = m.get("first_run", "")
    mark = "" if fr == "detected" else " — **first run: %s**" % fr
    print("| %s | %s | %s | %s | %s%s |" % (i, m["breaks"], m["summary"].replace("|", "/"), m["needs"].replace("|", "/"), m["detected_by"].replace("|", "/"), mark))
