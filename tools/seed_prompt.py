#!/usr/bin/env python3
"""usage: tools/seed_prompt.py <seeded-id> <property-id> [focus]  -- creates the scratch worktree /tmp/wt_<seeded-id> of /repo and prints the
prompt for a fresh sub-agent (property text only; nothing else from /verif)."""
import json, subprocess, sys, os
here = os.path.dirname(os.path.abspath(__file__))
sid, pid = sys.argv[1], sys.argv[2]
wt = f'/tmp/wt_{sid}'
if not os.path.isdir(wt):
    subprocess.check_call(['git', '-C', '/repo', 'worktree', 'add', '--detach', wt, 'HEAD'], stdout=subprocess.DEVNULL, stderr=subprocess.DEVNULL)
p = [json.loads(l) for l in open(os.path.join(here, '..', 'properties.jsonl'))]
p = [x for x in p if x['id'] == pid][0]
T = open(os.path.join(here, 'seed_prompt_template.txt')).read()
focus = sys.argv[3] if len(sys.argv) > 3 else None
if focus:
    T = T.replace("Deliverables, all under", "Where to look (to spread several independent regressions over the code base, yours should live here): " + focus + "\n\nDeliverables, all under", 1)
print(T.format(wt=wt, pid=pid, title=p['title'], statement=p['statement'], quant=p['quantifier']['text'],
               files=', '.join(p['anchors']['files'])))
