#!/usr/bin/env python3
"""inserts tools/design_round3.md as §13 of DESIGN.md (before Appendix A), filling the seeded-change table of batches 8-10
from seeded/<id>/meta.json"""
import json, os, re
V = os.path.dirname(os.path.dirname(os.path.abspath(__file__)))
ids = ["C01d","C02d","C03e","C04e","C05d","C06d","C08c","C09c","C18d","C17c","C04f","C12d","C02e","C13d","C14e","C03f",
       "C10d","C11d","C15d","C16d","C19d","C20d","C07d","C01e",
       "C05e","C06e","C02f","C14f","C16e","C18e","C12e","C04g"]
rows = ["| id | breaks | change | needs | which check catches it |", "|----|--------|--------|-------|------------------------|"]
n_det = n_miss = 0
for i in ids:
    p = os.path.join(V, "seeded", i, "meta.json")
    if not os.path.exists(p): continue
    m = json.load(open(p))
    first = m.get("first_run", "")
    if first.startswith("missed"): n_miss += 1
    else: n_det += 1
    esc = lambda t: t.replace("|", "/").replace("\n", " ")
    rows.append("| %s | %s | %s | %s | %s%s |" % (i, esc(m["breaks"]), esc(m["summary"]), esc(m["needs"]), esc(m["detected_by"]),
                                                  " — **first run: %s**" % first if first.startswith("missed") else ""))
body = open(os.path.join(V, "tools", "design_round3.md")).read()
body = body.replace("SEEDED_TABLE", "\n".join(rows))
all_meta = [json.load(open(os.path.join(V, "seeded", d, "meta.json"))) for d in sorted(os.listdir(os.path.join(V, "seeded")))
            if os.path.exists(os.path.join(V, "seeded", d, "meta.json"))]
total = len(all_meta)
missed_total = sum(1 for m in all_meta if str(m.get("first_run", "")).startswith("missed"))
body = body.replace("SEEDED_TALLY", "%d seeded changes in all; in batches 8–11 %d of %d were reported by the property's own quick check on the first "
                    "run and %d were missed by it at first (then strengthened, see the table); (batches 1–7: 21 of 60 missed at first, §12.4). "
                    "After the strengthening every seeded change is reported by the check of the property it breaks." % (total, n_det, n_det + n_miss, n_miss))
d = open(os.path.join(V, "DESIGN.md")).read()
start = d.find("## 13. Round 3")
end = d.find("## Appendix A.")
if start >= 0: d = d[:start] + d[end:]
end = d.find("## Appendix A.")
sep = "---------------------------------------------------------------------------------------------\n\n"
d = d[:end] + body.rstrip() + "\n\n" + sep + d[end:]
open(os.path.join(V, "DESIGN.md"), "w").write(d)
print("DESIGN.md assembled:", len(d.split("\n")), "lines; rows", len(rows) - 2)
