#!/bin/bash
# usage: tools/try_seeded.sh <seeded-id> <check> [<check> …]   — applies seeded/<id>/patch.diff to /repo, runs the checks (quick), restores /repo
set -u
id=$1; shift
cd /verif
if ! git -C /repo diff --quiet; then echo "/repo has uncommitted changes"; exit 2; fi
git -C /repo apply /verif/seeded/$id/patch.diff || { echo "patch does not apply"; exit 2; }
# the evidence files are rewritten by every run: keep the clean-tree ones and put them back afterwards
bk=$(mktemp -d /tmp/evidence_backup.XXXXXX); cp -a evidence/. $bk/
trap 'git -C /repo checkout -- . ; rm -rf /verif/evidence; mkdir -p /verif/evidence; cp -a $bk/. /verif/evidence/; rm -rf $bk' EXIT
for c in "$@"; do
  out=$(python3 checks/check.py $c quick 2>&1); rc=$?
  echo "== $id vs $c: rc=$rc"; echo "$out" | grep -E "VIOLATION|KNOWN-FINDING" | head -3
  for f in evidence/replays/$c-*.json; do [ -f "$f" ] && python3 -c "import json,sys; d=json.load(open('$f')); print('   ', d['what'][:300])"; done
done
