import Parmcb.Model.Graph
/-
Model of include/parmcb/detail/spanning_forest.hpp and include/parmcb/forestindex.hpp.

`order` is the iteration order of the `std::unordered_set<Vertex> unreached` right after it has
been filled (an open choice of the standard library: every theorem quantifies over it).  Erasing
from the set keeps the relative order of the remaining elements, so `*unreached.begin()` is the head
of the list below.  Core Lean only.
-/
namespace Parmcb

/-- the `for (ei …)` loop over `out_edges(u, g)`: returns (unreached, queue, emitted forest edges) -/
def scanAdj (u : Nat) : List (Nat × Nat) → List Nat → List Nat → List Nat → List Nat × List Nat × List Nat
  | [], un, q, acc => (un, q, acc)
  | (e, w) :: r, un, q, acc =>
    if w = u then scanAdj u r un q acc                       -- ignore self-loop
    else if w ∈ un then scanAdj u r (un.erase w) (q ++ [w]) (acc ++ [e])
    else scanAdj u r un q acc

/-- the inner `while (!queue.empty())` loop; one unit of fuel per pop -/
def bfsComp (g : Graph) : Nat → List Nat → List Nat → List Nat → List Nat × List Nat
  | 0, _, un, acc => (un, acc)
  | _ + 1, [], un, acc => (un, acc)
  | fuel + 1, u :: q, un, acc =>
    let (un', q', acc') := scanAdj u (g.adj u) un q acc
    bfsComp g fuel q' un' acc'

/-- the outer `while (!unreached.empty())` loop; returns (forest edges in emission order, #components) -/
def forestLoop (g : Graph) : Nat → List Nat → List Nat → Nat → List Nat × Nat
  | 0, _, acc, c => (acc, c)
  | _ + 1, [], acc, c => (acc, c)
  | fuel + 1, v :: un, acc, c =>
    let (un', acc') := bfsComp g (un.length + 1) [v] un acc
    forestLoop g fuel un' acc' (c + 1)

/-- `parmcb::detail::spanning_forest(g, out)` -/
def spanningForest (g : Graph) (order : List Nat) : List Nat × Nat :=
  if g.n = 0 then ([], 0) else forestLoop g order.length order [] 0

/-- the numbering loop of `ForestIndex::create_index`: returns `index` (edge id ↦ index) -/
def numberEdges (forest : List Nat) : Nat → Nat → Nat → Nat → List Nat
  | 0, _, _, _ => []
  | cnt + 1, e, low, high =>
    if e ∈ forest then high :: numberEdges forest cnt (e + 1) low (high + 1)
    else low :: numberEdges forest cnt (e + 1) (low + 1) high

structure ForestIdx where
  n : Nat
  m : Nat
  k : Nat                 -- weak_connected_components()
  index : List Nat        -- operator()(edge)   : edge id ↦ index
  reverse : List Nat      -- operator()(index)  : index ↦ edge id
  forest : List Nat       -- emission order of spanning_forest (not part of the C++ object)
deriving Repr

/-- `cycle_space_dimension()`: `m - n + k` in `size_t` arithmetic.  Since the forest has `n - k ≤ m`
edges the mathematical value is non-negative and equals `(m + k) - n`. -/
def ForestIdx.dim (fi : ForestIdx) : Nat := fi.m + fi.k - fi.n

def ForestIdx.isOnForest (fi : ForestIdx) (e : Nat) : Bool := decide (fi.index.getD e 0 ≥ fi.dim)

/-- position of the first occurrence (used to invert the numbering) -/
def indexOfNat (l : List Nat) (x : Nat) : Nat := l.findIdx (· == x)

def createIndex (g : Graph) (order : List Nat) : ForestIdx :=
  let (forest, k) := spanningForest g order
  let csd := g.m + k - g.n
  let index := numberEdges forest g.m 0 0 csd
  { n := g.n, m := g.m, k := k, index := index,
    reverse := (List.range g.m).map (fun i => indexOfNat index i), forest := forest }

/-- the graph with its edges renumbered by forest index (edge id `i` of the result is the edge whose
ForestIndex is `i`): the coordinate system all exact algorithms work in -/
def reindex (g : Graph) (fi : ForestIdx) : Graph :=
  { n := g.n, edges := fi.reverse.map (fun e => g.edges.getD e (0, 0, 0)) }

end Parmcb
