import Parmcb.Model.Graph
/-
Model of include/parmcb/detail/fvs.hpp (`parmcb::greedy_fvs`).

`exists`, `degree`, the LIFO `forRemoval` deque (push_front / pop_front) are literal.  The order in
which the pairing heap hands out vertices (`heap.top()`; ties, stale priorities of vertices that no
longer exist, the unusual `>=` comparator) is an open choice: `picks` is the sequence of heap pops and
every theorem quantifies over it.  Core Lean only.
-/
namespace Parmcb

structure FvsState where
  alive : List Bool        -- `exists`
  degree : List Nat        -- `degree`
  stack : List Nat         -- `forRemoval`, front = head
  out : List Nat           -- emitted vertices, in order
deriving Repr

namespace FvsState
def isAlive (s : FvsState) (v : Nat) : Bool := s.alive.getD v false
def deg (s : FvsState) (v : Nat) : Nat := s.degree.getD v 0
end FvsState

/-- the `for (ei …)` loop over the neighbours of a vertex that has just been removed:
`if (!exists[w]) continue; degree[w]--; if (degree[w] <= 1) forRemoval.push_front(w);` -/
def fvsScan : List (Nat × Nat) → FvsState → FvsState
  | [], s => s
  | (_, w) :: r, s =>
    if s.isAlive w then
      let d := s.deg w - 1
      let s' := { s with degree := s.degree.set w d }
      fvsScan r (if d ≤ 1 then { s' with stack := w :: s'.stack } else s')
    else fvsScan r s

/-- `while (!forRemoval.empty())`: pop front, mark removed, scan neighbours.  One unit of fuel per pop. -/
def fvsCleanup (g : Graph) : Nat → FvsState → FvsState
  | 0, s => s
  | fuel + 1, s =>
    match s.stack with
    | [] => s
    | u :: rest =>
      let s1 := { s with stack := rest, alive := s.alive.set u false }
      fvsCleanup g fuel (fvsScan (g.adj u) s1)

/-- the initialisation loop over the vertices -/
def fvsInit (g : Graph) : FvsState :=
  (List.range g.n).foldl (fun s v =>
      let d := (g.adj v).length
      let s' := { s with degree := s.degree.set v d }
      if d ≤ 1 then { s' with stack := v :: s'.stack } else s')
    { alive := List.replicate g.n true, degree := List.replicate g.n 0, stack := [], out := [] }

/-- one iteration of the main loop for the vertex the heap hands out -/
def fvsPick (g : Graph) (fuel : Nat) (s : FvsState) (v : Nat) : FvsState :=
  if s.isAlive v then
    let s1 := { s with out := s.out ++ [v], alive := s.alive.set v false }
    fvsCleanup g fuel (fvsScan (g.adj v) s1)
  else s

/-- every vertex is pushed at most twice, so `2n + 2` pops always suffice -/
def fvsFuel (g : Graph) : Nat := 2 * g.n + 2

/-- `greedy_fvs(g, out)` with the heap's pop sequence `picks` -/
def greedyFvs (g : Graph) (picks : List Nat) : List Nat :=
  (picks.foldl (fvsPick g (fvsFuel g)) (fvsCleanup g (fvsFuel g) (fvsInit g))).out

/-- the state right before the main loop (which vertices enter the heap) -/
def fvsAfterInit (g : Graph) : FvsState := fvsCleanup g (fvsFuel g) (fvsInit g)

end Parmcb
