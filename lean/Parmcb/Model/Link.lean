/-
Model of the link step for C19: which strong (non-inline, non-template, external) definitions each
public header contributes to a translation unit that includes it, and when a set of translation units
links.  The table is GENERATED on every run from /repo's working tree by compiling every header alone
and listing the defined external symbols of the object file with `nm` (checks/c19.py).  Core Lean only.
-/
namespace Parmcb

/-- header ↦ strong external symbols its inclusion defines -/
abbrev SymTable := List (String × List String)

def strongOf (t : SymTable) (h : String) : List String := (t.lookup h).getD []

/-- symbols defined by one translation unit that includes the given headers (include guards: each header
contributes once) -/
def objSymbols (t : SymTable) (unit : List String) : List String := (unit.eraseDups.flatMap (strongOf t))

def hasDup : List String → Bool
  | [] => false
  | x :: r => r.contains x || hasDup r

/-- the linker's rule: a strong symbol may be defined by at most one object -/
def links (t : SymTable) (units : List (List String)) : Bool := !(hasDup (units.flatMap (objSymbols t)))

end Parmcb
