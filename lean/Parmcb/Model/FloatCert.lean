import Parmcb.Model.Float
import Parmcb.Model.Cert
/-!
# Verified certificates for runs on inexact (double) weights (C09)

* `checkFloatSPT` — a shortest-path labelling computed in DOUBLE arithmetic (the labels of `SPTree` /
  `parmcb::dijkstra` on double weights, scaled to integers): the source carries 0, no edge can be relaxed in
  double arithmetic (`dist v ≤ fadd (dist u) w`), and every reached vertex comes with a walk from the source
  whose left-to-right double sum is exactly its label.  Soundness (Lemmas/FloatCert.lean): every label is at
  most the double sum along ANY walk, hence the recorded walk is a `(2^32+1)/(2^32-1)`-approximate shortest
  walk in EXACT arithmetic.
* `checkRunPotRat` — `checkRunPot` (Model/Cert.lean) with a rational factor: per phase the emitted cycle is in
  the cycle space, odd against the model's support vector, and `q · w(C) ≤ p · L` where `L` is a lower bound
  on every odd element certified by potentials.
Core Lean only.
-/
namespace Parmcb.Float

/-- an edge / a step of a walk: endpoints and (scaled double) weight -/
abbrev FEdge := Nat × Nat × Int

/-- labels: `none` = not reached -/
def dget (dist : List (Option Int)) (v : Nat) : Option Int := (dist[v]?).getD none

/-- the step uses an edge of the graph, in either direction -/
def stepOk (es : List FEdge) (st : FEdge) : Bool :=
  es.any fun e => (e.1 == st.1 && e.2.1 == st.2.1 && e.2.2 == st.2.2) || (e.1 == st.2.1 && e.2.1 == st.1 && e.2.2 == st.2.2)

/-- `wk` is a walk from `s` to `t` -/
def walkOk (es : List FEdge) : Nat → List FEdge → Nat → Bool
  | s, [], t => s == t
  | s, st :: rest, t => stepOk es st && st.1 == s && walkOk es st.2.1 rest t

def walkW (wk : List FEdge) : List Int := wk.map (·.2.2)

/-- the arc `u → v` of weight `w` cannot be relaxed in double arithmetic -/
def relaxedB (dist : List (Option Int)) (u v : Nat) (w : Int) : Bool :=
  match dget dist u with
  | none => true
  | some du => match dget dist v with
    | none => false
    | some dv => decide (dv ≤ fadd du w)

def checkFloatSPT (es : List FEdge) (s : Nat) (dist : List (Option Int)) (paths : List (Option (List FEdge))) : Bool :=
  (dget dist s == some 0) &&
  es.all (fun e => decide (0 ≤ e.2.2) && relaxedB dist e.1 e.2.1 e.2.2 && relaxedB dist e.2.1 e.1 e.2.2) &&
  (List.range dist.length).all fun v =>
    match dget dist v with
    | none => true
    | some d =>
      match (paths[v]?).getD none with
      | none => false
      | some p => walkOk es s p v && (fsum (walkW p) == d)

end Parmcb.Float

namespace Parmcb

/-- one phase on inexact weights: cycle space, odd, and within `p/q` of a certified lower bound `L` -/
def checkPhasePotRat (g : Graph) (p q : Int) (S C : List Nat) (πs : List Potential) (L : Int) : Bool :=
  evenSetB g C && dotPar C S && checkPotential g S πs L && decide (q * wt g C ≤ p * L)

def checkRunPotRat (g : Graph) (p q : Int) (v : Variant) :
    Nat → List (List Nat) → List (List Nat) → List (List Potential × Int) → Bool
  | _, _, [], _ => true
  | _, _, _ :: _, [] => false
  | k, sup, c :: cs, (πs, L) :: rest =>
    checkPhasePotRat g p q (phaseSupport v sup k) c πs L && checkRunPotRat g p q v (k + 1) (phaseStep v sup k c) cs rest

end Parmcb
