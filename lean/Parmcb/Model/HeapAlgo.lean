import Parmcb.Model.Heap
import Parmcb.Model.ApproxAlgo
import Parmcb.Model.MpiAlgo
/-
The sequential entry points with the REAL priority queues (`Model/Heap.lean`) in place of the heap oracle:
`mcb_sva_signed` (every `bidirectional_signed_dijkstra` runs on two literal 4-ary heaps) and the sequential approximate
algorithms (`parmcb::dijkstra` on a literal 4-ary heap).  These models are deterministic given the orders the language
leaves open (`order`, `σ`, `scan`, …), so the correspondence can demand EQUALITY of the emitted cycles, phase by phase.
`Lemmas/HeapAlgo.lean`: each is an instance of the oracle model, hence correct.  Core Lean only.
-/
namespace Parmcb

def searchSignedH (g : Graph) (ord : List Nat) (S hidden : List Nat) (s : Nat) (sPos : Bool) (t : Nat) (tPos : Bool)
    (limit : Option Int) : Cyc (List Nat) :=
  biSearchH (sgAdjE g ord S hidden) g.weight limit (sgNode g.n s sPos) (sgNode g.n t tPos)

def allVerticesLoopH (g : Graph) (ord : List Nat) (S : List Nat) : Cyc (List Nat) :=
  seqMin (fun v L => searchSignedH g ord S [] v true v false L) 0 g.n

def hiddenLoopH (g : Graph) (ord : List Nat) (S : List Nat) : List Nat → Cyc (List Nat) → Cyc (List Nat)
  | [], best => best
  | e :: rest, best =>
    hiddenLoopH g ord S rest
      (hiddenTake g e best (searchSignedH g ord S (e :: rest) (g.src e) true (g.tgt e) true (best.map (·.1))))

def signedPhaseSearchH (g : Graph) (ord : List Nat) (σ : List Nat) (S : List Nat) : Cyc (List Nat) :=
  if g.n ≤ S.length then allVerticesLoopH g ord S else hiddenLoopH g ord S σ none

/-- `mcb_sva_signed` with literal heaps -/
def mcbSignedH (g : Graph) (order : List Nat) (σ : Nat → List Nat → List Nat) : McbResult :=
  let fi := createIndex g order
  let gi := reindex g fi
  let r := mcbSignedCore .signed fi.dim (unitSupports fi.dim) (fun k S => signedPhaseSearchH gi fi.reverse (σ k S) S)
  { cycles := translateBack fi.reverse r.cycles, weight := r.weight }

/-! ### `mcb_sva_signed_tbb` with literal heaps -/

def allVerticesTbbH (g : Graph) (ord : List Nat) (S : List Nat) (s : Sched) : Cyc (List Nat) :=
  reduceMin (fun v L => searchSignedH g ord S [] v true v false L) s

def hiddenIndexTbbH (g : Graph) (ord : List Nat) (S σ : List Nat) (i : Nat) (limit : Option Int) : Cyc (List Nat) :=
  match σ[i]? with
  | none => none
  | some e => hiddenTake g e none (searchSignedH g ord S (σ.drop i) (g.src e) true (g.tgt e) true limit)

def hiddenTbbH (g : Graph) (ord : List Nat) (S σ : List Nat) (s : Sched) : Cyc (List Nat) :=
  reduceMin (hiddenIndexTbbH g ord S σ) s

def singleEdgeTbbH (g : Graph) (ord : List Nat) (e : Nat) : Cyc (List Nat) :=
  hiddenTake g e none (searchSignedH g ord [] [e] (g.src e) true (g.tgt e) true none)

/-- `OddCycleFinder::find` on literal heaps -/
def signedPhaseSearchTbbH (g : Graph) (ord : List Nat) (σ : List Nat) (S : List Nat) (s : Sched) : Cyc (List Nat) :=
  match S with
  | [e] => singleEdgeTbbH g ord e
  | _ => if g.n ≤ S.length then allVerticesTbbH g ord S s else hiddenTbbH g ord S σ s

/-- `mcb_sva_signed_tbb` with literal heaps: deterministic given `order`, `σ`, the push order `perm` and the schedules -/
def mcbSignedTbbH (g : Graph) (order : List Nat) (σ : Nat → List Nat → List Nat) (perm : List Nat)
    (scheds : Nat → List Nat → Sched) : McbResult :=
  let fi := createIndex g order
  let gi := reindex g fi
  let r := mcbSignedCore .signedTbb fi.dim (perm.map fun i => [i])
    (fun k S => signedPhaseSearchTbbH gi fi.reverse (σ k S) S (scheds k S))
  { cycles := translateBack fi.reverse r.cycles, weight := r.weight }

/-! ### `mcb_sva_signed_mpi` with literal heaps (rank 0's view) -/

/-- `find_shortest_odd_cycle_mpi` on literal heaps: every rank reduces its slice under its own schedule, the rank results
are combined along the tree `t` -/
def signedPhaseSearchMpiH (g : Graph) (ord : List Nat) (S : List Nat) (scheds : Nat → Sched) (t : RTree) : Cyc (List Nat) :=
  match S with
  | [e] => singleEdgeTbbH g ord e
  | _ =>
    if S.length < g.n then mpiPhase (hiddenIndexTbbH g ord S S) scheds t
    else mpiPhase (fun v L => searchSignedH g ord S [] v true v false L) scheds t

def mcbSignedMpiH (g : Graph) (order : List Nat) (perm : List Nat)
    (scheds : Nat → List Nat → Nat → Sched) (trees : Nat → List Nat → RTree) : McbResult :=
  let fi := createIndex g order
  let gi := reindex g fi
  let r := mcbSignedCore .mpi fi.dim (perm.map fun i => [i])
    (fun k S => signedPhaseSearchMpiH gi fi.reverse S (scheds k S) (trees k S))
  { cycles := translateBack fi.reverse r.cycles, weight := r.weight }

/-- the cycle of one dropped edge, `parmcb::dijkstra` on a literal heap -/
def nonSpannerCycleH (g : Graph) (R : List Nat) (e : Nat) : List Nat × Int :=
  let sp := spannerGraph g R
  let f := dijkstraH (plainAdjE sp) (g.src e)
  let path := (pathBack f.toP (g.n + 1) (g.tgt e)).map fun i => R.getD i 0
  let cyc := path ++ [e]
  (cyc, (cyc.map g.weight).sum)

/-- `BaseApproxSpannerAlgorithm::run` (sequential builder) with literal heaps -/
def approxCoreH (g : Graph) (k : Nat) (scan : List Nat) (exact : Graph → McbResult) : ApproxOutcome :=
  if k < 1 then .error
  else
    let RD := constructSpanner g k scan
    let ex := exact (spannerGraph g RD.1)
    let translated := translateBack RD.1 ex.cycles
    let extra := RD.2.map (nonSpannerCycleH g RD.1)
    .ok (translated ++ extra.map fun p => setOf p.1) (ex.weight + (extra.map (·.2)).foldl (· + ·) 0)

def approxSignedH (g : Graph) (k : Nat) (scan order : List Nat) (σ : Nat → List Nat → List Nat) : ApproxOutcome :=
  approxCoreH g k scan (fun sp => mcbSignedH sp order σ)

def approxFvsTreesH (g : Graph) (k : Nat) (scan order picks : List Nat) (sorter : List Cand → List Cand) : ApproxOutcome :=
  approxCoreH g k scan (fun sp => mcbFvsTrees sp order picks sorter)

/-- `approx_mcb_sva_iso_trees` (its exact phase is the FVS-tree algorithm, see `approxIsoTrees`) -/
def approxIsoTreesH (g : Graph) (k : Nat) (scan order picks : List Nat) (sorter : List Cand → List Cand) : ApproxOutcome :=
  approxCoreH g k scan (fun sp => mcbFvsTrees sp order picks sorter)

end Parmcb
