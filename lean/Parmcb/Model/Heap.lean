import Parmcb.Model.BiSearch
/-
Literal model of `boost::d_ary_heap_indirect<Value, 4, IndexInHeapMap, DistanceMap, std::less<…>>`
(/usr/include/boost/graph/detail/d_ary_heap.hpp) as parmcb uses it — the priority queue of `search_frontier`
(detail/signed_dijkstra.hpp), of `parmcb::dijkstra` (detail/dijkstra.hpp) and of `lex_dijkstra` — and of the two searches
run with it instead of the abstract "some queued node of minimum label" oracle of `Model/BiSearch.lean`.

* `data` is the array of the heap, keys are looked up through the distance map at comparison time (indirect heap);
* `push`: append, sift up; `pop`: move the last element to the root, sift down; `update`: sift up from the element's
  position (decrease-key);
* sift up: move while the moved key is STRICTLY smaller than the parent's; sift down: smallest child (the FIRST one among
  equal keys, strict `<`), swap while it is STRICTLY smaller than the moved key.

`Lemmas/Heap.lean` shows that a search run with this heap is a run of the oracle model for a suitable oracle, so every
theorem proved "for every heap behaviour" applies to it.  Core Lean only.
-/
namespace Parmcb

/-- the distance map as the heap sees it (nodes in the heap always carry a label) -/
def keyOf (dist : Array (Option Int)) (v : Nat) : Int := (dist[v]!).getD 0

/-- `preserve_heap_property_up(index)` for the element `moved`: shift parents down while `key(moved) < key(parent)`,
then place `moved` -/
def siftUpAux (dist : Array (Option Int)) (moved : Nat) : Nat → Array Nat → Nat → Array Nat
  | 0, h, i => h.set! i moved
  | fuel + 1, h, i =>
    if i = 0 then h.set! i moved
    else
      let p := (i - 1) / 4
      let pv := h[p]!
      if keyOf dist moved < keyOf dist pv then siftUpAux dist moved fuel (h.set! i pv) p
      else h.set! i moved

def siftUp (dist : Array (Option Int)) (h : Array Nat) (index : Nat) : Array Nat :=
  if index = 0 then h else siftUpAux dist h[index]! (index + 1) h index

/-- index (offset from `fc`) of the smallest of the `cnt` children starting at `fc`: the first among equal keys -/
def smallestChild (dist : Array (Option Int)) (h : Array Nat) (fc cnt : Nat) : Nat :=
  (List.range cnt).foldl (fun best i => if keyOf dist h[fc + i]! < keyOf dist h[fc + best]! then i else best) 0

/-- `preserve_heap_property_down()`: the element at `index` is the one being moved -/
def siftDownAux (dist : Array (Option Int)) : Nat → Array Nat → Nat → Array Nat
  | 0, h, _ => h
  | fuel + 1, h, index =>
    let fc := 4 * index + 1
    if h.size ≤ fc then h
    else
      let cnt := if fc + 4 ≤ h.size then 4 else h.size - fc
      let sc := fc + smallestChild dist h fc cnt
      if keyOf dist h[sc]! < keyOf dist h[index]! then
        let a := h[index]!
        let b := h[sc]!
        siftDownAux dist fuel ((h.set! index b).set! sc a) sc
      else h

/-- `push(v)` -/
def heapPush (dist : Array (Option Int)) (h : Array Nat) (v : Nat) : Array Nat :=
  siftUp dist (h.push v) h.size

/-- `pop()` (the heap is not empty) -/
def heapPop (dist : Array (Option Int)) (h : Array Nat) : Array Nat :=
  if h.size ≤ 1 then #[]
  else siftDownAux dist h.size ((h.set! 0 h[h.size - 1]!).pop) 0

/-- `update(v)`: decrease-key — sift up from the position `index_in_heap[v]` -/
def heapUpdate (dist : Array (Option Int)) (h : Array Nat) (v : Nat) : Array Nat :=
  match h.toList.idxOf? v with
  | some i => siftUp dist h i
  | none => h

/-- `search_frontier` with the real heap -/
structure FrontierH where
  src : Nat
  dist : Array (Option Int)
  pred : Array (Option (Nat × Nat))
  heap : Array Nat
deriving Repr

/-- the oracle-model frontier it stands for (queue = heap contents in array order) -/
def FrontierH.toP (f : FrontierH) : FrontierP :=
  { src := f.src, dist := f.dist, pred := f.pred, queue := f.heap.toList }

def FrontierH.init (N s : Nat) : FrontierH :=
  { src := s, dist := (Array.replicate N none).set! s (some 0), pred := Array.replicate N none, heap := #[s] }

/-- `update(w, c, pred, pred_e)`: first time found → `queue.push(w)`, improved → `queue.update(w)` -/
def FrontierH.update (f : FrontierH) (w : Nat) (c : Int) (u e : Nat) : FrontierH :=
  if w == f.src then f
  else match f.dist[w]! with
    | none =>
      let d := f.dist.set! w (some c)
      { f with dist := d, pred := f.pred.set! w (some (u, e)), heap := heapPush d f.heap w }
    | some dw =>
      if c < dw then
        let d := f.dist.set! w (some c)
        { f with dist := d, pred := f.pred.set! w (some (u, e)), heap := heapUpdate d f.heap w }
      else f

/-- `find_min()` = the label of `queue.top()` -/
def FrontierH.findMin (f : FrontierH) : Option Int := if f.heap.size = 0 then none else f.dist[f.heap[0]!]!

structure BiStateH where
  f : FrontierH
  b : FrontierH
  best : Option Int
  common : Nat
deriving Repr

def biScanH (limit : Option Int) (u : Nat) (du : Int) : List (Nat × Int × Nat) → BiStateH → BiStateH
  | [], st => st
  | (w, c, e) :: r, st =>
    let cw := du + c
    if (match limit with | some l => !(cw < l) | none => false) then biScanH limit u du r st
    else
      let f' := st.f.update w cw u e
      let (best', common') :=
        if w == st.b.src || (st.b.dist[w]!).isSome then
          match st.b.dist[w]! with
          | some dbw =>
            let p := cw + dbw
            match st.best with
            | none => (some p, w)
            | some bb => if p < bb then (some p, w) else (some bb, st.common)
          | none => (st.best, st.common)
        else (st.best, st.common)
      biScanH limit u du r { st with f := f', best := best', common := common' }

/-- the `while (true)` loop with the real heaps; also returns the popped nodes in order (newest first) -/
def biLoopH (adjE : Array (List (Nat × Int × Nat))) (limit : Option Int) :
    Nat → BiStateH → List Nat → Option (BiStateH × List Nat)
  | 0, st, tr => some (st, tr)
  | fuel + 1, st, tr =>
    let stop :=
      st.f.heap.size == 0 || st.b.heap.size == 0 ||
      (match st.best, st.f.findMin, st.b.findMin with
       | some bb, some x, some y => !(x + y < bb)
       | _, _, _ => false)
    if stop then some (st, tr)
    else
      let u := st.f.heap[0]!
      match st.f.dist[u]! with
      | none => some (st, tr)
      | some du =>
        if (match limit with | some l => !(du < l) | none => false) then none
        else
          let st1 : BiStateH := { st with f := { st.f with heap := heapPop st.f.dist st.f.heap } }
          let st2 := biScanH limit u du adjE[u]! st1
          biLoopH adjE limit fuel { f := st2.b, b := st2.f, best := st2.best, common := st2.common } (u :: tr)

/-- `bidirectional_signed_dijkstra` with the real heaps -/
def biSearchH (adjE : Array (List (Nat × Int × Nat))) (wOf : Nat → Int) (limit : Option Int) (s t : Nat) :
    Option (Int × List Nat) :=
  match biLoopH adjE limit (2 * adjE.size + 2)
      { f := FrontierH.init adjE.size s, b := FrontierH.init adjE.size t, best := none, common := 0 } [] with
  | none => none
  | some (st, _) =>
    match st.best with
    | none => none
    | some b =>
      if (match limit with | some l => !(b < l) | none => false) then none
      else
        match tracePath st.f.toP (adjE.size + 1) st.common [] with
        | none => none
        | some acc1 =>
          match tracePath st.b.toP (adjE.size + 1) st.common acc1 with
          | none => none
          | some acc2 => some ((acc2.map wOf).sum, setOf acc2)

/-! ### `parmcb::dijkstra` with the real heap -/

def dijkScanH (u : Nat) (du : Int) : List (Nat × Int × Nat) → FrontierH → FrontierH
  | [], f => f
  | (w, c, e) :: r, f => dijkScanH u du r (f.update w (du + c) u e)

/-- `while (!queue.empty()) { u = top; pop; scan }` -/
def dijkLoopH (adjE : Array (List (Nat × Int × Nat))) : Nat → FrontierH → FrontierH
  | 0, f => f
  | fuel + 1, f =>
    if f.heap.size == 0 then f
    else
      let u := f.heap[0]!
      match f.dist[u]! with
      | none => f
      | some du => dijkLoopH adjE fuel (dijkScanH u du adjE[u]! { f with heap := heapPop f.dist f.heap })

/-- `parmcb::dijkstra` on an edge-labelled adjacency with `N` vertices -/
def dijkstraH (adjE : Array (List (Nat × Int × Nat))) (s : Nat) : FrontierH :=
  dijkLoopH adjE (adjE.size + 1) (FrontierH.init adjE.size s)

end Parmcb
