import Parmcb.Model.Lex
import Parmcb.Model.FloatCert
/-!
# `lex_dijkstra` (the labels of `SPTree`) in double arithmetic (C09)

The literal model of `lex_dijkstra` (Model/Lex.lean: `lexCombine`, `lexRelax`, `lexLoop`, `lexDijkstra`) with the one
arithmetic operation, the distance component of `LexDistanceCombine`, replaced by the binary64 addition `Float.fadd`;
`LexDistanceCompare` (`lexLess`) compares the rounded distances first, then edge counts and vertex sets, unchanged.
Weights are doubles scaled to integers.  Core Lean only.
-/
namespace Parmcb
open Parmcb.Float

def flexCombine (g : Graph) (a : LexLabel) (e : Nat) : LexLabel :=
  { dist := fadd a.dist (g.weight e), cnt := a.cnt + 1,
    verts := setInsert (g.src e) (setInsert (g.tgt e) a.verts) }

def flexRelax (g : Graph) (s u : Nat) (du : LexLabel) : List (Nat × Nat) → LexState → LexState
  | [], st => st
  | (e, w) :: r, st =>
    if w = u then flexRelax g s u du r st
    else if w = s then flexRelax g s u du r st
    else
      let c := flexCombine g du e
      match st.pred.getD w none with
      | none =>
        flexRelax g s u du r { lab := st.lab.set w (some c), pred := st.pred.set w (some e), queue := st.queue ++ [w] }
      | some _ =>
        match st.lab.getD w none with
        | some lw =>
          if lexLess c lw then flexRelax g s u du r { st with lab := st.lab.set w (some c), pred := st.pred.set w (some e) }
          else flexRelax g s u du r st
        | none => flexRelax g s u du r st

def flexLoop (g : Graph) (s : Nat) : Nat → LexState → LexState
  | 0, st => st
  | fuel + 1, st =>
    match lexArgmin st.lab st.queue with
    | none => st
    | some u =>
      let st1 := { st with queue := st.queue.erase u }
      match st1.lab.getD u none with
      | none => st1
      | some du => flexLoop g s fuel (flexRelax g s u du (g.adj u) st1)

/-- `lex_dijkstra(g, weight, s, dist, pred)` on double weights -/
def flexDijkstra (g : Graph) (s : Nat) : LexState :=
  flexLoop g s (g.n + 1)
    { lab := (List.replicate g.n none).set s (some { dist := 0, cnt := 0, verts := [s] }),
      pred := List.replicate g.n none, queue := [s] }

/-- the distance labels a client sees (`SPTree::node(v)->weight()`): `none` for vertices that were never reached -/
def flexDist (g : Graph) (s : Nat) (st : LexState) : List (Option Int) :=
  (List.range g.n).map fun v =>
    if v = s then some 0
    else match st.pred.getD v none with
      | none => none
      | some _ => (st.lab.getD v none).map (·.dist)

/-- the predecessor walk of `w` as steps (from, to, weight), source first -/
def flexWalkBack (g : Graph) (s : Nat) (st : LexState) : Nat → Nat → List FEdge → Option (List FEdge)
  | 0, _, _ => none
  | fuel + 1, w, acc =>
    if w = s then some acc
    else match st.pred.getD w none with
      | none => none
      | some e => let u := g.other e w; flexWalkBack g s st fuel u ((u, w, g.weight e) :: acc)

def flexPaths (g : Graph) (s : Nat) (st : LexState) : List (Option (List FEdge)) :=
  (List.range g.n).map fun v => if ((flexDist g s st).getD v none).isSome then flexWalkBack g s st (g.n + 1) v [] else none

end Parmcb
