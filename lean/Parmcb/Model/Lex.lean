import Parmcb.Model.Graph
/-
Model of include/parmcb/detail/lex_dijkstra.hpp (lexicographic shortest paths) and of the tree part of
include/parmcb/sptrees.hpp (`SPTree`: nodes, predecessor edges, `first_in_path`, parities,
`create_candidate_cycles`, `CandidateCycleBuilder`).  Core Lean only.

The d-ary heap is replaced by "the queued vertex whose label is smallest under `lexLess`"; two queued
vertices never carry equivalent labels in the exact domain (their vertex sets differ), so the heap's
internal layout cannot influence the result.
-/
namespace Parmcb

/-- `LexDistance`: (distance, edge count, set of vertex indices on the path) -/
structure LexLabel where
  dist : Int
  cnt : Nat
  verts : List Nat          -- `std::set<std::size_t>`: strictly increasing
deriving Repr, DecidableEq

/-- `std::set_difference(a, b)` on sorted lists -/
def setDiff (a b : List Nat) : List Nat := a.filter (fun x => !(b.contains x))

/-- `LexDistanceCompare::operator()` -/
def lexLess (a b : LexLabel) : Bool :=
  if a.dist < b.dist then true
  else if a.dist > b.dist then false
  else if a.cnt < b.cnt then true
  else if a.cnt > b.cnt then false
  else
    let na := setDiff a.verts b.verts
    let nb := setDiff b.verts a.verts
    if na.isEmpty && !nb.isEmpty then true
    else if !na.isEmpty && nb.isEmpty then false
    else match na, nb with
      | x :: _, y :: _ => decide (x < y)
      | _, _ => false

/-- `LexDistanceCombine::operator()`: extend a label by an edge -/
def lexCombine (g : Graph) (a : LexLabel) (e : Nat) : LexLabel :=
  { dist := a.dist + g.weight e, cnt := a.cnt + 1,
    verts := setInsert (g.src e) (setInsert (g.tgt e) a.verts) }

structure LexState where
  lab : List (Option LexLabel)     -- `lex_dist` (meaningful for visited vertices and the source)
  pred : List (Option Nat)         -- `pred_map`: `some e` = (true, e), `none` = (false, _)
  queue : List Nat                 -- vertices currently in the heap
deriving Repr

/-- the queued vertex with the smallest label (first one among equivalent ones) -/
def lexArgmin (lab : List (Option LexLabel)) : List Nat → Option Nat
  | [] => none
  | v :: r =>
    match lexArgmin lab r with
    | none => some v
    | some u =>
      match lab.getD v none, lab.getD u none with
      | some lv, some lu => if lexLess lu lv then some u else some v
      | _, _ => some v

/-- the `for` loop over the out-edges of the popped vertex `u` -/
def lexRelax (g : Graph) (s u : Nat) (du : LexLabel) : List (Nat × Nat) → LexState → LexState
  | [], st => st
  | (e, w) :: r, st =>
    if w = u then lexRelax g s u du r st                    -- self-loop
    else if w = s then lexRelax g s u du r st
    else
      let c := lexCombine g du e
      match st.pred.getD w none with
      | none =>   -- first time found
        lexRelax g s u du r { lab := st.lab.set w (some c), pred := st.pred.set w (some e), queue := st.queue ++ [w] }
      | some _ =>
        match st.lab.getD w none with
        | some lw =>
          if lexLess c lw then lexRelax g s u du r { st with lab := st.lab.set w (some c), pred := st.pred.set w (some e) }
          else lexRelax g s u du r st
        | none => lexRelax g s u du r st

/-- the main loop; one unit of fuel per pop -/
def lexLoop (g : Graph) (s : Nat) : Nat → LexState → LexState
  | 0, st => st
  | fuel + 1, st =>
    match lexArgmin st.lab st.queue with
    | none => st
    | some u =>
      let st1 := { st with queue := st.queue.erase u }
      match st1.lab.getD u none with
      | none => st1
      | some du => lexLoop g s fuel (lexRelax g s u du (g.adj u) st1)

/-- `lex_dijkstra(g, weight, s, dist, pred)` -/
def lexDijkstra (g : Graph) (s : Nat) : LexState :=
  lexLoop g s (g.n + 1)
    { lab := (List.replicate g.n none).set s (some { dist := 0, cnt := 0, verts := [s] }),
      pred := List.replicate g.n none, queue := [s] }

/-- `SPTree`: what a client can observe -/
structure SPTree where
  source : Nat
  dist : List (Option Int)     -- `node(v)->weight()` ; `none` = no node (unreachable)
  pred : List (Option Nat)     -- `node(v)->pred()` when `has_pred()`
  first : List Nat             -- `first(v)` (0 for vertices without a node, as the C++ vector default)
deriving Repr

/-- parent of `v` in the tree -/
def treeParent (g : Graph) (pred : List (Option Nat)) (v : Nat) : Option Nat :=
  (pred.getD v none).map fun e => g.other e v

/-- `compute_first_in_path`: the child of the root that the root path of `v` passes through -/
def firstInPath (g : Graph) (s : Nat) (pred : List (Option Nat)) : Nat → Nat → Nat
  | 0, v => v
  | fuel + 1, v =>
    if v = s then s
    else match treeParent g pred v with
      | none => 0
      | some p => if p = s then v else firstInPath g s pred fuel p

def buildTree (g : Graph) (s : Nat) : SPTree :=
  let st := lexDijkstra g s
  { source := s,
    dist := (List.range g.n).map fun v =>
      if v = s then some 0 else match st.pred.getD v none, st.lab.getD v none with
        | some _, some l => some l.dist
        | _, _ => none,
    pred := st.pred,
    first := (List.range g.n).map fun v =>
      if v = s then s else match st.pred.getD v none with
        | some _ => firstInPath g s st.pred g.n v
        | none => 0 }

def SPTree.hasNode (t : SPTree) (v : Nat) : Bool := (t.dist.getD v none).isSome

/-- the root path of `v` as a list of edge ids (from `v` up to the root) -/
def rootPath (g : Graph) (t : SPTree) : Nat → Nat → List Nat
  | 0, _ => []
  | fuel + 1, v =>
    match t.pred.getD v none with
    | none => []
    | some e => e :: rootPath g t fuel (g.other e v)

/-- `update_parities(edges)`: parity of the number of signed edges on the root path -/
def treeParity (g : Graph) (t : SPTree) (signed : List Nat) (v : Nat) : Bool :=
  par (rootPath g t g.n v) (fun e => signed.contains e)

/-- a candidate: (tree id, non-tree edge, recorded weight) -/
structure Cand where
  tree : Nat
  edge : Nat
  weight : Int
deriving Repr, DecidableEq

/-- `SPTree::create_candidate_cycles()` over the given edge list -/
def createCandidates (g : Graph) (t : SPTree) (treeId : Nat) (edgesToScan : List Nat) : List Cand :=
  let treeEdges := (List.range g.n).filterMap fun v => t.pred.getD v none
  edgesToScan.filterMap fun e =>
    if treeEdges.contains e then none
    else
      let v := g.src e; let u := g.tgt e
      match t.dist.getD v none, t.dist.getD u none with
      | some dv, some du =>
        if t.first.getD v 0 = t.first.getD u 0 then none
        else some { tree := treeId, edge := e, weight := g.weight e + dv + du }
      | _, _ => none

/-- `CandidateCycleBuilder` without weight limit: the edge set of a candidate, `none` when the two root
paths share an edge -/
def unfoldCand (g : Graph) (t : SPTree) (c : Cand) : Option (List Nat) :=
  let p1 := rootPath g t g.n (g.src c.edge)
  let p2 := rootPath g t g.n (g.tgt c.edge)
  let all := c.edge :: (p1 ++ p2)
  if all.eraseDups.length = all.length then some (setOf all) else none

/-- is the candidate odd against the signed edge set?  (`v->parity() ^ u->parity() ^ signed(e)`) -/
def candOdd (g : Graph) (t : SPTree) (signed : List Nat) (c : Cand) : Bool :=
  xor (xor (treeParity g t signed (g.src c.edge)) (treeParity g t signed (g.tgt c.edge))) (signed.contains c.edge)

/-- `HortonCyclesBuilder` -/
def hortonCands (g : Graph) : List SPTree × List Cand :=
  let trees := (List.range g.n).map (buildTree g)
  (trees, (trees.zipIdx).flatMap fun (t, i) => createCandidates g t i (List.range g.m))

/-- `FVSCyclesBuilder`, given the feedback vertex set the C++ computed (in emission order) -/
def fvsCands (g : Graph) (fvs : List Nat) : List SPTree × List Cand :=
  let trees := fvs.map (buildTree g)
  (trees, (trees.zipIdx).flatMap fun (t, i) => createCandidates g t i (List.range g.m))

end Parmcb
