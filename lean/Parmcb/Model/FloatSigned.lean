import Parmcb.Model.HeapAlgo
import Parmcb.Model.Float
/-!
# `mcb_sva_signed` in double arithmetic, literally (C09)

A copy of the literal-heap model of `bidirectional_signed_dijkstra` and of the phase loop of `mcb_sva_signed`
(Model/Heap.lean `biScanH` / `biLoopH` / `biSearchH`, Model/HeapAlgo.lean, Model/SignedAlgo.lean `hiddenTake`,
`mcbSignedCore`) in which the five weight additions of the code are binary64 additions (`Float.fadd`):
`combine(d_u, w(e))`, `combine(c, other_dist)`, `combine(f_min, o_min)` of the stop test, `std::get<1>(res) += w(se)` of the
hidden-edge loop and `mcb_weight += …`, plus the accumulation `cycle_weight += w(e)` along the reconstructed walk (the weight a
search returns — NOT the `best_path` that the limit test uses; the first version of this file returned `best_path` and the replay
disagreed with the code by one ulp in the returned value of some runs: repaired here, in the model); every comparison compares
the rounded values.  Weights are doubles scaled to integers.
No theorem is proved about this file (the theorems of Props/C09.lean are about `Float.fadd`, Dijkstra and de Pina with a
rational factor); it exists so that the correspondence can demand EQUALITY of the emitted cycles on inexact weights, i.e.
that "the code in double arithmetic" is what the C09 analysis talks about.  Core Lean only.
-/
namespace Parmcb
open Parmcb.Float

def biScanHF (limit : Option Int) (u : Nat) (du : Int) : List (Nat × Int × Nat) → BiStateH → BiStateH
  | [], st => st
  | (w, c, e) :: r, st =>
    let cw := fadd du c
    if (match limit with | some l => !(cw < l) | none => false) then biScanHF limit u du r st
    else
      let f' := st.f.update w cw u e
      let (best', common') :=
        if w == st.b.src || (st.b.dist[w]!).isSome then
          match st.b.dist[w]! with
          | some dbw =>
            let p := fadd cw dbw
            match st.best with
            | none => (some p, w)
            | some bb => if p < bb then (some p, w) else (some bb, st.common)
          | none => (st.best, st.common)
        else (st.best, st.common)
      biScanHF limit u du r { st with f := f', best := best', common := common' }

def biLoopHF (adjE : Array (List (Nat × Int × Nat))) (limit : Option Int) :
    Nat → BiStateH → Option BiStateH
  | 0, st => some st
  | fuel + 1, st =>
    let stop :=
      st.f.heap.size == 0 || st.b.heap.size == 0 ||
      (match st.best, st.f.findMin, st.b.findMin with
       | some bb, some x, some y => !(fadd x y < bb)
       | _, _, _ => false)
    if stop then some st
    else
      let u := st.f.heap[0]!
      match st.f.dist[u]! with
      | none => some st
      | some du =>
        if (match limit with | some l => !(du < l) | none => false) then none
        else
          let st1 : BiStateH := { st with f := { st.f with heap := heapPop st.f.dist st.f.heap } }
          let st2 := biScanHF limit u du adjE[u]! st1
          biLoopHF adjE limit fuel { f := st2.b, b := st2.f, best := st2.best, common := st2.common }

/-- `bidirectional_signed_dijkstra` in double arithmetic.  The limit test uses the computed `best_path`; the returned weight is
`cycle_weight`, accumulated edge by edge (`cycle_weight += w(e)`) in the order in which the two predecessor walks insert the
edges: from the meeting node back to the source of the current frontier, then back to the source of the other one. -/
def biSearchHF (adjE : Array (List (Nat × Int × Nat))) (wOf : Nat → Int) (limit : Option Int) (s t : Nat) : Option (Int × List Nat) :=
  match biLoopHF adjE limit (2 * adjE.size + 2)
      { f := FrontierH.init adjE.size s, b := FrontierH.init adjE.size t, best := none, common := 0 } with
  | none => none
  | some st =>
    match st.best with
    | none => none
    | some b =>
      if (match limit with | some l => !(b < l) | none => false) then none
      else
        match tracePath st.f.toP (adjE.size + 1) st.common [] with
        | none => none
        | some acc1 =>
          match tracePath st.b.toP (adjE.size + 1) st.common acc1 with
          | none => none
          | some acc2 => some (fsum (acc2.reverse.map wOf), setOf acc2)

def searchSignedHF (g : Graph) (ord : List Nat) (S hidden : List Nat) (s : Nat) (sPos : Bool) (t : Nat) (tPos : Bool)
    (limit : Option Int) : Cyc (List Nat) :=
  biSearchHF (sgAdjE g ord S hidden) g.weight limit (sgNode g.n s sPos) (sgNode g.n t tPos)

def allVerticesLoopHF (g : Graph) (ord : List Nat) (S : List Nat) : Cyc (List Nat) :=
  seqMin (fun v L => searchSignedHF g ord S [] v true v false L) 0 g.n

def hiddenTakeF (g : Graph) (e : Nat) (best res : Cyc (List Nat)) : Cyc (List Nat) :=
  match res with
  | none => best
  | some (w, Z) =>
    if Z.contains e then best
    else
      let w' := fadd w (g.weight e)
      match best with
      | none => some (w', setInsert e Z)
      | some b => if w' < b.1 then some (w', setInsert e Z) else some b

def hiddenLoopHF (g : Graph) (ord : List Nat) (S : List Nat) : List Nat → Cyc (List Nat) → Cyc (List Nat)
  | [], best => best
  | e :: rest, best =>
    hiddenLoopHF g ord S rest
      (hiddenTakeF g e best (searchSignedHF g ord S (e :: rest) (g.src e) true (g.tgt e) true (best.map (·.1))))

def signedPhaseSearchHF (g : Graph) (ord : List Nat) (σ : List Nat) (S : List Nat) : Cyc (List Nat) :=
  if g.n ≤ S.length then allVerticesLoopHF g ord S else hiddenLoopHF g ord S σ none

/-- the phases of `mcb_sva_signed` (support bookkeeping of Model/SignedAlgo.lean) with `mcb_weight += …` in double arithmetic -/
def mcbSignedCoreF (N : Nat) (sup0 : List (List Nat)) (search : Nat → List Nat → Cyc (List Nat)) : McbResult :=
  let ph := signedPhases .signed search N 0 sup0
  { cycles := ph.map (·.1), weight := ph.foldl (fun acc p => fadd acc p.2) 0 }

end Parmcb
