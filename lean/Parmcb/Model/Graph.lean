import Parmcb.Model.Gf2
/-
Graph model shared by every property: the picture a client of
`boost::adjacency_list<vecS, vecS, undirectedS, no_property, property<edge_weight_t, W>>` has.

* vertices are `0 … n-1` (vertex_descriptor = index for vecS);
* `edges` is the edge list in insertion order = the iteration order of `boost::edges(g)`;
  the position of an edge in that list is its *edge id*;
* `out_edges(u, g)` lists the edges incident to `u` in insertion order, the "target" seen from `u`
  being the other endpoint (`adj`).  These iteration-order facts about Boost are trusted and are
  exercised by every literal correspondence check.

Weights are `Int` (the harness scales dyadic doubles by a power of two).  Core Lean only.
-/
namespace Parmcb

structure Graph where
  n : Nat
  edges : List (Nat × Nat × Int)
deriving Repr

namespace Graph

def m (g : Graph) : Nat := g.edges.length
def src (g : Graph) (e : Nat) : Nat := (g.edges.getD e (0, 0, 0)).1
def tgt (g : Graph) (e : Nat) : Nat := (g.edges.getD e (0, 0, 0)).2.1
def weight (g : Graph) (e : Nat) : Int := (g.edges.getD e (0, 0, 0)).2.2

/-- the endpoint of `e` that is not `v` (for a loop: `v` itself) -/
def other (g : Graph) (e v : Nat) : Nat := if g.src e = v then g.tgt e else g.src e

/-- `out_edges(u, g)` as (edge id, opposite endpoint), insertion order.  A self-loop is listed twice,
as Boost does. -/
def adj (g : Graph) (u : Nat) : List (Nat × Nat) :=
  (List.range g.m).flatMap fun e =>
    (if g.src e = u then [(e, g.tgt e)] else []) ++ (if g.tgt e = u then [(e, g.src e)] else [])

/-- endpoints in range, no self-loop, no repeated unordered pair -/
def simpleB (g : Graph) : Bool :=
  (List.range g.m).all fun e =>
    decide (g.src e < g.n) && decide (g.tgt e < g.n) && decide (g.src e ≠ g.tgt e) &&
    (List.range e).all fun f =>
      !((g.src f == g.src e && g.tgt f == g.tgt e) || (g.src f == g.tgt e && g.tgt f == g.src e))

def positiveB (g : Graph) : Bool := (List.range g.m).all fun e => decide (0 < g.weight e)

/-- `v` is an endpoint of `e`, as a GF(2) incidence entry (a loop contributes 0) -/
def inc (g : Graph) (v e : Nat) : Bool := xor (g.src e == v) (g.tgt e == v)

end Graph

/-- xor of `f` over a list: parities of all kinds are instances of this -/
def par (l : List Nat) (f : Nat → Bool) : Bool := l.foldr (fun e acc => xor (f e) acc) false

/-- total weight of an edge set -/
def wt (g : Graph) (Z : List Nat) : Int := (Z.map g.weight).sum

/-- executable: `Z` is a canonical edge set of `g` with even degree everywhere -/
def evenSetB (g : Graph) (Z : List Nat) : Bool :=
  strictSortedB Z && Z.all (fun e => decide (e < g.m)) && (List.range g.n).all (fun v => !(par Z (g.inc v)))

end Parmcb
