import Parmcb.Model.ApproxAlgo
import Parmcb.Model.FloatCert
/-!
# `parmcb::dijkstra` in double arithmetic (C09)

The literal model of `parmcb::dijkstra` (Model/ApproxAlgo.lean: `dijkScan`, `dijkLoop`, `dijkstraP`) with the one
arithmetic operation of the loop, `combine(d_u, weight)`, replaced by the binary64 addition `Float.fadd`; comparisons
(`compare(c, dist[w])`, the heap order) compare the rounded values.  Weights are doubles scaled to integers.
The heap is "a queued vertex of minimum label chosen by `pick`", as in the exact model.  Core Lean only.
-/
namespace Parmcb
open Parmcb.Float

def fdijkScan (u : Nat) (du : Int) : List (Nat × Int × Nat) → FrontierP → FrontierP
  | [], f => f
  | (w, c, e) :: r, f => fdijkScan u du r (f.update w (fadd du c) u e)

def fdijkLoop (adjE : Array (List (Nat × Int × Nat))) (pick : Pick) : Nat → FrontierP → FrontierP
  | 0, f => f
  | fuel + 1, f =>
    if f.queue.isEmpty then f
    else
      let u := pick fuel f.toF.minNodes
      match f.dist[u]! with
      | none => f
      | some du => fdijkLoop adjE pick fuel (fdijkScan u du adjE[u]! { f with queue := f.queue.erase u })

/-- `parmcb::dijkstra(g, weight, s, dist_map, pred_map)` on double weights -/
def fdijkstraP (g : Graph) (pick : Pick) (s : Nat) : FrontierP :=
  fdijkLoop (plainAdjE g) pick (g.n + 1) (FrontierP.init g.n s)

/-- the predecessor walk of `w` as steps (from, to, weight), source first -/
def fwalkBack (g : Graph) (f : FrontierP) : Nat → Nat → List FEdge → Option (List FEdge)
  | 0, _, _ => none
  | fuel + 1, w, acc =>
    if w == f.src then some acc
    else match f.pred[w]! with
      | none => none
      | some (u, e) => fwalkBack g f fuel u ((u, w, g.weight e) :: acc)

def fpaths (g : Graph) (f : FrontierP) : List (Option (List FEdge)) :=
  (List.range g.n).map fun v => if (f.dist[v]!).isSome then fwalkBack g f (g.n + 1) v [] else none

end Parmcb
