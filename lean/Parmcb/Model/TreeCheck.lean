import Parmcb.Model.Lex
import Parmcb.Model.Spanner
/-
Executable certificate checks for shortest-path trees (C12) with soundness theorems in
Lemmas/Trees.lean: the driver runs them on the model's trees AND on the trees dumped by the C++.
Core Lean only.
-/
namespace Parmcb

/-- tree shape + exactness certificate: the root has distance 0 and no predecessor; every other node hangs
off a node by its predecessor edge with `dist = dist(parent) + w`; no edge of the graph can relax a label;
a vertex without node has no neighbour with a node -/
def checkSPT (g : Graph) (t : SPTree) : Bool :=
  let s := t.source
  decide (s < g.n) && decide (t.dist.length = g.n) && decide (t.pred.length = g.n) &&
  (t.dist.getD s none == some 0) && (t.pred.getD s none == none) &&
  (List.range g.n).all (fun v =>
    if v = s then true else
    match t.dist.getD v none, t.pred.getD v none with
    | none, none => true
    | some dv, some e =>
      decide (e < g.m) && (g.src e == v || g.tgt e == v) &&
      (match t.dist.getD (g.other e v) none with
       | some dp => dv == dp + g.weight e
       | none => false)
    | _, _ => false) &&
  (List.range g.m).all (fun e =>
    match t.dist.getD (g.src e) none, t.dist.getD (g.tgt e) none with
    | some a, some b => decide (b ≤ a + g.weight e) && decide (a ≤ b + g.weight e)
    | none, none => true
    | _, _ => false)

/-- the `first` labels are what `compute_first_in_path` must produce: the root maps to itself, a child of the
root to itself, every deeper node inherits its parent's label -/
def checkFirst (g : Graph) (t : SPTree) : Bool :=
  let s := t.source
  decide (t.first.length = g.n) && (t.first.getD s 0 == s) &&
  (List.range g.n).all (fun v =>
    if v = s then true else
    match t.pred.getD v none with
    | none => true
    | some e =>
      let p := g.other e v
      if p = s then t.first.getD v 0 == v else t.first.getD v 0 == t.first.getD p 0)

/-- the tree path `a → b` in the tree rooted at `a`, as a canonical edge set -/
def treePathSet (g : Graph) (t : SPTree) (b : Nat) : List Nat := setOf (rootPath g t g.n b)

/-- mutual consistency of a family of trees (one per vertex, `trees[a]` rooted at `a`): reversal and
sub-path closure, checked on edge sets -/
def checkConsistent (g : Graph) (trees : List SPTree) : Bool :=
  (List.range g.n).all fun a => (List.range g.n).all fun b =>
    match trees[a]?, trees[b]? with
    | some ta, some tb =>
      -- reversal: the path a→b in tree a is the path b→a in tree b
      (treePathSet g ta b == treePathSet g tb a) &&
      -- sub-path: for the predecessor p of b on the path a→b, the path a→p is the path a→b minus the last edge,
      -- and in tree p the path p→b is that single edge
      (match ta.pred.getD b none with
       | none => true
       | some e =>
         let p := g.other e b
         match trees[p]? with
         | some tp => treePathSet g tp b == [e]
         | none => false)
    | _, _ => false

end Parmcb
