import Parmcb.Model.Graph
/-
Model of `read_dimacs_from_file`, `has_loops`, `has_multiple_edges`, `has_non_positive_weights`
(include/parmcb/util.hpp).  Core Lean only.

Two layers:
* character level — what happens to every line buffer before it is looked at (`stripNewline`), and the
  glue that tokenises a well-formed line the way `sscanf("p %s %lu %lu")` / `sscanf("%c %d %d %lf")` do
  (`classify`; a hand-written tokenizer on `List Char`, exercised by the correspondence; Props/C10 proves
  that it inverts a text renderer);
* line level — the interpretation of the classified lines (`interp`), about which the round-trip theorem
  is stated.
Weights are kept as exact decimals `mantissa / 10^exp` (the decimal → double rounding of `strtod` is trusted).
-/
namespace Parmcb

/-- the repaired newline handling: only a trailing `'\n'` is removed from the buffer -/
def stripNewline (cs : List Char) : List Char :=
  match cs.getLast? with
  | some '\n' => cs.dropLast
  | _ => cs

/-- the pinned code (`buffer[strlen(buffer) - 1] = '\0'`) removed the last character whatever it was -/
def stripLastPinned (cs : List Char) : List Char := cs.dropLast

/-- an exact decimal weight -/
structure Dec where
  mant : Int
  exp : Nat       -- value = mant / 10^exp
deriving Repr, DecidableEq

def Dec.one : Dec := { mant := 1, exp := 0 }

inductive DLine where
  | comment
  | problem (n : Nat)
  | edge (u v : Int) (w : Dec)       -- `w` = 1 when the line carries no weight
  | other                            -- anything else is skipped by the reader
deriving Repr, DecidableEq

/-! #### a hand-written tokenizer on `List Char` (easy to reason about; see `Parmcb/Lemmas/Dimacs.lean`) -/

/-- split at every occurrence of `sep` (what `String.splitOn` does for a one-character separator) -/
def splitCh (sep : Char) : List Char → List (List Char)
  | [] => [[]]
  | c :: cs =>
    if c = sep then [] :: splitCh sep cs
    else match splitCh sep cs with
      | t :: ts => (c :: t) :: ts
      | [] => [[c]]

/-- the fields of a line: maximal runs of non-space characters -/
def tokens (cs : List Char) : List (List Char) := (splitCh ' ' cs).filter fun t => !t.isEmpty

/-- a non-empty string of decimal digits -/
def parseNat (cs : List Char) : Option Nat :=
  if !cs.isEmpty && cs.all Char.isDigit then some (Nat.ofDigitChars 10 cs 0) else none

/-- decimal digits with an optional leading `-` (no `+`, as `String.toInt?`) -/
def parseInt : List Char → Option Int
  | '-' :: cs => (parseNat cs).map fun (n : Nat) => -(n : Int)
  | cs => (parseNat cs).map fun (n : Nat) => (n : Int)

/-- parse an (optionally signed, optionally fractional) decimal token -/
def parseDec (cs : List Char) : Option Dec :=
  let neg := cs.head? == some '-'
  let body := if neg || cs.head? == some '+' then cs.drop 1 else cs
  match splitCh '.' body with
  | [i] => (parseNat i).map fun (n : Nat) => { mant := if neg then -(n : Int) else (n : Int), exp := 0 }
  | [i, f] =>
    match (if i.isEmpty then some 0 else parseNat i), (if f.isEmpty then some 0 else parseNat f) with
    | some a, some b =>
      let m : Int := (a * 10 ^ f.length + b : Nat)
      some { mant := if neg then -m else m, exp := f.length }
    | _, _ => none
  | _ => none

/-- `classify` on the characters of the line -/
def classifyL (line : List Char) : DLine :=
  match line with
  | 'c' :: _ | '#' :: _ => .comment
  | 'p' :: _ =>
    match tokens line with
    | _ :: _ :: n :: _ => match parseNat n with
      | some n => .problem n
      | none => .other
    | _ => .other
  | 'a' :: rest | 'e' :: rest =>
    match tokens rest with
    | [u, v] => match parseInt u, parseInt v with
      | some u, some v => .edge u v Dec.one
      | _, _ => .other
    | u :: v :: w :: _ => match parseInt u, parseInt v, parseDec w with
      | some u, some v, some w => .edge u v w
      | _, _, _ => .other
    | _ => .other
  | _ => .other

/-- tokenisation glue for well-formed lines (after `stripNewline`) -/
def classify (line : String) : DLine := classifyL line.toList

/-- the graph under construction: vertex count and edges (0-based endpoints, exact weight) in file order -/
structure DGraph where
  n : Nat
  edges : List (Nat × Nat × Dec)
deriving Repr, DecidableEq

/-- one loop iteration of the reader on a classified line; `none` = `throw std::system_error("Vertex not found")` -/
def interpLine (g : DGraph) : DLine → Option DGraph
  | .comment => some g
  | .other => some g
  | .problem n => some { g with n := g.n + n }        -- `add_vertex` n times, numbered 1..n
  | .edge u v w =>
    if 1 ≤ u ∧ u ≤ g.n ∧ 1 ≤ v ∧ v ≤ g.n then
      some { g with edges := g.edges ++ [((u - 1).toNat, (v - 1).toNat, w)] }
    else none

def interp (ls : List DLine) : Option DGraph :=
  ls.foldlM interpLine { n := 0, edges := [] }

/-- the whole reader on the text of a file (lines as `fgets` delivers them: each but possibly the last one
ends with `'\n'`) -/
def readDimacs (rawLines : List String) : Option DGraph :=
  interp (rawLines.map fun l => classify (String.ofList (stripNewline l.toList)))

/-! ### validators (on arbitrary multigraphs) -/

/-- `has_loops` -/
def hasLoops (g : Graph) : Bool := (List.range g.m).any fun e => g.src e == g.tgt e

/-- `has_multiple_edges`: per vertex, insert the opposite endpoints of its out-edges into a set and report
the first duplicate -/
def hasMultipleEdges (g : Graph) : Bool :=
  (List.range g.n).any fun v =>
    let nb := (g.adj v).map (·.2)
    decide (nb.eraseDups.length ≠ nb.length)

/-- `has_non_positive_weights` -/
def hasNonPositiveWeights (g : Graph) : Bool := (List.range g.m).any fun e => decide (g.weight e ≤ 0)

end Parmcb
