import Parmcb.Model.Graph
/-
Model of `read_dimacs_from_file`, `has_loops`, `has_multiple_edges`, `has_non_positive_weights`
(include/parmcb/util.hpp).  Core Lean only.

Two layers:
* character level — what happens to every line buffer before it is looked at (`stripNewline`), and the
  glue that tokenises a well-formed line the way `sscanf("p %s %lu %lu")` / `sscanf("%c %d %d %lf")` do
  (`classify`; executable, exercised by the correspondence, not reasoned about);
* line level — the interpretation of the classified lines (`interp`), about which the round-trip theorem
  is stated.
Weights are kept as exact decimals `mantissa / 10^exp` (the decimal → double rounding of `strtod` is trusted).
-/
namespace Parmcb

/-- the repaired newline handling: only a trailing `'\n'` is removed from the buffer -/
def stripNewline (cs : List Char) : List Char :=
  match cs.getLast? with
  | some '\n' => cs.dropLast
  | _ => cs

/-- the pinned code (`buffer[strlen(buffer) - 1] = '\0'`) removed the last character whatever it was -/
def stripLastPinned (cs : List Char) : List Char := cs.dropLast

/-- an exact decimal weight -/
structure Dec where
  mant : Int
  exp : Nat       -- value = mant / 10^exp
deriving Repr, DecidableEq

def Dec.one : Dec := { mant := 1, exp := 0 }

inductive DLine where
  | comment
  | problem (n : Nat)
  | edge (u v : Int) (w : Dec)       -- `w` = 1 when the line carries no weight
  | other                            -- anything else is skipped by the reader
deriving Repr, DecidableEq

/-- parse an (optionally signed, optionally fractional) decimal token -/
def parseDec (s : String) : Option Dec :=
  let neg := s.startsWith "-"
  let body := if neg || s.startsWith "+" then (s.drop 1).toString else s
  match body.splitOn "." with
  | [i] => i.toNat?.map fun n => { mant := if neg then -(n : Int) else n, exp := 0 }
  | [i, f] =>
    match (if i = "" then some 0 else i.toNat?), (if f = "" then some 0 else f.toNat?) with
    | some a, some b =>
      let m : Int := (a * 10 ^ f.length + b : Nat)
      some { mant := if neg then -m else m, exp := f.length }
    | _, _ => none
  | _ => none

/-- tokenisation glue for well-formed lines (after `stripNewline`) -/
def classify (line : String) : DLine :=
  match line.toList.head? with
  | some 'c' | some '#' => .comment
  | some 'p' =>
    match (line.splitOn " ").filter (· ≠ "") with
    | _ :: _ :: n :: _ => match n.toNat? with
      | some n => .problem n
      | none => .other
    | _ => .other
  | some 'a' | some 'e' =>
    match ((line.drop 1).toString.splitOn " ").filter (· ≠ "") with
    | [u, v] => match u.toInt?, v.toInt? with
      | some u, some v => .edge u v Dec.one
      | _, _ => .other
    | u :: v :: w :: _ => match u.toInt?, v.toInt?, parseDec w with
      | some u, some v, some w => .edge u v w
      | _, _, _ => .other
    | _ => .other
  | _ => .other

/-- the graph under construction: vertex count and edges (0-based endpoints, exact weight) in file order -/
structure DGraph where
  n : Nat
  edges : List (Nat × Nat × Dec)
deriving Repr, DecidableEq

/-- one loop iteration of the reader on a classified line; `none` = `throw std::system_error("Vertex not found")` -/
def interpLine (g : DGraph) : DLine → Option DGraph
  | .comment => some g
  | .other => some g
  | .problem n => some { g with n := g.n + n }        -- `add_vertex` n times, numbered 1..n
  | .edge u v w =>
    if 1 ≤ u ∧ u ≤ g.n ∧ 1 ≤ v ∧ v ≤ g.n then
      some { g with edges := g.edges ++ [((u - 1).toNat, (v - 1).toNat, w)] }
    else none

def interp (ls : List DLine) : Option DGraph :=
  ls.foldlM interpLine { n := 0, edges := [] }

/-- the whole reader on the text of a file (lines as `fgets` delivers them: each but possibly the last one
ends with `'\n'`) -/
def readDimacs (rawLines : List String) : Option DGraph :=
  interp (rawLines.map fun l => classify (String.ofList (stripNewline l.toList)))

/-! ### validators (on arbitrary multigraphs) -/

/-- `has_loops` -/
def hasLoops (g : Graph) : Bool := (List.range g.m).any fun e => g.src e == g.tgt e

/-- `has_multiple_edges`: per vertex, insert the opposite endpoints of its out-edges into a set and report
the first duplicate -/
def hasMultipleEdges (g : Graph) : Bool :=
  (List.range g.n).any fun v =>
    let nb := (g.adj v).map (·.2)
    decide (nb.eraseDups.length ≠ nb.length)

/-- `has_non_positive_weights` -/
def hasNonPositiveWeights (g : Graph) : Bool := (List.range g.m).any fun e => decide (g.weight e ≤ 0)

end Parmcb
