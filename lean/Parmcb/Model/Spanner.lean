import Parmcb.Model.Graph
/-
Model of include/parmcb/detail/bfs.hpp (`is_bfs_reachable`) and of the spanner construction and cycle
assembly of include/parmcb/detail/approx_spanner.hpp (`BaseApproxSpannerAlgorithm`,
`NonSpannerEdgesCycleBuilder`).  Core Lean only.

The spanner is represented by the list of RETAINED edge ids of the input graph `g`, in the order they
were added (the spanner graph's own edge list); its vertices are those of `g` (`_vertex_g_to_spanner`
is the identity on indices), its weights are the input's weights, `_edge_spanner_to_g` maps the i-th
spanner edge to `retained[i]`.

`scan` — the order in which `std::sort` (unstable) leaves the edges: any permutation of the edge ids
with non-decreasing weights; an explicit argument.
-/
namespace Parmcb

/-- `out_edges(u, spanner)`: neighbours of `u` in the spanner, in insertion order -/
def spAdj (g : Graph) (retained : List Nat) (u : Nat) : List Nat :=
  retained.flatMap fun e =>
    (if g.src e = u then [g.tgt e] else []) ++ (if g.tgt e = u then [g.src e] else [])

/-- `2 * _k - 1` in `size_t` arithmetic (`k = 0` wraps to SIZE_MAX: no hop limit at all) -/
def hopBound (k : Nat) : Nat := if k = 0 then 2 ^ 64 - 1 else 2 * k - 1

/-- the `for` loop over the out-edges of `u`: enqueue every neighbour that is neither `u` itself, nor the
source, nor already visited -/
def bfsScan (s u du : Nat) : List Nat → List Nat → List (Nat × Nat) → List Nat × List (Nat × Nat)
  | [], vis, q => (vis, q)
  | w :: r, vis, q =>
    if w = u then bfsScan s u du r vis q
    else if w = s then bfsScan s u du r vis q
    else if vis.contains w then bfsScan s u du r vis q
    else bfsScan s u du r (w :: vis) (q ++ [(w, du + 1)])

/-- `is_bfs_reachable(spanner, s, t, max_hops)`; queue entries carry their distance; one unit of fuel per pop -/
def bfsReach (g : Graph) (retained : List Nat) (s t maxHops : Nat) : Nat → List Nat → List (Nat × Nat) → Bool
  | 0, _, _ => false
  | _ + 1, _, [] => false
  | fuel + 1, vis, (u, du) :: q =>
    if du > maxHops then false
    else if u = t then true
    else
      let (vis', q') := bfsScan s u du (spAdj g retained u) vis q
      bfsReach g retained s t maxHops fuel vis' q'

def isBfsReachable (g : Graph) (retained : List Nat) (s t maxHops : Nat) : Bool :=
  bfsReach g retained s t maxHops (g.n + 1) [] [(s, 0)]

/-- `construct_spanner()`: returns (retained edges in spanner order, `_non_spanner_edges`) -/
def constructSpanner (g : Graph) (k : Nat) (scan : List Nat) : List Nat × List Nat :=
  scan.foldl (fun (acc : List Nat × List Nat) e =>
      if isBfsReachable g acc.1 (g.src e) (g.tgt e) (hopBound k) then (acc.1, acc.2 ++ [e])
      else (acc.1 ++ [e], acc.2)) ([], [])

/-- `scan` is a legal outcome of the sort: a permutation of the edge ids with non-decreasing weights -/
def scanOkB (g : Graph) (scan : List Nat) : Bool :=
  decide (scan.length = g.m) && (List.range g.m).all (fun e => scan.contains e) &&
  (List.range (scan.length - 1)).all fun i => decide (g.weight (scan.getD i 0) ≤ g.weight (scan.getD (i + 1) 0))

/-- the spanner as a graph of its own (what the exact phase runs on): same vertices, the retained
edges in spanner order carrying the INPUT's weights -/
def spannerGraph (g : Graph) (retained : List Nat) : Graph :=
  { n := g.n, edges := retained.map fun e => (g.src e, g.tgt e, g.weight e) }

/-- a walk: consecutive edges `es` leading from `a` to `b` -/
def isWalk (g : Graph) : List Nat → Nat → Nat → Bool
  | [], a, b => a == b
  | e :: r, a, b => (g.src e == a && isWalk g r (g.tgt e) b) || (g.tgt e == a && isWalk g r (g.src e) b)

/-- the cycle assembled for a dropped edge: a spanner path (as edge ids of `g`) followed by the edge -/
def edgeCycle (path : List Nat) (e : Nat) : List Nat := path ++ [e]

inductive ApproxOutcome where
  | error                                    -- `throw std::runtime_error("Invalid value of k < 1 …")`
  | ok (cycles : List (List Nat)) (ret : Int)
deriving Repr

/-- `BaseApproxSpannerAlgorithm::run`, given the exact phase's result on the spanner (cycles as spanner
edge positions, `exactRet`) and the shortest spanner paths chosen for the dropped edges (as edge ids of
`g`).  Emitted cycles are in edge ids of the CALLER's graph. -/
def approxRun (g : Graph) (k : Nat) (retained dropped : List Nat)
    (exactCycles : List (List Nat)) (paths : List (List Nat)) : ApproxOutcome :=
  if k < 1 then .error
  else
    let translated := exactCycles.map fun c => c.map fun i => retained.getD i 0
    let extra := (paths.zip dropped).map fun (p, e) => edgeCycle p e
    let all := translated ++ extra
    .ok all ((all.map (wt g)).sum)

end Parmcb
