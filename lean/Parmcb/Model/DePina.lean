import Parmcb.Model.Graph
/-
Model of the support-vector phases shared by
  parmcb_sva_signed.hpp (`.signed`), parmcb_sva_signed_tbb.hpp (`.signedTbb`),
  parmcb_sva_trees.hpp (`.trees`), mpi/parmcb_sva_signed.hpp and mpi/parmcb_sva_trees.hpp (`.mpi`).

Edge ids are ForestIndex numbers: ids `< N` are the non-forest coordinates.  Which minimum odd
cycle a phase emits is an open choice of the search procedures (ties), so the emitted cycles are
an argument; the support bookkeeping is literal.  Core Lean only.
-/
namespace Parmcb

inductive Variant where
  | signed | signedTbb | trees | mpi
deriving Repr, DecidableEq

/-- `support.emplace_back(k)` for `k = 0 … csd-1` -/
def unitSupports (N : Nat) : List (List Nat) := (List.range N).map fun k => [k]

def supSize (sup : List (List Nat)) (i : Nat) : Nat := (sup.getD i []).length

/-- the sparsest-support scan of `mcb_sva_signed`, including the early `break` once a support with
fewer than 5 entries is in hand:  `for r = k+1 …: if size[r] < size[min] then min = r; if size[min] < 5 break` -/
def sparsestSigned (sup : List (List Nat)) : Nat → Nat → Nat → Nat
  | 0, _, mn => mn
  | cnt + 1, r, mn =>
    let mn' := if supSize sup r < supSize sup mn then r else mn
    if supSize sup mn' < 5 then mn' else sparsestSigned sup cnt (r + 1) mn'

/-- the full scan of `mcb_sva_signed_tbb` (no early break) -/
def sparsestFull (sup : List (List Nat)) : Nat → Nat → Nat → Nat
  | 0, _, mn => mn
  | cnt + 1, r, mn =>
    let mn' := if supSize sup r < supSize sup mn then r else mn
    sparsestFull sup cnt (r + 1) mn'

/-- which row is swapped into position `k` at the start of phase `k` -/
def swapIndex (v : Variant) (sup : List (List Nat)) (k : Nat) : Nat :=
  match v with
  | .signed => sparsestSigned sup (sup.length - (k + 1)) (k + 1) k
  | .signedTbb => sparsestFull sup (sup.length - (k + 1)) (k + 1) k
  | .trees => k
  | .mpi => k

/-- `std::swap(support[k], support[min_support])` -/
def swapAt (sup : List (List Nat)) (k r : Nat) : List (List Nat) :=
  match sup[k]?, sup[r]? with
  | some a, some b => (sup.set k b).set r a
  | _, _ => sup

/-- `for l = k+1 … csd-1: if (support[l] * cyclek == 1) support[l] += support[k];` -/
def updateSup (sup : List (List Nat)) (k : Nat) (cyc : List Nat) : List (List Nat) :=
  match sup[k]? with
  | none => sup
  | some Sk => sup.mapIdx fun l S => if k < l ∧ dotPar S cyc = true then xorMerge S Sk else S

/-- the support vector a phase searches with (after the swap) -/
def phaseSupport (v : Variant) (sup : List (List Nat)) (k : Nat) : List Nat :=
  (swapAt sup k (swapIndex v sup k)).getD k []

/-- one whole phase's bookkeeping, given the emitted cycle -/
def phaseStep (v : Variant) (sup : List (List Nat)) (k : Nat) (cyc : List Nat) : List (List Nat) :=
  updateSup (swapAt sup k (swapIndex v sup k)) k cyc

/-- supports after the phases `k, k+1, …` emitting `cycles` -/
def runSupports (v : Variant) : Nat → List (List Nat) → List (List Nat) → List (List Nat)
  | _, sup, [] => sup
  | k, sup, c :: cs => runSupports v (k + 1) (phaseStep v sup k c) cs

/-- the list of support vectors used by the phases (what the trace validation compares against) -/
def phaseSupports (v : Variant) : Nat → List (List Nat) → List (List Nat) → List (List Nat)
  | _, _, [] => []
  | k, sup, c :: cs => phaseSupport v sup k :: phaseSupports v (k + 1) (phaseStep v sup k c) cs

/-- xor of the sub-family selected by a mask (GF(2) linear combination of cycles) -/
def xorSel : List (List Nat) → List Bool → List Nat
  | [], _ => []
  | _, [] => []
  | c :: cs, b :: bs => if b then xorMerge c (xorSel cs bs) else xorSel cs bs

end Parmcb
