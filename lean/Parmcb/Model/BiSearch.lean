import Parmcb.Model.BiDijkstra
/-
Literal model of `bidirectional_signed_dijkstra` (include/parmcb/detail/signed_dijkstra.hpp:280-411) INCLUDING what
`Model/BiDijkstra.lean` leaves out: the predecessor records of the two `search_frontier`s, the meeting node
`best_path_common_vertex`, the reconstruction of the edge set from the meeting node back to both sources and the
"duplicate edge, discard cycle" test.

The search runs on an edge-labelled adjacency `adjE : Array (List (node × weight × edge id))`: entry `u` lists what the
`for` loop over `out_edges(u)` sees, in that order, after the hidden-edge and self-loop tests.  The two d-ary heaps are
again "a queued node of minimum label, chosen by `pick`"; theorems hold for every `pick`.  Forgetting the predecessor
records and the edge ids gives exactly the states of `Model/BiDijkstra.lean` (`Lemmas/BiSearch.lean`).  Core Lean only.
-/
namespace Parmcb

/-- `search_frontier` with its `pred` vector: `pred[w] = (u, e)` = reached from node `u` over edge `e` -/
structure FrontierP where
  src : Nat
  dist : Array (Option Int)
  pred : Array (Option (Nat × Nat))
  queue : List Nat
deriving Repr

/-- forget the predecessor records -/
def FrontierP.toF (f : FrontierP) : Frontier := { src := f.src, dist := f.dist, queue := f.queue }

def FrontierP.init (N s : Nat) : FrontierP :=
  { src := s, dist := (Array.replicate N none).set! s (some 0), pred := Array.replicate N none, queue := [s] }

/-- `update(w, c, pred, pred_e)` -/
def FrontierP.update (f : FrontierP) (w : Nat) (c : Int) (u e : Nat) : FrontierP :=
  if w == f.src then f
  else match f.dist[w]! with
    | none => { f with dist := f.dist.set! w (some c), pred := f.pred.set! w (some (u, e)), queue := f.queue ++ [w] }
    | some dw => if c < dw then { f with dist := f.dist.set! w (some c), pred := f.pred.set! w (some (u, e)) } else f

structure BiStateP where
  f : FrontierP                -- the frontier scanned next
  b : FrontierP                -- the other frontier
  best : Option Int            -- `best_path` / `best_path_set`
  common : Nat                 -- `best_path_common_vertex`
deriving Repr

/-- the `for` loop over the out-edges of the popped node `u` -/
def biScanP (limit : Option Int) (u : Nat) (du : Int) : List (Nat × Int × Nat) → BiStateP → BiStateP
  | [], st => st
  | (w, c, e) :: r, st =>
    let cw := du + c
    if (match limit with | some l => !(cw < l) | none => false) then biScanP limit u du r st
    else
      let f' := st.f.update w cw u e
      let (best', common') :=
        if st.b.toF.hasFinite w then
          match st.b.dist[w]! with
          | some dbw =>
            let p := cw + dbw
            match st.best with
            | none => (some p, w)
            | some bb => if p < bb then (some p, w) else (some bb, st.common)
          | none => (st.best, st.common)
        else (st.best, st.common)
      biScanP limit u du r { st with f := f', best := best', common := common' }

/-- the `while (true)` loop; `none` = the "reached limit" exit from inside the loop -/
def biLoopP (adjE : Array (List (Nat × Int × Nat))) (pick : Pick) (limit : Option Int) :
    Nat → BiStateP → Option BiStateP
  | 0, st => some st
  | fuel + 1, st =>
    let stop :=
      st.f.queue.isEmpty || st.b.queue.isEmpty ||
      (match st.best, st.f.toF.findMin, st.b.toF.findMin with
       | some bb, some x, some y => !(x + y < bb)
       | _, _, _ => false)
    if stop then some st
    else
      let u := pick fuel st.f.toF.minNodes
      match st.f.dist[u]! with
      | none => some st
      | some du =>
        if (match limit with | some l => !(du < l) | none => false) then none
        else
          let st1 : BiStateP := { st with f := { st.f with queue := st.f.queue.erase u } }
          let st2 := biScanP limit u du adjE[u]! st1
          biLoopP adjE pick limit fuel { f := st2.b, b := st2.f, best := st2.best, common := st2.common }

/-- `while (signed_cur != signed_goal) { p = get_pred(cur); if (!cycle.insert(e).second) discard; cur = pred; }`
`acc` = edges inserted so far (most recent first); `none` = duplicate edge -/
def tracePath (f : FrontierP) : Nat → Nat → List Nat → Option (List Nat)
  | 0, _, acc => some acc
  | fuel + 1, cur, acc =>
    if cur == f.src then some acc
    else match f.pred[cur]! with
      | none => some acc                       -- unreachable: every labelled node other than the source has a record
      | some (u, e) => if acc.contains e then none else tracePath f fuel u (e :: acc)

/-- `bidirectional_signed_dijkstra` for `s ≠ t`: `some (weight, edge set)` or `none` (not found / beyond the limit /
duplicate edge).  `wOf` = the weight map. -/
def biSearch (adjE : Array (List (Nat × Int × Nat))) (pick : Pick) (wOf : Nat → Int) (limit : Option Int)
    (s t : Nat) : Option (Int × List Nat) :=
  match biLoopP adjE pick limit (2 * adjE.size + 2)
      { f := FrontierP.init adjE.size s, b := FrontierP.init adjE.size t, best := none, common := 0 } with
  | none => none
  | some st =>
    match st.best with
    | none => none
    | some b =>
      if (match limit with | some l => !(b < l) | none => false) then none
      else
        match tracePath st.f (adjE.size + 1) st.common [] with
        | none => none
        | some acc1 =>
          match tracePath st.b (adjE.size + 1) st.common acc1 with
          | none => none
          | some acc2 => some ((acc2.map wOf).sum, setOf acc2)

end Parmcb
