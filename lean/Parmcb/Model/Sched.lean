import Parmcb.Model.Gf2
/-
Model of the executions `tbb::parallel_reduce` (functional form), `tbb::parallel_for` and
`tbb::concurrent_vector::push_back` may legally produce (C03), and of the bodies / joins that
parmcb passes to them (parmcb_sva_signed_tbb.hpp, sptrees.hpp, detail/approx_spanner.hpp,
mpi/parmcb_sva_signed.hpp).  Core Lean only.

oneTBB's contract for `parallel_reduce(range, identity, real_body, reduction)`: the range is split
recursively into consecutive sub-ranges; a body object processes one or more ADJACENT sub-ranges in
increasing order, each time receiving its own running value (`seq`); a body that was split off starts
from `identity` and its result is later combined with its left neighbour's by
`reduction(left, right)` (`fork`).  `Sched` is exactly that shape; every theorem quantifies over it.
-/
namespace Parmcb

inductive Sched where
  | leaf (lo hi : Nat)
  | seq (l r : Sched)
  | fork (l r : Sched)
deriving Repr

/-- the schedule tiles `[lo, hi)` with consecutive leaves -/
inductive Sched.Covers : Sched → Nat → Nat → Prop
  | leaf (lo hi : Nat) (h : lo ≤ hi) : Covers (.leaf lo hi) lo hi
  | seq {l r : Sched} {lo mid hi : Nat} : Covers l lo mid → Covers r mid hi → Covers (.seq l r) lo hi
  | fork {l r : Sched} {lo mid hi : Nat} : Covers l lo mid → Covers r mid hi → Covers (.fork l r) lo hi

/-- executable version: the range a schedule covers, if it is a consecutive tiling -/
def Sched.range? : Sched → Option (Nat × Nat)
  | .leaf lo hi => if lo ≤ hi then some (lo, hi) else none
  | .seq l r | .fork l r =>
    match l.range?, r.range? with
    | some (a, b), some (c, d) => if b = c then some (a, d) else none
    | _, _ => none

/-- value computed by `parallel_reduce` under a schedule, for the body `body lo hi x` (process the
sub-range starting from running value `x`), reduction `join`, identity `ident`, incoming value `x` -/
def evalReduce {α : Type} (body : Nat → Nat → α → α) (join : α → α → α) (ident : α) : Sched → α → α
  | .leaf lo hi, x => body lo hi x
  | .seq l r, x => evalReduce body join ident r (evalReduce body join ident l x)
  | .fork l r, x => join (evalReduce body join ident l x) (evalReduce body join ident r ident)

/-- `tuple<set<Edge>, WeightType, bool>` : `none` = not found -/
abbrev Cyc (C : Type) := Option (Int × C)

/-- the three (identical) `cycle_min` lambdas: not-found is the identity, ties prefer the LEFT operand -/
def cycleMin {C : Type} (c1 c2 : Cyc C) : Cyc C :=
  match c1, c2 with
  | none, _ => c2
  | some a, none => some a
  | some a, some b => if ¬ (b.1 < a.1) then some a else some b

/-- `SerializableMinOddCycleMinOp` (MPI): not-found is the identity, ties prefer the RIGHT operand -/
def minOpMpi {C : Type} (l r : Cyc C) : Cyc C :=
  match l, r with
  | none, _ => r
  | some a, none => some a
  | some a, some b => if a.1 < b.1 then some a else some b

/-- one iteration of the reduce bodies: `res = search(i, limit = running)`; take it when it is found and
strictly lighter than the running minimum (or there is none yet) -/
def takeBetter {C : Type} (running : Cyc C) (res : Cyc C) : Cyc C :=
  match res, running with
  | none, _ => running
  | some r, none => some r
  | some r, some b => if r.1 < b.1 then some r else some b

/-- the `for (i = r.begin(); i < r.end(); i++)` loop of the reduce bodies; `srch i limit` is the search
for index `i` with the running weight as limit (`none` = no limit) -/
def minBody {C : Type} (srch : Nat → Option Int → Cyc C) : Nat → Nat → Cyc C → Cyc C
  | lo, hi, x => (List.range' lo (hi - lo)).foldl (fun run i => takeBetter run (srch i (run.map (·.1)))) x

/-- the whole `parallel_reduce` of the odd-cycle searches under a schedule -/
def reduceMin {C : Type} (srch : Nat → Option Int → Cyc C) (s : Sched) : Cyc C :=
  evalReduce (minBody srch) cycleMin none s none

/-- the sequential loop the parallel one replaces -/
def seqMin {C : Type} (srch : Nat → Option Int → Cyc C) (lo hi : Nat) : Cyc C := minBody srch lo hi none

/-- `parallel_reduce(range, WeightType(), accumulate, std::plus)` of the approximate variants -/
def reduceSum (ws : Nat → Int) (s : Sched) : Int :=
  evalReduce (fun lo hi x => (List.range' lo (hi - lo)).foldl (fun a i => a + ws i) x) (· + ·) 0 s 0

/-! ### parallel_for -/

/-- a `parallel_for` execution: the leaves (sub-ranges) in the order in which they happen to run -/
abbrev ForSched := List (Nat × Nat)

/-- the leaves tile `[lo,hi)` (in some order) -/
def ForSched.Tiles (fs : ForSched) (lo hi : Nat) : Prop :=
  (∀ l ∈ fs, lo ≤ l.1 ∧ l.1 ≤ l.2 ∧ l.2 ≤ hi) ∧
  ∀ i, lo ≤ i → i < hi → (fs.filter fun l => decide (l.1 ≤ i ∧ i < l.2)).length = 1

/-- run a per-index body (which updates a state) over the leaves in schedule order -/
def evalFor {σ : Type} (body : Nat → σ → σ) (fs : ForSched) (s : σ) : σ :=
  fs.foldl (fun st l => (List.range' l.1 (l.2 - l.1)).foldl (fun st i => body i st) st) s

/-- the body of the support update: `if (support[i] * cyclek == 1) support[i] += support[k];` -/
def updateRow (k : Nat) (cyc : List Nat) (i : Nat) (sup : List (List Nat)) : List (List Nat) :=
  match sup[i]?, sup[k]? with
  | some Si, some Sk => if dotPar Si cyc then sup.set i (xorMerge Si Sk) else sup
  | _, _ => sup

/-! ### footprints (abstract memory locations touched by a task) -/

inductive Loc where
  | support (i : Nat)      -- support[i]
  | cycle                  -- cyclek (read-only during the region)
  | treeParity (t : Nat)   -- trees[t].*->parity()
  | input                  -- graph, weight map, candidate list (never written)
  | out                    -- the concurrent vectors of the approximate variants (synchronised container)
deriving DecidableEq, Repr

/-- reads and writes of the task that runs the support update on `[lo,hi)` in phase `k` -/
def updateFootprint (k lo hi : Nat) : List Loc × List Loc :=
  ((Loc.support k :: Loc.cycle :: (List.range' lo (hi - lo)).map Loc.support),
   (List.range' lo (hi - lo)).map Loc.support)

/-- reads and writes of the task that refreshes the parities of trees `[lo,hi)` -/
def parityFootprint (lo hi : Nat) : List Loc × List Loc :=
  (Loc.input :: (List.range' lo (hi - lo)).map Loc.treeParity, (List.range' lo (hi - lo)).map Loc.treeParity)

/-- reads and writes of a reduce task (searches only read) -/
def searchFootprint (ntrees : Nat) : List Loc × List Loc :=
  (Loc.input :: (List.range ntrees).map Loc.treeParity, [])

/-- two tasks conflict when one writes what the other reads or writes -/
def conflict (a b : List Loc × List Loc) : Bool :=
  a.2.any (fun x => b.1.contains x || b.2.contains x) || b.2.any (fun x => a.1.contains x)

end Parmcb
