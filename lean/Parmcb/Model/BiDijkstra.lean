import Parmcb.Model.Signed
/-
Literal model of `bidirectional_signed_dijkstra` (include/parmcb/detail/signed_dijkstra.hpp) up to the value it
computes — `best_path` after the final limit test; the reconstruction of the edge set and the "duplicate edge, discard
cycle" test are not part of this model.  The search runs on the signed graph given as adjacency lists
`adj : Array (List (node × weight))` (`sgAdjHidden`); the two d-ary heaps are replaced by "a queued node of minimum
label, chosen by `pick` (indexed by the step) among the candidates" — the theorems hold for every `pick`.  Core Lean only.
-/
namespace Parmcb

/-- one `search_frontier`: source, labels (`none` = not reached: the `visited` flag of `pred_map`; the source carries
`some 0`), and the nodes currently in the heap -/
structure Frontier where
  src : Nat
  dist : Array (Option Int)
  queue : List Nat
deriving Repr

/-- `search_frontier(g)` followed by `push_source(s)` -/
def Frontier.init (N s : Nat) : Frontier :=
  { src := s, dist := (Array.replicate N none).set! s (some 0), queue := [s] }

/-- `has_finite_dist(w)` -/
def Frontier.hasFinite (f : Frontier) (w : Nat) : Bool := w == f.src || (f.dist[w]!).isSome

/-- `find_min()`: the smallest label in the heap -/
def Frontier.findMin (f : Frontier) : Option Int :=
  f.queue.foldl (fun acc v => match f.dist[v]!, acc with
    | some d, none => some d
    | some d, some a => if d < a then some d else some a
    | none, a => a) none

/-- the queued nodes carrying the smallest label: the heap may hand out any of them -/
def Frontier.minNodes (f : Frontier) : List Nat :=
  match f.findMin with
  | none => []
  | some m => f.queue.filter fun v => f.dist[v]! == some m

/-- `update(w, c, …)` -/
def Frontier.update (f : Frontier) (w : Nat) (c : Int) : Frontier :=
  if w == f.src then f
  else match f.dist[w]! with
    | none => { f with dist := f.dist.set! w (some c), queue := f.queue ++ [w] }      -- first time found
    | some dw => if c < dw then { f with dist := f.dist.set! w (some c) } else f       -- already reached: decrease-key

structure BiState where
  f : Frontier                 -- the frontier scanned next
  b : Frontier                 -- the other frontier
  best : Option Int            -- `best_path` (`none` = `best_path_set` is false)
deriving Repr

/-- the `for` loop over the out-edges of the popped node `u` (hidden edges and self-loops are not in `adj`) -/
def biScan (limit : Option Int) (du : Int) : List (Nat × Int) → BiState → BiState
  | [], st => st
  | (w, c) :: r, st =>
    let cw := du + c
    if (match limit with | some l => !(cw < l) | none => false) then biScan limit du r st     -- never insert beyond the limit
    else
      let f' := st.f.update w cw
      let best' :=
        if st.b.hasFinite w then
          match st.b.dist[w]! with
          | some dbw =>
            let p := cw + dbw
            match st.best with
            | none => some p
            | some bb => if p < bb then some p else some bb
          | none => st.best
        else st.best
      biScan limit du r { st with f := f', best := best' }

/-- the heap's tie-breaking oracle: `pick i l` chooses among the candidates `l` (the queued nodes of minimum label) in the
loop iteration with step index `i` (= the remaining fuel of that iteration).  A real heap's choice depends on its history,
not on the candidate list alone; indexing by the step makes every such behaviour an instance. -/
abbrev Pick := Nat → List Nat → Nat

/-- the `while (true)` loop; `none` = "reached limit" exit (`return {}, inf, false` from inside the loop);
one unit of fuel per iteration -/
def biLoop (adj : Array (List (Nat × Int))) (pick : Pick) (limit : Option Int) :
    Nat → BiState → Option (Option Int)
  | 0, st => some st.best
  | fuel + 1, st =>
    let stop :=
      st.f.queue.isEmpty || st.b.queue.isEmpty ||
      (match st.best, st.f.findMin, st.b.findMin with
       | some bb, some x, some y => !(x + y < bb)
       | _, _, _ => false)
    if stop then some st.best
    else
      let u := pick fuel st.f.minNodes
      match st.f.dist[u]! with
      | none => some st.best                       -- unreachable: a queued node always carries a label
      | some du =>
        if (match limit with | some l => !(du < l) | none => false) then none          -- reached limit
        else
          let st1 : BiState := { st with f := { st.f with queue := st.f.queue.erase u } }
          let st2 := biScan limit du adj[u]! st1
          biLoop adj pick limit fuel { f := st2.b, b := st2.f, best := st2.best }       -- swap frontiers

/-- the value `bidirectional_signed_dijkstra` computes for `s ≠ t`: `some w` = a path of weight `w` was found
(before the duplicate-edge test), `none` = not found -/
def biDijkstra (adj : Array (List (Nat × Int))) (pick : Pick) (limit : Option Int) (s t : Nat) : Option Int :=
  match biLoop adj pick limit (2 * adj.size + 2) { f := Frontier.init adj.size s, b := Frontier.init adj.size t, best := none } with
  | some (some b) => if (match limit with | some l => !(b < l) | none => false) then none else some b
  | _ => none

/-- a concrete heap: the first candidate -/
def pickHead : Pick := fun _ l => l.headD 0
/-- another one: the last candidate -/
def pickLast : Pick := fun _ l => l.getLastD 0

end Parmcb
