import Parmcb.Model.Iso
import Parmcb.Model.DePina
import Parmcb.Model.Forest
import Parmcb.Model.Fvs
import Parmcb.Model.Sched
/-
End-to-end literal model of the tree variants: `_mcb_sva_trees` (include/parmcb/parmcb_sva_trees.hpp) with
`CandidateCycleBuilder` and `ShortestOddCycleLookup` (include/parmcb/sptrees.hpp:489-680), sequential and TBB.

  ForestIndex  →  unit supports  →  CyclesBuilder (FVS / isometric)  →  std::sort by weight  →  csd phases:
      signed edges = support[k];  cycle = lookup(signed edges);  support update;  emit;  mcb_weight += weight

The model runs in ForestIndex coordinates (`reindex g fi`: edge `i` is the caller's edge `fi.reverse[i]`), so that the
support vectors ARE sets of edge ids and `convert_edges` is the identity; the emitted cycles are translated back through
the index-to-edge lookup exactly as `convert_edges`/`forest_index(i)` do.  (The C++ builds its trees on the caller's
graph; lexicographic shortest-path trees do not depend on the edge numbering — that step is tied by the correspondence,
which compares the literal phases of this model with the cycles the C++ emits, phase by phase.)

What `std::sort` does with candidates of equal weight is left open: the sorted list is produced by a parameter
`sorter`, and the theorems hold for EVERY `sorter` that returns a weight-sorted permutation (`SortOK`).  In the
correspondence the observed sorted list (hook `report_candidates`) is fed in.  Core Lean only.
-/
namespace Parmcb

/-- `std::tuple<std::set<Edge>, WeightType, bool>` with `bool = true` : (edge set, weight) -/
abbrev CycW := List Nat × Int

/-- the walk up one root path inside `CandidateCycleBuilder::operator()`:
`while (ws->has_pred()) { a = pred; if (!result.insert(a).second) invalid; cycle_weight += w(a); if (limit && cycle_weight > limit) invalid; … }`
`acc` = edges inserted so far, `cw` = running weight; `none` = invalid -/
def walkUp (g : Graph) (t : SPTree) (limit : Option Int) : Nat → Nat → List Nat → Int → Option (List Nat × Int)
  | 0, _, acc, cw => some (acc, cw)
  | fuel + 1, v, acc, cw =>
    match t.pred.getD v none with
    | none => some (acc, cw)
    | some a =>
      if acc.contains a then none
      else
        let cw' := cw + g.weight a
        if (match limit with | some l => decide (l < cw') | none => false) then none
        else walkUp g t limit fuel (g.other a v) (a :: acc) cw'

/-- `CandidateCycleBuilder::operator()(trees, c, signed_edges, use_weight_limit, weight_limit)` -/
def buildCandLim (g : Graph) (trees : List SPTree) (signed : List Nat) (limit : Option Int) (c : Cand) : Option CycW :=
  match trees[c.tree]? with
  | none => none
  | some t =>
    if candOdd g t signed c then
      let cw := g.weight c.edge
      if (match limit with | some l => decide (l < cw) | none => false) then none
      else
        match walkUp g t limit g.n (g.src c.edge) [c.edge] cw with
        | none => none
        | some (acc1, cw1) =>
          match walkUp g t limit g.n (g.tgt c.edge) acc1 cw1 with
          | none => none
          | some (acc2, cw2) => some (setOf acc2, cw2)
    else none

/-- sequential `compute_shortest_odd_cycle` with `sorted_cycles = true`: the first candidate that builds is returned
(`min` is still value-initialised, so no weight limit is ever in force) -/
def lookupSorted (g : Graph) (trees : List SPTree) (cands : List Cand) (signed : List Nat) : Option CycW :=
  cands.findSome? (buildCandLim g trees signed none)

/-- TBB `compute_shortest_odd_cycle`: `parallel_reduce` over the candidate indices with the running minimum as weight
limit, joined by `cycle_min` -/
def lookupTbb (g : Graph) (trees : List SPTree) (cands : List Cand) (signed : List Nat) (s : Sched) : Option CycW :=
  (reduceMin (fun i L => match cands[i]? with
      | none => none
      | some c => (buildCandLim g trees signed L c).map fun r => (r.2, r.1)) s).map fun r => (r.2, r.1)

/-- phases `k, k+1, …` of the main loop, `cnt` of them.  `lookup k signed` is the per-phase lookup.  A phase whose lookup
finds nothing emits the value-initialised tuple — the EMPTY edge set with weight 0 — exactly as the C++ does. -/
def treesPhases (lookup : Nat → List Nat → Option CycW) : Nat → Nat → List (List Nat) → List CycW
  | 0, _, _ => []
  | cnt + 1, k, sup =>
    let best := (lookup k (sup.getD k [])).getD ([], 0)
    best :: treesPhases lookup cnt (k + 1) (updateSup sup k best.1)

structure McbResult where
  cycles : List (List Nat)
  weight : Int
deriving Repr

/-- main loop on a graph in ForestIndex coordinates with cycle space dimension `N` -/
def mcbTreesCore (N : Nat) (lookup : Nat → List Nat → Option CycW) : McbResult :=
  let ph := treesPhases lookup N 0 (unitSupports N)
  { cycles := ph.map (·.1), weight := ph.foldl (fun acc p => acc + p.2) 0 }

/-- emitted cycles back in the caller's edge numbering (`forest_index(i)` for every index of the cycle) -/
def translateBack (rev : List Nat) (cs : List (List Nat)) : List (List Nat) :=
  cs.map fun c => setOf (c.map fun i => rev.getD i 0)

/-- `mcb_sva_fvs_trees`: `order` = iteration order of `spanning_forest`'s unordered_set, `picks` = pop order of the
feedback-vertex-set heap, `sorter` = what `std::sort` makes of the candidate list -/
def mcbFvsTrees (g : Graph) (order picks : List Nat) (sorter : List Cand → List Cand) : McbResult :=
  let fi := createIndex g order
  let gi := reindex g fi
  let tc := fvsCands gi (greedyFvs gi picks)
  let cands := sorter tc.2
  let r := mcbTreesCore fi.dim (fun _ S => lookupSorted gi tc.1 cands S)
  { cycles := translateBack fi.reverse r.cycles, weight := r.weight }

/-- `mcb_sva_iso_trees` -/
def mcbIsoTrees (g : Graph) (order : List Nat) (sorter : List Cand → List Cand) : McbResult :=
  let fi := createIndex g order
  let gi := reindex g fi
  let tc := isoCands gi
  let cands := sorter tc.2
  let r := mcbTreesCore fi.dim (fun _ S => lookupSorted gi tc.1 cands S)
  { cycles := translateBack fi.reverse r.cycles, weight := r.weight }

/-- `mcb_sva_fvs_trees_tbb`: `scheds k` = the execution of phase `k`'s `parallel_reduce` -/
def mcbFvsTreesTbb (g : Graph) (order picks : List Nat) (sorter : List Cand → List Cand) (scheds : Nat → Sched) : McbResult :=
  let fi := createIndex g order
  let gi := reindex g fi
  let tc := fvsCands gi (greedyFvs gi picks)
  let cands := sorter tc.2
  let r := mcbTreesCore fi.dim (fun k S => lookupTbb gi tc.1 cands S (scheds k))
  { cycles := translateBack fi.reverse r.cycles, weight := r.weight }

/-- `mcb_sva_iso_trees_tbb` -/
def mcbIsoTreesTbb (g : Graph) (order : List Nat) (sorter : List Cand → List Cand) (scheds : Nat → Sched) : McbResult :=
  let fi := createIndex g order
  let gi := reindex g fi
  let tc := isoCands gi
  let cands := sorter tc.2
  let r := mcbTreesCore fi.dim (fun k S => lookupTbb gi tc.1 cands S (scheds k))
  { cycles := translateBack fi.reverse r.cycles, weight := r.weight }

/-- a concrete sorter for the driver: stable insertion sort by weight -/
def insertByWeight (c : Cand) : List Cand → List Cand
  | [] => [c]
  | d :: r => if c.weight < d.weight then c :: d :: r else d :: insertByWeight c r

def sortByWeight (l : List Cand) : List Cand := l.foldr insertByWeight []

end Parmcb
