import Parmcb.Model.Lex
/-
Model of `parmcb::detail::ISOCyclesBuilder` (include/parmcb/detail/cycles.hpp): the isometric-cycle
collection.  Literal: one graph vertex per Horton candidate (in Horton order), one link per candidate to
the representation of the same cycle in a neighbouring tree (three cases) or the `bad` mark, connected
components, components containing a bad vertex are dropped, the first vertex of every other component is
emitted.  `std::map::operator[]` on a missing (tree, edge) key yields vertex 0, as in the C++.
Core Lean only.
-/
namespace Parmcb

/-- `cycle_to_vertex[(tree, edge)]` -/
def isoLookup (all : List Cand) (t e : Nat) : Nat :=
  (all.findIdx? (fun c => c.tree == t && c.edge == e)).getD 0

/-- the link (or the bad mark) of one candidate `(x, e)` -/
def isoLink (g : Graph) (trees : List SPTree) (all : List Cand) (c : Cand) : Option Nat :=
  let x := c.tree                       -- tree id = source vertex (trees are built for all vertices in order)
  let e := c.edge
  let u := g.src e
  let v := g.tgt e
  let first (t a : Nat) : Nat := match trees[t]? with | some tr => tr.first.getD a 0 | none => 0
  if x = u then some (isoLookup all v e)
  else
    let x' := first x u
    if x = first x' v then some (isoLookup all x' e)
    else if u = first v x' then
      let pe := match trees[x]? with | some tr => (tr.pred.getD x' none).getD 0 | none => 0
      some (isoLookup all v pe)
    else none

/-- one link of the label propagation: both ends take the smaller of their two labels -/
def relaxLink (lab : Array Nat) (ab : Nat × Nat) : Array Nat :=
  if ab.1 < lab.size ∧ ab.2 < lab.size then
    let la := lab[ab.1]!
    let lb := lab[ab.2]!
    if la < lb then lab.set! ab.2 la
    else if lb < la then lab.set! ab.1 lb
    else lab
  else lab

/-- one sweep over all links -/
def sweepLinks (links : List (Nat × Nat)) (lab : Array Nat) : Array Nat := links.foldl relaxLink lab

/-- at most `k` sweeps, stopping at the first sweep that changes nothing -/
def sweepN (links : List (Nat × Nat)) : Nat → Array Nat → Array Nat
  | 0, lab => lab
  | k + 1, lab =>
    let lab' := sweepLinks links lab
    if lab' == lab then lab else sweepN links k lab'

/-- connected components of the candidate graph (`boost::connected_components`) by label propagation: `nv` sweeps
reach the fixpoint in which every vertex is labelled with the smallest vertex index of its component
(`Lemmas/IsoComp.lean`) -/
def isoComponents (nv : Nat) (links : List (Nat × Nat)) : Array Nat :=
  sweepN links nv (Array.range nv)

/-- `ISOCyclesBuilder::operator()`: (trees, emitted candidates) -/
def isoCands (g : Graph) : List SPTree × List Cand :=
  let (trees, all) := hortonCands g
  let linkOf := all.map (isoLink g trees all)
  let links := (linkOf.zipIdx).filterMap fun (l, i) => l.map fun j => (i, j)
  let bad := linkOf.map (·.isNone)
  let comp := isoComponents all.length links
  let badComp : List Nat := ((bad.zipIdx).filter (·.1)).map fun (_, i) => comp[i]!
  -- first vertex of every good component
  let keep := (List.range all.length).filter fun i =>
    !(badComp.contains comp[i]!) && comp[i]! == i
  (trees, keep.filterMap fun i => all[i]?)

end Parmcb
