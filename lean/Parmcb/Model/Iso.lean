import Parmcb.Model.Lex
/-
Model of `parmcb::detail::ISOCyclesBuilder` (include/parmcb/detail/cycles.hpp): the isometric-cycle
collection.  Literal: one graph vertex per Horton candidate (in Horton order), one link per candidate to
the representation of the same cycle in a neighbouring tree (three cases) or the `bad` mark, connected
components, components containing a bad vertex are dropped, the first vertex of every other component is
emitted.  `std::map::operator[]` on a missing (tree, edge) key yields vertex 0, as in the C++.
Core Lean only.
-/
namespace Parmcb

/-- `cycle_to_vertex[(tree, edge)]` -/
def isoLookup (all : List Cand) (t e : Nat) : Nat :=
  (all.findIdx? (fun c => c.tree == t && c.edge == e)).getD 0

/-- the link (or the bad mark) of one candidate `(x, e)` -/
def isoLink (g : Graph) (trees : List SPTree) (all : List Cand) (c : Cand) : Option Nat :=
  let x := c.tree                       -- tree id = source vertex (trees are built for all vertices in order)
  let e := c.edge
  let u := g.src e
  let v := g.tgt e
  let first (t a : Nat) : Nat := match trees[t]? with | some tr => tr.first.getD a 0 | none => 0
  if x = u then some (isoLookup all v e)
  else
    let x' := first x u
    if x = first x' v then some (isoLookup all x' e)
    else if u = first v x' then
      let pe := match trees[x]? with | some tr => (tr.pred.getD x' none).getD 0 | none => 0
      some (isoLookup all v pe)
    else none

/-- connected components of the candidate graph by label propagation: every vertex ends up labelled with
the smallest vertex index of its component -/
def isoComponents (nv : Nat) (links : List (Nat × Nat)) : Array Nat := Id.run do
  let mut lab : Array Nat := Array.range nv
  for _ in [0:nv] do
    let mut changed := false
    for (a, b) in links do
      if a < nv ∧ b < nv then
        let la := lab[a]!; let lb := lab[b]!
        if la < lb then lab := lab.set! b la; changed := true
        else if lb < la then lab := lab.set! a lb; changed := true
    if !changed then break
  return lab

/-- `ISOCyclesBuilder::operator()`: (trees, emitted candidates) -/
def isoCands (g : Graph) : List SPTree × List Cand :=
  let (trees, all) := hortonCands g
  let linkOf := all.map (isoLink g trees all)
  let links := (linkOf.zipIdx).filterMap fun (l, i) => l.map fun j => (i, j)
  let bad := linkOf.map (·.isNone)
  let comp := isoComponents all.length links
  let badComp : List Nat := ((bad.zipIdx).filter (·.1)).map fun (_, i) => comp[i]!
  -- first vertex of every good component
  let keep := (List.range all.length).filter fun i =>
    !(badComp.contains comp[i]!) && comp[i]! == i
  (trees, keep.filterMap fun i => all[i]?)

end Parmcb
