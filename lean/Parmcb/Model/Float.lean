/-!
# IEEE-754 binary64 addition on dyadic rationals, as integer arithmetic (C09)

Every finite double is `num / 2^den`; after scaling all values of a computation by a common power of two
they are integers, and `a + b` in double arithmetic (round to nearest, ties to even; no overflow, and no
underflow because the scaled operands are integers) is `rnd (a + b)`: the exact sum rounded to 53
significant bits.  Core Lean only; executed by the driver against the hardware's additions
(`Driver/Float.lean`, harness kind `fadd`).
-/
namespace Parmcb.Float

/-- significand bits of binary64 -/
def prec : Nat := 53

/-- round a natural number to `prec` significant bits, ties to even -/
def rndNat (n : Nat) : Nat :=
  if n < 2 ^ prec then n else
    let e := n.log2 + 1 - prec          -- number of low bits dropped (≥ 1)
    let q := n / 2 ^ e                   -- the kept bits, 2^52 ≤ q < 2^53
    let r := n % 2 ^ e
    let half := 2 ^ (e - 1)
    let q' := if half < r ∨ (r = half ∧ q % 2 = 1) then q + 1 else q
    q' * 2 ^ e

/-- rounding is symmetric in the sign -/
def rnd (x : Int) : Int := if x < 0 then - (rndNat x.natAbs : Int) else (rndNat x.natAbs : Int)

/-- `a + b` in double arithmetic -/
def fadd (a b : Int) : Int := rnd (a + b)

/-- what a loop `acc = 0; for w in ws: acc += w` computes in double arithmetic (path lengths in the
Dijkstra variants, cycle weights, `mcb_weight += …`) -/
def fsum (ws : List Int) : Int := ws.foldl fadd 0

end Parmcb.Float
