import Parmcb.Model.Sched
/-
Model of the work distribution and reductions of the MPI entry points
(mpi/parmcb_sva_signed.hpp, mpi/parmcb_sva_trees.hpp).  Core Lean only.

* `stride`/`sliceLo`/`sliceHi`: `stride = ceil((double) total / size)`, rank `r` handles the global
  indices `[r*stride, min((r+1)*stride, total))`.
* rank-local result = TBB reduction over the slice (Model/Sched.lean), global result =
  `boost::mpi::reduce` with `SerializableMinOddCycleMinOp`, declared commutative, i.e. combined along
  an arbitrary tree over the ranks in an arbitrary order (`RTree`).
* the collective script of a rank (which collectives it enters, in which order).
-/
namespace Parmcb

/-- `ceil((double) total / size)` for `size ≥ 1` (exact below 2^53) -/
def stride (total P : Nat) : Nat := (total + P - 1) / P

def sliceLo (total P r : Nat) : Nat := min (r * stride total P) total
def sliceHi (total P r : Nat) : Nat := min (r * stride total P + stride total P) total

/-- `for (i = istart; i < iend && i < total; i++)` -/
def slice (total P r : Nat) : List Nat :=
  List.range' (sliceLo total P r) (sliceHi total P r - sliceLo total P r)

/-- an arbitrary combination tree over rank results -/
inductive RTree where
  | leaf (rank : Nat)
  | node (l r : RTree)
deriving Repr

def RTree.leaves : RTree → List Nat
  | .leaf r => [r]
  | .node l r => l.leaves ++ r.leaves

def RTree.eval {C : Type} (local_ : Nat → Cyc C) : RTree → Cyc C
  | .leaf r => local_ r
  | .node l r => minOpMpi (l.eval local_) (r.eval local_)

/-- global result of one phase: every rank reduces its slice under its own TBB schedule, the results are
combined along an arbitrary tree -/
def mpiPhase {C : Type} (srch : Nat → Option Int → Cyc C) (scheds : Nat → Sched) (t : RTree) : Cyc C :=
  t.eval (fun r => reduceMin srch (scheds r))

/-! ### which (edge, hidden set) pairs the hidden-edge heuristic searches -/

/-- sequential / single order `σ` of the signed edges: position `j` searches `σ[j]` with the edges
`σ[j], σ[j+1], …` hidden -/
def hiddenPairs (σ : List Nat) : List (Nat × List Nat) :=
  (List.range σ.length).map fun j => (σ.getD j 0, σ.drop j)

/-- the pairs searched by rank `r` when it derives both its slice and its hidden sets from its own
order `σ r` (the pinned code used the per-process pointer order here) -/
def rankPairs (σ : Nat → List Nat) (total P r : Nat) : List (Nat × List Nat) :=
  (slice total P r).map fun j => ((σ r).getD j 0, (σ r).drop j)

/-! ### collective scripts -/

inductive Coll where
  | scatter | bcast | reduce
deriving DecidableEq, Repr

/-- `mcb_sva_signed_mpi`: per phase a broadcast of the support vector; a reduce unless the support has
exactly one entry (that phase is computed by rank 0 alone).  `sizes k` = size of the broadcast `S_k`. -/
def signedScript (_rank : Nat) (sizes : List Nat) : List Coll :=
  sizes.flatMap fun s => if s = 1 then [Coll.bcast] else [Coll.bcast, Coll.reduce]

/-- `_mcb_sva_trees_mpi`: one scatter, then per phase a broadcast and a reduce -/
def treesScript (_rank : Nat) (N : Nat) : List Coll :=
  Coll.scatter :: (List.range N).flatMap fun _ => [Coll.bcast, Coll.reduce]

end Parmcb
