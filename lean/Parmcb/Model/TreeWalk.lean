import Parmcb.Model.Lex
/-
Literal models of the two explicit-stack tree walks of `SPTree` (include/parmcb/sptrees.hpp): `compute_first_in_path`
(lines 326-347) and `update_parities` (lines 128-142), over the child lists that `initialize` builds (`add_child` is
called for the vertices in increasing order, so a node's children are its tree children in increasing vertex order; a
`std::stack` pops the child pushed last first).  `Model/Lex.lean` defines the same labels functionally (`firstInPath`
climbs to the root, `treeParity` is the parity of the root path); `Lemmas/TreeWalk.lean` proves the walks compute exactly
those.  Core Lean only.
-/
namespace Parmcb

/-- `node(u)->children()`: the vertices whose predecessor edge leads to `u`, in the order `add_child` was called -/
def treeChildren (g : Graph) (t : SPTree) (u : Nat) : List Nat :=
  (List.range g.n).filter fun v => decide (v ≠ t.source) && (t.pred.getD v none).isSome && (treeParent g t.pred v == some u)

/-- push the children `c₁ … c_k` (in that order) with the labels `f c`: the last one ends up on top -/
def pushChildren {α : Type} (f : Nat → α) (cs : List Nat) (stack : List (α × Nat)) : List (α × Nat) :=
  (cs.reverse.map fun c => (f c, c)) ++ stack

/-- `compute_first_in_path`: the stack holds (label, node); the root labels itself and hands each child its own vertex,
every other node takes the label it was given and hands it on -/
def firstWalk (g : Graph) (t : SPTree) : Nat → List (Nat × Nat) → List Nat → List Nat
  | 0, _, first => first
  | _, [], first => first
  | fuel + 1, (info, v) :: stack, first =>
    if v = t.source then
      firstWalk g t fuel (pushChildren (fun c => c) (treeChildren g t v) stack) (first.set v v)
    else
      firstWalk g t fuel (pushChildren (fun _ => info) (treeChildren g t v) stack) (first.set v info)

/-- the `_first_in_path` vector after `compute_first_in_path` (value-initialised to vertex 0) -/
def firstByWalk (g : Graph) (t : SPTree) : List Nat :=
  firstWalk g t (g.n + 1) [(t.source, t.source)] (List.replicate g.n 0)

/-- `update_parities(edges)`: the stack holds (parity, node); a child's parity is its parent's, flipped when the child's
predecessor edge is signed -/
def parityWalk (g : Graph) (t : SPTree) (signed : List Nat) : Nat → List (Bool × Nat) → List Bool → List Bool
  | 0, _, par => par
  | _, [], par => par
  | fuel + 1, (info, v) :: stack, par =>
    parityWalk g t signed fuel
      (pushChildren (fun c => xor info (signed.contains ((t.pred.getD c none).getD 0))) (treeChildren g t v) stack)
      (par.set v info)

/-- the `parity()` fields after `update_parities(signed)` (indexed by vertex; `false` for vertices without a node) -/
def parityByWalk (g : Graph) (t : SPTree) (signed : List Nat) : List Bool :=
  parityWalk g t signed (g.n + 1) [(false, t.source)] (List.replicate g.n false)

end Parmcb
