import Parmcb.Model.SignedAlgo
import Parmcb.Model.Mpi
/-
End-to-end literal model of the MPI entry points as rank 0 observes them
(include/parmcb/mpi/parmcb_sva_signed.hpp, include/parmcb/mpi/parmcb_sva_trees.hpp):

* `mcb_sva_signed_mpi`: per phase rank 0 broadcasts `support[k]`; a support with one entry is searched by rank 0 alone;
  otherwise every rank takes its ceil-stride slice of the signed edges — enumerated in FOREST-INDEX order on every rank,
  hidden sets = suffixes of that enumeration — or of the vertices, reduces its slice with `tbb::parallel_reduce`, and
  `boost::mpi::reduce` combines the rank results with `SerializableMinOddCycleMinOp` along an arbitrary tree; rank 0
  updates the supports (no sparsest-support swap) and emits.
* `_mcb_sva_trees_mpi`: rank 0 builds the candidate collection, cuts it into ceil-stride chunks of (root vertex, edge
  index) pairs in collection order and scatters them; every rank groups its chunk by root (a `std::map`, i.e. ascending
  vertex index), rebuilds one tree per root, re-creates its candidates over exactly the edges it received, sorts them by
  weight and looks them up per phase (sequentially or with TBB); `boost::mpi::reduce` combines.

Open choices, universally quantified in the theorems: the number of ranks `P ≥ 1`, every rank's TBB schedules, the
reduction tree of every phase, every rank's `std::sort` tie order, heap behaviour, and (signed variant) the order of the
concurrent `push_back`s that fill rank 0's support vector.  Which memory layout a rank has does NOT appear: nothing in the
model depends on it (that is the repair 749574e).  Core Lean only.
-/
namespace Parmcb

/-! ### signed variant -/

/-- `find_shortest_odd_cycle_mpi` as the value rank 0 ends up with.  `scheds r` = schedule of rank `r`'s
`parallel_reduce` (over GLOBAL indices: rank `r` of `P` owns `[sliceLo total P r, sliceHi total P r)` — the theorems assume
exactly that of `scheds`), `t` = the reduction tree over the ranks `0 … P-1`. -/
def signedPhaseSearchMpi (g : Graph) (ord : List Nat) (pk : PickFam) (S : List Nat) (scheds : Nat → Sched) (t : RTree) :
    Cyc (List Nat) :=
  match S with
  | [e] => singleEdgeTbb g ord pk e
  | _ =>
    if S.length < g.n then mpiPhase (hiddenIndexTbb g ord pk S S) scheds t
    else mpiPhase (fun v L => searchSigned g ord (pk v L) S [] v true v false L) scheds t

/-- `mcb_sva_signed_mpi` on rank 0: `perm` = order in which rank 0's concurrent `push_back`s filled its support vector,
`scheds k S r`, `trees k S` = schedules and reduction tree of phase `k` -/
def mcbSignedMpi (g : Graph) (order : List Nat) (pick : Nat → PickFam) (perm : List Nat)
    (scheds : Nat → List Nat → Nat → Sched) (trees : Nat → List Nat → RTree) : McbResult :=
  let fi := createIndex g order
  let gi := reindex g fi
  let r := mcbSignedCore .mpi fi.dim (perm.map fun i => [i])
    (fun k S => signedPhaseSearchMpi gi fi.reverse (pick k) S (scheds k S) (trees k S))
  { cycles := translateBack fi.reverse r.cycles, weight := r.weight }

/-! ### tree variants -/

/-- the roots of a chunk in `std::map` order: ascending, each once -/
def chunkRoots (chunk : List (Nat × Nat)) : List Nat := setOf (chunk.map (·.1))

/-- what one rank rebuilds from its chunk of (root vertex, edge) pairs: one tree per distinct root in ascending order,
and per tree the candidates `create_candidate_cycles` makes of the edges received for that root (in arrival order) -/
def rankCollection (g : Graph) (chunk : List (Nat × Nat)) : List SPTree × List Cand :=
  let roots := chunkRoots chunk
  let trees := roots.map (buildTree g)
  (trees, (trees.zipIdx).flatMap fun (t, i) =>
    createCandidates g t i ((chunk.filter fun p => p.1 == t.source).map (·.2)))

/-- the (root vertex, edge index) pair rank 0 serialises for a candidate: `trees.at(cycle.tree()).source()` -/
def serialise (trees : List SPTree) (c : Cand) : Nat × Nat :=
  ((trees[c.tree]?.map (·.source)).getD 0, c.edge)

/-- the chunk of rank `r`: its ceil-stride slice of the serialised collection, in collection order -/
def rankChunk (all : List (Nat × Nat)) (P r : Nat) : List (Nat × Nat) :=
  (slice all.length P r).filterMap fun i => all[i]?

/-- the result of one rank's lookup as a `Cyc` (weight first) -/
def asCyc (r : Option CycW) : Cyc (List Nat) := r.map fun p => (p.2, p.1)

/-- one phase: every rank looks the support up in its own sorted candidates, the results are reduced along `t` -/
def treesPhaseMpi (g : Graph) (locals : Nat → List SPTree × List Cand) (tbb : Bool) (S : List Nat)
    (scheds : Nat → Sched) (t : RTree) : Option CycW :=
  (t.eval fun r =>
    asCyc (if tbb then lookupTbb g (locals r).1 (locals r).2 S (scheds r)
           else lookupSorted g (locals r).1 (locals r).2 S)).map fun p => (p.2, p.1)

/-- `_mcb_sva_trees_mpi` on rank 0 for a collection `(trees, cands)` in ForestIndex coordinates;
`sorters r` = rank `r`'s `std::sort` -/
def mcbTreesMpiCore (gi : Graph) (N : Nat) (tc : List SPTree × List Cand) (P : Nat) (tbb : Bool)
    (sorters : Nat → List Cand → List Cand) (scheds : Nat → Nat → Sched) (rtrees : Nat → RTree) : McbResult :=
  let all := tc.2.map (serialise tc.1)
  let locals := fun r =>
    let rc := rankCollection gi (rankChunk all P r)
    (rc.1, sorters r rc.2)
  mcbTreesCore N (fun k S => treesPhaseMpi gi locals tbb S (scheds k) (rtrees k))

/-- `mcb_sva_fvs_trees_mpi` (`tbb = false`) / `mcb_sva_fvs_trees_tbb_mpi` (`tbb = true`) -/
def mcbFvsTreesMpi (g : Graph) (order picks : List Nat) (P : Nat) (tbb : Bool)
    (sorters : Nat → List Cand → List Cand) (scheds : Nat → Nat → Sched) (rtrees : Nat → RTree) : McbResult :=
  let fi := createIndex g order
  let gi := reindex g fi
  let r := mcbTreesMpiCore gi fi.dim (fvsCands gi (greedyFvs gi picks)) P tbb sorters scheds rtrees
  { cycles := translateBack fi.reverse r.cycles, weight := r.weight }

/-- `mcb_sva_iso_trees_mpi` / `mcb_sva_iso_trees_tbb_mpi` -/
def mcbIsoTreesMpi (g : Graph) (order : List Nat) (P : Nat) (tbb : Bool)
    (sorters : Nat → List Cand → List Cand) (scheds : Nat → Nat → Sched) (rtrees : Nat → RTree) : McbResult :=
  let fi := createIndex g order
  let gi := reindex g fi
  let r := mcbTreesMpiCore gi fi.dim (isoCands gi) P tbb sorters scheds rtrees
  { cycles := translateBack fi.reverse r.cycles, weight := r.weight }

end Parmcb
