import Parmcb.Model.DePina
import Parmcb.Model.Signed
/-
Verified trace validation (certificates with soundness theorems in Lemmas/Cert.lean):

* `checkRunBrute` — the executable mirror of the relational `Run` (Lemmas/DePina.lean) with the per-phase
  optimum taken from the definitional enumeration `minOddBrute` (small graphs);
* `checkPotential` / `checkRunPot` — the same with a LOWER-BOUND CERTIFICATE for the per-phase optimum:
  for every vertex `v` a potential `π_v` on the nodes of the signed graph (untrusted: the driver's own
  Dijkstra produces it) such that `π_v(v+) = 0` and no lifted edge can be relaxed; then every element of
  the cycle space that is odd against `S` weighs at least `min_v π_v(v-)`.
Core Lean only.
-/
namespace Parmcb

/-- potentials: node index (`sgNode`) ↦ value, `none` = +∞ -/
abbrev Potential := Array (Option Int)

def potGet (π : Potential) (x : Nat) : Option Int := π.getD x none

/-- arc `x → y` of weight `c` cannot be relaxed: if `π x` is finite so is `π y`, and `π y ≤ π x + c` -/
def arcOk (π : Potential) (x y : Nat) (c : Int) : Bool :=
  match potGet π x with
  | none => true
  | some a => match potGet π y with
    | some b => decide (b ≤ a + c)
    | none => false

/-- feasibility of `π` for the signed graph `g±(S)`: every lifted edge, in both directions, on both levels -/
def potFeasible (g : Graph) (S : List Nat) (π : Potential) : Bool :=
  (List.range g.m).all fun e =>
    let u := g.src e; let w := g.tgt e; let c := g.weight e
    let sg := S.contains e
    [true, false].all fun s =>
      let x := sgNode g.n u s
      let y := sgNode g.n w (if sg then !s else s)
      arcOk π x y c && arcOk π y x c

/-- the certificate for one phase: one potential per vertex, rooted at `v+`, and the claimed bound `L`
is at most every finite `π_v(v-)` -/
def checkPotential (g : Graph) (S : List Nat) (πs : List Potential) (L : Int) : Bool :=
  decide (πs.length = g.n) &&
  (List.range g.n).all fun v =>
    match πs[v]? with
    | none => false
    | some π =>
      potFeasible g S π && (potGet π (sgNode g.n v true) == some 0) &&
      (match potGet π (sgNode g.n v false) with
       | none => true
       | some d => decide (L ≤ d))

/-- executable part of the phase contract, optimum by enumeration -/
def checkPhaseBrute (g : Graph) (S C : List Nat) : Bool :=
  evenSetB g C && dotPar C S && (minOddBrute g S == some (wt g C))

def checkRunBrute (g : Graph) (v : Variant) : Nat → List (List Nat) → List (List Nat) → Bool
  | _, _, [] => true
  | k, sup, c :: cs =>
    checkPhaseBrute g (phaseSupport v sup k) c && checkRunBrute g v (k + 1) (phaseStep v sup k c) cs

/-- executable part of the phase contract, optimum certified by potentials -/
def checkPhasePot (g : Graph) (S C : List Nat) (πs : List Potential) : Bool :=
  evenSetB g C && dotPar C S && checkPotential g S πs (wt g C)

def checkRunPot (g : Graph) (v : Variant) : Nat → List (List Nat) → List (List Nat) → List (List Potential) → Bool
  | _, _, [], _ => true
  | _, _, _ :: _, [] => false
  | k, sup, c :: cs, πs :: rest =>
    checkPhasePot g (phaseSupport v sup k) c πs && checkRunPot g v (k + 1) (phaseStep v sup k c) cs rest

/-- the potentials the driver proposes: shortest-path distances from `v+` in the signed graph -/
def dijkstraPotentials (g : Graph) (S : List Nat) : List Potential :=
  let adj := sgAdj g S
  (List.range g.n).map fun v => sgDijkstra adj (sgNode g.n v true)

end Parmcb
