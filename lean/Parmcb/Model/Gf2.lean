/-
Model of include/parmcb/spvecgf2.hpp  (class SpVecGF2<U>)

A vector is the C++ member `ones` : the list of coordinates that are 1.
Every function mirrors one member function, loop for loop.
Core Lean only (this file is linked into the driver executable).
-/
namespace Parmcb

/-- `SpVecGF2::operator+` : the two-pointer merge, including the two "append remaining" loops. -/
def xorMerge : List Nat → List Nat → List Nat
  | [], b => b
  | a, [] => a
  | x :: a, y :: b =>
    if x > y then y :: xorMerge (x :: a) b
    else if x < y then x :: xorMerge a (y :: b)
    else xorMerge a b
termination_by a b => a.length + b.length

/-- `SpVecGF2::operator*` (both overloads: the `std::set` one iterates the set in increasing order,
which is the same two-pointer walk). Result is the C++ `int` 0/1 as a Bool. -/
def dotPar : List Nat → List Nat → Bool
  | [], _ => false
  | _, [] => false
  | x :: a, y :: b =>
    if x > y then dotPar (x :: a) b
    else if x < y then dotPar a (y :: b)
    else !(dotPar a b)
termination_by a b => a.length + b.length

/-- strictly increasing -/
def StrictSorted : List Nat → Prop
  | [] => True
  | [_] => True
  | x :: y :: r => x < y ∧ StrictSorted (y :: r)

def strictSortedB : List Nat → Bool
  | [] => true
  | [_] => true
  | x :: y :: r => decide (x < y) && strictSortedB (y :: r)

/-- insertion into a strictly sorted list without duplicates: the `std::set<U>` a vector is built from -/
def setInsert (x : Nat) : List Nat → List Nat
  | [] => [x]
  | y :: r => if x < y then x :: y :: r else if x = y then y :: r else y :: setInsert x r

/-- `std::set<U>` built from a sequence of inserts; iteration order is increasing -/
def setOf (l : List Nat) : List Nat := l.foldl (fun s x => setInsert x s) []

/-! ### the operation history model (C17): a store of live vectors -/

inductive Gf2Op where
  | unit (i : Nat)                 -- SpVecGF2(const U& i)
  | fromSet (elems : List Nat)     -- SpVecGF2(const std::set<U>&) ; elems = insertion sequence into the set
  | empty                          -- SpVecGF2()
  | copy (src : Nat)               -- copy-construct / move-construct from live vector #src
  | add (a b : Nat)                -- r = a + b   (new vector)
  | addAssign (a b : Nat)          -- a += b      (in place; a may equal b)
  | assign (a b : Nat)             -- a = b       (in place; self-assignment guarded)
  | clear (a : Nat)                -- a.clear()
  | dot (a b : Nat)                -- a * b       (query)
  | dotSet (a : Nat) (elems : List Nat)  -- a * std::set  (query)
  | size (a : Nat)                 -- a.size()    (query)
deriving Repr

abbrev Gf2Store := List (List Nat)

inductive Gf2Out where
  | none
  | bit (b : Bool)
  | num (n : Nat)
  | bad            -- operand index out of range: the harness never issues such an op
deriving Repr, DecidableEq

def Gf2Store.get (s : Gf2Store) (i : Nat) : Option (List Nat) := s[i]?

def gf2Step (s : Gf2Store) : Gf2Op → Gf2Store × Gf2Out
  | .unit i => (s ++ [[i]], .none)
  | .fromSet l => (s ++ [setOf l], .none)
  | .empty => (s ++ [[]], .none)
  | .copy a => match s[a]? with
    | some v => (s ++ [v], .none)
    | none => (s, .bad)
  | .add a b => match s[a]?, s[b]? with
    | some va, some vb => (s ++ [xorMerge va vb], .none)
    | _, _ => (s, .bad)
  | .addAssign a b => match s[a]?, s[b]? with
    | some va, some vb => (s.set a (xorMerge va vb), .none)
    | _, _ => (s, .bad)
  | .assign a b => match s[a]?, s[b]? with
    | some _, some vb => (s.set a vb, .none)
    | _, _ => (s, .bad)
  | .clear a => match s[a]? with
    | some _ => (s.set a [], .none)
    | none => (s, .bad)
  | .dot a b => match s[a]?, s[b]? with
    | some va, some vb => (s, .bit (dotPar va vb))
    | _, _ => (s, .bad)
  | .dotSet a l => match s[a]? with
    | some va => (s, .bit (dotPar va (setOf l)))
    | none => (s, .bad)
  | .size a => match s[a]? with
    | some va => (s, .num va.length)
    | none => (s, .bad)

def gf2Run (ops : List Gf2Op) : Gf2Store := ops.foldl (fun s op => (gf2Step s op).1) []

end Parmcb
