/-
Model of `parmcb::set_global_tbb_concurrency` (util.hpp) and of the option block of the demos that
calls it (src/mcb-dimacs.cpp, src/approx-mcb-dimacs.cpp).  Core Lean only.

oneTBB's documented semantics (trusted): while `global_control` objects for
`max_allowed_parallelism` are alive, the active value is the minimum of their values; when none is
alive it is the default (hardware concurrency).
-/
namespace Parmcb

structure KnobState where
  /-- the control object owned by the library (function-local static), if one was created -/
  lib : Option Nat
  /-- controls created by the client program itself, still alive -/
  client : List Nat
deriving Repr

def KnobState.init : KnobState := { lib := none, client := [] }

/-- `tbb::global_control::active_value(max_allowed_parallelism)` -/
def activeValue (hw : Nat) (s : KnobState) : Nat :=
  match (s.lib.toList ++ s.client) with
  | [] => hw
  | x :: r => r.foldl min x

/-- `set_global_tbb_concurrency(n)`: the previous library control is released, a new one with value `n`
is created and stays alive after the function returns -/
def setGlobal (n : Nat) (s : KnobState) : KnobState := { s with lib := some n }

/-- the behaviour of the pinned code, kept for the record: the control was a local variable and died at
the closing brace, so the call had no lasting effect -/
def setGlobalPinned (_n : Nat) (s : KnobState) : KnobState := s

inductive KnobOp where
  | set (n : Nat)              -- library call
  | clientPush (n : Nat)       -- the program creates its own global_control
  | clientPop                  -- … and destroys the most recent one
deriving Repr

def knobStep (s : KnobState) : KnobOp → KnobState
  | .set n => setGlobal n s
  | .clientPush n => { s with client := n :: s.client }
  | .clientPop => { s with client := s.client.tail }

/-- option block of the demos: `--cores n` (0 = hardware concurrency) is applied whenever a parallel
algorithm is selected -/
structure DemoKnobOpts where
  parallel : Bool
  verbose : Bool
  cores : Nat
deriving Repr

def demoKnob (hw : Nat) (o : DemoKnobOpts) (s : KnobState) : KnobState :=
  let cores := if o.cores = 0 then hw else o.cores
  if o.parallel then setGlobal cores s else s

end Parmcb
