import Parmcb.Model.BiSearch
import Parmcb.Model.TreesAlgo
/-
End-to-end literal model of `mcb_sva_signed` (include/parmcb/parmcb_sva_signed.hpp:31-153) and of
`mcb_sva_signed_tbb` (parmcb_sva_signed_tbb.hpp):

  ForestIndex → unit supports → csd phases:
     sparsest-support swap;  signed edges = support[k];
     |S| ≥ n : one search v+ → v- per vertex, running best as weight limit
     |S| < n : hidden-edge heuristic over the signed edges in std::set order, erasing the first hidden edge per step
     support update;  emit;  mcb_weight += weight

Like `Model/TreesAlgo.lean` the model runs in ForestIndex coordinates (`reindex g fi`) and translates the emitted cycles
back.  Open choices, all universally quantified in the theorems: the heap behaviour `pick`, and the iteration order of
`std::set<edge_descriptor>` (address order of the edge nodes) as a per-phase enumeration `σ k S` of the signed edges; for
the TBB variant additionally the schedule of every `parallel_reduce`, and the order in which the unit vectors were
pushed.  Core Lean only.
-/
namespace Parmcb

/-- insertion into a list of out-edges sorted by the rank `ord` of the edge id -/
def insertByOrd (ord : List Nat) (p : Nat × Nat) : List (Nat × Nat) → List (Nat × Nat)
  | [] => [p]
  | q :: r => if ord.getD p.1 0 < ord.getD q.1 0 then p :: q :: r else q :: insertByOrd ord p r

/-- `out_edges(v)` of the graph in ForestIndex coordinates in the order the CALLER inserted the edges: `ord[e]` = the
caller's id of edge `e` (`fi.reverse`).  (The model graph lists out-edges by edge id; the C++ iterates them in insertion
order of the caller's graph, whatever numbering the ForestIndex gives them.) -/
def adjOrd (g : Graph) (ord : List Nat) (v : Nat) : List (Nat × Nat) := (g.adj v).foldr (insertByOrd ord) []

/-- what the `for` loop over `out_edges(v)` of `bidirectional_signed_dijkstra` sees from signed node `x`, in order
(the out-edges of every vertex in the order `ord`, see `adjOrd`):
hidden edges skipped, self-loops skipped, level flipped across signed edges; entries (neighbour node, weight, edge id) -/
def sgAdjE (g : Graph) (ord : List Nat) (S hidden : List Nat) : Array (List (Nat × Int × Nat)) :=
  Array.ofFn (n := 2 * g.n) fun x =>
    let v := if x.val < g.n then x.val else x.val - g.n
    let s := decide (x.val < g.n)
    (adjOrd g ord v).filterMap fun (e, w) =>
      if hidden.contains e then none
      else if w = v then none
      else some (sgNode g.n w (if S.contains e then !s else s), g.weight e, e)

/-- one heap oracle per search of a phase: first argument = the search's index (the VERTEX `v` in the all-vertices loops,
the EDGE id `e` in the hidden-edge loops and in the single-edge shortcut), second argument = the weight limit passed to
that search -/
abbrev PickFam := Nat → Option Int → Pick

/-- one call of `bidirectional_signed_dijkstra(g, weight, signed_edges, hidden_edges, …, s, s_pos, t, t_pos, use_limit, limit)` -/
def searchSigned (g : Graph) (ord : List Nat) (pick : Pick) (S hidden : List Nat) (s : Nat) (sPos : Bool) (t : Nat) (tPos : Bool)
    (limit : Option Int) : Cyc (List Nat) :=
  biSearch (sgAdjE g ord S hidden) pick g.weight limit (sgNode g.n s sPos) (sgNode g.n t tPos)

/-- `|S| ≥ n`: `for v in vertices: res = search(v+, v-, limit = best); if found and (no best or res < best) best = res` -/
def allVerticesLoop (g : Graph) (ord : List Nat) (pk : PickFam) (S : List Nat) : Cyc (List Nat) :=
  seqMin (fun v L => searchSigned g ord (pk v L) S [] v true v false L) 0 g.n

/-- what one step of the hidden-edge loop makes of a search result for signed edge `e` -/
def hiddenTake (g : Graph) (e : Nat) (best res : Cyc (List Nat)) : Cyc (List Nat) :=
  match res with
  | none => best
  | some (w, Z) =>
    if Z.contains e then best
    else
      let w' := w + g.weight e
      match best with
      | none => some (w', setInsert e Z)
      | some b => if w' < b.1 then some (w', setInsert e Z) else some b

/-- the result of the search for signed edge `e` with the edges `hid` hidden, as a complete cycle candidate: the path
plus `e` (`none` when nothing is found or the path already contains `e`) -/
def hiddenSearch (g : Graph) (ord : List Nat) (pk : PickFam) (S hid : List Nat) (e : Nat) (limit : Option Int) : Cyc (List Nat) :=
  searchSigned g ord (pk e limit) S hid (g.src e) true (g.tgt e) true limit

/-- `|S| < n`: the hidden-edge heuristic; the list argument is the not yet visited part of the `std::set` iteration,
which is also the current hidden set (`hidden_edges.erase(hidden_edges.begin())` after every search) -/
def hiddenLoop (g : Graph) (ord : List Nat) (pk : PickFam) (S : List Nat) : List Nat → Cyc (List Nat) → Cyc (List Nat)
  | [], best => best
  | e :: rest, best =>
    hiddenLoop g ord pk S rest (hiddenTake g e best (hiddenSearch g ord pk S (e :: rest) e (best.map (·.1))))

/-- the odd-cycle search of one phase of `mcb_sva_signed` -/
def signedPhaseSearch (g : Graph) (ord : List Nat) (pk : PickFam) (σ : List Nat) (S : List Nat) : Cyc (List Nat) :=
  if g.n ≤ S.length then allVerticesLoop g ord pk S else hiddenLoop g ord pk S σ none

/-- phases `k, k+1, …` of the main loop for a per-phase search `search k S`; the support bookkeeping is the literal
`swapAt`/`swapIndex`/`updateSup` of `Model/DePina.lean`.  A phase without result emits the initial value of `best`
(empty set; the C++ would add `numeric_limits::max()`, the model adds 0 — the theorems show it never happens). -/
def signedPhases (v : Variant) (search : Nat → List Nat → Cyc (List Nat)) : Nat → Nat → List (List Nat) → List CycW
  | 0, _, _ => []
  | cnt + 1, k, sup =>
    let sup1 := swapAt sup k (swapIndex v sup k)
    let S := sup1.getD k []
    let best : CycW := match search k S with
      | some (w, Z) => (Z, w)
      | none => ([], 0)
    best :: signedPhases v search cnt (k + 1) (updateSup sup1 k best.1)

def mcbSignedCore (v : Variant) (N : Nat) (sup0 : List (List Nat)) (search : Nat → List Nat → Cyc (List Nat)) : McbResult :=
  let ph := signedPhases v search N 0 sup0
  { cycles := ph.map (·.1), weight := ph.foldl (fun acc p => acc + p.2) 0 }

/-- `mcb_sva_signed`: `order` = iteration order of `spanning_forest`'s unordered_set, `pick k i L` = behaviour of the heaps of search `i` (limit `L`) of phase `k`,
`σ k S` = iteration order of the `std::set<Edge>` of signed edges in phase `k` -/
def mcbSigned (g : Graph) (order : List Nat) (pick : Nat → PickFam) (σ : Nat → List Nat → List Nat) : McbResult :=
  let fi := createIndex g order
  let gi := reindex g fi
  let r := mcbSignedCore .signed fi.dim (unitSupports fi.dim) (fun k S => signedPhaseSearch gi fi.reverse (pick k) (σ k S) S)
  { cycles := translateBack fi.reverse r.cycles, weight := r.weight }

/-! ### the TBB variant (parmcb_sva_signed_tbb.hpp) -/

/-- `find_all_vertices`: `parallel_reduce` over the vertices, running minimum as weight limit, joined by `cycle_min` -/
def allVerticesTbb (g : Graph) (ord : List Nat) (pk : PickFam) (S : List Nat) (s : Sched) : Cyc (List Nat) :=
  reduceMin (fun v L => searchSigned g ord (pk v L) S [] v true v false L) s

/-- one index of `find_less_than_vertices`: signed edge `σ[i]`, hidden set = `σ[i], σ[i+1], …` (a suffix of the `std::set`
order, computed per index), the path completed by the signed edge -/
def hiddenIndexTbb (g : Graph) (ord : List Nat) (pk : PickFam) (S σ : List Nat) (i : Nat) (limit : Option Int) : Cyc (List Nat) :=
  match σ[i]? with
  | none => none
  | some e => hiddenTake g e none (hiddenSearch g ord pk S (σ.drop i) e limit)

def hiddenTbb (g : Graph) (ord : List Nat) (pk : PickFam) (S σ : List Nat) (s : Sched) : Cyc (List Nat) :=
  reduceMin (hiddenIndexTbb g ord pk S σ) s

/-- `find_single_edge`: a support with exactly one signed edge `e` is searched with an EMPTY signed set and `e` hidden,
without limit -/
def singleEdgeTbb (g : Graph) (ord : List Nat) (pk : PickFam) (e : Nat) : Cyc (List Nat) :=
  hiddenTake g e none (searchSigned g ord (pk e none) [] [e] (g.src e) true (g.tgt e) true none)

/-- `OddCycleFinder::find` -/
def signedPhaseSearchTbb (g : Graph) (ord : List Nat) (pk : PickFam) (σ : List Nat) (S : List Nat) (s : Sched) : Cyc (List Nat) :=
  match S with
  | [e] => singleEdgeTbb g ord pk e
  | _ => if g.n ≤ S.length then allVerticesTbb g ord pk S s else hiddenTbb g ord pk S σ s

/-- `mcb_sva_signed_tbb`: `perm` = the order in which the concurrent `push_back`s filled the support vector,
`scheds k S` = the execution of phase `k`'s `parallel_reduce` (the parallel support update equals the sequential one for
every tiling: `C03.c03_update_for`) -/
def mcbSignedTbb (g : Graph) (order : List Nat) (pick : Nat → PickFam) (σ : Nat → List Nat → List Nat)
    (perm : List Nat) (scheds : Nat → List Nat → Sched) : McbResult :=
  let fi := createIndex g order
  let gi := reindex g fi
  let r := mcbSignedCore .signedTbb fi.dim (perm.map fun i => [i])
    (fun k S => signedPhaseSearchTbb gi fi.reverse (pick k) (σ k S) S (scheds k S))
  { cycles := translateBack fi.reverse r.cycles, weight := r.weight }

end Parmcb
