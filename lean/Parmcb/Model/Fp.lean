/-
Model of include/parmcb/fp.hpp (fp<T>::ext_gcd, fp<T>::get_mult_inverse, primes<T>::is_prime)
and include/parmcb/spvecfp.hpp (SpVecFP<P>), over unbounded `Int` (the C++ is instantiated with
`long`, `int` and `boost::multiprecision::cpp_int`; overflow of the built-in types is outside the
property and outside this model).  Core Lean only.

C++ `/` and `%` truncate toward zero: `Int.tdiv` / `Int.tmod`.
-/
namespace Parmcb

/-- the `while (true)` loop of `ext_gcd`.  `(ai, xi, yi)` are `_a[i], _x[i], _y[i]`, `(aj, xj, yj)` are
`_a[1-i], _x[1-i], _y[1-i]`.  Returns `(_a[1-i], _x[1-i], _y[1-i])` at the `break`. -/
def egLoop (ai aj xi xj yi yj : Int) : Int × Int × Int :=
  if h : 0 < aj then
    if Int.tmod ai aj = 0 then (aj, xj, yj)
    else
      have : (Int.tmod ai aj).toNat < aj.toNat := by
        have h1 := Int.tmod_lt_of_pos ai h
        omega
      egLoop aj (Int.tmod ai aj) xj (xi - Int.tdiv ai aj * xj) yj (yi - Int.tdiv ai aj * yj)
  else (aj, xj, yj)   -- unreachable from `extGcd` (division by zero in the C++)
termination_by aj.toNat

/-- `fp<T>::ext_gcd(a, b, x, y)`: returns `(g, x, y)` (return value and the two out-parameters; both
are written on every path). -/
def extGcd (a b : Int) : Int × Int × Int :=
  let aneg := decide (a < 0)
  let bneg := decide (b < 0)
  let a' := if a < 0 then -a else a
  let b' := if b < 0 then -b else b
  if a' = 0 then (b', 0, if bneg then -1 else 1)
  else if b' = 0 then (a', if aneg then -1 else 1, 0)
  else
    let swap := decide (b' > a')
    let (g, xj, yj) := if swap then egLoop b' a' 1 0 0 1 else egLoop a' b' 1 0 0 1
    let sa : Int := if aneg then -1 else 1
    let sb : Int := if bneg then -1 else 1
    if swap then (g, yj * sa, xj * sb) else (g, xj * sa, yj * sb)

/-- `fp<T>::get_mult_inverse(a, p)` with PARMCB_INVARIANTS_CHECK: `none` = an exception is thrown -/
def multInverse (a p : Int) : Option Int :=
  if p ≤ 0 then none
  else
    let (g, x, _) := extGcd a p
    if g ≠ 1 then none else some x

/-- the trial-division loop `while (t <= sqrtt) { if (p % t == 0) return false; t++; }` -/
def trialLoop (p : Int) (t : Int) (sqrtt : Int) : Bool :=
  if _h : t ≤ sqrtt then
    if Int.tmod p t = 0 then false
    else trialLoop p (t + 1) sqrtt
  else true
termination_by (sqrtt + 1 - t).toNat
decreasing_by omega

/-- `primes<T>::is_prime(p)`; `sqrtt` is the value of `T(sqrt(p)) + 1` computed by the C++ (floating
point for built-in types, integer square root for cpp_int): an explicit parameter. -/
def isPrimeWith (p sqrtt : Int) : Bool :=
  if p = 1 then true
  else if p = 2 then true
  else if Int.tmod p 2 = 0 then false
  else trialLoop p 2 sqrtt

/-- with the exact integer square root (what both instantiations compute for the values the
correspondence check uses) -/
def isPrime (p : Int) : Bool := isPrimeWith p (Int.ofNat (Nat.sqrt p.toNat) + 1)

/-! ### SpVecFP -/

/-- `entries` of `SpVecFP<P>` : (index, value) pairs -/
abbrev FpVec := List (Nat × Int)

/-- `while (v < 0) v += p;` -/
def normUp (v p : Int) : Int :=
  if _h : v < 0 ∧ 0 < p then normUp (v + p) p else v
termination_by (-v).toNat
decreasing_by omega

/-- `while (v >= p) v -= p;` -/
def normDown (v p : Int) : Int :=
  if _h : v ≥ p ∧ 0 < p then normDown (v - p) p else v
termination_by (v).toNat
decreasing_by omega

def normalise (v p : Int) : Int := normDown (normUp v p) p

/-- `SpVecFP::operator+` -/
def fpAdd (p : Int) : FpVec → FpVec → FpVec
  | [], b => b
  | a, [] => a
  | (i, x) :: a, (j, y) :: b =>
    if i > j then (j, y) :: fpAdd p ((i, x) :: a) b
    else if i < j then (i, x) :: fpAdd p a ((j, y) :: b)
    else
      let v := normalise (Int.tmod (x + y) p) p
      if v ≠ 0 then (i, v) :: fpAdd p a b else fpAdd p a b
termination_by a b => a.length + b.length

/-- `SpVecFP::operator*(const P& a)` (scalar) -/
def fpScale (p : Int) (c : Int) : FpVec → FpVec
  | [] => []
  | (i, x) :: a =>
    let v := normalise (Int.tmod (x * c) p) p
    if v ≠ 0 then (i, v) :: fpScale p c a else fpScale p c a

/-- `SpVecFP::operator*(const SpVecFP&)` (dot product), accumulator made explicit -/
def fpDotAcc (p : Int) (res : Int) : FpVec → FpVec → Int
  | [], _ => res
  | _, [] => res
  | (i, x) :: a, (j, y) :: b =>
    if i > j then fpDotAcc p res ((i, x) :: a) b
    else if i < j then fpDotAcc p res a ((j, y) :: b)
    else fpDotAcc p (Int.tmod (res + Int.tmod (x * y) p) p) a b
termination_by a b => a.length + b.length

def fpDot (p : Int) (a b : FpVec) : Int := fpDotAcc p 0 a b

/-- `operator=(const std::size_t& index)` -/
def fpUnit (i : Nat) : FpVec := [(i, 1)]

inductive FpOp where
  | unit (a i : Nat)          -- v_a = i         (in place)
  | new                        -- SpVecFP(p)
  | copy (a : Nat)
  | add (a b : Nat)            -- new = a + b
  | addAssign (a b : Nat)
  | scale (a : Nat) (c : Int)  -- new = a * c
  | scaleAssign (a : Nat) (c : Int)
  | assign (a b : Nat)
  | clear (a : Nat)
  | dot (a b : Nat)
  | size (a : Nat)

inductive FpOut where
  | none | val (v : Int) | num (n : Nat) | bad
deriving DecidableEq

def fpStep (p : Int) (s : List FpVec) : FpOp → List FpVec × FpOut
  | .unit a i => match s[a]? with
    | some _ => (s.set a (fpUnit i), .none)
    | none => (s, .bad)
  | .new => (s ++ [[]], .none)
  | .copy a => match s[a]? with
    | some v => (s ++ [v], .none)
    | none => (s, .bad)
  | .add a b => match s[a]?, s[b]? with
    | some va, some vb => (s ++ [fpAdd p va vb], .none)
    | _, _ => (s, .bad)
  | .addAssign a b => match s[a]?, s[b]? with
    | some va, some vb => (s.set a (fpAdd p va vb), .none)
    | _, _ => (s, .bad)
  | .scale a c => match s[a]? with
    | some va => (s ++ [fpScale p c va], .none)
    | none => (s, .bad)
  | .scaleAssign a c => match s[a]? with
    | some va => (s.set a (fpScale p c va), .none)
    | none => (s, .bad)
  | .assign a b => match s[a]?, s[b]? with
    | some _, some vb => (s.set a vb, .none)
    | _, _ => (s, .bad)
  | .clear a => match s[a]? with
    | some _ => (s.set a [], .none)
    | none => (s, .bad)
  | .dot a b => match s[a]?, s[b]? with
    | some va, some vb => (s, .val (fpDot p va vb))
    | _, _ => (s, .bad)
  | .size a => match s[a]? with
    | some va => (s, .num va.length)
    | none => (s, .bad)

def fpRun (p : Int) (ops : List FpOp) : List FpVec := ops.foldl (fun s op => (fpStep p s op).1) []

end Parmcb
