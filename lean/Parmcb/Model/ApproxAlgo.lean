import Parmcb.Model.SignedAlgo
import Parmcb.Model.Spanner
/-
End-to-end literal model of the approximate algorithms (include/parmcb/detail/approx_spanner.hpp,
detail/dijkstra.hpp, parmcb_approx_sva_*.hpp):

  construct_spanner (Model/Spanner.lean, scan order = what std::sort left)  →  exact algorithm on the spanner graph
  →  translation of its cycles through `_edge_spanner_to_g`  →  per dropped edge: `parmcb::dijkstra` on the spanner from
  one endpoint, walk the predecessor edges back from the other endpoint, append the edge  →  returned weight.

`parmcb::dijkstra` is modelled literally with one `FrontierP` (labels, predecessor records, heap as "a queued vertex of
minimum label chosen by `pick`", one step-indexed oracle `pickD e` per dropped edge `e`); the exact phase is any of the end-to-end models of `Model/SignedAlgo.lean` /
`Model/TreesAlgo.lean` applied to the spanner graph.  The TBB builder pushes the cycles of the dropped edges into a
concurrent vector: their order in the output is an arbitrary permutation (`pushOrder`), and the weights are reduced under
an arbitrary schedule.  Core Lean only.
-/
namespace Parmcb

/-- what the `for` loop over `out_edges(u)` of `parmcb::dijkstra` sees after the self-loop test: (neighbour, weight, edge id) -/
def plainAdjE (g : Graph) : Array (List (Nat × Int × Nat)) :=
  Array.ofFn (n := g.n) fun u =>
    (g.adj u.val).filterMap fun (e, w) => if w = u.val then none else some (w, g.weight e, e)

/-- the `for` loop of `parmcb::dijkstra` for the popped vertex `u` with label `du`
(`if (w == s) continue;` and the visited / decrease-key cases are `FrontierP.update`) -/
def dijkScan (u : Nat) (du : Int) : List (Nat × Int × Nat) → FrontierP → FrontierP
  | [], f => f
  | (w, c, e) :: r, f => dijkScan u du r (f.update w (du + c) u e)

/-- `while (!queue.empty()) { u = top; pop; scan }` -/
def dijkLoop (adjE : Array (List (Nat × Int × Nat))) (pick : Pick) : Nat → FrontierP → FrontierP
  | 0, f => f
  | fuel + 1, f =>
    if f.queue.isEmpty then f
    else
      let u := pick fuel f.toF.minNodes
      match f.dist[u]! with
      | none => f
      | some du => dijkLoop adjE pick fuel (dijkScan u du adjE[u]! { f with queue := f.queue.erase u })

/-- `parmcb::dijkstra(g, weight, s, dist_map, pred_map)` -/
def dijkstraP (g : Graph) (pick : Pick) (s : Nat) : FrontierP :=
  dijkLoop (plainAdjE g) pick (g.n + 1) (FrontierP.init g.n s)

/-- "form cycle": from `w` follow the predecessor edges while there is one; edges in the order they are pushed -/
def pathBack (f : FrontierP) : Nat → Nat → List Nat
  | 0, _ => []
  | fuel + 1, w =>
    if w == f.src then []
    else match f.pred[w]! with
      | none => []
      | some (u, e) => e :: pathBack f fuel u

/-- the cycle of one dropped edge `e` (edge ids of the caller's graph; `R` = `_edge_spanner_to_g`) and its weight -/
def nonSpannerCycle (g : Graph) (R : List Nat) (pick : Pick) (e : Nat) : List Nat × Int :=
  let sp := spannerGraph g R
  let f := dijkstraP sp pick (g.src e)
  let path := (pathBack f (g.n + 1) (g.tgt e)).map fun i => R.getD i 0
  let cyc := path ++ [e]
  (cyc, (cyc.map g.weight).sum)

/-- `BaseApproxSpannerAlgorithm::run` (sequential builder).  `exact sp` = the exact algorithm on the spanner graph
(cycles in the spanner's own edge numbering = positions in `R`).  Emitted cycles are canonical edge sets of `g`. -/
def approxCore (g : Graph) (k : Nat) (scan : List Nat) (exact : Graph → McbResult) (pickD : Nat → Pick) : ApproxOutcome :=
  if k < 1 then .error
  else
    let RD := constructSpanner g k scan
    let ex := exact (spannerGraph g RD.1)
    let translated := translateBack RD.1 ex.cycles
    let extra := RD.2.map fun e => nonSpannerCycle g RD.1 (pickD e) e
    .ok (translated ++ extra.map fun p => setOf p.1) (ex.weight + (extra.map (·.2)).foldl (· + ·) 0)

/-- the TBB builder: the dropped edges' cycles arrive in the order `pushOrder` (positions in the dropped list), the
weights are summed under the schedule `s` -/
def approxCoreTbb (g : Graph) (k : Nat) (scan : List Nat) (exact : Graph → McbResult) (pickD : Nat → Pick)
    (pushOrder : List Nat) (s : Sched) : ApproxOutcome :=
  if k < 1 then .error
  else
    let RD := constructSpanner g k scan
    let ex := exact (spannerGraph g RD.1)
    let translated := translateBack RD.1 ex.cycles
    let extra := pushOrder.map fun i => nonSpannerCycle g RD.1 (pickD (RD.2.getD i 0)) (RD.2.getD i 0)
    .ok (translated ++ extra.map fun p => setOf p.1) (ex.weight + reduceSum (fun i => (extra.getD i ([], 0)).2) s)

/-! ### the six entry points -/

def approxSigned (g : Graph) (k : Nat) (scan order : List Nat) (pick : Nat → PickFam) (σ : Nat → List Nat → List Nat)
    (pickD : Nat → Pick) : ApproxOutcome :=
  approxCore g k scan (fun sp => mcbSigned sp order pick σ) pickD

def approxFvsTrees (g : Graph) (k : Nat) (scan order picks : List Nat) (sorter : List Cand → List Cand)
    (pickD : Nat → Pick) : ApproxOutcome :=
  approxCore g k scan (fun sp => mcbFvsTrees sp order picks sorter) pickD

/-- `approx_mcb_sva_iso_trees`.  NOTE: the sequential entry point instantiates `detail::mcb_sva_fvs_trees` as its exact
algorithm (include/parmcb/parmcb_approx_sva_trees.hpp:49 — the TBB entry point does use the isometric variant), so the
exact phase of this model is the FVS-tree algorithm, as in the code; observed by the literal replay of the exact phase. -/
def approxIsoTrees (g : Graph) (k : Nat) (scan order picks : List Nat) (sorter : List Cand → List Cand)
    (pickD : Nat → Pick) : ApproxOutcome :=
  approxCore g k scan (fun sp => mcbFvsTrees sp order picks sorter) pickD

def approxSignedTbb (g : Graph) (k : Nat) (scan order : List Nat) (pick : Nat → PickFam) (σ : Nat → List Nat → List Nat)
    (perm : List Nat) (scheds : Nat → List Nat → Sched) (pickD : Nat → Pick) (pushOrder : List Nat) (s : Sched) :
    ApproxOutcome :=
  approxCoreTbb g k scan (fun sp => mcbSignedTbb sp order pick σ perm scheds) pickD pushOrder s

def approxFvsTreesTbb (g : Graph) (k : Nat) (scan order picks : List Nat) (sorter : List Cand → List Cand)
    (scheds : Nat → Sched) (pickD : Nat → Pick) (pushOrder : List Nat) (s : Sched) : ApproxOutcome :=
  approxCoreTbb g k scan (fun sp => mcbFvsTreesTbb sp order picks sorter scheds) pickD pushOrder s

def approxIsoTreesTbb (g : Graph) (k : Nat) (scan order : List Nat) (sorter : List Cand → List Cand)
    (scheds : Nat → Sched) (pickD : Nat → Pick) (pushOrder : List Nat) (s : Sched) : ApproxOutcome :=
  approxCoreTbb g k scan (fun sp => mcbIsoTreesTbb sp order sorter scheds) pickD pushOrder s

end Parmcb
