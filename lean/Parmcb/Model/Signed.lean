import Parmcb.Model.Graph
/-
The two-level signed graph `g±(S)` of the exact algorithms (detail/signed_dijkstra.hpp works on it
implicitly): nodes `(v, +)`, `(v, -)`; an edge `e = (u,w)` of `g` joins `(u,s)` with `(w,s)` when
`e ∉ S` and `(u,s)` with `(w,¬s)` when `e ∈ S`.  A `v+ → v-` path projects to a closed walk through
`v` with odd `S`-parity.

`minOddWeight g S` = the minimum over all vertices `v` of the distance `v+ → v-`: the value function
of the `|S| ≥ n` branch of `mcb_sva_signed`, used by the trace validation as the per-phase optimum.
Array-based O(n²) Dijkstra, core Lean only.  (`minOddBrute` is the definitional oracle for small graphs.)
-/
namespace Parmcb

/-- node index of a signed vertex: `v` for `(v,+)`, `n + v` for `(v,-)` -/
def sgNode (n v : Nat) (pos : Bool) : Nat := if pos then v else n + v

/-- adjacency of the signed graph as arrays of (neighbour node, weight) -/
def sgAdj (g : Graph) (S : List Nat) : Array (List (Nat × Int)) := Id.run do
  let n := g.n
  let mut a : Array (List (Nat × Int)) := Array.replicate (2 * n) []
  let mut e := 0
  for (u, w, c) in g.edges do
    let sg := S.contains e
    if u < n ∧ w < n then
      for s in [true, false] do
        let x := sgNode n u s
        let y := sgNode n w (if sg then !s else s)
        a := a.modify x (fun l => (y, c) :: l)
        a := a.modify y (fun l => (x, c) :: l)
    e := e + 1
  return a

/-- the signed graph with the edges in `hidden` removed (the hidden-edge heuristic searches this graph) -/
def sgAdjHidden (g : Graph) (S hidden : List Nat) : Array (List (Nat × Int)) := Id.run do
  let n := g.n
  let mut a : Array (List (Nat × Int)) := Array.replicate (2 * n) []
  let mut e := 0
  for (u, w, c) in g.edges do
    let sg := S.contains e
    if u < n ∧ w < n ∧ !(hidden.contains e) then
      for s in [true, false] do
        let x := sgNode n u s
        let y := sgNode n w (if sg then !s else s)
        a := a.modify x (fun l => (y, c) :: l)
        a := a.modify y (fun l => (x, c) :: l)
    e := e + 1
  return a

/-- single-source shortest distances (non-negative weights), `none` = unreachable -/
def sgDijkstra (adj : Array (List (Nat × Int))) (src : Nat) : Array (Option Int) := Id.run do
  let N := adj.size
  let mut dist : Array (Option Int) := Array.replicate N none
  let mut done : Array Bool := Array.replicate N false
  if src < N then dist := dist.set! src (some 0)
  for _ in [0:N] do
    -- pick the unfinished node of smallest distance
    let mut best : Option (Nat × Int) := none
    for i in [0:N] do
      if !done[i]! then
        match dist[i]!, best with
        | some d, none => best := some (i, d)
        | some d, some (_, bd) => if d < bd then best := some (i, d)
        | none, _ => pure ()
    match best with
    | none => break
    | some (u, du) =>
      done := done.set! u true
      for (y, c) in adj[u]! do
        let nd := du + c
        match dist[y]! with
        | none => dist := dist.set! y (some nd)
        | some dy => if nd < dy then dist := dist.set! y (some nd)
  return dist

/-- does SOME shortest `a → b` walk of the signed graph traverse an edge of `g` twice?  (`bidirectional_signed_dijkstra`
discards such a walk: "duplicate edge, discard cycle"; a search that returns nothing although the target is
reachable below the limit is legitimate only in this case.)  `dist` = the `a → b` distance. -/
def sgShortestMayRepeat (g : Graph) (S hidden : List Nat) (a b : Nat) (dist : Int) : Bool := Id.run do
  let n := g.n
  let adj := sgAdjHidden g S hidden
  let da := sgDijkstra adj a
  let db := sgDijkstra adj b
  let mut e := 0
  for (u, w, c) in g.edges do
    if u < n ∧ w < n ∧ !(hidden.contains e) then
      let sg := S.contains e
      -- the four oriented copies of `e` in the signed graph
      let copies : List (Nat × Nat) := [true, false].flatMap fun s =>
        let x := sgNode n u s
        let y := sgNode n w (if sg then !s else s)
        [(x, y), (y, x)]
      for (u1, v1) in copies do
        match da[u1]! with
        | none => pure ()
        | some d1 =>
          if d1 + 2 * c ≤ dist then
            let dm := sgDijkstra adj v1
            for (u2, v2) in copies do
              match dm[u2]!, db[v2]! with
              | some d2, some d3 => if d1 + c + d2 + c + d3 == dist then return true
              | _, _ => pure ()
    e := e + 1
  return false

/-- min over `v` of dist(v+, v-) -/
def minOddWeight (g : Graph) (S : List Nat) : Option Int := Id.run do
  let adj := sgAdj g S
  let mut best : Option Int := none
  for v in [0:g.n] do
    let d := sgDijkstra adj (sgNode g.n v true)
    match d[sgNode g.n v false]!, best with
    | some x, none => best := some x
    | some x, some b => if x < b then best := some x
    | none, _ => pure ()
  return best

/-- all sublists of a list (as sets of edge ids, in increasing order when the list is) -/
def subsetsOf : List Nat → List (List Nat)
  | [] => [[]]
  | x :: r => let s := subsetsOf r; s ++ s.map (x :: ·)

/-- definitional oracle: the minimum weight over ALL elements of the cycle space that are odd
against `S`, by enumeration of the `2^m` edge subsets (small graphs only) -/
def minOddBrute (g : Graph) (S : List Nat) : Option Int :=
  ((subsetsOf (List.range g.m)).filter (fun Z => evenSetB g Z && dotPar Z S)).foldl
    (fun best Z => match best with
      | none => some (wt g Z)
      | some b => if wt g Z < b then some (wt g Z) else some b) none

end Parmcb
