/-
Model of the decision logic of the four command-line programs (src/mcb-dimacs.cpp,
src/approx-mcb-dimacs.cpp, src/collection-stats-dimacs.cpp, src/mcb-dimacs-mpi.cpp): option handling,
the precondition gate, algorithm selection, exit status, per rank for the MPI demo.  Core Lean only.
What the selected library entry point returns is covered by C01–C06; here it is an argument.
-/
namespace Parmcb

inductive Prog where
  | mcb | approx | stats | mpi
deriving DecidableEq, Repr

structure DemoOpts where
  signed : Bool := true          -- `--signed` defaults to TRUE and shadows the other two flags
  fvstrees : Bool := false
  isotrees : Bool := false
  parallel : Bool := true
  verbose : Bool := false
  printcycles : Bool := false
  cores : Nat := 0
  k : Int := 2
deriving Repr

/-- what the validators say about the file's graph -/
structure FileFacts where
  loops : Bool
  multi : Bool
  nonpos : Bool
deriving Repr

def FileFacts.valid (f : FileFacts) : Bool := !f.loops && !f.multi && !f.nonpos

/-- the library entry point a demo dispatches to -/
inductive Algo where
  | signed | signedTbb | fvs | fvsTbb | iso | isoTbb
  | approxSigned | approxSignedTbb | approxFvs | approxFvsTbb | approxIso | approxIsoTbb
  | mpiSigned | mpiFvsTbb | mpiIsoTbb
deriving DecidableEq, Repr

inductive RankOutcome where
  | exit (code : Nat) (ran : Option Algo)     -- the process returns with this status
  | blocked (ran : Algo)                      -- the process waits in a collective that can never complete
deriving DecidableEq, Repr

def selectMcb (o : DemoOpts) : Algo :=
  if o.signed then (if o.parallel then .signedTbb else .signed)
  else if o.fvstrees then (if o.parallel then .fvsTbb else .fvs)
  else (if o.parallel then .isoTbb else .iso)

def selectApprox (o : DemoOpts) : Algo :=
  if o.signed then (if o.parallel then .approxSignedTbb else .approxSigned)
  else if o.fvstrees then (if o.parallel then .approxFvsTbb else .approxFvs)
  else (if o.parallel then .approxIsoTbb else .approxIso)

def selectMpi (o : DemoOpts) : Algo :=
  if o.signed then .mpiSigned else if o.fvstrees then .mpiFvsTbb else .mpiIsoTbb

/-- one process of a demo run with `P` processes (`P = 1`, `rank = 0` for the non-MPI programs) -/
def demoRank (p : Prog) (o : DemoOpts) (f : FileFacts) (_P _rank : Nat) : RankOutcome :=
  if !f.valid then .exit 1 none                       -- every rank has read the file and runs the gate
  else match p with
    | .mcb => .exit 0 (some (selectMcb o))
    | .approx => if o.k ≤ 1 then .exit 1 none else .exit 0 (some (selectApprox o))
    | .stats => .exit 0 none
    | .mpi => .exit 0 (some (selectMpi o))

/-- the pinned MPI demo, for the record: only rank 0 ran the gate and returned; the other ranks went on
into the algorithm and wait in its first collective for a rank that has left -/
def demoRankPinnedMpi (o : DemoOpts) (f : FileFacts) (P rank : Nat) : RankOutcome :=
  if !f.valid then
    if rank = 0 then .exit 1 none
    else if P ≥ 2 then .blocked (selectMpi o) else .exit 0 (some (selectMpi o))
  else .exit 0 (some (selectMpi o))

end Parmcb
