import Parmcb.Model.Cert
import Parmcb.Lemmas.Cert
/-!
Why searching the two-level signed graph finds minimum odd cycles (the mechanism of C02):
walks in `g±(S)` versus elements of the cycle space that are odd against `S`.
`swalk` is a walk in the signed graph given by its underlying edge list: it starts at `(a, sa)`, every edge
of `S` flips the level.  Core Lean only.
-/
namespace Parmcb

/-- weight of an edge list -/
def listW (g : Graph) (es : List Nat) : Int := (es.map g.weight).sum

/-- level reached after walking `es` from level `s`: flipped once per signed edge -/
def levelAfter (S : List Nat) (s : Bool) (es : List Nat) : Bool := xor s (par es (fun e => S.contains e))


namespace SgL
open Parmcb.Spanner Parmcb.CertL

theorem listW_eq_wt (g : Graph) (es : List Nat) : listW g es = wt g es := rfl

theorem par_app (a b : List Nat) (f : Nat → Bool) : par (a ++ b) f = xor (par a f) (par b f) := by
  induction a with
  | nil => simp [par_nil]
  | cons x r ih => rw [List.cons_append, par_cons, par_cons, ih, Bool.xor_assoc]

theorem wt_app (g : Graph) (a b : List Nat) : wt g (a ++ b) = wt g a + wt g b := by
  induction a with
  | nil => simp [wt_nil]
  | cons x r ih => rw [List.cons_append, wt_cons, wt_cons, ih]; omega

/-- reduction modulo 2 of an edge list -/
def red : List Nat → List Nat
  | [] => []
  | e :: r => xorMerge [e] (red r)

theorem red_sorted : ∀ es : List Nat, StrictSorted (red es)
  | [] => trivial
  | e :: r => xorMerge_sorted [e] (red r) trivial (red_sorted r)

theorem red_par (f : Nat → Bool) : ∀ es : List Nat, par (red es) f = par es f
  | [] => rfl
  | e :: r => by
    show par (xorMerge [e] (red r)) f = _
    rw [par_xorMerge, red_par f r, par_cons, par_cons, par_nil, Bool.xor_false]

theorem red_mem : ∀ (es : List Nat) (z : Nat), z ∈ red es → z ∈ es
  | [], z, h => by cases h
  | e :: r, z, h => by
    rcases mem_xorMerge_of [e] (red r) z h with h1 | h1
    · rw [List.mem_singleton] at h1; subst h1; exact List.mem_cons_self
    · exact List.mem_cons_of_mem _ (red_mem r z h1)

theorem wt_xorMerge_single_le (g : Graph) (e : Nat) (he : 0 ≤ g.weight e) :
    ∀ R : List Nat, wt g (xorMerge [e] R) ≤ g.weight e + wt g R := by
  intro R
  induction R with
  | nil => rw [xorMerge_nil_right, wt_cons]; omega
  | cons y b ih =>
    unfold xorMerge
    by_cases h1 : e > y
    · rw [if_pos h1, wt_cons, wt_cons]; omega
    · rw [if_neg h1]
      by_cases h2 : e < y
      · rw [if_pos h2, xorMerge_nil_left, wt_cons]; omega
      · rw [if_neg h2, xorMerge_nil_left, wt_cons]
        have : e = y := by omega
        subst this
        omega

theorem red_wt (g : Graph) : ∀ es : List Nat, (∀ e ∈ es, 0 ≤ g.weight e) → wt g (red es) ≤ wt g es
  | [], _ => by show wt g [] ≤ wt g []; omega
  | e :: r, h => by
    show wt g (xorMerge [e] (red r)) ≤ _
    have h1 := wt_xorMerge_single_le g e (h e List.mem_cons_self) (red r)
    have h2 := red_wt g r (fun f hf => h f (List.mem_cons_of_mem _ hf))
    rw [wt_cons]; omega

theorem contains_fun (S : List Nat) : (fun e => decide (e ∈ S)) = (fun e => S.contains e) := by
  funext e; simp

theorem level_odd {S : List Nat} {es : List Nat} (h : levelAfter S true es = false) :
    par es (fun e => S.contains e) = true := by
  unfold levelAfter at h
  cases h2 : par es (fun e => S.contains e) with
  | true => rfl
  | false => rw [h2] at h; exact absurd h (by decide)

theorem level_even {S : List Nat} {es : List Nat} (h : levelAfter S true es = true) :
    par es (fun e => S.contains e) = false := by
  unfold levelAfter at h
  cases h2 : par es (fun e => S.contains e) with
  | false => rfl
  | true => rw [h2] at h; exact absurd h (by decide)

/-- the decomposition: an odd element of the cycle space contains an odd closed trail that weighs no more -/
theorem odd_closed_trail_aux (g : Graph) (hs : g.simpleB = true) (hp : g.positiveB = true) (S : List Nat)
    (hS : StrictSorted S) :
    ∀ (n : Nat) (Z : List Nat), Z.length ≤ n → EvenSet g Z → dotPar Z S = true →
      ∃ v T, isWalk g T v v = true ∧ T.Nodup ∧ (∀ e ∈ T, e ∈ Z) ∧
        par T (fun e => S.contains e) = true ∧ wt g T ≤ wt g Z := by
  intro n
  induction n with
  | zero =>
    intro Z hl _ hodd
    have : Z = [] := List.eq_nil_of_length_eq_zero (by omega)
    subst this
    rw [dotPar_nil_left] at hodd; cases hodd
  | succ n ih =>
    intro Z hl hZ hodd
    cases Z with
    | nil => rw [dotPar_nil_left] at hodd; cases hodd
    | cons e r =>
      have hem : e < g.m := hZ.2.1 e List.mem_cons_self
      have hfe := simpleB_facts g hs e hem
      have hnd : (e :: r).Nodup := hZ.1.nodup
      have hnd' := List.nodup_cons.1 hnd
      have hje : Jn g e (g.src e) (g.tgt e) := Or.inl ⟨rfl, rfl⟩
      have hparr : ∀ x, par r (g.inc x) = xor (x == g.src e) (x == g.tgt e) := by
        intro x
        have h1 := hZ.2.2 x
        rw [par_cons, inc_of_jn g e _ _ x hje] at h1
        revert h1
        cases (x == g.src e) <;> cases (x == g.tgt e) <;> cases par r (g.inc x) <;> simp
      obtain ⟨es, hesnd, hessub, hesw⟩ := trail_extract g r.length r _ _ rfl hnd'.2 hfe.2.2 hparr
      have hTw : isWalk g (e :: es) (g.tgt e) (g.tgt e) = true := by
        rw [isWalk_cons]; exact ⟨g.src e, hje.symm, hesw⟩
      have hTnd : (e :: es).Nodup := by
        rw [List.nodup_cons]
        exact ⟨fun hmem => hnd'.1 (hessub e hmem), hesnd⟩
      have hTsub : ∀ f ∈ e :: es, f ∈ e :: r := by
        intro f hf
        rcases List.mem_cons.1 hf with h1 | h1
        · subst h1; exact List.mem_cons_self
        · exact List.mem_cons_of_mem _ (hessub f h1)
      have hTm : ∀ f ∈ e :: es, f < g.m := fun f hf => hZ.2.1 f (hTsub f hf)
      have hTZ : EvenSet g (setOf (e :: es)) := by
        refine ⟨setOf_sorted _, ?_, ?_⟩
        · intro f hf; exact hTm f ((mem_setOf _ f).1 hf)
        · intro x
          rw [par_setOf _ hTnd, walk_boundary g _ _ _ hTw x]
          cases (x == g.tgt e) <;> rfl
      have hTZsub : ∀ f ∈ setOf (e :: es), f ∈ e :: r := fun f hf => hTsub f ((mem_setOf _ f).1 hf)
      have hR : EvenSet g (xorMerge (e :: r) (setOf (e :: es))) := hZ.add hTZ
      have hw := wt_split g (e :: r) _ hZ.1 hTZ.1 hTZsub
      have hwT := wt_nonneg g hp _ hTZ.2.1
      have hwR := wt_nonneg g hp _ hR.2.1
      have hdot : dotPar (xorMerge (e :: r) (setOf (e :: es))) S
          = xor (dotPar (e :: r) S) (dotPar (setOf (e :: es)) S) := by
        rw [dotPar_eq_par _ _ hR.1 hS, dotPar_eq_par _ _ hZ.1 hS, dotPar_eq_par _ _ hTZ.1 hS,
          par_xorMerge]
      cases hts : dotPar (setOf (e :: es)) S with
      | true =>
        have hpT : par (e :: es) (fun f => S.contains f) = true := by
          rw [dotPar_eq_par _ _ hTZ.1 hS, par_setOf _ hTnd] at hts
          rw [← hts]
          apply par_congr
          intro f _
          simp
        rw [wt_setOf g _ hTnd] at hw hwT
        exact ⟨g.tgt e, e :: es, hTw, hTnd, hTsub, hpT, by omega⟩
      | false =>
        have hRodd : dotPar (xorMerge (e :: r) (setOf (e :: es))) S = true := by
          rw [hdot, hodd, hts]; rfl
        have hsub0 : ∀ f ∈ xorMerge (e :: r) (setOf (e :: es)), f ∈ e :: r := by
          intro f hf
          rcases mem_xorMerge_of _ _ _ hf with h4 | h4
          · exact h4
          · exact hTZsub f h4
        have hRlen : (xorMerge (e :: r) (setOf (e :: es))).length ≤ n := by
          have hsub : ∀ f ∈ xorMerge (e :: r) (setOf (e :: es)), f ∈ r := by
            intro f hf
            have h1 := (mem_xorMerge _ _ hZ.1 hTZ.1 f).1 hf
            have hfe' : f ≠ e := by
              intro hfe'
              subst hfe'
              have h2 : f ∈ setOf (f :: es) := (mem_setOf _ f).2 List.mem_cons_self
              have h3 : f ∈ f :: r := List.mem_cons_self
              simp [h2, h3] at h1
            rcases List.mem_cons.1 (hsub0 f hf) with h5 | h5
            · exact absurd h5 hfe'
            · exact h5
          have := List.Nodup.length_le_of_subset hR.1.nodup hsub
          simp only [List.length_cons] at hl
          omega
        obtain ⟨v, T, h1, h2, h3, h4, h5⟩ := ih _ hRlen hR hRodd
        exact ⟨v, T, h1, h2, fun f hf => hsub0 f (h3 f hf), h4, by omega⟩

theorem odd_closed_trail (g : Graph) (hs : g.simpleB = true) (hp : g.positiveB = true) (S : List Nat)
    (hS : StrictSorted S) (Z : List Nat) (hZ : EvenSet g Z) (hodd : dotPar Z S = true) :
    ∃ v T, isWalk g T v v = true ∧ T.Nodup ∧ (∀ e ∈ T, e ∈ Z) ∧
      par T (fun e => S.contains e) = true ∧ listW g T ≤ wt g Z :=
  odd_closed_trail_aux g hs hp S hS Z.length Z (Nat.le_refl _) hZ hodd

theorem isWalk_append (g : Graph) (x y : List Nat) (a c : Nat) :
    isWalk g (x ++ y) a c = true ↔ ∃ b, isWalk g x a b = true ∧ isWalk g y b c = true := by
  induction x generalizing a with
  | nil =>
    rw [List.nil_append]
    constructor
    · intro h; exact ⟨a, (isWalk_nil g a a).2 rfl, h⟩
    · rintro ⟨b, h1, h2⟩
      rw [isWalk_nil] at h1; subst h1; exact h2
  | cons e r ih =>
    rw [List.cons_append, isWalk_cons]
    constructor
    · rintro ⟨d, hj, h⟩
      obtain ⟨b, h1, h2⟩ := (ih d).1 h
      exact ⟨b, (isWalk_cons g e r a b).2 ⟨d, hj, h1⟩, h2⟩
    · rintro ⟨b, h1, h2⟩
      rw [isWalk_cons] at h1
      obtain ⟨d, hj, h1⟩ := h1
      exact ⟨d, hj, (ih d).2 ⟨b, h1, h2⟩⟩

theorem isWalk_reverse (g : Graph) (es : List Nat) (a c : Nat) (h : isWalk g es a c = true) :
    isWalk g es.reverse c a = true := by
  induction es generalizing a with
  | nil =>
    rw [isWalk_nil] at h; subst h
    exact (isWalk_nil g a a).2 rfl
  | cons e r ih =>
    rw [isWalk_cons] at h
    obtain ⟨d, hj, h⟩ := h
    rw [List.reverse_cons]
    exact isWalk_snoc g _ e c d a (ih d h) hj.symm

/-- a predicate true somewhere below `n` has a largest witness below `n` -/
theorem largest_witness (p : Nat → Prop) : ∀ n : Nat, (∃ i, i < n ∧ p i) →
    ∃ j, j < n ∧ p j ∧ ∀ i, j < i → i < n → ¬ p i := by
  intro n
  induction n with
  | zero => rintro ⟨i, hi, _⟩; omega
  | succ n ih =>
    rintro ⟨i, hi, hpi⟩
    by_cases hn : p n
    · exact ⟨n, by omega, hn, fun i h1 h2 => by omega⟩
    · have hin : i < n := by
        have : i ≠ n := by intro h; subst h; exact hn hpi
        omega
      obtain ⟨j, hj, hpj, hmax⟩ := ih ⟨i, hin, hpi⟩
      refine ⟨j, by omega, hpj, ?_⟩
      intro k h1 h2
      by_cases hk : k = n
      · subst hk; exact hn
      · exact hmax k h1 (by omega)

end SgL

open SgL Parmcb.Spanner Parmcb.CertL

/-- **projection**: the edges of a closed walk through `v` in `g` whose level changes (`v+ → v-` in the signed
graph), reduced modulo 2, form an element of the cycle space that is odd against `S` and weighs no more than
the walk (positive weights) -/
theorem signed_walk_to_evenset (g : Graph) (hs : g.simpleB = true) (hp : g.positiveB = true) (S : List Nat)
    (hS : StrictSorted S) (v : Nat) (es : List Nat) (he : ∀ e ∈ es, e < g.m)
    (hw : isWalk g es v v = true) (hodd : levelAfter S true es = false) :
    ∃ Z, EvenSet g Z ∧ dotPar Z S = true ∧ wt g Z ≤ listW g es := by
  have _ := hs -- (simplicity is not needed for the projection)
  have hpar := level_odd hodd
  have hnn : ∀ e ∈ es, 0 ≤ g.weight e := fun e h => Int.le_of_lt (positiveB_facts g hp e (he e h))
  refine ⟨red es, ⟨red_sorted es, fun e h => he e (red_mem es e h), ?_⟩, ?_, ?_⟩
  · intro x
    rw [red_par, walk_boundary g es v v hw x]
    cases (x == v) <;> rfl
  · rw [dotPar_eq_par _ _ (red_sorted es) hS, red_par, contains_fun]
    exact hpar
  · exact red_wt g es hnn

/-- **lifting**: every element of the cycle space that is odd against `S` contains a closed walk through some
vertex `v` that changes level and weighs no more (positive weights) -/
theorem evenset_to_signed_walk (g : Graph) (hs : g.simpleB = true) (hp : g.positiveB = true) (S : List Nat)
    (hS : StrictSorted S) (Z : List Nat) (hZ : EvenSet g Z) (hodd : dotPar Z S = true) :
    ∃ v es, v < g.n ∧ (∀ e ∈ es, e ∈ Z) ∧ es.Nodup ∧ isWalk g es v v = true ∧
      levelAfter S true es = false ∧ listW g es ≤ wt g Z := by
  obtain ⟨v, T, hw, hnd, hsub, hpar, hwt⟩ := odd_closed_trail g hs hp S hS Z hZ hodd
  refine ⟨v, T, ?_, hsub, hnd, hw, ?_, hwt⟩
  · cases T with
    | nil => rw [par_nil] at hpar; cases hpar
    | cons e r =>
      rw [isWalk_cons] at hw
      obtain ⟨c, hj, _⟩ := hw
      have hf := simpleB_facts g hs e (hZ.2.1 e (hsub e List.mem_cons_self))
      rcases hj with ⟨h1, _⟩ | ⟨h1, _⟩
      · rw [← h1]; exact hf.1
      · rw [← h1]; exact hf.2.1
  · unfold levelAfter
    rw [hpar]; rfl

/-- **all-vertices search is exact** (the `|S| ≥ n` branch): if `d v` is, for every vertex, a lower bound for
all level-changing closed walks through `v` that is attained by one of them (i.e. the signed-graph distance
`v+ → v-`, `none` when there is no such walk), then the minimum of the `d v` is the minimum weight of an
element of the cycle space odd against `S` -/
theorem allVertices_eq_minOdd (g : Graph) (hs : g.simpleB = true) (hp : g.positiveB = true) (S : List Nat)
    (hS : StrictSorted S) (d : Nat → Option Int)
    (hlow : ∀ v es x, v < g.n → d v = some x → (∀ e ∈ es, e < g.m) → isWalk g es v v = true →
        levelAfter S true es = false → x ≤ listW g es)
    (hnone : ∀ v es, v < g.n → d v = none → (∀ e ∈ es, e < g.m) → isWalk g es v v = true →
        levelAfter S true es = false → False)
    (hatt : ∀ v x, v < g.n → d v = some x → ∃ es, (∀ e ∈ es, e < g.m) ∧ isWalk g es v v = true ∧
        levelAfter S true es = false ∧ listW g es = x)
    (μ : Int) (hμ : ∃ v, v < g.n ∧ d v = some μ) (hmin : ∀ v x, v < g.n → d v = some x → μ ≤ x) :
    (∃ Z, EvenSet g Z ∧ dotPar Z S = true ∧ wt g Z ≤ μ) ∧
    (∀ Z, EvenSet g Z → dotPar Z S = true → μ ≤ wt g Z) := by
  constructor
  · obtain ⟨v, hv, hdv⟩ := hμ
    obtain ⟨es, h1, h2, h3, h4⟩ := hatt v μ hv hdv
    obtain ⟨Z, hZ, ho, hw⟩ := signed_walk_to_evenset g hs hp S hS v es h1 h2 h3
    exact ⟨Z, hZ, ho, by omega⟩
  · intro Z hZ ho
    obtain ⟨v, es, hv, hsub, _, hw, hl, hwt⟩ := evenset_to_signed_walk g hs hp S hS Z hZ ho
    have hm : ∀ e ∈ es, e < g.m := fun e h => hZ.2.1 e (hsub e h)
    cases hd : d v with
    | none => exact (hnone v es hv hd hm hw hl).elim
    | some x =>
      have h1 := hlow v es x hv hd hm hw hl
      have h2 := hmin v x hv hd
      omega

/-- **hidden-edge heuristic is exact for EVERY enumeration order `σ` of the signed edges**: an odd element of
the cycle space contains a closed trail whose LAST signed edge in the order `σ` is some `σ[j]`; that trail
is `σ[j]` plus a walk between its endpoints that stays on one level (even number of signed edges… in fact
none of `σ[j], σ[j+1], …`) — so searching, for every `j`, the graph with `σ[j..]` hidden loses nothing.
Stated at the level of walks: for every odd `Z` there are `j`, and a walk `es` from one endpoint of `σ[j]`
to the other, avoiding `σ[j], σ[j+1], …`, using an EVEN number of signed edges, with
`listW es + weight σ[j] ≤ wt Z`. -/
theorem hiddenEdge_covers (g : Graph) (hs : g.simpleB = true) (hp : g.positiveB = true) (S σ : List Nat)
    (hS : StrictSorted S) (hσ : σ.Perm S) (Z : List Nat) (hZ : EvenSet g Z) (hodd : dotPar Z S = true) :
    ∃ j e es, σ[j]? = some e ∧ (∀ f ∈ es, f < g.m ∧ f ∉ σ.drop j) ∧
      isWalk g es (g.src e) (g.tgt e) = true ∧ levelAfter S true es = true ∧
      listW g es + g.weight e ≤ wt g Z := by
  obtain ⟨v, T, hw, hnd, hsub, hpar, hwt⟩ := odd_closed_trail g hs hp S hS Z hZ hodd
  -- a signed edge on the trail
  have hex : ∃ f ∈ T, S.contains f = true := by
    apply Classical.byContradiction
    intro hno
    have : par T (fun e => S.contains e) = false := by
      apply par_all_false
      intro e he
      cases hh : S.contains e with
      | false => rfl
      | true => exact absurd ⟨e, he, hh⟩ hno
    rw [this] at hpar; cases hpar
  obtain ⟨f, hfT, hfS⟩ := hex
  have hfσ : f ∈ σ := (hσ.mem_iff).2 (List.contains_iff_mem.1 hfS)
  obtain ⟨i0, hi0, hi0f⟩ := List.getElem_of_mem hfσ
  obtain ⟨j, hj, hpj, hmax⟩ := largest_witness (fun i => ∃ x, σ[i]? = some x ∧ x ∈ T) σ.length
    ⟨i0, hi0, f, by rw [List.getElem?_eq_getElem hi0, hi0f], hfT⟩
  obtain ⟨e, hje, heT⟩ := hpj
  have heS : S.contains e = true :=
    List.contains_iff_mem.2 ((hσ.mem_iff).1 (List.mem_of_getElem? hje))
  obtain ⟨p, q, hT⟩ := List.append_of_mem heT
  subst hT
  have hnd2 : (e :: (p ++ q)).Nodup := (List.perm_middle.nodup_iff).1 hnd
  have henot : e ∉ p ++ q := (List.nodup_cons.1 hnd2).1
  obtain ⟨a, hwp, hwq⟩ := (isWalk_append g p (e :: q) v v).1 hw
  rw [isWalk_cons] at hwq
  obtain ⟨b, hjn, hwq⟩ := hwq
  have hwqp : isWalk g (q ++ p) b a = true := (isWalk_append g q p b a).2 ⟨v, hwq, hwp⟩
  -- a walk from `src e` to `tgt e` on the edges of `p ++ q`
  have hes : ∃ es : List Nat, es.Perm (p ++ q) ∧ isWalk g es (g.src e) (g.tgt e) = true := by
    rcases hjn with ⟨h1, h2⟩ | ⟨h1, h2⟩
    · refine ⟨(q ++ p).reverse, (List.reverse_perm _).trans List.perm_append_comm, ?_⟩
      rw [h1, h2]
      exact isWalk_reverse g _ _ _ hwqp
    · refine ⟨q ++ p, List.perm_append_comm, ?_⟩
      rw [h1, h2]
      exact hwqp
  obtain ⟨es, hperm, hwes⟩ := hes
  have hTperm : (e :: es).Perm (p ++ e :: q) := (List.Perm.cons e hperm).trans List.perm_middle.symm
  refine ⟨j, e, es, hje, ?_, hwes, ?_, ?_⟩
  · intro x hx
    have hxpq : x ∈ p ++ q := (hperm.mem_iff).1 hx
    have hxT : x ∈ p ++ e :: q := (hTperm.mem_iff).1 (List.mem_cons_of_mem _ hx)
    refine ⟨hZ.2.1 x (hsub x hxT), ?_⟩
    intro hdrop
    obtain ⟨i, hi, hix⟩ := List.getElem_of_mem hdrop
    have hix' : σ[j + i]? = some x := by
      rw [← List.getElem?_drop, List.getElem?_eq_getElem hi, hix]
    by_cases hi0 : i = 0
    · subst hi0
      rw [Nat.add_zero, hje] at hix'
      injection hix' with hix'
      subst hix'
      exact henot hxpq
    · have hlt : j + i < σ.length := by
        rw [List.length_drop] at hi; omega
      exact hmax (j + i) (by omega) hlt ⟨x, hix', hxT⟩
  · have h1 := par_perm hTperm (fun e => S.contains e)
    rw [hpar, par_cons] at h1
    rw [heS] at h1
    unfold levelAfter
    cases h3 : par es (fun e => S.contains e) with
    | false => rfl
    | true => rw [h3] at h1; exact absurd h1 (by decide)
  · have h1 := wt_perm g hTperm
    rw [wt_cons] at h1
    rw [listW_eq_wt] at hwt ⊢
    omega

/-- … and conversely whatever such a search returns is the weight of a genuine odd element of the cycle
space (so the minimum over `j` is the minimum odd weight) -/
theorem hiddenEdge_sound (g : Graph) (hs : g.simpleB = true) (hp : g.positiveB = true) (S : List Nat)
    (hS : StrictSorted S) (e : Nat) (heS : e ∈ S) (hem : e < g.m) (es : List Nat)
    (he : ∀ f ∈ es, f < g.m ∧ f ≠ e) (hw : isWalk g es (g.src e) (g.tgt e) = true)
    (hlev : levelAfter S true es = true) :
    ∃ Z, EvenSet g Z ∧ dotPar Z S = true ∧ wt g Z ≤ listW g es + g.weight e := by
  have hw2 : isWalk g (es ++ [e]) (g.src e) (g.src e) = true :=
    isWalk_snoc g es e _ _ _ hw (Or.inr ⟨rfl, rfl⟩)
  have hm : ∀ f ∈ es ++ [e], f < g.m := by
    intro f hf
    rcases List.mem_append.1 hf with h | h
    · exact (he f h).1
    · rw [List.mem_singleton] at h; subst h; exact hem
  have hc : S.contains e = true := List.contains_iff_mem.2 heS
  have hl : levelAfter S true (es ++ [e]) = false := by
    have h1 := level_even hlev
    unfold levelAfter
    rw [par_app, h1, par_cons, par_nil]
    rw [hc]; rfl
  obtain ⟨Z, hZ, ho, hwt⟩ := signed_walk_to_evenset g hs hp S hS _ _ hm hw2 hl
  refine ⟨Z, hZ, ho, ?_⟩
  rw [listW_eq_wt] at hwt ⊢
  rw [wt_app, wt_cons, wt_nil] at hwt
  omega

end Parmcb
