import Parmcb.Model.Fvs
import Parmcb.Lemmas.Graph
/-! helper lemmas for C13 (greedy feedback vertex set).  Core Lean only. -/
namespace Parmcb.FvsL

/-! ### adjacency lists of a simple graph -/

theorem mem_adj (g : Graph) (u e x : Nat) :
    (e, x) ∈ g.adj u ↔
      e < g.m ∧ ((g.src e = u ∧ x = g.tgt e) ∨ (g.tgt e = u ∧ x = g.src e)) := by
  unfold Graph.adj
  simp only [List.mem_flatMap, List.mem_range, List.mem_append]
  constructor
  · rintro ⟨e', he', h | h⟩
    · by_cases hc : g.src e' = u
      · rw [if_pos hc] at h
        simp only [List.mem_cons, List.not_mem_nil, or_false, Prod.mk.injEq] at h
        obtain ⟨rfl, rfl⟩ := h
        exact ⟨he', Or.inl ⟨hc, rfl⟩⟩
      · rw [if_neg hc] at h; cases h
    · by_cases hc : g.tgt e' = u
      · rw [if_pos hc] at h
        simp only [List.mem_cons, List.not_mem_nil, or_false, Prod.mk.injEq] at h
        obtain ⟨rfl, rfl⟩ := h
        exact ⟨he', Or.inr ⟨hc, rfl⟩⟩
      · rw [if_neg hc] at h; cases h
  · rintro ⟨he, ⟨hc, rfl⟩ | ⟨hc, rfl⟩⟩
    · exact ⟨e, he, Or.inl (by rw [if_pos hc]; exact List.mem_cons_self)⟩
    · exact ⟨e, he, Or.inr (by rw [if_pos hc]; exact List.mem_cons_self)⟩

theorem mem_adj_symm (g : Graph) (u e x : Nat) (h : (e, x) ∈ g.adj u) : (e, u) ∈ g.adj x := by
  rw [mem_adj] at h ⊢
  obtain ⟨he, ⟨hc, rfl⟩ | ⟨hc, rfl⟩⟩ := h
  · exact ⟨he, Or.inr ⟨rfl, hc.symm⟩⟩
  · exact ⟨he, Or.inl ⟨rfl, hc.symm⟩⟩

theorem simpleB_pair (g : Graph) (hs : g.simpleB = true) (e f : Nat) (he : e < g.m) (hf : f < e) :
    ¬ ((g.src f = g.src e ∧ g.tgt f = g.tgt e) ∨ (g.src f = g.tgt e ∧ g.tgt f = g.src e)) := by
  unfold Graph.simpleB at hs
  rw [List.all_eq_true] at hs
  have h := hs e (List.mem_range.2 he)
  simp only [Bool.and_eq_true, List.all_eq_true] at h
  have h2 := h.2 f (List.mem_range.2 hf)
  simp only [Bool.not_eq_true', Bool.or_eq_false_iff, Bool.and_eq_false_iff, beq_eq_false_iff_ne] at h2
  rintro (⟨p, q⟩ | ⟨p, q⟩)
  · rcases h2.1 with r | r
    · exact r p
    · exact r q
  · rcases h2.2 with r | r
    · exact r p
    · exact r q

/-- in a simple graph two adjacency entries of `u` with the same neighbour are the same edge -/
theorem adj_edge_unique (g : Graph) (hs : g.simpleB = true) (u e f x : Nat)
    (h1 : (e, x) ∈ g.adj u) (h2 : (f, x) ∈ g.adj u) : e = f := by
  rw [mem_adj] at h1 h2
  obtain ⟨he, h1⟩ := h1
  obtain ⟨hf, h2⟩ := h2
  have key : ∀ a b, a < g.m → b < a →
      ((g.src a = u ∧ x = g.tgt a) ∨ (g.tgt a = u ∧ x = g.src a)) →
      ((g.src b = u ∧ x = g.tgt b) ∨ (g.tgt b = u ∧ x = g.src b)) → False := by
    intro a b ha hba h1 h2
    apply simpleB_pair g hs a b ha hba
    rcases h1 with ⟨p, q⟩ | ⟨p, q⟩ <;> rcases h2 with ⟨p', q'⟩ | ⟨p', q'⟩
    · exact Or.inl ⟨by omega, by omega⟩
    · exact Or.inr ⟨by omega, by omega⟩
    · exact Or.inr ⟨by omega, by omega⟩
    · exact Or.inl ⟨by omega, by omega⟩
  rcases Nat.lt_trichotomy e f with h | h | h
  · exact (key f e hf h h2 h1).elim
  · exact h
  · exact (key e f he h h1 h2).elim

theorem adj_facts (g : Graph) (hs : g.simpleB = true) (u e x : Nat) (h : (e, x) ∈ g.adj u) :
    e < g.m ∧ u < g.n ∧ x < g.n ∧ x ≠ u := by
  rw [mem_adj] at h
  obtain ⟨he, h⟩ := h
  have hf := simpleB_facts g hs e he
  rcases h with ⟨p, q⟩ | ⟨p, q⟩
  · exact ⟨he, by omega, by omega, by omega⟩
  · exact ⟨he, by omega, by omega, by omega⟩

theorem adj_nodup (g : Graph) (hs : g.simpleB = true) (u : Nat) :
    ((g.adj u).map (·.2)).Nodup := by
  rw [List.Nodup, List.pairwise_map]
  have hfst : ∀ e (p : Nat × Nat), p ∈ ((if g.src e = u then [(e, g.tgt e)] else []) ++
      (if g.tgt e = u then [(e, g.src e)] else [])) → p.1 = e := by
    intro e p hp
    rcases List.mem_append.1 hp with h | h
    · by_cases hc : g.src e = u
      · rw [if_pos hc] at h; simp at h; rw [h]
      · rw [if_neg hc] at h; cases h
    · by_cases hc : g.tgt e = u
      · rw [if_pos hc] at h; simp at h; rw [h]
      · rw [if_neg hc] at h; cases h
  have hin : ∀ e (p : Nat × Nat), e ∈ List.range g.m →
      p ∈ ((if g.src e = u then [(e, g.tgt e)] else []) ++
      (if g.tgt e = u then [(e, g.src e)] else [])) → p ∈ g.adj u := by
    intro e p he hp
    unfold Graph.adj
    exact List.mem_flatMap.2 ⟨e, he, hp⟩
  unfold Graph.adj
  rw [List.pairwise_flatMap]
  refine ⟨?_, ?_⟩
  · intro e he
    have hf := simpleB_facts g hs e (List.mem_range.1 he)
    by_cases h1 : g.src e = u <;> by_cases h2 : g.tgt e = u
    · exact absurd (h1.trans h2.symm) hf.2.2
    · simp [h1, h2]
    · simp [h1, h2]
    · simp [h1, h2]
  · refine List.Pairwise.imp_of_mem ?_ (List.nodup_range (n := g.m))
    intro a b ha hb hab x hx y hy hxy
    apply hab
    have hx1 := hfst a x hx
    have hy1 := hfst b y hy
    have hx' := hin a x ha hx
    have hy' := hin b y hb hy
    apply adj_edge_unique g hs u a b x.2
    · rw [← hx1]; exact hx'
    · rw [hxy, ← hy1]; exact hy'

/-! ### generic list facts -/

theorem filter_kill_length (l : List (Nat × Nat)) (hnd : (l.map (·.2)).Nodup) (f f' : Nat → Bool)
    (u : Nat) (hf' : ∀ x, f' x = if x = u then false else f x) :
    (l.filter fun p => f' p.2).length + (if f u = true ∧ u ∈ l.map (·.2) then 1 else 0) =
      (l.filter fun p => f p.2).length := by
  induction l with
  | nil => simp
  | cons p l ih =>
    rw [List.map_cons, List.nodup_cons] at hnd
    have ih := ih hnd.2
    simp only [List.filter_cons, hf' p.2, List.map_cons, List.mem_cons]
    by_cases hp : p.2 = u
    · have hu : u ∉ l.map (·.2) := by rw [← hp]; exact hnd.1
      rw [if_neg (by simp [hu])] at ih
      simp only [hp, if_true]
      rw [hp] at *
      cases hfu : f u <;> simp <;> omega
    · have hp' : ¬ u = p.2 := fun h => hp h.symm
      simp only [hp, if_false, hp', false_or]
      cases hfp : f p.2 <;> simp <;> omega

theorem length_le_one_eq {α : Type} (l : List α) (h : l.length ≤ 1) (a b : α) (ha : a ∈ l)
    (hb : b ∈ l) : a = b := by
  match l, h with
  | [x], _ =>
    simp at ha hb; rw [ha, hb]

theorem filter_length_mono {α : Type} (l : List α) (p q : α → Bool)
    (h : ∀ a ∈ l, p a = true → q a = true) : (l.filter p).length ≤ (l.filter q).length := by
  induction l with
  | nil => simp
  | cons a l ih =>
    have ih := ih (fun b hb => h b (List.mem_cons_of_mem _ hb))
    have ha := h a List.mem_cons_self
    simp only [List.filter_cons]
    cases hp : p a
    · cases hq : q a <;> simp <;> omega
    · rw [ha hp]; simp; omega

theorem getD_set_false (l : List Bool) (u w : Nat) :
    (l.set u false).getD w false = if w = u then false else l.getD w false := by
  simp only [List.getD_eq_getElem?_getD, List.getElem?_set]
  by_cases h : u = w
  · subst h; by_cases h2 : u < l.length <;> simp [h2]
  · have h' : ¬ w = u := fun e => h e.symm
    simp [h, h']

theorem getD_set_nat (l : List Nat) (u w d : Nat) (hu : u < l.length) :
    (l.set u d).getD w 0 = if w = u then d else l.getD w 0 := by
  simp only [List.getD_eq_getElem?_getD, List.getElem?_set]
  by_cases h : u = w
  · subst h; simp [hu]
  · have h' : ¬ w = u := fun e => h e.symm
    simp [h, h']

/-! ### the scan loop -/

/-- the neighbours of `u`, in adjacency order -/
def nb (g : Graph) (u : Nat) : List Nat := (g.adj u).map (·.2)

theorem mem_nb (g : Graph) (u x : Nat) : x ∈ nb g u ↔ ∃ e, (e, x) ∈ g.adj u := by
  unfold nb
  simp only [List.mem_map]
  constructor
  · rintro ⟨⟨e, y⟩, h, rfl⟩; exact ⟨e, h⟩
  · rintro ⟨e, h⟩; exact ⟨(e, x), h, rfl⟩

theorem nb_symm (g : Graph) (u x : Nat) (h : x ∈ nb g u) : u ∈ nb g x := by
  rw [mem_nb] at h ⊢
  obtain ⟨e, h⟩ := h
  exact ⟨e, mem_adj_symm g u e x h⟩

theorem nb_facts (g : Graph) (hs : g.simpleB = true) (u x : Nat) (h : x ∈ nb g u) :
    u < g.n ∧ x < g.n ∧ x ≠ u := by
  rw [mem_nb] at h
  obtain ⟨e, h⟩ := h
  exact (adj_facts g hs u e x h).2

/-- number of existing neighbours -/
def cnt (g : Graph) (s : FvsState) (w : Nat) : Nat :=
  ((g.adj w).filter fun p => s.isAlive p.2).length

theorem isAlive_lt (s : FvsState) (w : Nat) (h : s.isAlive w = true) : w < s.alive.length := by
  unfold FvsState.isAlive at h
  apply Classical.byContradiction
  intro hn
  rw [List.getD_eq_getElem?_getD, List.getElem?_eq_none (by omega)] at h
  cases h

/-- one iteration of the scan loop -/
def scanStep (s : FvsState) (w : Nat) : FvsState :=
  if s.isAlive w then
    if s.deg w - 1 ≤ 1 then
      { s with degree := s.degree.set w (s.deg w - 1), stack := w :: s.stack }
    else { s with degree := s.degree.set w (s.deg w - 1) }
  else s

theorem fvsScan_cons (e w : Nat) (r : List (Nat × Nat)) (s : FvsState) :
    fvsScan ((e, w) :: r) s = fvsScan r (scanStep s w) := by
  simp only [fvsScan, scanStep]
  by_cases h : s.isAlive w = true
  · simp only [h, if_true]
  · simp [h]

theorem scanStep_alive (s : FvsState) (w : Nat) : (scanStep s w).alive = s.alive := by
  unfold scanStep; split
  · split <;> rfl
  · rfl

theorem scanStep_out (s : FvsState) (w : Nat) : (scanStep s w).out = s.out := by
  unfold scanStep; split
  · split <;> rfl
  · rfl

theorem scanStep_isAlive (s : FvsState) (w x : Nat) : (scanStep s w).isAlive x = s.isAlive x := by
  unfold FvsState.isAlive; rw [scanStep_alive]

theorem scanStep_len (s : FvsState) (w : Nat) : (scanStep s w).degree.length = s.degree.length := by
  unfold scanStep; split
  · split <;> simp
  · rfl

theorem scanStep_deg (s : FvsState) (w x : Nat) (hw : s.isAlive w = true → w < s.degree.length) :
    (scanStep s w).deg x = if s.isAlive w = true ∧ x = w then s.deg w - 1 else s.deg x := by
  unfold scanStep
  by_cases h : s.isAlive w = true
  · have hl := hw h
    simp only [h, if_true, true_and]
    by_cases h2 : s.deg w - 1 ≤ 1
    · simp only [h2, if_true]
      show (s.degree.set w (s.deg w - 1)).getD x 0 = _
      rw [getD_set_nat _ _ _ _ hl]; rfl
    · simp only [h2, if_false]
      show (s.degree.set w (s.deg w - 1)).getD x 0 = _
      rw [getD_set_nat _ _ _ _ hl]; rfl
  · simp [h]

theorem scanStep_stack (s : FvsState) (w : Nat) :
    (scanStep s w).stack = if s.isAlive w = true ∧ s.deg w - 1 ≤ 1 then w :: s.stack else s.stack := by
  unfold scanStep
  by_cases h : s.isAlive w = true
  · simp only [h, if_true, true_and]
    by_cases h2 : s.deg w - 1 ≤ 1 <;> simp [h2]
  · simp [h]

theorem scan_spec (l : List (Nat × Nat)) : ∀ (s : FvsState), (l.map (·.2)).Nodup →
    (∀ w, s.isAlive w = true → w < s.degree.length) →
    (fvsScan l s).alive = s.alive ∧ (fvsScan l s).out = s.out ∧
    (fvsScan l s).degree.length = s.degree.length ∧
    (∀ w, (fvsScan l s).deg w =
      if s.isAlive w = true ∧ w ∈ l.map (·.2) then s.deg w - 1 else s.deg w) ∧
    ∃ P, (fvsScan l s).stack = P ++ s.stack ∧ P.Nodup ∧
      ∀ w, w ∈ P ↔ (w ∈ l.map (·.2) ∧ s.isAlive w = true ∧ s.deg w - 1 ≤ 1) := by
  induction l with
  | nil => intro s _ _; exact ⟨rfl, rfl, rfl, by intro w; simp [fvsScan], [], by simp [fvsScan]⟩
  | cons p r ih =>
    obtain ⟨e, w⟩ := p
    intro s hnd hlen
    rw [fvsScan_cons]
    rw [List.map_cons, List.nodup_cons] at hnd
    have hlen' : ∀ x, (scanStep s w).isAlive x = true → x < (scanStep s w).degree.length := by
      intro x hx; rw [scanStep_len]; rw [scanStep_isAlive] at hx; exact hlen x hx
    obtain ⟨h1, h2, h3, h4, P, h5, h6, h7⟩ := ih (scanStep s w) hnd.2 hlen'
    refine ⟨by rw [h1, scanStep_alive], by rw [h2, scanStep_out], by rw [h3, scanStep_len], ?_, ?_⟩
    · intro x
      rw [h4 x, scanStep_isAlive, scanStep_deg s w x (hlen w)]
      simp only [List.map_cons, List.mem_cons]
      by_cases hxw : x = w
      · subst hxw
        simp only [hnd.1, and_false, if_false, and_true, true_or]
      · simp only [hxw, and_false, if_false, false_or]
    · have hP : ∀ x, x ∈ P ↔ (x ∈ r.map (·.2) ∧ s.isAlive x = true ∧ s.deg x - 1 ≤ 1) := by
        intro x
        rw [h7 x, scanStep_isAlive, scanStep_deg s w x (hlen w)]
        constructor
        · rintro ⟨a, b, c⟩
          have hxw : x ≠ w := fun h => hnd.1 (h ▸ a)
          simp only [hxw, and_false, if_false] at c
          exact ⟨a, b, c⟩
        · rintro ⟨a, b, c⟩
          have hxw : x ≠ w := fun h => hnd.1 (h ▸ a)
          simp only [hxw, and_false, if_false]
          exact ⟨a, b, c⟩
      rw [h5, scanStep_stack]
      by_cases hc : s.isAlive w = true ∧ s.deg w - 1 ≤ 1
      · rw [if_pos hc]
        refine ⟨P ++ [w], by simp, ?_, ?_⟩
        · rw [List.nodup_append]
          refine ⟨h6, by simp, ?_⟩
          intro a ha b hb hab
          simp at hb
          subst hb; subst hab
          exact hnd.1 ((hP a).1 ha).1
        · intro x
          simp only [List.mem_append, List.mem_cons, List.not_mem_nil, or_false, hP x, List.map_cons]
          constructor
          · rintro (⟨a, b, c⟩ | rfl)
            · exact ⟨Or.inr a, b, c⟩
            · exact ⟨Or.inl rfl, hc.1, hc.2⟩
          · rintro ⟨a | a, b, c⟩
            · exact Or.inr a
            · exact Or.inl ⟨a, b, c⟩
      · rw [if_neg hc]
        refine ⟨P, rfl, h6, ?_⟩
        intro x
        simp only [hP x, List.map_cons, List.mem_cons]
        constructor
        · rintro ⟨a, b, c⟩; exact ⟨Or.inr a, b, c⟩
        · rintro ⟨a | a, b, c⟩
          · subst a; exact absurd ⟨b, c⟩ hc
          · exact ⟨a, b, c⟩

/-! ### the invariant of the removal loop -/

theorem cnt_kill (g : Graph) (hs : g.simpleB = true) (s s2 : FvsState) (u : Nat)
    (hu : s.isAlive u = true)
    (hA : ∀ w, s2.isAlive w = if w = u then false else s.isAlive w) (w : Nat) :
    cnt g s2 w + (if u ∈ nb g w then 1 else 0) = cnt g s w := by
  have h := filter_kill_length (g.adj w) (adj_nodup g hs w) s.isAlive s2.isAlive u hA
  simp only [hu, true_and] at h
  exact h

theorem cnt_congr (g : Graph) (s s2 : FvsState) (hA : ∀ w, s2.isAlive w = s.isAlive w) (w : Nat) :
    cnt g s2 w = cnt g s w := by
  unfold cnt
  congr 1
  apply List.filter_congr
  intro p _
  exact hA p.2

theorem cnt_pos (g : Graph) (s : FvsState) (u x : Nat) (hx : x ∈ nb g u)
    (ha : s.isAlive x = true) : 1 ≤ cnt g s u := by
  rw [mem_nb] at hx
  obtain ⟨e, he⟩ := hx
  unfold cnt
  apply List.length_pos_of_mem (a := (e, x))
  exact List.mem_filter.2 ⟨he, ha⟩

/-- the invariant that holds at every test of the `while (!forRemoval.empty())` loop.  `rank`/`k`
are ghosts: the time at which each vertex was switched off. -/
structure CInv (g : Graph) (s : FvsState) (rank : Nat → Nat) (k : Nat) : Prop where
  lenA : s.alive.length = g.n
  lenD : s.degree.length = g.n
  acc : ∀ w, s.isAlive w = true → s.deg w = cnt g s w
  stk : ∀ u ∈ s.stack, cnt g s u ≤ 1 ∧ (s.isAlive u = false → cnt g s u = 0) ∧
    (2 ≤ s.stack.count u → cnt g s u = 0)
  push : ∀ w, s.isAlive w = true → s.deg w ≤ 1 → w ∈ s.stack
  outND : s.out.Nodup
  outP : ∀ v ∈ s.out, v < g.n ∧ s.isAlive v = false
  rk1 : ∀ v, v < g.n → s.isAlive v = false → rank v < k
  rk2 : ∀ v w, v < g.n → w < g.n → s.isAlive v = false → s.isAlive w = false →
    rank v = rank w → v = w
  rk3 : ∀ v, v < g.n → s.isAlive v = false → v ∉ s.out →
    ((g.adj v).filter fun p => s.isAlive p.2 || decide (rank v < rank p.2)).length ≤ 1

/-- switching off an existing vertex `u` and scanning its neighbours -/
theorem ks_alive (g : Graph) (hs : g.simpleB = true) (s s2 : FvsState) (rank : Nat → Nat) (k u : Nat)
    (base : List Nat) (hI : CInv g s rank k) (hu : s.isAlive u = true)
    (hA : ∀ w, s2.isAlive w = if w = u then false else s.isAlive w)
    (hLA : s2.alive.length = g.n) (hLD : s2.degree.length = g.n)
    (hD : ∀ w, s2.deg w = if s.isAlive w = true ∧ w ∈ nb g u then s.deg w - 1 else s.deg w)
    (hS : ∃ P, s2.stack = P ++ base ∧ P.Nodup ∧
      ∀ w, w ∈ P ↔ (w ∈ nb g u ∧ s.isAlive w = true ∧ s.deg w - 1 ≤ 1))
    (hb1 : ∀ x, base.count x ≤ s.stack.count x)
    (hb2 : ∀ x, x ≠ u → x ∈ s.stack → x ∈ base)
    (hub : u ∈ base → cnt g s u = 0)
    (hout : (s2.out = s.out ∧ cnt g s u ≤ 1) ∨ s2.out = s.out ++ [u]) :
    CInv g s2 (fun x => if x = u then k else rank x) (k + 1) := by
  have hun : u < g.n := by have := isAlive_lt s u hu; rw [hI.lenA] at this; exact this
  have hC := cnt_kill g hs s s2 u hu hA
  have hsym : ∀ w, u ∈ nb g w ↔ w ∈ nb g u := fun w => ⟨nb_symm g w u, nb_symm g u w⟩
  have hunb : u ∉ nb g u := fun h => (nb_facts g hs u u h).2.2 rfl
  obtain ⟨P, hP1, hP2, hP3⟩ := hS
  have hmono : ∀ w, cnt g s2 w ≤ cnt g s w := by intro w; have := hC w; omega
  have hPcnt : ∀ x, x ∈ P →
      cnt g s2 x + 1 = cnt g s x ∧ x ≠ u ∧ s.isAlive x = true ∧ s.deg x - 1 ≤ 1 := by
    intro x hx
    obtain ⟨a, b, c⟩ := (hP3 x).1 hx
    have := hC x
    rw [if_pos ((hsym x).2 a)] at this
    exact ⟨this, fun h => hunb (h ▸ a), b, c⟩
  have hbase_mem : ∀ x, x ∈ base → x ∈ s.stack := by
    intro x hx
    have h1 := hb1 x
    have h2 : 0 < base.count x := List.count_pos_iff.2 hx
    exact List.count_pos_iff.1 (by omega)
  have hdead : ∀ v, s2.isAlive v = false → v = u ∨ (v ≠ u ∧ s.isAlive v = false) := by
    intro v hv
    rw [hA v] at hv
    by_cases h : v = u
    · exact Or.inl h
    · rw [if_neg h] at hv; exact Or.inr ⟨h, hv⟩
  have halive : ∀ w, s2.isAlive w = true → w ≠ u ∧ s.isAlive w = true := by
    intro w hw
    rw [hA w] at hw
    by_cases h : w = u
    · rw [if_pos h] at hw; cases hw
    · rw [if_neg h] at hw; exact ⟨h, hw⟩
  refine ⟨hLA, hLD, ?_, ?_, ?_, ?_, ?_, ?_, ?_, ?_⟩
  · -- acc
    intro w hw
    obtain ⟨hwu, hw⟩ := halive w hw
    rw [hD w]
    have h1 := hC w
    have h2 := hI.acc w hw
    by_cases hn : w ∈ nb g u
    · rw [if_pos ⟨hw, hn⟩]; rw [if_pos ((hsym w).2 hn)] at h1; omega
    · rw [if_neg (fun h => hn h.2)]; rw [if_neg (fun h => hn ((hsym w).1 h))] at h1; omega
  · -- stk
    intro x hx
    rw [hP1, List.mem_append] at hx
    have hx_s := fun h => hI.stk x (hbase_mem x h)
    refine ⟨?_, ?_, ?_⟩
    · rcases hx with h | h
      · have h1 := hPcnt x h; have h2 := hI.acc x h1.2.2.1; omega
      · have h1 := (hx_s h).1; have h2 := hmono x; omega
    · intro hd
      rcases hdead x hd with rfl | ⟨hxu, hd'⟩
      · rcases hx with h | h
        · exact absurd rfl (hPcnt _ h).2.1
        · have h1 := hub h; have h2 := hmono x; omega
      · rcases hx with h | h
        · have h1 := (hPcnt x h).2.2.1; rw [hd'] at h1; cases h1
        · have h1 := (hx_s h).2.1 hd'; have h2 := hmono x; omega
    · intro hc
      rw [hP1, List.count_append] at hc
      have hPc : P.count x ≤ 1 := List.nodup_iff_count.1 hP2 x
      by_cases hxP : x ∈ P
      · have hxb : x ∈ base := List.count_pos_iff.1 (by omega)
        have h1 := (hx_s hxb).1; have h2 := hPcnt x hxP; omega
      · have h0 : P.count x = 0 := List.count_eq_zero.2 hxP
        have hxb : x ∈ base := List.count_pos_iff.1 (by omega)
        have h1 := (hx_s hxb).2.2 (by have := hb1 x; omega)
        have h2 := hmono x; omega
  · -- push
    intro w hw hd
    obtain ⟨hwu, hw⟩ := halive w hw
    rw [hP1, List.mem_append]
    rw [hD w] at hd
    by_cases hn : w ∈ nb g u
    · rw [if_pos ⟨hw, hn⟩] at hd; exact Or.inl ((hP3 w).2 ⟨hn, hw, hd⟩)
    · rw [if_neg (fun h => hn h.2)] at hd; exact Or.inr (hb2 w hwu (hI.push w hw hd))
  · -- outND
    rcases hout with ⟨h, _⟩ | h
    · rw [h]; exact hI.outND
    · rw [h, List.nodup_append]
      refine ⟨hI.outND, by simp, ?_⟩
      intro a ha b hb hab
      simp at hb
      subst hb; subst hab
      have := (hI.outP a ha).2
      rw [hu] at this; cases this
  · -- outP
    intro v hv
    have key : v ∈ s.out ∨ v = u := by
      rcases hout with ⟨h, _⟩ | h
      · rw [h] at hv; exact Or.inl hv
      · rw [h] at hv; simpa using hv
    rcases key with h | h
    · have h1 := hI.outP v h
      refine ⟨h1.1, ?_⟩
      rw [hA v]; split
      · rfl
      · exact h1.2
    · subst h; exact ⟨hun, by rw [hA v]; simp⟩
  · -- rk1
    intro v hv hd
    rcases hdead v hd with h | ⟨hne, hd'⟩
    · simp [h]
    · simp only [hne, if_false]; have := hI.rk1 v hv hd'; omega
  · -- rk2
    intro v w hv hw hdv hdw hr
    rcases hdead v hdv with h1 | ⟨hne, hd'⟩ <;> rcases hdead w hdw with h2 | ⟨hne2, hd2⟩
    · rw [h1, h2]
    · simp only [h1, hne2, if_true, if_false] at hr; have := hI.rk1 w hw hd2; omega
    · simp only [h2, hne, if_true, if_false] at hr; have := hI.rk1 v hv hd'; omega
    · simp only [hne, hne2, if_false] at hr; exact hI.rk2 v w hv hw hd' hd2 hr
  · -- rk3
    intro v hv hd hvo
    rcases hdead v hd with h | ⟨hne, hd'⟩
    · subst h
      have hcase : s2.out = s.out ∧ cnt g s v ≤ 1 := by
        rcases hout with h | h
        · exact h
        · exfalso; apply hvo; rw [h]; simp
      refine Nat.le_trans (filter_length_mono _ _ (fun p : Nat × Nat => s.isAlive p.2) ?_) hcase.2
      intro p hp hq
      obtain ⟨e, x⟩ := p
      have hf := adj_facts g hs v e x hp
      simp only [Bool.or_eq_true, decide_eq_true_eq] at hq
      have hxu : x ≠ v := hf.2.2.2
      rcases hq with hq | hq
      · exact (halive x hq).2
      · simp only [hxu, if_false, if_true] at hq
        cases hax : s.isAlive x
        · have := hI.rk1 x hf.2.2.1 hax; omega
        · rfl
    · have hvo' : v ∉ s.out := by
        intro h; apply hvo
        rcases hout with ⟨h2, _⟩ | h2 <;> rw [h2]
        · exact h
        · simp [h]
      refine Nat.le_trans (filter_length_mono _ _
        (fun p : Nat × Nat => s.isAlive p.2 || decide (rank v < rank p.2)) ?_) (hI.rk3 v hv hd' hvo')
      intro p hp hq
      simp only [Bool.or_eq_true, decide_eq_true_eq, hne, if_false] at hq ⊢
      by_cases hpu : p.2 = u
      · left; rw [hpu]; exact hu
      · simp only [hpu, if_false] at hq
        rcases hq with hq | hq
        · left; exact (halive p.2 hq).2
        · right; exact hq

theorem cnt_zero (g : Graph) (s : FvsState) (u : Nat) (h : cnt g s u = 0) (x : Nat)
    (hx : x ∈ nb g u) : s.isAlive x = false := by
  cases ha : s.isAlive x
  · rfl
  · have := cnt_pos g s u x hx ha; omega

/-- popping a vertex that has been switched off already: nothing happens -/
theorem ks_dead (g : Graph) (s s2 : FvsState) (rank : Nat → Nat) (k u : Nat) (base : List Nat)
    (hI : CInv g s rank k) (hst : s.stack = u :: base) (hu : s.isAlive u = false)
    (hA : ∀ w, s2.isAlive w = s.isAlive w)
    (hLA : s2.alive.length = g.n) (hLD : s2.degree.length = g.n)
    (hD : ∀ w, s2.deg w = s.deg w) (hS : s2.stack = base) (hO : s2.out = s.out) :
    CInv g s2 rank k := by
  have hc := cnt_congr g s s2 hA
  have hmem : ∀ x, x ∈ base → x ∈ s.stack := by
    intro x hx; rw [hst]; exact List.mem_cons_of_mem _ hx
  refine ⟨hLA, hLD, ?_, ?_, ?_, ?_, ?_, ?_, ?_, ?_⟩
  · intro w hw; rw [hA] at hw; rw [hD, hc]; exact hI.acc w hw
  · intro x hx
    rw [hS] at hx
    obtain ⟨a, b, c⟩ := hI.stk x (hmem x hx)
    rw [hc, hA, hS]
    refine ⟨a, b, ?_⟩
    intro h
    apply c
    rw [hst, List.count_cons]
    omega
  · intro w hw hd
    rw [hA] at hw; rw [hD] at hd
    have := hI.push w hw hd
    rw [hst] at this
    rw [hS]
    rcases List.mem_cons.1 this with h | h
    · subst h; rw [hu] at hw; cases hw
    · exact h
  · rw [hO]; exact hI.outND
  · intro v hv; rw [hO] at hv; rw [hA]; exact hI.outP v hv
  · intro v hv hd; rw [hA] at hd; exact hI.rk1 v hv hd
  · intro v w hv hw hdv hdw hr; rw [hA] at hdv hdw; exact hI.rk2 v w hv hw hdv hdw hr
  · intro v hv hd hvo
    rw [hA] at hd; rw [hO] at hvo
    have := hI.rk3 v hv hd hvo
    simp only [hA]
    exact this

theorem killscan_spec (g : Graph) (hs : g.simpleB = true) (s s1 : FvsState) (u : Nat)
    (hlen : s.alive.length = s.degree.length)
    (h1 : s1.alive = s.alive.set u false) (h2 : s1.degree = s.degree) :
    (∀ w, (fvsScan (g.adj u) s1).isAlive w = if w = u then false else s.isAlive w) ∧
    (fvsScan (g.adj u) s1).alive.length = s.alive.length ∧
    (fvsScan (g.adj u) s1).degree.length = s.degree.length ∧
    (fvsScan (g.adj u) s1).out = s1.out ∧
    (∀ w, (fvsScan (g.adj u) s1).deg w =
      if s.isAlive w = true ∧ w ∈ nb g u then s.deg w - 1 else s.deg w) ∧
    ∃ P, (fvsScan (g.adj u) s1).stack = P ++ s1.stack ∧ P.Nodup ∧
      ∀ w, w ∈ P ↔ (w ∈ nb g u ∧ s.isAlive w = true ∧ s.deg w - 1 ≤ 1) := by
  have hA1 : ∀ w, s1.isAlive w = if w = u then false else s.isAlive w := by
    intro w; unfold FvsState.isAlive; rw [h1]; exact getD_set_false _ _ _
  have hD1 : ∀ w, s1.deg w = s.deg w := by
    intro w; unfold FvsState.deg; rw [h2]
  have hl1 : ∀ w, s1.isAlive w = true → w < s1.degree.length := by
    intro w hw
    have := isAlive_lt s1 w hw
    rw [h1, List.length_set] at this
    rw [h2]; omega
  have hnb : ∀ w, w ∈ nb g u → s1.isAlive w = s.isAlive w := by
    intro w hw
    rw [hA1 w, if_neg (nb_facts g hs u w hw).2.2]
  obtain ⟨a, b, c, d, P, e, f, h⟩ := scan_spec (g.adj u) s1 (adj_nodup g hs u) hl1
  refine ⟨?_, ?_, ?_, b, ?_, P, e, f, ?_⟩
  · intro w; unfold FvsState.isAlive; rw [a, h1]; exact getD_set_false _ _ _
  · rw [a, h1, List.length_set]
  · rw [c, h2]
  · intro w
    rw [d w, hD1 w]
    show (if s1.isAlive w = true ∧ w ∈ nb g u then _ else _) = _
    by_cases hw : w ∈ nb g u
    · rw [hnb w hw]
    · rw [if_neg (fun h => hw h.2), if_neg (fun h => hw h.2)]
  · intro w
    rw [h w, hD1 w]
    show (w ∈ nb g u ∧ _) ↔ _
    constructor
    · rintro ⟨x, y, z⟩; exact ⟨x, by rw [← hnb w x]; exact y, z⟩
    · rintro ⟨x, y, z⟩; exact ⟨x, by rw [hnb w x]; exact y, z⟩

theorem pop_inv (g : Graph) (hs : g.simpleB = true) (s : FvsState) (rank : Nat → Nat) (k u : Nat)
    (rest : List Nat) (hI : CInv g s rank k) (hst : s.stack = u :: rest) :
    ∃ rank' k', CInv g (fvsScan (g.adj u)
      { s with stack := rest, alive := s.alive.set u false }) rank' k' := by
  obtain ⟨hA, hLA, hLD, hO, hD, P, hP1, hP2, hP3⟩ := killscan_spec g hs s
    { s with stack := rest, alive := s.alive.set u false } u (by rw [hI.lenA, hI.lenD]) rfl rfl
  have hstk := hI.stk u (by rw [hst]; exact List.mem_cons_self)
  cases hu : s.isAlive u
  · -- already switched off
    have h0 := hstk.2.1 hu
    have hz := cnt_zero g s u h0
    refine ⟨rank, k, ks_dead g s _ rank k u rest hI hst hu ?_ (by rw [hLA, hI.lenA])
      (by rw [hLD, hI.lenD]) ?_ ?_ hO⟩
    · intro w; rw [hA w]; split
      · next h => rw [h, hu]
      · rfl
    · intro w; rw [hD w]
      rw [if_neg]
      rintro ⟨a, b⟩
      rw [hz w b] at a; cases a
    · rw [hP1]
      have : P = [] := by
        apply List.eq_nil_iff_forall_not_mem.2
        intro w hw
        obtain ⟨a, b, _⟩ := (hP3 w).1 hw
        rw [hz w a] at b; cases b
      rw [this]; rfl
  · refine ⟨_, _, ks_alive g hs s _ rank k u rest hI hu hA (by rw [hLA, hI.lenA])
      (by rw [hLD, hI.lenD]) hD ⟨P, hP1, hP2, hP3⟩ ?_ ?_ ?_ (Or.inl ⟨hO, hstk.1⟩)⟩
    · intro x; rw [hst, List.count_cons]; omega
    · intro x hx hm
      rw [hst] at hm
      rcases List.mem_cons.1 hm with h | h
      · exact absurd h hx
      · exact h
    · intro h
      apply hstk.2.2
      rw [hst, List.count_cons]
      have : 0 < rest.count u := List.count_pos_iff.2 h
      simp; omega

theorem pick_inv (g : Graph) (hs : g.simpleB = true) (s : FvsState) (rank : Nat → Nat) (k v : Nat)
    (hI : CInv g s rank k) (hst : s.stack = []) (hv : s.isAlive v = true) :
    ∃ rank' k', CInv g (fvsScan (g.adj v)
      { s with out := s.out ++ [v], alive := s.alive.set v false }) rank' k' := by
  obtain ⟨hA, hLA, hLD, hO, hD, P, hP1, hP2, hP3⟩ := killscan_spec g hs s
    { s with out := s.out ++ [v], alive := s.alive.set v false } v (by rw [hI.lenA, hI.lenD]) rfl rfl
  refine ⟨_, _, ks_alive g hs s _ rank k v [] hI hv hA (by rw [hLA, hI.lenA])
      (by rw [hLD, hI.lenD]) hD ⟨P, ?_, hP2, hP3⟩ ?_ ?_ ?_ (Or.inr hO)⟩
  · rw [hP1]; show P ++ s.stack = P ++ []; rw [hst]
  · intro x; simp
  · intro x _ hm; rw [hst] at hm; cases hm
  · intro h; cases h

/-! ### the fuel: `2n + 2` pops suffice -/

def tsum (f : Nat → Nat) : Nat → Nat
  | 0 => 0
  | j + 1 => tsum f j + f j

theorem tsum_mono (f f' : Nat → Nat) (j : Nat) (h : ∀ x, x < j → f' x ≤ f x) :
    tsum f' j ≤ tsum f j := by
  induction j with
  | zero => exact Nat.le_refl _
  | succ j ih =>
    have h1 := ih (fun x hx => h x (by omega))
    have h2 := h j (by omega)
    simp only [tsum]; omega

theorem tsum_dec (f f' : Nat → Nat) (j w c : Nat) (h : ∀ x, x ≠ w → f' x = f x) (hw : w < j)
    (hc : f' w + c ≤ f w) : tsum f' j + c ≤ tsum f j := by
  induction j with
  | zero => omega
  | succ j ih =>
    simp only [tsum]
    by_cases hwj : w = j
    · subst hwj
      have h1 : tsum f' w ≤ tsum f w := tsum_mono f f' w (fun x hx => by rw [h x (by omega)]; exact Nat.le_refl _)
      omega
    · have h1 := ih (by omega)
      have h2 := h j (fun e => hwj e.symm)
      omega

theorem tsum_le (f : Nat → Nat) (j c : Nat) (h : ∀ x, x < j → f x ≤ c) : tsum f j ≤ c * j := by
  induction j with
  | zero => simp [tsum]
  | succ j ih =>
    have h1 := ih (fun x hx => h x (by omega))
    have h2 := h j (by omega)
    simp only [tsum, Nat.mul_succ]; omega

def phiTerm (s : FvsState) (w : Nat) : Nat := if s.isAlive w then min (s.deg w) 2 else 0

def Phi (g : Graph) (s : FvsState) : Nat := s.stack.length + tsum (phiTerm s) g.n

theorem phi_le (g : Graph) (s : FvsState) : Phi g s ≤ s.stack.length + 2 * g.n := by
  unfold Phi
  have := tsum_le (phiTerm s) g.n 2 (by intro x _; unfold phiTerm; split <;> omega)
  omega

theorem phi_scanStep (g : Graph) (s : FvsState) (w : Nat) (hl : s.alive.length = g.n)
    (hd : s.degree.length = g.n) (hw : s.isAlive w = true → 1 ≤ s.deg w) :
    Phi g (scanStep s w) ≤ Phi g s := by
  cases ha : s.isAlive w
  · have : scanStep s w = s := by unfold scanStep; rw [ha]; rfl
    rw [this]; exact Nat.le_refl _
  · have hwn : w < g.n := by rw [← hl]; exact isAlive_lt s w ha
    have hdeg : ∀ x, (scanStep s w).deg x = if x = w then s.deg w - 1 else s.deg x := by
      intro x
      rw [scanStep_deg s w x (fun _ => by omega)]
      simp only [ha, true_and]
    have hother : ∀ x, x ≠ w → phiTerm (scanStep s w) x = phiTerm s x := by
      intro x hx
      unfold phiTerm
      rw [scanStep_isAlive, hdeg x, if_neg hx]
    have hself : phiTerm (scanStep s w) w = min (s.deg w - 1) 2 := by
      unfold phiTerm
      rw [scanStep_isAlive, hdeg w]
      simp only [ha, if_true]
    have hold : phiTerm s w = min (s.deg w) 2 := by
      unfold phiTerm
      simp only [ha, if_true]
    have h1 := hw ha
    unfold Phi
    rw [scanStep_stack, ha]
    by_cases hc : s.deg w - 1 ≤ 1
    · rw [if_pos ⟨rfl, hc⟩]
      have := tsum_dec (phiTerm s) (phiTerm (scanStep s w)) g.n w 1 hother hwn
        (by rw [hself, hold]; omega)
      simp only [List.length_cons]; omega
    · rw [if_neg (fun h => hc h.2)]
      have := tsum_dec (phiTerm s) (phiTerm (scanStep s w)) g.n w 0 hother hwn
        (by rw [hself, hold]; omega)
      omega

theorem phi_scan (g : Graph) (l : List (Nat × Nat)) : ∀ (s : FvsState), (l.map (·.2)).Nodup →
    s.alive.length = g.n → s.degree.length = g.n →
    (∀ w, w ∈ l.map (·.2) → s.isAlive w = true → 1 ≤ s.deg w) →
    Phi g (fvsScan l s) ≤ Phi g s := by
  induction l with
  | nil => intro s _ _ _ _; exact Nat.le_refl _
  | cons p r ih =>
    obtain ⟨e, w⟩ := p
    intro s hnd hl hd hpos
    rw [List.map_cons, List.nodup_cons] at hnd
    rw [fvsScan_cons]
    have h1 := phi_scanStep g s w hl hd (hpos w (by simp))
    have h2 := ih (scanStep s w) hnd.2 (by rw [scanStep_alive]; exact hl)
      (by rw [scanStep_len]; exact hd) (by
        intro x hx ha
        rw [scanStep_isAlive] at ha
        have hxw : x ≠ w := fun h => hnd.1 (h ▸ hx)
        rw [scanStep_deg s w x (fun h => by rw [hd, ← hl]; exact isAlive_lt s w h),
          if_neg (fun h => hxw h.2)]
        exact hpos x (by simp [hx]) ha)
    omega

theorem phi_kill (g : Graph) (s s1 : FvsState) (u : Nat)
    (h1 : s1.alive = s.alive.set u false) (h2 : s1.degree = s.degree) :
    tsum (phiTerm s1) g.n ≤ tsum (phiTerm s) g.n := by
  apply tsum_mono
  intro x _
  unfold phiTerm FvsState.isAlive FvsState.deg
  rw [h1, h2, getD_set_false]
  by_cases hx : x = u
  · simp [hx]
  · simp [hx]

theorem deg_pos_of_alive_nb (g : Graph) (s : FvsState) (rank : Nat → Nat) (k u w : Nat)
    (hI : CInv g s rank k) (hu : s.isAlive u = true) (hw : w ∈ nb g u)
    (ha : s.isAlive w = true) : 1 ≤ s.deg w := by
  rw [hI.acc w ha]
  exact cnt_pos g s w u (nb_symm g u w hw) hu

theorem set_isAlive_imp (s s1 : FvsState) (u w : Nat) (h1 : s1.alive = s.alive.set u false)
    (h : s1.isAlive w = true) : s.isAlive w = true := by
  unfold FvsState.isAlive at h ⊢
  rw [h1, getD_set_false] at h
  by_cases hw : w = u
  · rw [if_pos hw] at h; cases h
  · rw [if_neg hw] at h; exact h

theorem pop_phi (g : Graph) (hs : g.simpleB = true) (s : FvsState) (rank : Nat → Nat) (k u : Nat)
    (rest : List Nat) (hI : CInv g s rank k) (hst : s.stack = u :: rest) :
    Phi g (fvsScan (g.adj u) { s with stack := rest, alive := s.alive.set u false }) + 1 ≤
      Phi g s := by
  have hk := phi_kill g s { s with stack := rest, alive := s.alive.set u false } u rfl rfl
  have h1 : Phi g { s with stack := rest, alive := s.alive.set u false } + 1 ≤ Phi g s := by
    unfold Phi
    rw [hst]
    simp only [List.length_cons]
    omega
  have h2 := phi_scan g (g.adj u) { s with stack := rest, alive := s.alive.set u false }
    (adj_nodup g hs u) (by simp [hI.lenA]) hI.lenD (by
      intro w hw ha
      have ha' := set_isAlive_imp s _ u w rfl ha
      have hstk := hI.stk u (by rw [hst]; exact List.mem_cons_self)
      have hcp := cnt_pos g s u w hw ha'
      cases hu : s.isAlive u
      · have := hstk.2.1 hu; omega
      · exact deg_pos_of_alive_nb g s rank k u w hI hu hw ha')
  omega

theorem pick_phi (g : Graph) (hs : g.simpleB = true) (s : FvsState) (rank : Nat → Nat) (k v : Nat)
    (hI : CInv g s rank k) (hst : s.stack = []) (hv : s.isAlive v = true) :
    Phi g (fvsScan (g.adj v) { s with out := s.out ++ [v], alive := s.alive.set v false }) ≤
      2 * g.n := by
  have h1 := phi_le g { s with out := s.out ++ [v], alive := s.alive.set v false }
  have h2 := phi_scan g (g.adj v) { s with out := s.out ++ [v], alive := s.alive.set v false }
    (adj_nodup g hs v) (by simp [hI.lenA]) hI.lenD (by
      intro w hw ha
      have ha' := set_isAlive_imp s _ v w rfl ha
      exact deg_pos_of_alive_nb g s rank k v w hI hv hw ha')
  have h3 : ({ s with out := s.out ++ [v], alive := s.alive.set v false } : FvsState).stack.length
      = 0 := by
    show s.stack.length = 0
    rw [hst]; rfl
  omega

/-- the removal loop re-establishes the invariant with an empty stack -/
theorem cleanup_inv (g : Graph) (hs : g.simpleB = true) : ∀ (fuel : Nat) (s : FvsState)
    (rank : Nat → Nat) (k : Nat), CInv g s rank k → Phi g s ≤ fuel →
    ∃ rank' k', CInv g (fvsCleanup g fuel s) rank' k' ∧ (fvsCleanup g fuel s).stack = [] := by
  intro fuel
  induction fuel with
  | zero =>
    intro s rank k hI hphi
    refine ⟨rank, k, hI, ?_⟩
    unfold Phi at hphi
    show s.stack = []
    apply List.eq_nil_of_length_eq_zero
    omega
  | succ fuel ih =>
    intro s rank k hI hphi
    cases hst : s.stack with
    | nil =>
      have : fvsCleanup g (fuel + 1) s = s := by simp [fvsCleanup, hst]
      rw [this]
      exact ⟨rank, k, hI, hst⟩
    | cons u rest =>
      have : fvsCleanup g (fuel + 1) s = fvsCleanup g fuel (fvsScan (g.adj u)
          { s with stack := rest, alive := s.alive.set u false }) := by
        simp [fvsCleanup, hst]
      rw [this]
      obtain ⟨rank', k', hI'⟩ := pop_inv g hs s rank k u rest hI hst
      have hp := pop_phi g hs s rank k u rest hI hst
      exact ih _ rank' k' hI' (by omega)

theorem fvsScan_out (l : List (Nat × Nat)) : ∀ s, (fvsScan l s).out = s.out := by
  induction l with
  | nil => intro s; rfl
  | cons p r ih =>
    obtain ⟨e, w⟩ := p
    intro s; rw [fvsScan_cons, ih, scanStep_out]

theorem cleanup_out (g : Graph) : ∀ (fuel : Nat) (s : FvsState),
    (fvsCleanup g fuel s).out = s.out := by
  intro fuel
  induction fuel with
  | zero => intro s; rfl
  | succ fuel ih =>
    intro s
    cases hst : s.stack with
    | nil => simp [fvsCleanup, hst]
    | cons u rest =>
      simp only [fvsCleanup, hst]
      rw [ih, fvsScan_out]

/-! ### initialisation -/

theorem tsum_inc (f f' : Nat → Nat) (j w c : Nat) (h : ∀ x, x ≠ w → f' x = f x)
    (hc : f' w ≤ f w + c) : tsum f' j ≤ tsum f j + c := by
  induction j with
  | zero => simp [tsum]
  | succ j ih =>
    simp only [tsum]
    by_cases hwj : w = j
    · subst hwj
      have h1 : tsum f' w ≤ tsum f w :=
        tsum_mono f f' w (fun x hx => by rw [h x (by omega)]; exact Nat.le_refl _)
      omega
    · have h2 := h j (fun e => hwj e.symm)
      omega

def init0 (g : Graph) : FvsState :=
  { alive := List.replicate g.n true, degree := List.replicate g.n 0, stack := [], out := [] }

def initStep (g : Graph) (s : FvsState) (v : Nat) : FvsState :=
  if (g.adj v).length ≤ 1 then
    { s with degree := s.degree.set v (g.adj v).length, stack := v :: s.stack }
  else { s with degree := s.degree.set v (g.adj v).length }

theorem fvsInit_eq (g : Graph) : fvsInit g = (List.range g.n).foldl (initStep g) (init0 g) := by
  rfl

theorem initStep_spec (g : Graph) (s : FvsState) (v : Nat) (hv : v < s.degree.length) :
    (initStep g s v).alive = s.alive ∧ (initStep g s v).out = s.out ∧
    (initStep g s v).degree.length = s.degree.length ∧
    (∀ w, (initStep g s v).deg w = if w = v then (g.adj v).length else s.deg w) ∧
    (initStep g s v).stack = if (g.adj v).length ≤ 1 then v :: s.stack else s.stack := by
  by_cases h : (g.adj v).length ≤ 1
  · have key : initStep g s v =
        { s with degree := s.degree.set v (g.adj v).length, stack := v :: s.stack } := by
      unfold initStep; rw [if_pos h]
    rw [key, if_pos h]
    refine ⟨rfl, rfl, by simp, ?_, rfl⟩
    intro w
    show (s.degree.set v (g.adj v).length).getD w 0 = _
    rw [getD_set_nat _ _ _ _ hv]; rfl
  · have key : initStep g s v = { s with degree := s.degree.set v (g.adj v).length } := by
      unfold initStep; rw [if_neg h]
    rw [key, if_neg h]
    refine ⟨rfl, rfl, by simp, ?_, rfl⟩
    intro w
    show (s.degree.set v (g.adj v).length).getD w 0 = _
    rw [getD_set_nat _ _ _ _ hv]; rfl

theorem replicate_getD_true (n w : Nat) :
    (List.replicate n true).getD w false = decide (w < n) := by
  rw [List.getD_eq_getElem?_getD, List.getElem?_replicate]
  by_cases h : w < n <;> simp [h]

theorem init_fold (g : Graph) (j : Nat) (hj : j ≤ g.n) :
    ((List.range j).foldl (initStep g) (init0 g)).alive = List.replicate g.n true ∧
    ((List.range j).foldl (initStep g) (init0 g)).out = [] ∧
    ((List.range j).foldl (initStep g) (init0 g)).degree.length = g.n ∧
    (∀ w, ((List.range j).foldl (initStep g) (init0 g)).deg w =
      if w < j then (g.adj w).length else 0) ∧
    ((List.range j).foldl (initStep g) (init0 g)).stack.Nodup ∧
    (∀ w, w ∈ ((List.range j).foldl (initStep g) (init0 g)).stack ↔
      (w < j ∧ (g.adj w).length ≤ 1)) ∧
    Phi g ((List.range j).foldl (initStep g) (init0 g)) ≤ 2 * j := by
  induction j with
  | zero =>
    refine ⟨rfl, rfl, by simp [init0], ?_, by simp [init0], by simp [init0], ?_⟩
    · intro w
      show (List.replicate g.n 0).getD w 0 = _
      rw [List.getD_eq_getElem?_getD, List.getElem?_replicate]
      by_cases h : w < g.n <;> simp [h]
    · unfold Phi
      have : tsum (phiTerm (init0 g)) g.n ≤ 0 * g.n := by
        apply tsum_le
        intro x _
        unfold phiTerm
        have : (init0 g).deg x = 0 := by
          show (List.replicate g.n 0).getD x 0 = _
          rw [List.getD_eq_getElem?_getD, List.getElem?_replicate]
          by_cases h : x < g.n <;> simp [h]
        rw [this]; split <;> simp
      simp [init0] at this ⊢
      omega
  | succ j ih =>
    obtain ⟨h1, h2, h3, h4, h5, h6, h7⟩ := ih (by omega)
    rw [List.range_succ, List.foldl_append, List.foldl_cons, List.foldl_nil]
    generalize (List.range j).foldl (initStep g) (init0 g) = s at *
    obtain ⟨a, b, c, d, e⟩ := initStep_spec g s j (by omega)
    refine ⟨by rw [a, h1], by rw [b, h2], by rw [c, h3], ?_, ?_, ?_, ?_⟩
    · intro w
      rw [d w, h4 w]
      by_cases hw : w = j
      · subst hw; simp
      · rw [if_neg hw]
        by_cases hw2 : w < j
        · rw [if_pos hw2, if_pos (by omega)]
        · rw [if_neg hw2, if_neg (by omega)]
    · rw [e]
      split
      · rw [List.nodup_cons]
        refine ⟨?_, h5⟩
        intro hm
        have := ((h6 j).1 hm).1
        omega
      · exact h5
    · intro w
      rw [e]
      by_cases hc : (g.adj j).length ≤ 1
      · rw [if_pos hc, List.mem_cons, h6 w]
        constructor
        · rintro (rfl | ⟨x, y⟩)
          · exact ⟨by omega, hc⟩
          · exact ⟨by omega, y⟩
        · rintro ⟨x, y⟩
          by_cases hw : w = j
          · exact Or.inl hw
          · exact Or.inr ⟨by omega, y⟩
      · rw [if_neg hc, h6 w]
        constructor
        · rintro ⟨x, y⟩; exact ⟨by omega, y⟩
        · rintro ⟨x, y⟩
          by_cases hw : w = j
          · subst hw; exact absurd y hc
          · exact ⟨by omega, y⟩
    · have hother : ∀ x, x ≠ j → phiTerm (initStep g s j) x = phiTerm s x := by
        intro x hx
        unfold phiTerm FvsState.isAlive
        rw [a, d x, if_neg hx]
      have hold : phiTerm s j = 0 := by
        unfold phiTerm
        rw [h4 j, if_neg (Nat.lt_irrefl j)]
        split <;> simp
      have hnew : phiTerm (initStep g s j) j ≤ min (g.adj j).length 2 := by
        unfold phiTerm
        rw [d j, if_pos rfl]
        split
        · exact Nat.le_refl _
        · omega
      have hs := tsum_inc (phiTerm s) (phiTerm (initStep g s j)) g.n j (min (g.adj j).length 2)
        hother (by omega)
      unfold Phi at h7 ⊢
      rw [e]
      by_cases hc : (g.adj j).length ≤ 1
      · rw [if_pos hc]; simp only [List.length_cons]; omega
      · rw [if_neg hc]; omega

theorem init_inv (g : Graph) (hs : g.simpleB = true) :
    CInv g (fvsInit g) (fun _ => 0) 0 ∧ Phi g (fvsInit g) ≤ 2 * g.n ∧ (fvsInit g).out = [] := by
  rw [fvsInit_eq]
  obtain ⟨h1, h2, h3, h4, h5, h6, h7⟩ := init_fold g g.n (Nat.le_refl _)
  generalize (List.range g.n).foldl (initStep g) (init0 g) = s at *
  have hal : ∀ w, s.isAlive w = decide (w < g.n) := by
    intro w; unfold FvsState.isAlive; rw [h1]; exact replicate_getD_true _ _
  have hcnt : ∀ w, cnt g s w = (g.adj w).length := by
    intro w
    unfold cnt
    rw [List.filter_eq_self.2]
    intro p hp
    obtain ⟨e, x⟩ := p
    have := adj_facts g hs w e x hp
    rw [hal]; simp [this.2.2.1]
  have hdead : ∀ v, v < g.n → s.isAlive v = false → False := by
    intro v hv hd
    rw [hal] at hd
    simp [hv] at hd
  refine ⟨⟨by rw [h1]; simp, h3, ?_, ?_, ?_, by rw [h2]; exact List.nodup_nil, ?_, ?_, ?_, ?_⟩, h7, h2⟩
  · intro w hw
    rw [hal] at hw
    have hw : w < g.n := by simpa using hw
    rw [h4 w, if_pos hw, hcnt]
  · intro u hu
    have hu' := (h6 u).1 hu
    refine ⟨by rw [hcnt]; exact hu'.2, ?_, ?_⟩
    · intro hd; exact (hdead u hu'.1 hd).elim
    · intro hc
      have := List.nodup_iff_count.1 h5 u
      omega
  · intro w hw hd
    rw [hal] at hw
    have hw : w < g.n := by simpa using hw
    rw [h4 w, if_pos hw] at hd
    exact (h6 w).2 ⟨hw, hd⟩
  · intro v hv; rw [h2] at hv; cases hv
  · intro v hv hd; exact (hdead v hv hd).elim
  · intro v w hv _ hd; exact (hdead v hv hd).elim
  · intro v hv hd; exact (hdead v hv hd).elim

/-! ### the main loop -/

/-- the invariant at every test of the main loop -/
def Good (g : Graph) (s : FvsState) : Prop := (∃ rank k, CInv g s rank k) ∧ s.stack = []

theorem afterInit_good (g : Graph) (hs : g.simpleB = true) :
    Good g (fvsAfterInit g) ∧ (fvsAfterInit g).out = [] := by
  obtain ⟨hI, hphi, hout⟩ := init_inv g hs
  obtain ⟨rank, k, hI', hst⟩ := cleanup_inv g hs (fvsFuel g) (fvsInit g) _ _ hI
    (by unfold fvsFuel; omega)
  refine ⟨⟨⟨rank, k, hI'⟩, hst⟩, ?_⟩
  unfold fvsAfterInit
  rw [cleanup_out, hout]

theorem pick_good (g : Graph) (hs : g.simpleB = true) (s : FvsState) (v : Nat) (h : Good g s) :
    Good g (fvsPick g (fvsFuel g) s v) := by
  obtain ⟨⟨rank, k, hI⟩, hst⟩ := h
  unfold fvsPick
  cases hv : s.isAlive v
  · exact ⟨⟨rank, k, hI⟩, hst⟩
  · simp only [if_true]
    obtain ⟨rank', k', hI'⟩ := pick_inv g hs s rank k v hI hst hv
    have hp := pick_phi g hs s rank k v hI hst hv
    obtain ⟨rank2, k2, hI2, hst2⟩ := cleanup_inv g hs (fvsFuel g) _ rank' k' hI'
      (by unfold fvsFuel; omega)
    exact ⟨⟨rank2, k2, hI2⟩, hst2⟩

theorem foldl_good (g : Graph) (hs : g.simpleB = true) (picks : List Nat) : ∀ (s : FvsState),
    Good g s → Good g (picks.foldl (fvsPick g (fvsFuel g)) s) := by
  induction picks with
  | nil => intro s h; exact h
  | cons v r ih => intro s h; exact ih _ (pick_good g hs s v h)

theorem vertices_aux (g : Graph) (hs : g.simpleB = true) (picks : List Nat) :
    (∀ v ∈ greedyFvs g picks, v < g.n) ∧ (greedyFvs g picks).Nodup := by
  obtain ⟨⟨rank, k, hI⟩, _⟩ := foldl_good g hs picks _ (afterInit_good g hs).1
  exact ⟨fun v hv => (hI.outP v hv).1, hI.outND⟩

theorem degree_accurate_aux (g : Graph) (hs : g.simpleB = true) (picks : List Nat) :
    ∀ w, w < g.n → (picks.foldl (fvsPick g (fvsFuel g)) (fvsAfterInit g)).isAlive w = true →
      (picks.foldl (fvsPick g (fvsFuel g)) (fvsAfterInit g)).deg w =
        ((g.adj w).filter fun p =>
          (picks.foldl (fvsPick g (fvsFuel g)) (fvsAfterInit g)).isAlive p.2).length := by
  obtain ⟨⟨rank, k, hI⟩, _⟩ := foldl_good g hs picks _ (afterInit_good g hs).1
  intro w _ hw
  exact hI.acc w hw

/-! ### feedback vertex set -/

theorem fvsScan_alive (l : List (Nat × Nat)) : ∀ s, (fvsScan l s).alive = s.alive := by
  induction l with
  | nil => intro s; rfl
  | cons p r ih =>
    obtain ⟨e, w⟩ := p
    intro s; rw [fvsScan_cons, ih, scanStep_alive]

theorem cleanup_dead (g : Graph) (v : Nat) : ∀ (fuel : Nat) (s : FvsState),
    s.isAlive v = false → (fvsCleanup g fuel s).isAlive v = false := by
  intro fuel
  induction fuel with
  | zero => intro s h; exact h
  | succ fuel ih =>
    intro s h
    cases hst : s.stack with
    | nil => simp only [fvsCleanup, hst]; exact h
    | cons u rest =>
      simp only [fvsCleanup, hst]
      apply ih
      unfold FvsState.isAlive at h ⊢
      rw [fvsScan_alive]
      show (s.alive.set u false).getD v false = false
      rw [getD_set_false]
      split
      · rfl
      · exact h

theorem pick_dead (g : Graph) (fuel : Nat) (s : FvsState) (v x : Nat)
    (h : s.isAlive v = false ∨ v = x) : (fvsPick g fuel s x).isAlive v = false := by
  unfold fvsPick
  cases hx : s.isAlive x
  · rcases h with h | h
    · exact h
    · subst h; exact hx
  · simp only [if_true]
    apply cleanup_dead
    unfold FvsState.isAlive at h ⊢
    rw [fvsScan_alive]
    show (s.alive.set x false).getD v false = false
    rw [getD_set_false]
    by_cases hvx : v = x
    · rw [if_pos hvx]
    · rw [if_neg hvx]
      rcases h with h | h
      · exact h
      · exact absurd h hvx

theorem foldl_dead (g : Graph) (fuel : Nat) (v : Nat) (picks : List Nat) : ∀ (s : FvsState),
    (s.isAlive v = false ∨ v ∈ picks) →
    (picks.foldl (fvsPick g fuel) s).isAlive v = false := by
  induction picks with
  | nil =>
    intro s h
    rcases h with h | h
    · exact h
    · cases h
  | cons x r ih =>
    intro s h
    apply ih
    rcases h with h | h
    · exact Or.inl (pick_dead g fuel s v x (Or.inl h))
    · rcases List.mem_cons.1 h with h | h
      · exact Or.inl (pick_dead g fuel s v x (Or.inr h))
      · exact Or.inr h

theorem inc_adj (g : Graph) (v e : Nat) (he : e < g.m) (hi : g.inc v e = true) :
    (e, g.other e v) ∈ g.adj v := by
  rw [mem_adj]
  refine ⟨he, ?_⟩
  unfold Graph.other
  by_cases h : g.src e = v
  · rw [if_pos h]; exact Or.inl ⟨h, rfl⟩
  · rw [if_neg h]
    have h4 : (g.src e == v) = false := beq_eq_false_iff_ne.2 h
    unfold Graph.inc at hi
    rw [h4] at hi
    have : g.tgt e = v := by simpa using hi
    exact Or.inr ⟨this, rfl⟩

theorem fvs_aux (g : Graph) (hs : g.simpleB = true) (picks : List Nat)
    (hp : ∀ v, v < g.n → v ∈ picks) :
    Acyclic g ((List.range g.m).filter fun e =>
      !((greedyFvs g picks).contains (g.src e)) && !((greedyFvs g picks).contains (g.tgt e))) := by
  obtain ⟨⟨rank, k, hI⟩, _⟩ := foldl_good g hs picks _ (afterInit_good g hs).1
  have hdead : ∀ v, v < g.n →
      (picks.foldl (fvsPick g (fvsFuel g)) (fvsAfterInit g)).isAlive v = false :=
    fun v hv => foldl_dead g (fvsFuel g) v picks _ (Or.inr (hp v hv))
  have hout : greedyFvs g picks = (picks.foldl (fvsPick g (fvsFuel g)) (fvsAfterInit g)).out := rfl
  rw [hout]
  generalize picks.foldl (fvsPick g (fvsFuel g)) (fvsAfterInit g) = s at *
  have hF : ∀ e, e ∈ ((List.range g.m).filter fun e =>
      !(s.out.contains (g.src e)) && !(s.out.contains (g.tgt e))) →
      e < g.m ∧ g.src e ∉ s.out ∧ g.tgt e ∉ s.out := by
    intro e he
    rw [List.mem_filter, List.mem_range] at he
    obtain ⟨h1, h2⟩ := he
    simp only [Bool.and_eq_true, Bool.not_eq_true', List.contains_eq_mem, decide_eq_false_iff_not]
      at h2
    exact ⟨h1, h2.1, h2.2⟩
  apply rank_acyclic g _ rank
  · intro e he heq
    obtain ⟨hm, _, _⟩ := hF e he
    have hf := simpleB_facts g hs e hm
    exact hf.2.2 (hI.rk2 _ _ hf.1 hf.2.1 (hdead _ hf.1) (hdead _ hf.2.1) heq)
  · intro v e₁ h₁ e₂ h₂ i₁ i₂ r₁ r₂
    obtain ⟨hm₁, ha₁, hb₁⟩ := hF e₁ h₁
    obtain ⟨hm₂, _, _⟩ := hF e₂ h₂
    have a₁ := inc_adj g v e₁ hm₁ i₁
    have a₂ := inc_adj g v e₂ hm₂ i₂
    have hv : v < g.n := (adj_facts g hs v e₁ _ a₁).2.1
    have hvo : v ∉ s.out := by
      rw [mem_adj] at a₁
      rcases a₁.2 with ⟨h, _⟩ | ⟨h, _⟩
      · rw [← h]; exact ha₁
      · rw [← h]; exact hb₁
    have h3 := hI.rk3 v hv (hdead v hv) hvo
    have := length_le_one_eq _ h3 (e₁, g.other e₁ v) (e₂, g.other e₂ v)
      (List.mem_filter.2 ⟨a₁, by simp [r₁]⟩) (List.mem_filter.2 ⟨a₂, by simp [r₂]⟩)
    exact congrArg Prod.fst this

/-! ### a graph with minimum degree two contains a cycle -/

theorem par_append (a b : List Nat) (f : Nat → Bool) : par (a ++ b) f = xor (par a f) (par b f) := by
  induction a with
  | nil => simp [par_nil]
  | cons x a ih =>
    simp only [List.cons_append, par_cons, ih]
    cases f x <;> cases par a f <;> cases par b f <;> rfl

/-- sorted form of an edge multiset reduced mod 2 -/
def canon (E : List Nat) : List Nat := E.foldr (fun e acc => xorMerge [e] acc) []

theorem canon_sorted (E : List Nat) : StrictSorted (canon E) := by
  induction E with
  | nil => exact trivial
  | cons e E ih => exact xorMerge_sorted [e] _ trivial ih

theorem canon_mem (E : List Nat) (z : Nat) (h : z ∈ canon E) : z ∈ E := by
  induction E with
  | nil => cases h
  | cons e E ih =>
    rcases mem_xorMerge_of [e] (canon E) z h with h | h
    · simp at h; simp [h]
    · exact List.mem_cons_of_mem _ (ih h)

theorem canon_par (E : List Nat) (f : Nat → Bool) : par (canon E) f = par E f := by
  induction E with
  | nil => rfl
  | cons e E ih =>
    show par (xorMerge [e] (canon E)) f = _
    rw [par_xorMerge, ih, par_cons, par_cons, par_nil]
    cases f e <;> cases par E f <;> rfl

/-- a walk starting at `a`: each step is an adjacency entry (edge, next vertex) of the current
vertex, and every vertex reached satisfies `A` -/
def Valid (g : Graph) (A : Nat → Bool) : Nat → List (Nat × Nat) → Prop
  | _, [] => True
  | a, (e, y) :: W => (e, y) ∈ g.adj a ∧ A y = true ∧ Valid g A y W

def endOf : Nat → List (Nat × Nat) → Nat
  | a, [] => a
  | _, (_, y) :: W => endOf y W

theorem valid_append (g : Graph) (A : Nat → Bool) (W1 W2 : List (Nat × Nat)) : ∀ a,
    Valid g A a (W1 ++ W2) ↔ (Valid g A a W1 ∧ Valid g A (endOf a W1) W2) := by
  induction W1 with
  | nil => intro a; simp [Valid, endOf]
  | cons p W1 ih =>
    obtain ⟨e, y⟩ := p
    intro a
    simp only [List.cons_append, Valid, endOf, ih y, and_assoc]

theorem endOf_append_single (W1 : List (Nat × Nat)) (e x : Nat) : ∀ a,
    endOf a (W1 ++ [(e, x)]) = x := by
  induction W1 with
  | nil => intro a; rfl
  | cons p W1 ih => obtain ⟨e', y⟩ := p; intro a; exact ih y

theorem inc_of_adj (g : Graph) (a e y v : Nat) (h : (e, y) ∈ g.adj a) :
    g.inc v e = xor (a == v) (y == v) := by
  rw [mem_adj] at h
  unfold Graph.inc
  rcases h.2 with ⟨p, q⟩ | ⟨p, q⟩
  · rw [p, q]
  · rw [p, q]; cases (a == v) <;> cases (g.src e == v) <;> rfl

theorem walk_par (g : Graph) (A : Nat → Bool) (v : Nat) (W : List (Nat × Nat)) : ∀ a,
    Valid g A a W → par (W.map (·.1)) (g.inc v) = xor (a == v) (endOf a W == v) := by
  induction W with
  | nil => intro a _; simp [par_nil, endOf]
  | cons p W ih =>
    obtain ⟨e, y⟩ := p
    intro a h
    obtain ⟨h1, _, h3⟩ := h
    rw [List.map_cons, par_cons, ih y h3, inc_of_adj g a e y v h1]
    show _ = xor (a == v) (endOf y W == v)
    cases (a == v) <;> cases (y == v) <;> cases (endOf y W == v) <;> rfl

theorem walk_endpoints (g : Graph) (A : Nat → Bool) (W : List (Nat × Nat)) : ∀ u,
    Valid g A u W → ∀ p ∈ W, g.src p.1 ∈ u :: W.map (·.2) ∧ g.tgt p.1 ∈ u :: W.map (·.2) := by
  induction W with
  | nil => intro u _ p hp; cases hp
  | cons q W ih =>
    obtain ⟨e, y⟩ := q
    intro u h p hp
    obtain ⟨h1, _, h3⟩ := h
    rcases List.mem_cons.1 hp with hp | hp
    · subst hp
      rw [mem_adj] at h1
      rcases h1.2 with ⟨a, b⟩ | ⟨a, b⟩
      · simp [a, ← b]
      · simp [a, ← b]
    · have := ih y h3 p hp
      simp only [List.map_cons, List.mem_cons] at this ⊢
      exact ⟨Or.inr this.1, Or.inr this.2⟩

theorem walk_edges_lt (g : Graph) (A : Nat → Bool) (W : List (Nat × Nat)) : ∀ u,
    Valid g A u W → ∀ e ∈ W.map (·.1), e < g.m := by
  induction W with
  | nil => intro u _ e he; cases he
  | cons q W ih =>
    obtain ⟨e', y⟩ := q
    intro u h e he
    obtain ⟨h1, _, h3⟩ := h
    rcases List.mem_cons.1 he with he | he
    · subst he; exact ((mem_adj g u _ y).1 h1).1
    · exact ih y h3 e he

/-- a closed walk that uses some edge exactly once yields a non-empty element of the cycle space -/
theorem closed_walk_even (g : Graph) (A : Nat → Bool) (a : Nat) (W : List (Nat × Nat))
    (hv : Valid g A a W) (hend : endOf a W = a) (e : Nat)
    (hodd : par (W.map (·.1)) (fun z => z == e) = true) :
    ∃ Z, EvenSet g Z ∧ Z ≠ [] := by
  refine ⟨canon (W.map (·.1)), ⟨canon_sorted _, ?_, ?_⟩, ?_⟩
  · intro z hz; exact walk_edges_lt g A W a hv z (canon_mem _ z hz)
  · intro v
    rw [canon_par, walk_par g A v W a hv, hend]
    cases (a == v) <;> rfl
  · intro h
    have := canon_par (W.map (·.1)) (fun z => z == e)
    rw [h, hodd] at this
    cases this

theorem adj_snd_unique (g : Graph) (hs : g.simpleB = true) (a e x y : Nat)
    (h1 : (e, x) ∈ g.adj a) (h2 : (e, y) ∈ g.adj a) : x = y := by
  rw [mem_adj] at h1 h2
  have hf := simpleB_facts g hs e h1.1
  rcases h1.2 with ⟨p, q⟩ | ⟨p, q⟩ <;> rcases h2.2 with ⟨p', q'⟩ | ⟨p', q'⟩
  · rw [q, q']
  · exact absurd (p.trans p'.symm) hf.2.2
  · exact absurd (p'.trans p.symm) hf.2.2
  · rw [q, q']

theorem pick_other (g : Graph) (hs : g.simpleB = true) (A : Nat → Bool) (w z : Nat)
    (h2 : 2 ≤ ((g.adj w).filter fun p => A p.2).length) :
    ∃ e x, (e, x) ∈ g.adj w ∧ A x = true ∧ x ≠ z := by
  have hnd : (((g.adj w).filter fun p => A p.2).map (·.2)).Nodup :=
    List.Nodup.sublist ((List.filter_sublist).map _) (adj_nodup g hs w)
  have hmem : ∀ p, p ∈ (g.adj w).filter (fun p => A p.2) → p ∈ g.adj w ∧ A p.2 = true :=
    fun p hp => List.mem_filter.1 hp
  generalize (g.adj w).filter (fun p => A p.2) = l at *
  match l, h2 with
  | p :: q :: r, _ =>
    have hp := hmem p (by simp)
    have hq := hmem q (by simp)
    have hpq : p.2 ≠ q.2 := by
      simp only [List.map_cons, List.nodup_cons, List.mem_cons] at hnd
      intro h; exact hnd.1 (Or.inl h)
    by_cases hz : p.2 = z
    · exact ⟨q.1, q.2, hq.1, hq.2, fun h => hpq (hz.trans h.symm)⟩
    · exact ⟨p.1, p.2, hp.1, hp.2, hz⟩

theorem valid_all (g : Graph) (A : Nat → Bool) (W : List (Nat × Nat)) : ∀ a,
    Valid g A a W → A a = true → ∀ y ∈ a :: W.map (·.2), A y = true := by
  induction W with
  | nil => intro a _ ha y hy; simp at hy; rw [hy]; exact ha
  | cons q W ih =>
    obtain ⟨e, y0⟩ := q
    intro a h ha y hy
    rcases List.mem_cons.1 hy with hy | hy
    · rw [hy]; exact ha
    · exact ih y0 h.2.2 h.2.1 y hy

theorem grow_step (g : Graph) (hs : g.simpleB = true) (A : Nat → Bool)
    (hA : ∀ w, A w = true → w < g.n ∧ 2 ≤ ((g.adj w).filter fun p => A p.2).length)
    (a : Nat) (W : List (Nat × Nat)) (hv : Valid g A a W) (ha : A a = true)
    (hnd : (a :: W.map (·.2)).Nodup) :
    (∃ Z, EvenSet g Z ∧ Z ≠ []) ∨
    ∃ e x, Valid g A x ((e, a) :: W) ∧ A x = true ∧ (x :: a :: W.map (·.2)).Nodup := by
  cases W with
  | nil =>
    obtain ⟨e, x, hex, hAx, _⟩ := pick_other g hs A a a (hA a ha).2
    have hxa : x ≠ a := (adj_facts g hs a e x hex).2.2.2
    right
    refine ⟨e, x, ⟨mem_adj_symm g a e x hex, ha, trivial⟩, hAx, ?_⟩
    simp [hxa]
  | cons q Wt =>
    obtain ⟨e0, y0⟩ := q
    obtain ⟨e, x, hex, hAx, hxz⟩ := pick_other g hs A a y0 (hA a ha).2
    have hxa : x ≠ a := (adj_facts g hs a e x hex).2.2.2
    by_cases hmem : x ∈ ((e0, y0) :: Wt).map (·.2)
    · left
      obtain ⟨p, hpW, hpx⟩ := List.mem_map.1 hmem
      obtain ⟨W1, W2, hsplit⟩ := List.append_of_mem hpW
      have hW : (e0, y0) :: Wt = (W1 ++ [(p.1, x)]) ++ W2 := by
        rw [hsplit, List.append_assoc]
        have : p = (p.1, x) := by rw [← hpx]
        rw [this]; rfl
      have hv' : Valid g A a (W1 ++ [(p.1, x)]) := by
        have := hv; rw [hW, valid_append] at this; exact this.1
      have hC : Valid g A a ((W1 ++ [(p.1, x)]) ++ [(e, a)]) := by
        rw [valid_append, endOf_append_single]
        exact ⟨hv', mem_adj_symm g a e x hex, ha, trivial⟩
      apply closed_walk_even g A a _ hC (endOf_append_single _ _ _ _) e
      have hfalse : ∀ z ∈ (W1 ++ [(p.1, x)]).map (·.1), (z == e) = false := by
        intro z hz
        apply beq_eq_false_iff_ne.2
        intro hze
        subst hze
        have hzW : z ∈ ((e0, y0) :: Wt).map (·.1) := by
          rw [hW, List.map_append]; exact List.mem_append_left _ hz
        rw [List.map_cons, List.mem_cons] at hzW
        rcases hzW with h | h
        · have h' : (z, y0) ∈ g.adj a := by
            have := hv.1; rw [h]; exact this
          exact hxz (adj_snd_unique g hs a z x y0 hex h')
        · obtain ⟨p', hp', hp'z⟩ := List.mem_map.1 h
          have hep := walk_endpoints g A Wt y0 hv.2.2 p' hp'
          rw [hp'z] at hep
          rw [List.map_cons, List.nodup_cons] at hnd
          have hain : a ∈ y0 :: Wt.map (·.2) := by
            rcases ((mem_adj g a z x).1 hex).2 with ⟨c, _⟩ | ⟨c, _⟩
            · rw [← c]; exact hep.1
            · rw [← c]; exact hep.2
          exact hnd.1 hain
      rw [List.map_append, par_append, par_all_false _ _ hfalse]
      simp [par_cons, par_nil]
    · right
      refine ⟨e, x, ⟨mem_adj_symm g a e x hex, ha, hv⟩, hAx, ?_⟩
      rw [List.nodup_cons]
      refine ⟨?_, hnd⟩
      intro h
      rcases List.mem_cons.1 h with h | h
      · exact hxa h
      · exact hmem h

theorem grow (g : Graph) (hs : g.simpleB = true) (A : Nat → Bool)
    (hA : ∀ w, A w = true → w < g.n ∧ 2 ≤ ((g.adj w).filter fun p => A p.2).length) :
    ∀ (fuel a : Nat) (W : List (Nat × Nat)), Valid g A a W → A a = true →
      (a :: W.map (·.2)).Nodup → g.n ≤ fuel + (W.length + 1) → ∃ Z, EvenSet g Z ∧ Z ≠ [] := by
  intro fuel
  induction fuel with
  | zero =>
    intro a W hv ha hnd hlen
    rcases grow_step g hs A hA a W hv ha hnd with h | ⟨e, x, hv', hx, hnd'⟩
    · exact h
    · exfalso
      have hsub : (x :: a :: W.map (·.2)) ⊆ List.range g.n := by
        intro y hy
        have := valid_all g A _ x hv' hx y (by simpa using hy)
        exact List.mem_range.2 (hA y this).1
      have := List.Nodup.length_le_of_subset hnd' hsub
      simp at this
      omega
  | succ fuel ih =>
    intro a W hv ha hnd hlen
    rcases grow_step g hs A hA a W hv ha hnd with h | ⟨e, x, hv', hx, hnd'⟩
    · exact h
    · exact ih x ((e, a) :: W) hv' hx (by simpa using hnd') (by simp; omega)

/-- a non-empty set of vertices each of which has two neighbours inside the set spans a cycle -/
theorem min_degree_two_cycle (g : Graph) (hs : g.simpleB = true) (A : Nat → Bool)
    (hA : ∀ w, A w = true → w < g.n ∧ 2 ≤ ((g.adj w).filter fun p => A p.2).length)
    (a : Nat) (ha : A a = true) : ∃ Z, EvenSet g Z ∧ Z ≠ [] :=
  grow g hs A hA g.n a [] trivial ha (by simp) (by simp)

theorem foldl_pick_noop (g : Graph) (fuel : Nat) (s : FvsState)
    (h : ∀ v, s.isAlive v = false) (picks : List Nat) :
    picks.foldl (fvsPick g fuel) s = s := by
  induction picks with
  | nil => rfl
  | cons v r ih =>
    have : fvsPick g fuel s v = s := by unfold fvsPick; rw [h v]; rfl
    rw [List.foldl_cons, this, ih]

theorem forest_aux (g : Graph) (hs : g.simpleB = true) (picks : List Nat)
    (hf : Acyclic g (List.range g.m)) : greedyFvs g picks = [] := by
  obtain ⟨⟨⟨rank, k, hI⟩, hst⟩, hout⟩ := afterInit_good g hs
  have hdead : ∀ v, (fvsAfterInit g).isAlive v = false := by
    intro v
    cases hv : (fvsAfterInit g).isAlive v
    · rfl
    · exfalso
      obtain ⟨Z, hZ, hne⟩ := min_degree_two_cycle g hs (fvsAfterInit g).isAlive (by
        intro w hw
        refine ⟨by rw [← hI.lenA]; exact isAlive_lt _ w hw, ?_⟩
        have h1 := hI.acc w hw
        have h2 : ¬ (fvsAfterInit g).deg w ≤ 1 := by
          intro h
          have := hI.push w hw h
          rw [hst] at this; cases this
        unfold cnt at h1
        omega) v hv
      exact hne (hf Z hZ (fun e he => List.mem_range.2 (hZ.2.1 e he)))
  show (picks.foldl (fvsPick g (fvsFuel g)) (fvsAfterInit g)).out = []
  rw [foldl_pick_noop g _ _ hdead, hout]

end Parmcb.FvsL
