import Parmcb.Model.SignedAlgo
import Parmcb.Lemmas.BiSearch
import Parmcb.Lemmas.SignedGraph
import Parmcb.Lemmas.TreesAlgo
/-!
End-to-end correctness of the literal model of `mcb_sva_signed` and `mcb_sva_signed_tbb` (`Model/SignedAlgo.lean`):
the signed-graph adjacency the searches see, what a search result means in the graph, the two search loops of a phase
(all vertices / hidden-edge heuristic, sequential and under every TBB schedule), the main loop with the literal support
bookkeeping, and the composition with ForestIndex.  Core Lean only.
-/
namespace Parmcb
open Parmcb.C01 Parmcb.C02

namespace SignedAlgoL
open Parmcb.Spanner Parmcb.CertL Parmcb.SgL Parmcb.BiDijL

theorem insertByOrd_perm (ord : List Nat) (p : Nat × Nat) : ∀ l : List (Nat × Nat), (insertByOrd ord p l).Perm (p :: l)
  | [] => List.Perm.refl _
  | q :: r => by
    unfold insertByOrd
    split
    · exact List.Perm.refl _
    · exact ((insertByOrd_perm ord p r).cons q).trans (List.Perm.swap p q r)

/-- the out-edges in the caller's order are a permutation of the out-edges by edge id -/
theorem adjOrd_perm (g : Graph) (ord : List Nat) (v : Nat) : (adjOrd g ord v).Perm (g.adj v) := by
  unfold adjOrd
  induction g.adj v with
  | nil => exact List.Perm.refl _
  | cons p l ih =>
    rw [List.foldr_cons]
    exact (insertByOrd_perm ord p _).trans (ih.cons p)

theorem mem_adjOrd (g : Graph) (ord : List Nat) (v : Nat) (x : Nat × Nat) : x ∈ adjOrd g ord v ↔ x ∈ g.adj v :=
  (adjOrd_perm g ord v).mem_iff

theorem sgAdjE_size (g : Graph) (ord : List Nat) (S hidden : List Nat) : (sgAdjE g ord S hidden).size = 2 * g.n := by
  unfold sgAdjE; exact Array.size_ofFn

theorem sgAdjE_get (g : Graph) (ord : List Nat) (S hidden : List Nat) (x : Nat) (hx : x < 2 * g.n) :
    (sgAdjE g ord S hidden)[x]! =
      (adjOrd g ord (if x < g.n then x else x - g.n)).filterMap fun (e, w) =>
        if hidden.contains e then none
        else if w = (if x < g.n then x else x - g.n) then none
        else some (sgNode g.n w (if S.contains e then !(decide (x < g.n)) else decide (x < g.n)), g.weight e, e) := by
  unfold sgAdjE
  rw [getElem!_pos _ x (by rw [Array.size_ofFn]; exact hx), Array.getElem_ofFn]

theorem sgNode_lt (n a : Nat) (s : Bool) (ha : a < n) : sgNode n a s < 2 * n := by
  unfold sgNode; split <;> omega

theorem sgNode_inj (n a b : Nat) (sa sb : Bool) (ha : a < n) (hb : b < n)
    (h : sgNode n a sa = sgNode n b sb) : a = b ∧ sa = sb := by
  unfold sgNode at h
  cases sa <;> cases sb <;> simp at h <;> first | (exact ⟨h, rfl⟩) | omega

theorem mem_sgAdjE (g : Graph) (ord : List Nat) (hs : g.simpleB = true) (S hidden : List Nat) (a : Nat) (s : Bool) (ha : a < g.n)
    (y : Nat) (c : Int) (e : Nat) :
    (y, c, e) ∈ (sgAdjE g ord S hidden)[sgNode g.n a s]! ↔
      e < g.m ∧ e ∉ hidden ∧ c = g.weight e ∧ ∃ b, Jn g e a b ∧ y = sgNode g.n b (xor s (S.contains e)) := by
  rw [sgAdjE_get g ord S hidden _ (sgNode_lt g.n a s ha)]
  have hv : (if sgNode g.n a s < g.n then sgNode g.n a s else sgNode g.n a s - g.n) = a := by
    unfold sgNode; cases s
    · simp only [Bool.false_eq_true, if_false]; rw [if_neg (by omega)]; omega
    · simp only [if_true]; rw [if_pos ha]
  have hd : decide (sgNode g.n a s < g.n) = s := by
    unfold sgNode; cases s
    · simp only [Bool.false_eq_true, if_false, decide_eq_false_iff_not]; omega
    · simp only [if_true, decide_eq_true_eq]; exact ha
  rw [hv, hd, List.mem_filterMap]
  constructor
  · rintro ⟨⟨e', w⟩, hmem, h⟩
    rw [mem_adjOrd, mem_adj] at hmem
    simp only at h
    split at h
    · cases h
    · rename_i hh
      split at h
      · cases h
      · simp only [Option.some.injEq, Prod.mk.injEq] at h
        obtain ⟨h1, h2, h3⟩ := h
        subst h3
        refine ⟨hmem.1, by simpa using hh, h2.symm, w, ?_, ?_⟩
        · rcases hmem.2 with ⟨p, q⟩ | ⟨p, q⟩
          · exact Or.inl ⟨p, q.symm⟩
          · exact Or.inr ⟨p, q.symm⟩
        · rw [← h1]; congr 1; cases s <;> cases S.contains e' <;> rfl
  · rintro ⟨hem, hh, hc, b, hj, hy⟩
    have hf := simpleB_facts g hs e hem
    refine ⟨(e, b), (mem_adjOrd g ord a (e, b)).2 ((mem_adj g a e b).2 ⟨hem, ?_⟩), ?_⟩
    · rcases hj with ⟨p, q⟩ | ⟨p, q⟩
      · exact Or.inl ⟨p, q.symm⟩
      · exact Or.inr ⟨p, q.symm⟩
    · have hba : b ≠ a := by
        rcases hj with ⟨p, q⟩ | ⟨p, q⟩ <;> omega
      have hh' : hidden.contains e = false := by simpa using hh
      simp only [hh', hba, if_false, Bool.false_eq_true]
      rw [hy, hc]; congr 3; cases s <;> cases S.contains e <;> rfl

theorem exists_sgNode (n x : Nat) (hx : x < 2 * n) : ∃ a s, a < n ∧ x = sgNode n a s := by
  by_cases h : x < n
  · exact ⟨x, true, h, rfl⟩
  · refine ⟨x - n, false, by omega, ?_⟩
    unfold sgNode; simp only [Bool.false_eq_true, if_false]; omega

theorem projAdj_size (adjE : Array (List (Nat × Int × Nat))) : (projAdj adjE).size = adjE.size := by
  unfold projAdj; exact Array.size_map

theorem projAdj_get (adjE : Array (List (Nat × Int × Nat))) (u : Nat) :
    (projAdj adjE)[u]! = (adjE[u]!).map fun p => (p.1, p.2.1) := by
  unfold projAdj
  by_cases h : u < adjE.size
  · rw [getElem!_pos _ u (by rw [Array.size_map]; exact h), getElem!_pos adjE u h, Array.getElem_map]
  · rw [getElem!_neg _ u (by rw [Array.size_map]; exact h), getElem!_neg adjE u h]; rfl

theorem jn_lt (g : Graph) (hs : g.simpleB = true) (e a b : Nat) (he : e < g.m) (hj : Jn g e a b) :
    a < g.n ∧ b < g.n ∧ a ≠ b := by
  have hf := simpleB_facts g hs e he
  rcases hj with ⟨p, q⟩ | ⟨p, q⟩ <;> (subst p; subst q; refine ⟨?_, ?_, ?_⟩ <;> omega)

/-- the adjacency the searches run on is a well-formed edge-labelled undirected graph on `2n` signed nodes -/
theorem sgAdjE_ok (g : Graph) (ord : List Nat) (hs : g.simpleB = true) (hp : g.positiveB = true) (S hidden : List Nat) :
    AdjEOK (sgAdjE g ord S hidden) g.weight ∧ (sgAdjE g ord S hidden).size = 2 * g.n := by
  refine ⟨⟨⟨?_, ?_, ?_⟩, ?_, ?_⟩, sgAdjE_size g ord S hidden⟩
  · intro u hu p hp'
    rw [projAdj_size, sgAdjE_size] at hu ⊢
    rw [projAdj_get, List.mem_map] at hp'
    obtain ⟨⟨y, c, e⟩, hq, rfl⟩ := hp'
    obtain ⟨a, s, ha, rfl⟩ := exists_sgNode g.n u hu
    obtain ⟨hem, _, _, b, hj, rfl⟩ := (mem_sgAdjE g ord hs S hidden a s ha y c e).1 hq
    exact sgNode_lt _ _ _ (jn_lt g hs e a b hem hj).2.1
  · intro u hu p hp'
    rw [projAdj_size, sgAdjE_size] at hu
    rw [projAdj_get, List.mem_map] at hp'
    obtain ⟨⟨y, c, e⟩, hq, rfl⟩ := hp'
    obtain ⟨a, s, ha, rfl⟩ := exists_sgNode g.n u hu
    obtain ⟨hem, _, rfl, _⟩ := (mem_sgAdjE g ord hs S hidden a s ha y c e).1 hq
    exact positiveB_facts g hp e hem
  · intro u hu p hp'
    rw [projAdj_size, sgAdjE_size] at hu
    rw [projAdj_get, List.mem_map] at hp' ⊢
    obtain ⟨⟨y, c, e⟩, hq, rfl⟩ := hp'
    obtain ⟨a, s, ha, rfl⟩ := exists_sgNode g.n u hu
    obtain ⟨hem, hh, rfl, b, hj, rfl⟩ := (mem_sgAdjE g ord hs S hidden a s ha y c e).1 hq
    refine ⟨(sgNode g.n a s, g.weight e, e), ?_, rfl⟩
    rw [mem_sgAdjE g ord hs S hidden b _ (jn_lt g hs e a b hem hj).2.1]
    refine ⟨hem, hh, rfl, a, hj.symm, ?_⟩
    congr 1; cases s <;> cases S.contains e <;> rfl
  · intro u hu p hp'
    rw [sgAdjE_size] at hu
    obtain ⟨y, c, e⟩ := p
    obtain ⟨a, s, ha, rfl⟩ := exists_sgNode g.n u hu
    obtain ⟨_, _, rfl, _⟩ := (mem_sgAdjE g ord hs S hidden a s ha y c e).1 hp'
    rfl
  · intro u hu p hp'
    rw [sgAdjE_size] at hu
    obtain ⟨y, c, e⟩ := p
    obtain ⟨a, s, ha, rfl⟩ := exists_sgNode g.n u hu
    obtain ⟨hem, hh, rfl, b, hj, rfl⟩ := (mem_sgAdjE g ord hs S hidden a s ha y c e).1 hp'
    show (sgNode g.n a s, g.weight e, e) ∈ _
    rw [mem_sgAdjE g ord hs S hidden b _ (jn_lt g hs e a b hem hj).2.1]
    refine ⟨hem, hh, rfl, a, hj.symm, ?_⟩
    congr 1; cases s <;> cases S.contains e <;> rfl

theorem levelAfter_nil (S : List Nat) (s : Bool) : levelAfter S s [] = s := by
  unfold levelAfter; rw [par_nil, Bool.xor_false]

theorem levelAfter_cons (S : List Nat) (s : Bool) (e : Nat) (es : List Nat) :
    levelAfter S s (e :: es) = levelAfter S (xor s (S.contains e)) es := by
  unfold levelAfter; rw [par_cons, Bool.xor_assoc]

theorem ewalk_to_walk_aux (g : Graph) (ord : List Nat) (hs : g.simpleB = true) (S hidden : List Nat) (x y : Nat) (es : List Nat)
    (h : EWalk (sgAdjE g ord S hidden) x y es) :
    ∀ (a b : Nat) (sa sb : Bool), a < g.n → b < g.n → x = sgNode g.n a sa → y = sgNode g.n b sb →
      (∀ e ∈ es, e < g.m ∧ e ∉ hidden) ∧ isWalk g es a b = true ∧ levelAfter S sa es = sb := by
  induction h with
  | nil x hx =>
    intro a b sa sb ha hb h1 h2
    obtain ⟨rfl, rfl⟩ := sgNode_inj g.n a b sa sb ha hb (h1.symm.trans h2)
    exact ⟨fun e he => (by cases he), (isWalk_nil g a a).2 rfl, levelAfter_nil S sa⟩
  | @cons x v y c e es hx hmem r ih =>
    intro a b sa sb ha hb h1 h2
    subst h1
    obtain ⟨hem, hh, _, d, hj, rfl⟩ := (mem_sgAdjE g ord hs S hidden a sa ha v c e).1 hmem
    obtain ⟨i1, i2, i3⟩ := ih d b _ sb (jn_lt g hs e a d hem hj).2.1 hb rfl h2
    refine ⟨?_, (isWalk_cons g e es a b).2 ⟨d, hj, i2⟩, by rw [levelAfter_cons]; exact i3⟩
    intro f hf
    rcases List.mem_cons.1 hf with rfl | hf
    · exact ⟨hem, hh⟩
    · exact i1 f hf

/-- a walk in the signed graph is a walk in `g` that avoids the hidden edges and changes level once per signed edge … -/
theorem ewalk_to_walk (g : Graph) (ord : List Nat) (hs : g.simpleB = true) (S hidden : List Nat) (a b : Nat) (sa sb : Bool)
    (ha : a < g.n) (hb : b < g.n) (es : List Nat)
    (h : EWalk (sgAdjE g ord S hidden) (sgNode g.n a sa) (sgNode g.n b sb) es) :
    (∀ e ∈ es, e < g.m ∧ e ∉ hidden) ∧ isWalk g es a b = true ∧ levelAfter S sa es = sb :=
  ewalk_to_walk_aux g ord hs S hidden _ _ es h a b sa sb ha hb rfl rfl

/-- … and conversely -/
theorem walk_to_ewalk (g : Graph) (ord : List Nat) (hs : g.simpleB = true) (S hidden : List Nat) (a b : Nat) (sa : Bool)
    (ha : a < g.n) (es : List Nat) (hes : ∀ e ∈ es, e < g.m ∧ e ∉ hidden) (hw : isWalk g es a b = true) :
    EWalk (sgAdjE g ord S hidden) (sgNode g.n a sa) (sgNode g.n b (levelAfter S sa es)) es := by
  induction es generalizing a sa with
  | nil =>
    rw [isWalk_nil] at hw; subst hw
    rw [levelAfter_nil]
    exact EWalk.nil _ (by rw [sgAdjE_size]; exact sgNode_lt _ _ _ ha)
  | cons e r ih =>
    rw [isWalk_cons] at hw
    obtain ⟨d, hj, hw⟩ := hw
    have he := hes e List.mem_cons_self
    have hd := (jn_lt g hs e a d he.1 hj).2.1
    rw [levelAfter_cons]
    refine EWalk.cons (c := g.weight e) (by rw [sgAdjE_size]; exact sgNode_lt _ _ _ ha) ?_
      (ih d _ hd (fun f hf => hes f (List.mem_cons_of_mem _ hf)) hw)
    exact (mem_sgAdjE g ord hs S hidden a sa ha _ _ e).2 ⟨he.1, he.2, rfl, d, hj, rfl⟩

theorem ewalk_adjwalk (adjE : Array (List (Nat × Int × Nat))) (wOf : Nat → Int) (h : AdjEOK adjE wOf)
    {s t : Nat} {es : List Nat} (hw : EWalk adjE s t es) : AdjWalk (projAdj adjE) s t (es.map wOf).sum := by
  induction hw with
  | nil a ha => exact AdjWalk.nil a (by rw [projAdj_size]; exact ha)
  | @cons a v b c e es ha hmem r ih =>
    rw [List.map_cons, List.sum_cons, h.wt a ha _ hmem]
    refine AdjWalk.cons (by rw [projAdj_size]; exact ha) ?_ ih
    rw [projAdj_get, List.mem_map]
    exact ⟨(v, c, e), hmem, rfl⟩

theorem adjwalk_ewalk (adjE : Array (List (Nat × Int × Nat))) (wOf : Nat → Int) (h : AdjEOK adjE wOf)
    {s t : Nat} {D : Int} (hw : AdjWalk (projAdj adjE) s t D) :
    ∃ es, EWalk adjE s t es ∧ (es.map wOf).sum = D := by
  induction hw with
  | nil a ha => exact ⟨[], EWalk.nil a (by rw [projAdj_size] at ha; exact ha), rfl⟩
  | @cons a v b c D ha hmem r ih =>
    obtain ⟨es, h1, h2⟩ := ih
    rw [projAdj_size] at ha
    rw [projAdj_get, List.mem_map] at hmem
    obtain ⟨⟨v', c', e⟩, hq, heq⟩ := hmem
    simp only [Prod.mk.injEq] at heq
    obtain ⟨rfl, rfl⟩ := heq
    refine ⟨e :: es, EWalk.cons ha hq h1, ?_⟩
    rw [List.map_cons, List.sum_cons, h2, h.wt a ha _ hq]

def WalkSpec (g : Graph) (S hid : List Nat) (a : Nat) (sa : Bool) (b : Nat) (sb : Bool) (es : List Nat) : Prop :=
  (∀ e ∈ es, e < g.m ∧ e ∉ hid) ∧ isWalk g es a b = true ∧ levelAfter S sa es = sb

theorem sgNode_ne (n a b : Nat) (sa sb : Bool) (h : a ≠ b ∨ sa ≠ sb) (ha : a < n) (hb : b < n) :
    sgNode n a sa ≠ sgNode n b sb := by
  intro he
  obtain ⟨h1, h2⟩ := sgNode_inj n a b sa sb ha hb he
  rcases h with h | h
  · exact h h1
  · exact h h2

theorem search_sound (g : Graph) (ord : List Nat) (hs : g.simpleB = true) (hp : g.positiveB = true)
    (pick : Pick) (hpick : PickOK pick) (S hid : List Nat) (a : Nat) (sa : Bool) (b : Nat) (sb : Bool)
    (ha : a < g.n) (hb : b < g.n) (hne : a ≠ b ∨ sa ≠ sb) (L : Option Int) (w : Int) (Z : List Nat)
    (hres : searchSigned g ord pick S hid a sa b sb L = some (w, Z)) :
    ∃ es, WalkSpec g S hid a sa b sb es ∧ es.Nodup ∧ Z = setOf es ∧ w = listW g es ∧
      (∀ es', WalkSpec g S hid a sa b sb es' → w ≤ listW g es') ∧ Below L w := by
  obtain ⟨hok, hsz⟩ := sgAdjE_ok g ord hs hp S hid
  obtain ⟨es, h1, h2, h3, h4, h5, h6⟩ := biSearch_sound _ _ hok pick hpick L _ _
    (by rw [hsz]; exact sgNode_lt _ _ _ ha) (by rw [hsz]; exact sgNode_lt _ _ _ hb)
    (sgNode_ne _ _ _ _ _ hne ha hb) w Z hres
  refine ⟨es, ewalk_to_walk g ord hs S hid a b sa sb ha hb es h1, h2, h3, h4, ?_, h6⟩
  intro es' hes'
  have hw := walk_to_ewalk g ord hs S hid a b sa ha es' hes'.1 hes'.2.1
  rw [hes'.2.2] at hw
  exact h5.2 _ (ewalk_adjwalk _ _ hok hw)

theorem search_complete (g : Graph) (ord : List Nat) (hs : g.simpleB = true) (hp : g.positiveB = true)
    (pick : Pick) (hpick : PickOK pick) (S hid : List Nat) (a : Nat) (sa : Bool) (b : Nat) (sb : Bool)
    (ha : a < g.n) (hb : b < g.n) (hne : a ≠ b ∨ sa ≠ sb) (L : Option Int) (es0 : List Nat)
    (h0 : WalkSpec g S hid a sa b sb es0)
    (hmin : ∀ es', WalkSpec g S hid a sa b sb es' → listW g es0 ≤ listW g es') (hl : Below L (listW g es0)) :
    (∃ Z, searchSigned g ord pick S hid a sa b sb L = some (listW g es0, Z)) ∨
    (searchSigned g ord pick S hid a sa b sb L = none ∧
      ∃ es, WalkSpec g S hid a sa b sb es ∧ listW g es = listW g es0 ∧ ¬ es.Nodup) := by
  obtain ⟨hok, hsz⟩ := sgAdjE_ok g ord hs hp S hid
  have hw0 := walk_to_ewalk g ord hs S hid a b sa ha es0 h0.1 h0.2.1
  rw [h0.2.2] at hw0
  have hD : IsDist (projAdj (sgAdjE g ord S hid)) (sgNode g.n a sa) (sgNode g.n b sb) (listW g es0) := by
    refine ⟨ewalk_adjwalk _ _ hok hw0, ?_⟩
    intro D' hD'
    obtain ⟨es', h1, h2⟩ := adjwalk_ewalk _ _ hok hD'
    rw [← h2]
    exact hmin es' (ewalk_to_walk g ord hs S hid a b sa sb ha hb es' h1)
  rcases biSearch_complete _ _ hok pick hpick L _ _
    (by rw [hsz]; exact sgNode_lt _ _ _ ha) (by rw [hsz]; exact sgNode_lt _ _ _ hb)
    (sgNode_ne _ _ _ _ _ hne ha hb) _ hD hl with h | ⟨h1, es, h2, h3, h4⟩
  · exact Or.inl h
  · exact Or.inr ⟨h1, es, ewalk_to_walk g ord hs S hid a b sa sb ha hb es h2, h3, h4⟩

theorem listW_nonneg (g : Graph) (hp : g.positiveB = true) (es : List Nat) (h : ∀ e ∈ es, e < g.m) : 0 ≤ listW g es :=
  wt_nonneg g hp es h

theorem walk_min_exists (g : Graph) (P : List Nat → Prop) (hnn : ∀ es, P es → 0 ≤ listW g es) (es : List Nat)
    (h : P es) : ∃ es0, P es0 ∧ listW g es0 ≤ listW g es ∧ ∀ es', P es' → listW g es0 ≤ listW g es' := by
  have key : ∀ n : Nat, ∀ es, P es → (listW g es).toNat = n →
      ∃ es0, P es0 ∧ listW g es0 ≤ listW g es ∧ ∀ es', P es' → listW g es0 ≤ listW g es' := by
    intro n
    induction n using Nat.strongRecOn with
    | _ n ih =>
      intro es hes hn
      by_cases hex : ∃ es', P es' ∧ listW g es' < listW g es
      · obtain ⟨es', h1, h2⟩ := hex
        have h3 := hnn es' h1
        obtain ⟨es0, i1, i2, i3⟩ := ih (listW g es').toNat (by omega) es' h1 rfl
        exact ⟨es0, i1, by omega, i3⟩
      · refine ⟨es, hes, Int.le_refl _, ?_⟩
        intro es' h1
        apply Classical.byContradiction
        intro hlt
        exact hex ⟨es', h1, by omega⟩
  exact key _ es h rfl

/-! ### closed trails and repeated edges -/

theorem closed_trail_odd (g : Graph) (S : List Nat) (hS : StrictSorted S) (v : Nat) (es : List Nat)
    (hnd : es.Nodup) (hm : ∀ e ∈ es, e < g.m) (hw : isWalk g es v v = true)
    (hodd : par es (fun e => S.contains e) = true) :
    EvenSet g (setOf es) ∧ dotPar (setOf es) S = true ∧ wt g (setOf es) = listW g es := by
  refine ⟨⟨setOf_sorted _, fun e he => hm e ((mem_setOf _ e).1 he), ?_⟩, ?_, wt_setOf g es hnd⟩
  · intro x
    rw [par_setOf _ hnd, walk_boundary g es v v hw x]
    cases (x == v) <;> rfl
  · rw [dotPar_eq_par _ _ (setOf_sorted _) hS, par_setOf _ hnd, contains_fun]
    exact hodd

theorem wt_xorMerge_single (g : Graph) (e : Nat) :
    ∀ R : List Nat, StrictSorted R →
      wt g (xorMerge [e] R) = if e ∈ R then wt g R - g.weight e else wt g R + g.weight e := by
  intro R
  induction R with
  | nil => intro _; rw [xorMerge_nil_right, wt_cons, if_neg (by simp)]; omega
  | cons y b ih =>
    intro hR
    unfold xorMerge
    by_cases h1 : e > y
    · rw [if_pos h1, wt_cons, wt_cons, ih hR.tail]
      have : (e ∈ y :: b) ↔ e ∈ b := by
        rw [List.mem_cons]; constructor
        · rintro (h | h)
          · omega
          · exact h
        · exact Or.inr
      by_cases h2 : e ∈ b
      · rw [if_pos h2, if_pos (this.2 h2)]; omega
      · rw [if_neg h2, if_neg (fun h => h2 (this.1 h))]; omega
    · rw [if_neg h1]
      by_cases h2 : e < y
      · rw [if_pos h2, xorMerge_nil_left, wt_cons]
        have : e ∉ y :: b := by
          intro h
          rcases List.mem_cons.1 h with h | h
          · omega
          · have := hR.head_lt e h; omega
        rw [if_neg this]; omega
      · rw [if_neg h2, xorMerge_nil_left, wt_cons]
        have : e = y := by omega
        subst this
        rw [if_pos List.mem_cons_self]; omega

theorem red_missing (g : Graph) : ∀ es : List Nat, (∀ e ∈ es, 0 ≤ g.weight e) →
    ∀ x, x ∈ es → x ∉ red es → wt g (red es) + g.weight x ≤ wt g es
  | [], _, x, hx, _ => by cases hx
  | e :: r, h, x, hx, hnx => by
    have hr : ∀ f ∈ r, 0 ≤ g.weight f := fun f hf => h f (List.mem_cons_of_mem _ hf)
    have he := h e List.mem_cons_self
    have hle := red_wt g r hr
    have hmem := mem_xorMerge [e] (red r) trivial (red_sorted r)
    change x ∉ xorMerge [e] (red r) at hnx
    show wt g (xorMerge [e] (red r)) + _ ≤ _
    rw [wt_xorMerge_single g e _ (red_sorted r), wt_cons]
    by_cases heR : e ∈ red r
    · rw [if_pos heR]
      by_cases hxe : x = e
      · subst hxe; omega
      · have hxr : x ∈ r := by
          rcases List.mem_cons.1 hx with h1 | h1
          · exact absurd h1 hxe
          · exact h1
        have hxR : x ∉ red r := by
          intro hxR
          apply hnx
          rw [hmem]
          simp [hxe, hxR]
        have := red_missing g r hr x hxr hxR
        omega
    · rw [if_neg heR]
      have hxe : x ≠ e := by
        intro hxe; subst hxe
        apply hnx; rw [hmem]; simp [heR]
      have hxr : x ∈ r := by
        rcases List.mem_cons.1 hx with h1 | h1
        · exact absurd h1 hxe
        · exact h1
      have hxR : x ∉ red r := by
        intro hxR
        apply hnx
        rw [hmem]
        simp [hxe, hxR]
      have := red_missing g r hr x hxr hxR
      omega

theorem red_lt (g : Graph) : ∀ es : List Nat, (∀ e ∈ es, 0 < g.weight e) → ¬ es.Nodup → wt g (red es) < wt g es
  | [], _, hn => absurd List.nodup_nil hn
  | e :: r, h, hn => by
    have hr : ∀ f ∈ r, 0 < g.weight f := fun f hf => h f (List.mem_cons_of_mem _ hf)
    have hr' : ∀ f ∈ r, 0 ≤ g.weight f := fun f hf => Int.le_of_lt (hr f hf)
    have he := h e List.mem_cons_self
    have hle := red_wt g r hr'
    show wt g (xorMerge [e] (red r)) < _
    rw [wt_cons]
    by_cases hrn : r.Nodup
    · have her : e ∈ r := by
        apply Classical.byContradiction
        intro her
        exact hn (List.nodup_cons.2 ⟨her, hrn⟩)
      rw [wt_xorMerge_single g e _ (red_sorted r)]
      by_cases heR : e ∈ red r
      · rw [if_pos heR]; omega
      · rw [if_neg heR]
        have := red_missing g r hr' e her heR
        omega
    · have := red_lt g r hr hrn
      have := wt_xorMerge_single_le g e (Int.le_of_lt he) (red r)
      omega

/-- a level-changing closed walk that repeats an edge is strictly heavier than some odd element of the cycle space -/
theorem repeated_edge_lighter (g : Graph) (hp : g.positiveB = true) (S : List Nat) (hS : StrictSorted S) (v : Nat)
    (es : List Nat) (hm : ∀ e ∈ es, e < g.m) (hw : isWalk g es v v = true)
    (hodd : par es (fun e => S.contains e) = true) (hn : ¬ es.Nodup) :
    ∃ Z, EvenSet g Z ∧ dotPar Z S = true ∧ wt g Z < listW g es := by
  refine ⟨red es, ⟨red_sorted es, fun e h => hm e (red_mem es e h), ?_⟩, ?_, ?_⟩
  · intro x
    rw [red_par, walk_boundary g es v v hw x]
    cases (x == v) <;> rfl
  · rw [dotPar_eq_par _ _ (red_sorted es) hS, red_par, contains_fun]
    exact hodd
  · exact red_lt g es (fun e he => positiveB_facts g hp e (hm e he)) hn

/-- the outcome of a phase's search: a minimum-weight odd element of the cycle space, reported with its true weight -/
def PhaseFound (g : Graph) (S : List Nat) (r : Cyc (List Nat)) : Prop :=
  ∃ w Z, r = some (w, Z) ∧ PhaseOK g 1 S Z ∧ w = wt g Z

/-! ### what survives a minimum reduction -/

theorem takeBetter_pred {C : Type} (Q : Int × C → Prop) {run res : Cyc C} (h1 : ∀ r, run = some r → Q r)
    (h2 : ∀ r, res = some r → Q r) : ∀ r, takeBetter run res = some r → Q r := by
  cases run <;> cases res <;> simp only [takeBetter] <;> try assumption
  split <;> assumption

theorem cycleMin_pred {C : Type} (Q : Int × C → Prop) {a b : Cyc C} (h1 : ∀ r, a = some r → Q r)
    (h2 : ∀ r, b = some r → Q r) : ∀ r, cycleMin a b = some r → Q r := by
  cases a <;> cases b <;> simp only [cycleMin] <;> try assumption
  split <;> assumption

theorem minFold_pred {C : Type} (Q : Int × C → Prop) {srch : Nat → Option Int → Cyc C} {lo hi : Nat}
    (hsr : ∀ i L r, lo ≤ i → i < hi → srch i L = some r → Q r)
    (is : List Nat) (his : ∀ i ∈ is, lo ≤ i ∧ i < hi) (x : Cyc C) (hx : ∀ r, x = some r → Q r) :
    ∀ r, minFold srch is x = some r → Q r := by
  induction is generalizing x with
  | nil => exact hx
  | cons i is ih =>
    rw [minFold_cons]
    have hi' := his i List.mem_cons_self
    exact ih (fun j hj => his j (List.mem_cons_of_mem _ hj)) _
      (takeBetter_pred Q hx (fun r hr => hsr i _ r hi'.1 hi'.2 hr))

theorem evalReduce_pred {C : Type} (Q : Int × C → Prop) {srch : Nat → Option Int → Cyc C} {lo hi : Nat}
    (hsr : ∀ i L r, lo ≤ i → i < hi → srch i L = some r → Q r)
    {s : Sched} {a b : Nat} (hs : s.Covers a b) (ha : lo ≤ a) (hb : b ≤ hi)
    (x : Cyc C) (hx : ∀ r, x = some r → Q r) :
    ∀ r, evalReduce (minBody srch) cycleMin none s x = some r → Q r := by
  induction hs generalizing x with
  | leaf a b hab =>
    simp only [evalReduce, minBody_eq]
    exact minFold_pred Q hsr _ (fun i hi' => by rw [range'_sub_mem] at hi'; omega) x hx
  | @seq l r a mid b hl hr ihl ihr =>
    have h1 := hl.le
    have h2 := hr.le
    simp only [evalReduce]
    exact ihr (by omega) hb _ (ihl ha (by omega) x hx)
  | @fork l r a mid b hl hr ihl ihr =>
    have h1 := hl.le
    have h2 := hr.le
    simp only [evalReduce]
    exact cycleMin_pred Q (ihl ha (by omega) x hx) (ihr (by omega) hb none (fun r hr => by cases hr))

theorem reduceMin_pred {C : Type} (Q : Int × C → Prop) {srch : Nat → Option Int → Cyc C} {lo hi : Nat}
    (hsr : ∀ i L r, lo ≤ i → i < hi → srch i L = some r → Q r)
    {s : Sched} (hs : s.Covers lo hi) : ∀ r, reduceMin srch s = some r → Q r :=
  evalReduce_pred Q hsr hs (Nat.le_refl _) (Nat.le_refl _) none (fun r hr => by cases hr)

theorem seqMin_pred {C : Type} (Q : Int × C → Prop) {srch : Nat → Option Int → Cyc C} {lo hi : Nat}
    (hsr : ∀ i L r, lo ≤ i → i < hi → srch i L = some r → Q r) :
    ∀ r, seqMin srch lo hi = some r → Q r :=
  minFold_pred Q hsr _ (fun i hi' => by rw [range'_sub_mem] at hi'; omega) none (fun r hr => by cases hr)

/-- what every search result of a phase is: an odd element of the cycle space with its true weight -/
def OddRes (g : Graph) (S : List Nat) (r : Int × List Nat) : Prop :=
  EvenSet g r.2 ∧ dotPar r.2 S = true ∧ r.1 = wt g r.2

theorem phaseFound_of (g : Graph) (S C : List Nat) (hC : PhaseOK g 1 S C) (x : Cyc (List Nat))
    (hw : cycW x = some (wt g C)) (hQ : ∀ r, x = some r → OddRes g S r) : PhaseFound g S x := by
  cases x with
  | none => cases hw
  | some r =>
    obtain ⟨w, Z⟩ := r
    obtain ⟨h1, h2, h3⟩ := hQ _ rfl
    simp only [cycW, Option.map_some, Option.some.injEq] at hw
    simp only at h1 h2 h3
    refine ⟨w, Z, rfl, ⟨h1, h2, ?_⟩, h3⟩
    intro Z' hZ' ho
    have := hC.2.2 Z' hZ' ho
    omega

/-- general shape of a phase: searches that are sound, one of which is complete -/
theorem phase_seq (g : Graph) (S C : List Nat) (hC : PhaseOK g 1 S C) (srch : Nat → Option Int → Cyc (List Nat))
    (hi : Nat) (hsound : ∀ i L r, i < hi → srch i L = some r → OddRes g S r)
    (hcomplete : ∃ i, i < hi ∧ ∀ L, (∀ l, L = some l → wt g C < l) → ∃ c, srch i L = some (wt g C, c)) :
    PhaseFound g S (seqMin srch 0 hi) := by
  apply phaseFound_of g S C hC
  · apply seqMin_w
    · intro i L r _ h2 h3
      obtain ⟨q1, q2, q3⟩ := hsound i L r h2 h3
      have := hC.2.2 _ q1 q2
      omega
    · obtain ⟨i, h1, h2⟩ := hcomplete
      exact ⟨i, Nat.zero_le _, h1, h2⟩
  · exact seqMin_pred _ (fun i L r _ h2 h3 => hsound i L r h2 h3)

theorem phase_tbb (g : Graph) (S C : List Nat) (hC : PhaseOK g 1 S C) (srch : Nat → Option Int → Cyc (List Nat))
    (hi : Nat) (hsound : ∀ i L r, i < hi → srch i L = some r → OddRes g S r)
    (hcomplete : ∃ i, i < hi ∧ ∀ L, (∀ l, L = some l → wt g C < l) → ∃ c, srch i L = some (wt g C, c))
    (s : Sched) (hcov : s.Covers 0 hi) : PhaseFound g S (reduceMin srch s) := by
  apply phaseFound_of g S C hC
  · apply reduceMin_w (lo := 0) (hi := hi)
    · intro i L r _ h2 h3
      obtain ⟨q1, q2, q3⟩ := hsound i L r h2 h3
      have := hC.2.2 _ q1 q2
      omega
    · obtain ⟨i, h1, h2⟩ := hcomplete
      exact ⟨i, Nat.zero_le _, h1, h2⟩
    · exact hcov
  · exact reduceMin_pred _ (fun i L r _ h2 h3 => hsound i L r h2 h3) hcov

/-! ### the all-vertices searches -/

theorem allv_sound (g : Graph) (ord : List Nat) (hs : g.simpleB = true) (hp : g.positiveB = true)
    (pk : PickFam) (hpk : ∀ i L, PickOK (pk i L)) (S : List Nat) (hS : StrictSorted S)
    (v : Nat) (hv : v < g.n) (L : Option Int) (r : Int × List Nat)
    (h : searchSigned g ord (pk v L) S [] v true v false L = some r) : OddRes g S r := by
  obtain ⟨w, Z⟩ := r
  obtain ⟨es, h1, h2, rfl, rfl, _, _⟩ :=
    search_sound g ord hs hp (pk v L) (hpk v L) S [] v true v false hv hv (Or.inr (by decide)) L w Z h
  obtain ⟨q1, q2, q3⟩ := closed_trail_odd g S hS v es h2 (fun e he => (h1.1 e he).1) h1.2.1 (level_odd h1.2.2)
  exact ⟨q1, q2, q3.symm⟩

theorem allv_complete (g : Graph) (ord : List Nat) (hs : g.simpleB = true) (hp : g.positiveB = true)
    (pk : PickFam) (hpk : ∀ i L, PickOK (pk i L)) (S : List Nat) (hS : StrictSorted S)
    (C : List Nat) (hC : PhaseOK g 1 S C) :
    ∃ v, v < g.n ∧ ∀ L, (∀ l, L = some l → wt g C < l) →
      ∃ c, searchSigned g ord (pk v L) S [] v true v false L = some (wt g C, c) := by
  obtain ⟨v, es, hv, hsub, _, hw, hlev, hwt⟩ := evenset_to_signed_walk g hs hp S hS C hC.1 hC.2.1
  refine ⟨v, hv, ?_⟩
  intro L hL
  have hP : WalkSpec g S [] v true v false es :=
    ⟨fun e he => ⟨hC.1.2.1 e (hsub e he), by simp⟩, hw, hlev⟩
  obtain ⟨es0, i1, i2, i3⟩ := walk_min_exists g (WalkSpec g S [] v true v false)
    (fun es' h' => listW_nonneg g hp es' (fun e he => (h'.1 e he).1)) es hP
  have hlow : ∀ es', WalkSpec g S [] v true v false es' → wt g C ≤ listW g es' := by
    intro es' h'
    obtain ⟨Z, hZ, ho, hle⟩ := signed_walk_to_evenset g hs hp S hS v es' (fun e he => (h'.1 e he).1) h'.2.1 h'.2.2
    have := hC.2.2 Z hZ ho
    omega
  have heq : listW g es0 = wt g C := by
    have := hlow es0 i1
    omega
  rcases search_complete g ord hs hp (pk v L) (hpk v L) S [] v true v false hv hv (Or.inr (by decide)) L es0 i1 i3
    (fun l hl => by rw [heq]; exact hL l hl) with ⟨Z, hZ⟩ | ⟨_, es2, j1, j2, j3⟩
  · exact ⟨Z, by rw [← heq]; exact hZ⟩
  · exfalso
    obtain ⟨Z, hZ, ho, hlt⟩ := repeated_edge_lighter g hp S hS v es2 (fun e he => (j1.1 e he).1) j1.2.1
      (level_odd j1.2.2) j3
    have := hC.2.2 Z hZ ho
    omega

/-! ### the hidden-edge searches -/

theorem setOf_snoc (es : List Nat) (e : Nat) : setOf (es ++ [e]) = setInsert e (setOf es) := by
  unfold setOf
  rw [List.foldl_append]
  rfl

theorem listW_snoc (g : Graph) (es : List Nat) (e : Nat) : listW g (es ++ [e]) = listW g es + g.weight e := by
  rw [listW_eq_wt, listW_eq_wt, wt_app, wt_cons, wt_nil]; omega

theorem mem_drop_of_getElem? {σ : List Nat} {j e : Nat} (h : σ[j]? = some e) : e ∈ σ.drop j := by
  apply List.mem_of_getElem? (i := 0)
  rw [List.getElem?_drop, Nat.add_zero]
  exact h

/-- the closed walk `es ++ [e]` of a hidden-edge search -/
theorem hidden_closed (g : Graph) (S : List Nat) (e : Nat) (heS : e ∈ S) (hem : e < g.m) (es : List Nat)
    (hes : ∀ f ∈ es, f < g.m) (hw : isWalk g es (g.src e) (g.tgt e) = true) (hlev : levelAfter S true es = true) :
    (∀ f ∈ es ++ [e], f < g.m) ∧ isWalk g (es ++ [e]) (g.src e) (g.src e) = true ∧
      par (es ++ [e]) (fun f => S.contains f) = true := by
  refine ⟨?_, isWalk_snoc g es e _ _ _ hw (Or.inr ⟨rfl, rfl⟩), ?_⟩
  · intro f hf
    rcases List.mem_append.1 hf with h | h
    · exact hes f h
    · rw [List.mem_singleton] at h; subst h; exact hem
  · rw [par_app, level_even hlev, par_cons, par_nil, List.contains_iff_mem.2 heS]; rfl

theorem hid_sound (g : Graph) (ord : List Nat) (hs : g.simpleB = true) (hp : g.positiveB = true)
    (pk : PickFam) (hpk : ∀ i L, PickOK (pk i L)) (S : List Nat) (hS : StrictSorted S) (hSm : ∀ e ∈ S, e < g.m)
    (σ : List Nat) (hσ : σ.Perm S) (i : Nat) (L : Option Int) (r : Int × List Nat)
    (h : hiddenIndexTbb g ord pk S σ i L = some r) : OddRes g S r := by
  unfold hiddenIndexTbb at h
  cases hi : σ[i]? with
  | none => rw [hi] at h; cases h
  | some e =>
    rw [hi] at h
    simp only at h
    have heS : e ∈ S := hσ.mem_iff.1 (List.mem_of_getElem? hi)
    have hem := hSm e heS
    have hf := simpleB_facts g hs e hem
    unfold hiddenSearch at h
    cases hres : searchSigned g ord (pk e L) S (σ.drop i) (g.src e) true (g.tgt e) true L with
    | none => rw [hres] at h; cases h
    | some wz =>
      obtain ⟨w, Z⟩ := wz
      rw [hres] at h
      simp only [hiddenTake] at h
      split at h
      · cases h
      · simp only [Option.some.injEq] at h
        subst h
        obtain ⟨es, h1, h2, rfl, rfl, _, _⟩ :=
          search_sound g ord hs hp (pk e L) (hpk e L) S (σ.drop i) _ true _ true hf.1 hf.2.1 (Or.inl hf.2.2) L w Z hres
        have hnot : e ∉ es := fun he => (h1.1 e he).2 (mem_drop_of_getElem? hi)
        obtain ⟨c1, c2, c3⟩ := hidden_closed g S e heS hem es (fun f hf => (h1.1 f hf).1) h1.2.1 h1.2.2
        have hnd : (es ++ [e]).Nodup := by
          rw [List.nodup_append]
          refine ⟨h2, by simp, ?_⟩
          intro a ha b hb
          rw [List.mem_singleton] at hb
          subst hb
          intro hab; subst hab; exact hnot ha
        obtain ⟨q1, q2, q3⟩ := closed_trail_odd g S hS _ _ hnd c1 c2 c3
        rw [setOf_snoc, listW_snoc] at q3
        rw [setOf_snoc] at q1 q2
        exact ⟨q1, q2, q3.symm⟩

theorem hid_complete (g : Graph) (ord : List Nat) (hs : g.simpleB = true) (hp : g.positiveB = true)
    (pk : PickFam) (hpk : ∀ i L, PickOK (pk i L)) (S : List Nat) (hS : StrictSorted S) (hSm : ∀ e ∈ S, e < g.m)
    (σ : List Nat) (hσ : σ.Perm S) (C : List Nat) (hC : PhaseOK g 1 S C) :
    ∃ j, j < σ.length ∧ ∀ L, (∀ l, L = some l → wt g C < l) →
      ∃ c, hiddenIndexTbb g ord pk S σ j L = some (wt g C, c) := by
  obtain ⟨j, e, es, hje, havoid, hw, hlev, hwt⟩ := hiddenEdge_covers g hs hp S σ hS hσ C hC.1 hC.2.1
  have hjl : j < σ.length := by
    rcases Nat.lt_or_ge j σ.length with h | h
    · exact h
    · rw [List.getElem?_eq_none h] at hje; cases hje
  refine ⟨j, hjl, ?_⟩
  intro L hL
  have heS : e ∈ S := hσ.mem_iff.1 (List.mem_of_getElem? hje)
  have hem := hSm e heS
  have hf := simpleB_facts g hs e hem
  have hwe := positiveB_facts g hp e hem
  have hedrop := mem_drop_of_getElem? hje
  have hP : WalkSpec g S (σ.drop j) (g.src e) true (g.tgt e) true es := ⟨havoid, hw, hlev⟩
  obtain ⟨es0, i1, i2, i3⟩ := walk_min_exists g (WalkSpec g S (σ.drop j) (g.src e) true (g.tgt e) true)
    (fun es' h' => listW_nonneg g hp es' (fun e he => (h'.1 e he).1)) es hP
  have hlow : ∀ es', WalkSpec g S (σ.drop j) (g.src e) true (g.tgt e) true es' →
      wt g C ≤ listW g es' + g.weight e := by
    intro es' h'
    obtain ⟨Z, hZ, ho, hle⟩ := hiddenEdge_sound g hs hp S hS e heS hem es'
      (fun f hf => ⟨(h'.1 f hf).1, fun hfe => (h'.1 f hf).2 (hfe ▸ hedrop)⟩) h'.2.1 h'.2.2
    have := hC.2.2 Z hZ ho
    omega
  have heq : listW g es0 + g.weight e = wt g C := by
    have := hlow es0 i1
    omega
  unfold hiddenIndexTbb
  rw [hje]
  simp only
  unfold hiddenSearch
  rcases search_complete g ord hs hp (pk e L) (hpk e L) S (σ.drop j) _ true _ true hf.1 hf.2.1 (Or.inl hf.2.2) L es0 i1 i3
    (fun l hl => by have := hL l hl; omega) with ⟨Z, hZ⟩ | ⟨_, es2, j1, j2, j3⟩
  · obtain ⟨es1, k1, _, rfl, _, _, _⟩ :=
      search_sound g ord hs hp (pk e L) (hpk e L) S (σ.drop j) _ true _ true hf.1 hf.2.1 (Or.inl hf.2.2) L _ Z hZ
    have hnot : (setOf es1).contains e = false := by
      cases hc : (setOf es1).contains e with
      | false => rfl
      | true =>
        have := (mem_setOf es1 e).1 (List.contains_iff_mem.1 hc)
        exact absurd hedrop (k1.1 e this).2
    rw [hZ]
    simp only [hiddenTake, hnot, Bool.false_eq_true, if_false, heq]
    exact ⟨_, rfl⟩
  · exfalso
    obtain ⟨c1, c2, c3⟩ := hidden_closed g S e heS hem es2 (fun f hf => (j1.1 f hf).1) j1.2.1 j1.2.2
    have hnn : ¬ (es2 ++ [e]).Nodup := fun hnd => j3 (List.nodup_append.1 hnd).1
    obtain ⟨Z, hZ, ho, hlt⟩ := repeated_edge_lighter g hp S hS _ _ c1 c2 c3 hnn
    rw [listW_snoc] at hlt
    have := hC.2.2 Z hZ ho
    omega

theorem hiddenTake_eq (g : Graph) (e : Nat) (best res : Cyc (List Nat)) :
    hiddenTake g e best res = takeBetter best (hiddenTake g e none res) := by
  cases res with
  | none => cases best <;> rfl
  | some wz =>
    obtain ⟨w, Z⟩ := wz
    simp only [hiddenTake]
    split
    · cases best <;> rfl
    · cases best <;> rfl

theorem hiddenLoop_eq (g : Graph) (ord : List Nat) (pk : PickFam) (S σ : List Nat) :
    ∀ (k i : Nat) (best : Cyc (List Nat)), σ.length - i = k →
      hiddenLoop g ord pk S (σ.drop i) best =
        minFold (hiddenIndexTbb g ord pk S σ) (List.range' i (σ.length - i)) best := by
  intro k
  induction k with
  | zero =>
    intro i best hk
    rw [hk, List.drop_eq_nil_of_le (by omega)]
    rfl
  | succ k ih =>
    intro i best hk
    have hi : i < σ.length := by omega
    rw [hk, List.range'_succ, minFold_cons, List.drop_eq_getElem_cons hi, hiddenLoop]
    have h1 : σ.length - (i + 1) = k := by omega
    rw [ih (i + 1) _ h1, h1]
    congr 1
    rw [hiddenTake_eq]
    congr 1
    unfold hiddenIndexTbb
    rw [List.getElem?_eq_getElem hi]
    simp only
    rw [List.drop_eq_getElem_cons hi]

theorem hiddenLoop_seqMin (g : Graph) (ord : List Nat) (pk : PickFam) (S σ : List Nat) :
    hiddenLoop g ord pk S σ none = seqMin (hiddenIndexTbb g ord pk S σ) 0 σ.length := by
  have := hiddenLoop_eq g ord pk S σ σ.length 0 none rfl
  rw [List.drop_zero] at this
  exact this

/-! ### the phases -/

theorem sgAdjE_single (g : Graph) (ord : List Nat) (e : Nat) : sgAdjE g ord [] [e] = sgAdjE g ord [e] [e] := by
  unfold sgAdjE
  congr 1
  funext x
  simp only
  congr 1
  funext p
  obtain ⟨e', w⟩ := p
  simp only
  by_cases h : [e].contains e' = true
  · rw [if_pos h, if_pos h]
  · rw [if_neg h, if_neg h]
    have h1 : ([] : List Nat).contains e' = false := rfl
    have h2 : [e].contains e' = false := by simpa using h
    rw [h1, h2]

theorem singleEdgeTbb_eq (g : Graph) (ord : List Nat) (pk : PickFam) (e : Nat) :
    singleEdgeTbb g ord pk e = hiddenIndexTbb g ord pk [e] [e] 0 none := by
  unfold singleEdgeTbb hiddenIndexTbb hiddenSearch searchSigned
  rw [sgAdjE_single]
  rfl

theorem tbb_general (g : Graph) (ord : List Nat) (hs : g.simpleB = true) (hp : g.positiveB = true)
    (pk : PickFam) (hpk : ∀ i L, PickOK (pk i L)) (S : List Nat) (hS : StrictSorted S) (hSm : ∀ e ∈ S, e < g.m)
    (σ : List Nat) (hσ : σ.Perm S) (hex : ∃ Z, EvenSet g Z ∧ dotPar Z S = true)
    (s : Sched) (hcov : s.Covers 0 (if g.n ≤ S.length then g.n else S.length)) :
    PhaseFound g S (if g.n ≤ S.length then allVerticesTbb g ord pk S s else hiddenTbb g ord pk S σ s) := by
  obtain ⟨C, hC⟩ := phaseOK_exists g hp S hex
  by_cases hn : g.n ≤ S.length
  · rw [if_pos hn] at hcov ⊢
    exact phase_tbb g S C hC _ g.n (fun i L r hi h => allv_sound g ord hs hp pk hpk S hS i hi L r h)
      (allv_complete g ord hs hp pk hpk S hS C hC) s hcov
  · rw [if_neg hn] at hcov ⊢
    rw [← hσ.length_eq] at hcov
    exact phase_tbb g S C hC _ σ.length (fun i L r _ h => hid_sound g ord hs hp pk hpk S hS hSm σ hσ i L r h)
      (hid_complete g ord hs hp pk hpk S hS hSm σ hσ C hC) s hcov

/-! ### the main loop -/

open Parmcb.Abstract in
/-- `run_progress` with what the searches need about the support vector: canonical, inside the non-forest coordinates -/
theorem run_progress' (g : Graph) (N : Nat) (v : Variant) (sup0 : List (List Nat)) (done : List (List Nat))
    (hd : ExactDomain g N) (hp : sup0.Perm (unitSupports N)) (hk : done.length < N)
    (hodd : ∀ (k : Nat) (c : List Nat), done[k]? = some c →
        StrictSorted c ∧ dotPar c (phaseSupport v (runSupports v 0 sup0 (done.take k)) k) = true) :
    StrictSorted (phaseSupport v (runSupports v 0 sup0 done) done.length) ∧
    (∀ e ∈ phaseSupport v (runSupports v 0 sup0 done) done.length, e < N) ∧
    ∃ Z, EvenSet g Z ∧ dotPar Z (phaseSupport v (runSupports v 0 sup0 done) done.length) = true := by
  refine ⟨?_, ?_, (run_progress g N v sup0 done hd hp hk hodd).2⟩
  all_goals
    have hrun : DP2.RunG (fun S c => StrictSorted c ∧ dotPar c S = true) v 0 sup0 done := by
      apply DP2.runG_of_forall
      intro i c hi
      rw [Nat.zero_add]
      exact hodd i c hi
    obtain ⟨Ss0, hv, hperm⟩ := DP2.init_exists N sup0 hp
    obtain ⟨hl0, _, hind, hbel⟩ := DP2.init_facts N Ss0 hperm
    subst hv
    obtain ⟨ph, _, hok, hsupp⟩ := DP2.runG_phasesOK _ (fun _ _ h => h) v done 0 Ss0 (by omega) hrun
    have hFbel := rowsGe_runPhases svecPairing (DP2.Below N) (DP2.below_add N) _ 0 Ss0 ph hok hbel
    have hFlen := runPhases_length svecPairing 0 Ss0 ph
    rw [hsupp]
  · exact phaseSupport_sorted v _ _
  · rw [phaseSupport_vals]
    generalize runPhases svecPairing 0 Ss0 ph = Fs at hFbel hFlen
    have hkF : done.length < (vals Fs).length := by rw [vals_length]; omega
    have hr := swapIndex_range v (vals Fs) done.length hkF
    generalize swapIndex v (vals Fs) done.length = r at hr
    generalize done.length = k at hk hkF hr
    have hkS : k < (swapRows Fs k r).length := by rw [swapRows_length]; omega
    have hT : (swapRows Fs k r)[k]? = some (swapRows Fs k r)[k] := List.getElem?_eq_getElem hkS
    generalize (swapRows Fs k r)[k] = T at hT
    rw [hT]
    exact rowsGe_swapRows (DP2.Below N) k r Fs hr.1 (rowsGe_mono _ (Nat.zero_le k) _ hFbel) k T
      (Nat.le_refl _) hT

theorem runSupports_snoc (v : Variant) : ∀ (cs : List (List Nat)) (k : Nat) (sup : List (List Nat)) (c : List Nat),
    runSupports v k sup (cs ++ [c]) = phaseStep v (runSupports v k sup cs) (k + cs.length) c := by
  intro cs
  induction cs with
  | nil => intro k sup c; rfl
  | cons a cs ih =>
    intro k sup c
    show runSupports v (k + 1) (phaseStep v sup k a) (cs ++ [c]) = _
    rw [ih]
    have : k + 1 + cs.length = k + (a :: cs).length := by simp only [List.length_cons]; omega
    rw [this]
    rfl

/-- the cycles emitted so far were odd against their phases' support vectors -/
def DoneOK (v : Variant) (sup0 : List (List Nat)) (done : List (List Nat)) : Prop :=
  ∀ (k : Nat) (c : List Nat), done[k]? = some c →
    StrictSorted c ∧ dotPar c (phaseSupport v (runSupports v 0 sup0 (done.take k)) k) = true

theorem signedPhases_run (g : Graph) (N : Nat) (hd : ExactDomain g N) (v : Variant) (sup0 : List (List Nat))
    (hperm : sup0.Perm (unitSupports N)) (search : Nat → List Nat → Cyc (List Nat))
    (hsearch : ∀ k S, StrictSorted S → (∀ e ∈ S, e < g.m) → (∃ Z, EvenSet g Z ∧ dotPar Z S = true) →
        PhaseFound g S (search k S)) :
    ∀ (cnt : Nat) (done : List (List Nat)), done.length + cnt = N → DoneOK v sup0 done →
      (signedPhases v search cnt done.length (runSupports v 0 sup0 done)).length = cnt ∧
      Run g 1 v done.length (runSupports v 0 sup0 done)
        ((signedPhases v search cnt done.length (runSupports v 0 sup0 done)).map (·.1)) ∧
      ∀ p ∈ signedPhases v search cnt done.length (runSupports v 0 sup0 done), p.2 = wt g p.1 := by
  intro cnt
  induction cnt with
  | zero =>
    intro done _ _
    exact ⟨rfl, trivial, fun p hp => by cases hp⟩
  | succ cnt ih =>
    intro done hlen hdone
    obtain ⟨hS, hbel, hex⟩ := run_progress' g N v sup0 done hd hperm (by omega) hdone
    obtain ⟨w, Z, hres, hok, hw⟩ := hsearch done.length _ hS
      (fun e he => Nat.lt_of_lt_of_le (hbel e he) hd.N_le) hex
    generalize hsup : runSupports v 0 sup0 done = sup at hS hbel hex hres hok
    have hres' : search done.length ((swapAt sup done.length (swapIndex v sup done.length)).getD done.length [])
        = some (w, Z) := hres
    have e1 : updateSup (swapAt sup done.length (swapIndex v sup done.length)) done.length Z
        = runSupports v 0 sup0 (done ++ [Z]) := by
      rw [runSupports_snoc, Nat.zero_add, hsup]; rfl
    have e2 : done.length + 1 = (done ++ [Z]).length := by simp
    have hdone' : DoneOK v sup0 (done ++ [Z]) := by
      intro k c hk
      rcases Nat.lt_or_ge k done.length with hlt | hge
      · rw [List.getElem?_append_left hlt] at hk
        rw [List.take_append_of_le_length (Nat.le_of_lt hlt)]
        exact hdone k c hk
      · have hkl : k < (done ++ [Z]).length := by
          rcases Nat.lt_or_ge k (done ++ [Z]).length with h | h
          · exact h
          · rw [List.getElem?_eq_none h] at hk; cases hk
        have hke : k = done.length := by simp at hkl; omega
        subst hke
        rw [List.getElem?_append_right (Nat.le_refl _), Nat.sub_self] at hk
        simp only [List.getElem?_cons_zero, Option.some.injEq] at hk
        subst hk
        rw [List.take_left, hsup]
        exact ⟨hok.1.1, hok.2.1⟩
    obtain ⟨i1, i2, i3⟩ := ih (done ++ [Z]) (by simp; omega) hdone'
    rw [← e2, ← e1] at i1 i2 i3
    simp only [signedPhases, hres']
    refine ⟨by simp only [List.length_cons, i1], ⟨hok, i2⟩, ?_⟩
    intro p hp
    rcases List.mem_cons.1 hp with rfl | hp
    · exact hw
    · exact i3 p hp

theorem foldl_weights (g : Graph) : ∀ (ph : List CycW) (a : Int), (∀ p ∈ ph, p.2 = wt g p.1) →
    ph.foldl (fun acc p => acc + p.2) a = a + ((ph.map (·.1)).map (wt g)).sum := by
  intro ph
  induction ph with
  | nil => intro a _; simp
  | cons p ph ih =>
    intro a h
    rw [List.foldl_cons, ih _ (fun q hq => h q (List.mem_cons_of_mem _ hq)), h p List.mem_cons_self]
    simp only [List.map_cons, List.sum_cons]
    omega

/-- **one phase of `mcb_sva_signed`** — both branches, for every heap behaviour and every iteration order `σ` of the
`std::set` of signed edges -/
theorem signedPhaseSearch_ok (g : Graph) (ord : List Nat) (hs : g.simpleB = true) (hp : g.positiveB = true)
    (pk : PickFam) (hpk : ∀ i L, PickOK (pk i L)) (S : List Nat) (hS : StrictSorted S) (hSm : ∀ e ∈ S, e < g.m)
    (σ : List Nat) (hσ : σ.Perm S) (hex : ∃ Z, EvenSet g Z ∧ dotPar Z S = true) :
    PhaseFound g S (signedPhaseSearch g ord pk σ S) := by
  obtain ⟨C, hC⟩ := phaseOK_exists g hp S hex
  unfold signedPhaseSearch
  by_cases hn : g.n ≤ S.length
  · rw [if_pos hn]
    exact phase_seq g S C hC _ g.n (fun i L r hi h => allv_sound g ord hs hp pk hpk S hS i hi L r h)
      (allv_complete g ord hs hp pk hpk S hS C hC)
  · rw [if_neg hn, hiddenLoop_seqMin]
    exact phase_seq g S C hC _ σ.length (fun i L r _ h => hid_sound g ord hs hp pk hpk S hS hSm σ hσ i L r h)
      (hid_complete g ord hs hp pk hpk S hS hSm σ hσ C hC)

/-- **one phase of `mcb_sva_signed_tbb`** (`OddCycleFinder::find`: single-edge shortcut / all vertices / hidden-edge
heuristic) — additionally for every execution of the `parallel_reduce` -/
theorem signedPhaseSearchTbb_ok (g : Graph) (ord : List Nat) (hs : g.simpleB = true) (hp : g.positiveB = true)
    (pk : PickFam) (hpk : ∀ i L, PickOK (pk i L)) (S : List Nat) (hS : StrictSorted S) (hSm : ∀ e ∈ S, e < g.m)
    (σ : List Nat) (hσ : σ.Perm S) (hex : ∃ Z, EvenSet g Z ∧ dotPar Z S = true)
    (s : Sched) (hcov : s.Covers 0 (if g.n ≤ S.length then g.n else S.length)) :
    PhaseFound g S (signedPhaseSearchTbb g ord pk σ S s) := by
  match S, hS, hSm, hσ, hex, hcov with
  | [], hS, hSm, hσ, hex, hcov => exact tbb_general g ord hs hp pk hpk [] hS hSm σ hσ hex s hcov
  | [e], hS, hSm, hσ, hex, hcov =>
    obtain ⟨C, hC⟩ := phaseOK_exists g hp [e] hex
    have hσe : σ = [e] := List.perm_singleton.1 hσ
    subst hσe
    show PhaseFound g [e] (singleEdgeTbb g ord pk e)
    rw [singleEdgeTbb_eq]
    obtain ⟨j, hj, hcomp⟩ := hid_complete g ord hs hp pk hpk [e] hS hSm [e] hσ C hC
    have hj0 : j = 0 := by simp at hj; omega
    subst hj0
    obtain ⟨c, hc⟩ := hcomp none (fun l hl => by cases hl)
    apply phaseFound_of g [e] C hC
    · rw [hc]; rfl
    · intro r hr
      exact hid_sound g ord hs hp pk hpk [e] hS hSm [e] hσ 0 none r hr
  | a :: b :: rest, hS, hSm, hσ, hex, hcov =>
    exact tbb_general g ord hs hp pk hpk (a :: b :: rest) hS hSm σ hσ hex s hcov

/-- **main loop**: if every phase's search delivers `PhaseFound` whenever an odd element exists, the literal main loop
(sparsest-support swap of the variant, update, emission) is a run of the relational model from the given start state -/
theorem mcbSignedCore_run (g : Graph) (N : Nat) (hd : ExactDomain g N) (v : Variant) (sup0 : List (List Nat))
    (hperm : sup0.Perm (unitSupports N)) (search : Nat → List Nat → Cyc (List Nat))
    (hsearch : ∀ k S, StrictSorted S → (∀ e ∈ S, e < g.m) → (∃ Z, EvenSet g Z ∧ dotPar Z S = true) →
        PhaseFound g S (search k S)) :
    (mcbSignedCore v N sup0 search).cycles.length = N ∧
    Run g 1 v 0 sup0 (mcbSignedCore v N sup0 search).cycles ∧
    (mcbSignedCore v N sup0 search).weight = ((mcbSignedCore v N sup0 search).cycles.map (wt g)).sum := by
  have h := signedPhases_run g N hd v sup0 hperm search hsearch N [] (by simp)
    (fun k c hk => by simp at hk)
  change (signedPhases v search N 0 sup0).length = N ∧
    Run g 1 v 0 sup0 ((signedPhases v search N 0 sup0).map (·.1)) ∧
    ∀ p ∈ signedPhases v search N 0 sup0, p.2 = wt g p.1 at h
  obtain ⟨i1, i2, i3⟩ := h
  unfold mcbSignedCore
  simp only
  refine ⟨by rw [List.length_map]; exact i1, i2, ?_⟩
  rw [foldl_weights g _ 0 i3]
  omega

/-! ### back to the caller's numbering, from a permuted start -/

/-- `spanner_transfer` for a run that starts from any permutation of the unit supports -/
theorem spanner_transfer_from (g : Graph) (R : List Nat) (hR : R.Nodup) (hRm : ∀ e ∈ R, e < g.m)
    (N' : Nat) (v : Variant) (sup0 : List (List Nat)) (hperm : sup0.Perm (unitSupports N'))
    (exactCycles : List (List Nat))
    (hd : ExactDomain (spannerGraph g R) N') (hr : FullRunFrom (spannerGraph g R) N' 1 v sup0 exactCycles) :
    SpansIn g R (translateSp R exactCycles) ∧
    (∀ mask : List Bool, mask.length = (translateSp R exactCycles).length → true ∈ mask →
        xorSel (translateSp R exactCycles) mask ≠ []) ∧
    totalWeight g (translateSp R exactCycles) = totalWeight (spannerGraph g R) exactCycles ∧
    (∀ L, SpansIn g R L → totalWeight g (translateSp R exactCycles) ≤ totalWeight g L) := by
  have hB : IsBasis (spannerGraph g R) exactCycles := by
    refine ⟨run_evenSet _ 1 v exactCycles 0 sup0 hr.2, ?_, ?_⟩
    · intro mask hm
      exact runFrom_independent _ N' 1 v sup0 exactCycles hd hperm hr mask (by rw [hm, hr.1])
    · intro Z hZ
      obtain ⟨mask, hm, he⟩ := runFrom_spans _ N' 1 v sup0 exactCycles hd hperm hr Z hZ
      exact ⟨mask, by rw [hm, hr.1], he⟩
  have hpos : ∀ (L : List (List Nat)), (∀ X ∈ L, EvenSet (spannerGraph g R) X) →
      ∀ X ∈ L, StrictSorted X ∧ ∀ i ∈ X, i < R.length := by
    intro L hL X hX
    have h := hL X hX
    exact ⟨h.1, fun i hi => by have := h.2.1 i hi; rwa [KmmT.sp_m] at this⟩
  have hcyc := hpos exactCycles hB.1
  have htw := KmmT.fw_tw g R hR exactCycles hB.1
  rw [KmmT.translateSp_eq]
  refine ⟨⟨?_, ?_⟩, ?_, htw, ?_⟩
  · intro C hC
    obtain ⟨c, hc, rfl⟩ := List.mem_map.1 hC
    exact KmmT.fw_even g R hR hRm c (hB.1 c hc)
  · intro Z hZ hsub
    obtain ⟨mask, hl, hm⟩ := hB.2.2 _ (KmmT.bw_even g R hR Z hZ hsub)
    refine ⟨mask, by rw [List.length_map]; exact hl, ?_⟩
    rw [KmmT.fw_xorSel R hR exactCycles mask hcyc, hm, KmmT.fw_bw R Z hZ.1 hsub]
  · intro mask hl ht h0
    rw [List.length_map] at hl
    rw [KmmT.fw_xorSel R hR exactCycles mask hcyc] at h0
    exact hB.2.1 mask hl ht (KmmT.fw_eq_nil R _ h0)
  · intro L hL
    have hL' : ∀ D ∈ L.map (KmmT.bw R), EvenSet (spannerGraph g R) D := by
      intro D hD
      obtain ⟨Z, hZ, rfl⟩ := List.mem_map.1 hD
      exact KmmT.bw_even g R hR Z (hL.1 Z hZ).1 (hL.1 Z hZ).2
    have hback : (L.map (KmmT.bw R)).map (KmmT.fw R) = L := by
      rw [List.map_map]
      conv => rhs; rw [← List.map_id L]
      apply List.map_congr_left
      intro Z hZ
      exact KmmT.fw_bw R Z (hL.1 Z hZ).1.1 (hL.1 Z hZ).2
    have hspan : ∀ Z, EvenSet (spannerGraph g R) Z →
        ∃ mask : List Bool, mask.length = (L.map (KmmT.bw R)).length ∧ xorSel (L.map (KmmT.bw R)) mask = Z := by
      intro Z hZ
      have hf := KmmT.fw_even g R hR hRm Z hZ
      obtain ⟨mask, hl, hm⟩ := hL.2 _ hf.1 hf.2
      refine ⟨mask, by rw [List.length_map]; exact hl, ?_⟩
      have hp := hpos _ hL'
      have hx := KmmT.fw_xorSel R hR _ mask hp
      rw [hback, hm] at hx
      have hs := Spanner.xorSel_sorted (L.map (KmmT.bw R)) mask (fun X hX => (hp X hX).1)
      have hlt : ∀ i ∈ xorSel (L.map (KmmT.bw R)) mask, i < R.length := by
        intro i hi
        obtain ⟨X, hX, hiX⟩ := Spanner.xorSel_mem_sub _ mask i hi
        exact (hp X hX).2 i hiX
      exact KmmT.fw_inj R hR _ _ hs hZ.1 hlt (hpos [Z] (by simpa using hZ) Z (by simp)).2 hx.symm
    have hw := runFrom_weight (spannerGraph g R) N' 1 (by decide) v sup0 exactCycles hd hperm hr _ hL' hspan
    have hLw := KmmT.fw_tw g R hR _ hL'
    rw [hback] at hLw
    rw [htw, hLw]
    unfold C02.totalWeight
    rw [Int.one_mul] at hw
    exact hw

/-- `C02.c02_caller_numbering` for a run that starts from any permutation of the unit supports -/
theorem caller_numbering_from (g : Graph) (hs : g.simpleB = true) (hp : g.positiveB = true)
    (order : List Nat) (ho : order.Perm (List.range g.n)) (v : Variant) (sup0 : List (List Nat))
    (hperm0 : sup0.Perm (unitSupports (createIndex g order).dim)) (cycles : List (List Nat))
    (hr : FullRunFrom (reindex g (createIndex g order)) (createIndex g order).dim 1 v sup0 cycles) :
    IsMCB g (translateSp (createIndex g order).reverse cycles) ∧
    totalWeight g (translateSp (createIndex g order).reverse cycles) =
      totalWeight (reindex g (createIndex g order)) cycles := by
  have hperm := C02eL.reverse_perm g order hs ho
  have hnd : (createIndex g order).reverse.Nodup := hperm.nodup_iff.2 List.nodup_range
  have hlt : ∀ e ∈ (createIndex g order).reverse, e < g.m :=
    fun e he => List.mem_range.1 (hperm.mem_iff.1 he)
  have hall : ∀ e, e < g.m → e ∈ (createIndex g order).reverse :=
    fun e he => hperm.mem_iff.2 (List.mem_range.2 he)
  have hd := C16.c16_exact_domain g order hs hp ho
  rw [reindex_eq] at hr hd ⊢
  obtain ⟨ha, hb, hc, hmin⟩ := spanner_transfer_from g _ hnd hlt _ v sup0 hperm0 cycles hd hr
  refine ⟨⟨⟨fun C hC => (ha.1 C hC).1, hb, fun Z hZ => ha.2 Z hZ (fun e he => hall e (hZ.2.1 e he))⟩, ?_⟩, hc⟩
  intro L' hL'
  exact hmin L' ⟨fun C hC => ⟨hL'.1 C hC, fun e he => hall e ((hL'.1 C hC).2.1 e he)⟩,
    fun Z hZ _ => hL'.2.2 Z hZ⟩

/-- the composition shared by the two variants -/
theorem mcb_correct_of_core (g : Graph) (hs : g.simpleB = true) (hp : g.positiveB = true)
    (order : List Nat) (ho : order.Perm (List.range g.n)) (v : Variant) (sup0 : List (List Nat))
    (hperm : sup0.Perm (unitSupports (createIndex g order).dim)) (search : Nat → List Nat → Cyc (List Nat))
    (hsearch : ∀ k S, StrictSorted S → (∀ e ∈ S, e < (reindex g (createIndex g order)).m) →
        (∃ Z, EvenSet (reindex g (createIndex g order)) Z ∧ dotPar Z S = true) →
        PhaseFound (reindex g (createIndex g order)) S (search k S)) :
    McbCorrect g order
      { cycles := translateBack (createIndex g order).reverse
          (mcbSignedCore v (createIndex g order).dim sup0 search).cycles,
        weight := (mcbSignedCore v (createIndex g order).dim sup0 search).weight } := by
  have hd := C16.c16_exact_domain g order hs hp ho
  obtain ⟨hlen, hrun, hw⟩ := mcbSignedCore_run _ _ hd v sup0 hperm search hsearch
  obtain ⟨hmcb, htw⟩ := caller_numbering_from g hs hp order ho v sup0 hperm _ ⟨hlen, hrun⟩
  refine ⟨hmcb, ?_, ?_⟩
  · show (mcbSignedCore v (createIndex g order).dim sup0 search).weight = _
    rw [hw]
    exact htw.symm
  · show ((translateBack _ _).length : Int) = _
    unfold translateBack
    rw [List.length_map, hlen]
    exact (C16.c16_dim g order hs ho).2.1

end SignedAlgoL

/-- **`mcb_sva_signed`, end to end**: for every simple graph with positive weights, every iteration order of the forest
construction, every behaviour of the heaps and every address order of the edge nodes (per phase), the literal model
returns a minimum cycle basis of the caller's graph, its weight, and `m - n + c` cycles -/
theorem mcbSigned_correct (g : Graph) (hs : g.simpleB = true) (hp : g.positiveB = true)
    (order : List Nat) (ho : order.Perm (List.range g.n)) (pick : Nat → PickFam) (hpick : ∀ k i L, PickOK (pick k i L))
    (σ : Nat → List Nat → List Nat) (hσ : ∀ k S, (σ k S).Perm S) :
    McbCorrect g order (mcbSigned g order pick σ) := by
  have hd := C16.c16_exact_domain g order hs hp ho
  exact SignedAlgoL.mcb_correct_of_core g hs hp order ho .signed _ (List.Perm.refl _) _
    (fun k S hS hSm hex => SignedAlgoL.signedPhaseSearch_ok _ _ hd.simple hd.positive (pick k) (hpick k) S hS hSm
      (σ k S) (hσ k S) hex)

/-- **`mcb_sva_signed_tbb`, end to end**: additionally for every order `perm` in which the concurrent `push_back`s filled
the support vector and every execution of every `parallel_reduce` -/
theorem mcbSignedTbb_correct (g : Graph) (hs : g.simpleB = true) (hp : g.positiveB = true)
    (order : List Nat) (ho : order.Perm (List.range g.n)) (pick : Nat → PickFam) (hpick : ∀ k i L, PickOK (pick k i L))
    (σ : Nat → List Nat → List Nat) (hσ : ∀ k S, (σ k S).Perm S)
    (perm : List Nat) (hperm : perm.Perm (List.range (createIndex g order).dim))
    (scheds : Nat → List Nat → Sched)
    (hcov : ∀ k S, (scheds k S).Covers 0 (if g.n ≤ S.length then g.n else S.length)) :
    McbCorrect g order (mcbSignedTbb g order pick σ perm scheds) := by
  have hd := C16.c16_exact_domain g order hs hp ho
  have hp0 : (perm.map fun i => [i]).Perm (unitSupports (createIndex g order).dim) := hperm.map _
  exact SignedAlgoL.mcb_correct_of_core g hs hp order ho .signedTbb _ hp0 _
    (fun k S hS hSm hex => SignedAlgoL.signedPhaseSearchTbb_ok _ _ hd.simple hd.positive (pick k) (hpick k) S hS hSm
      (σ k S) (hσ k S) hex (scheds k S) (hcov k S))

end Parmcb
