import Parmcb.Model.BiSearch
import Parmcb.Lemmas.BiDijkstra
/-!
The literal bidirectional search WITH path reconstruction (`Model/BiSearch.lean`): forgetting the predecessor records
gives the value-level model of `Model/BiDijkstra.lean` (so `biDijkstra_correct` applies to the weight), the predecessor
records of each frontier describe walks from its source whose weight is the recorded label, and the reconstruction
returns the edge set of a shortest walk unless that walk repeats an edge.  For EVERY behaviour of the heaps.
Core Lean only.
-/
namespace Parmcb

/-- forget the edge ids -/
def projAdj (adjE : Array (List (Nat × Int × Nat))) : Array (List (Nat × Int)) :=
  adjE.map fun l => l.map fun p => (p.1, p.2.1)

/-- the edge-labelled adjacency describes an undirected graph with positive weights in which every entry carries the
weight of its edge id and has its mirror image at the other end -/
structure AdjEOK (adjE : Array (List (Nat × Int × Nat))) (wOf : Nat → Int) : Prop where
  ok : AdjOK (projAdj adjE)
  wt : ∀ u, u < adjE.size → ∀ p ∈ adjE[u]!, wOf p.2.2 = p.2.1
  symm : ∀ u, u < adjE.size → ∀ p ∈ adjE[u]!, (u, p.2.1, p.2.2) ∈ adjE[p.1]!

/-- a walk from `a` to `b` along the listed edge ids -/
inductive EWalk (adjE : Array (List (Nat × Int × Nat))) : Nat → Nat → List Nat → Prop
  | nil (a : Nat) (h : a < adjE.size) : EWalk adjE a a []
  | cons {a v b : Nat} {c : Int} {e : Nat} {es : List Nat} (ha : a < adjE.size) (h : (v, c, e) ∈ adjE[a]!)
      (r : EWalk adjE v b es) : EWalk adjE a b (e :: es)

namespace BiSearchL
open BiDijL

def projL (l : List (Nat × Int × Nat)) : List (Nat × Int) := l.map fun p => (p.1, p.2.1)

theorem projAdj_size (adjE : Array (List (Nat × Int × Nat))) : (projAdj adjE).size = adjE.size := by
  simp [projAdj]

theorem projAdj_get (adjE : Array (List (Nat × Int × Nat))) (u : Nat) : (projAdj adjE)[u]! = projL adjE[u]! := by
  unfold projAdj projL
  by_cases hu : u < adjE.size
  · rw [getElem!_pos _ u (by simpa using hu), getElem!_pos _ u hu]
    simp
  · rw [getElem!_neg _ u (by simpa using hu), getElem!_neg _ u hu]
    rfl

def toB (st : BiStateP) : BiState := { f := st.f.toF, b := st.b.toF, best := st.best }

theorem update_toF (f : FrontierP) (w : Nat) (c : Int) (u e : Nat) : (f.update w c u e).toF = f.toF.update w c := by
  unfold FrontierP.update Frontier.update
  show (if (w == f.src) = true then f else match f.dist[w]! with | none => _ | some dw => _).toF =
    if (w == f.src) = true then f.toF else match f.dist[w]! with | none => _ | some dw => _
  by_cases hw : (w == f.src) = true
  · rw [if_pos hw, if_pos hw]
  · rw [if_neg hw, if_neg hw]
    cases f.dist[w]! with
    | none => rfl
    | some dw =>
      simp only []
      by_cases hc : c < dw
      · rw [if_pos hc, if_pos hc]; rfl
      · rw [if_neg hc, if_neg hc]

/-- the limit test -/
def limB (lim : Option Int) (x : Int) : Bool := match lim with | some l => !(x < l) | none => false

theorem limB_iff (lim : Option Int) (x : Int) : limB lim x = true ↔ ¬ Below lim x := by
  cases lim with
  | none => simp [Below, limB]
  | some l => simp [Below, limB]

/-- the update of `best_path`, `best_path_common_vertex` in the scan -/
def bestUpdP (best : Option Int) (common : Nat) (b : FrontierP) (w : Nat) (cw : Int) : Option Int × Nat :=
  if b.toF.hasFinite w then
    match b.dist[w]! with
    | some dbw =>
      let p := cw + dbw
      match best with
      | none => (some p, w)
      | some bb => if p < bb then (some p, w) else (some bb, common)
    | none => (best, common)
  else (best, common)

theorem biScanP_cons (lim : Option Int) (u : Nat) (du : Int) (w : Nat) (c : Int) (e : Nat)
    (r : List (Nat × Int × Nat)) (st : BiStateP) :
    biScanP lim u du ((w, c, e) :: r) st =
      if limB lim (du + c) then biScanP lim u du r st
      else biScanP lim u du r { st with f := st.f.update w (du + c) u e,
                                        best := (bestUpdP st.best st.common st.b w (du + c)).1,
                                        common := (bestUpdP st.best st.common st.b w (du + c)).2 } := rfl

theorem bestUpdP_fst (best : Option Int) (common : Nat) (b : FrontierP) (w : Nat) (cw : Int) :
    (bestUpdP best common b w cw).1 = bestUpd best b.toF w cw := by
  unfold bestUpdP bestUpd
  show _ = if b.toF.hasFinite w then (match b.dist[w]! with | some dbw => _ | none => _) else _
  by_cases hf : b.toF.hasFinite w = true
  · rw [if_pos hf, if_pos hf]
    cases b.dist[w]! with
    | none => rfl
    | some dbw =>
      simp only []
      cases best with
      | none => rfl
      | some bb =>
        simp only []
        split <;> rfl
  · rw [if_neg hf, if_neg hf]

theorem biScanP_toB (lim : Option Int) (u : Nat) (du : Int) : ∀ (l : List (Nat × Int × Nat)) (st : BiStateP),
    toB (biScanP lim u du l st) = biScan lim du (projL l) (toB st)
  | [], st => rfl
  | (w, c, e) :: r, st => by
    show _ = biScan lim du ((w, c) :: projL r) (toB st)
    rw [biScan_cons, biScanP_cons]
    by_cases hb : Below lim (du + c)
    · rw [if_neg (fun hh => (limTest lim _).1 hh hb), if_neg (fun hh => (limB_iff lim _).1 hh hb),
        biScanP_toB lim u du r]
      congr 1
      unfold toB
      simp only [update_toF, bestUpdP_fst]
    · rw [if_pos ((limTest lim _).2 hb), if_pos ((limB_iff lim _).2 hb)]
      exact biScanP_toB lim u du r st

theorem biLoopP_succ (adjE : Array (List (Nat × Int × Nat))) (lim : Option Int) (pick : Pick) (fuel : Nat)
    (st : BiStateP) :
    biLoopP adjE pick lim (fuel + 1) st =
      if stopB (toB st) then some st
      else match st.f.dist[pick fuel st.f.toF.minNodes]! with
        | none => some st
        | some du =>
          if limB lim du then none
          else biLoopP adjE pick lim fuel
            { f := (biScanP lim (pick fuel st.f.toF.minNodes) du adjE[pick fuel st.f.toF.minNodes]!
                      { st with f := { st.f with queue := st.f.queue.erase (pick fuel st.f.toF.minNodes) } }).b,
              b := (biScanP lim (pick fuel st.f.toF.minNodes) du adjE[pick fuel st.f.toF.minNodes]!
                      { st with f := { st.f with queue := st.f.queue.erase (pick fuel st.f.toF.minNodes) } }).f,
              best := (biScanP lim (pick fuel st.f.toF.minNodes) du adjE[pick fuel st.f.toF.minNodes]!
                      { st with f := { st.f with queue := st.f.queue.erase (pick fuel st.f.toF.minNodes) } }).best,
              common := (biScanP lim (pick fuel st.f.toF.minNodes) du adjE[pick fuel st.f.toF.minNodes]!
                      { st with f := { st.f with queue := st.f.queue.erase (pick fuel st.f.toF.minNodes) } }).common } := rfl

theorem biLoopP_toB (adjE : Array (List (Nat × Int × Nat))) (lim : Option Int) (pick : Pick) :
    ∀ (fuel : Nat) (st : BiStateP),
      (biLoopP adjE pick lim fuel st).map (fun s => s.best) = biLoop (projAdj adjE) pick lim fuel (toB st)
  | 0, st => rfl
  | fuel + 1, st => by
    rw [biLoopP_succ, biLoop_succ]
    by_cases hs : stopB (toB st) = true
    · rw [if_pos hs, if_pos hs]; rfl
    · rw [if_neg hs, if_neg hs]
      show _ = match st.f.dist[pick fuel st.f.toF.minNodes]! with | none => _ | some du => _
      cases st.f.dist[pick fuel st.f.toF.minNodes]! with
      | none => rfl
      | some du =>
        simp only []
        by_cases hb : ¬ Below lim du
        · rw [if_pos ((limTest lim _).2 hb), if_pos ((limB_iff lim _).2 hb)]; rfl
        · rw [if_neg (fun hh => (limTest lim _).1 hh (Classical.not_not.1 hb)),
            if_neg (fun hh => (limB_iff lim _).1 hh (Classical.not_not.1 hb)),
            biLoopP_toB adjE lim pick fuel, projAdj_get]
          congr 1
          have := biScanP_toB lim (pick fuel st.f.toF.minNodes) du adjE[pick fuel st.f.toF.minNodes]!
            { st with f := { st.f with queue := st.f.queue.erase (pick fuel st.f.toF.minNodes) } }
          exact congrArg (fun (y : BiState) => BiState.mk y.b y.f y.best) this
theorem get_setG {α : Type} (a : Array (Option α)) (i j : Nat) (x : Option α) :
    (a.set! i x)[j]! = if i = j ∧ i < a.size then x else a[j]! := by
  simp only [Array.set!, Array.getElem!_eq_getD, Array.getD_eq_getD_getElem?, Array.getElem?_setIfInBounds]
  by_cases h : i = j
  · subst h
    by_cases h2 : i < a.size
    · simp [h2]
    · simp [h2]
  · simp [h]

theorem lab_lt {α : Type} (a : Array (Option α)) (x : Nat) (d : α) (h : a[x]! = some d) : x < a.size := by
  by_cases hx : x < a.size
  · exact hx
  · rw [getElem!_neg _ x hx] at h
    cases h

theorem mem_proj {adjE : Array (List (Nat × Int × Nat))} {u w e : Nat} {c : Int} (h : (w, c, e) ∈ adjE[u]!) :
    (w, c) ∈ (projAdj adjE)[u]! := by
  rw [projAdj_get]
  exact List.mem_map.2 ⟨(w, c, e), h, rfl⟩

/-- the predecessor records of one frontier -/
structure PInv (adjE : Array (List (Nat × Int × Nat))) (r : Nat) (F : FrontierP) : Prop where
  src : F.src = r
  dsize : F.dist.size = adjE.size
  psize : F.pred.size = adjE.size
  srcLab : F.dist[r]! = some 0
  nonneg : ∀ (x : Nat) (d : Int), F.dist[x]! = some d → 0 ≤ d
  link : ∀ (x : Nat) (d : Int), x ≠ r → F.dist[x]! = some d → ∃ u e c du, F.pred[x]! = some (u, e) ∧ (x, c, e) ∈ adjE[u]! ∧ 0 < c ∧
      F.dist[u]! = some du ∧ du + c ≤ d

variable {adjE : Array (List (Nat × Int × Nat))}

theorem PInv.queue {r : Nat} {F : FrontierP} (h : PInv adjE r F) (q : List Nat) : PInv adjE r { F with queue := q } :=
  ⟨h.src, h.dsize, h.psize, h.srcLab, h.nonneg, h.link⟩

theorem PInv.change {r : Nat} {F : FrontierP} (h : PInv adjE r F) {u w e : Nat} {c du du' : Int}
    (hu : F.dist[u]! = some du') (hle : du' ≤ du) (he : (w, c, e) ∈ adjE[u]!) (hc : 0 < c) (hw : w < adjE.size)
    (F' : FrontierP) (hsrc : F'.src = F.src) (hdist : F'.dist = F.dist.set! w (some (du + c)))
    (hpred : F'.pred = F.pred.set! w (some (u, e))) (hwr : w ≠ r) (hold : ∀ dw, F.dist[w]! = some dw → du + c < dw) :
    PInv adjE r F' ∧ (∀ (x : Nat) (d : Int), F.dist[x]! = some d → ∃ d', F'.dist[x]! = some d' ∧ d' ≤ d) ∧
      (∃ a, F'.dist[w]! = some a ∧ a ≤ du + c) := by
  have hgetd : ∀ v, F'.dist[v]! = if w = v then some (du + c) else F.dist[v]! := by
    intro v; rw [hdist, get_setG]; simp [h.dsize, hw]
  have hgetp : ∀ v, F'.pred[v]! = if w = v then some (u, e) else F.pred[v]! := by
    intro v; rw [hpred, get_setG]; simp [h.psize, hw]
  have hdu0 := h.nonneg u du' hu
  have hwu : w ≠ u := fun hh => by
    have := hold du' (hh ▸ hu)
    omega
  refine ⟨⟨hsrc.trans h.src, ?_, ?_, ?_, ?_, ?_⟩, ?_, ⟨du + c, by rw [hgetd, if_pos rfl], Int.le_refl _⟩⟩
  · rw [hdist]; simp [Array.set!, h.dsize]
  · rw [hpred]; simp [Array.set!, h.psize]
  · rw [hgetd, if_neg hwr]; exact h.srcLab
  · intro x d hd
    rw [hgetd] at hd
    by_cases hwx : w = x
    · rw [if_pos hwx] at hd; cases hd; omega
    · rw [if_neg hwx] at hd; exact h.nonneg x d hd
  · intro x d hxr hd
    rw [hgetd] at hd
    by_cases hwx : w = x
    · rw [if_pos hwx] at hd; cases hd
      subst hwx
      exact ⟨u, e, c, du', by rw [hgetp, if_pos rfl], he, hc, by rw [hgetd, if_neg hwu]; exact hu, by omega⟩
    · rw [if_neg hwx] at hd
      obtain ⟨u0, e0, c0, du0, h1, h2, h3, h4, h5⟩ := h.link x d hxr hd
      by_cases hwu0 : w = u0
      · have := hold du0 (hwu0 ▸ h4)
        exact ⟨u0, e0, c0, du + c, by rw [hgetp, if_neg hwx]; exact h1, h2, h3, by rw [hgetd, if_pos hwu0], by omega⟩
      · exact ⟨u0, e0, c0, du0, by rw [hgetp, if_neg hwx]; exact h1, h2, h3, by rw [hgetd, if_neg hwu0]; exact h4, h5⟩
  · intro x d hd
    by_cases hwx : w = x
    · have := hold d (hwx ▸ hd)
      exact ⟨du + c, by rw [hgetd, if_pos hwx], by omega⟩
    · exact ⟨d, by rw [hgetd, if_neg hwx]; exact hd, Int.le_refl _⟩

theorem PInv.update {r : Nat} {F : FrontierP} (h : PInv adjE r F) {u w e : Nat} {c du du' : Int}
    (hu : F.dist[u]! = some du') (hle : du' ≤ du) (he : (w, c, e) ∈ adjE[u]!) (hc : 0 < c) (hw : w < adjE.size) :
    PInv adjE r (F.update w (du + c) u e) ∧
      (∀ (x : Nat) (d : Int), F.dist[x]! = some d → ∃ d', (F.update w (du + c) u e).dist[x]! = some d' ∧ d' ≤ d) ∧
      (∃ a, (F.update w (du + c) u e).dist[w]! = some a ∧ a ≤ du + c) := by
  have hdu0 := h.nonneg u du' hu
  have hsame : ∀ (x : Nat) (d : Int), F.dist[x]! = some d → ∃ d', F.dist[x]! = some d' ∧ d' ≤ d :=
    fun x d hd => ⟨d, hd, Int.le_refl _⟩
  unfold FrontierP.update
  by_cases hws : w = F.src
  · rw [if_pos (by simpa using hws)]
    refine ⟨h, hsame, 0, ?_, by omega⟩
    rw [hws, h.src]; exact h.srcLab
  · rw [if_neg (by simpa using hws)]
    have hwr : w ≠ r := fun e => hws (e.trans h.src.symm)
    cases hdw : F.dist[w]! with
    | none =>
      simp only []
      exact h.change hu hle he hc hw _ rfl rfl rfl hwr (fun dw hh => by rw [hdw] at hh; cases hh)
    | some dw =>
      simp only []
      by_cases hlt : du + c < dw
      · rw [if_pos hlt]
        exact h.change hu hle he hc hw _ rfl rfl rfl hwr (fun dw' hh => by rw [hdw] at hh; cases hh; exact hlt)
      · rw [if_neg hlt]
        exact ⟨h, hsame, dw, hdw, by omega⟩

theorem bestUpdP_spec (best : Option Int) (common : Nat) (b : FrontierP) (w : Nat) (cw : Int) (β : Int)
    (h : (bestUpdP best common b w cw).1 = some β) :
    (best = some β ∧ (bestUpdP best common b w cw).2 = common) ∨
    (∃ dbw, b.dist[w]! = some dbw ∧ β = cw + dbw ∧ (bestUpdP best common b w cw).2 = w) := by
  unfold bestUpdP at h ⊢
  by_cases hf : b.toF.hasFinite w = true
  · rw [if_pos hf] at h ⊢
    cases hd : b.dist[w]! with
    | none =>
      rw [hd] at h
      exact Or.inl ⟨h, rfl⟩
    | some dbw =>
      rw [hd] at h
      simp only [] at h
      cases best with
      | none =>
        simp only [] at h
        cases h
        exact Or.inr ⟨dbw, rfl, rfl, rfl⟩
      | some bb =>
        simp only [] at h ⊢
        by_cases hlt : cw + dbw < bb
        · rw [if_pos hlt] at h ⊢
          cases h
          exact Or.inr ⟨dbw, rfl, rfl, rfl⟩
        · rw [if_neg hlt] at h ⊢
          exact Or.inl ⟨h, rfl⟩
  · rw [if_neg hf] at h ⊢
    exact Or.inl ⟨h, rfl⟩

/-- the invariant of the two frontiers and the meeting node -/
structure TInv (adjE : Array (List (Nat × Int × Nat))) (s t : Nat) (st : BiStateP) : Prop where
  f : PInv adjE s st.f
  b : PInv adjE t st.b
  com : ∀ β, st.best = some β →
    ∃ a b, st.f.dist[st.common]! = some a ∧ st.b.dist[st.common]! = some b ∧ a + b ≤ β

theorem scan_tinv {wOf : Nat → Int} (hE : AdjEOK adjE wOf) {lim : Option Int} {s t u : Nat} {du : Int} :
    ∀ (l : List (Nat × Int × Nat)) (st : BiStateP), (∀ p ∈ l, p ∈ adjE[u]!) →
      (∃ du', st.f.dist[u]! = some du' ∧ du' ≤ du) → TInv adjE s t st → TInv adjE s t (biScanP lim u du l st)
  | [], st, _, _, h => h
  | (w, c, e) :: r, st, hsub, hdu, h => by
    rw [biScanP_cons]
    have hsub' : ∀ p ∈ r, p ∈ adjE[u]! := fun p hp => hsub p (List.mem_cons_of_mem _ hp)
    by_cases hb : limB lim (du + c) = true
    · rw [if_pos hb]
      exact scan_tinv hE r st hsub' hdu h
    · rw [if_neg hb]
      obtain ⟨du', hdu', hle⟩ := hdu
      have he := hsub (w, c, e) List.mem_cons_self
      have hu : u < adjE.size := by rw [← h.f.dsize]; exact lab_lt _ _ _ hdu'
      have hu' : u < (projAdj adjE).size := by rw [projAdj_size]; exact hu
      have hc : 0 < c := hE.ok.pos u hu' _ (mem_proj he)
      have hw : w < adjE.size := by
        have := hE.ok.range u hu' _ (mem_proj he)
        rw [projAdj_size] at this; exact this
      obtain ⟨hf', hdec, a, ha, hale⟩ := h.f.update hdu' hle he hc hw
      refine scan_tinv hE r _ hsub' ?_ ⟨hf', h.b, ?_⟩
      · obtain ⟨d', hd', hle'⟩ := hdec u du' hdu'
        exact ⟨d', hd', by omega⟩
      · intro β hβ
        rcases bestUpdP_spec _ _ _ _ _ β hβ with ⟨h1, h2⟩ | ⟨dbw, h1, h2, h3⟩
        · obtain ⟨a0, b0, g1, g2, g3⟩ := h.com β h1
          obtain ⟨a1, g4, g5⟩ := hdec _ a0 g1
          show ∃ a b, (st.f.update w (du + c) u e).dist[(bestUpdP st.best st.common st.b w (du + c)).2]! = some a ∧
            st.b.dist[(bestUpdP st.best st.common st.b w (du + c)).2]! = some b ∧ a + b ≤ β
          rw [h2]
          exact ⟨a1, b0, g4, g2, by omega⟩
        · show ∃ a b, (st.f.update w (du + c) u e).dist[(bestUpdP st.best st.common st.b w (du + c)).2]! = some a ∧
            st.b.dist[(bestUpdP st.best st.common st.b w (du + c)).2]! = some b ∧ a + b ≤ β
          rw [h3]
          exact ⟨a, dbw, ha, h1, by omega⟩

theorem loop_tinv {wOf : Nat → Int} (hE : AdjEOK adjE wOf) {lim : Option Int} (pick : Pick) :
    ∀ (fuel : Nat) (s t : Nat) (st : BiStateP), TInv adjE s t st → ∀ st', biLoopP adjE pick lim fuel st = some st' →
      TInv adjE s t st' ∨ TInv adjE t s st'
  | 0, s, t, st, h, st', hres => by
    cases hres; exact Or.inl h
  | fuel + 1, s, t, st, h, st', hres => by
    rw [biLoopP_succ] at hres
    by_cases hs : stopB (toB st) = true
    · rw [if_pos hs] at hres
      cases hres; exact Or.inl h
    · rw [if_neg hs] at hres
      cases hd : st.f.dist[pick fuel st.f.toF.minNodes]! with
      | none =>
        rw [hd] at hres
        cases hres; exact Or.inl h
      | some du =>
        rw [hd] at hres
        simp only [] at hres
        by_cases hb : limB lim du = true
        · rw [if_pos hb] at hres; cases hres
        · rw [if_neg hb] at hres
          have h1 : TInv adjE s t { st with f := { st.f with queue := st.f.queue.erase (pick fuel st.f.toF.minNodes) } } :=
            ⟨h.f.queue _, h.b, h.com⟩
          have h2 := scan_tinv hE (lim := lim) (du := du) adjE[pick fuel st.f.toF.minNodes]!
            { st with f := { st.f with queue := st.f.queue.erase (pick fuel st.f.toF.minNodes) } } (fun p hp => hp)
            ⟨du, hd, Int.le_refl _⟩ h1
          have h3 := loop_tinv hE pick fuel t s _ ⟨h2.b, h2.f, fun β hβ => by
            obtain ⟨a, b, g1, g2, g3⟩ := h2.com β hβ
            exact ⟨b, a, g2, g1, by omega⟩⟩ st' hres
          exact h3.symm

/-! ### walks along edge ids -/

theorem ewalk_lt_right {a b : Nat} {es : List Nat} (h : EWalk adjE a b es) : b < adjE.size := by
  induction h with
  | nil _ h => exact h
  | cons _ _ _ ih => exact ih

theorem ewalk_append {a b c : Nat} {es1 es2 : List Nat} (h1 : EWalk adjE a b es1) (h2 : EWalk adjE b c es2) :
    EWalk adjE a c (es1 ++ es2) := by
  induction h1 with
  | nil _ _ => exact h2
  | cons ha he _ ih => exact EWalk.cons ha he (ih h2)

theorem ewalk_rev {wOf : Nat → Int} (hE : AdjEOK adjE wOf) {a b : Nat} {es : List Nat} (h : EWalk adjE a b es) :
    EWalk adjE b a es.reverse := by
  induction h with
  | nil a h => exact EWalk.nil a h
  | @cons a v b c e es ha he r ih =>
    have hv : v < adjE.size := by
      have := hE.ok.range a (by rw [projAdj_size]; exact ha) _ (mem_proj he)
      rw [projAdj_size] at this; exact this
    have he' : (a, c, e) ∈ adjE[v]! := hE.symm a ha _ he
    rw [List.reverse_cons]
    exact ewalk_append ih (EWalk.cons hv he' (EWalk.nil a ha))

theorem ewalk_adj {wOf : Nat → Int} (hE : AdjEOK adjE wOf) {a b : Nat} {es : List Nat} (h : EWalk adjE a b es) :
    AdjWalk (projAdj adjE) a b (es.map wOf).sum := by
  induction h with
  | nil a h => exact AdjWalk.nil a (by rw [projAdj_size]; exact h)
  | @cons a v b c e es ha he r ih =>
    have := hE.wt a ha _ he
    simp only at this
    rw [List.map_cons, List.sum_cons, this]
    exact AdjWalk.cons (by rw [projAdj_size]; exact ha) (mem_proj he) ih

/-! ### the chain of predecessor records -/

/-- `es` = the edge ids met when following the predecessor records from `x` back to the source -/
inductive PChain (F : FrontierP) : Nat → List Nat → Prop
  | nil : PChain F F.src []
  | cons {x u e : Nat} {es : List Nat} (hx : x ≠ F.src) (hp : F.pred[x]! = some (u, e)) (r : PChain F u es) :
      PChain F x (e :: es)

theorem chain_exists {wOf : Nat → Int} (hE : AdjEOK adjE wOf) {r : Nat} {F : FrontierP} (h : PInv adjE r F) :
    ∀ (n : Nat) (x : Nat) (d : Int), F.dist[x]! = some d → d ≤ n →
      ∃ (es ns : List Nat), PChain F x es ∧ EWalk adjE x r es ∧ (es.map wOf).sum ≤ d ∧ ns.length = es.length ∧ ns.Nodup ∧
        ∀ y ∈ ns, y < adjE.size ∧ ∃ dy, F.dist[y]! = some dy ∧ dy ≤ d
  | n, x, d, hd, hn => by
    have hx : x < adjE.size := by rw [← h.dsize]; exact lab_lt _ _ _ hd
    have hd0 := h.nonneg x d hd
    by_cases hxr : x = r
    · subst hxr
      refine ⟨[], [], ?_, EWalk.nil x hx, by simpa using hd0, rfl, List.nodup_nil, fun y hy => by cases hy⟩
      have := PChain.nil (F := F)
      rw [h.src] at this
      exact this
    · obtain ⟨u, e, c, du, h1, h2, h3, h4, h5⟩ := h.link x d hxr hd
      have hdu0 := h.nonneg u du h4
      cases n with
      | zero => omega
      | succ n =>
        obtain ⟨es, ns, g1, g2, g3, g4, g5, g6⟩ := chain_exists hE h n u du h4 (by omega)
        have hu : u < adjE.size := by rw [← h.dsize]; exact lab_lt _ _ _ h4
        have hwt := hE.wt u hu _ h2
        simp only at hwt
        refine ⟨e :: es, x :: ns, PChain.cons (by rw [h.src]; exact hxr) h1 g1,
          EWalk.cons hx (hE.symm u hu _ h2) g2, ?_, by simp [g4], List.nodup_cons.2 ⟨?_, g5⟩, ?_⟩
        · rw [List.map_cons, List.sum_cons, hwt]; omega
        · intro hxn
          obtain ⟨_, dy, hy1, hy2⟩ := g6 x hxn
          rw [hd] at hy1; cases hy1; omega
        · intro y hy
          rcases List.mem_cons.1 hy with hy | hy
          · subst hy; exact ⟨hx, d, hd, Int.le_refl _⟩
          · obtain ⟨q1, dy, q2, q3⟩ := g6 y hy
            exact ⟨q1, dy, q2, by omega⟩

theorem chain_exists' {wOf : Nat → Int} (hE : AdjEOK adjE wOf) {r : Nat} {F : FrontierP} (h : PInv adjE r F)
    (x : Nat) (d : Int) (hd : F.dist[x]! = some d) :
    ∃ es, PChain F x es ∧ EWalk adjE x r es ∧ (es.map wOf).sum ≤ d ∧ es.length ≤ adjE.size := by
  obtain ⟨es, ns, g1, g2, g3, g4, g5, g6⟩ := chain_exists hE h d.toNat x d hd (by omega)
  refine ⟨es, g1, g2, g3, ?_⟩
  rw [← g4]
  exact nodup_length_le adjE.size ns g5 (fun y hy => (g6 y hy).1)

/-! ### the reconstruction -/

/-- insert the edge ids one by one, `none` = a duplicate -/
def pushAll : List Nat → List Nat → Option (List Nat)
  | [], acc => some acc
  | e :: es, acc => if acc.contains e then none else pushAll es (e :: acc)

theorem tracePath_eq {F : FrontierP} {x : Nat} {es : List Nat} (h : PChain F x es) :
    ∀ (fuel : Nat) (acc : List Nat), es.length ≤ fuel → tracePath F fuel x acc = pushAll es acc := by
  induction h with
  | nil =>
    intro fuel acc _
    cases fuel with
    | zero => rfl
    | succ k => simp [tracePath, pushAll]
  | @cons x u e es hx hp r ih =>
    intro fuel acc hf
    cases fuel with
    | zero => simp at hf
    | succ k =>
      rw [tracePath, if_neg (by simpa using hx), hp]
      simp only [pushAll]
      rw [ih k (e :: acc) (by simpa using hf)]

theorem pushAll_some : ∀ (es acc acc' : List Nat), pushAll es acc = some acc' →
    acc' = es.reverse ++ acc ∧ (acc.Nodup → acc'.Nodup)
  | [], acc, acc', h => by
    cases h; exact ⟨rfl, fun h => h⟩
  | e :: es, acc, acc', h => by
    rw [pushAll] at h
    by_cases he : acc.contains e = true
    · rw [if_pos he] at h; cases h
    · rw [if_neg he] at h
      obtain ⟨h1, h2⟩ := pushAll_some es (e :: acc) acc' h
      refine ⟨by rw [h1]; simp, fun hnd => h2 (List.nodup_cons.2 ⟨by simpa using he, hnd⟩)⟩

theorem pushAll_none : ∀ (es acc : List Nat), pushAll es acc = none → ¬ (es.reverse ++ acc).Nodup
  | [], acc, h => by cases h
  | e :: es, acc, h => by
    rw [pushAll] at h
    by_cases he : acc.contains e = true
    · intro hnd
      have he' : e ∈ acc := by simpa using he
      rw [List.nodup_append] at hnd
      exact hnd.2.2 e (by simp) e he' rfl
    · rw [if_neg he] at h
      have := pushAll_none es (e :: acc) h
      simpa using this

/-! ### the result -/

theorem sum_perm {l l' : List Int} (h : l.Perm l') : l.sum = l'.sum := by
  induction h with
  | nil => rfl
  | cons x _ ih => simp only [List.sum_cons, ih]
  | swap x y l => simp only [List.sum_cons]; omega
  | trans _ _ ih1 ih2 => exact ih1.trans ih2

theorem setOf_perm' {l l' : List Nat} (h : l.Perm l') : setOf l = setOf l' :=
  StrictSorted.ext (setOf_sorted l) (setOf_sorted l') (fun z => by rw [mem_setOf, mem_setOf]; exact h.mem_iff)

theorem sum_two (wOf : Nat → Int) {es1 es2 es : List Nat} (h : es.Perm (es2.reverse ++ es1.reverse)) :
    (es.map wOf).sum = (es1.map wOf).sum + (es2.map wOf).sum := by
  have h2 : es.Perm (es2 ++ es1) := h.trans ((List.reverse_perm es2).append (List.reverse_perm es1))
  rw [sum_perm (h2.map wOf), List.map_append, List.sum_append]
  omega

theorem PInv.init (s : Nat) (hs : s < adjE.size) : PInv adjE s (FrontierP.init adjE.size s) := by
  have hget : ∀ v, (FrontierP.init adjE.size s).dist[v]! = if s = v then some 0 else none := by
    intro v
    show ((Array.replicate adjE.size none).set! s (some 0))[v]! = _
    rw [get_setG]
    have hrep : (Array.replicate adjE.size (none : Option Int))[v]! = none := by
      by_cases hv : v < adjE.size
      · simp [hv]
      · simp [hv]; rfl
    by_cases hsv : s = v
    · rw [if_pos ⟨hsv, by simpa using hs⟩, if_pos hsv]
    · rw [if_neg (fun hh => hsv hh.1), if_neg hsv, hrep]
  refine ⟨rfl, ?_, ?_, by rw [hget, if_pos rfl], ?_, ?_⟩
  · show ((Array.replicate adjE.size none).set! s (some 0)).size = _
    simp [Array.set!]
  · show (Array.replicate adjE.size none).size = _
    simp
  · intro x d hd
    rw [hget] at hd
    by_cases hsx : s = x
    · rw [if_pos hsx] at hd; cases hd; exact Int.le_refl _
    · rw [if_neg hsx] at hd; cases hd
  · intro x d hx hd
    rw [hget, if_neg (fun hh => hx hh.symm)] at hd
    cases hd

theorem exists_walk {wOf : Nat → Int} (hE : AdjEOK adjE wOf) {s t s' t' : Nat} {st : BiStateP}
    (h : TInv adjE s' t' st) (hor : (s' = s ∧ t' = t) ∨ (s' = t ∧ t' = s)) {β : Int} (hβ : st.best = some β) :
    ∃ es1 es2 es, PChain st.f st.common es1 ∧ PChain st.b st.common es2 ∧ es1.length ≤ adjE.size ∧
      es2.length ≤ adjE.size ∧ EWalk adjE s t es ∧ es.Perm (es2.reverse ++ es1.reverse) ∧ (es.map wOf).sum ≤ β := by
  obtain ⟨a, b, ha, hb, hab⟩ := h.com β hβ
  obtain ⟨es1, c1, w1, s1, l1⟩ := chain_exists' hE h.f _ a ha
  obtain ⟨es2, c2, w2, s2, l2⟩ := chain_exists' hE h.b _ b hb
  rcases hor with ⟨rfl, rfl⟩ | ⟨rfl, rfl⟩
  · have hp : (es1.reverse ++ es2).Perm (es2.reverse ++ es1.reverse) :=
      List.perm_append_comm.trans ((List.reverse_perm es2).symm.append_right _)
    refine ⟨es1, es2, es1.reverse ++ es2, c1, c2, l1, l2, ewalk_append (ewalk_rev hE w1) w2, hp, ?_⟩
    rw [sum_two wOf hp]; omega
  · have hp : (es2.reverse ++ es1).Perm (es2.reverse ++ es1.reverse) :=
      (List.reverse_perm es1).symm.append_left _
    refine ⟨es1, es2, es2.reverse ++ es1, c1, c2, l1, l2, ewalk_append (ewalk_rev hE w2) w1, hp, ?_⟩
    rw [sum_two wOf hp]; omega

/-- what `biSearch` does after the loop -/
def finishP (adjE : Array (List (Nat × Int × Nat))) (wOf : Nat → Int) (lim : Option Int) (st : BiStateP) :
    Option (Int × List Nat) :=
  match st.best with
  | none => none
  | some b =>
    if limB lim b then none
    else
      match tracePath st.f (adjE.size + 1) st.common [] with
      | none => none
      | some acc1 =>
        match tracePath st.b (adjE.size + 1) st.common acc1 with
        | none => none
        | some acc2 => some ((acc2.map wOf).sum, setOf acc2)

theorem biSearch_eq (pick : Pick) (wOf : Nat → Int) (lim : Option Int) (s t : Nat) :
    biSearch adjE pick wOf lim s t =
      match biLoopP adjE pick lim (2 * adjE.size + 2)
        { f := FrontierP.init adjE.size s, b := FrontierP.init adjE.size t, best := none, common := 0 } with
      | none => none
      | some st => finishP adjE wOf lim st := rfl

theorem biDijkstra_P (pick : Pick) (lim : Option Int) (s t : Nat) :
    biDijkstra (projAdj adjE) pick lim s t = finish lim ((biLoopP adjE pick lim (2 * adjE.size + 2)
      { f := FrontierP.init adjE.size s, b := FrontierP.init adjE.size t, best := none, common := 0 }).map
        fun s => s.best) := by
  rw [biDijkstra_eq, biLoopP_toB, projAdj_size]
  rfl

theorem finishP_spec {wOf : Nat → Int} (hE : AdjEOK adjE wOf) {lim : Option Int} {s t s' t' : Nat} {st : BiStateP}
    (h : TInv adjE s' t' st) (hor : (s' = s ∧ t' = t) ∨ (s' = t ∧ t' = s)) {β : Int} (hβ : st.best = some β)
    (hb : Below lim β) (hD : IsDist (projAdj adjE) s t β) :
    (∃ es, finishP adjE wOf lim st = some (β, setOf es) ∧ EWalk adjE s t es ∧ es.Nodup ∧ (es.map wOf).sum = β) ∨
    (finishP adjE wOf lim st = none ∧ ∃ es, EWalk adjE s t es ∧ (es.map wOf).sum = β ∧ ¬ es.Nodup) := by
  obtain ⟨es1, es2, es, c1, c2, l1, l2, hw, hp, hsum⟩ := exists_walk hE h hor hβ
  have hsum' : (es.map wOf).sum = β := by
    have := hD.2 _ (ewalk_adj hE hw)
    omega
  unfold finishP
  rw [hβ]
  simp only []
  rw [if_neg (fun hh => (limB_iff lim _).1 hh hb), tracePath_eq c1 _ _ (by omega)]
  cases h1 : pushAll es1 [] with
  | none =>
    refine Or.inr ⟨rfl, es, hw, hsum', fun hnd => ?_⟩
    have hnd2 := (hp.nodup_iff).1 hnd
    have := pushAll_none _ _ h1
    rw [List.append_nil] at this
    exact this (List.nodup_append.1 hnd2).2.1
  | some acc1 =>
    obtain ⟨e1, n1⟩ := pushAll_some _ _ _ h1
    simp only []
    rw [tracePath_eq c2 _ _ (by omega)]
    cases h2 : pushAll es2 acc1 with
    | none =>
      refine Or.inr ⟨rfl, es, hw, hsum', fun hnd => ?_⟩
      have hnd2 := (hp.nodup_iff).1 hnd
      have := pushAll_none _ _ h2
      rw [e1, List.append_nil] at this
      exact this hnd2
    | some acc2 =>
      obtain ⟨e2, n2⟩ := pushAll_some _ _ _ h2
      have hp2 : es.Perm acc2 := by rw [e2, e1, List.append_nil]; exact hp
      refine Or.inl ⟨es, ?_, hw, (hp2.nodup_iff).2 (n2 (n1 List.nodup_nil)), hsum'⟩
      simp only []
      rw [← setOf_perm' hp2, ← sum_perm (hp2.map wOf), hsum']

end BiSearchL

open BiDijL in
/-- **soundness**: whatever the search returns is the edge set of a walk from `s` to `t` without repeated edge, its
weight is the sum of the edge weights, that weight is the DISTANCE from `s` to `t`, and it is below the limit -/
theorem biSearch_sound (adjE : Array (List (Nat × Int × Nat))) (wOf : Nat → Int) (h : AdjEOK adjE wOf)
    (pick : Pick) (hp : PickOK pick) (limit : Option Int) (s t : Nat)
    (hs : s < adjE.size) (ht : t < adjE.size) (hst : s ≠ t) (w : Int) (Z : List Nat)
    (hres : biSearch adjE pick wOf limit s t = some (w, Z)) :
    ∃ es, EWalk adjE s t es ∧ es.Nodup ∧ Z = setOf es ∧ w = (es.map wOf).sum ∧
      IsDist (projAdj adjE) s t w ∧ Below limit w := by
  have hinit : BiSearchL.TInv adjE s t
      { f := FrontierP.init adjE.size s, b := FrontierP.init adjE.size t, best := none, common := 0 } :=
    ⟨BiSearchL.PInv.init s hs, BiSearchL.PInv.init t ht, fun β hβ => by cases hβ⟩
  have hcor := biDijkstra_correct (projAdj adjE) h.ok pick hp limit s t
    (by rw [BiSearchL.projAdj_size]; exact hs) (by rw [BiSearchL.projAdj_size]; exact ht) hst
  rw [BiSearchL.biDijkstra_P] at hcor
  rw [BiSearchL.biSearch_eq] at hres
  cases hloop : biLoopP adjE pick limit (2 * adjE.size + 2)
      { f := FrontierP.init adjE.size s, b := FrontierP.init adjE.size t, best := none, common := 0 } with
  | none => rw [hloop] at hres; cases hres
  | some st =>
    rw [hloop] at hres hcor
    simp only [] at hres
    have hinv := BiSearchL.loop_tinv h pick _ s t _ hinit st hloop
    cases hbest : st.best with
    | none =>
      unfold BiSearchL.finishP at hres
      rw [hbest] at hres
      cases hres
    | some b =>
      by_cases hb : Below limit b
      · have hfin : finish limit (Option.map (fun s => s.best) (some st)) = some b := by
          show finish limit (some st.best) = some b
          rw [hbest]; exact finish_below b hb
        obtain ⟨hD, _⟩ := hcor.2 b hfin
        have hspec : (∃ es, BiSearchL.finishP adjE wOf limit st = some (b, setOf es) ∧ EWalk adjE s t es ∧ es.Nodup ∧
              (es.map wOf).sum = b) ∨
            (BiSearchL.finishP adjE wOf limit st = none ∧ ∃ es, EWalk adjE s t es ∧ (es.map wOf).sum = b ∧ ¬ es.Nodup) := by
          rcases hinv with hinv | hinv
          · exact BiSearchL.finishP_spec h hinv (Or.inl ⟨rfl, rfl⟩) hbest hb hD
          · exact BiSearchL.finishP_spec h hinv (Or.inr ⟨rfl, rfl⟩) hbest hb hD
        rcases hspec with ⟨es, h1, h2, h3, h4⟩ | ⟨h1, _⟩
        · rw [h1] at hres
          cases hres
          exact ⟨es, h2, h3, rfl, h4.symm, hD, hb⟩
        · rw [h1] at hres; cases hres
      · unfold BiSearchL.finishP at hres
        rw [hbest] at hres
        simp only [] at hres
        rw [if_pos ((BiSearchL.limB_iff limit _).2 hb)] at hres
        cases hres

open BiDijL in
/-- **completeness**: if the distance `D` from `s` to `t` is below the limit, the search returns a result of weight `D`,
unless the shortest walk it reconstructed repeats an edge (then it returns nothing) -/
theorem biSearch_complete (adjE : Array (List (Nat × Int × Nat))) (wOf : Nat → Int) (h : AdjEOK adjE wOf)
    (pick : Pick) (hp : PickOK pick) (limit : Option Int) (s t : Nat)
    (hs : s < adjE.size) (ht : t < adjE.size) (hst : s ≠ t) (D : Int)
    (hD : IsDist (projAdj adjE) s t D) (hl : Below limit D) :
    (∃ Z, biSearch adjE pick wOf limit s t = some (D, Z)) ∨
    (biSearch adjE pick wOf limit s t = none ∧
      ∃ es, EWalk adjE s t es ∧ (es.map wOf).sum = D ∧ ¬ es.Nodup) := by
  have hinit : BiSearchL.TInv adjE s t
      { f := FrontierP.init adjE.size s, b := FrontierP.init adjE.size t, best := none, common := 0 } :=
    ⟨BiSearchL.PInv.init s hs, BiSearchL.PInv.init t ht, fun β hβ => by cases hβ⟩
  have hcor := biDijkstra_correct (projAdj adjE) h.ok pick hp limit s t
    (by rw [BiSearchL.projAdj_size]; exact hs) (by rw [BiSearchL.projAdj_size]; exact ht) hst
  rw [BiSearchL.biDijkstra_P] at hcor
  have hfin := hcor.1 D hD hl
  rw [BiSearchL.biSearch_eq]
  cases hloop : biLoopP adjE pick limit (2 * adjE.size + 2)
      { f := FrontierP.init adjE.size s, b := FrontierP.init adjE.size t, best := none, common := 0 } with
  | none => rw [hloop] at hfin; cases hfin
  | some st =>
    rw [hloop] at hfin
    simp only []
    have hinv := BiSearchL.loop_tinv h pick _ s t _ hinit st hloop
    have hfin' : finish limit (some st.best) = some D := hfin
    cases hbest : st.best with
    | none => rw [hbest] at hfin'; cases hfin'
    | some b =>
      rw [hbest] at hfin'
      by_cases hb : Below limit b
      · rw [finish_below b hb] at hfin'
        have hbD : b = D := by cases hfin'; rfl
        subst hbD
        have hspec : (∃ es, BiSearchL.finishP adjE wOf limit st = some (b, setOf es) ∧ EWalk adjE s t es ∧ es.Nodup ∧
              (es.map wOf).sum = b) ∨
            (BiSearchL.finishP adjE wOf limit st = none ∧ ∃ es, EWalk adjE s t es ∧ (es.map wOf).sum = b ∧ ¬ es.Nodup) := by
          rcases hinv with hinv | hinv
          · exact BiSearchL.finishP_spec h hinv (Or.inl ⟨rfl, rfl⟩) hbest hb hD
          · exact BiSearchL.finishP_spec h hinv (Or.inr ⟨rfl, rfl⟩) hbest hb hD
        rcases hspec with ⟨es, h1, _, _, _⟩ | ⟨h1, h2⟩
        · exact Or.inl ⟨setOf es, h1⟩
        · exact Or.inr ⟨h1, h2⟩
      · rw [finish_not_below b hb] at hfin'
        cases hfin'

end Parmcb
