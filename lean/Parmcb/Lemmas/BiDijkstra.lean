import Parmcb.Model.BiDijkstra
import Parmcb.Lemmas.Graph
/-!
Correctness of the literal model of `bidirectional_signed_dijkstra` for EVERY behaviour of the two heaps.  Core Lean only.
-/
namespace Parmcb

/-- the adjacency lists describe an undirected graph with strictly positive weights on the nodes `< adj.size` -/
structure AdjOK (adj : Array (List (Nat × Int))) : Prop where
  range : ∀ u, u < adj.size → ∀ p ∈ adj[u]!, p.1 < adj.size
  pos : ∀ u, u < adj.size → ∀ p ∈ adj[u]!, 0 < p.2
  symm : ∀ u, u < adj.size → ∀ p ∈ adj[u]!, (u, p.2) ∈ adj[p.1]!

/-- a walk from `a` to `b` of total weight `D` -/
inductive AdjWalk (adj : Array (List (Nat × Int))) : Nat → Nat → Int → Prop
  | nil (a : Nat) (h : a < adj.size) : AdjWalk adj a a 0
  | cons {a v b : Nat} {c D : Int} (ha : a < adj.size) (h : (v, c) ∈ adj[a]!) (r : AdjWalk adj v b D) : AdjWalk adj a b (c + D)

/-- `D` is the distance from `s` to `t` -/
def IsDist (adj : Array (List (Nat × Int))) (s t : Nat) (D : Int) : Prop :=
  AdjWalk adj s t D ∧ ∀ D', AdjWalk adj s t D' → D ≤ D'

/-- the heap hands out one of the candidates -/
def PickOK (pick : Pick) : Prop := ∀ i l, l ≠ [] → pick i l ∈ l

namespace BiDijL

/-- `x` is below the limit (no limit: always) -/
def Below (L : Option Int) (x : Int) : Prop := ∀ l, L = some l → x < l

theorem limTest (L : Option Int) (x : Int) :
    (match L with | some l => !(x < l) | none => false) = true ↔ ¬ Below L x := by
  cases L with
  | none => simp [Below]
  | some l => simp [Below]

theorem Below.mono {L : Option Int} {x y : Int} (h : Below L y) (hxy : x ≤ y) : Below L x := fun l hl => by
  have := h l hl; omega

theorem get_set (a : Array (Option Int)) (i j : Nat) (x : Option Int) :
    (a.set! i x)[j]! = if i = j ∧ i < a.size then x else a[j]! := by
  simp only [Array.set!, Array.getElem!_eq_getD, Array.getD_eq_getD_getElem?, Array.getElem?_setIfInBounds]
  by_cases h : i = j
  · subst h
    by_cases h2 : i < a.size
    · simp [h2]
    · simp [h2]
  · simp [h]

theorem size_set (a : Array (Option Int)) (i : Nat) (x : Option Int) : (a.set! i x).size = a.size := by
  simp [Array.set!]

/-- pigeonhole -/
theorem nodup_length_le : ∀ (n : Nat) (l : List Nat), l.Nodup → (∀ x ∈ l, x < n) → l.length ≤ n
  | 0, l, _, h => by
    cases l with
    | nil => exact Nat.le_refl _
    | cons a r => exact absurd (h a List.mem_cons_self) (Nat.not_lt_zero _)
  | n + 1, l, hnd, h => by
    by_cases hn : n ∈ l
    · have := nodup_length_le n (l.erase n) (hnd.erase n) (by
        intro x hx
        have hx' := (hnd.mem_erase_iff).1 hx
        have := h x hx'.2
        omega)
      rw [List.length_erase_of_mem hn] at this
      omega
    · have := nodup_length_le n l hnd (by
        intro x hx
        have := h x hx
        have : x ≠ n := fun hh => hn (hh ▸ hx)
        omega)
      omega

/-! ### walks -/

theorem walk_cast {adj : Array (List (Nat × Int))} {a b : Nat} {D D' : Int} (h : AdjWalk adj a b D) (e : D = D') :
    AdjWalk adj a b D' := e ▸ h

theorem walk_lt_left {adj : Array (List (Nat × Int))} {a b : Nat} {D : Int} (h : AdjWalk adj a b D) : a < adj.size := by
  cases h with
  | nil _ h => exact h
  | cons ha _ _ => exact ha

theorem walk_lt_right {adj : Array (List (Nat × Int))} {a b : Nat} {D : Int} (h : AdjWalk adj a b D) : b < adj.size := by
  induction h with
  | nil _ h => exact h
  | cons _ _ _ ih => exact ih

theorem walk_nonneg {adj : Array (List (Nat × Int))} (hadj : AdjOK adj) {a b : Nat} {D : Int} (h : AdjWalk adj a b D) :
    0 ≤ D := by
  induction h with
  | nil _ _ => exact Int.le_refl _
  | cons ha he _ ih =>
    have := hadj.pos _ ha _ he
    simp only at this
    omega

theorem walk_append {adj : Array (List (Nat × Int))} {a b c : Nat} {D E : Int} (h1 : AdjWalk adj a b D)
    (h2 : AdjWalk adj b c E) : AdjWalk adj a c (D + E) := by
  induction h1 with
  | nil _ _ => exact walk_cast h2 (by omega)
  | cons ha he _ ih => exact walk_cast (AdjWalk.cons ha he (ih h2)) (by omega)

theorem walk_edge {adj : Array (List (Nat × Int))} (hadj : AdjOK adj) {a w : Nat} {c : Int} (ha : a < adj.size)
    (he : (w, c) ∈ adj[a]!) : AdjWalk adj a w c :=
  walk_cast (AdjWalk.cons ha he (AdjWalk.nil w (hadj.range a ha _ he))) (by omega)

theorem walk_snoc {adj : Array (List (Nat × Int))} (hadj : AdjOK adj) {a b w : Nat} {c D : Int} (h1 : AdjWalk adj a b D)
    (he : (w, c) ∈ adj[b]!) : AdjWalk adj a w (D + c) :=
  walk_append h1 (walk_edge hadj (walk_lt_right h1) he)

theorem walk_rev {adj : Array (List (Nat × Int))} (hadj : AdjOK adj) {a b : Nat} {D : Int} (h : AdjWalk adj a b D) :
    AdjWalk adj b a D := by
  induction h with
  | nil a h => exact AdjWalk.nil a h
  | cons ha he _ ih =>
    have hv := hadj.range _ ha _ he
    have he' := hadj.symm _ ha _ he
    exact walk_cast (walk_append ih (walk_edge hadj hv he')) (by omega)

/-! ### `findMin`, `minNodes` -/

def fmStep (dist : Array (Option Int)) (acc : Option Int) (v : Nat) : Option Int :=
  match dist[v]!, acc with
  | some d, none => some d
  | some d, some a => if d < a then some d else some a
  | none, a => a

theorem findMin_eq (F : Frontier) : F.findMin = F.queue.foldl (fmStep F.dist) none := rfl

theorem fmStep_spec (dist : Array (Option Int)) (acc : Option Int) (v : Nat) :
    (∀ a, acc = some a → ∃ m, fmStep dist acc v = some m ∧ m ≤ a) ∧
    (∀ d, dist[v]! = some d → ∃ m, fmStep dist acc v = some m ∧ m ≤ d) ∧
    (∀ m, fmStep dist acc v = some m → acc = some m ∨ dist[v]! = some m) := by
  unfold fmStep
  cases hd : dist[v]! with
  | none => exact ⟨fun a ha => ⟨a, ha, Int.le_refl _⟩, fun d hd => (by cases hd), fun m hm => Or.inl hm⟩
  | some d =>
    cases acc with
    | none => simp
    | some a =>
      by_cases hlt : d < a
      · simp [hlt]; omega
      · simp [hlt]; omega

theorem foldl_spec (dist : Array (Option Int)) : ∀ (q : List Nat) (acc : Option Int),
    (∀ a, acc = some a → ∃ m, q.foldl (fmStep dist) acc = some m ∧ m ≤ a) ∧
    (∀ v ∈ q, ∀ d, dist[v]! = some d → ∃ m, q.foldl (fmStep dist) acc = some m ∧ m ≤ d) ∧
    (∀ m, q.foldl (fmStep dist) acc = some m → acc = some m ∨ ∃ v ∈ q, dist[v]! = some m)
  | [], acc => by
    exact ⟨fun a ha => ⟨a, ha, Int.le_refl _⟩, fun v hv => absurd hv List.not_mem_nil, fun m hm => Or.inl hm⟩
  | v :: q, acc => by
    obtain ⟨s1, s2, s3⟩ := fmStep_spec dist acc v
    obtain ⟨i1, i2, i3⟩ := foldl_spec dist q (fmStep dist acc v)
    rw [List.foldl_cons]
    refine ⟨fun a ha => ?_, fun x hx d hd => ?_, fun m hm => ?_⟩
    · obtain ⟨m, hm, hle⟩ := s1 a ha
      obtain ⟨m', hm', hle'⟩ := i1 m hm
      exact ⟨m', hm', by omega⟩
    · rcases List.mem_cons.1 hx with hx | hx
      · subst hx
        obtain ⟨m, hm, hle⟩ := s2 d hd
        obtain ⟨m', hm', hle'⟩ := i1 m hm
        exact ⟨m', hm', by omega⟩
      · exact i2 x hx d hd
    · rcases i3 m hm with h | ⟨x, hx, hd⟩
      · rcases s3 m h with h | h
        · exact Or.inl h
        · exact Or.inr ⟨v, List.mem_cons_self, h⟩
      · exact Or.inr ⟨x, List.mem_cons_of_mem _ hx, hd⟩

theorem findMin_le (F : Frontier) (v : Nat) (hv : v ∈ F.queue) (d : Int) (hd : F.dist[v]! = some d) :
    ∃ m, F.findMin = some m ∧ m ≤ d := by
  rw [findMin_eq]
  exact (foldl_spec F.dist F.queue none).2.1 v hv d hd

theorem findMin_attained (F : Frontier) (m : Int) (h : F.findMin = some m) : ∃ v ∈ F.queue, F.dist[v]! = some m := by
  rw [findMin_eq] at h
  rcases (foldl_spec F.dist F.queue none).2.2 m h with h | h
  · cases h
  · exact h

/-- the popped node -/
theorem pick_spec (pick : Pick) (hp : PickOK pick) (i : Nat) (F : Frontier) (hne : F.queue ≠ [])
    (hlab : ∀ v ∈ F.queue, ∃ d, F.dist[v]! = some d) :
    ∃ du, pick i F.minNodes ∈ F.queue ∧ F.dist[pick i F.minNodes]! = some du ∧ F.findMin = some du ∧
      ∀ v ∈ F.queue, ∀ d, F.dist[v]! = some d → du ≤ d := by
  cases hq : F.queue with
  | nil => exact absurd hq hne
  | cons x r =>
    have hx : x ∈ F.queue := by rw [hq]; exact List.mem_cons_self
    obtain ⟨dx, hdx⟩ := hlab x hx
    obtain ⟨m, hm, _⟩ := findMin_le F x hx dx hdx
    obtain ⟨y, hy, hdy⟩ := findMin_attained F m hm
    have hmn : F.minNodes = F.queue.filter fun v => F.dist[v]! == some m := by
      unfold Frontier.minNodes; rw [hm]
    have hyin : y ∈ F.minNodes := by
      rw [hmn]; exact List.mem_filter.2 ⟨hy, by simp [hdy]⟩
    have hpk := hp i F.minNodes (fun h => by rw [h] at hyin; cases hyin)
    rw [hmn] at hpk
    obtain ⟨h1, h2⟩ := List.mem_filter.1 hpk
    rw [← hmn] at h1 h2
    rw [← hq]
    refine ⟨m, h1, by simpa using h2, hm, fun v hv d hd => ?_⟩
    obtain ⟨m', hm', hle⟩ := findMin_le F v hv d hd
    rw [hm] at hm'; cases hm'; exact hle

/-! ### the invariant of one frontier

`P` = the popped ("settled") nodes; `u`, `pend` = the node being scanned and the part of its adjacency list not yet
relaxed (`pend = []` at the top of an iteration). -/

structure FInv (adj : Array (List (Nat × Int))) (L : Option Int) (r : Nat) (F : Frontier) (P : List Nat)
    (u : Nat) (pend : List (Nat × Int)) : Prop where
  src : F.src = r
  srcLab : F.dist[r]! = some 0
  size : F.dist.size = adj.size
  walk : ∀ v d, F.dist[v]! = some d → AdjWalk adj r v d
  qLab : ∀ v ∈ F.queue, ∃ d, F.dist[v]! = some d
  pLab : ∀ v ∈ P, ∃ d, F.dist[v]! = some d
  qNd : F.queue.Nodup
  pNd : P.Nodup
  disj : ∀ v ∈ P, v ∉ F.queue
  labPQ : ∀ v d, F.dist[v]! = some d → v ∈ P ∨ v ∈ F.queue
  exact : ∀ v ∈ P, ∀ d, F.dist[v]! = some d → ∀ W, AdjWalk adj r v W → Below L W → d ≤ W
  edge : ∀ a ∈ P, ∀ da, F.dist[a]! = some da → ∀ p ∈ adj[a]!, (a = u → p ∉ pend) → Below L (da + p.2) →
      ∃ dw, F.dist[p.1]! = some dw ∧ dw ≤ da + p.2

variable {adj : Array (List (Nat × Int))} {L : Option Int}

theorem FInv.reset {r : Nat} {F : Frontier} {P : List Nat} {u : Nat} (h : FInv adj L r F P u []) (u' : Nat) :
    FInv adj L r F P u' [] :=
  { h with edge := fun a ha da hda p hp _ hb => h.edge a ha da hda p hp (fun _ => List.not_mem_nil) hb }

theorem FInv.skip {r : Nat} {F : Frontier} {P : List Nat} {u : Nat} {e : Nat × Int} {pend : List (Nat × Int)}
    (h : FInv adj L r F P u (e :: pend)) {du : Int} (hdu : F.dist[u]! = some du) (hnb : ¬ Below L (du + e.2)) :
    FInv adj L r F P u pend := by
  refine { h with edge := ?_ }
  intro a ha da hda p hp hnp hb
  by_cases hpe : a = u ∧ p = e
  · obtain ⟨h1, h2⟩ := hpe
    subst h1; subst h2
    rw [hdu] at hda; cases hda
    exact absurd hb hnb
  · refine h.edge a ha da hda p hp (fun hau hmem => ?_) hb
    rcases List.mem_cons.1 hmem with h1 | h1
    · exact hpe ⟨hau, h1⟩
    · exact hnp hau h1

theorem FInv.keep {r : Nat} {F : Frontier} {P : List Nat} {u : Nat} {e : Nat × Int} {pend : List (Nat × Int)}
    (h : FInv adj L r F P u (e :: pend)) {du : Int} (hdu : F.dist[u]! = some du) {dw : Int}
    (hdw : F.dist[e.1]! = some dw) (hle : dw ≤ du + e.2) :
    FInv adj L r F P u pend := by
  refine { h with edge := ?_ }
  intro a ha da hda p hp hnp hb
  by_cases hpe : a = u ∧ p = e
  · obtain ⟨h1, h2⟩ := hpe
    subst h1; subst h2
    rw [hdu] at hda; cases hda
    exact ⟨dw, hdw, hle⟩
  · refine h.edge a ha da hda p hp (fun hau hmem => ?_) hb
    rcases List.mem_cons.1 hmem with h1 | h1
    · exact hpe ⟨hau, h1⟩
    · exact hnp hau h1

/-- the frontier property, started at a settled node -/
theorem FInv.frontier_gen (hadj : AdjOK adj) {r : Nat} {F : Frontier} {P : List Nat} {u : Nat}
    (h : FInv adj L r F P u []) {a z : Nat} {W : Int} (hw : AdjWalk adj a z W) :
    ∀ da, a ∈ P → F.dist[a]! = some da → Below L (da + W) →
      (∃ dz, z ∈ P ∧ F.dist[z]! = some dz ∧ dz ≤ da + W) ∨
      (∃ y dy W1 W2, y ∈ F.queue ∧ F.dist[y]! = some dy ∧ dy ≤ da + W1 ∧ 0 ≤ W1 ∧ AdjWalk adj y z W2 ∧ W1 + W2 = W) := by
  induction hw with
  | nil a _ =>
    intro da haP hda _
    exact Or.inl ⟨da, haP, hda, by omega⟩
  | @cons a v b c D ha he rw ih =>
    intro da haP hda hb
    have hD := walk_nonneg hadj rw
    have hc : 0 < c := hadj.pos a ha _ he
    obtain ⟨dv, hdv, hle⟩ := h.edge a haP da hda (v, c) he (fun _ => List.not_mem_nil)
      (hb.mono (by show da + c ≤ da + (c + D); omega))
    simp only at hdv hle
    rcases h.labPQ v dv hdv with hvP | hvQ
    · rcases ih dv hvP hdv (hb.mono (by omega)) with ⟨dz, h1, h2, h3⟩ | ⟨y, dy, W1, W2, h1, h2, h3, h4, h5, h6⟩
      · exact Or.inl ⟨dz, h1, h2, by omega⟩
      · exact Or.inr ⟨y, dy, c + W1, W2, h1, h2, by omega, by omega, h5, by omega⟩
    · exact Or.inr ⟨v, dv, c, D, hvQ, hdv, hle, by omega, rw, rfl⟩

/-- the frontier property -/
theorem FInv.frontier (hadj : AdjOK adj) {r : Nat} {F : Frontier} {P : List Nat} {u : Nat}
    (h : FInv adj L r F P u []) {z : Nat} {W : Int} (hw : AdjWalk adj r z W) (hb : Below L W) :
      (∃ dz, z ∈ P ∧ F.dist[z]! = some dz ∧ dz ≤ W) ∨
      (∃ y dy W1 W2, y ∈ F.queue ∧ F.dist[y]! = some dy ∧ dy ≤ W1 ∧ 0 ≤ W1 ∧ AdjWalk adj y z W2 ∧ W1 + W2 = W) := by
  rcases h.labPQ r 0 h.srcLab with hr | hr
  · rcases h.frontier_gen hadj hw 0 hr h.srcLab (hb.mono (by omega)) with ⟨dz, h1, h2, h3⟩ |
      ⟨y, dy, W1, W2, h1, h2, h3, h4, h5, h6⟩
    · exact Or.inl ⟨dz, h1, h2, by omega⟩
    · exact Or.inr ⟨y, dy, W1, W2, h1, h2, by omega, h4, h5, h6⟩
  · exact Or.inr ⟨r, 0, 0, W, hr, h.srcLab, Int.le_refl _, Int.le_refl _, hw, by omega⟩

/-- popping a node of minimum label -/
theorem FInv.pop (hadj : AdjOK adj) {r : Nat} {F : Frontier} {P : List Nat} {u0 : Nat}
    (h : FInv adj L r F P u0 []) {u : Nat} (hu : u ∈ F.queue) {du : Int} (hdu : F.dist[u]! = some du)
    (hmin : ∀ v ∈ F.queue, ∀ d, F.dist[v]! = some d → du ≤ d) :
    FInv adj L r { F with queue := F.queue.erase u } (u :: P) u adj[u]! := by
  have huP : u ∉ P := fun hh => h.disj u hh hu
  refine { src := h.src, srcLab := h.srcLab, size := h.size, walk := h.walk, qLab := ?_, pLab := ?_, qNd := ?_,
           pNd := ?_, disj := ?_, labPQ := ?_, exact := ?_, edge := ?_ }
  · intro v hv
    exact h.qLab v (List.mem_of_mem_erase hv)
  · intro v hv
    rcases List.mem_cons.1 hv with hv | hv
    · subst hv; exact ⟨du, hdu⟩
    · exact h.pLab v hv
  · exact h.qNd.erase u
  · exact List.nodup_cons.2 ⟨huP, h.pNd⟩
  · intro v hv hq
    have hq' := (h.qNd.mem_erase_iff).1 hq
    rcases List.mem_cons.1 hv with hv | hv
    · exact hq'.1 hv
    · exact h.disj v hv hq'.2
  · intro v d hd
    by_cases hvu : v = u
    · exact Or.inl (hvu ▸ List.mem_cons_self)
    · rcases h.labPQ v d hd with hv | hv
      · exact Or.inl (List.mem_cons_of_mem _ hv)
      · exact Or.inr ((h.qNd.mem_erase_iff).2 ⟨hvu, hv⟩)
  · intro v hv d hd W hW hb
    rcases List.mem_cons.1 hv with hv | hv
    · subst hv
      have hd' : F.dist[v]! = some d := hd
      rw [hdu] at hd'; cases hd'
      rcases h.frontier hadj hW hb with ⟨dz, h1, _, _⟩ | ⟨y, dy, W1, W2, h1, h2, h3, h4, h5, h6⟩
      · exact absurd h1 huP
      · have := hmin y h1 dy h2
        have := walk_nonneg hadj h5
        omega
    · exact h.exact v hv d hd W hW hb
  · intro a ha da hda p hp hnp hb
    rcases List.mem_cons.1 ha with ha | ha
    · subst ha
      exact absurd hp (hnp rfl)
    · exact h.edge a ha da hda p hp (fun _ => List.not_mem_nil) hb

/-- a label is set or decreased -/
theorem FInv.change (hadj : AdjOK adj) {r : Nat} {F : Frontier} {P : List Nat} {u w : Nat} {c : Int}
    {pend : List (Nat × Int)} (h : FInv adj L r F P u ((w, c) :: pend)) {du : Int}
    (hdu : F.dist[u]! = some du) (he : (w, c) ∈ adj[u]!)
    (F' : Frontier) (hsrc : F'.src = F.src) (hdist : F'.dist = F.dist.set! w (some (du + c))) (hwr : w ≠ r)
    (hwP : w ∉ P) (hold : ∀ dw, F.dist[w]! = some dw → du + c < dw)
    (hq : (F'.queue = F.queue ∧ w ∈ F.queue) ∨ (F'.queue = F.queue ++ [w] ∧ w ∉ F.queue)) :
    FInv adj L r F' P u pend ∧ ∀ v ∈ P, F'.dist[v]! = F.dist[v]! := by
  have hwalk : AdjWalk adj r w (du + c) := walk_snoc hadj (h.walk u du hdu) he
  have hwlt : w < F.dist.size := by rw [h.size]; exact walk_lt_right hwalk
  have hget : ∀ v, F'.dist[v]! = if w = v then some (du + c) else F.dist[v]! := by
    intro v; rw [hdist, get_set]; simp [hwlt]
  have hsub : ∀ v, v ∈ F.queue → v ∈ F'.queue := by
    intro v hv
    rcases hq with ⟨hq, _⟩ | ⟨hq, _⟩
    · rw [hq]; exact hv
    · rw [hq]; exact List.mem_append_left _ hv
  have hsup : ∀ v, v ∈ F'.queue → v ∈ F.queue ∨ v = w := by
    intro v hv
    rcases hq with ⟨hq, _⟩ | ⟨hq, _⟩
    · rw [hq] at hv; exact Or.inl hv
    · rw [hq] at hv
      rcases List.mem_append.1 hv with hv | hv
      · exact Or.inl hv
      · exact Or.inr (List.mem_singleton.1 hv)
  have hwq : w ∈ F'.queue := by
    rcases hq with ⟨hq, hw⟩ | ⟨hq, _⟩
    · rw [hq]; exact hw
    · rw [hq]; exact List.mem_append_right _ List.mem_cons_self
  have hneP : ∀ v ∈ P, ¬ w = v := fun v hv e => hwP (e ▸ hv)
  refine ⟨{ src := hsrc.trans h.src, srcLab := ?_, size := ?_, walk := ?_, qLab := ?_, pLab := ?_, qNd := ?_,
            pNd := h.pNd, disj := ?_, labPQ := ?_, exact := ?_, edge := ?_ }, ?_⟩
  · rw [hget, if_neg hwr]; exact h.srcLab
  · rw [hdist, size_set]; exact h.size
  · intro v d hd
    rw [hget] at hd
    by_cases hwv : w = v
    · rw [if_pos hwv] at hd; cases hd; exact hwv ▸ hwalk
    · rw [if_neg hwv] at hd; exact h.walk v d hd
  · intro v hv
    by_cases hwv : w = v
    · exact ⟨du + c, by rw [hget, if_pos hwv]⟩
    · rw [hget, if_neg hwv]
      rcases hsup v hv with hv | hv
      · exact h.qLab v hv
      · exact absurd hv.symm hwv
  · intro v hv
    rw [hget, if_neg (hneP v hv)]
    exact h.pLab v hv
  · rcases hq with ⟨hq, _⟩ | ⟨hq, hw⟩
    · rw [hq]; exact h.qNd
    · rw [hq]
      refine List.nodup_append.2 ⟨h.qNd, List.nodup_cons.2 ⟨List.not_mem_nil, List.nodup_nil⟩, ?_⟩
      intro a ha b hb hab
      rw [List.mem_singleton.1 hb] at hab
      exact hw (hab ▸ ha)
  · intro v hv hvq
    rcases hsup v hvq with hvq | hvq
    · exact h.disj v hv hvq
    · exact hneP v hv hvq.symm
  · intro v d hd
    rw [hget] at hd
    by_cases hwv : w = v
    · exact Or.inr (hwv ▸ hwq)
    · rw [if_neg hwv] at hd
      rcases h.labPQ v d hd with hv | hv
      · exact Or.inl hv
      · exact Or.inr (hsub v hv)
  · intro v hv d hd W hW hb
    rw [hget, if_neg (hneP v hv)] at hd
    exact h.exact v hv d hd W hW hb
  · intro a ha da hda p hp hnp hb
    rw [hget, if_neg (hneP a ha)] at hda
    by_cases hpe : a = u ∧ p = (w, c)
    · obtain ⟨h1, h2⟩ := hpe
      subst h1; subst h2
      rw [hdu] at hda; cases hda
      exact ⟨du + c, by rw [hget, if_pos rfl], Int.le_refl _⟩
    · obtain ⟨dw, hdw, hle⟩ := h.edge a ha da hda p hp (fun hau hmem => by
        rcases List.mem_cons.1 hmem with h1 | h1
        · exact hpe ⟨hau, h1⟩
        · exact hnp hau h1) hb
      by_cases hwp : w = p.1
      · refine ⟨du + c, by rw [hget, if_pos hwp], ?_⟩
        have := hold dw (hwp ▸ hdw)
        omega
      · exact ⟨dw, by rw [hget, if_neg hwp]; exact hdw, hle⟩
  · intro v hv
    rw [hget, if_neg (hneP v hv)]

/-- one relaxation -/
theorem FInv.relax (hadj : AdjOK adj) {r : Nat} {F : Frontier} {P : List Nat} {u w : Nat} {c : Int}
    {pend : List (Nat × Int)} (h : FInv adj L r F P u ((w, c) :: pend)) {du : Int}
    (hdu : F.dist[u]! = some du) (he : (w, c) ∈ adj[u]!) (hb : Below L (du + c)) :
    FInv adj L r (F.update w (du + c)) P u pend ∧ ∀ v ∈ P, (F.update w (du + c)).dist[v]! = F.dist[v]! := by
  have hwalk : AdjWalk adj r w (du + c) := walk_snoc hadj (h.walk u du hdu) he
  have hdu0 : 0 ≤ du := walk_nonneg hadj (h.walk u du hdu)
  have hc : 0 < c := hadj.pos u (walk_lt_right (h.walk u du hdu)) _ he
  unfold Frontier.update
  by_cases hws : w = F.src
  · rw [if_pos (by simpa using hws)]
    refine ⟨h.keep hdu (dw := 0) ?_ ?_, fun _ _ => rfl⟩
    · show F.dist[w]! = some 0
      rw [hws, h.src]; exact h.srcLab
    · show 0 ≤ du + c
      omega
  · rw [if_neg (by simpa using hws)]
    have hwr : w ≠ r := fun e => hws (e.trans h.src.symm)
    cases hdw : F.dist[w]! with
    | none =>
      simp only []
      have hwP : w ∉ P := fun hw => by obtain ⟨d, hd⟩ := h.pLab w hw; rw [hdw] at hd; cases hd
      have hwQ : w ∉ F.queue := fun hw => by obtain ⟨d, hd⟩ := h.qLab w hw; rw [hdw] at hd; cases hd
      exact h.change hadj hdu he _ rfl rfl hwr hwP (fun dw hh => by rw [hdw] at hh; cases hh) (Or.inr ⟨rfl, hwQ⟩)
    | some dw =>
      simp only []
      by_cases hlt : du + c < dw
      · rw [if_pos hlt]
        have hwP : w ∉ P := fun hw => by
          have := h.exact w hw dw hdw (du + c) hwalk hb
          omega
        have hwQ : w ∈ F.queue := by
          rcases h.labPQ w dw hdw with h1 | h1
          · exact absurd h1 hwP
          · exact h1
        exact h.change hadj hdu he _ rfl rfl hwr hwP (fun dw' hh => by rw [hdw] at hh; cases hh; exact hlt)
          (Or.inl ⟨rfl, hwQ⟩)
      · rw [if_neg hlt]
        exact ⟨h.keep hdu (dw := dw) hdw (by show dw ≤ du + c; omega), fun _ _ => rfl⟩

theorem FInv.init (N s u : Nat) (hN : N = adj.size) (hs : s < N) : FInv adj L s (Frontier.init N s) [] u [] := by
  have hget : ∀ v, (Frontier.init N s).dist[v]! = if s = v then some 0 else none := by
    intro v
    show ((Array.replicate N none).set! s (some 0))[v]! = _
    rw [get_set]
    have hrep : (Array.replicate N (none : Option Int))[v]! = none := by
      by_cases hv : v < N
      · simp [hv]
      · simp [hv]; rfl
    by_cases hsv : s = v
    · rw [if_pos ⟨hsv, by simpa using hs⟩, if_pos hsv]
    · rw [if_neg (fun hh => hsv hh.1), if_neg hsv, hrep]
  refine { src := rfl, srcLab := ?_, size := ?_, walk := ?_, qLab := ?_, pLab := ?_, qNd := ?_,
           pNd := List.nodup_nil, disj := ?_, labPQ := ?_, exact := ?_, edge := ?_ }
  · rw [hget, if_pos rfl]
  · show ((Array.replicate N none).set! s (some 0)).size = _
    rw [size_set]; simp [hN]
  · intro v d hd
    rw [hget] at hd
    by_cases hsv : s = v
    · rw [if_pos hsv] at hd; cases hd; subst hsv; exact AdjWalk.nil s (hN ▸ hs)
    · rw [if_neg hsv] at hd; cases hd
  · intro v hv
    have : v = s := List.mem_singleton.1 hv
    exact ⟨0, by rw [hget, if_pos this.symm]⟩
  · intro v hv; cases hv
  · exact List.nodup_cons.2 ⟨List.not_mem_nil, List.nodup_nil⟩
  · intro v hv; cases hv
  · intro v d hd
    rw [hget] at hd
    by_cases hsv : s = v
    · exact Or.inr (hsv ▸ List.mem_cons_self)
    · rw [if_neg hsv] at hd; cases hd
  · intro v hv; cases hv
  · intro v hv; cases hv

/-! ### the two frontiers -/

theorem update_lab (F : Frontier) (w : Nat) (cw : Int) (z : Nat) (a : Int)
    (h : (F.update w cw).dist[z]! = some a) : F.dist[z]! = some a ∨ (z = w ∧ a = cw) := by
  unfold Frontier.update at h
  split at h
  · exact Or.inl h
  · split at h
    · simp only [] at h
      rw [get_set] at h
      split at h
      · rename_i hh
        cases h
        exact Or.inr ⟨hh.1.symm, rfl⟩
      · exact Or.inl h
    · split at h
      · simp only [] at h
        rw [get_set] at h
        split at h
        · rename_i hh
          cases h
          exact Or.inr ⟨hh.1.symm, rfl⟩
        · exact Or.inl h
      · exact Or.inl h

/-- the update of `best_path` in the scan -/
def bestUpd (best : Option Int) (b : Frontier) (w : Nat) (cw : Int) : Option Int :=
  if b.hasFinite w then
    match b.dist[w]! with
    | some dbw =>
      let p := cw + dbw
      match best with
      | none => some p
      | some bb => if p < bb then some p else some bb
    | none => best
  else best

theorem bestUpd_spec (best : Option Int) (b : Frontier) (w : Nat) (cw : Int) :
    (∀ β, best = some β → ∃ β', bestUpd best b w cw = some β' ∧ β' ≤ β) ∧
    (∀ dbw, b.dist[w]! = some dbw → ∃ β', bestUpd best b w cw = some β' ∧ β' ≤ cw + dbw) ∧
    (∀ β', bestUpd best b w cw = some β' → best = some β' ∨ ∃ dbw, b.dist[w]! = some dbw ∧ β' = cw + dbw) := by
  unfold bestUpd Frontier.hasFinite
  cases hd : b.dist[w]! with
  | none =>
    simp only [ite_self]
    exact ⟨fun β hβ => ⟨β, hβ, Int.le_refl _⟩, fun d hd => (by cases hd), fun β hβ => Or.inl hβ⟩
  | some dbw =>
    simp only [Option.isSome_some, Bool.or_true, if_true]
    cases best with
    | none => simp
    | some bb =>
      by_cases hlt : cw + dbw < bb
      · simp [hlt]; omega
      · simp [hlt]; omega

theorem biScan_cons (L : Option Int) (du : Int) (w : Nat) (c : Int) (r : List (Nat × Int)) (st : BiState) :
    biScan L du ((w, c) :: r) st =
      if (match L with | some l => !(du + c < l) | none => false) then biScan L du r st
      else biScan L du r { st with f := st.f.update w (du + c), best := bestUpd st.best st.b w (du + c) } := rfl

structure Inv2 (adj : Array (List (Nat × Int))) (L : Option Int) (s t : Nat) (st : BiState) (Pf Pb : List Nat)
    (u : Nat) (pend : List (Nat × Int)) : Prop where
  f : FInv adj L s st.f Pf u pend
  b : FInv adj L t st.b Pb u []
  both : ∀ (z : Nat) (a b : Int), st.f.dist[z]! = some a → st.b.dist[z]! = some b → ∃ β, st.best = some β ∧ β ≤ a + b
  bw : ∀ β, st.best = some β → AdjWalk adj s t β

theorem scan_inv (hadj : AdjOK adj) {s t : Nat} {Pf Pb : List Nat} {u : Nat} {du : Int} (hu : u ∈ Pf) :
    ∀ (lst : List (Nat × Int)) (st : BiState), (∀ p ∈ lst, p ∈ adj[u]!) → st.f.dist[u]! = some du →
      Inv2 adj L s t st Pf Pb u lst → Inv2 adj L s t (biScan L du lst st) Pf Pb u []
  | [], st, _, _, h => h
  | (w, c) :: r, st, hsub, hdu, h => by
    rw [biScan_cons]
    have he := hsub (w, c) List.mem_cons_self
    have hsub' : ∀ p ∈ r, p ∈ adj[u]! := fun p hp => hsub p (List.mem_cons_of_mem _ hp)
    by_cases hb : Below L (du + c)
    · rw [if_neg (fun hh => (limTest L _).1 hh hb)]
      obtain ⟨hf', hP⟩ := h.f.relax hadj hdu he hb
      obtain ⟨s1, s2, s3⟩ := bestUpd_spec st.best st.b w (du + c)
      refine scan_inv hadj hu r _ hsub' (by show (st.f.update w (du + c)).dist[u]! = some du; rw [hP u hu]; exact hdu) ?_
      refine { f := hf', b := h.b, both := ?_, bw := ?_ }
      · intro z a b hfa hbb
        rcases update_lab _ _ _ _ _ hfa with hfa | ⟨hz, ha⟩
        · obtain ⟨β, hβ, hle⟩ := h.both z a b hfa hbb
          obtain ⟨β', hβ', hle'⟩ := s1 β hβ
          exact ⟨β', hβ', by omega⟩
        · subst hz; subst ha
          exact s2 b hbb
      · intro β' hβ'
        rcases s3 β' hβ' with hβ | ⟨dbw, hdbw, hβ⟩
        · exact h.bw β' hβ
        · subst hβ
          exact walk_append (walk_snoc hadj (h.f.walk u du hdu) he) (walk_rev hadj (h.b.walk w dbw hdbw))
    · rw [if_pos ((limTest L _).2 hb)]
      exact scan_inv hadj hu r st hsub' hdu { h with f := h.f.skip hdu hb }

/-- the key lemma: a light walk either is no lighter than `best`, or both queues hold a node of it -/
theorem Inv2.key (hadj : AdjOK adj) {s t : Nat} {st : BiState} {Pf Pb : List Nat} {u : Nat}
    (h : Inv2 adj L s t st Pf Pb u []) {W : Int} (hw : AdjWalk adj s t W) (hb : Below L W) :
    (∃ β, st.best = some β ∧ β ≤ W) ∨
    (∃ y y' dy dy', y ∈ st.f.queue ∧ y' ∈ st.b.queue ∧ st.f.dist[y]! = some dy ∧ st.b.dist[y']! = some dy' ∧
      dy + dy' ≤ W) := by
  rcases h.f.frontier hadj hw hb with ⟨dz, _, h2, h3⟩ | ⟨y, dy, W1, W2, h1, h2, h3, h4, h5, h6⟩
  · obtain ⟨β, hβ, hle⟩ := h.both t dz 0 h2 h.b.srcLab
    exact Or.inl ⟨β, hβ, by omega⟩
  · have h5' := walk_rev hadj h5
    rcases h.b.frontier hadj h5' (hb.mono (by omega)) with ⟨dz, _, g2, g3⟩ | ⟨y', dy', V1, V2, g1, g2, g3, g4, g5, g6⟩
    · obtain ⟨β, hβ, hle⟩ := h.both y dy dz h2 g2
      exact Or.inl ⟨β, hβ, by omega⟩
    · have := walk_nonneg hadj g5
      exact Or.inr ⟨y, y', dy, dy', h1, g1, h2, g2, by omega⟩

/-! ### the loop -/

/-- the stop test at the top of an iteration -/
def stopB (st : BiState) : Bool :=
  st.f.queue.isEmpty || st.b.queue.isEmpty ||
    (match st.best, st.f.findMin, st.b.findMin with
     | some bb, some x, some y => !(x + y < bb)
     | _, _, _ => false)

theorem biLoop_succ (pick : Pick) (fuel : Nat) (st : BiState) :
    biLoop adj pick L (fuel + 1) st =
      if stopB st then some st.best
      else match st.f.dist[pick fuel st.f.minNodes]! with
        | none => some st.best
        | some du =>
          if (match L with | some l => !(du < l) | none => false) then none
          else biLoop adj pick L fuel
            { f := (biScan L du adj[pick fuel st.f.minNodes]!
                      { st with f := { st.f with queue := st.f.queue.erase (pick fuel st.f.minNodes) } }).b,
              b := (biScan L du adj[pick fuel st.f.minNodes]!
                      { st with f := { st.f with queue := st.f.queue.erase (pick fuel st.f.minNodes) } }).f,
              best := (biScan L du adj[pick fuel st.f.minNodes]!
                      { st with f := { st.f with queue := st.f.queue.erase (pick fuel st.f.minNodes) } }).best } := rfl

/-- what the loop delivers -/
def Post (adj : Array (List (Nat × Int))) (L : Option Int) (s t : Nat) (res : Option (Option Int)) : Prop :=
  match res with
  | some r => (∀ β, r = some β → AdjWalk adj s t β) ∧
      (∀ W, AdjWalk adj s t W → Below L W → ∃ β, r = some β ∧ β ≤ W)
  | none => ∀ W, AdjWalk adj s t W → ¬ Below L W

theorem Post.swap (hadj : AdjOK adj) {s t : Nat} {res : Option (Option Int)} (h : Post adj L t s res) :
    Post adj L s t res := by
  cases res with
  | none => exact fun W hw => h W (walk_rev hadj hw)
  | some r =>
    exact ⟨fun β hβ => walk_rev hadj (h.1 β hβ), fun W hw hb => h.2 W (walk_rev hadj hw) hb⟩

theorem stopB_of_nil_f (st : BiState) (h : st.f.queue = []) : stopB st = true := by
  unfold stopB; rw [h]; rfl

theorem stopB_of_nil_b (st : BiState) (h : st.b.queue = []) : stopB st = true := by
  unfold stopB; rw [h]; simp

theorem stopB_eq (st : BiState) (hf : st.f.queue ≠ []) (hb : st.b.queue ≠ []) (bb x y : Int)
    (h1 : st.best = some bb) (h2 : st.f.findMin = some x) (h3 : st.b.findMin = some y) :
    stopB st = !(x + y < bb) := by
  unfold stopB
  rw [h1, h2, h3]
  have e1 : st.f.queue.isEmpty = false := by
    cases hq : st.f.queue with
    | nil => exact absurd hq hf
    | cons _ _ => rfl
  have e2 : st.b.queue.isEmpty = false := by
    cases hq : st.b.queue with
    | nil => exact absurd hq hb
    | cons _ _ => rfl
  rw [e1, e2]
  rfl

theorem loop_spec (hadj : AdjOK adj) (pick : Pick) (hp : PickOK pick) :
    ∀ (fuel : Nat) (s t : Nat) (st : BiState) (Pf Pb : List Nat) (u : Nat), Inv2 adj L s t st Pf Pb u [] →
      2 * adj.size + 1 ≤ fuel + Pf.length + Pb.length → Post adj L s t (biLoop adj pick L fuel st)
  | 0, s, t, st, Pf, Pb, u, h, hf => by
    have h1 := nodup_length_le adj.size Pf h.f.pNd (fun x hx => by
      obtain ⟨d, hd⟩ := h.f.pLab x hx
      exact walk_lt_right (h.f.walk x d hd))
    have h2 := nodup_length_le adj.size Pb h.b.pNd (fun x hx => by
      obtain ⟨d, hd⟩ := h.b.pLab x hx
      exact walk_lt_right (h.b.walk x d hd))
    omega
  | fuel + 1, s, t, st, Pf, Pb, u0, h, hf => by
    rw [biLoop_succ]
    by_cases hstop : stopB st = true
    · rw [if_pos hstop]
      refine ⟨h.bw, fun W hw hb => ?_⟩
      rcases h.key hadj hw hb with hk | ⟨y, y', dy, dy', h1, h2, h3, h4, h5⟩
      · exact hk
      · obtain ⟨x, hx, hxle⟩ := findMin_le st.f y h1 dy h3
        obtain ⟨x', hx', hxle'⟩ := findMin_le st.b y' h2 dy' h4
        have hfne : st.f.queue ≠ [] := fun e => by rw [e] at h1; cases h1
        have hbne : st.b.queue ≠ [] := fun e => by rw [e] at h2; cases h2
        cases hbest : st.best with
        | none =>
          unfold stopB at hstop
          rw [hbest] at hstop
          have e1 : st.f.queue.isEmpty = false := by
            cases hq : st.f.queue with
            | nil => exact absurd hq hfne
            | cons _ _ => rfl
          have e2 : st.b.queue.isEmpty = false := by
            cases hq : st.b.queue with
            | nil => exact absurd hq hbne
            | cons _ _ => rfl
          rw [e1, e2] at hstop
          cases hstop
        | some bb =>
          rw [stopB_eq st hfne hbne bb x x' hbest hx hx'] at hstop
          have : ¬ (x + x' < bb) := by simpa using hstop
          exact ⟨bb, rfl, by omega⟩
    · rw [if_neg hstop]
      have hfne : st.f.queue ≠ [] := fun e => hstop (stopB_of_nil_f st e)
      have hbne : st.b.queue ≠ [] := fun e => hstop (stopB_of_nil_b st e)
      obtain ⟨du, hu, hdu, hfm, hmin⟩ := pick_spec pick hp fuel st.f hfne h.f.qLab
      rw [hdu]
      simp only []
      by_cases hbd : Below L du
      · rw [if_neg (fun hh => (limTest L _).1 hh hbd)]
        have hpop := h.f.pop hadj hu hdu hmin
        have h1 : Inv2 adj L s t { st with f := { st.f with queue := st.f.queue.erase (pick fuel st.f.minNodes) } }
            (pick fuel st.f.minNodes :: Pf) Pb (pick fuel st.f.minNodes) adj[pick fuel st.f.minNodes]! :=
          { f := hpop, b := h.b.reset _, both := h.both, bw := h.bw }
        have h2 := scan_inv hadj (du := du) (List.mem_cons_self) _
          { st with f := { st.f with queue := st.f.queue.erase (pick fuel st.f.minNodes) } } (fun p hp => hp) hdu h1
        refine Post.swap hadj (loop_spec hadj pick hp fuel t s _ Pb (pick fuel st.f.minNodes :: Pf) (pick fuel st.f.minNodes)
          { f := h2.b, b := h2.f, both := ?_, bw := fun β hβ => walk_rev hadj (h2.bw β hβ) } ?_)
        · intro z a b ha hb
          obtain ⟨β, hβ, hle⟩ := h2.both z b a hb ha
          exact ⟨β, hβ, by omega⟩
        · simp only [List.length_cons]
          omega
      · rw [if_pos ((limTest L _).2 hbd)]
        intro W hw hb
        have hdu0 : 0 ≤ du := walk_nonneg hadj (h.f.walk _ du hdu)
        rcases h.key hadj hw hb with ⟨β, hβ, hle⟩ | ⟨y, y', dy, dy', h1, h2, h3, h4, h5⟩
        · cases hq : st.b.queue with
          | nil => exact hbne hq
          | cons y' r =>
            have hy' : y' ∈ st.b.queue := by rw [hq]; exact List.mem_cons_self
            obtain ⟨dy', hdy'⟩ := h.b.qLab y' hy'
            obtain ⟨x', hx', _⟩ := findMin_le st.b y' hy' dy' hdy'
            obtain ⟨v, _, hv⟩ := findMin_attained st.b x' hx'
            have hx0 : 0 ≤ x' := walk_nonneg hadj (h.b.walk v x' hv)
            rw [stopB_eq st hfne hbne β du x' hβ hfm hx'] at hstop
            have : du + x' < β := by simpa using hstop
            exact hbd (hb.mono (by omega))
        · have := hmin y h1 dy h3
          have := walk_nonneg hadj (h.b.walk y' dy' h4)
          exact hbd (hb.mono (by omega))

/-- the test after the loop -/
def finish (L : Option Int) (res : Option (Option Int)) : Option Int :=
  match res with
  | some (some b) => if (match L with | some l => !(b < l) | none => false) then none else some b
  | _ => none

theorem biDijkstra_eq (pick : Pick) (s t : Nat) :
    biDijkstra adj pick L s t = finish L (biLoop adj pick L (2 * adj.size + 2)
      { f := Frontier.init adj.size s, b := Frontier.init adj.size t, best := none }) := rfl

theorem finish_below (b : Int) (h : Below L b) : finish L (some (some b)) = some b := by
  unfold finish
  simp only []
  rw [if_neg (fun hh => (limTest L _).1 hh h)]

theorem finish_not_below (b : Int) (h : ¬ Below L b) : finish L (some (some b)) = none := by
  unfold finish
  simp only []
  rw [if_pos ((limTest L _).2 h)]

end BiDijL

/-- **the value computed by the bidirectional search is the distance, if that is below the limit, and "not found"
otherwise — whatever the heaps do among equal labels** -/
theorem biDijkstra_correct (adj : Array (List (Nat × Int))) (h : AdjOK adj) (pick : Pick) (hp : PickOK pick)
    (limit : Option Int) (s t : Nat) (hs : s < adj.size) (ht : t < adj.size) (hst : s ≠ t) :
    (∀ D, IsDist adj s t D → (∀ l, limit = some l → D < l) → biDijkstra adj pick limit s t = some D) ∧
    (∀ w, biDijkstra adj pick limit s t = some w → IsDist adj s t w ∧ ∀ l, limit = some l → w < l) := by
  have hinit : BiDijL.Inv2 adj limit s t
      { f := Frontier.init adj.size s, b := Frontier.init adj.size t, best := none } [] [] 0 [] := by
    have hf : BiDijL.FInv adj limit s (Frontier.init adj.size s) [] 0 [] := BiDijL.FInv.init adj.size s 0 rfl hs
    have hb : BiDijL.FInv adj limit t (Frontier.init adj.size t) [] 0 [] := BiDijL.FInv.init adj.size t 0 rfl ht
    refine { f := hf, b := hb, both := ?_, bw := fun β hβ => by cases hβ }
    intro z a b ha hb'
    rcases hf.labPQ z a ha with h1 | h1
    · cases h1
    · rcases hb.labPQ z b hb' with h2 | h2
      · cases h2
      · have e1 : z = s := List.mem_singleton.1 h1
        have e2 : z = t := List.mem_singleton.1 h2
        exact absurd (e1.symm.trans e2) hst
  have hpost := BiDijL.loop_spec h pick hp (2 * adj.size + 2) s t _ [] [] 0 hinit (by simp only [List.length_nil]; omega)
  rw [BiDijL.biDijkstra_eq]
  generalize biLoop adj pick limit (2 * adj.size + 2) _ = res at hpost ⊢
  constructor
  · intro D hD hlim
    cases res with
    | none => exact absurd hlim (hpost D hD.1)
    | some r =>
      obtain ⟨β, hβ, hle⟩ := hpost.2 D hD.1 hlim
      have := hD.2 β (hpost.1 β hβ)
      have e : β = D := by omega
      subst hβ; subst e
      exact BiDijL.finish_below _ hlim
  · intro w hw
    cases res with
    | none => cases hw
    | some r =>
      cases r with
      | none => cases hw
      | some b =>
        by_cases hb : BiDijL.Below limit b
        · rw [BiDijL.finish_below _ hb] at hw
          cases hw
          refine ⟨⟨hpost.1 _ rfl, fun D' hD' => ?_⟩, hb⟩
          by_cases hlt : D' < w
          · obtain ⟨β, hβ, hle⟩ := hpost.2 D' hD' (hb.mono (by omega))
            cases hβ
            omega
          · omega
        · rw [BiDijL.finish_not_below _ hb] at hw
          cases hw

namespace SgAdjL

theorem get_modify {α} (a : Array (List α)) (i j : Nat) (f : List α → List α) :
    (a.modify i f)[j]! = if i = j ∧ j < a.size then f a[j]! else a[j]! := by
  by_cases hj : j < a.size
  · rw [getElem!_pos _ j (by simpa using hj), getElem!_pos _ j hj, Array.getElem_modify]
    by_cases h : i = j <;> simp [h, hj]
  · have h1 : ¬ j < (a.modify i f).size := by simpa using hj
    rw [getElem!_neg _ j h1, getElem!_neg _ j hj]
    simp [hj]

/-- insertion of the undirected arc `x — y` of weight `c` -/
def ins (a : Array (List (Nat × Int))) (x y : Nat) (c : Int) : Array (List (Nat × Int)) :=
  (a.modify x fun l => (y, c) :: l).modify y fun l => (x, c) :: l

def Inv (N : Nat) (a : Array (List (Nat × Int))) : Prop :=
  a.size = N ∧ ∀ u, u < N → ∀ p ∈ a[u]!, p.1 < N ∧ 0 < p.2 ∧ (u, p.2) ∈ a[p.1]!

theorem mem_ins (a : Array (List (Nat × Int))) (x y : Nat) (c : Int) (hx : x < a.size) (hy : y < a.size)
    (u : Nat) (p : Nat × Int) :
    p ∈ (ins a x y c)[u]! ↔ p ∈ a[u]! ∨ (u = x ∧ p = (y, c)) ∨ (u = y ∧ p = (x, c)) := by
  unfold ins
  rw [get_modify, get_modify]
  by_cases h1 : y = u <;> by_cases h2 : x = u <;> simp [h1, h2] <;> grind

theorem Inv.ins {N : Nat} {a : Array (List (Nat × Int))} (h : Inv N a) {x y : Nat} {c : Int}
    (hx : x < N) (hy : y < N) (hc : 0 < c) : Inv N (ins a x y c) := by
  obtain ⟨hsz, hI⟩ := h
  refine ⟨by simp [SgAdjL.ins, hsz], ?_⟩
  intro u hu p hp
  have hxa : x < a.size := by omega
  have hya : y < a.size := by omega
  rw [mem_ins a x y c hxa hya] at hp
  rcases hp with hp | ⟨rfl, rfl⟩ | ⟨rfl, rfl⟩
  · obtain ⟨h1, h2, h3⟩ := hI u hu p hp
    refine ⟨h1, h2, ?_⟩
    rw [mem_ins a x y c hxa hya]
    exact Or.inl h3
  · refine ⟨hy, hc, ?_⟩
    rw [mem_ins a _ _ c hxa hya]
    simp
  · refine ⟨hx, hc, ?_⟩
    rw [mem_ins a _ _ c hxa hya]
    simp

theorem sgNode_lt {n v : Nat} (h : v < n) (s : Bool) : sgNode n v s < 2 * n := by
  unfold sgNode; split <;> omega

/-- the body of the loop of `sgAdjHidden` -/
def body (n : Nat) (S hidden : List Nat) (x : Nat × Nat × Int) (s : Array (List (Nat × Int)) × Nat) :
    Id (ForInStep (Array (List (Nat × Int)) × Nat)) :=
  if x.fst < n ∧ x.2.fst < n ∧ (!hidden.contains s.snd) = true then
    ForInStep.yield
      (ins (ins s.fst (sgNode n x.fst true) (sgNode n x.2.fst (if S.contains s.snd = true then !true else true)) x.2.snd)
        (sgNode n x.fst false) (sgNode n x.2.fst (if S.contains s.snd = true then !false else false)) x.2.snd,
       s.snd + 1)
  else ForInStep.yield (s.fst, s.snd + 1)

theorem loop_inv (n : Nat) (S hidden : List Nat) (l : List (Nat × Nat × Int)) (hl : ∀ x ∈ l, 0 < x.2.2) :
    ∀ (st : Array (List (Nat × Int)) × Nat), Inv (2 * n) st.fst →
    Inv (2 * n) (forIn (m := Id) l st (body n S hidden)).fst := by
  induction l with
  | nil => intro st h; exact h
  | cons x l ih =>
    intro st h
    have hc : 0 < x.2.2 := hl x List.mem_cons_self
    have ih' := ih (fun y hy => hl y (List.mem_cons_of_mem _ hy))
    rw [List.forIn_cons]
    unfold body
    split
    · rename_i hcond
      apply ih'
      exact (h.ins (sgNode_lt hcond.1 _) (sgNode_lt hcond.2.1 _) hc).ins
        (sgNode_lt hcond.1 _) (sgNode_lt hcond.2.1 _) hc
    · exact ih' _ h

end SgAdjL

/-- the signed graph of a simple graph with positive weights (hidden edges removed) is such an adjacency structure -/
theorem sgAdjHidden_ok (g : Graph) (hs : g.simpleB = true) (hp : g.positiveB = true) (S hidden : List Nat) :
    AdjOK (sgAdjHidden g S hidden) ∧ (sgAdjHidden g S hidden).size = 2 * g.n := by
  have _ := hs -- not needed: the loop itself skips the edges with an endpoint out of range
  have hl : ∀ x ∈ g.edges, 0 < x.2.2 := by
    intro x hx
    obtain ⟨i, hi, rfl⟩ := List.getElem_of_mem hx
    have := positiveB_facts g hp i hi
    simpa [Graph.weight, List.getD, hi] using this
  have key : SgAdjL.Inv (2 * g.n) (sgAdjHidden g S hidden) := by
    unfold sgAdjHidden
    simp only [Id.run, List.forIn_cons, List.forIn_nil, bind, pure]
    have h0 : SgAdjL.Inv (2 * g.n) (Array.replicate (2 * g.n) []) := by
      refine ⟨by simp, ?_⟩
      intro u hu p hp
      simp [hu] at hp
    exact SgAdjL.loop_inv g.n S hidden g.edges hl (_, 0) h0
  obtain ⟨hsz, hI⟩ := key
  refine ⟨⟨?_, ?_, ?_⟩, hsz⟩
  · intro u hu p hp; rw [hsz] at hu ⊢; exact (hI u hu p hp).1
  · intro u hu p hp; rw [hsz] at hu; exact (hI u hu p hp).2.1
  · intro u hu p hp; rw [hsz] at hu; exact (hI u hu p hp).2.2

end Parmcb
