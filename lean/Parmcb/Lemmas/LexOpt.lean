import Parmcb.Lemmas.Dijkstra
import Parmcb.Props.C12
/-!
Lexicographically optimal paths (C12, mutual consistency).  Core Lean only.

`LexOpt g a b es`: `es` is a simple `a → b` path whose label (length, number of edges, vertex set) is not beaten, under
the comparison `lexLess` of `lex_dijkstra.hpp`, by the label of any other simple `a → b` path.  Part II (this file): such
paths are unique, closed under reversal and under taking sub-paths — hence trees that consist of them are mutually
consistent.  Part I (`Lemmas/LexDijkstraOpt.lean`): the literal model of `lex_dijkstra` produces them.
-/
namespace Parmcb

/-- the vertices a walk visits, starting at `a` -/
def walkVerts (g : Graph) : List Nat → Nat → List Nat
  | [], a => [a]
  | e :: r, a => a :: walkVerts g r (g.other e a)

/-- the label `lex_dijkstra` accumulates along a walk from `a` -/
def walkLabel (g : Graph) (es : List Nat) (a : Nat) : LexLabel :=
  { dist := (es.map g.weight).sum, cnt := es.length, verts := setOf (walkVerts g es a) }

/-- a simple path: a walk that repeats no vertex -/
def SimplePath (g : Graph) (es : List Nat) (a b : Nat) : Prop :=
  isWalk g es a b = true ∧ (∀ e ∈ es, e < g.m) ∧ (walkVerts g es a).Nodup

/-- lexicographically optimal simple path -/
def LexOpt (g : Graph) (a b : Nat) (es : List Nat) : Prop :=
  SimplePath g es a b ∧ ∀ es', SimplePath g es' a b → lexLess (walkLabel g es' a) (walkLabel g es a) = false

namespace LexOptL
open TreesL Spanner

/-! ### walks -/

theorem walk_nil (g : Graph) (a b : Nat) : isWalk g [] a b = true ↔ a = b := isWalk_nil g a b

theorem walk_cons (g : Graph) (e : Nat) (r : List Nat) (a b : Nat) :
    isWalk g (e :: r) a b = true ↔ (g.src e = a ∨ g.tgt e = a) ∧ isWalk g r (g.other e a) b = true := by
  simp only [isWalk, Bool.or_eq_true, Bool.and_eq_true, beq_iff_eq, Graph.other]
  constructor
  · rintro (⟨h1, h2⟩ | ⟨h1, h2⟩)
    · rw [if_pos h1]; exact ⟨Or.inl h1, h2⟩
    · by_cases h : g.src e = a
      · have ht : g.tgt e = g.src e := h1.trans h.symm
        rw [if_pos h, ht]; exact ⟨Or.inl h, h2⟩
      · rw [if_neg h]; exact ⟨Or.inr h1, h2⟩
  · rintro ⟨h1, h2⟩
    by_cases h : g.src e = a
    · rw [if_pos h] at h2; exact Or.inl ⟨h, h2⟩
    · rw [if_neg h] at h2
      rcases h1 with h1 | h1
      · exact absurd h1 h
      · exact Or.inr ⟨h1, h2⟩

theorem other_other (g : Graph) (e a : Nat) (h : g.src e = a ∨ g.tgt e = a) : g.other e (g.other e a) = a := by
  unfold Graph.other
  by_cases h1 : g.src e = a
  · rw [if_pos h1]
    by_cases h2 : g.src e = g.tgt e
    · rw [if_pos h2, ← h2, h1]
    · rw [if_neg h2, h1]
  · rw [if_neg h1, if_pos rfl]
    rcases h with h | h
    · exact absurd h h1
    · exact h

theorem other_inc (g : Graph) (e a : Nat) (_h : g.src e = a ∨ g.tgt e = a) :
    g.src e = g.other e a ∨ g.tgt e = g.other e a := by
  unfold Graph.other
  by_cases h1 : g.src e = a
  · rw [if_pos h1]; exact Or.inr rfl
  · rw [if_neg h1]; exact Or.inl rfl

theorem walk_end_unique (g : Graph) : ∀ (es : List Nat) (a b b' : Nat), isWalk g es a b = true →
    isWalk g es a b' = true → b = b'
  | [], a, b, b', h1, h2 => by
    rw [walk_nil] at h1 h2; omega
  | e :: r, a, b, b', h1, h2 => by
    rw [walk_cons] at h1 h2
    exact walk_end_unique g r _ b b' h1.2 h2.2

theorem walk_app (g : Graph) : ∀ (p q : List Nat) (a b : Nat),
    isWalk g (p ++ q) a b = true ↔ ∃ c, isWalk g p a c = true ∧ isWalk g q c b = true
  | [], q, a, b => by
    simp only [List.nil_append, walk_nil]
    constructor
    · intro h; exact ⟨a, rfl, h⟩
    · rintro ⟨c, rfl, h⟩; exact h
  | e :: r, q, a, b => by
    simp only [List.cons_append, walk_cons, walk_app g r q]
    constructor
    · rintro ⟨h1, c, h2, h3⟩; exact ⟨c, ⟨h1, h2⟩, h3⟩
    · rintro ⟨c, ⟨h1, h2⟩, h3⟩; exact ⟨h1, c, h2, h3⟩

theorem walk_app_right (g : Graph) (p q : List Nat) (a b c : Nat) (h : isWalk g (p ++ q) a b = true)
    (h1 : isWalk g p a c = true) : isWalk g q c b = true := by
  obtain ⟨c', h2, h3⟩ := (walk_app g p q a b).1 h
  rw [walk_end_unique g p a c c' h1 h2]; exact h3

theorem walk_reverse (g : Graph) : ∀ (es : List Nat) (a b : Nat), isWalk g es a b = true →
    isWalk g es.reverse b a = true
  | [], a, b, h => by
    rw [walk_nil] at h; subst h; exact (walk_nil g _ _).2 rfl
  | e :: r, a, b, h => by
    rw [walk_cons] at h
    rw [List.reverse_cons, walk_app]
    refine ⟨g.other e a, walk_reverse g r _ _ h.2, ?_⟩
    rw [walk_cons, walk_nil]
    exact ⟨other_inc g e a h.1, other_other g e a h.1⟩

/-! ### the vertices of a walk -/

theorem walkVerts_ne_nil (g : Graph) (es : List Nat) (a : Nat) : walkVerts g es a ≠ [] := by
  cases es <;> simp [walkVerts]

theorem walkVerts_length (g : Graph) : ∀ (es : List Nat) (a : Nat), (walkVerts g es a).length = es.length + 1
  | [], a => rfl
  | e :: r, a => by simp [walkVerts, walkVerts_length g r]

theorem head_mem_walkVerts (g : Graph) (es : List Nat) (a : Nat) : a ∈ walkVerts g es a := by
  cases es <;> simp [walkVerts]

theorem end_mem_walkVerts (g : Graph) : ∀ (es : List Nat) (a b : Nat), isWalk g es a b = true →
    b ∈ walkVerts g es a
  | [], a, b, h => by rw [walk_nil] at h; subst h; simp [walkVerts]
  | e :: r, a, b, h => by
    rw [walk_cons] at h
    simp only [walkVerts, List.mem_cons]
    exact Or.inr (end_mem_walkVerts g r _ b h.2)

theorem walkVerts_eq_cons (g : Graph) (es : List Nat) (a : Nat) :
    walkVerts g es a = a :: (walkVerts g es a).tail := by
  cases es <;> simp [walkVerts]

theorem walkVerts_app (g : Graph) : ∀ (p q : List Nat) (a c : Nat), isWalk g p a c = true →
    walkVerts g (p ++ q) a = walkVerts g p a ++ (walkVerts g q c).tail
  | [], q, a, c, h => by
    rw [walk_nil] at h; subst h
    rw [List.nil_append, walkVerts_eq_cons g q a]; simp [walkVerts]
  | e :: r, q, a, c, h => by
    rw [walk_cons] at h
    simp only [List.cons_append, walkVerts, walkVerts_app g r q _ c h.2]

theorem mem_walkVerts_app (g : Graph) (p q : List Nat) (a c : Nat) (h : isWalk g p a c = true) (x : Nat) :
    x ∈ walkVerts g (p ++ q) a ↔ x ∈ walkVerts g p a ∨ x ∈ walkVerts g q c := by
  rw [walkVerts_app g p q a c h, List.mem_append]
  constructor
  · rintro (h1 | h1)
    · exact Or.inl h1
    · exact Or.inr (List.mem_of_mem_tail h1)
  · rintro (h1 | h1)
    · exact Or.inl h1
    · rw [walkVerts_eq_cons g q c, List.mem_cons] at h1
      rcases h1 with h1 | h1
      · subst h1; exact Or.inl (end_mem_walkVerts g p a x h)
      · exact Or.inr h1

theorem nodup_walkVerts_app (g : Graph) (p q : List Nat) (a c : Nat) (h : isWalk g p a c = true) :
    (walkVerts g (p ++ q) a).Nodup ↔ (walkVerts g p a).Nodup ∧ (walkVerts g q c).Nodup ∧
      ∀ x, x ∈ walkVerts g p a → x ∈ walkVerts g q c → x = c := by
  rw [walkVerts_app g p q a c h, List.nodup_append]
  have hq := walkVerts_eq_cons g q c
  generalize (walkVerts g q c).tail = T at hq ⊢
  rw [hq, List.nodup_cons]
  have hc := end_mem_walkVerts g p a c h
  constructor
  · rintro ⟨h1, h2, h3⟩
    refine ⟨h1, ⟨fun hcT => h3 c hc c hcT rfl, h2⟩, ?_⟩
    intro x hx hx'
    rcases List.mem_cons.1 hx' with h4 | h4
    · exact h4
    · exact absurd rfl (h3 x hx x h4)
  · rintro ⟨h1, ⟨h2, h3⟩, h4⟩
    refine ⟨h1, h3, ?_⟩
    intro x hx y hy hxy
    subst hxy
    have := h4 x hx (List.mem_cons_of_mem _ hy)
    subst this
    exact h2 hy

theorem walkVerts_reverse (g : Graph) : ∀ (es : List Nat) (a b : Nat), isWalk g es a b = true →
    walkVerts g es.reverse b = (walkVerts g es a).reverse
  | [], a, b, h => by rw [walk_nil] at h; subst h; rfl
  | e :: r, a, b, h => by
    rw [walk_cons] at h
    rw [List.reverse_cons, walkVerts_app g r.reverse [e] b _ (walk_reverse g r _ _ h.2),
      walkVerts_reverse g r _ b h.2]
    simp [walkVerts, other_other g e a h.1]

/-- a walk that visits `x` splits there -/
theorem walk_split_at (g : Graph) : ∀ (es : List Nat) (a b x : Nat), isWalk g es a b = true →
    x ∈ walkVerts g es a → ∃ p q, es = p ++ q ∧ isWalk g p a x = true ∧ isWalk g q x b = true
  | [], a, b, x, h, hx => by
    simp only [walkVerts, List.mem_singleton] at hx; subst hx
    exact ⟨[], [], rfl, (walk_nil g _ _).2 rfl, h⟩
  | e :: r, a, b, x, h, hx => by
    simp only [walkVerts, List.mem_cons] at hx
    rcases hx with hx | hx
    · subst hx; exact ⟨[], e :: r, rfl, (walk_nil g _ _).2 rfl, h⟩
    · rw [walk_cons] at h
      obtain ⟨p, q, h1, h2, h3⟩ := walk_split_at g r _ b x h.2 hx
      exact ⟨e :: p, q, by rw [h1]; rfl, (walk_cons g e p a x).2 ⟨h.1, h2⟩, h3⟩

/-! ### simple paths and their labels -/

theorem setOf_perm (l : List Nat) (hnd : l.Nodup) : (setOf l).Perm l := by
  rw [List.perm_ext_iff_of_nodup (setOf_sorted l).nodup hnd]
  exact mem_setOf l

theorem setOf_walkVerts_length (g : Graph) (es : List Nat) (a b : Nat) (h : SimplePath g es a b) :
    (setOf (walkVerts g es a)).length = es.length + 1 := by
  rw [(setOf_perm _ h.2.2).length_eq, walkVerts_length]

theorem label_ok (g : Graph) (es : List Nat) (a b : Nat) (h : SimplePath g es a b) :
    LabOK (walkLabel g es a) :=
  ⟨setOf_sorted _, setOf_walkVerts_length g es a b h⟩

theorem simple_reverse (g : Graph) (es : List Nat) (a b : Nat) (h : SimplePath g es a b) :
    SimplePath g es.reverse b a := by
  refine ⟨walk_reverse g es a b h.1, fun e he => h.2.1 e (List.mem_reverse.1 he), ?_⟩
  rw [walkVerts_reverse g es a b h.1]
  exact (List.reverse_perm _).nodup_iff.2 h.2.2

theorem setOf_reverse (l : List Nat) : setOf l.reverse = setOf l := by
  apply StrictSorted.ext (setOf_sorted _) (setOf_sorted _)
  intro z
  rw [mem_setOf, mem_setOf, List.mem_reverse]

theorem label_reverse (g : Graph) (es : List Nat) (a b : Nat) (h : isWalk g es a b = true) :
    walkLabel g es.reverse b = walkLabel g es a := by
  have h1 : (es.reverse.map g.weight).sum = (es.map g.weight).sum := wt_perm g (List.reverse_perm es)
  unfold walkLabel
  rw [walkVerts_reverse g es a b h, setOf_reverse, h1, List.length_reverse]

theorem simple_prefix (g : Graph) (p q : List Nat) (a b c : Nat) (h : SimplePath g (p ++ q) a b)
    (h1 : isWalk g p a c = true) : SimplePath g p a c :=
  ⟨h1, fun e he => h.2.1 e (List.mem_append_left _ he), ((nodup_walkVerts_app g p q a c h1).1 h.2.2).1⟩

theorem simple_suffix (g : Graph) (p q : List Nat) (a b c : Nat) (h : SimplePath g (p ++ q) a b)
    (h1 : isWalk g p a c = true) : SimplePath g q c b :=
  ⟨walk_app_right g p q a b c h.1 h1, fun e he => h.2.1 e (List.mem_append_right _ he),
    ((nodup_walkVerts_app g p q a c h1).1 h.2.2).2.1⟩

/-- a walk contains a simple path with the same endpoints; it is strictly lighter unless it is the walk itself -/
theorem exists_simple (g : Graph) (hp : g.positiveB = true) : ∀ (es : List Nat) (a b : Nat),
    isWalk g es a b = true → (∀ e ∈ es, e < g.m) →
    ∃ es', SimplePath g es' a b ∧ (es' = es ∨ wt g es' < wt g es)
  | [], a, b, h, _ => ⟨[], ⟨h, by simp, by simp [walkVerts]⟩, Or.inl rfl⟩
  | e :: r, a, b, h, hm => by
    have h' := (walk_cons g e r a b).1 h
    obtain ⟨r', hs', hw⟩ := exists_simple g hp r _ b h'.2 (fun f hf => hm f (List.mem_cons_of_mem _ hf))
    have hpos := positiveB_facts g hp e (hm e List.mem_cons_self)
    have hle : wt g r' ≤ wt g r := by
      rcases hw with hw | hw
      · rw [hw]; exact Int.le_refl _
      · omega
    by_cases ha : a ∈ walkVerts g r' (g.other e a)
    · obtain ⟨p, q, h1, h2, h3⟩ := walk_split_at g r' _ b a hs'.1 ha
      subst h1
      refine ⟨q, simple_suffix g p q _ b a hs' h2, Or.inr ?_⟩
      have : 0 ≤ wt g p := wt_nonneg g hp p (fun f hf => hs'.2.1 f (List.mem_append_left _ hf))
      rw [wt_cons]; rw [wt_app] at hle; omega
    · refine ⟨e :: r', ⟨(walk_cons g e r' a b).2 ⟨h'.1, hs'.1⟩, ?_, ?_⟩, ?_⟩
      · intro f hf
        rcases List.mem_cons.1 hf with hf | hf
        · subst hf; exact hm _ List.mem_cons_self
        · exact hs'.2.1 f hf
      · simp only [walkVerts]; exact List.nodup_cons.2 ⟨ha, hs'.2.2⟩
      · rcases hw with hw | hw
        · left; rw [hw]
        · right; rw [wt_cons, wt_cons]; omega

/-- an optimal path is a shortest walk, and every shortest walk is a simple path -/
theorem opt_le (g : Graph) (hp : g.positiveB = true) (a b : Nat) (P W : List Nat) (hP : LexOpt g a b P)
    (hW : isWalk g W a b = true) (hm : ∀ e ∈ W, e < g.m) :
    wt g P ≤ wt g W ∧ (wt g W = wt g P → SimplePath g W a b) := by
  obtain ⟨W', hs, hw⟩ := exists_simple g hp W a b hW hm
  have hn := hP.2 W' hs
  have hle : wt g P ≤ wt g W' := by
    apply Classical.byContradiction
    intro hlt
    have : lexLess (walkLabel g W' a) (walkLabel g P a) = true :=
      (lexLess_iff _ _).2 (Or.inl (by show wt g W' < wt g P; omega))
    rw [hn] at this; cases this
  constructor
  · rcases hw with hw | hw
    · rw [← hw]; exact hle
    · omega
  · intro heq
    rcases hw with hw | hw
    · rw [← hw]; exact hs
    · omega

theorem opt_prefix (g : Graph) (hp : g.positiveB = true) (a b c : Nat) (P1 P2 : List Nat)
    (hP : LexOpt g a b (P1 ++ P2)) (h1 : isWalk g P1 a c = true) : LexOpt g a c P1 := by
  have h2 : isWalk g P2 c b = true := walk_app_right g P1 P2 a b c hP.1.1 h1
  have hs1 := simple_prefix g P1 P2 a b c hP.1 h1
  refine ⟨hs1, ?_⟩
  intro Q1 hQ
  cases hlt : lexLess (walkLabel g Q1 a) (walkLabel g P1 a) with
  | false => rfl
  | true =>
    exfalso
    have hW : isWalk g (Q1 ++ P2) a b = true := (walk_app g Q1 P2 a b).2 ⟨c, hQ.1, h2⟩
    have hWm : ∀ e ∈ Q1 ++ P2, e < g.m := by
      intro e he
      rcases List.mem_append.1 he with h | h
      · exact hQ.2.1 e h
      · exact hP.1.2.1 e (List.mem_append_right _ h)
    obtain ⟨hle, hsimp⟩ := opt_le g hp a b _ _ hP hW hWm
    rw [wt_app, wt_app] at hle hsimp
    rw [lexLess_iff] at hlt
    change wt g Q1 < wt g P1 ∨ (wt g Q1 = wt g P1 ∧ (Q1.length < P1.length ∨ (Q1.length = P1.length ∧
      setLess (setOf (walkVerts g Q1 a)) (setOf (walkVerts g P1 a)) = true))) at hlt
    rcases hlt with hlt | ⟨hd, hlt⟩
    · omega
    · have hWs := hsimp (by omega)
      have hn := hP.2 _ hWs
      have : lexLess (walkLabel g (Q1 ++ P2) a) (walkLabel g (P1 ++ P2) a) = true := by
        rw [lexLess_iff]
        right
        refine ⟨by show wt g (Q1 ++ P2) = wt g (P1 ++ P2); rw [wt_app, wt_app, hd], ?_⟩
        rcases hlt with hlt | ⟨hc, hlt⟩
        · left
          show (Q1 ++ P2).length < (P1 ++ P2).length
          rw [List.length_append, List.length_append]; omega
        · right
          have hcl : (Q1 ++ P2).length = (P1 ++ P2).length := by
            rw [List.length_append, List.length_append]; omega
          refine ⟨hcl, ?_⟩
          show setLess (setOf (walkVerts g (Q1 ++ P2) a)) (setOf (walkVerts g (P1 ++ P2) a)) = true
          have hl1 : (setOf (walkVerts g Q1 a)).length = (setOf (walkVerts g P1 a)).length := by
            rw [setOf_walkVerts_length g Q1 a c hQ, setOf_walkVerts_length g P1 a c hs1, hc]
          have hl2 : (setOf (walkVerts g (Q1 ++ P2) a)).length = (setOf (walkVerts g (P1 ++ P2) a)).length := by
            rw [setOf_walkVerts_length g _ a b hWs, setOf_walkVerts_length g _ a b hP.1, hcl]
          rw [setLess_iff _ _ (setOf_sorted _) (setOf_sorted _) hl1] at hlt
          rw [setLess_iff _ _ (setOf_sorted _) (setOf_sorted _) hl2]
          obtain ⟨x, hx1, hx2, hx3⟩ := hlt
          rw [mem_setOf] at hx1 hx2
          refine ⟨x, ?_, ?_, ?_⟩
          · rw [mem_setOf, mem_walkVerts_app g Q1 P2 a c hQ.1]; exact Or.inl hx1
          · rw [mem_setOf, mem_walkVerts_app g P1 P2 a c h1]
            rintro (h | h)
            · exact hx2 h
            · have := ((nodup_walkVerts_app g Q1 P2 a c hQ.1).1 hWs.2.2).2.2 x hx1 h
              subst this
              exact hx2 (end_mem_walkVerts g P1 a x h1)
          · intro y hy
            have := hx3 y hy
            rw [mem_setOf, mem_setOf] at this
            rw [mem_setOf, mem_setOf, mem_walkVerts_app g Q1 P2 a c hQ.1,
              mem_walkVerts_app g P1 P2 a c h1, this]
      rw [hn] at this; cases this

theorem opt_reverse (g : Graph) (a b : Nat) (P : List Nat) (hP : LexOpt g a b P) :
    LexOpt g b a P.reverse := by
  refine ⟨simple_reverse g P a b hP.1, ?_⟩
  intro Q hQ
  have := hP.2 Q.reverse (simple_reverse g Q b a hQ)
  rw [label_reverse g Q b a hQ.1] at this
  rw [label_reverse g P a b hP.1.1]
  exact this

theorem opt_split (g : Graph) (hp : g.positiveB = true) (a b c : Nat) (P1 P2 : List Nat)
    (hP : LexOpt g a b (P1 ++ P2)) (h1 : isWalk g P1 a c = true) :
    LexOpt g a c P1 ∧ LexOpt g c b P2 := by
  refine ⟨opt_prefix g hp a b c P1 P2 hP h1, ?_⟩
  have h2 : isWalk g P2 c b = true := walk_app_right g P1 P2 a b c hP.1.1 h1
  have hr := opt_reverse g a b _ hP
  rw [List.reverse_append] at hr
  have := opt_reverse g b c _ (opt_prefix g hp b a c P2.reverse P1.reverse hr (walk_reverse g P2 c b h2))
  rw [List.reverse_reverse] at this
  exact this

theorem opt_label_eq (g : Graph) (a b : Nat) (P Q : List Nat) (hP : LexOpt g a b P) (hQ : LexOpt g a b Q) :
    walkLabel g P a = walkLabel g Q a := by
  rcases lexLess_total _ _ (label_ok g P a b hP.1) (label_ok g Q a b hQ.1) with h | h | h
  · rw [hQ.2 P hP.1] at h; cases h
  · rw [hP.2 Q hQ.1] at h; cases h
  · exact h

/-! ### uniqueness -/

theorem edge_unique (g : Graph) (hs : g.simpleB = true) (e f a : Nat) (he : e < g.m) (hf : f < g.m)
    (h1 : g.src e = a ∨ g.tgt e = a) (h2 : g.src f = a ∨ g.tgt f = a) (h : g.other e a = g.other f a) :
    e = f := by
  apply Classical.byContradiction
  intro hne
  have hd := simple_distinct g hs e f he hf (fun h => hne h.symm)
  have he' := (simpleB_facts g hs e he).2.2
  have hf' := (simpleB_facts g hs f hf).2.2
  unfold Graph.other at h
  split at h <;> split at h <;> omega

theorem opt_unique (g : Graph) (hs : g.simpleB = true) (hp : g.positiveB = true) :
    ∀ (P Q : List Nat) (a b : Nat), LexOpt g a b P → LexOpt g a b Q → P = Q
  | [], Q, a, b, hP, hQ => by
    have hl := opt_label_eq g a b _ _ hP hQ
    have hc : ([] : List Nat).length = Q.length := congrArg LexLabel.cnt hl
    cases Q with
    | nil => rfl
    | cons f Q' => simp at hc
  | e :: P', Q, a, b, hP, hQ => by
    have hl := opt_label_eq g a b _ _ hP hQ
    have hc : (e :: P').length = Q.length := congrArg LexLabel.cnt hl
    have hv : setOf (walkVerts g (e :: P') a) = setOf (walkVerts g Q a) := congrArg LexLabel.verts hl
    cases Q with
    | nil => simp at hc
    | cons f Q' =>
      have hPw := (walk_cons g e P' a b).1 hP.1.1
      have hQw := (walk_cons g f Q' a b).1 hQ.1.1
      have hP1 : isWalk g [e] a (g.other e a) = true := (walk_cons g e [] a _).2 ⟨hPw.1, (walk_nil g _ _).2 rfl⟩
      have hQ1 : isWalk g [f] a (g.other f a) = true := (walk_cons g f [] a _).2 ⟨hQw.1, (walk_nil g _ _).2 rfl⟩
      have hPs := opt_split g hp a b (g.other e a) [e] P' hP hP1
      have hQs := opt_split g hp a b (g.other f a) [f] Q' hQ hQ1
      have hm := head_mem_walkVerts g Q' (g.other f a)
      have hu' : g.other f a ∈ walkVerts g (e :: P') a := by
        rw [← mem_setOf, hv, mem_setOf]
        simp only [walkVerts, List.mem_cons]
        exact Or.inr hm
      have hna : a ∉ walkVerts g Q' (g.other f a) := by
        have := hQ.1.2.2
        simp only [walkVerts, List.nodup_cons] at this
        exact this.1
      have hne : g.other f a ≠ a := by
        intro h
        exact hna (Eq.mp (congrArg (fun x => x ∈ walkVerts g Q' (g.other f a)) h) hm)
      have hu'2 : g.other f a ∈ walkVerts g P' (g.other e a) := by
        simp only [walkVerts, List.mem_cons] at hu'
        rcases hu' with h | h
        · exact absurd h hne
        · exact h
      obtain ⟨R1, R2, hR, hR1, hR2⟩ := walk_split_at g P' _ b _ hPw.2 hu'2
      have hPs2 := hPs.2
      rw [hR] at hPs2
      have hR2opt := (opt_split g hp (g.other e a) b (g.other f a) R1 R2 hPs2 hR1).2
      have hl2 := opt_label_eq g _ b _ _ hR2opt hQs.2
      have hc2 : R2.length = Q'.length := congrArg LexLabel.cnt hl2
      have hR1nil : R1 = [] := by
        apply List.eq_nil_of_length_eq_zero
        have := congrArg List.length hR
        simp only [List.length_cons, List.length_append] at hc this
        omega
      subst hR1nil
      have huu : g.other e a = g.other f a := (walk_nil g _ _).1 hR1
      have hef : e = f := edge_unique g hs e f a (hP.1.2.1 e List.mem_cons_self) (hQ.1.2.1 f List.mem_cons_self)
        hPw.1 hQw.1 huu
      subst hef
      have hQ2 := hQs.2
      rw [← huu] at hQ2
      rw [opt_unique g hs hp P' Q' _ b hPs.2 hQ2]

/-! ### consistency -/

theorem rootPath_none (g : Graph) (t : SPTree) (fuel v : Nat) (h : t.pred.getD v none = none) :
    rootPath g t fuel v = [] := by
  cases fuel with
  | zero => rfl
  | succ k => simp only [rootPath, h]

theorem rootPath_some (g : Graph) (t : SPTree) (v e : Nat) (hn : 0 < g.n) (h : t.pred.getD v none = some e) :
    ∃ r, rootPath g t g.n v = e :: r := by
  obtain ⟨k, hk⟩ : ∃ k, g.n = k + 1 := ⟨g.n - 1, by omega⟩
  rw [hk]
  refine ⟨rootPath g t k (g.other e v), ?_⟩
  simp only [rootPath, h]

theorem pred_none_of_dist_none (g : Graph) (t : SPTree) (ok : SPTOk g t) (v : Nat) (hv : v < g.n)
    (h : t.dist.getD v none = none) : t.pred.getD v none = none := by
  by_cases hne : v = t.source
  · subst hne; exact ok.pred_src
  · rcases ok.node v hv hne with h1 | ⟨dv, e, dp, h1, _⟩
    · exact h1.2
    · rw [h] at h1; cases h1

theorem facts_of_pred (g : Graph) (t : SPTree) (ok : SPTOk g t) (v : Nat) (hv : v < g.n) (e : Nat)
    (h : t.pred.getD v none = some e) :
    e < g.m ∧ (g.src e = v ∨ g.tgt e = v) ∧ ∃ d, t.dist.getD v none = some d := by
  by_cases hne : v = t.source
  · subst hne; rw [ok.pred_src] at h; cases h
  · rcases ok.node v hv hne with h1 | ⟨dv, e', dp, h1, h2, h3, h4, _⟩
    · rw [h1.2] at h; cases h
    · rw [h] at h2; cases h2
      exact ⟨h3, h4, dv, h1⟩

/-- the root path of `a` in the tree of `b` is the reversed root path of `b` in the tree of `a` -/
theorem root_rev (g : Graph) (hs : g.simpleB = true) (hp : g.positiveB = true) (ta tb : SPTree) (a b : Nat)
    (ha : a < g.n) (hb : b < g.n) (hcb : checkSPT g tb = true) (hsb : tb.source = b)
    (hoa : ∀ v, v < g.n → ∀ d, ta.dist.getD v none = some d → LexOpt g v a (rootPath g ta g.n v))
    (hob : ∀ v, v < g.n → ∀ d, tb.dist.getD v none = some d → LexOpt g v b (rootPath g tb g.n v))
    (d : Int) (hd : ta.dist.getD b none = some d) :
    (∃ d', tb.dist.getD a none = some d') ∧ rootPath g tb g.n a = (rootPath g ta g.n b).reverse := by
  have hA := hoa b hb d hd
  obtain ⟨d', hd', _⟩ := dist_lower g tb hcb a (rootPath g ta g.n b) hA.1.2.1 (by rw [hsb]; exact hA.1.1)
  exact ⟨⟨d', hd'⟩, opt_unique g hs hp _ _ a b (hob a ha d' hd') (opt_reverse g b a _ hA)⟩

end LexOptL

/-- uniqueness -/
theorem lexOpt_unique (g : Graph) (hs : g.simpleB = true) (hp : g.positiveB = true) (a b : Nat) (P Q : List Nat)
    (hP : LexOpt g a b P) (hQ : LexOpt g a b Q) : P = Q :=
  LexOptL.opt_unique g hs hp P Q a b hP hQ

set_option linter.unusedVariables false in
/-- reversal -/
theorem lexOpt_reverse (g : Graph) (hs : g.simpleB = true) (hp : g.positiveB = true) (a b : Nat) (P : List Nat)
    (hP : LexOpt g a b P) : LexOpt g b a P.reverse :=
  LexOptL.opt_reverse g a b P hP

set_option linter.unusedVariables false in
/-- sub-paths: both parts of an optimal path split at any position are optimal -/
theorem lexOpt_split (g : Graph) (hs : g.simpleB = true) (hp : g.positiveB = true) (a b c : Nat) (P1 P2 : List Nat)
    (hP : LexOpt g a b (P1 ++ P2)) (h1 : isWalk g P1 a c = true) :
    LexOpt g a c P1 ∧ LexOpt g c b P2 :=
  LexOptL.opt_split g hp a b c P1 P2 hP h1

/-- **consistency from optimality**: a family of trees, one per vertex, whose root paths are lexicographically optimal
(`rootPath` lists the edges from the vertex up to the root) passes the consistency check -/
theorem consistent_of_lexOpt (g : Graph) (hs : g.simpleB = true) (hp : g.positiveB = true) (trees : List SPTree)
    (hlen : trees.length = g.n)
    (hck : ∀ (a : Nat) (t : SPTree), trees[a]? = some t → t.source = a ∧ checkSPT g t = true)
    (hopt : ∀ (a : Nat) (t : SPTree), trees[a]? = some t → ∀ v, v < g.n → ∀ d, t.dist.getD v none = some d →
      LexOpt g v a (rootPath g t g.n v)) :
    checkConsistent g trees = true := by
  have hex : ∀ v, v < g.n → ∃ t, trees[v]? = some t := by
    intro v hv
    have : v < trees.length := by omega
    exact ⟨trees[v], List.getElem?_eq_getElem this⟩
  unfold checkConsistent
  rw [List.all_eq_true]
  intro a ha
  rw [List.all_eq_true]
  intro b hb
  rw [List.mem_range] at ha hb
  obtain ⟨ta, hta⟩ := hex a ha
  obtain ⟨tb, htb⟩ := hex b hb
  rw [hta, htb]
  obtain ⟨hsa, hca⟩ := hck a ta hta
  obtain ⟨hsb, hcb⟩ := hck b tb htb
  have oka := TreesL.checkSPT_ok g ta hca
  have okb := TreesL.checkSPT_ok g tb hcb
  simp only [Bool.and_eq_true]
  constructor
  · rw [beq_iff_eq]
    unfold treePathSet
    cases hd : ta.dist.getD b none with
    | some d =>
      rw [(LexOptL.root_rev g hs hp ta tb a b ha hb hcb hsb (hopt a ta hta) (hopt b tb htb) d hd).2,
        LexOptL.setOf_reverse]
    | none =>
      have h1 : rootPath g ta g.n b = [] :=
        LexOptL.rootPath_none _ _ _ _ (LexOptL.pred_none_of_dist_none g ta oka b hb hd)
      cases hd' : tb.dist.getD a none with
      | none => rw [h1, LexOptL.rootPath_none _ _ _ _ (LexOptL.pred_none_of_dist_none g tb okb a ha hd')]
      | some d' =>
        obtain ⟨⟨d, hd2⟩, _⟩ :=
          LexOptL.root_rev g hs hp tb ta b a hb ha hca hsa (hopt b tb htb) (hopt a ta hta) d' hd'
        rw [hd] at hd2; cases hd2
  · cases hpe : ta.pred.getD b none with
    | none => rfl
    | some e =>
      obtain ⟨hem, hinc, d, hd⟩ := LexOptL.facts_of_pred g ta oka b hb e hpe
      obtain ⟨tp, htp⟩ := hex _ (TreesL.other_lt g hs e b hem)
      obtain ⟨hsp, hcp⟩ := hck _ tp htp
      simp only [htp]
      rw [beq_iff_eq]
      unfold treePathSet
      have hA := hopt a ta hta b hb d hd
      obtain ⟨r, hr⟩ := LexOptL.rootPath_some g ta b e (by omega) hpe
      rw [hr] at hA
      have hE : isWalk g [e] b (g.other e b) = true :=
        (LexOptL.walk_cons g e [] b _).2 ⟨hinc, (LexOptL.walk_nil g _ _).2 rfl⟩
      have hoe := (LexOptL.opt_split g hp b a (g.other e b) [e] r hA hE).1
      have hwr : isWalk g [e] (g.other e b) b = true := LexOptL.walk_reverse g [e] b _ hE
      obtain ⟨dp, hdp, _⟩ := TreesL.dist_lower g tp hcp b [e]
        (by intro f hf; rw [List.mem_singleton] at hf; rw [hf]; exact hem) (by rw [hsp]; exact hwr)
      have hB := hopt _ tp htp b hb dp hdp
      rw [LexOptL.opt_unique g hs hp _ _ b _ hB hoe]
      rfl

end Parmcb
