import Parmcb.Props.C02
import Parmcb.Lemmas.Meta
/-!
Dimension theory for the cycle space (Steinitz): two bases have the same number of elements; consequence:
the multiset of cycle weights of the basis emitted by a run coincides with that of EVERY minimum cycle
basis (the second sentence of C02).  Core Lean only.
-/
namespace Parmcb.StzL
open Parmcb Parmcb.Abstract Parmcb.C01 Parmcb.C02

section
variable {V : Type} (G : XGroup V)

theorem sumMask_append (X Y : List V) (m1 m2 : List Bool) (h : m1.length = X.length) :
    sumMask G (X ++ Y) (m1 ++ m2) = G.add (sumMask G X m1) (sumMask G Y m2) := by
  induction X generalizing m1 with
  | nil =>
    have : m1 = [] := List.eq_nil_of_length_eq_zero h
    subst this
    simp [G.zero_add]
  | cons x xs ih =>
    cases m1 with
    | nil => simp at h
    | cons b bs =>
      simp only [List.length_cons, Nat.add_right_cancel_iff] at h
      cases b <;> simp [ih bs h, G.add_assoc]

/-- independence does not depend on the position of a member: move it to the front -/
theorem indep_front (A1 A2 : List V) (a : V) (h : IndependentL G (A1 ++ a :: A2)) :
    IndependentL G (a :: (A1 ++ A2)) := by
  intro mask hl ht h0
  cases mask with
  | nil => cases ht
  | cons e m =>
    simp only [List.length_cons, List.length_append, Nat.add_right_cancel_iff] at hl
    have hm : m.take A1.length ++ m.drop A1.length = m := List.take_append_drop _ _
    have hl1 : (m.take A1.length).length = A1.length := by simp; omega
    have hl2 : (m.drop A1.length).length = A2.length := by simp; omega
    apply h (m.take A1.length ++ e :: m.drop A1.length) (by simp; omega)
    · rcases List.mem_cons.1 ht with h1 | h1
      · subst h1; simp
      · rw [← hm] at h1
        rcases List.mem_append.1 h1 with h2 | h2 <;> simp [h2]
    · rw [sumMask_append G _ _ _ _ hl1]
      rw [← hm, sumMask_cons, sumMask_append G _ _ _ _ hl1] at h0
      cases e
      · simpa using h0
      · simp only [sumMask_cons, if_true] at h0 ⊢
        rw [G.add_left_comm]; exact h0

theorem inSpan_cons_split (b : V) (B : List V) (x : V) (h : InSpan G (b :: B) x) :
    InSpan G B x ∨ InSpan G B (G.add x b) := by
  obtain ⟨m, hm, rfl⟩ := h
  cases m with
  | nil => simp at hm
  | cons e m =>
    simp only [List.length_cons, Nat.add_right_cancel_iff] at hm
    cases e
    · left; exact ⟨m, hm, by simp⟩
    · right
      refine ⟨m, hm, ?_⟩
      simp only [sumMask_cons, if_true]
      rw [G.add_comm b, G.add_assoc, G.add_self, G.add_zero]

/-- clear the `a₀`-component: every member is replaced by itself or by itself plus `a₀` -/
theorem clear_exists (a0 : V) (Q : V → Prop) (X : List V)
    (h : ∀ x ∈ X, Q x ∨ Q (G.add x a0)) :
    ∃ X' : List V, X'.length = X.length ∧ (∀ x ∈ X', Q x) ∧
      ∀ m : List Bool, m.length = X.length →
        ∃ e : Bool, sumMask G (a0 :: X) (e :: m) = sumMask G X' m := by
  induction X with
  | nil => exact ⟨[], rfl, by simp, fun m _ => ⟨false, by simp⟩⟩
  | cons x xs ih =>
    obtain ⟨X', hlen, hQ, hsum⟩ := ih (fun y hy => h y (List.mem_cons_of_mem _ hy))
    have key : ∀ x' : V, (x' = x ∨ x' = G.add x a0) → Q x' →
        ∃ X' : List V, X'.length = (x :: xs).length ∧ (∀ x ∈ X', Q x) ∧
          ∀ m : List Bool, m.length = (x :: xs).length →
            ∃ e : Bool, sumMask G (a0 :: x :: xs) (e :: m) = sumMask G X' m := by
      intro x' hx' hQx'
      refine ⟨x' :: X', by simp [hlen], ?_, ?_⟩
      · intro y hy
        rcases List.mem_cons.1 hy with rfl | hy
        · exact hQx'
        · exact hQ y hy
      · intro m hm
        cases m with
        | nil => simp at hm
        | cons c m =>
          simp only [List.length_cons, Nat.add_right_cancel_iff] at hm
          obtain ⟨e, he⟩ := hsum m hm
          cases c
          · exact ⟨e, by simpa using he⟩
          · rcases hx' with rfl | rfl
            · refine ⟨e, ?_⟩
              simp only [sumMask_cons, if_true] at he ⊢
              rw [← he]
              cases e <;> simp [G.add_left_comm]
            · refine ⟨!e, ?_⟩
              simp only [sumMask_cons, if_true] at he ⊢
              rw [← he]
              cases e <;> simp [G.add_assoc, G.add_left_comm, G.add_self_left]
    rcases h x List.mem_cons_self with hx | hx
    · exact key x (Or.inl rfl) hx
    · exact key _ (Or.inr rfl) hx

/-- **Steinitz**: an independent family inside the span of `B` has at most `|B|` members -/
theorem steinitz (B : List V) : ∀ A : List V, IndependentL G A → (∀ a ∈ A, InSpan G B a) →
    A.length ≤ B.length := by
  induction B with
  | nil =>
    intro A hA hAB
    cases A with
    | nil => exact Nat.le_refl _
    | cons a A =>
      exfalso
      obtain ⟨m, _, hm⟩ := hAB a List.mem_cons_self
      rw [sumMask_nil_left] at hm
      apply hA (true :: List.replicate A.length false) (by simp) (by simp)
      simp [sumMask_of_not_mem G A (List.replicate A.length false) (by simp), G.add_zero, ← hm]
  | cons b B ih =>
    intro A hA hAB
    by_cases hall : ∀ a ∈ A, InSpan G B a
    · exact Nat.le_succ_of_le (ih A hA hall)
    · have hex : ∃ a0, a0 ∈ A ∧ ¬ InSpan G B a0 := by
        apply Classical.byContradiction
        intro hne
        apply hall
        intro a ha
        apply Classical.byContradiction
        intro hna
        exact hne ⟨a, ha, hna⟩
      obtain ⟨a0, ha0, hna0⟩ := hex
      obtain ⟨A1, A2, rfl⟩ := List.append_of_mem ha0
      have hfront := indep_front G A1 A2 a0 hA
      have ha0b : InSpan G B (G.add a0 b) := by
        rcases inSpan_cons_split G b B a0 (hAB a0 ha0) with h1 | h1
        · exact absurd h1 hna0
        · exact h1
      have hX : ∀ x ∈ A1 ++ A2, InSpan G B x ∨ InSpan G B (G.add x a0) := by
        intro x hx
        have hxA : x ∈ A1 ++ a0 :: A2 := by
          rcases List.mem_append.1 hx with h1 | h1
          · exact List.mem_append_left _ h1
          · exact List.mem_append_right _ (List.mem_cons_of_mem _ h1)
        rcases inSpan_cons_split G b B x (hAB x hxA) with h1 | h1
        · exact Or.inl h1
        · right
          have := inSpan_add G h1 ha0b
          have e : G.add (G.add x b) (G.add a0 b) = G.add x a0 := by
            rw [G.add_assoc, G.add_left_comm b, G.add_self, G.add_zero]
          rwa [e] at this
      obtain ⟨X', hlen, hQ, hsum⟩ := clear_exists G a0 (InSpan G B) (A1 ++ A2) hX
      have hind : IndependentL G X' := by
        intro m hm ht h0
        rw [hlen] at hm
        obtain ⟨e, he⟩ := hsum m hm
        apply hfront (e :: m) (by simp [hm]) (List.mem_cons_of_mem _ ht)
        rw [he, h0]
      have := ih X' hind hQ
      simp only [List.length_append, List.length_cons] at hlen ⊢
      omega

end

/-! ### transport to lists of edge ids -/

theorem lift_basis (g : Graph) (L : List (List Nat)) (h : IsBasis g L) :
    ∃ Ls : List SVec, vals Ls = L ∧ IndependentL svecGroup Ls ∧
      SpansP svecGroup Ls (fun z => EvenSet g z.1) ∧ ∀ D ∈ Ls, EvenSet g D.1 := by
  obtain ⟨Ls, hLs⟩ := exists_vals L (fun D hD => (h.1 D hD).1)
  subst hLs
  refine ⟨Ls, rfl, ?_, ?_, ?_⟩
  · intro mask hl ht h0
    apply h.2.1 mask (by rw [vals_length]; exact hl) ht
    rw [← sumMask_val, h0]; rfl
  · intro z hz
    obtain ⟨mask, hm, hsum⟩ := h.2.2 z.1 hz
    refine ⟨mask, by rw [hm, vals_length], ?_⟩
    apply svec_ext
    rw [sumMask_val, hsum]
  · intro D hD
    exact h.1 D.1 (List.mem_map.2 ⟨D, hD, rfl⟩)

theorem basis_card_le (g : Graph) (L L' : List (List Nat)) (h : IsBasis g L) (h' : IsBasis g L') :
    L.length ≤ L'.length := by
  obtain ⟨Ls, hLs, hind, _, hE⟩ := lift_basis g L h
  obtain ⟨Ls', hLs', _, hsp', _⟩ := lift_basis g L' h'
  have := steinitz svecGroup Ls' Ls hind (fun a ha => hsp' a (hE a ha))
  rw [← hLs, ← hLs', vals_length, vals_length]
  exact this

/-! ### sums -/

theorem pointwise_sum {α : Type} (f : α → Int) (h : Nat → Int) (Cs : List α) (p : List Nat)
    (hlen : p.length = Cs.length)
    (hw : ∀ (i : Nat) C (q : Nat), Cs[i]? = some C → p[i]? = some q → f C ≤ h q) :
    (Cs.map f).sum ≤ (p.map h).sum ∧ ((Cs.map f).sum = (p.map h).sum → Cs.map f = p.map h) := by
  induction Cs generalizing p with
  | nil =>
    cases p with
    | nil => simp
    | cons q p => simp at hlen
  | cons C Cs ih =>
    cases p with
    | nil => simp at hlen
    | cons q p =>
      have h0 := hw 0 C q (by simp) (by simp)
      obtain ⟨h1, h2⟩ := ih p (by simpa using hlen) (fun i C' q' hC' hq' =>
        hw (i + 1) C' q' (by simpa using hC') (by simpa using hq'))
      simp only [List.map_cons, List.sum_cons]
      refine ⟨by omega, ?_⟩
      intro he
      have e1 : f C = h q := by omega
      have e2 := h2 (by omega)
      rw [e1, e2]

theorem map_range_getD {α β : Type} (f : α → β) (d : β) (L : List α) :
    (List.range L.length).map (fun q => (L.map f)[q]?.getD d) = L.map f := by
  apply List.ext_getElem?
  intro i
  simp only [List.getElem?_map]
  rcases Nat.lt_or_ge i L.length with hi | hi
  · simp [hi]
  · simp [hi]

theorem perm_sum_int {l1 l2 : List Int} (h : l1.Perm l2) : l1.sum = l2.sum := by
  induction h with
  | nil => rfl
  | cons a _ ih => simp only [List.sum_cons, ih]
  | swap a b l => simp only [List.sum_cons]; omega
  | trans _ _ ih1 ih2 => exact ih1.trans ih2

end Parmcb.StzL

namespace Parmcb
open Parmcb.C01 Parmcb.C02

/-- two bases of the cycle space of `g` have the same number of elements -/
theorem basis_card_eq (g : Graph) (L L' : List (List Nat)) (h : IsBasis g L) (h' : IsBasis g L') :
    L.length = L'.length :=
  Nat.le_antisymm (StzL.basis_card_le g L L' h h') (StzL.basis_card_le g L' L h' h)

/-- every minimum cycle basis has as many elements as the run emitted -/
theorem mcb_card (g : Graph) (N : Nat) (v : Variant) (cycles : List (List Nat)) (hd : ExactDomain g N)
    (hr : FullRun g N 1 v cycles) (L' : List (List Nat)) (h' : IsBasis g L') : L'.length = N := by
  rw [basis_card_eq g L' cycles h' (c01_basis g N 1 v cycles hd hr)]
  exact hr.1

/-- **sorted weights coincide**: the list of weights of the emitted cycles is a permutation of the list of
weights of any minimum cycle basis (so the sorted lists are equal) -/
theorem sorted_weights (g : Graph) (N : Nat) (v : Variant) (cycles : List (List Nat)) (hd : ExactDomain g N)
    (hr : FullRun g N 1 v cycles) (L' : List (List Nat)) (h' : IsMCB g L') :
    (cycles.map (wt g)).Perm (L'.map (wt g)) := by
  have hN : L'.length = N := mcb_card g N v cycles hd hr L' h'.1
  have htw := c02_mcb_weight_unique g cycles L' (c02_min g N v cycles hd hr) h'
  obtain ⟨Cs, Fs, hCs, hlen, htri, hgood, hC, _⟩ := full_setup g N 1 v cycles hr
  obtain ⟨Ls, hLs, _, hLsp, hLsE⟩ := StzL.lift_basis g L' h'.1
  obtain ⟨p, hplen, hnd, hrange, hwt⟩ :=
    Abstract.exchange_injection svecPairing (fun z => EvenSet g z.1) (fun z => wt g z.1) 1 htri hC
      (fun i C S h1 h2 z hz hzS => hgood i C S h1 h2 z hz hzS) Ls hLsE hLsp
  have hLslen : Ls.length = N := by rw [← vals_length, hLs, hN]
  have e1 : Cs.map (fun z => wt g z.1) = cycles.map (wt g) := by
    rw [← hCs, vals, List.map_map]; rfl
  have e2 : Ls.map (fun z => wt g z.1) = L'.map (wt g) := by
    rw [← hLs, vals, List.map_map]; rfl
  have hpw := StzL.pointwise_sum (fun z : SVec => wt g z.1)
    (fun q => (Ls.map (fun z => wt g z.1))[q]?.getD 0) Cs p hplen (by
      intro i C q hCi hpi
      have hq : q < Ls.length := hrange q (List.mem_of_getElem? hpi)
      have := hwt i C q Ls[q] hCi hpi (by simp [hq])
      simpa [hq] using this)
  have hperm : (List.range Ls.length).Perm p := by
    apply Spanner.perm_of_subset_length p _ hnd
    · intro x hx; exact List.mem_range.2 (hrange x hx)
    · rw [List.length_range, hplen, hlen, hLslen]; exact Nat.le_refl _
  have hpm := hperm.map (fun q => (Ls.map (fun z => wt g z.1))[q]?.getD 0)
  rw [StzL.map_range_getD] at hpm
  have hsum : (Cs.map (fun z => wt g z.1)).sum
      = (p.map (fun q => (Ls.map (fun z => wt g z.1))[q]?.getD 0)).sum := by
    rw [← StzL.perm_sum_int hpm, e1, e2]
    exact htw
  rw [← e1, hpw.2 hsum, ← e2]
  exact hpm.symm

end Parmcb
