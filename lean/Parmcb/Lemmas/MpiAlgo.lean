import Parmcb.Model.MpiAlgo
import Parmcb.Lemmas.SignedAlgo
import Parmcb.Lemmas.TreesAlgo
import Parmcb.Props.C04
/-!
End-to-end correctness of the literal model of the MPI entry points (`Model/MpiAlgo.lean`) for every number of ranks,
every schedule on every rank, every reduction tree and every per-rank sort order.  Core Lean only.
-/
namespace Parmcb
open Parmcb.C01 Parmcb.C02

/-- the ranks' schedules of one reduction over `total` global indices: rank `r < P` covers exactly its ceil-stride slice -/
def SlicesCovered (total P : Nat) (scheds : Nat → Sched) : Prop :=
  ∀ r, r < P → (scheds r).Covers (sliceLo total P r) (sliceHi total P r)

/-- the reduction tree combines every rank exactly once -/
def TreeOK (P : Nat) (t : RTree) : Prop := t.leaves.Perm (List.range P)

namespace MpiAlgoL

/-! ### what survives the MPI reduction -/

/-- the result of the reduction is the result of one of the ranks -/
theorem eval_mem {C : Type} (loc : Nat → Cyc C) (t : RTree) (x : Int × C) (h : t.eval loc = some x) :
    ∃ r ∈ t.leaves, loc r = some x := by
  induction t generalizing x with
  | leaf r => exact ⟨r, by simp [RTree.leaves], h⟩
  | node l r ihl ihr =>
    simp only [RTree.eval] at h
    simp only [RTree.leaves, List.mem_append]
    cases hl : l.eval loc with
    | none =>
      rw [hl] at h
      simp only [minOpMpi] at h
      obtain ⟨q, hq, hx⟩ := ihr x h
      exact ⟨q, Or.inr hq, hx⟩
    | some a =>
      cases hr : r.eval loc with
      | none =>
        rw [hl, hr] at h
        simp only [minOpMpi] at h
        obtain ⟨q, hq, hx⟩ := ihl x (hl.trans h)
        exact ⟨q, Or.inl hq, hx⟩
      | some b =>
        rw [hl, hr] at h
        simp only [minOpMpi] at h
        split at h
        · obtain ⟨q, hq, hx⟩ := ihl x (hl.trans h)
          exact ⟨q, Or.inl hq, hx⟩
        · obtain ⟨q, hq, hx⟩ := ihr x (hr.trans h)
          exact ⟨q, Or.inr hq, hx⟩

theorem eval_pred {C : Type} (Q : Int × C → Prop) (loc : Nat → Cyc C) (t : RTree)
    (h : ∀ r ∈ t.leaves, ∀ x, loc r = some x → Q x) : ∀ x, t.eval loc = some x → Q x := by
  intro x hx
  obtain ⟨r, hr, hl⟩ := eval_mem loc t x hx
  exact h r hr x hl

/-- nothing found only if no rank found anything; a found result has minimum weight among the ranks' results -/
theorem eval_none_min {C : Type} (loc : Nat → Cyc C) (t : RTree) :
    (t.eval loc = none → ∀ r ∈ t.leaves, loc r = none) ∧
    (∀ x, t.eval loc = some x → ∀ r ∈ t.leaves, ∀ y, loc r = some y → x.1 ≤ y.1) := by
  induction t with
  | leaf r =>
    simp only [RTree.eval, RTree.leaves, List.mem_singleton]
    refine ⟨fun h q hq => hq ▸ h, ?_⟩
    intro x hx q hq y hy
    subst hq
    rw [hx] at hy; cases hy; exact Int.le_refl _
  | node l r ihl ihr =>
    simp only [RTree.eval, RTree.leaves, List.mem_append]
    cases hl : l.eval loc with
    | none =>
      cases hr : r.eval loc with
      | none =>
        simp only [minOpMpi]
        refine ⟨?_, fun x hx => (by cases hx)⟩
        rintro _ q (hq | hq)
        · exact ihl.1 hl q hq
        · exact ihr.1 hr q hq
      | some b =>
        simp only [minOpMpi]
        refine ⟨fun h => (by cases h), ?_⟩
        intro x hx q hq y hy
        cases hx
        rcases hq with hq | hq
        · rw [ihl.1 hl q hq] at hy; cases hy
        · exact ihr.2 _ hr q hq y hy
    | some a =>
      cases hr : r.eval loc with
      | none =>
        simp only [minOpMpi]
        refine ⟨fun h => (by cases h), ?_⟩
        intro x hx q hq y hy
        cases hx
        rcases hq with hq | hq
        · exact ihl.2 _ hl q hq y hy
        · rw [ihr.1 hr q hq] at hy; cases hy
      | some b =>
        simp only [minOpMpi]
        refine ⟨fun h => (by split at h <;> cases h), ?_⟩
        intro x hx q hq y hy
        split at hx
        · cases hx
          rcases hq with hq | hq
          · exact ihl.2 _ hl q hq y hy
          · have := ihr.2 _ hr q hq y hy; omega
        · cases hx
          rcases hq with hq | hq
          · have := ihl.2 _ hl q hq y hy; omega
          · exact ihr.2 _ hr q hq y hy

theorem mem_leaves {P : Nat} {t : RTree} (ht : TreeOK P t) (r : Nat) : r ∈ t.leaves ↔ r < P := by
  rw [ht.mem_iff, List.mem_range]

/-! ### one phase of the signed variant -/

open SignedAlgoL in
theorem phase_mpi (g : Graph) (S C : List Nat) (hC : PhaseOK g 1 S C) (srch : Nat → Option Int → Cyc (List Nat))
    (total : Nat) (hsound : ∀ i L r, i < total → srch i L = some r → OddRes g S r)
    (hcomplete : ∃ i, i < total ∧ ∀ L, (∀ l, L = some l → wt g C < l) → ∃ c, srch i L = some (wt g C, c))
    (P : Nat) (hP : 1 ≤ P) (scheds : Nat → Sched) (hcov : SlicesCovered total P scheds)
    (t : RTree) (ht : TreeOK P t) : PhaseFound g S (mpiPhase srch scheds t) := by
  apply phaseFound_of g S C hC
  · apply mpiPhase_w srch total P hP
    · intro i L r _ h2 h3
      obtain ⟨q1, q2, q3⟩ := hsound i L r h2 h3
      have := hC.2.2 _ q1 q2
      omega
    · obtain ⟨i, h1, h2⟩ := hcomplete
      exact ⟨i, Nat.zero_le _, h1, h2⟩
    · exact hcov
    · exact ht
  · unfold mpiPhase
    apply eval_pred
    intro r hr
    have hrP := (mem_leaves ht r).1 hr
    have hb := slice_bounds total P r
    exact reduceMin_pred _ (fun i L x _ h2 h3 => hsound i L x (by omega) h3) (hcov r hrP)

open SignedAlgoL in
theorem mpi_general (g : Graph) (ord : List Nat) (hs : g.simpleB = true) (hp : g.positiveB = true)
    (pk : PickFam) (hpk : ∀ i L, PickOK (pk i L)) (S : List Nat) (hS : StrictSorted S) (hSm : ∀ e ∈ S, e < g.m)
    (hex : ∃ Z, EvenSet g Z ∧ dotPar Z S = true) (P : Nat) (hP : 1 ≤ P)
    (scheds : Nat → Sched) (hcov : SlicesCovered (if S.length < g.n then S.length else g.n) P scheds)
    (t : RTree) (ht : TreeOK P t) :
    PhaseFound g S (if S.length < g.n then mpiPhase (hiddenIndexTbb g ord pk S S) scheds t
      else mpiPhase (fun v L => searchSigned g ord (pk v L) S [] v true v false L) scheds t) := by
  obtain ⟨C, hC⟩ := phaseOK_exists g hp S hex
  by_cases hn : S.length < g.n
  · rw [if_pos hn] at hcov ⊢
    exact phase_mpi g S C hC _ S.length
      (fun i L r _ h => hid_sound g ord hs hp pk hpk S hS hSm S (List.Perm.refl _) i L r h)
      (hid_complete g ord hs hp pk hpk S hS hSm S (List.Perm.refl _) C hC) P hP scheds hcov t ht
  · rw [if_neg hn] at hcov ⊢
    exact phase_mpi g S C hC _ g.n (fun i L r hi h => allv_sound g ord hs hp pk hpk S hS i hi L r h)
      (allv_complete g ord hs hp pk hpk S hS C hC) P hP scheds hcov t ht

end MpiAlgoL

/-- **one phase of `mcb_sva_signed_mpi`**, every rank count -/
theorem signedPhaseSearchMpi_ok (g : Graph) (ord : List Nat) (hs : g.simpleB = true) (hp : g.positiveB = true)
    (pk : PickFam) (hpk : ∀ i L, PickOK (pk i L)) (S : List Nat) (hS : StrictSorted S) (hSm : ∀ e ∈ S, e < g.m)
    (hex : ∃ Z, EvenSet g Z ∧ dotPar Z S = true) (P : Nat) (hP : 1 ≤ P)
    (scheds : Nat → Sched) (hcov : SlicesCovered (if S.length < g.n then S.length else g.n) P scheds)
    (t : RTree) (ht : TreeOK P t) :
    SignedAlgoL.PhaseFound g S (signedPhaseSearchMpi g ord pk S scheds t) := by
  match S, hS, hSm, hex, hcov with
  | [], hS, hSm, hex, hcov => exact MpiAlgoL.mpi_general g ord hs hp pk hpk [] hS hSm hex P hP scheds hcov t ht
  | [e], hS, hSm, hex, hcov =>
    obtain ⟨C, hC⟩ := phaseOK_exists g hp [e] hex
    show SignedAlgoL.PhaseFound g [e] (singleEdgeTbb g ord pk e)
    rw [SignedAlgoL.singleEdgeTbb_eq]
    obtain ⟨j, hj, hcomp⟩ := SignedAlgoL.hid_complete g ord hs hp pk hpk [e] hS hSm [e] (List.Perm.refl _) C hC
    have hj0 : j = 0 := by simp at hj; omega
    subst hj0
    obtain ⟨c, hc⟩ := hcomp none (fun l hl => by cases hl)
    apply SignedAlgoL.phaseFound_of g [e] C hC
    · rw [hc]; rfl
    · intro r hr
      exact SignedAlgoL.hid_sound g ord hs hp pk hpk [e] hS hSm [e] (List.Perm.refl _) 0 none r hr
  | a :: b :: rest, hS, hSm, hex, hcov =>
    exact MpiAlgoL.mpi_general g ord hs hp pk hpk (a :: b :: rest) hS hSm hex P hP scheds hcov t ht

/-- **`mcb_sva_signed_mpi`, end to end**: for every `P ≥ 1`, what rank 0 emits is a minimum cycle basis of the caller's
graph, the returned value its weight, the number of cycles `m - n + c` -/
theorem mcbSignedMpi_correct (g : Graph) (hs : g.simpleB = true) (hp : g.positiveB = true)
    (order : List Nat) (ho : order.Perm (List.range g.n)) (pick : Nat → PickFam) (hpick : ∀ k i L, PickOK (pick k i L))
    (P : Nat) (hP : 1 ≤ P) (perm : List Nat) (hperm : perm.Perm (List.range (createIndex g order).dim))
    (scheds : Nat → List Nat → Nat → Sched)
    (hcov : ∀ k S, SlicesCovered (if S.length < g.n then S.length else g.n) P (scheds k S))
    (trees : Nat → List Nat → RTree) (ht : ∀ k S, TreeOK P (trees k S)) :
    McbCorrect g order (mcbSignedMpi g order pick perm scheds trees) := by
  have hd := C16.c16_exact_domain g order hs hp ho
  have hp0 : (perm.map fun i => [i]).Perm (unitSupports (createIndex g order).dim) := hperm.map _
  exact SignedAlgoL.mcb_correct_of_core g hs hp order ho .mpi _ hp0 _
    (fun k S hS hSm hex => signedPhaseSearchMpi_ok _ _ hd.simple hd.positive (pick k) (hpick k) S hS hSm
      hex P hP (scheds k S) (hcov k S) (trees k S) (ht k S))

/-- the schedules of the per-rank TBB lookups of the tree variants: rank `r` covers its own candidate list -/
def LocalCovered (gi : Graph) (tc : List SPTree × List Cand) (P : Nat) (scheds : Nat → Nat → Sched) : Prop :=
  ∀ k r, r < P → (scheds k r).Covers 0
    (rankCollection gi (rankChunk (tc.2.map (serialise tc.1)) P r)).2.length

namespace MpiAlgoL

/-! ### the reduction of the ranks' lookups -/

theorem asCyc_some {res : Option CycW} {y : Int × List Nat} (h : asCyc res = some y) : res = some (y.2, y.1) := by
  unfold asCyc at h
  rw [Option.map_eq_some_iff] at h
  obtain ⟨z, hz, rfl⟩ := h
  exact hz

theorem asCyc_none {res : Option CycW} (h : asCyc res = none) : res = none := by
  unfold asCyc at h
  rw [Option.map_eq_none_iff] at h
  exact h

/-- if every rank's lookup returns a minimum-weight odd member of its own candidate family (nothing iff it has no odd
member) and the families together are `cand`, the reduced result is a minimum-weight odd member of `cand` -/
theorem reduce_lookup (g : Graph) (cand : List Nat → Prop) (locC : Nat → List Nat → Prop) (P : Nat)
    (res : Nat → Option CycW) (S : List Nat) (t : RTree) (ht : TreeOK P t)
    (hiff : ∀ C, (∃ r, r < P ∧ locC r C) ↔ cand C)
    (hres : ∀ r, r < P → (∀ x, res r = some x → PhaseOKIn g (locC r) S x.1 ∧ x.2 = wt g x.1) ∧
      (res r = none → ∀ C, locC r C → dotPar C S = false)) :
    (∀ x, (t.eval fun r => asCyc (res r)).map (fun p => (p.2, p.1)) = some x →
        PhaseOKIn g cand S x.1 ∧ x.2 = wt g x.1) ∧
    ((t.eval fun r => asCyc (res r)).map (fun p => (p.2, p.1)) = none → ∀ C, cand C → dotPar C S = false) := by
  constructor
  · intro x hx
    rw [Option.map_eq_some_iff] at hx
    obtain ⟨y, hy, rfl⟩ := hx
    obtain ⟨r, hr, hry⟩ := eval_mem _ t y hy
    have hrP := (mem_leaves ht r).1 hr
    have hz := asCyc_some hry
    obtain ⟨⟨h1, h2, h3, h4⟩, hw⟩ := (hres r hrP).1 _ hz
    simp only at h1 h2 h3 h4 hw ⊢
    refine ⟨⟨(hiff _).1 ⟨r, hrP, h1⟩, h2, h3, ?_⟩, hw⟩
    intro Z hZ hZe hZo
    obtain ⟨r', hr'P, hZ'⟩ := (hiff Z).2 hZ
    cases hres' : res r' with
    | none =>
      have := (hres r' hr'P).2 hres' Z hZ'
      rw [hZo] at this; cases this
    | some z' =>
      obtain ⟨⟨_, _, _, k4⟩, kw⟩ := (hres r' hr'P).1 _ hres'
      have hle := k4 Z hZ' hZe hZo
      have hmin := (eval_none_min (fun r => asCyc (res r)) t).2 y hy r' ((mem_leaves ht r').2 hr'P) (z'.2, z'.1)
        (by simp only [hres', asCyc, Option.map_some])
      simp only at hmin
      omega
  · intro hn C hC
    rw [Option.map_eq_none_iff] at hn
    obtain ⟨r, hrP, hCr⟩ := (hiff C).2 hC
    have := (eval_none_min (fun r => asCyc (res r)) t).1 hn r ((mem_leaves ht r).2 hrP)
    exact (hres r hrP).2 (asCyc_none this) C hCr

/-! ### the chunks and what the ranks rebuild from them -/

/-- what the chunk correspondence needs of rank 0's collection: every tree is the lexicographic tree of its source, every
candidate was created on its tree -/
def CollOK (g : Graph) (tc : List SPTree × List Cand) : Prop :=
  (∀ t ∈ tc.1, ∃ s, s < g.n ∧ t = buildTree g s) ∧
  ∀ c ∈ tc.2, ∃ t, tc.1[c.tree]? = some t ∧ c ∈ createCandidates g t c.tree (List.range g.m)

theorem rankChunk_sub (all : List (Nat × Nat)) (P r : Nat) (x : Nat × Nat) (h : x ∈ rankChunk all P r) : x ∈ all := by
  unfold rankChunk at h
  rw [List.mem_filterMap] at h
  obtain ⟨i, _, hi⟩ := h
  exact List.mem_of_getElem? hi

theorem rankChunk_cover (all : List (Nat × Nat)) (P : Nat) (hP : 1 ≤ P) (x : Nat × Nat) (h : x ∈ all) :
    ∃ r, r < P ∧ x ∈ rankChunk all P r := by
  obtain ⟨i, hi⟩ := List.mem_iff_getElem?.1 h
  have hil : i < all.length := by
    rcases Nat.lt_or_ge i all.length with h' | h'
    · exact h'
    · rw [List.getElem?_eq_none h'] at hi; cases hi
  have hmem : i ∈ (List.range P).flatMap (slice all.length P) := by
    rw [slices_partition _ _ hP]; exact List.mem_range.2 hil
  obtain ⟨r, hr, hin⟩ := List.mem_flatMap.1 hmem
  exact ⟨r, List.mem_range.1 hr, List.mem_filterMap.2 ⟨i, hin, hi⟩⟩

theorem mem_chunkRoots (chunk : List (Nat × Nat)) (s : Nat) : s ∈ chunkRoots chunk ↔ ∃ p ∈ chunk, p.1 = s := by
  unfold chunkRoots
  rw [mem_setOf, List.mem_map]

theorem rankCollection_trees (g : Graph) (chunk : List (Nat × Nat)) (j : Nat) :
    (rankCollection g chunk).1[j]? = (chunkRoots chunk)[j]?.map (buildTree g) := by
  unfold rankCollection
  simp only [List.getElem?_map]

theorem mem_rankCollection (g : Graph) (chunk : List (Nat × Nat)) (c : Cand) :
    c ∈ (rankCollection g chunk).2 ↔
      ∃ s, (chunkRoots chunk)[c.tree]? = some s ∧
        c ∈ createCandidates g (buildTree g s) c.tree ((chunk.filter fun p => p.1 == s).map (·.2)) := by
  unfold rankCollection
  simp only [List.mem_flatMap]
  constructor
  · rintro ⟨⟨t, i⟩, hti, hc⟩
    rw [List.mk_mem_zipIdx_iff_getElem?, List.getElem?_map] at hti
    simp only at hc
    have hi : c.tree = i := ((TreesL.mem_createCandidates g t i _ c).1 hc).2.1
    subst hi
    cases hs : (chunkRoots chunk)[c.tree]? with
    | none => rw [hs] at hti; cases hti
    | some s =>
      rw [hs] at hti
      simp only [Option.map_some, Option.some.injEq] at hti
      subst hti
      exact ⟨s, rfl, hc⟩
  · rintro ⟨s, hs, hc⟩
    refine ⟨(buildTree g s, c.tree), ?_, hc⟩
    rw [List.mk_mem_zipIdx_iff_getElem?, List.getElem?_map, hs]
    rfl

theorem unfoldCand_congr (g : Graph) (t : SPTree) (c c' : Cand) (h : c.edge = c'.edge) :
    unfoldCand g t c = unfoldCand g t c' := by
  unfold unfoldCand
  rw [h]

/-- every serialised pair comes from a candidate of the collection, created on the tree of the pair's root -/
theorem mem_all (g : Graph) (tc : List SPTree × List Cand) (hc : CollOK g tc) (p : Nat × Nat)
    (h : p ∈ tc.2.map (serialise tc.1)) :
    p.1 < g.n ∧ ∃ c0 ∈ tc.2, tc.1[c0.tree]? = some (buildTree g p.1) ∧ c0.edge = p.2 ∧
      c0 ∈ createCandidates g (buildTree g p.1) c0.tree (List.range g.m) := by
  rw [List.mem_map] at h
  obtain ⟨c0, hc0, rfl⟩ := h
  obtain ⟨t0, ht0, hmem⟩ := hc.2 c0 hc0
  obtain ⟨s, hs, rfl⟩ := hc.1 t0 (List.mem_of_getElem? ht0)
  have e : serialise tc.1 c0 = (s, c0.edge) := by
    unfold serialise
    rw [ht0]
    rfl
  rw [e]
  exact ⟨hs, c0, hc0, ht0, rfl, hmem⟩

theorem serialise_mem (g : Graph) (tc : List SPTree × List Cand) (c0 : Cand) (hc0 : c0 ∈ tc.2) (s : Nat)
    (ht0 : tc.1[c0.tree]? = some (buildTree g s)) : (s, c0.edge) ∈ tc.2.map (serialise tc.1) := by
  rw [List.mem_map]
  refine ⟨c0, hc0, ?_⟩
  unfold serialise
  rw [ht0]
  rfl

/-- what a rank rebuilds is a certified collection -/
theorem local_candsOK (g : Graph) (hs : g.simpleB = true) (hp : g.positiveB = true) (tc : List SPTree × List Cand)
    (hc : CollOK g tc) (P r : Nat) (sorter : List Cand → List Cand) (hsort : SortOK sorter) :
    CandsOK g (rankCollection g (rankChunk (tc.2.map (serialise tc.1)) P r)).1
      (sorter (rankCollection g (rankChunk (tc.2.map (serialise tc.1)) P r)).2) := by
  generalize hch : rankChunk (tc.2.map (serialise tc.1)) P r = chunk
  have hsub : ∀ p ∈ chunk, p ∈ tc.2.map (serialise tc.1) := by
    intro p hp'; rw [← hch] at hp'; exact rankChunk_sub _ _ _ p hp'
  constructor
  · intro t ht
    obtain ⟨j, hj⟩ := List.mem_iff_getElem?.1 ht
    rw [rankCollection_trees] at hj
    cases hsj : (chunkRoots chunk)[j]? with
    | none => rw [hsj] at hj; cases hj
    | some s =>
      rw [hsj] at hj
      simp only [Option.map_some, Option.some.injEq] at hj
      subst hj
      obtain ⟨p, hp', rfl⟩ := (mem_chunkRoots chunk s).1 (List.mem_of_getElem? hsj)
      exact C12.c12_dijkstra g hs hp p.1 (mem_all g tc hc p (hsub p hp')).1
  · intro c hcm
    rw [(hsort _).1.mem_iff, mem_rankCollection] at hcm
    obtain ⟨s, hsj, hcc⟩ := hcm
    refine ⟨buildTree g s, by rw [rankCollection_trees, hsj]; rfl, ?_⟩
    rw [TreesL.mem_createCandidates] at hcc ⊢
    obtain ⟨h1, h2, h3⟩ := hcc
    refine ⟨?_, h2, h3⟩
    rw [List.mem_map] at h1
    obtain ⟨p, hp', hpe⟩ := h1
    rw [List.mem_filter] at hp'
    obtain ⟨_, c0, _, _, he, hc0⟩ := mem_all g tc hc p (hsub p hp'.1)
    rw [← hpe, ← he]
    exact ((TreesL.mem_createCandidates g _ _ _ c0).1 hc0).1

/-- the cycles represented by the ranks' local lists together are exactly those of rank 0's collection -/
theorem local_inCands_iff (g : Graph) (tc : List SPTree × List Cand) (hc : CollOK g tc) (P : Nat) (hP : 1 ≤ P)
    (sorters : Nat → List Cand → List Cand) (hsort : ∀ r, SortOK (sorters r)) (C : List Nat) :
    (∃ r, r < P ∧ InCands g (rankCollection g (rankChunk (tc.2.map (serialise tc.1)) P r)).1
      (sorters r (rankCollection g (rankChunk (tc.2.map (serialise tc.1)) P r)).2) C) ↔
    InCands g tc.1 tc.2 C := by
  constructor
  · rintro ⟨r, _, c, hcm, t, ht, hunf⟩
    generalize hch : rankChunk (tc.2.map (serialise tc.1)) P r = chunk at hcm ht
    have hsub : ∀ p ∈ chunk, p ∈ tc.2.map (serialise tc.1) := by
      intro p hp'; rw [← hch] at hp'; exact rankChunk_sub _ _ _ p hp'
    rw [((hsort r) _).1.mem_iff, mem_rankCollection] at hcm
    obtain ⟨s, hsj, hcc⟩ := hcm
    rw [rankCollection_trees, hsj] at ht
    simp only [Option.map_some, Option.some.injEq] at ht
    subst ht
    have h1 := ((TreesL.mem_createCandidates g _ _ _ c).1 hcc).1
    rw [List.mem_map] at h1
    obtain ⟨p, hp', hpe⟩ := h1
    rw [List.mem_filter] at hp'
    have hps : p.1 = s := by simpa using hp'.2
    obtain ⟨_, c0, hc0, ht0, he, _⟩ := mem_all g tc hc p (hsub p hp'.1)
    rw [hps] at ht0
    refine ⟨c0, hc0, buildTree g s, ht0, ?_⟩
    rw [unfoldCand_congr g _ c0 c (he.trans hpe)]
    exact hunf
  · rintro ⟨c0, hc0, t0, ht0, hunf⟩
    obtain ⟨t0', ht0', hmem⟩ := hc.2 c0 hc0
    rw [ht0] at ht0'; cases ht0'
    obtain ⟨s, _, rfl⟩ := hc.1 t0 (List.mem_of_getElem? ht0)
    obtain ⟨r, hrP, hin⟩ := rankChunk_cover _ P hP _ (serialise_mem g tc c0 hc0 s ht0)
    refine ⟨r, hrP, ?_⟩
    generalize rankChunk (tc.2.map (serialise tc.1)) P r = chunk at hin ⊢
    have hroot : s ∈ chunkRoots chunk := (mem_chunkRoots chunk s).2 ⟨_, hin, rfl⟩
    obtain ⟨j, hj⟩ := List.mem_iff_getElem?.1 hroot
    refine ⟨{ tree := j, edge := c0.edge, weight := c0.weight }, ?_, buildTree g s, ?_, ?_⟩
    · rw [((hsort r) _).1.mem_iff, mem_rankCollection]
      refine ⟨s, hj, ?_⟩
      rw [TreesL.mem_createCandidates] at hmem ⊢
      obtain ⟨_, _, h3⟩ := hmem
      refine ⟨?_, rfl, h3⟩
      rw [List.mem_map]
      exact ⟨(s, c0.edge), List.mem_filter.2 ⟨hin, by simp⟩, rfl⟩
    · rw [rankCollection_trees, hj]; rfl
    · exact (unfoldCand_congr g _ _ c0 rfl).trans hunf

/-- **the MPI lookup** meets the contract of the main loop for rank 0's collection -/
theorem lookupOK_mpi (g : Graph) (hs : g.simpleB = true) (hp : g.positiveB = true) (tc : List SPTree × List Cand)
    (hc : CollOK g tc) (P : Nat) (hP : 1 ≤ P) (tbb : Bool) (sorters : Nat → List Cand → List Cand)
    (hsort : ∀ r, SortOK (sorters r)) (scheds : Nat → Nat → Sched) (hcov : LocalCovered g tc P scheds)
    (rtrees : Nat → RTree) (ht : ∀ k, TreeOK P (rtrees k)) :
    TreesAlgoL.LookupOK g (InCands g tc.1 tc.2) (fun k S =>
      treesPhaseMpi g (fun r => ((rankCollection g (rankChunk (tc.2.map (serialise tc.1)) P r)).1,
        sorters r (rankCollection g (rankChunk (tc.2.map (serialise tc.1)) P r)).2)) tbb S (scheds k) (rtrees k)) := by
  intro k S hS
  unfold treesPhaseMpi
  apply reduce_lookup g (InCands g tc.1 tc.2) (fun r => InCands g
    (rankCollection g (rankChunk (tc.2.map (serialise tc.1)) P r)).1
    (sorters r (rankCollection g (rankChunk (tc.2.map (serialise tc.1)) P r)).2)) P _ S (rtrees k) (ht k)
    (local_inCands_iff g tc hc P hP sorters hsort)
  intro r hrP
  have hok := local_candsOK g hs hp tc hc P r (sorters r) (hsort r)
  cases tbb with
  | false =>
    simp only [Bool.false_eq_true, if_false]
    exact TreesAlgoL.lookupSorted_spec g hs hp _ _ hok ((hsort r) _).2 S hS
  | true =>
    simp only [if_true]
    exact TreesAlgoL.lookupTbb_spec g hs hp _ _ hok S hS (scheds k r)
      (by rw [((hsort r) _).1.length_eq]; exact hcov k r hrP)

theorem inCands_perm (g : Graph) (trees : List SPTree) (l l' : List Cand) (h : l.Perm l') (C : List Nat)
    (hC : InCands g trees l C) : InCands g trees l' C := by
  obtain ⟨c, hc, rest⟩ := hC
  exact ⟨c, h.mem_iff.1 hc, rest⟩

theorem fvs_collOK (g : Graph) (hs : g.simpleB = true) (picks : List Nat) :
    CollOK g (fvsCands g (greedyFvs g picks)) := by
  have hv := C13.c13_vertices g hs picks
  constructor
  · intro t ht
    have ht' : t ∈ (greedyFvs g picks).map (buildTree g) := ht
    rw [List.mem_map] at ht'
    obtain ⟨s, hsn, rfl⟩ := ht'
    exact ⟨s, hv.1 s hsn, rfl⟩
  · intro c hc
    exact (TreesAlgoL.mem_collCands g _ c).1 hc

theorem iso_collOK (g : Graph) : CollOK g (isoCands g) := by
  constructor
  · intro t ht
    rw [TreesAlgoL.isoCands_fst] at ht
    have ht' : t ∈ (List.range g.n).map (buildTree g) := ht
    rw [List.mem_map] at ht'
    obtain ⟨s, hsn, rfl⟩ := ht'
    exact ⟨s, List.mem_range.1 hsn, rfl⟩
  · intro c hc
    rw [TreesAlgoL.isoCands_fst]
    exact (TreesAlgoL.mem_collCands g (hortonCands g).1 c).1 (TreesL.isoCands_subset g c hc)

end MpiAlgoL

/-- **`mcb_sva_fvs_trees_mpi` / `mcb_sva_fvs_trees_tbb_mpi`, end to end** -/
theorem mcbFvsTreesMpi_correct (g : Graph) (hs : g.simpleB = true) (hp : g.positiveB = true)
    (order : List Nat) (ho : order.Perm (List.range g.n)) (picks : List Nat) (hpicks : ∀ x, x < g.n → x ∈ picks)
    (P : Nat) (hP : 1 ≤ P) (tbb : Bool) (sorters : Nat → List Cand → List Cand) (hsort : ∀ r, SortOK (sorters r))
    (scheds : Nat → Nat → Sched)
    (hcov : LocalCovered (reindex g (createIndex g order))
      (fvsCands (reindex g (createIndex g order)) (greedyFvs (reindex g (createIndex g order)) picks)) P scheds)
    (rtrees : Nat → RTree) (ht : ∀ k, TreeOK P (rtrees k)) :
    McbCorrect g order (mcbFvsTreesMpi g order picks P tbb sorters scheds rtrees) := by
  have hd := C16.c16_exact_domain g order hs hp ho
  obtain ⟨_, hsuff⟩ := TreesAlgoL.fvs_setup (reindex g (createIndex g order)) hd.simple hd.positive picks hpicks
    sortByWeight sortByWeight_ok
  exact TreesAlgoL.core_correct g hs hp order ho _ _
    (MpiAlgoL.lookupOK_mpi _ hd.simple hd.positive _ (MpiAlgoL.fvs_collOK _ hd.simple picks) P hP tbb sorters hsort
      scheds hcov rtrees ht)
    (fun S hS Z hZ ho' hmin => by
      obtain ⟨C, h1, h2⟩ := hsuff S hS Z hZ ho' hmin
      exact ⟨C, MpiAlgoL.inCands_perm _ _ _ _ (sortByWeight_ok _).1 C h1, h2⟩)

/-- **`mcb_sva_iso_trees_mpi` / `mcb_sva_iso_trees_tbb_mpi`, end to end** -/
theorem mcbIsoTreesMpi_correct (g : Graph) (hs : g.simpleB = true) (hp : g.positiveB = true)
    (order : List Nat) (ho : order.Perm (List.range g.n))
    (P : Nat) (hP : 1 ≤ P) (tbb : Bool) (sorters : Nat → List Cand → List Cand) (hsort : ∀ r, SortOK (sorters r))
    (scheds : Nat → Nat → Sched)
    (hcov : LocalCovered (reindex g (createIndex g order)) (isoCands (reindex g (createIndex g order))) P scheds)
    (rtrees : Nat → RTree) (ht : ∀ k, TreeOK P (rtrees k)) :
    McbCorrect g order (mcbIsoTreesMpi g order P tbb sorters scheds rtrees) := by
  have hd := C16.c16_exact_domain g order hs hp ho
  obtain ⟨_, hsuff⟩ := TreesAlgoL.iso_setup (reindex g (createIndex g order)) hd.simple hd.positive
    sortByWeight sortByWeight_ok
  exact TreesAlgoL.core_correct g hs hp order ho _ _
    (MpiAlgoL.lookupOK_mpi _ hd.simple hd.positive _ (MpiAlgoL.iso_collOK _) P hP tbb sorters hsort
      scheds hcov rtrees ht)
    (fun S hS Z hZ ho' hmin => by
      obtain ⟨C, h1, h2⟩ := hsuff S hS Z hZ ho' hmin
      exact ⟨C, MpiAlgoL.inCands_perm _ _ _ _ (sortByWeight_ok _).1 C h1, h2⟩)

end Parmcb
