import Parmcb.Model.Gf2
/-! Lemmas about the SpVecGF2 model: merge = symmetric difference, product = parity of the
intersection, canonical form is preserved.  Core Lean only. -/
namespace Parmcb

theorem strictSortedB_iff (l : List Nat) : strictSortedB l = true ↔ StrictSorted l := by
  induction l with
  | nil => simp [strictSortedB, StrictSorted]
  | cons x r ih =>
    cases r with
    | nil => simp [strictSortedB, StrictSorted]
    | cons y r => simp [strictSortedB, StrictSorted, ih]

instance (l : List Nat) : Decidable (StrictSorted l) :=
  decidable_of_iff _ (strictSortedB_iff l)

theorem StrictSorted.tail {x : Nat} {l : List Nat} (h : StrictSorted (x :: l)) : StrictSorted l := by
  cases l with
  | nil => trivial
  | cons y r => exact h.2

theorem StrictSorted.head_lt {x : Nat} {l : List Nat} (h : StrictSorted (x :: l)) :
    ∀ z ∈ l, x < z := by
  induction l generalizing x with
  | nil => intro z hz; cases hz
  | cons y r ih =>
    intro z hz
    have hxy : x < y := h.1
    cases hz with
    | head => exact hxy
    | tail _ hz' => exact Nat.lt_trans hxy (ih h.2 z hz')

theorem StrictSorted.cons {x : Nat} {l : List Nat} (hl : StrictSorted l) (hx : ∀ z ∈ l, x < z) :
    StrictSorted (x :: l) := by
  cases l with
  | nil => trivial
  | cons y r => exact ⟨hx y (List.mem_cons_self), hl⟩

theorem StrictSorted.not_mem_head {x : Nat} {l : List Nat} (h : StrictSorted (x :: l)) : x ∉ l :=
  fun hx => Nat.lt_irrefl _ (h.head_lt x hx)

theorem StrictSorted.nodup {l : List Nat} (h : StrictSorted l) : l.Nodup := by
  induction l with
  | nil => exact List.nodup_nil
  | cons x r ih =>
    exact List.nodup_cons.2 ⟨h.not_mem_head, ih h.tail⟩

/-- two strictly sorted lists with the same members are equal -/
theorem StrictSorted.ext {a b : List Nat} (ha : StrictSorted a) (hb : StrictSorted b)
    (h : ∀ z, z ∈ a ↔ z ∈ b) : a = b := by
  induction a generalizing b with
  | nil =>
    cases b with
    | nil => rfl
    | cons y r => exact absurd ((h y).2 List.mem_cons_self) (by simp)
  | cons x ra ih =>
    cases b with
    | nil => exact absurd ((h x).1 List.mem_cons_self) (by simp)
    | cons y rb =>
      have hxy : x = y := by
        have h1 : x ∈ y :: rb := (h x).1 List.mem_cons_self
        have h2 : y ∈ x :: ra := (h y).2 List.mem_cons_self
        rcases List.mem_cons.1 h1 with h1 | h1
        · exact h1
        · rcases List.mem_cons.1 h2 with h2 | h2
          · exact h2.symm
          · have := hb.head_lt x h1
            have := ha.head_lt y h2
            omega
      subst hxy
      congr 1
      apply ih ha.tail hb.tail
      intro z
      constructor
      · intro hz
        have : z ∈ x :: rb := (h z).1 (List.mem_cons_of_mem _ hz)
        rcases List.mem_cons.1 this with e | e
        · subst e; exact absurd hz ha.not_mem_head
        · exact e
      · intro hz
        have : z ∈ x :: ra := (h z).2 (List.mem_cons_of_mem _ hz)
        rcases List.mem_cons.1 this with e | e
        · subst e; exact absurd hz hb.not_mem_head
        · exact e

/-- every member of a merge comes from one of the operands -/
theorem mem_xorMerge_of (a b : List Nat) (z : Nat) (h : z ∈ xorMerge a b) : z ∈ a ∨ z ∈ b := by
  fun_induction xorMerge a b with
  | case1 b => exact Or.inr h
  | case2 a _ => exact Or.inl h
  | case3 x a y b hgt ih =>
    rcases List.mem_cons.1 h with e | e
    · exact Or.inr (e ▸ List.mem_cons_self)
    · rcases ih e with e | e
      · exact Or.inl e
      · exact Or.inr (List.mem_cons_of_mem _ e)
  | case4 x a y b hgt hlt ih =>
    rcases List.mem_cons.1 h with e | e
    · exact Or.inl (e ▸ List.mem_cons_self)
    · rcases ih e with e | e
      · exact Or.inl (List.mem_cons_of_mem _ e)
      · exact Or.inr e
  | case5 x a y b hgt hlt ih =>
    rcases ih h with e | e
    · exact Or.inl (List.mem_cons_of_mem _ e)
    · exact Or.inr (List.mem_cons_of_mem _ e)

/-- `operator+` keeps the canonical form -/
theorem xorMerge_sorted (a b : List Nat) (ha : StrictSorted a) (hb : StrictSorted b) :
    StrictSorted (xorMerge a b) := by
  fun_induction xorMerge a b with
  | case1 b => exact hb
  | case2 a _ => exact ha
  | case3 x a y b hgt ih =>
    apply StrictSorted.cons (ih ha hb.tail)
    intro z hz
    rcases mem_xorMerge_of _ _ _ hz with e | e
    · rcases List.mem_cons.1 e with e | e
      · omega
      · have := ha.head_lt z e; omega
    · exact hb.head_lt z e
  | case4 x a y b hgt hlt ih =>
    apply StrictSorted.cons (ih ha.tail hb)
    intro z hz
    rcases mem_xorMerge_of _ _ _ hz with e | e
    · exact ha.head_lt z e
    · rcases List.mem_cons.1 e with e | e
      · omega
      · have := hb.head_lt z e; omega
  | case5 x a y b hgt hlt ih => exact ih ha.tail hb.tail

/-- `operator+` is the symmetric difference (C17) -/
theorem mem_xorMerge (a b : List Nat) (ha : StrictSorted a) (hb : StrictSorted b) (z : Nat) :
    z ∈ xorMerge a b ↔ ((z ∈ a) ≠ (z ∈ b)) := by
  fun_induction xorMerge a b with
  | case1 b => simp
  | case2 a _ => simp
  | case3 x a y b hgt ih =>
    have ih := ih ha hb.tail
    have hyx : y ∉ x :: a := by
      intro h
      rcases List.mem_cons.1 h with e | e
      · omega
      · have := ha.head_lt y e; omega
    have hyb : y ∉ b := hb.not_mem_head
    by_cases hzy : z = y
    · subst hzy; simp [hyx]
    · simp only [List.mem_cons, hzy, false_or, ih]
  | case4 x a y b hgt hlt ih =>
    have ih := ih ha.tail hb
    have hxy : x ∉ y :: b := by
      intro h
      rcases List.mem_cons.1 h with e | e
      · omega
      · have := hb.head_lt x e; omega
    by_cases hzx : z = x
    · subst hzx; simp [hxy]
    · simp only [List.mem_cons, hzx, false_or, ih]
  | case5 x a y b hgt hlt ih =>
    have hxy : x = y := by omega
    subst hxy
    have ih := ih ha.tail hb.tail
    by_cases hzx : z = x
    · subst hzx
      have h1 : z ∉ a := ha.not_mem_head
      have h2 : z ∉ b := hb.not_mem_head
      simp [ih, h1, h2]
    · simp only [List.mem_cons, hzx, false_or, ih]

/-- number of common coordinates -/
def common (a b : List Nat) : Nat := (a.filter (fun z => decide (z ∈ b))).length

theorem common_nil_right (a : List Nat) : common a [] = 0 := by
  simp [common]

theorem common_skip_right (a b : List Nat) (y : Nat) (hy : y ∉ a) : common a (y :: b) = common a b := by
  unfold common
  congr 1
  apply List.filter_congr
  intro z hz
  have : z ≠ y := fun e => hy (e ▸ hz)
  simp [this]

theorem common_skip_left (a b : List Nat) (x : Nat) (hx : x ∉ b) : common (x :: a) b = common a b := by
  simp [common, hx]

theorem common_both (a b : List Nat) (x : Nat) (hx : x ∉ a) :
    common (x :: a) (x :: b) = common a b + 1 := by
  have h := common_skip_right a b x hx
  unfold common at *
  simp only [List.filter_cons, List.mem_cons, true_or, decide_true, if_true, List.length_cons]
  simp only [List.mem_cons] at h
  omega

/-- `operator*` is the parity of the number of common coordinates (C17) -/
theorem dotPar_spec (a b : List Nat) (ha : StrictSorted a) (hb : StrictSorted b) :
    dotPar a b = (common a b % 2 == 1) := by
  fun_induction dotPar a b with
  | case1 b => simp [common]
  | case2 a _ => simp [common_nil_right]
  | case3 x a y b hgt ih =>
    rw [ih ha hb.tail, common_skip_right]
    intro h
    rcases List.mem_cons.1 h with e | e
    · omega
    · have := ha.head_lt y e; omega
  | case4 x a y b hgt hlt ih =>
    rw [ih ha.tail hb, common_skip_left]
    intro h
    rcases List.mem_cons.1 h with e | e
    · omega
    · have := hb.head_lt x e; omega
  | case5 x a y b hgt hlt ih =>
    have hxy : x = y := by omega
    subst hxy
    rw [ih ha.tail hb.tail, common_both _ _ _ ha.not_mem_head]
    generalize common a b = n
    rcases Nat.mod_two_eq_zero_or_one n with h | h <;> simp [h, Nat.add_mod]

/-! ### the set constructor -/

theorem mem_setInsert (x : Nat) (l : List Nat) (z : Nat) : z ∈ setInsert x l ↔ z = x ∨ z ∈ l := by
  induction l with
  | nil => simp [setInsert]
  | cons y r ih =>
    unfold setInsert
    split
    · simp
    · split
      · rename_i h; subst h; simp
      · simp [ih]; constructor <;> (intro h; rcases h with h | h | h <;> simp [h])

theorem setInsert_sorted (x : Nat) (l : List Nat) (h : StrictSorted l) : StrictSorted (setInsert x l) := by
  induction l with
  | nil => trivial
  | cons y r ih =>
    unfold setInsert
    split
    · rename_i hlt; exact ⟨hlt, h⟩
    · split
      · exact h
      · rename_i h1 h2
        apply StrictSorted.cons (ih h.tail)
        intro z hz
        rcases (mem_setInsert x r z).1 hz with e | e
        · omega
        · exact h.head_lt z e

theorem setOf_sorted_aux (l : List Nat) (s : List Nat) (hs : StrictSorted s) :
    StrictSorted (l.foldl (fun s x => setInsert x s) s) := by
  induction l generalizing s with
  | nil => exact hs
  | cons x r ih => exact ih _ (setInsert_sorted x s hs)

theorem setOf_sorted (l : List Nat) : StrictSorted (setOf l) := setOf_sorted_aux l [] trivial

theorem mem_setOf_aux (l s : List Nat) (z : Nat) :
    z ∈ l.foldl (fun s x => setInsert x s) s ↔ z ∈ l ∨ z ∈ s := by
  induction l generalizing s with
  | nil => simp
  | cons x r ih =>
    simp only [List.foldl_cons, ih, mem_setInsert, List.mem_cons]
    constructor
    · rintro (h | h | h)
      · exact Or.inl (Or.inr h)
      · exact Or.inl (Or.inl h)
      · exact Or.inr h
    · rintro ((h | h) | h)
      · exact Or.inr (Or.inl h)
      · exact Or.inl h
      · exact Or.inr (Or.inr h)

theorem mem_setOf (l : List Nat) (z : Nat) : z ∈ setOf l ↔ z ∈ l := by
  simp [setOf, mem_setOf_aux]

end Parmcb
