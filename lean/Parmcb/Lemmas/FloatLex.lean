import Parmcb.Model.FloatLex
import Parmcb.Lemmas.FloatCert
import Parmcb.Lemmas.Dijkstra
import Parmcb.Lemmas.FloatDijkstra
/-!
`lex_dijkstra` run in double arithmetic ALWAYS passes the certificate `checkFloatSPT`.

The proof follows Lemmas/Dijkstra.lean (invariant `Inv`) with `+` replaced by `fadd`.  One point is new: because
`fadd d w` can equal `d` (absorption), a candidate label for an ALREADY SETTLED vertex can tie in distance with the
vertex's label and win on (cnt, verts), so a settled vertex can get a new predecessor (same distance).  The distance
VALUES of settled vertices never change, and the edge counts of settled vertices never increase; the records stay
acyclic because `cnt` strictly decreases along predecessor records (`FInv.tree`).
-/
namespace Parmcb
open Parmcb.Float

namespace FloatLexL
open TreesL DijL Parmcb.Spanner

/-- the edge count of the label of `v` (0 when there is no label) -/
def cOf (lab : List (Option LexLabel)) (v : Nat) : Nat :=
  match lab.getD v none with
  | some l => l.cnt
  | none => 0

theorem cOf_some (lab : List (Option LexLabel)) (v : Nat) (l : LexLabel) (h : lab.getD v none = some l) :
    cOf lab v = l.cnt := by
  unfold cOf; rw [h]

theorem cOf_set_ne (lab : List (Option LexLabel)) (w v : Nat) (x : Option LexLabel) (h : w ≠ v) :
    cOf (lab.set w x) v = cOf lab v := by
  unfold cOf; rw [getD_set_ne _ _ _ _ _ h]

theorem cOf_set_self (lab : List (Option LexLabel)) (w : Nat) (c : LexLabel) (h : w < lab.length) :
    cOf (lab.set w (some c)) w = c.cnt := by
  unfold cOf; rw [getD_set_self _ _ _ _ h]

/-! ### the invariant -/

/-- state invariant after the vertices of `D` have been popped; `R a e w` = the out-edge `(e, w)` of the
popped vertex `a` has been relaxed -/
structure FInv (g : Graph) (s : Nat) (st : LexState) (D : List Nat) (R : Nat → Nat → Nat → Prop) : Prop where
  len_lab : st.lab.length = g.n
  len_pred : st.pred.length = g.n
  pred_s : st.pred.getD s none = none
  lab_s : st.lab.getD s none = some ⟨0, 0, [s]⟩
  q_nd : st.queue.Nodup
  q_D : ∀ v ∈ st.queue, v ∉ D
  D_lt : ∀ v ∈ D, v < g.n
  D_nd : D.Nodup
  disc_iff : ∀ v, Disc s st.pred v ↔ v ∈ D ∨ v ∈ st.queue
  lab_some : ∀ v, Disc s st.pred v → ∃ l, st.lab.getD v none = some l
  tree : ∀ v e, st.pred.getD v none = some e → e < g.m ∧ (g.src e = v ∨ g.tgt e = v) ∧ g.other e v ∈ D ∧
    dOf st.lab v = fadd (dOf st.lab (g.other e v)) (g.weight e) ∧ cOf st.lab (g.other e v) + 1 ≤ cOf st.lab v
  mono : ∀ d ∈ D, ∀ x ∈ st.queue, dOf st.lab d ≤ dOf st.lab x
  edge : ∀ a e w, R a e w → a ∈ D ∧ Disc s st.pred w ∧ dOf st.lab w ≤ fadd (dOf st.lab a) (g.weight e)
  nonneg : ∀ v, 0 ≤ dOf st.lab v
  rounded : ∀ v, rnd (dOf st.lab v) = dOf st.lab v

theorem FInv.setR {g : Graph} {s : Nat} {st : LexState} {D : List Nat} {R R' : Nat → Nat → Nat → Prop}
    (h : FInv g s st D R)
    (hR : ∀ a e w, R' a e w → a ∈ D ∧ Disc s st.pred w ∧ dOf st.lab w ≤ fadd (dOf st.lab a) (g.weight e)) :
    FInv g s st D R' :=
  ⟨h.len_lab, h.len_pred, h.pred_s, h.lab_s, h.q_nd, h.q_D, h.D_lt, h.D_nd, h.disc_iff, h.lab_some, h.tree,
    h.mono, hR, h.nonneg, h.rounded⟩

theorem FDisc_lt {g : Graph} {s : Nat} {st : LexState} {D : List Nat} {R : Nat → Nat → Nat → Prop}
    (h : FInv g s st D R) (hsn : s < g.n) (v : Nat) (hv : Disc s st.pred v) : v < g.n := by
  rcases hv with hv | ⟨e, he⟩
  · omega
  · by_cases hlt : v < g.n
    · exact hlt
    · rw [getD_ge _ _ _ (by rw [h.len_pred]; omega)] at he; cases he

/-- the common part of "first time found" and "label improved": `lab[w] := c`, `pred[w] := e`.  `w` may be a settled
vertex, but then the distance value is unchanged and the edge count does not increase. -/
theorem FInv.update {g : Graph} {s : Nat} {st : LexState} {D : List Nat} {R : Nat → Nat → Nat → Prop}
    (hs : g.simpleB = true) (hp : g.positiveB = true) (h : FInv g s st D R)
    (u e w : Nat) (c : LexLabel) (q' : List Nat)
    (hu : u ∈ D) (hmax : ∀ d ∈ D, dOf st.lab d ≤ dOf st.lab u)
    (hadj : (e, w) ∈ g.adj u) (hws : w ≠ s)
    (hc : c.dist = fadd (dOf st.lab u) (g.weight e))
    (hcc : c.cnt = cOf st.lab u + 1)
    (hle : Disc s st.pred w → c.dist ≤ dOf st.lab w)
    (hwD : w ∈ D → c.dist = dOf st.lab w ∧ c.cnt ≤ cOf st.lab w)
    (hq1 : q'.Nodup) (hq2 : ∀ x, x ∈ q' ↔ x ∈ st.queue ∨ (x = w ∧ w ∉ D)) :
    FInv g s ⟨st.lab.set w (some c), st.pred.set w (some e), q'⟩ D
      (fun a e' w' => R a e' w' ∨ (a = u ∧ e' = e ∧ w' = w)) ∧
    (∀ d ∈ D, dOf (st.lab.set w (some c)) d = dOf st.lab d) := by
  obtain ⟨hem, hwn, hun, hwu, hinc, hoth⟩ := adj_facts g hs u e w hadj
  have hpos := positiveB_facts g hp e hem
  have hwl : w < st.lab.length := by rw [h.len_lab]; exact hwn
  have hwp : w < st.pred.length := by rw [h.len_pred]; exact hwn
  have hdw : dOf (st.lab.set w (some c)) w = c.dist := dOf_set_self _ _ _ hwl
  have hcw : cOf (st.lab.set w (some c)) w = c.cnt := cOf_set_self _ _ _ hwl
  have hdne : ∀ v, v ≠ w → dOf (st.lab.set w (some c)) v = dOf st.lab v :=
    fun v hv => dOf_set_ne _ _ _ _ (Ne.symm hv)
  have hcne : ∀ v, v ≠ w → cOf (st.lab.set w (some c)) v = cOf st.lab v :=
    fun v hv => cOf_set_ne _ _ _ _ (Ne.symm hv)
  have hinf : dOf st.lab u ≤ c.dist := by
    rw [hc]; exact fadd_inflationary _ _ (h.rounded u) (Int.le_of_lt hpos)
  have hdD : ∀ d ∈ D, dOf (st.lab.set w (some c)) d = dOf st.lab d := by
    intro d hd
    by_cases hdw' : d = w
    · subst hdw'; rw [hdw]; exact (hwD hd).1
    · exact hdne d hdw'
  have hcD : ∀ d ∈ D, cOf (st.lab.set w (some c)) d ≤ cOf st.lab d := by
    intro d hd
    by_cases hdw' : d = w
    · subst hdw'; rw [hcw]; exact (hwD hd).2
    · rw [hcne d hdw']
  have hdisc : ∀ v, Disc s (st.pred.set w (some e)) v ↔ (Disc s st.pred v ∨ v = w) := by
    intro v
    unfold Disc
    by_cases hv : v = w
    · subst hv
      rw [getD_set_self _ _ _ _ hwp]
      exact ⟨fun _ => Or.inr rfl, fun _ => Or.inr ⟨e, rfl⟩⟩
    · rw [getD_set_ne _ _ _ _ _ (Ne.symm hv)]
      exact ⟨Or.inl, fun hh => hh.elim id (fun hh => absurd hh hv)⟩
  have hdec : ∀ v, dOf (st.lab.set w (some c)) v ≤ dOf st.lab v ∨ ¬ Disc s st.pred v := by
    intro v
    by_cases hv : v = w
    · subst hv
      by_cases hd : Disc s st.pred v
      · left; rw [hdw]; exact hle hd
      · right; exact hd
    · left; rw [hdne v hv]
  refine ⟨⟨?_, ?_, ?_, ?_, hq1, ?_, h.D_lt, h.D_nd, ?_, ?_, ?_, ?_, ?_, ?_, ?_⟩, hdD⟩
  · show (st.lab.set w (some c)).length = g.n
    rw [List.length_set]; exact h.len_lab
  · show (st.pred.set w (some e)).length = g.n
    rw [List.length_set]; exact h.len_pred
  · show (st.pred.set w (some e)).getD s none = none
    rw [getD_set_ne _ _ _ _ _ hws]; exact h.pred_s
  · show (st.lab.set w (some c)).getD s none = _
    rw [getD_set_ne _ _ _ _ _ hws]; exact h.lab_s
  · intro v hv
    rcases (hq2 v).1 hv with hv | ⟨hv, hnD⟩
    · exact h.q_D v hv
    · subst hv; exact hnD
  · intro v
    show Disc s (st.pred.set w (some e)) v ↔ v ∈ D ∨ v ∈ q'
    rw [hdisc, hq2, h.disc_iff]
    constructor
    · rintro ((h1 | h1) | h1)
      · exact Or.inl h1
      · exact Or.inr (Or.inl h1)
      · by_cases hwD' : w ∈ D
        · exact Or.inl (h1 ▸ hwD')
        · exact Or.inr (Or.inr ⟨h1, hwD'⟩)
    · rintro (h1 | h1 | ⟨h1, _⟩)
      · exact Or.inl (Or.inl h1)
      · exact Or.inl (Or.inr h1)
      · exact Or.inr h1
  · intro v hv
    show ∃ l, (st.lab.set w (some c)).getD v none = some l
    by_cases hvw : v = w
    · subst hvw; exact ⟨c, getD_set_self _ _ _ _ hwl⟩
    · rw [getD_set_ne _ _ _ _ _ (Ne.symm hvw)]
      rcases (hdisc v).1 hv with hv | hv
      · exact h.lab_some v hv
      · exact absurd hv hvw
  · intro v e' hv
    show e' < g.m ∧ (g.src e' = v ∨ g.tgt e' = v) ∧ g.other e' v ∈ D ∧
      dOf (st.lab.set w (some c)) v = fadd (dOf (st.lab.set w (some c)) (g.other e' v)) (g.weight e') ∧
      cOf (st.lab.set w (some c)) (g.other e' v) + 1 ≤ cOf (st.lab.set w (some c)) v
    have hv' : (st.pred.set w (some e)).getD v none = some e' := hv
    by_cases hvw : v = w
    · subst hvw
      rw [getD_set_self _ _ _ _ hwp] at hv'
      cases hv'
      refine ⟨hem, hinc, hoth ▸ hu, ?_, ?_⟩
      · rw [hoth, hdw, hdne u (Ne.symm hwu), hc]
      · rw [hoth, hcw, hcne u (Ne.symm hwu), hcc]
    · rw [getD_set_ne _ _ _ _ _ (Ne.symm hvw)] at hv'
      obtain ⟨t1, t2, t3, t4, t5⟩ := h.tree v e' hv'
      refine ⟨t1, t2, t3, ?_, ?_⟩
      · rw [hdne v hvw, hdD _ t3]; exact t4
      · rw [hcne v hvw]
        have := hcD _ t3
        omega
  · intro d hd x hx
    show dOf (st.lab.set w (some c)) d ≤ dOf (st.lab.set w (some c)) x
    rw [hdD d hd]
    by_cases hxw : x = w
    · subst hxw
      rw [hdw]
      have := hmax d hd
      omega
    · rw [hdne x hxw]
      rcases (hq2 x).1 hx with hx | ⟨hx, _⟩
      · exact h.mono d hd x hx
      · exact absurd hx hxw
  · intro a e' w' hR
    show a ∈ D ∧ Disc s (st.pred.set w (some e)) w' ∧
      dOf (st.lab.set w (some c)) w' ≤ fadd (dOf (st.lab.set w (some c)) a) (g.weight e')
    rcases hR with hR | ⟨rfl, rfl, rfl⟩
    · obtain ⟨e1, e2, e3⟩ := h.edge a e' w' hR
      refine ⟨e1, (hdisc w').2 (Or.inl e2), ?_⟩
      rw [hdD a e1]
      rcases hdec w' with h1 | h1
      · omega
      · exact absurd e2 h1
    · refine ⟨hu, (hdisc w').2 (Or.inr rfl), ?_⟩
      rw [hdw, hdne a (Ne.symm hwu), hc]
  · intro v
    show 0 ≤ dOf (st.lab.set w (some c)) v
    by_cases hvw : v = w
    · subst hvw
      rw [hdw]
      have := h.nonneg u
      omega
    · rw [hdne v hvw]; exact h.nonneg v
  · intro v
    show rnd (dOf (st.lab.set w (some c)) v) = dOf (st.lab.set w (some c)) v
    by_cases hvw : v = w
    · subst hvw
      rw [hdw, hc]
      exact rnd_idem _
    · rw [hdne v hvw]; exact h.rounded v

/-! ### one relaxation -/

/-- the body of the `for` loop of `flexRelax` -/
def frelaxStep (g : Graph) (s u : Nat) (du : LexLabel) (ew : Nat × Nat) (st : LexState) : LexState :=
  if ew.2 = u then st
  else if ew.2 = s then st
  else
    match st.pred.getD ew.2 none with
    | none =>
      { lab := st.lab.set ew.2 (some (flexCombine g du ew.1)), pred := st.pred.set ew.2 (some ew.1),
        queue := st.queue ++ [ew.2] }
    | some _ =>
      match st.lab.getD ew.2 none with
      | some lw =>
        if lexLess (flexCombine g du ew.1) lw then
          { lab := st.lab.set ew.2 (some (flexCombine g du ew.1)), pred := st.pred.set ew.2 (some ew.1),
            queue := st.queue }
        else st
      | none => st

theorem flexRelax_cons (g : Graph) (s u : Nat) (du : LexLabel) (ew : Nat × Nat) (r : List (Nat × Nat))
    (st : LexState) :
    flexRelax g s u du (ew :: r) st = flexRelax g s u du r (frelaxStep g s u du ew st) := by
  obtain ⟨e, w⟩ := ew
  unfold frelaxStep
  rw [flexRelax]
  dsimp only
  by_cases h1 : w = u
  · rw [if_pos h1, if_pos h1]
  rw [if_neg h1, if_neg h1]
  by_cases h2 : w = s
  · rw [if_pos h2, if_pos h2]
  rw [if_neg h2, if_neg h2]
  cases hp : st.pred.getD w none with
  | none => rfl
  | some e0 =>
    dsimp only
    cases hl : st.lab.getD w none with
    | none => rfl
    | some lw =>
      dsimp only
      by_cases h3 : lexLess (flexCombine g du e) lw = true
      · rw [if_pos h3, if_pos h3]
      · rw [if_neg h3, if_neg h3]

theorem FInv.step {g : Graph} {s : Nat} {st : LexState} {D : List Nat} {R : Nat → Nat → Nat → Prop}
    (hs : g.simpleB = true) (hp : g.positiveB = true) (h : FInv g s st D R)
    (u e w : Nat) (du : LexLabel)
    (hu : u ∈ D) (hmax : ∀ d ∈ D, dOf st.lab d ≤ dOf st.lab u)
    (hdu : st.lab.getD u none = some du) (hadj : (e, w) ∈ g.adj u) :
    FInv g s (frelaxStep g s u du (e, w) st) D (fun a e' w' => R a e' w' ∨ (a = u ∧ e' = e ∧ w' = w)) ∧
    (∀ d ∈ D, dOf (frelaxStep g s u du (e, w) st).lab d = dOf st.lab d) ∧
    (frelaxStep g s u du (e, w) st).lab.getD u none = st.lab.getD u none := by
  obtain ⟨hem, hwn, hun, hwu, hinc, hoth⟩ := adj_facts g hs u e w hadj
  have hpos := positiveB_facts g hp e hem
  have hdu' : dOf st.lab u = du.dist := dOf_some _ _ _ hdu
  have hcu' : cOf st.lab u = du.cnt := cOf_some _ _ _ hdu
  have hcd : (flexCombine g du e).dist = fadd (dOf st.lab u) (g.weight e) := by rw [hdu']; rfl
  have hcc : (flexCombine g du e).cnt = cOf st.lab u + 1 := by rw [hcu']; rfl
  have hinf : dOf st.lab u ≤ (flexCombine g du e).dist := by
    rw [hcd]; exact fadd_inflationary _ _ (h.rounded u) (Int.le_of_lt hpos)
  -- the state does not change, the edge is recorded
  have same : Disc s st.pred w → dOf st.lab w ≤ fadd (dOf st.lab u) (g.weight e) →
      FInv g s st D (fun a e' w' => R a e' w' ∨ (a = u ∧ e' = e ∧ w' = w)) := by
    intro h1 h2
    refine h.setR ?_
    rintro a e' w' (hR | ⟨rfl, rfl, rfl⟩)
    · exact h.edge a e' w' hR
    · exact ⟨hu, h1, h2⟩
  unfold frelaxStep
  dsimp only
  rw [if_neg hwu]
  by_cases hws : w = s
  · rw [if_pos hws]
    refine ⟨same (Or.inl hws) ?_, fun _ _ => rfl, rfl⟩
    rw [hws, dOf_some _ _ _ h.lab_s]
    have := h.nonneg u
    show (0 : Int) ≤ _
    rw [← hcd]
    omega
  rw [if_neg hws]
  split
  · -- first time found
    rename_i hpw
    have hnd : ¬ Disc s st.pred w := by
      rintro (h1 | ⟨e1, h1⟩)
      · exact hws h1
      · rw [hpw] at h1; cases h1
    have hnot := fun hh => hnd ((h.disc_iff w).2 hh)
    have hwD : w ∉ D := fun hh => hnot (Or.inl hh)
    have hwq : w ∉ st.queue := fun hh => hnot (Or.inr hh)
    obtain ⟨r1, r2⟩ := h.update hs hp u e w _ (st.queue ++ [w]) hu hmax hadj hws hcd hcc
      (fun hh => absurd hh hnd) (fun hh => absurd hh hwD) (by
        rw [List.nodup_append]
        refine ⟨h.q_nd, List.nodup_cons.2 ⟨List.not_mem_nil, List.nodup_nil⟩, ?_⟩
        intro a ha b hb
        rw [List.mem_singleton] at hb
        subst hb
        exact fun hh => hwq (hh ▸ ha)) (by
        intro x; rw [List.mem_append, List.mem_singleton]
        exact ⟨fun hh => hh.elim Or.inl (fun hh => Or.inr ⟨hh, hwD⟩), fun hh => hh.elim Or.inl (fun hh => Or.inr hh.1)⟩)
    exact ⟨r1, r2, getD_set_ne _ _ _ _ _ hwu⟩
  · rename_i e0 hpw
    have hdw : Disc s st.pred w := Or.inr ⟨e0, hpw⟩
    split
    · rename_i lw hlw
      have hdw' : dOf st.lab w = lw.dist := dOf_some _ _ _ hlw
      have hcw' : cOf st.lab w = lw.cnt := cOf_some _ _ _ hlw
      split
      · rename_i hless
        have hle := lexLess_true_dist _ _ hless
        have hwD : w ∈ D → (flexCombine g du e).dist = dOf st.lab w ∧ (flexCombine g du e).cnt ≤ cOf st.lab w := by
          intro hh
          have h1 := hmax w hh
          have heq : (flexCombine g du e).dist = lw.dist := by omega
          refine ⟨by omega, ?_⟩
          rw [hcw']
          rcases (lexLess_iff _ _).1 hless with h2 | ⟨_, h2 | ⟨h2, _⟩⟩
          · omega
          · omega
          · omega
        obtain ⟨r1, r2⟩ := h.update hs hp u e w _ st.queue hu hmax hadj hws hcd hcc (fun _ => by omega) hwD h.q_nd (by
          intro x
          refine ⟨Or.inl, fun hh => hh.elim id (fun hh => ?_)⟩
          obtain ⟨hx, hnD⟩ := hh
          subst hx
          exact ((h.disc_iff x).1 hdw).elim (fun hh => absurd hh hnD) id)
        exact ⟨r1, r2, getD_set_ne _ _ _ _ _ hwu⟩
      · rename_i hless
        have hle := lexLess_false_dist _ _ (by simpa using hless)
        exact ⟨same hdw (by omega), fun _ _ => rfl, rfl⟩
    · rename_i hlw
      obtain ⟨l, hl⟩ := h.lab_some w hdw
      rw [hlw] at hl; cases hl

/-- the whole loop over (a suffix of) the out-edges of the popped vertex -/
theorem FInv.relax {g : Graph} {s : Nat} {D : List Nat}
    (hs : g.simpleB = true) (hp : g.positiveB = true) (u : Nat) (du : LexLabel) (hu : u ∈ D) :
    ∀ (r : List (Nat × Nat)) (st : LexState) (R : Nat → Nat → Nat → Prop), FInv g s st D R →
    (∀ d ∈ D, dOf st.lab d ≤ dOf st.lab u) → st.lab.getD u none = some du →
    (∀ ew ∈ r, ew ∈ g.adj u) →
    FInv g s (flexRelax g s u du r st) D (fun a e w => R a e w ∨ (a = u ∧ (e, w) ∈ r))
  | [], st, R, h, _, _, _ => by
    rw [flexRelax]
    refine h.setR ?_
    rintro a e w (hR | ⟨_, hR⟩)
    · exact h.edge a e w hR
    · cases hR
  | (e, w) :: r, st, R, h, hmax, hdu, hr => by
    rw [flexRelax_cons]
    obtain ⟨h1, hd, h2⟩ := h.step hs hp u e w du hu hmax hdu (hr _ List.mem_cons_self)
    have := FInv.relax hs hp u du hu r _ _ h1 (by
        intro d hd'; rw [hd d hd', hd u hu]; exact hmax d hd')
      (by rw [h2]; exact hdu) (fun ew hew => hr ew (List.mem_cons_of_mem _ hew))
    refine this.setR ?_
    rintro a e' w' (hR | ⟨rfl, hR⟩)
    · exact this.edge a e' w' (Or.inl (Or.inl hR))
    · rcases List.mem_cons.1 hR with hR | hR
      · cases hR
        exact this.edge a e w (Or.inl (Or.inr ⟨rfl, rfl, rfl⟩))
      · exact this.edge a e' w' (Or.inr ⟨rfl, hR⟩)

/-! ### popping the minimum -/

theorem FInv.pop {g : Graph} {s : Nat} {st : LexState} {D : List Nat} (hsn : s < g.n)
    (h : FInv g s st D (Full g D)) (u : Nat) (hu : u ∈ st.queue)
    (hmin : ∀ x ∈ st.queue, dOf st.lab u ≤ dOf st.lab x) :
    FInv g s { st with queue := st.queue.erase u } (u :: D) (Full g D) ∧
    (∀ d ∈ u :: D, dOf st.lab d ≤ dOf st.lab u) := by
  have huD : u ∉ D := h.q_D u hu
  have hdu : Disc s st.pred u := (h.disc_iff u).2 (Or.inr hu)
  have hmax : ∀ d ∈ u :: D, dOf st.lab d ≤ dOf st.lab u := by
    intro d hd
    rcases List.mem_cons.1 hd with hd | hd
    · subst hd; exact Int.le_refl _
    · exact h.mono d hd u hu
  refine ⟨⟨h.len_lab, h.len_pred, h.pred_s, h.lab_s, h.q_nd.erase u, ?_, ?_, ?_, ?_, h.lab_some, ?_, ?_, ?_,
    h.nonneg, h.rounded⟩, hmax⟩
  · intro v hv
    have hv' : v ∈ st.queue.erase u := hv
    rw [h.q_nd.mem_erase_iff] at hv'
    intro hh
    rcases List.mem_cons.1 hh with hh | hh
    · exact hv'.1 hh
    · exact h.q_D v hv'.2 hh
  · intro v hv
    rcases List.mem_cons.1 hv with hv | hv
    · subst hv; exact FDisc_lt h hsn v hdu
    · exact h.D_lt v hv
  · exact List.nodup_cons.2 ⟨huD, h.D_nd⟩
  · intro v
    show Disc s st.pred v ↔ v ∈ u :: D ∨ v ∈ st.queue.erase u
    rw [h.disc_iff, h.q_nd.mem_erase_iff, List.mem_cons]
    by_cases hvu : v = u
    · subst hvu; simp [hu]
    · simp [hvu]
  · intro v e hv
    obtain ⟨t1, t2, t3, t4, t5⟩ := h.tree v e hv
    exact ⟨t1, t2, List.mem_cons_of_mem _ t3, t4, t5⟩
  · intro d hd x hx
    have hx' : x ∈ st.queue.erase u := hx
    rw [h.q_nd.mem_erase_iff] at hx'
    rcases List.mem_cons.1 hd with hd | hd
    · subst hd; exact hmin x hx'.2
    · exact h.mono d hd x hx'.2
  · intro a e w hR
    obtain ⟨e1, e2, e3⟩ := h.edge a e w hR
    exact ⟨List.mem_cons_of_mem _ e1, e2, e3⟩

theorem FInv.loop {g : Graph} {s : Nat} (hs : g.simpleB = true) (hp : g.positiveB = true) (hsn : s < g.n) :
    ∀ (fuel : Nat) (st : LexState) (D : List Nat), FInv g s st D (Full g D) → g.n + 1 ≤ fuel + D.length →
    ∃ D', FInv g s (flexLoop g s fuel st) D' (Full g D') ∧ (flexLoop g s fuel st).queue = []
  | 0, st, D, h, hf => by
    have := DijL.nodup_length_le g.n D h.D_nd h.D_lt
    omega
  | fuel + 1, st, D, h, hf => by
    rw [flexLoop]
    have hspec := lexArgmin_spec st.lab st.queue
      (fun x hx => h.lab_some x ((h.disc_iff x).2 (Or.inr hx)))
    cases ha : lexArgmin st.lab st.queue with
    | none =>
      rw [ha] at hspec
      exact ⟨D, h, hspec⟩
    | some u =>
      rw [ha] at hspec
      dsimp only at hspec ⊢
      obtain ⟨hu, hmin⟩ := hspec
      obtain ⟨h1, hmax⟩ := h.pop hsn u hu hmin
      obtain ⟨du, hdu⟩ := h.lab_some u ((h.disc_iff u).2 (Or.inr hu))
      rw [hdu]
      dsimp only
      have h2 := FInv.relax hs hp u du List.mem_cons_self (g.adj u) _ _ h1 hmax hdu (fun _ hh => hh)
      have h3 : FInv g s (flexRelax g s u du (g.adj u) { st with queue := st.queue.erase u }) (u :: D)
          (Full g (u :: D)) := by
        refine h2.setR ?_
        rintro a e w ⟨ha, hew⟩
        rcases List.mem_cons.1 ha with ha | ha
        · subst ha; exact h2.edge a e w (Or.inr ⟨rfl, hew⟩)
        · exact h2.edge a e w (Or.inl ⟨ha, hew⟩)
      exact FInv.loop hs hp hsn fuel _ (u :: D) h3 (by rw [List.length_cons]; omega)

theorem FInv.init (g : Graph) (s : Nat) (hsn : s < g.n) :
    FInv g s { lab := (List.replicate g.n none).set s (some { dist := 0, cnt := 0, verts := [s] }),
               pred := List.replicate g.n none, queue := [s] } [] (Full g []) := by
  have hp : ∀ v, (List.replicate g.n (none : Option Nat)).getD v none = none := fun v => getD_replicate _ _ _
  have hd : ∀ v, Disc s (List.replicate g.n (none : Option Nat)) v ↔ v = s := by
    intro v
    unfold Disc
    rw [hp v]
    exact ⟨fun h => h.elim id (fun ⟨_, h⟩ => by cases h), Or.inl⟩
  have hl : ((List.replicate g.n (none : Option LexLabel)).set s (some { dist := 0, cnt := 0, verts := [s] })).getD
      s none = some ⟨0, 0, [s]⟩ := getD_set_self _ _ _ _ (by simp [hsn])
  have hz : ∀ v, dOf ((List.replicate g.n none).set s (some { dist := 0, cnt := 0, verts := [s] })) v = 0 := by
    intro v
    by_cases hv : v = s
    · subst hv; rw [dOf_some _ _ _ hl]
    · rw [dOf_set_ne _ _ _ _ (Ne.symm hv), dOf_none _ _ (getD_replicate _ _ _)]
  refine ⟨by simp, by simp, hp s, hl, List.nodup_cons.2 ⟨List.not_mem_nil, List.nodup_nil⟩, ?_, ?_, List.nodup_nil,
    ?_, ?_, ?_, ?_, ?_, ?_, ?_⟩
  · intro v _ hh; cases hh
  · intro v hh; cases hh
  · intro v
    show Disc s (List.replicate g.n none) v ↔ v ∈ [] ∨ v ∈ [s]
    rw [hd]; simp
  · intro v hv
    have := (hd v).1 hv
    subst this
    exact ⟨_, hl⟩
  · intro v e hv
    have hv' : (List.replicate g.n (none : Option Nat)).getD v none = some e := hv
    rw [hp] at hv'; cases hv'
  · intro d hh; cases hh
  · intro a e w hh; cases hh.1
  · intro v
    show 0 ≤ dOf ((List.replicate g.n none).set s (some { dist := 0, cnt := 0, verts := [s] })) v
    rw [hz]
  · intro v
    show rnd (dOf ((List.replicate g.n none).set s (some { dist := 0, cnt := 0, verts := [s] })) v) = _
    rw [hz]; exact FloatDijkL.rnd_zero

/-- the final state of the search -/
theorem final_inv (g : Graph) (hs : g.simpleB = true) (hp : g.positiveB = true) (s : Nat) (hsn : s < g.n) :
    ∃ D, FInv g s (flexDijkstra g s) D (Full g D) ∧ (flexDijkstra g s).queue = [] :=
  FInv.loop hs hp hsn (g.n + 1) _ [] (FInv.init g s hsn) (by simp)

/-! ### reading off the certificate -/

theorem dget_flexDist (g : Graph) (s : Nat) (st : LexState) (v : Nat) :
    dget (flexDist g s st) v =
      if v < g.n then
        (if v = s then some 0
         else match st.pred.getD v none with
          | none => none
          | some _ => (st.lab.getD v none).map (·.dist))
      else none := by
  unfold dget flexDist
  by_cases hv : v < g.n
  · rw [if_pos hv, List.getElem?_map, List.getElem?_range hv]
    rfl
  · rw [if_neg hv, List.getElem?_eq_none (by simp; omega)]
    rfl

theorem dget_disc {g : Graph} {s : Nat} {st : LexState} {D : List Nat} {R : Nat → Nat → Nat → Prop}
    (h : FInv g s st D R) (hsn : s < g.n) (v : Nat) (hv : Disc s st.pred v) :
    dget (flexDist g s st) v = some (dOf st.lab v) := by
  rw [dget_flexDist, if_pos (FDisc_lt h hsn v hv)]
  by_cases hvs : v = s
  · rw [if_pos hvs, hvs, dOf_some _ _ _ h.lab_s]
  · rw [if_neg hvs]
    obtain ⟨l, hl⟩ := h.lab_some v hv
    rcases hv with hv | ⟨e, he⟩
    · exact absurd hv hvs
    · rw [he, hl, dOf_some _ _ _ hl]
      rfl

theorem dget_ndisc (g : Graph) (s : Nat) (st : LexState) (v : Nat) (hv : ¬ Disc s st.pred v) :
    dget (flexDist g s st) v = none := by
  rw [dget_flexDist]
  by_cases hvn : v < g.n
  · rw [if_pos hvn]
    have hvs : v ≠ s := fun hh => hv (Or.inl hh)
    rw [if_neg hvs]
    cases hpv : st.pred.getD v none with
    | none => rfl
    | some e => exact absurd (Or.inr ⟨e, hpv⟩) hv
  · rw [if_neg hvn]

/-- the predecessor records, followed back from a discovered vertex, give a walk from the source whose double sum is
the label: the edge counts strictly decrease along the records, so the vertices met are distinct -/
theorem walk_of {g : Graph} {s : Nat} {st : LexState} {D : List Nat} {R : Nat → Nat → Nat → Prop}
    (h : FInv g s st D R) (hsn : s < g.n) :
    ∀ (fuel v : Nat) (vis : List Nat) (acc : List FEdge), Disc s st.pred v → vis.Nodup →
    (∀ u ∈ vis, u < g.n ∧ cOf st.lab v < cOf st.lab u) → g.n ≤ vis.length + fuel →
    ∃ p : List FEdge, flexWalkBack g s st fuel v acc = some (p ++ acc) ∧ walkOk g.edges s p v = true ∧
      fsum (walkW p) = dOf st.lab v
  | 0, v, vis, acc, hv, hnd, hvis, hf => by
    have hnd' : (v :: vis).Nodup := by
      refine List.nodup_cons.2 ⟨fun hh => ?_, hnd⟩
      have := (hvis v hh).2
      omega
    have := DijL.nodup_length_le g.n (v :: vis) hnd' (by
      intro x hx
      rcases List.mem_cons.1 hx with hx | hx
      · subst hx; exact FDisc_lt h hsn x hv
      · exact (hvis x hx).1)
    rw [List.length_cons] at this
    omega
  | fuel + 1, v, vis, acc, hv, hnd, hvis, hf => by
    rw [flexWalkBack]
    by_cases hvs : v = s
    · rw [if_pos hvs]
      refine ⟨[], rfl, ?_, ?_⟩
      · simp [walkOk, hvs]
      · rw [hvs, dOf_some _ _ _ h.lab_s]; rfl
    · rw [if_neg hvs]
      rcases hv with hv | ⟨e, he⟩
      · exact absurd hv hvs
      · rw [he]
        dsimp only
        obtain ⟨t1, t2, t3, t4, t5⟩ := h.tree v e he
        have hnd' : (v :: vis).Nodup := by
          refine List.nodup_cons.2 ⟨fun hh => ?_, hnd⟩
          have := (hvis v hh).2
          omega
        have hvn : v < g.n := FDisc_lt h hsn v (Or.inr ⟨e, he⟩)
        obtain ⟨pu, g1, g2, g3⟩ := walk_of h hsn fuel (g.other e v) (v :: vis) ((g.other e v, v, g.weight e) :: acc)
          ((h.disc_iff _).2 (Or.inl t3)) hnd' (by
            intro u hu
            rcases List.mem_cons.1 hu with hu | hu
            · subst hu; exact ⟨hvn, by omega⟩
            · have := hvis u hu
              exact ⟨this.1, by omega⟩) (by rw [List.length_cons]; omega)
        have hj : Jn g e (g.other e v) v := by
          unfold Graph.other
          by_cases hsv : g.src e = v
          · rw [if_pos hsv]; exact Or.inr ⟨rfl, hsv⟩
          · rw [if_neg hsv]
            rcases t2 with t2 | t2
            · exact absurd t2 hsv
            · exact Or.inl ⟨rfl, t2⟩
        refine ⟨pu ++ [(g.other e v, v, g.weight e)], ?_, ?_, ?_⟩
        · rw [g1, List.append_assoc]; rfl
        · exact FloatDijkL.walkOk_snoc _ _ _ _ _ _ g2 (FloatDijkL.stepOk_of_jn g e _ v t1 hj)
        · rw [FloatDijkL.fsum_snoc, g3, t4]

theorem flexPaths_get (g : Graph) (s : Nat) (st : LexState) (v : Nat) (hv : v < g.n) :
    ((flexPaths g s st)[v]?).getD none =
      if (dget (flexDist g s st) v).isSome then flexWalkBack g s st (g.n + 1) v [] else none := by
  unfold flexPaths dget
  rw [List.getElem?_map, List.getElem?_range hv, ← List.getD_eq_getElem?_getD]
  rfl

/-- at termination no edge can be relaxed -/
theorem relaxed_of {g : Graph} {s : Nat} {st : LexState} {D : List Nat} (h : FInv g s st D (Full g D))
    (hsn : s < g.n) (hq : st.queue = []) (e a b : Nat) (hadj : (e, b) ∈ g.adj a) :
    relaxedB (flexDist g s st) a b (g.weight e) = true := by
  unfold relaxedB
  by_cases ha : Disc s st.pred a
  · have haD : a ∈ D := by
      rcases (h.disc_iff a).1 ha with hh | hh
      · exact hh
      · rw [hq] at hh; cases hh
    obtain ⟨_, e2, e3⟩ := h.edge a e b ⟨haD, hadj⟩
    rw [dget_disc h hsn a ha, dget_disc h hsn b e2]
    exact decide_eq_true e3
  · rw [dget_ndisc g s st a ha]

end FloatLexL

/-- for every simple graph with positive (scaled double) weights and every source: the distance labels and predecessor
walks of the lexicographic Dijkstra computed in double arithmetic pass the verified certificate -/
theorem flexDijkstra_cert (g : Graph) (hs : g.simpleB = true) (hp : g.positiveB = true) (s : Nat) (hsn : s < g.n) :
    checkFloatSPT g.edges s (flexDist g s (flexDijkstra g s)) (flexPaths g s (flexDijkstra g s)) = true := by
  obtain ⟨D, h, hq⟩ := FloatLexL.final_inv g hs hp s hsn
  generalize flexDijkstra g s = st at h hq ⊢
  unfold checkFloatSPT
  rw [Bool.and_eq_true, Bool.and_eq_true]
  refine ⟨⟨?_, ?_⟩, ?_⟩
  · rw [FloatLexL.dget_disc h hsn s (Or.inl rfl), DijL.dOf_some _ _ _ h.lab_s]
    exact beq_self_eq_true _
  · rw [List.all_eq_true]
    intro ed hed
    obtain ⟨i, hi, rfl⟩ := List.getElem_of_mem hed
    have hget : g.edges.getD i (0, 0, 0) = g.edges[i] := by
      rw [List.getD_eq_getElem?_getD, List.getElem?_eq_getElem hi]; rfl
    have e1 : (g.edges[i]).1 = g.src i := by unfold Graph.src; rw [hget]
    have e2 : (g.edges[i]).2.1 = g.tgt i := by unfold Graph.tgt; rw [hget]
    have e3 : (g.edges[i]).2.2 = g.weight i := by unfold Graph.weight; rw [hget]
    have him : i < g.m := hi
    rw [e1, e2, e3, Bool.and_eq_true, Bool.and_eq_true]
    refine ⟨⟨decide_eq_true (Int.le_of_lt (positiveB_facts g hp i him)), ?_⟩, ?_⟩
    · exact FloatLexL.relaxed_of h hsn hq i _ _ ((mem_adj g _ i _).2 ⟨him, Or.inl ⟨rfl, rfl⟩⟩)
    · exact FloatLexL.relaxed_of h hsn hq i _ _ ((mem_adj g _ i _).2 ⟨him, Or.inr ⟨rfl, rfl⟩⟩)
  · rw [List.all_eq_true]
    intro v hv
    have hlen : (flexDist g s st).length = g.n := by unfold flexDist; simp
    rw [List.mem_range, hlen] at hv
    by_cases hd : DijL.Disc s st.pred v
    · rw [FloatLexL.dget_disc h hsn v hd]
      dsimp only
      obtain ⟨p, h1, h2, h3⟩ := FloatLexL.walk_of h hsn (g.n + 1) v [] [] hd List.nodup_nil
        (fun u hu => by cases hu) (by simp)
      rw [FloatLexL.flexPaths_get g s st v hv, FloatLexL.dget_disc h hsn v hd]
      rw [List.append_nil] at h1
      simp only [Option.isSome_some, if_true]
      rw [h1]
      dsimp only
      rw [h2, h3]
      simp
    · rw [FloatLexL.dget_ndisc g s st v hd]

end Parmcb
