import Parmcb.Model.TreeCheck
import Parmcb.Lemmas.Trees
/-!
Correctness of the literal lexicographic Dijkstra model (Model/Lex.lean): the tree it builds passes the
shortest-path certificate of Model/TreeCheck.lean, for every simple graph with positive weights and every
source.  Together with `C12.c12_dist_lower/attained/first` this makes exactness of the MODEL's trees a
theorem (the C++ trees are compared with them field by field).  Core Lean only.
-/
namespace Parmcb

namespace DijL
open TreesL

/-! ### lists -/

theorem getD_set_self {α : Type} (l : List α) (i : Nat) (x d : α) (h : i < l.length) :
    (l.set i x).getD i d = x := by
  simp [List.getD_eq_getElem?_getD, h]

theorem getD_set_ne {α : Type} (l : List α) (i j : Nat) (x d : α) (h : i ≠ j) :
    (l.set i x).getD j d = l.getD j d := by
  simp [List.getD_eq_getElem?_getD, h]

theorem getD_ge {α : Type} (l : List α) (i : Nat) (d : α) (h : l.length ≤ i) : l.getD i d = d := by
  simp [List.getD_eq_getElem?_getD, List.getElem?_eq_none h]

theorem getD_replicate {α : Type} (n i : Nat) (d : α) : (List.replicate n d).getD i d = d := by
  by_cases h : i < n
  · simp [List.getD_eq_getElem?_getD, h]
  · exact getD_ge _ _ _ (by simp; omega)

theorem getD_map_range {α : Type} (f : Nat → α) (n v : Nat) (d : α) :
    ((List.range n).map f).getD v d = if v < n then f v else d := by
  by_cases h : v < n
  · simp [List.getD_eq_getElem?_getD, h]
  · rw [if_neg h]; exact getD_ge _ _ _ (by simp; omega)

/-- pigeonhole -/
theorem nodup_length_le : ∀ (n : Nat) (l : List Nat), l.Nodup → (∀ x ∈ l, x < n) → l.length ≤ n
  | 0, l, _, h => by
    cases l with
    | nil => exact Nat.le_refl _
    | cons a r => exact absurd (h a List.mem_cons_self) (Nat.not_lt_zero _)
  | n + 1, l, hnd, h => by
    by_cases hn : n ∈ l
    · have := nodup_length_le n (l.erase n) (hnd.erase n) (by
        intro x hx
        have hx' := (hnd.mem_erase_iff).1 hx
        have := h x hx'.2
        omega)
      rw [List.length_erase_of_mem hn] at this
      omega
    · have := nodup_length_le n l hnd (by
        intro x hx
        have := h x hx
        have : x ≠ n := fun hh => hn (hh ▸ hx)
        omega)
      omega

/-! ### labels -/

theorem lexLess_true_dist (a b : LexLabel) (h : lexLess a b = true) : a.dist ≤ b.dist := by
  rw [lexLess_iff] at h
  rcases h with h | ⟨h, _⟩ <;> omega

theorem lexLess_false_dist (a b : LexLabel) (h : lexLess a b = false) : b.dist ≤ a.dist := by
  by_cases hlt : a.dist < b.dist
  · have := (lexLess_iff a b).2 (Or.inl hlt)
    rw [h] at this; cases this
  · omega

/-- the distance component of the label of `v` (0 when there is no label) -/
def dOf (lab : List (Option LexLabel)) (v : Nat) : Int :=
  match lab.getD v none with
  | some l => l.dist
  | none => 0

theorem dOf_some (lab : List (Option LexLabel)) (v : Nat) (l : LexLabel) (h : lab.getD v none = some l) :
    dOf lab v = l.dist := by
  unfold dOf; rw [h]

theorem dOf_none (lab : List (Option LexLabel)) (v : Nat) (h : lab.getD v none = none) :
    dOf lab v = 0 := by
  unfold dOf; rw [h]

theorem dOf_set_ne (lab : List (Option LexLabel)) (w v : Nat) (x : Option LexLabel) (h : w ≠ v) :
    dOf (lab.set w x) v = dOf lab v := by
  unfold dOf; rw [getD_set_ne _ _ _ _ _ h]

theorem dOf_set_self (lab : List (Option LexLabel)) (w : Nat) (c : LexLabel) (h : w < lab.length) :
    dOf (lab.set w (some c)) w = c.dist := by
  unfold dOf; rw [getD_set_self _ _ _ _ h]

/-- discovered: the source, or a vertex with a predecessor edge -/
def Disc (s : Nat) (pred : List (Option Nat)) (v : Nat) : Prop := v = s ∨ ∃ e, pred.getD v none = some e

/-! ### adjacency in a simple graph -/

theorem adj_facts (g : Graph) (hs : g.simpleB = true) (u e w : Nat) (h : (e, w) ∈ g.adj u) :
    e < g.m ∧ w < g.n ∧ u < g.n ∧ w ≠ u ∧ (g.src e = w ∨ g.tgt e = w) ∧ g.other e w = u := by
  obtain ⟨he, h⟩ := (mem_adj g u e w).1 h
  obtain ⟨f1, f2, f3⟩ := simpleB_facts g hs e he
  unfold Graph.other
  rcases h with ⟨h1, h2⟩ | ⟨h1, h2⟩
  · subst h2
    refine ⟨he, f2, h1 ▸ f1, fun hh => f3 (h1.trans hh.symm), Or.inr rfl, ?_⟩
    rw [if_neg f3]; exact h1
  · subst h2
    refine ⟨he, f1, h1 ▸ f2, fun hh => f3 (hh.trans h1.symm), Or.inl rfl, ?_⟩
    rw [if_pos rfl]; exact h1

/-! ### the invariant -/

/-- state invariant after the vertices of `D` have been popped; `R a e w` = the out-edge `(e, w)` of the
popped vertex `a` has been relaxed -/
structure Inv (g : Graph) (s : Nat) (st : LexState) (D : List Nat) (R : Nat → Nat → Nat → Prop) : Prop where
  len_lab : st.lab.length = g.n
  len_pred : st.pred.length = g.n
  pred_s : st.pred.getD s none = none
  lab_s : st.lab.getD s none = some ⟨0, 0, [s]⟩
  q_nd : st.queue.Nodup
  q_D : ∀ v ∈ st.queue, v ∉ D
  D_lt : ∀ v ∈ D, v < g.n
  D_nd : D.Nodup
  disc_iff : ∀ v, Disc s st.pred v ↔ v ∈ D ∨ v ∈ st.queue
  lab_some : ∀ v, Disc s st.pred v → ∃ l, st.lab.getD v none = some l
  tree : ∀ v e, st.pred.getD v none = some e → e < g.m ∧ (g.src e = v ∨ g.tgt e = v) ∧ g.other e v ∈ D ∧
    dOf st.lab v = dOf st.lab (g.other e v) + g.weight e
  mono : ∀ d ∈ D, ∀ x ∈ st.queue, dOf st.lab d ≤ dOf st.lab x
  edge : ∀ a e w, R a e w → a ∈ D ∧ Disc s st.pred w ∧ dOf st.lab w ≤ dOf st.lab a + g.weight e
  nonneg : ∀ v, 0 ≤ dOf st.lab v

theorem Inv.setR {g : Graph} {s : Nat} {st : LexState} {D : List Nat} {R R' : Nat → Nat → Nat → Prop}
    (h : Inv g s st D R)
    (hR : ∀ a e w, R' a e w → a ∈ D ∧ Disc s st.pred w ∧ dOf st.lab w ≤ dOf st.lab a + g.weight e) :
    Inv g s st D R' :=
  ⟨h.len_lab, h.len_pred, h.pred_s, h.lab_s, h.q_nd, h.q_D, h.D_lt, h.D_nd, h.disc_iff, h.lab_some, h.tree,
    h.mono, hR, h.nonneg⟩

theorem Disc_lt {g : Graph} {s : Nat} {st : LexState} {D : List Nat} {R : Nat → Nat → Nat → Prop}
    (h : Inv g s st D R) (hsn : s < g.n) (v : Nat) (hv : Disc s st.pred v) : v < g.n := by
  rcases hv with hv | ⟨e, he⟩
  · omega
  · by_cases hlt : v < g.n
    · exact hlt
    · rw [getD_ge _ _ _ (by rw [h.len_pred]; omega)] at he; cases he

/-- the common part of "first time found" and "label improved": `lab[w] := c`, `pred[w] := e` -/
theorem Inv.update {g : Graph} {s : Nat} {st : LexState} {D : List Nat} {R : Nat → Nat → Nat → Prop}
    (hs : g.simpleB = true) (hp : g.positiveB = true) (h : Inv g s st D R)
    (u e w : Nat) (c : LexLabel) (q' : List Nat)
    (hu : u ∈ D) (hmax : ∀ d ∈ D, dOf st.lab d ≤ dOf st.lab u)
    (hadj : (e, w) ∈ g.adj u) (hws : w ≠ s) (hwD : w ∉ D)
    (hc : c.dist = dOf st.lab u + g.weight e)
    (hle : Disc s st.pred w → c.dist ≤ dOf st.lab w)
    (hq1 : q'.Nodup) (hq2 : ∀ x, x ∈ q' ↔ x ∈ st.queue ∨ x = w) :
    Inv g s ⟨st.lab.set w (some c), st.pred.set w (some e), q'⟩ D
      (fun a e' w' => R a e' w' ∨ (a = u ∧ e' = e ∧ w' = w)) := by
  obtain ⟨hem, hwn, hun, hwu, hinc, hoth⟩ := adj_facts g hs u e w hadj
  have hpos := positiveB_facts g hp e hem
  have hwl : w < st.lab.length := by rw [h.len_lab]; exact hwn
  have hwp : w < st.pred.length := by rw [h.len_pred]; exact hwn
  have hdw : dOf (st.lab.set w (some c)) w = c.dist := dOf_set_self _ _ _ hwl
  have hdne : ∀ v, v ≠ w → dOf (st.lab.set w (some c)) v = dOf st.lab v :=
    fun v hv => dOf_set_ne _ _ _ _ (Ne.symm hv)
  have hDne : ∀ d ∈ D, d ≠ w := fun d hd hh => hwD (hh ▸ hd)
  have hdisc : ∀ v, Disc s (st.pred.set w (some e)) v ↔ (Disc s st.pred v ∨ v = w) := by
    intro v
    unfold Disc
    by_cases hv : v = w
    · subst hv
      rw [getD_set_self _ _ _ _ hwp]
      exact ⟨fun _ => Or.inr rfl, fun _ => Or.inr ⟨e, rfl⟩⟩
    · rw [getD_set_ne _ _ _ _ _ (Ne.symm hv)]
      exact ⟨Or.inl, fun hh => hh.elim id (fun hh => absurd hh hv)⟩
  have hdec : ∀ v, dOf (st.lab.set w (some c)) v ≤ dOf st.lab v ∨ ¬ Disc s st.pred v := by
    intro v
    by_cases hv : v = w
    · subst hv
      by_cases hd : Disc s st.pred v
      · left; rw [hdw]; exact hle hd
      · right; exact hd
    · left; rw [hdne v hv]; exact Int.le_refl _
  refine ⟨?_, ?_, ?_, ?_, hq1, ?_, h.D_lt, h.D_nd, ?_, ?_, ?_, ?_, ?_, ?_⟩
  · show (st.lab.set w (some c)).length = g.n
    rw [List.length_set]; exact h.len_lab
  · show (st.pred.set w (some e)).length = g.n
    rw [List.length_set]; exact h.len_pred
  · show (st.pred.set w (some e)).getD s none = none
    rw [getD_set_ne _ _ _ _ _ hws]; exact h.pred_s
  · show (st.lab.set w (some c)).getD s none = _
    rw [getD_set_ne _ _ _ _ _ hws]; exact h.lab_s
  · intro v hv
    rcases (hq2 v).1 hv with hv | hv
    · exact h.q_D v hv
    · subst hv; exact hwD
  · intro v
    show Disc s (st.pred.set w (some e)) v ↔ v ∈ D ∨ v ∈ q'
    rw [hdisc, hq2, h.disc_iff]
    constructor
    · rintro ((h1 | h1) | h1)
      · exact Or.inl h1
      · exact Or.inr (Or.inl h1)
      · exact Or.inr (Or.inr h1)
    · rintro (h1 | h1 | h1)
      · exact Or.inl (Or.inl h1)
      · exact Or.inl (Or.inr h1)
      · exact Or.inr h1
  · intro v hv
    show ∃ l, (st.lab.set w (some c)).getD v none = some l
    by_cases hvw : v = w
    · subst hvw; exact ⟨c, getD_set_self _ _ _ _ hwl⟩
    · rw [getD_set_ne _ _ _ _ _ (Ne.symm hvw)]
      rcases (hdisc v).1 hv with hv | hv
      · exact h.lab_some v hv
      · exact absurd hv hvw
  · intro v e' hv
    show e' < g.m ∧ (g.src e' = v ∨ g.tgt e' = v) ∧ g.other e' v ∈ D ∧
      dOf (st.lab.set w (some c)) v = dOf (st.lab.set w (some c)) (g.other e' v) + g.weight e'
    have hv' : (st.pred.set w (some e)).getD v none = some e' := hv
    by_cases hvw : v = w
    · subst hvw
      rw [getD_set_self _ _ _ _ hwp] at hv'
      cases hv'
      refine ⟨hem, hinc, hoth ▸ hu, ?_⟩
      rw [hoth, hdw, hdne u (Ne.symm hwu), hc]
    · rw [getD_set_ne _ _ _ _ _ (Ne.symm hvw)] at hv'
      obtain ⟨t1, t2, t3, t4⟩ := h.tree v e' hv'
      refine ⟨t1, t2, t3, ?_⟩
      rw [hdne v hvw, hdne _ (hDne _ t3)]; exact t4
  · intro d hd x hx
    show dOf (st.lab.set w (some c)) d ≤ dOf (st.lab.set w (some c)) x
    rw [hdne d (hDne d hd)]
    by_cases hxw : x = w
    · subst hxw
      rw [hdw, hc]
      have := hmax d hd
      omega
    · rw [hdne x hxw]
      rcases (hq2 x).1 hx with hx | hx
      · exact h.mono d hd x hx
      · exact absurd hx hxw
  · intro a e' w' hR
    show a ∈ D ∧ Disc s (st.pred.set w (some e)) w' ∧
      dOf (st.lab.set w (some c)) w' ≤ dOf (st.lab.set w (some c)) a + g.weight e'
    rcases hR with hR | ⟨rfl, rfl, rfl⟩
    · obtain ⟨e1, e2, e3⟩ := h.edge a e' w' hR
      refine ⟨e1, (hdisc w').2 (Or.inl e2), ?_⟩
      rw [hdne a (hDne a e1)]
      rcases hdec w' with h1 | h1
      · omega
      · exact absurd e2 h1
    · refine ⟨hu, (hdisc w').2 (Or.inr rfl), ?_⟩
      rw [hdw, hdne a (Ne.symm hwu), hc]
      exact Int.le_refl _
  · intro v
    show 0 ≤ dOf (st.lab.set w (some c)) v
    by_cases hvw : v = w
    · subst hvw
      rw [hdw, hc]
      have := h.nonneg u
      omega
    · rw [hdne v hvw]; exact h.nonneg v

/-! ### one relaxation -/

/-- the body of the `for` loop of `lexRelax` -/
def relaxStep (g : Graph) (s u : Nat) (du : LexLabel) (ew : Nat × Nat) (st : LexState) : LexState :=
  if ew.2 = u then st
  else if ew.2 = s then st
  else
    match st.pred.getD ew.2 none with
    | none =>
      { lab := st.lab.set ew.2 (some (lexCombine g du ew.1)), pred := st.pred.set ew.2 (some ew.1),
        queue := st.queue ++ [ew.2] }
    | some _ =>
      match st.lab.getD ew.2 none with
      | some lw =>
        if lexLess (lexCombine g du ew.1) lw then
          { lab := st.lab.set ew.2 (some (lexCombine g du ew.1)), pred := st.pred.set ew.2 (some ew.1),
            queue := st.queue }
        else st
      | none => st

theorem lexRelax_cons (g : Graph) (s u : Nat) (du : LexLabel) (ew : Nat × Nat) (r : List (Nat × Nat))
    (st : LexState) :
    lexRelax g s u du (ew :: r) st = lexRelax g s u du r (relaxStep g s u du ew st) := by
  obtain ⟨e, w⟩ := ew
  unfold relaxStep
  rw [lexRelax]
  dsimp only
  by_cases h1 : w = u
  · rw [if_pos h1, if_pos h1]
  rw [if_neg h1, if_neg h1]
  by_cases h2 : w = s
  · rw [if_pos h2, if_pos h2]
  rw [if_neg h2, if_neg h2]
  cases hp : st.pred.getD w none with
  | none => rfl
  | some e0 =>
    dsimp only
    cases hl : st.lab.getD w none with
    | none => rfl
    | some lw =>
      dsimp only
      by_cases h3 : lexLess (lexCombine g du e) lw = true
      · rw [if_pos h3, if_pos h3]
      · rw [if_neg h3, if_neg h3]

theorem Inv.step {g : Graph} {s : Nat} {st : LexState} {D : List Nat} {R : Nat → Nat → Nat → Prop}
    (hs : g.simpleB = true) (hp : g.positiveB = true) (h : Inv g s st D R)
    (u e w : Nat) (du : LexLabel)
    (hu : u ∈ D) (hmax : ∀ d ∈ D, dOf st.lab d ≤ dOf st.lab u)
    (hdu : st.lab.getD u none = some du) (hadj : (e, w) ∈ g.adj u) :
    Inv g s (relaxStep g s u du (e, w) st) D (fun a e' w' => R a e' w' ∨ (a = u ∧ e' = e ∧ w' = w)) ∧
    (∀ d ∈ D, (relaxStep g s u du (e, w) st).lab.getD d none = st.lab.getD d none) := by
  obtain ⟨hem, hwn, hun, hwu, hinc, hoth⟩ := adj_facts g hs u e w hadj
  have hpos := positiveB_facts g hp e hem
  have hdu' : dOf st.lab u = du.dist := dOf_some _ _ _ hdu
  have hcd : (lexCombine g du e).dist = dOf st.lab u + g.weight e := by rw [hdu']; rfl
  -- the state does not change, the edge is recorded
  have same : Disc s st.pred w → dOf st.lab w ≤ dOf st.lab u + g.weight e →
      Inv g s st D (fun a e' w' => R a e' w' ∨ (a = u ∧ e' = e ∧ w' = w)) := by
    intro h1 h2
    refine h.setR ?_
    rintro a e' w' (hR | ⟨rfl, rfl, rfl⟩)
    · exact h.edge a e' w' hR
    · exact ⟨hu, h1, h2⟩
  unfold relaxStep
  dsimp only
  rw [if_neg hwu]
  by_cases hws : w = s
  · rw [if_pos hws]
    refine ⟨same (Or.inl hws) ?_, fun _ _ => rfl⟩
    rw [hws, dOf_some _ _ _ h.lab_s]
    have := h.nonneg u
    show (0 : Int) ≤ _
    omega
  rw [if_neg hws]
  split
  · -- first time found
    rename_i hpw
    have hnd : ¬ Disc s st.pred w := by
      rintro (h1 | ⟨e1, h1⟩)
      · exact hws h1
      · rw [hpw] at h1; cases h1
    have hnot := fun hh => hnd ((h.disc_iff w).2 hh)
    have hwD : w ∉ D := fun hh => hnot (Or.inl hh)
    have hwq : w ∉ st.queue := fun hh => hnot (Or.inr hh)
    refine ⟨h.update hs hp u e w _ _ hu hmax hadj hws hwD hcd (fun hh => absurd hh hnd) ?_ ?_, ?_⟩
    · rw [List.nodup_append]
      refine ⟨h.q_nd, List.nodup_cons.2 ⟨List.not_mem_nil, List.nodup_nil⟩, ?_⟩
      intro a ha b hb
      rw [List.mem_singleton] at hb
      subst hb
      exact fun hh => hwq (hh ▸ ha)
    · intro x; rw [List.mem_append, List.mem_singleton]
    · intro d hd
      exact getD_set_ne _ _ _ _ _ (fun hh => hwD (hh ▸ hd))
  · rename_i e0 hpw
    have hdw : Disc s st.pred w := Or.inr ⟨e0, hpw⟩
    split
    · rename_i lw hlw
      have hdw' : dOf st.lab w = lw.dist := dOf_some _ _ _ hlw
      split
      · rename_i hless
        have hle := lexLess_true_dist _ _ hless
        have hwD : w ∉ D := by
          intro hh
          have := hmax w hh
          omega
        have hwq : w ∈ st.queue := ((h.disc_iff w).1 hdw).elim (fun hh => absurd hh hwD) id
        refine ⟨h.update hs hp u e w _ _ hu hmax hadj hws hwD hcd (fun _ => by omega) h.q_nd ?_, ?_⟩
        · intro x
          exact ⟨Or.inl, fun hh => hh.elim id (fun hh => hh ▸ hwq)⟩
        · intro d hd
          exact getD_set_ne _ _ _ _ _ (fun hh => hwD (hh ▸ hd))
      · rename_i hless
        have hle := lexLess_false_dist _ _ (by simpa using hless)
        exact ⟨same hdw (by omega), fun _ _ => rfl⟩
    · rename_i hlw
      obtain ⟨l, hl⟩ := h.lab_some w hdw
      rw [hlw] at hl; cases hl

/-- the whole loop over (a suffix of) the out-edges of the popped vertex -/
theorem Inv.relax {g : Graph} {s : Nat} {D : List Nat}
    (hs : g.simpleB = true) (hp : g.positiveB = true) (u : Nat) (du : LexLabel) (hu : u ∈ D) :
    ∀ (r : List (Nat × Nat)) (st : LexState) (R : Nat → Nat → Nat → Prop), Inv g s st D R →
    (∀ d ∈ D, dOf st.lab d ≤ dOf st.lab u) → st.lab.getD u none = some du →
    (∀ ew ∈ r, ew ∈ g.adj u) →
    Inv g s (lexRelax g s u du r st) D (fun a e w => R a e w ∨ (a = u ∧ (e, w) ∈ r))
  | [], st, R, h, _, _, _ => by
    rw [lexRelax]
    refine h.setR ?_
    rintro a e w (hR | ⟨_, hR⟩)
    · exact h.edge a e w hR
    · cases hR
  | (e, w) :: r, st, R, h, hmax, hdu, hr => by
    rw [lexRelax_cons]
    obtain ⟨h1, h2⟩ := h.step hs hp u e w du hu hmax hdu (hr _ List.mem_cons_self)
    have hd : ∀ d ∈ D, dOf (relaxStep g s u du (e, w) st).lab d = dOf st.lab d := by
      intro d hd; unfold dOf; rw [h2 d hd]
    have := Inv.relax hs hp u du hu r _ _ h1 (by
        intro d hd'; rw [hd d hd', hd u hu]; exact hmax d hd')
      (by rw [h2 u hu]; exact hdu) (fun ew hew => hr ew (List.mem_cons_of_mem _ hew))
    refine this.setR ?_
    rintro a e' w' (hR | ⟨rfl, hR⟩)
    · exact this.edge a e' w' (Or.inl (Or.inl hR))
    · rcases List.mem_cons.1 hR with hR | hR
      · cases hR
        exact this.edge a e w (Or.inl (Or.inr ⟨rfl, rfl, rfl⟩))
      · exact this.edge a e' w' (Or.inr ⟨rfl, hR⟩)

/-! ### popping the minimum -/

theorem lexArgmin_spec (lab : List (Option LexLabel)) : ∀ (q : List Nat),
    (∀ x ∈ q, ∃ l, lab.getD x none = some l) →
    match lexArgmin lab q with
    | none => q = []
    | some u => u ∈ q ∧ ∀ x ∈ q, dOf lab u ≤ dOf lab x
  | [], _ => by rw [lexArgmin]
  | v :: r, hq => by
    have ih := lexArgmin_spec lab r (fun x hx => hq x (List.mem_cons_of_mem _ hx))
    rw [lexArgmin]
    cases hr : lexArgmin lab r with
    | none =>
      rw [hr] at ih
      dsimp only at ih ⊢
      subst ih
      refine ⟨List.mem_cons_self, ?_⟩
      intro x hx
      rw [List.mem_singleton] at hx
      subst hx
      exact Int.le_refl _
    | some u =>
      rw [hr] at ih
      dsimp only at ih ⊢
      obtain ⟨hur, hmin⟩ := ih
      obtain ⟨lv, hlv⟩ := hq v List.mem_cons_self
      obtain ⟨lu, hlu⟩ := hq u (List.mem_cons_of_mem _ hur)
      rw [hlv, hlu]
      dsimp only
      have dv := dOf_some _ _ _ hlv
      have du := dOf_some _ _ _ hlu
      by_cases hless : lexLess lu lv = true
      · rw [if_pos hless]
        dsimp only
        have := lexLess_true_dist _ _ hless
        refine ⟨List.mem_cons_of_mem _ hur, ?_⟩
        intro x hx
        rcases List.mem_cons.1 hx with hx | hx
        · subst hx; omega
        · exact hmin x hx
      · rw [if_neg hless]
        dsimp only
        have := lexLess_false_dist _ _ (by simpa using hless)
        refine ⟨List.mem_cons_self, ?_⟩
        intro x hx
        rcases List.mem_cons.1 hx with hx | hx
        · subst hx; exact Int.le_refl _
        · have := hmin x hx
          omega

/-- all out-edges of all popped vertices have been relaxed -/
def Full (g : Graph) (D : List Nat) : Nat → Nat → Nat → Prop := fun a e w => a ∈ D ∧ (e, w) ∈ g.adj a

theorem Inv.pop {g : Graph} {s : Nat} {st : LexState} {D : List Nat} (hsn : s < g.n)
    (h : Inv g s st D (Full g D)) (u : Nat) (hu : u ∈ st.queue)
    (hmin : ∀ x ∈ st.queue, dOf st.lab u ≤ dOf st.lab x) :
    Inv g s { st with queue := st.queue.erase u } (u :: D) (Full g D) ∧
    (∀ d ∈ u :: D, dOf st.lab d ≤ dOf st.lab u) := by
  have huD : u ∉ D := h.q_D u hu
  have hdu : Disc s st.pred u := (h.disc_iff u).2 (Or.inr hu)
  have hmax : ∀ d ∈ u :: D, dOf st.lab d ≤ dOf st.lab u := by
    intro d hd
    rcases List.mem_cons.1 hd with hd | hd
    · subst hd; exact Int.le_refl _
    · exact h.mono d hd u hu
  refine ⟨⟨h.len_lab, h.len_pred, h.pred_s, h.lab_s, h.q_nd.erase u, ?_, ?_, ?_, ?_, h.lab_some, ?_, ?_, ?_,
    h.nonneg⟩, hmax⟩
  · intro v hv
    have hv' : v ∈ st.queue.erase u := hv
    rw [h.q_nd.mem_erase_iff] at hv'
    intro hh
    rcases List.mem_cons.1 hh with hh | hh
    · exact hv'.1 hh
    · exact h.q_D v hv'.2 hh
  · intro v hv
    rcases List.mem_cons.1 hv with hv | hv
    · subst hv; exact Disc_lt h hsn v hdu
    · exact h.D_lt v hv
  · exact List.nodup_cons.2 ⟨huD, h.D_nd⟩
  · intro v
    show Disc s st.pred v ↔ v ∈ u :: D ∨ v ∈ st.queue.erase u
    rw [h.disc_iff, h.q_nd.mem_erase_iff, List.mem_cons]
    by_cases hvu : v = u
    · subst hvu; simp [hu]
    · simp [hvu]
  · intro v e hv
    obtain ⟨t1, t2, t3, t4⟩ := h.tree v e hv
    exact ⟨t1, t2, List.mem_cons_of_mem _ t3, t4⟩
  · intro d hd x hx
    have hx' : x ∈ st.queue.erase u := hx
    rw [h.q_nd.mem_erase_iff] at hx'
    rcases List.mem_cons.1 hd with hd | hd
    · subst hd; exact hmin x hx'.2
    · exact h.mono d hd x hx'.2
  · intro a e w hR
    obtain ⟨e1, e2, e3⟩ := h.edge a e w hR
    exact ⟨List.mem_cons_of_mem _ e1, e2, e3⟩

theorem Inv.loop {g : Graph} {s : Nat} (hs : g.simpleB = true) (hp : g.positiveB = true) (hsn : s < g.n) :
    ∀ (fuel : Nat) (st : LexState) (D : List Nat), Inv g s st D (Full g D) → g.n + 1 ≤ fuel + D.length →
    ∃ D', Inv g s (lexLoop g s fuel st) D' (Full g D') ∧ (lexLoop g s fuel st).queue = []
  | 0, st, D, h, hf => by
    have := nodup_length_le g.n D h.D_nd h.D_lt
    omega
  | fuel + 1, st, D, h, hf => by
    rw [lexLoop]
    have hspec := lexArgmin_spec st.lab st.queue
      (fun x hx => h.lab_some x ((h.disc_iff x).2 (Or.inr hx)))
    cases ha : lexArgmin st.lab st.queue with
    | none =>
      rw [ha] at hspec
      exact ⟨D, h, hspec⟩
    | some u =>
      rw [ha] at hspec
      dsimp only at hspec ⊢
      obtain ⟨hu, hmin⟩ := hspec
      obtain ⟨h1, hmax⟩ := h.pop hsn u hu hmin
      obtain ⟨du, hdu⟩ := h.lab_some u ((h.disc_iff u).2 (Or.inr hu))
      rw [hdu]
      dsimp only
      have h2 := Inv.relax hs hp u du List.mem_cons_self (g.adj u) _ _ h1 hmax hdu (fun _ hh => hh)
      have h3 : Inv g s (lexRelax g s u du (g.adj u) { st with queue := st.queue.erase u }) (u :: D)
          (Full g (u :: D)) := by
        refine h2.setR ?_
        rintro a e w ⟨ha, hew⟩
        rcases List.mem_cons.1 ha with ha | ha
        · subst ha; exact h2.edge a e w (Or.inr ⟨rfl, hew⟩)
        · exact h2.edge a e w (Or.inl ⟨ha, hew⟩)
      exact Inv.loop hs hp hsn fuel _ (u :: D) h3 (by rw [List.length_cons]; omega)

theorem Inv.init (g : Graph) (s : Nat) (hsn : s < g.n) :
    Inv g s { lab := (List.replicate g.n none).set s (some { dist := 0, cnt := 0, verts := [s] }),
              pred := List.replicate g.n none, queue := [s] } [] (Full g []) := by
  have hp : ∀ v, (List.replicate g.n (none : Option Nat)).getD v none = none := fun v => getD_replicate _ _ _
  have hd : ∀ v, Disc s (List.replicate g.n (none : Option Nat)) v ↔ v = s := by
    intro v
    unfold Disc
    rw [hp v]
    exact ⟨fun h => h.elim id (fun ⟨_, h⟩ => by cases h), Or.inl⟩
  have hl : ((List.replicate g.n (none : Option LexLabel)).set s (some { dist := 0, cnt := 0, verts := [s] })).getD
      s none = some ⟨0, 0, [s]⟩ := getD_set_self _ _ _ _ (by simp [hsn])
  refine ⟨by simp, by simp, hp s, hl, List.nodup_cons.2 ⟨List.not_mem_nil, List.nodup_nil⟩, ?_, ?_, List.nodup_nil,
    ?_, ?_, ?_, ?_, ?_, ?_⟩
  · intro v _ hh; cases hh
  · intro v hh; cases hh
  · intro v
    show Disc s (List.replicate g.n none) v ↔ v ∈ [] ∨ v ∈ [s]
    rw [hd]; simp
  · intro v hv
    have := (hd v).1 hv
    subst this
    exact ⟨_, hl⟩
  · intro v e hv
    have hv' : (List.replicate g.n (none : Option Nat)).getD v none = some e := hv
    rw [hp] at hv'; cases hv'
  · intro d hh; cases hh
  · intro a e w hh; cases hh.1
  · intro v
    show 0 ≤ dOf ((List.replicate g.n none).set s (some { dist := 0, cnt := 0, verts := [s] })) v
    by_cases hv : v = s
    · subst hv; rw [dOf_some _ _ _ hl]; exact Int.le_refl _
    · rw [dOf_set_ne _ _ _ _ (Ne.symm hv), dOf_none _ _ (getD_replicate _ _ _)]; exact Int.le_refl _

/-- the final state of the search -/
theorem final_inv (g : Graph) (hs : g.simpleB = true) (hp : g.positiveB = true) (s : Nat) (hsn : s < g.n) :
    ∃ D, Inv g s (lexDijkstra g s) D (Full g D) ∧ (lexDijkstra g s).queue = [] :=
  Inv.loop hs hp hsn (g.n + 1) _ [] (Inv.init g s hsn) (by simp)

/-! ### the certificate accepts -/

theorem checkSPT_of_ok (g : Graph) (t : SPTree) (ok : SPTOk g t) (h1 : t.dist.length = g.n)
    (h2 : t.pred.length = g.n) : checkSPT g t = true := by
  unfold checkSPT
  simp only [Bool.and_eq_true, decide_eq_true_eq, List.all_eq_true, List.mem_range, beq_iff_eq]
  refine ⟨⟨⟨⟨⟨⟨ok.src_lt, h1⟩, h2⟩, ok.dist_src⟩, ok.pred_src⟩, ?_⟩, ?_⟩
  · intro v hv
    by_cases hvs : v = t.source
    · rw [if_pos hvs]
    rw [if_neg hvs]
    rcases ok.node v hv hvs with ⟨a, b⟩ | ⟨dv, e, dp, a, b, c, d, e', f⟩
    · rw [a, b]
    · rw [a, b]
      dsimp only
      rw [e']
      simp only [Bool.and_eq_true, decide_eq_true_eq, Bool.or_eq_true, beq_iff_eq]
      exact ⟨⟨c, d⟩, f⟩
  · intro e he
    rcases ok.edge e he with ⟨a, b⟩ | ⟨x, y, a, b, c, d⟩
    · rw [a, b]
    · rw [a, b]
      simp only [Bool.and_eq_true, decide_eq_true_eq]
      exact ⟨c, d⟩

theorem bt_dist (g : Graph) (s v : Nat) :
    (buildTree g s).dist.getD v none =
      if v < g.n then
        (if v = s then some 0 else
          match (lexDijkstra g s).pred.getD v none, (lexDijkstra g s).lab.getD v none with
          | some _, some l => some l.dist
          | _, _ => none)
      else none := by
  unfold buildTree
  exact getD_map_range _ _ _ _

theorem bt_dist_disc {g : Graph} {s : Nat} {D : List Nat} {R : Nat → Nat → Nat → Prop}
    (h : Inv g s (lexDijkstra g s) D R) (hsn : s < g.n) (v : Nat)
    (hv : Disc s (lexDijkstra g s).pred v) :
    (buildTree g s).dist.getD v none = some (dOf (lexDijkstra g s).lab v) := by
  rw [bt_dist, if_pos (Disc_lt h hsn v hv)]
  by_cases hvs : v = s
  · rw [if_pos hvs, hvs, dOf_some _ _ _ h.lab_s]
  · rw [if_neg hvs]
    obtain ⟨l, hl⟩ := h.lab_some v hv
    rcases hv with hv | ⟨e, he⟩
    · exact absurd hv hvs
    · rw [he, hl, dOf_some _ _ _ hl]

theorem bt_dist_ndisc (g : Graph) (s v : Nat) (hv : ¬ Disc s (lexDijkstra g s).pred v) :
    (buildTree g s).dist.getD v none = none := by
  rw [bt_dist]
  by_cases hvn : v < g.n
  · rw [if_pos hvn]
    have hvs : v ≠ s := fun hh => hv (Or.inl hh)
    rw [if_neg hvs]
    cases hpv : (lexDijkstra g s).pred.getD v none with
    | none => rfl
    | some e => exact absurd (Or.inr ⟨e, hpv⟩) hv
  · rw [if_neg hvn]

theorem final_ok (g : Graph) (hs : g.simpleB = true) (hp : g.positiveB = true) (s : Nat) (hsn : s < g.n) :
    SPTOk g (buildTree g s) := by
  obtain ⟨D, h, hq⟩ := final_inv g hs hp s hsn
  have hD : ∀ v, Disc s (lexDijkstra g s).pred v ↔ v ∈ D := by
    intro v
    rw [h.disc_iff, hq]
    simp
  refine ⟨hsn, ?_, h.pred_s, ?_, ?_⟩
  · show (buildTree g s).dist.getD s none = some 0
    rw [bt_dist_disc h hsn s (Or.inl rfl), dOf_some _ _ _ h.lab_s]
  · intro v hv hvs
    have hvs' : v ≠ s := hvs
    show ((buildTree g s).dist.getD v none = none ∧ (lexDijkstra g s).pred.getD v none = none) ∨
      (∃ dv e dp, (buildTree g s).dist.getD v none = some dv ∧ (lexDijkstra g s).pred.getD v none = some e ∧ e < g.m ∧
        (g.src e = v ∨ g.tgt e = v) ∧ (buildTree g s).dist.getD (g.other e v) none = some dp ∧
        dv = dp + g.weight e)
    cases hpv : (lexDijkstra g s).pred.getD v none with
    | none =>
      left
      refine ⟨bt_dist_ndisc g s v ?_, rfl⟩
      rintro (hh | ⟨e, he⟩)
      · exact hvs' hh
      · rw [hpv] at he; cases he
    | some e =>
      right
      obtain ⟨t1, t2, t3, t4⟩ := h.tree v e hpv
      exact ⟨_, e, _, bt_dist_disc h hsn v (Or.inr ⟨e, hpv⟩), rfl, t1, t2,
        bt_dist_disc h hsn _ ((hD _).2 t3), t4⟩
  · intro e he
    have hadj1 : (e, g.tgt e) ∈ g.adj (g.src e) := (mem_adj g _ e _).2 ⟨he, Or.inl ⟨rfl, rfl⟩⟩
    have hadj2 : (e, g.src e) ∈ g.adj (g.tgt e) := (mem_adj g _ e _).2 ⟨he, Or.inr ⟨rfl, rfl⟩⟩
    by_cases ha : Disc s (lexDijkstra g s).pred (g.src e)
    · right
      obtain ⟨_, e2, e3⟩ := h.edge _ _ _ ⟨(hD _).1 ha, hadj1⟩
      obtain ⟨_, _, e4⟩ := h.edge _ _ _ ⟨(hD _).1 e2, hadj2⟩
      exact ⟨_, _, bt_dist_disc h hsn _ ha, bt_dist_disc h hsn _ e2, e3, e4⟩
    · left
      refine ⟨bt_dist_ndisc g s _ ha, bt_dist_ndisc g s _ ?_⟩
      intro hb
      exact ha (h.edge _ _ _ ⟨(hD _).1 hb, hadj2⟩).2.1

/-! ### first-in-path -/

theorem checkFirst_of_ok (g : Graph) (t : SPTree) (ok : FirstOk g t) (h1 : t.first.length = g.n) :
    checkFirst g t = true := by
  unfold checkFirst
  simp only [Bool.and_eq_true, decide_eq_true_eq, List.all_eq_true, List.mem_range, beq_iff_eq]
  refine ⟨⟨h1, ok.first_src⟩, ?_⟩
  intro v hv
  by_cases hvs : v = t.source
  · rw [if_pos hvs]
  rw [if_neg hvs]
  cases hpv : t.pred.getD v none with
  | none => rfl
  | some e =>
    dsimp only
    have hst := ok.step v e hv hvs hpv
    by_cases hps : g.other e v = t.source
    · rw [if_pos hps]; exact beq_iff_eq.2 (hst.1 hps)
    · rw [if_neg hps]; exact beq_iff_eq.2 (hst.2 hps)

theorem firstInPath_succ (g : Graph) (s : Nat) (pred : List (Option Nat)) (k v : Nat) :
    firstInPath g s pred (k + 1) v =
      if v = s then s
      else match treeParent g pred v with
        | none => 0
        | some p => if p = s then v else firstInPath g s pred k p := rfl

/-- one more unit of fuel does not change `firstInPath` once the fuel covers the remaining depth -/
theorem firstInPath_stable {g : Graph} {s : Nat} {st : LexState} {D : List Nat} {R : Nat → Nat → Nat → Prop}
    (hp : g.positiveB = true) (h : Inv g s st D R) (hsn : s < g.n) :
    ∀ (fuel v : Nat) (vis : List Nat), Disc s st.pred v → vis.Nodup →
    (∀ u ∈ vis, u < g.n ∧ dOf st.lab v < dOf st.lab u) → g.n ≤ vis.length + fuel →
    firstInPath g s st.pred fuel v = firstInPath g s st.pred (fuel + 1) v
  | 0, v, vis, hv, hnd, hvis, hf => by
    have hnd' : (v :: vis).Nodup := by
      refine List.nodup_cons.2 ⟨fun hh => ?_, hnd⟩
      have := (hvis v hh).2
      omega
    have := nodup_length_le g.n (v :: vis) hnd' (by
      intro x hx
      rcases List.mem_cons.1 hx with hx | hx
      · subst hx; exact Disc_lt h hsn x hv
      · exact (hvis x hx).1)
    rw [List.length_cons] at this
    omega
  | fuel + 1, v, vis, hv, hnd, hvis, hf => by
    rw [firstInPath_succ g s st.pred fuel v, firstInPath_succ g s st.pred (fuel + 1) v]
    by_cases hvs : v = s
    · rw [if_pos hvs, if_pos hvs]
    rw [if_neg hvs, if_neg hvs]
    cases hpv : st.pred.getD v none with
    | none =>
      have htp : treeParent g st.pred v = none := by unfold treeParent; rw [hpv]; rfl
      rw [htp]
    | some e =>
      have htp : treeParent g st.pred v = some (g.other e v) := by unfold treeParent; rw [hpv]; rfl
      rw [htp]
      dsimp only
      by_cases hps : g.other e v = s
      · rw [if_pos hps, if_pos hps]
      rw [if_neg hps, if_neg hps]
      obtain ⟨t1, t2, t3, t4⟩ := h.tree v e hpv
      have hpos := positiveB_facts g hp e t1
      have hnd' : (v :: vis).Nodup := by
        refine List.nodup_cons.2 ⟨fun hh => ?_, hnd⟩
        have := (hvis v hh).2
        omega
      refine firstInPath_stable hp h hsn fuel (g.other e v) (v :: vis) ((h.disc_iff _).2 (Or.inl t3)) hnd' ?_ ?_
      · intro u hu
        rcases List.mem_cons.1 hu with hu | hu
        · subst hu; exact ⟨Disc_lt h hsn u hv, by omega⟩
        · have := hvis u hu
          exact ⟨this.1, by omega⟩
      · rw [List.length_cons]; omega

theorem bt_first (g : Graph) (s v : Nat) :
    (buildTree g s).first.getD v 0 =
      if v < g.n then
        (if v = s then s else
          match (lexDijkstra g s).pred.getD v none with
          | some _ => firstInPath g s (lexDijkstra g s).pred g.n v
          | none => 0)
      else 0 := by
  unfold buildTree
  exact getD_map_range _ _ _ _

theorem final_first (g : Graph) (hs : g.simpleB = true) (hp : g.positiveB = true) (s : Nat) (hsn : s < g.n) :
    FirstOk g (buildTree g s) := by
  obtain ⟨D, h, hq⟩ := final_inv g hs hp s hsn
  refine ⟨?_, ?_⟩
  · show (buildTree g s).first.getD s 0 = s
    rw [bt_first, if_pos hsn, if_pos rfl]
  · intro v e hv hvs hpe
    have hvs' : v ≠ s := hvs
    have hpe' : (lexDijkstra g s).pred.getD v none = some e := hpe
    show (g.other e v = s → (buildTree g s).first.getD v 0 = v) ∧
      (g.other e v ≠ s → (buildTree g s).first.getD v 0 = (buildTree g s).first.getD (g.other e v) 0)
    obtain ⟨k, hk⟩ : ∃ k, g.n = k + 1 := ⟨g.n - 1, by omega⟩
    have hfv : (buildTree g s).first.getD v 0 = firstInPath g s (lexDijkstra g s).pred (k + 1) v := by
      rw [bt_first, if_pos hv, if_neg hvs', hpe', hk]
    have htp : treeParent g (lexDijkstra g s).pred v = some (g.other e v) := by
      unfold treeParent; rw [hpe']; rfl
    rw [hfv, firstInPath_succ, if_neg hvs', htp]
    dsimp only
    obtain ⟨t1, t2, t3, t4⟩ := h.tree v e hpe'
    have hpos := positiveB_facts g hp e t1
    have hdp : Disc s (lexDijkstra g s).pred (g.other e v) := (h.disc_iff _).2 (Or.inl t3)
    constructor
    · intro hps; rw [if_pos hps]
    · intro hps
      rw [if_neg hps]
      have hfp : (buildTree g s).first.getD (g.other e v) 0 =
          firstInPath g s (lexDijkstra g s).pred (k + 1) (g.other e v) := by
        rw [bt_first, if_pos (Disc_lt h hsn _ hdp), if_neg hps]
        rcases hdp with hh | ⟨e', he'⟩
        · exact absurd hh hps
        · rw [he', hk]
      rw [hfp]
      refine firstInPath_stable hp h hsn k (g.other e v) [v] hdp
        (List.nodup_cons.2 ⟨List.not_mem_nil, List.nodup_nil⟩) ?_ ?_
      · intro u hu
        rw [List.mem_singleton] at hu
        subst hu
        exact ⟨hv, by omega⟩
      · rw [hk]; simp; omega

end DijL

theorem lexDijkstra_checkSPT (g : Graph) (hs : g.simpleB = true) (hp : g.positiveB = true) (s : Nat) (hsn : s < g.n) :
    checkSPT g (buildTree g s) = true := by
  obtain ⟨D, h, _⟩ := DijL.final_inv g hs hp s hsn
  refine DijL.checkSPT_of_ok g _ (DijL.final_ok g hs hp s hsn) ?_ h.len_pred
  unfold buildTree
  simp

theorem lexDijkstra_checkFirst (g : Graph) (hs : g.simpleB = true) (hp : g.positiveB = true) (s : Nat) (hsn : s < g.n) :
    checkFirst g (buildTree g s) = true := by
  refine DijL.checkFirst_of_ok g _ (DijL.final_first g hs hp s hsn) ?_
  unfold buildTree
  simp

end Parmcb
