import Parmcb.Model.Float
import Mathlib.Tactic.Ring
import Mathlib.Tactic.Linarith
/-!
Rounding lemmas for the binary64 addition model (Model/Float.lean).  Core Lean (single Mathlib tactic
modules allowed).
-/
namespace Parmcb.Float

/-! ### `rndNat`: decomposition `n = q * 2^e + r` -/

theorem log2_eq_of {n k : Nat} (h1 : 2 ^ k ≤ n) (h2 : n < 2 ^ (k + 1)) : n.log2 = k := by
  have hn : n ≠ 0 := by
    have := Nat.two_pow_pos k
    omega
  have a := (Nat.log2_lt (k := k + 1) hn).2 h2
  have b := (Nat.le_log2 (k := k) hn).2 h1
  omega

/-- the rounding decision: keep `q` or go to `q + 1` (`H` is half of the dropped range) -/
def up (H q r : Nat) : Nat := if H < r ∨ (r = H ∧ q % 2 = 1) then q + 1 else q

theorem up_ge (H q r : Nat) : q ≤ up H q r := by
  unfold up; split <;> omega

theorem up_le (H q r : Nat) : up H q r ≤ q + 1 := by
  unfold up; split <;> omega

theorem up_mono (H q : Nat) {r r' : Nat} (h : r ≤ r') : up H q r ≤ up H q r' := by
  unfold up; split <;> split <;> omega

theorem up_zero (H q : Nat) (hH : 0 < H) : up H q 0 = q := by
  unfold up; rw [if_neg]; omega

theorem rndNat_small {n : Nat} (h : n < 2 ^ 53) : rndNat n = n := by
  unfold rndNat
  simp only [prec, h, ↓reduceIte]

theorem two_pow_half {e : Nat} (he : 1 ≤ e) : 2 ^ e = 2 * 2 ^ (e - 1) := by
  obtain ⟨d, rfl⟩ : ∃ d, e = d + 1 := ⟨e - 1, by omega⟩
  rw [Nat.pow_succ, Nat.add_sub_cancel, Nat.mul_comm]

theorem rndNat_eq (e q r : Nat) (he : 1 ≤ e) (hq1 : 2 ^ 52 ≤ q) (hq2 : q < 2 ^ 53) (hr : r < 2 ^ e) :
    rndNat (q * 2 ^ e + r) = up (2 ^ (e - 1)) q r * 2 ^ e := by
  have hP : 0 < 2 ^ e := Nat.two_pow_pos e
  have h1 : 2 ^ (52 + e) ≤ q * 2 ^ e + r := by
    rw [Nat.pow_add]
    have := Nat.mul_le_mul_right (2 ^ e) hq1
    omega
  have h2 : q * 2 ^ e + r < 2 ^ (52 + e + 1) := by
    have h : 52 + e + 1 = 53 + e := by omega
    rw [h, Nat.pow_add]
    have := Nat.mul_le_mul_right (2 ^ e) (show q + 1 ≤ 2 ^ 53 from hq2)
    rw [Nat.add_mul, Nat.one_mul] at this
    omega
  have hlog := log2_eq_of h1 h2
  have h53 : ¬ q * 2 ^ e + r < 2 ^ 53 := by
    have : 2 ^ 53 ≤ 2 ^ (52 + e) := Nat.pow_le_pow_right (by omega) (by omega)
    omega
  have hdiv : (q * 2 ^ e + r) / 2 ^ e = q := by
    rw [Nat.mul_comm, Nat.mul_add_div hP, Nat.div_eq_of_lt hr, Nat.add_zero]
  have hmod : (q * 2 ^ e + r) % 2 ^ e = r := by
    rw [Nat.mul_comm, Nat.mul_add_mod, Nat.mod_eq_of_lt hr]
  have he' : 52 + e + 1 - 53 = e := by omega
  unfold rndNat
  simp only [prec, h53, ↓reduceIte, hlog, he', hdiv, hmod]
  rfl

theorem rndNat_decomp (n : Nat) (h : 2 ^ 53 ≤ n) :
    ∃ e q r, 1 ≤ e ∧ 2 ^ 52 ≤ q ∧ q < 2 ^ 53 ∧ r < 2 ^ e ∧ n = q * 2 ^ e + r := by
  have hn : n ≠ 0 := by omega
  have hl : 53 ≤ n.log2 := (Nat.le_log2 hn).2 h
  obtain ⟨e, hle, he⟩ : ∃ e, n.log2 = 52 + e ∧ 1 ≤ e := ⟨n.log2 - 52, by omega, by omega⟩
  have hP : 0 < 2 ^ e := Nat.two_pow_pos e
  have lo : 2 ^ 52 * 2 ^ e ≤ n := by
    have := Nat.log2_self_le hn
    rwa [hle, Nat.pow_add] at this
  have hi : n < 2 ^ 53 * 2 ^ e := by
    have := @Nat.lt_log2_self n
    have h' : n.log2 + 1 = 53 + e := by omega
    rwa [h', Nat.pow_add] at this
  exact ⟨e, n / 2 ^ e, n % 2 ^ e, he, (Nat.le_div_iff_mul_le hP).2 lo, (Nat.div_lt_iff_lt_mul hP).2 hi,
    Nat.mod_lt _ hP, (Nat.div_add_mod' n (2 ^ e)).symm⟩

theorem rndNat_spec (n : Nat) (h : 2 ^ 53 ≤ n) :
    ∃ e q r, 1 ≤ e ∧ 2 ^ 52 ≤ q ∧ q < 2 ^ 53 ∧ r < 2 ^ e ∧ n = q * 2 ^ e + r ∧
      rndNat n = up (2 ^ (e - 1)) q r * 2 ^ e := by
  obtain ⟨e, q, r, he, hq1, hq2, hr, hn⟩ := rndNat_decomp n h
  exact ⟨e, q, r, he, hq1, hq2, hr, hn, by rw [hn]; exact rndNat_eq e q r he hq1 hq2 hr⟩

/-! ### error bound on Nat -/

theorem rndNat_err (n : Nat) : ∃ H, rndNat n ≤ n + H ∧ n ≤ rndNat n + H ∧ 2 ^ 53 * H ≤ n := by
  by_cases h : n < 2 ^ 53
  · exact ⟨0, by rw [rndNat_small h]; omega⟩
  · obtain ⟨e, q, r, he, hq1, hq2, hr, hn, hR⟩ := rndNat_spec n (by omega)
    refine ⟨2 ^ (e - 1), ?_⟩
    have hP := two_pow_half he
    generalize 2 ^ (e - 1) = H at *
    generalize 2 ^ e = P at *
    have hq := Nat.mul_le_mul_right P hq1
    rw [hR, hn]
    unfold up
    split
    · rw [Nat.add_mul, Nat.one_mul]; omega
    · omega

/-! ### monotonicity on Nat -/

theorem rndNat_mono {m n : Nat} (h : m ≤ n) : rndNat m ≤ rndNat n := by
  by_cases hn : n < 2 ^ 53
  · rw [rndNat_small hn, rndNat_small (by omega : m < 2 ^ 53)]; exact h
  obtain ⟨en, qn, rn, hen, hqn1, hqn2, hrn, hnn, hRn⟩ := rndNat_spec n (by omega)
  have hPn : 2 ≤ 2 ^ en := by
    have := two_pow_half hen
    have := Nat.two_pow_pos (en - 1)
    omega
  have lon : 2 ^ 52 * 2 ^ en ≤ rndNat n := by
    rw [hRn]
    exact Nat.mul_le_mul_right _ (Nat.le_trans hqn1 (up_ge _ _ _))
  by_cases hm : m < 2 ^ 53
  · rw [rndNat_small hm]; omega
  obtain ⟨em, qm, rm, hem, hqm1, hqm2, hrm, hmm, hRm⟩ := rndNat_spec m (by omega)
  have him : rndNat m ≤ 2 ^ 53 * 2 ^ em := by
    rw [hRm]
    exact Nat.mul_le_mul_right _ (Nat.le_trans (up_le _ _ _) hqm2)
  have hsucc : ∀ a : Nat, 2 ^ 53 * 2 ^ a = 2 ^ 52 * 2 ^ (a + 1) := by
    intro a; rw [Nat.pow_succ]; omega
  -- exponents are ordered
  have hee : em ≤ en := by
    apply Classical.byContradiction
    intro hc
    have h1 : 2 ^ (en + 1) ≤ 2 ^ em := Nat.pow_le_pow_right (by omega) (by omega)
    have h2 := Nat.mul_le_mul_right (2 ^ en) (show qn + 1 ≤ 2 ^ 53 from hqn2)
    rw [Nat.add_mul, Nat.one_mul, hsucc] at h2
    have h3 := Nat.mul_le_mul_right (2 ^ em) hqm1
    omega
  rcases Nat.lt_or_eq_of_le hee with hlt | heq
  · have h1 : 2 ^ (em + 1) ≤ 2 ^ en := Nat.pow_le_pow_right (by omega) (by omega)
    rw [hsucc] at him
    omega
  · subst heq
    have hqq : qm ≤ qn := by
      apply Classical.byContradiction
      intro hc
      have h1 := Nat.mul_le_mul_right (2 ^ em) (show qn + 1 ≤ qm by omega)
      rw [Nat.add_mul, Nat.one_mul] at h1
      omega
    rcases Nat.lt_or_eq_of_le hqq with hlt | heq
    · rw [hRm, hRn]
      refine Nat.le_trans (Nat.mul_le_mul_right _ (up_le _ _ _)) ?_
      exact Nat.mul_le_mul_right _ (Nat.le_trans hlt (up_ge _ _ _))
    · subst heq
      rw [hRm, hRn]
      exact Nat.mul_le_mul_right _ (up_mono _ _ (by omega))

/-! ### idempotence on Nat -/

theorem rndNat_idem (n : Nat) : rndNat (rndNat n) = rndNat n := by
  by_cases h : n < 2 ^ 53
  · rw [rndNat_small h, rndNat_small h]
  obtain ⟨e, q, r, he, hq1, hq2, hr, hn, hR⟩ := rndNat_spec n (by omega)
  rw [hR]
  have hu1 := up_ge (2 ^ (e - 1)) q r
  have hu2 := up_le (2 ^ (e - 1)) q r
  generalize up (2 ^ (e - 1)) q r = u at *
  by_cases hu : u < 2 ^ 53
  · have := rndNat_eq e u 0 he (by omega) hu (Nat.two_pow_pos e)
    rw [Nat.add_zero, up_zero _ _ (Nat.two_pow_pos _)] at this
    exact this
  · have hu' : u = 2 ^ 53 := by omega
    subst hu'
    have := rndNat_eq (e + 1) (2 ^ 52) 0 (by omega) (Nat.le_refl _) (by omega) (Nat.two_pow_pos _)
    rw [Nat.add_zero, up_zero _ _ (Nat.two_pow_pos _)] at this
    have hs : 2 ^ 53 * 2 ^ e = 2 ^ 52 * 2 ^ (e + 1) := by rw [Nat.pow_succ]; omega
    rw [hs]
    exact this

/-! ### the statements on Int -/

/-- integers of at most 53 bits are doubles: adding them is exact -/
theorem rnd_exact (x : Int) (h : x.natAbs < 2 ^ 53) : rnd x = x := by
  unfold rnd
  rw [rndNat_small h]
  split <;> omega

/-- relative error at most 2^-53 (half an ulp of a number ≥ 2^(52+e)) -/
theorem rnd_err (x : Int) : 2 ^ 53 * (rnd x - x).natAbs ≤ x.natAbs := by
  obtain ⟨H, h1, h2, h3⟩ := rndNat_err x.natAbs
  unfold rnd
  generalize rndNat x.natAbs = R at *
  split <;> omega

theorem rnd_natCast (n : Nat) : rnd (n : Int) = (rndNat n : Int) := by
  unfold rnd
  rw [if_neg (by omega), Int.natAbs_natCast]

theorem rnd_neg_natCast (n : Nat) : rnd (-(n : Int)) = -(rndNat n : Int) := by
  unfold rnd
  rw [Int.natAbs_neg, Int.natAbs_natCast]
  split
  · rfl
  · have : n = 0 := by omega
    subst this
    rw [rndNat_small (by omega)]
    rfl

/-- rounding is monotone -/
theorem rnd_mono {x y : Int} (h : x ≤ y) : rnd x ≤ rnd y := by
  have h1 := @rndNat_mono x.natAbs y.natAbs
  have h2 := @rndNat_mono y.natAbs x.natAbs
  unfold rnd
  generalize rndNat x.natAbs = A at *
  generalize rndNat y.natAbs = B at *
  split <;> split
  · have := h2 (by omega); omega
  · omega
  · omega
  · have := h1 (by omega); omega

/-- a rounded value is a double -/
theorem rnd_idem (x : Int) : rnd (rnd x) = rnd x := by
  by_cases hx : x < 0
  · have : rnd x = -(rndNat x.natAbs : Int) := by unfold rnd; rw [if_pos hx]
    rw [this, rnd_neg_natCast, rndNat_idem]
  · have : rnd x = (rndNat x.natAbs : Int) := by unfold rnd; rw [if_neg hx]
    rw [this, rnd_natCast, rndNat_idem]

theorem rnd_nonneg {x : Int} (h : 0 ≤ x) : 0 ≤ rnd x := by
  unfold rnd
  rw [if_neg (by omega)]
  omega

/-- adding a non-negative number in double arithmetic never decreases a double (`a` is itself a rounded
value): Dijkstra's labels stay monotone along a path -/
theorem fadd_inflationary (a b : Int) (ha : rnd a = a) (hb : 0 ≤ b) : a ≤ fadd a b := by
  unfold fadd
  calc a = rnd a := ha.symm
    _ ≤ rnd (a + b) := rnd_mono (by omega)

/-! ### accumulated sums -/

theorem rnd_err_nonneg {x : Int} (hx : 0 ≤ x) :
    (2 ^ 53 - 1) * x ≤ 2 ^ 53 * rnd x ∧ 2 ^ 53 * rnd x ≤ (2 ^ 53 + 1) * x := by
  have := rnd_err x
  generalize rnd x = y at *
  omega

theorem step_lo (p m s a w y : Int) (hpm : p ≤ m) (hm : 0 ≤ m) (hw : 0 ≤ w)
    (h : p * s ≤ m * a) (hy : (2 ^ 53 - 1) * (a + w) ≤ 2 ^ 53 * y) :
    p * (2 ^ 53 - 1) * (s + w) ≤ m * 2 ^ 53 * y := by
  have h1 : p * w ≤ m * w := mul_le_mul_of_nonneg_right hpm hw
  have h3 : m * ((2 ^ 53 - 1) * (a + w)) ≤ m * (2 ^ 53 * y) := mul_le_mul_of_nonneg_left hy hm
  linarith

theorem step_hi (m u s a w y : Int) (hmu : m ≤ u) (hm : 0 ≤ m) (hw : 0 ≤ w)
    (h : m * a ≤ u * s) (hy : 2 ^ 53 * y ≤ (2 ^ 53 + 1) * (a + w)) :
    m * 2 ^ 53 * y ≤ u * (2 ^ 53 + 1) * (s + w) := by
  have h1 : m * w ≤ u * w := mul_le_mul_of_nonneg_right hmu hw
  have h3 : m * (2 ^ 53 * y) ≤ m * ((2 ^ 53 + 1) * (a + w)) := mul_le_mul_of_nonneg_left hy hm
  linarith

theorem foldl_bounds (ws : List Int) : ∀ (acc s : Int) (j : Nat), (∀ w ∈ ws, 0 ≤ w) → 0 ≤ acc →
    (2 ^ 53 - 1) ^ j * s ≤ (2 ^ 53) ^ j * acc → (2 ^ 53) ^ j * acc ≤ (2 ^ 53 + 1) ^ j * s →
    (2 ^ 53 - 1) ^ (j + ws.length) * (s + ws.sum) ≤ (2 ^ 53) ^ (j + ws.length) * ws.foldl fadd acc ∧
    (2 ^ 53) ^ (j + ws.length) * ws.foldl fadd acc ≤ (2 ^ 53 + 1) ^ (j + ws.length) * (s + ws.sum) := by
  induction ws with
  | nil =>
    intro acc s j _ _ h1 h2
    simpa using ⟨h1, h2⟩
  | cons w ws ih =>
    intro acc s j hpos hacc h1 h2
    have hw : 0 ≤ w := hpos w (List.mem_cons_self ..)
    have hx : 0 ≤ acc + w := by omega
    obtain ⟨e1, e2⟩ := rnd_err_nonneg hx
    have hm : (0 : Int) ≤ (2 ^ 53) ^ j := pow_nonneg (by norm_num) j
    have hpm : ((2 : Int) ^ 53 - 1) ^ j ≤ (2 ^ 53) ^ j := pow_le_pow_left₀ (by norm_num) (by norm_num) j
    have hmu : ((2 : Int) ^ 53) ^ j ≤ (2 ^ 53 + 1) ^ j := pow_le_pow_left₀ (by norm_num) (by norm_num) j
    have := ih (fadd acc w) (s + w) (j + 1) (fun v hv => hpos v (List.mem_cons_of_mem _ hv))
      (rnd_nonneg hx)
      (by rw [pow_succ, pow_succ]; exact step_lo _ _ _ _ _ _ hpm hm hw h1 e1)
      (by rw [pow_succ, pow_succ]; exact step_hi _ _ _ _ _ _ hmu hm hw h2 e2)
    rw [List.length_cons, List.sum_cons, List.foldl_cons]
    rw [show j + (ws.length + 1) = j + 1 + ws.length by omega, ← Int.add_assoc]
    exact this

/-- left-to-right accumulation of `k` non-negative numbers: within the factors `(1 ± 2^-53)^k` of the exact sum -/
theorem fsum_bounds (ws : List Int) (hpos : ∀ w ∈ ws, 0 ≤ w) :
    (2 ^ 53 - 1) ^ ws.length * ws.sum ≤ 2 ^ (53 * ws.length) * fsum ws ∧
    2 ^ (53 * ws.length) * fsum ws ≤ (2 ^ 53 + 1) ^ ws.length * ws.sum := by
  have := foldl_bounds ws 0 0 0 hpos (Int.le_refl _) (by simp) (by simp)
  rw [Nat.zero_add, Int.zero_add] at this
  rw [pow_mul]
  exact this

theorem bern_hi (k : Nat) (hk : 2 * (k : Int) ≤ 2 ^ 53) :
    ((2 : Int) ^ 53 + 1) ^ k * 2 ^ 53 ≤ (2 ^ 53) ^ k * (2 ^ 53 + 2 * k) := by
  induction k with
  | zero => norm_num
  | succ k ih =>
    push_cast at hk
    have ih' := ih (by linarith)
    have hm : (0 : Int) ≤ (2 ^ 53) ^ k := pow_nonneg (by norm_num) k
    have hmk := mul_nonneg hm (show (0 : Int) ≤ 2 ^ 53 - 2 * k by linarith)
    rw [pow_succ ((2 : Int) ^ 53 + 1) k, pow_succ ((2 : Int) ^ 53) k]
    generalize ((2 : Int) ^ 53 + 1) ^ k = u at *
    generalize ((2 : Int) ^ 53) ^ k = m at *
    push_cast
    linarith

theorem bern_lo (k : Nat) :
    ((2 : Int) ^ 53) ^ k * (2 ^ 53 - k) ≤ (2 ^ 53 - 1) ^ k * 2 ^ 53 := by
  induction k with
  | zero => norm_num
  | succ k ih =>
    have hm : (0 : Int) ≤ (2 ^ 53) ^ k := pow_nonneg (by norm_num) k
    have hmk := mul_nonneg hm (show (0 : Int) ≤ (k : Int) by omega)
    rw [pow_succ ((2 : Int) ^ 53 - 1) k, pow_succ ((2 : Int) ^ 53) k]
    generalize ((2 : Int) ^ 53 - 1) ^ k = p at *
    generalize ((2 : Int) ^ 53) ^ k = m at *
    push_cast
    linarith

theorem sum_nonneg_of (ws : List Int) (hpos : ∀ w ∈ ws, 0 ≤ w) : 0 ≤ ws.sum := by
  induction ws with
  | nil => simp
  | cons w ws ih =>
    rw [List.sum_cons]
    have := hpos w (List.mem_cons_self ..)
    have := ih (fun v hv => hpos v (List.mem_cons_of_mem _ hv))
    omega

/-- linearised: up to 2^20 (about a million) terms the relative error of an accumulated sum stays below 2^-32 (2.4e-10) -/
theorem fsum_rel (ws : List Int) (hpos : ∀ w ∈ ws, 0 ≤ w) (hlen : ws.length ≤ 2 ^ 20) :
    2 ^ 32 * (fsum ws - ws.sum).natAbs ≤ ws.sum.natAbs := by
  obtain ⟨b1, b2⟩ := fsum_bounds ws hpos
  have hS := sum_nonneg_of ws hpos
  have hk : (ws.length : Int) ≤ 2 ^ 20 := by exact_mod_cast hlen
  have bh := bern_hi ws.length (by linarith)
  have bl := bern_lo ws.length
  rw [pow_mul] at b1 b2
  have hm : (0 : Int) < (2 ^ 53) ^ ws.length := pow_pos (by norm_num) _
  generalize fsum ws = F at *
  generalize ws.sum = S at *
  generalize (ws.length : Int) = k at *
  generalize ((2 : Int) ^ 53) ^ ws.length = m at *
  generalize ((2 : Int) ^ 53 + 1) ^ ws.length = u at *
  generalize ((2 : Int) ^ 53 - 1) ^ ws.length = p at *
  have hkS : k * S ≤ 2 ^ 20 * S := mul_le_mul_of_nonneg_right hk hS
  have up1 : m * (2 ^ 53 * F) ≤ m * ((2 ^ 53 + 2 * k) * S) := by
    have := mul_le_mul_of_nonneg_right bh hS
    have := mul_le_mul_of_nonneg_left b2 (show (0 : Int) ≤ 2 ^ 53 by norm_num)
    linarith
  have up2 := le_of_mul_le_mul_left up1 hm
  have lo1 : m * ((2 ^ 53 - k) * S) ≤ m * (2 ^ 53 * F) := by
    have := mul_le_mul_of_nonneg_right bl hS
    have := mul_le_mul_of_nonneg_left b1 (show (0 : Int) ≤ 2 ^ 53 by norm_num)
    linarith
  have lo2 := le_of_mul_le_mul_left lo1 hm
  have hA : 2 ^ 53 * F ≤ 2 ^ 53 * S + 2 ^ 21 * S := by linarith
  have hB : 2 ^ 53 * S ≤ 2 ^ 53 * F + 2 ^ 20 * S := by linarith
  omega

end Parmcb.Float
