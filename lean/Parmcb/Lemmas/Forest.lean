import Parmcb.Model.Forest
import Parmcb.Lemmas.Graph
import Parmcb.Lemmas.DePina
/-! helper lemmas for C16 (BFS spanning forest, numbering).  Core Lean only. -/
namespace Parmcb

/-! ### adjacency lists -/

theorem mem_adj (g : Graph) (u e w : Nat) :
    (e, w) ∈ g.adj u ↔ e < g.m ∧ ((g.src e = u ∧ w = g.tgt e) ∨ (g.tgt e = u ∧ w = g.src e)) := by
  unfold Graph.adj
  rw [List.mem_flatMap]
  constructor
  · rintro ⟨e', he', h⟩
    rw [List.mem_range] at he'
    rw [List.mem_append] at h
    rcases h with h | h
    · split at h
      · rename_i hs
        simp only [List.mem_cons, List.not_mem_nil, or_false, Prod.mk.injEq] at h
        obtain ⟨rfl, rfl⟩ := h
        exact ⟨he', Or.inl ⟨hs, rfl⟩⟩
      · cases h
    · split at h
      · rename_i hs
        simp only [List.mem_cons, List.not_mem_nil, or_false, Prod.mk.injEq] at h
        obtain ⟨rfl, rfl⟩ := h
        exact ⟨he', Or.inr ⟨hs, rfl⟩⟩
      · cases h
  · rintro ⟨he, h⟩
    refine ⟨e, List.mem_range.2 he, ?_⟩
    rw [List.mem_append]
    rcases h with ⟨hs, rfl⟩ | ⟨ht, rfl⟩
    · left; simp [hs]
    · right; simp [ht]

/-! ### connectivity inside an edge set, algebraically -/

/-- `Z ⊆ F` is (the edge set of) a walk-sum with odd degree exactly at `a` and `b` -/
def Joins (g : Graph) (F Z : List Nat) (a b : Nat) : Prop :=
  StrictSorted Z ∧ (∀ e ∈ Z, e ∈ F) ∧ ∀ x, par Z (g.inc x) = xor (x == a) (x == b)

def Conn (g : Graph) (F : List Nat) (a b : Nat) : Prop := ∃ Z, Joins g F Z a b

theorem Conn.refl (g : Graph) (F : List Nat) (a : Nat) : Conn g F a a :=
  ⟨[], trivial, (fun e he => by cases he), fun x => by simp [par_nil]⟩

theorem Conn.symm {g : Graph} {F : List Nat} {a b : Nat} (h : Conn g F a b) : Conn g F b a := by
  obtain ⟨Z, h1, h2, h3⟩ := h
  refine ⟨Z, h1, h2, fun x => ?_⟩
  rw [h3 x]
  cases (x == a) <;> cases (x == b) <;> rfl

theorem Conn.trans {g : Graph} {F : List Nat} {a b c : Nat} (h : Conn g F a b) (h' : Conn g F b c) :
    Conn g F a c := by
  obtain ⟨Z, h1, h2, h3⟩ := h
  obtain ⟨Z', h1', h2', h3'⟩ := h'
  refine ⟨xorMerge Z Z', xorMerge_sorted _ _ h1 h1', ?_, fun x => ?_⟩
  · intro e he
    rcases mem_xorMerge_of _ _ _ he with h | h
    · exact h2 e h
    · exact h2' e h
  · rw [par_xorMerge, h3 x, h3' x]
    cases (x == a) <;> cases (x == b) <;> cases (x == c) <;> rfl

theorem Conn.mono {g : Graph} {F F' : List Nat} {a b : Nat} (h : Conn g F a b)
    (hF : ∀ e ∈ F, e ∈ F') : Conn g F' a b := by
  obtain ⟨Z, h1, h2, h3⟩ := h
  exact ⟨Z, h1, fun e he => hF e (h2 e he), h3⟩

theorem Conn.edge (g : Graph) (F : List Nat) (e : Nat) (he : e ∈ F) :
    Conn g F (g.src e) (g.tgt e) := by
  refine ⟨[e], trivial, ?_, fun x => ?_⟩
  · intro f hf
    rcases List.mem_cons.1 hf with h | h
    · subst h; exact he
    · cases h
  · rw [par_cons, par_nil]
    unfold Graph.inc
    rw [Bool.xor_false]
    rw [show (g.src e == x) = (x == g.src e) from Bool.beq_comm ..,
      show (g.tgt e == x) = (x == g.tgt e) from Bool.beq_comm ..]

/-- a joining set plus a direct edge outside `F` is an element of the cycle space -/
theorem Conn.closes (g : Graph) (F : List Nat) (e : Nat) (he : e < g.m) (hF : ∀ f ∈ F, f < g.m)
    (heF : e ∉ F) (h : Conn g F (g.src e) (g.tgt e)) :
    ∃ Z, EvenSet g Z ∧ e ∈ Z ∧ ∀ f ∈ Z, f = e ∨ f ∈ F := by
  obtain ⟨Z, h1, h2, h3⟩ := h
  have hs : StrictSorted [e] := trivial
  refine ⟨xorMerge [e] Z, ⟨xorMerge_sorted _ _ hs h1, ?_, ?_⟩, ?_, ?_⟩
  · intro f hf
    rcases mem_xorMerge_of _ _ _ hf with h | h
    · rcases List.mem_cons.1 h with h | h
      · subst h; exact he
      · cases h
    · exact hF f (h2 f h)
  · intro v
    rw [par_xorMerge, h3 v, par_cons, par_nil]
    unfold Graph.inc
    rw [show (g.src e == v) = (v == g.src e) from Bool.beq_comm ..,
      show (g.tgt e == v) = (v == g.tgt e) from Bool.beq_comm ..]
    cases (v == g.src e) <;> cases (v == g.tgt e) <;> rfl
  · rw [mem_xorMerge _ _ hs h1]
    have : e ∉ Z := fun h => heF (h2 e h)
    simp [this]
  · intro f hf
    rcases mem_xorMerge_of _ _ _ hf with h | h
    · rcases List.mem_cons.1 h with h | h
      · exact Or.inl h
      · cases h
    · exact Or.inr (h2 f h)

/-- adding a pendant edge (one endpoint untouched by `F`) keeps `F` acyclic -/
theorem acyclic_snoc (g : Graph) (F : List Nat) (e w : Nat) (hF : Acyclic g F)
    (hw : ∀ f ∈ F, g.inc w f = false) (he : g.inc w e = true) : Acyclic g (F ++ [e]) := by
  intro Z hZ hsub
  by_cases heZ : e ∈ Z
  · exfalso
    have := par_unique Z (g.inc w) e hZ.1.nodup heZ he (by
      intro f hf hinc
      rcases List.mem_append.1 (hsub f hf) with h | h
      · rw [hw f h] at hinc; cases hinc
      · simpa using h)
    rw [hZ.2.2 w] at this
    cases this
  · apply hF Z hZ
    intro f hf
    rcases List.mem_append.1 (hsub f hf) with h | h
    · exact h
    · have : f = e := by simpa using h
      subst this
      exact absurd hf heZ

/-! ### structural facts about the scan loops, and invariant-style induction principles -/

theorem scanAdj_un (u : Nat) (r : List (Nat × Nat)) : ∀ (un q acc : List Nat), un.Nodup → u ∉ un →
    (scanAdj u r un q acc).1.Nodup ∧ (∀ x ∈ (scanAdj u r un q acc).1, x ∈ un) ∧
    (∀ p ∈ r, p.2 ∉ (scanAdj u r un q acc).1) ∧
    (scanAdj u r un q acc).2.1.length + (scanAdj u r un q acc).1.length = q.length + un.length := by
  induction r with
  | nil =>
    intro un q acc hnd hu
    refine ⟨hnd, fun x hx => hx, ?_, rfl⟩
    intro p hp; cases hp
  | cons p r ih =>
    obtain ⟨e, w⟩ := p
    intro un q acc hnd hu
    unfold scanAdj
    by_cases hwu : w = u
    · rw [if_pos hwu]
      obtain ⟨h1, h2, h3, h4⟩ := ih un q acc hnd hu
      refine ⟨h1, h2, ?_, h4⟩
      intro p hp
      rcases List.mem_cons.1 hp with h | h
      · subst h
        intro hmem
        exact hu (hwu ▸ h2 _ hmem)
      · exact h3 p h
    · rw [if_neg hwu]
      by_cases hw : w ∈ un
      · rw [if_pos hw]
        have hu' : u ∉ un.erase w := fun h => hu (List.mem_of_mem_erase h)
        obtain ⟨h1, h2, h3, h4⟩ := ih (un.erase w) (q ++ [w]) (acc ++ [e]) (hnd.erase w) hu'
        refine ⟨h1, fun x hx => List.mem_of_mem_erase (h2 x hx), ?_, ?_⟩
        · intro p hp
          rcases List.mem_cons.1 hp with h | h
          · subst h
            intro hmem
            have := (hnd.mem_erase_iff).1 (h2 _ hmem)
            exact this.1 rfl
          · exact h3 p h
        · rw [h4, List.length_erase_of_mem hw, List.length_append]
          have : 0 < un.length := List.length_pos_of_mem hw
          simp only [List.length_cons, List.length_nil]
          omega
      · rw [if_neg hw]
        obtain ⟨h1, h2, h3, h4⟩ := ih un q acc hnd hu
        refine ⟨h1, h2, ?_, h4⟩
        intro p hp
        rcases List.mem_cons.1 hp with h | h
        · subst h
          intro hmem
          exact hw (h2 _ hmem)
        · exact h3 p h

/-- an invariant kept by every emission is kept by the scan of an adjacency list -/
theorem scanAdj_ind (u : Nat) (I : List Nat → List Nat → List Nat → Prop) (r : List (Nat × Nat))
    (hstep : ∀ un q acc e w, I un q acc → (e, w) ∈ r → w ≠ u → w ∈ un →
      I (un.erase w) (q ++ [w]) (acc ++ [e])) :
    ∀ un q acc, I un q acc →
      I (scanAdj u r un q acc).1 (scanAdj u r un q acc).2.1 (scanAdj u r un q acc).2.2 := by
  induction r with
  | nil => intro un q acc h; exact h
  | cons p r ih =>
    obtain ⟨e, w⟩ := p
    have ih := ih (fun un q acc e' w' h hm => hstep un q acc e' w' h (List.mem_cons_of_mem _ hm))
    intro un q acc h
    unfold scanAdj
    by_cases hwu : w = u
    · rw [if_pos hwu]; exact ih un q acc h
    · rw [if_neg hwu]
      by_cases hw : w ∈ un
      · rw [if_pos hw]
        exact ih _ _ _ (hstep un q acc e w h List.mem_cons_self hwu hw)
      · rw [if_neg hw]; exact ih un q acc h

theorem bfsComp_succ_cons (g : Graph) (fuel u : Nat) (q un acc : List Nat) :
    bfsComp g (fuel + 1) (u :: q) un acc =
      bfsComp g fuel (scanAdj u (g.adj u) un q acc).2.1 (scanAdj u (g.adj u) un q acc).1
        (scanAdj u (g.adj u) un q acc).2.2 := rfl

/-- an invariant kept by every pop (whose measure `|queue| + |unreached|` does not grow) holds
with an empty queue when the component search returns, provided the fuel covers the measure -/
theorem bfsComp_ind (g : Graph) (I : List Nat → List Nat → List Nat → Prop)
    (hpop : ∀ u q un acc, I un (u :: q) acc →
      I (scanAdj u (g.adj u) un q acc).1 (scanAdj u (g.adj u) un q acc).2.1
        (scanAdj u (g.adj u) un q acc).2.2 ∧
      (scanAdj u (g.adj u) un q acc).2.1.length + (scanAdj u (g.adj u) un q acc).1.length
        ≤ q.length + un.length) :
    ∀ fuel q un acc, I un q acc → q.length + un.length ≤ fuel →
      I (bfsComp g fuel q un acc).1 [] (bfsComp g fuel q un acc).2 := by
  intro fuel
  induction fuel with
  | zero =>
    intro q un acc h hl
    have : q = [] := List.eq_nil_of_length_eq_zero (by omega)
    subst this
    exact h
  | succ fuel ih =>
    intro q un acc h hl
    cases q with
    | nil => exact h
    | cons u q =>
      rw [bfsComp_succ_cons]
      obtain ⟨h1, h2⟩ := hpop u q un acc h
      apply ih _ _ _ h1
      simp only [List.length_cons] at hl
      omega

theorem forestLoop_succ_cons (g : Graph) (fuel v : Nat) (un acc : List Nat) (c : Nat) :
    forestLoop g (fuel + 1) (v :: un) acc c =
      forestLoop g fuel (bfsComp g (un.length + 1) [v] un acc).1
        (bfsComp g (un.length + 1) [v] un acc).2 (c + 1) := rfl

theorem forestLoop_ind (g : Graph) (J : List Nat → List Nat → Nat → Prop)
    (hstep : ∀ v un acc c, J (v :: un) acc c →
      J (bfsComp g (un.length + 1) [v] un acc).1 (bfsComp g (un.length + 1) [v] un acc).2 (c + 1) ∧
      (bfsComp g (un.length + 1) [v] un acc).1.length ≤ un.length) :
    ∀ fuel un acc c, J un acc c → un.length ≤ fuel →
      J [] (forestLoop g fuel un acc c).1 (forestLoop g fuel un acc c).2 := by
  intro fuel
  induction fuel with
  | zero =>
    intro un acc c h hl
    have : un = [] := List.eq_nil_of_length_eq_zero (by omega)
    subst this
    exact h
  | succ fuel ih =>
    intro un acc c h hl
    cases un with
    | nil => exact h
    | cons v un =>
      rw [forestLoop_succ_cons]
      obtain ⟨h1, h2⟩ := hstep v un acc c h
      apply ih _ _ _ h1
      simp only [List.length_cons] at hl
      omega

/-! ### the BFS invariants -/

/-- `e` joins `x` and `y` -/
def Inc (g : Graph) (e x y : Nat) : Prop :=
  (g.src e = x ∧ g.tgt e = y) ∨ (g.tgt e = x ∧ g.src e = y)

theorem Inc.conn {g : Graph} {e x y : Nat} {F : List Nat} (h : Inc g e x y) (he : e ∈ F) :
    Conn g F x y := by
  rcases h with ⟨rfl, rfl⟩ | ⟨rfl, rfl⟩
  · exact Conn.edge g F e he
  · exact (Conn.edge g F e he).symm

theorem Inc.of_conn {g : Graph} {e x y : Nat} {F : List Nat} (h : Inc g e x y) (hc : Conn g F x y) :
    Conn g F (g.src e) (g.tgt e) := by
  rcases h with ⟨rfl, rfl⟩ | ⟨rfl, rfl⟩
  · exact hc
  · exact hc.symm

theorem Inc.src_tgt (g : Graph) (e : Nat) : Inc g e (g.src e) (g.tgt e) := Or.inl ⟨rfl, rfl⟩
theorem Inc.tgt_src (g : Graph) (e : Nat) : Inc g e (g.tgt e) (g.src e) := Or.inr ⟨rfl, rfl⟩

theorem mem_adj_inc (g : Graph) (u e w : Nat) : (e, w) ∈ g.adj u ↔ e < g.m ∧ Inc g e u w := by
  rw [mem_adj]
  unfold Inc
  constructor
  · rintro ⟨h, ⟨h1, h2⟩ | ⟨h1, h2⟩⟩
    · exact ⟨h, Or.inl ⟨h1, h2.symm⟩⟩
    · exact ⟨h, Or.inr ⟨h1, h2.symm⟩⟩
  · rintro ⟨h, ⟨h1, h2⟩ | ⟨h1, h2⟩⟩
    · exact ⟨h, Or.inl ⟨h1, h2.symm⟩⟩
    · exact ⟨h, Or.inr ⟨h1, h2.symm⟩⟩

/-- state of one component search.  `U0` = unreached set when the search started (root `v`
included), `pq` = pending vertices (the one being scanned and the queue). -/
structure BInv (g : Graph) (U0 : List Nat) (v K : Nat) (un pq acc : List Nat) : Prop where
  nd : un.Nodup
  sub : ∀ x ∈ un, x ∈ U0
  le : un.length + 1 ≤ U0.length
  pq_ok : ∀ x ∈ pq, x ∈ U0 ∧ x ∉ un
  acc_ok : ∀ e ∈ acc, e < g.m ∧ g.src e ∉ un ∧ g.tgt e ∉ un
  acc_nd : acc.Nodup
  acyc : Acyclic g acc
  card : un.length + acc.length = K
  conn : ∀ x ∈ U0, x ∉ un → Conn g acc v x
  old : ∀ e, e < g.m → (g.src e ∉ U0 ∨ g.tgt e ∉ U0) →
    g.src e ∉ U0 ∧ g.tgt e ∉ U0 ∧ Conn g acc (g.src e) (g.tgt e)
  proc : ∀ x ∈ U0, x ∉ un → x ∉ pq → ∀ e y, e < g.m → Inc g e x y → y ∉ un

/-- state between two component searches -/
structure JInv (g : Graph) (un acc : List Nat) (c : Nat) : Prop where
  nd : un.Nodup
  acc_ok : ∀ e ∈ acc, e < g.m ∧ g.src e ∉ un ∧ g.tgt e ∉ un
  acc_nd : acc.Nodup
  acyc : Acyclic g acc
  card : acc.length + c + un.length = g.n
  closed : ∀ e, e < g.m → (g.src e ∉ un ∨ g.tgt e ∉ un) →
    g.src e ∉ un ∧ g.tgt e ∉ un ∧ Conn g acc (g.src e) (g.tgt e)

theorem BInv.emit {g : Graph} {U0 : List Nat} {v K : Nat} {un pq acc : List Nat}
    (h : BInv g U0 v K un pq acc) (u e w : Nat) (hu : u ∈ pq) (hadj : (e, w) ∈ g.adj u)
    (hw : w ∈ un) : BInv g U0 v K (un.erase w) (pq ++ [w]) (acc ++ [e]) := by
  obtain ⟨hem, hinc⟩ := (mem_adj_inc g u e w).1 hadj
  obtain ⟨huU, hun⟩ := h.pq_ok u hu
  have hwe : w ∉ un.erase w := fun hm => ((h.nd.mem_erase_iff).1 hm).1 rfl
  have hne : ∀ x, x ∉ un → x ∉ un.erase w := fun x hx hm => hx (List.mem_of_mem_erase hm)
  have hsub : ∀ f ∈ acc, f ∈ acc ++ [e] := fun f hf => List.mem_append_left _ hf
  have hends : ∀ z, (z = g.src e ∨ z = g.tgt e) → z = u ∨ z = w := by
    intro z hz
    rcases hinc with ⟨h1, h2⟩ | ⟨h1, h2⟩ <;> rcases hz with hz | hz <;> subst hz
    · exact Or.inl h1
    · exact Or.inr h2
    · exact Or.inr h2
    · exact Or.inl h1
  have hendw : g.src e = w ∨ g.tgt e = w := by
    rcases hinc with ⟨_, h2⟩ | ⟨_, h2⟩
    · exact Or.inr h2
    · exact Or.inl h2
  have huw : u ≠ w := fun heq => hun (heq ▸ hw)
  have heacc : e ∉ acc := by
    intro hm
    obtain ⟨_, h1, h2⟩ := h.acc_ok e hm
    rcases hendw with h' | h'
    · exact h1 (h' ▸ hw)
    · exact h2 (h' ▸ hw)
  refine ⟨h.nd.erase w, fun x hx => h.sub x (List.mem_of_mem_erase hx), ?_, ?_, ?_, ?_, ?_, ?_, ?_,
    ?_, ?_⟩
  · have := List.length_erase_of_mem hw
    have := h.le
    omega
  · intro x hx
    rcases List.mem_append.1 hx with hx | hx
    · exact ⟨(h.pq_ok x hx).1, hne x (h.pq_ok x hx).2⟩
    · have : x = w := by simpa using hx
      subst this
      exact ⟨h.sub x hw, hwe⟩
  · intro f hf
    rcases List.mem_append.1 hf with hf | hf
    · obtain ⟨a, b, c⟩ := h.acc_ok f hf
      exact ⟨a, hne _ b, hne _ c⟩
    · have : f = e := by simpa using hf
      subst this
      refine ⟨hem, ?_, ?_⟩
      · rcases hends (g.src f) (Or.inl rfl) with h' | h' <;> rw [h']
        · exact hne _ hun
        · exact hwe
      · rcases hends (g.tgt f) (Or.inr rfl) with h' | h' <;> rw [h']
        · exact hne _ hun
        · exact hwe
  · rw [List.nodup_append]
    refine ⟨h.acc_nd, by simp, ?_⟩
    intro a ha b hb hab
    have : b = e := by simpa using hb
    subst this; subst hab
    exact heacc ha
  · apply acyclic_snoc g acc e w h.acyc
    · intro f hf
      obtain ⟨_, h1, h2⟩ := h.acc_ok f hf
      have h1' : g.src f ≠ w := fun heq => h1 (heq ▸ hw)
      have h2' : g.tgt f ≠ w := fun heq => h2 (heq ▸ hw)
      unfold Graph.inc
      rw [beq_eq_false_iff_ne.2 h1', beq_eq_false_iff_ne.2 h2']; rfl
    · unfold Graph.inc
      rcases hinc with ⟨h1, h2⟩ | ⟨h1, h2⟩
      · have : g.src e ≠ w := by rw [h1]; exact huw
        simp [h2, this]
      · have : g.tgt e ≠ w := by rw [h1]; exact huw
        simp [h2, this]
  · have := List.length_erase_of_mem hw
    have : 0 < un.length := List.length_pos_of_mem hw
    have := h.card
    simp only [List.length_append, List.length_cons, List.length_nil]
    omega
  · intro x hx hxe
    by_cases hxw : x = w
    · subst hxw
      exact ((h.conn u huU hun).mono hsub).trans (hinc.conn (List.mem_append_right _ (by simp)))
    · have : x ∉ un := fun hm => hxe ((List.mem_erase_of_ne hxw).2 hm)
      exact (h.conn x hx this).mono hsub
  · intro f hf hor
    obtain ⟨a, b, c⟩ := h.old f hf hor
    exact ⟨a, b, c.mono hsub⟩
  · intro x hx hxe hxp f y hf hfy
    have hxw : x ≠ w := fun heq => hxp (List.mem_append_right _ (by simp [heq]))
    have hxun : x ∉ un := fun hm => hxe ((List.mem_erase_of_ne hxw).2 hm)
    have hxpq : x ∉ pq := fun hm => hxp (List.mem_append_left _ hm)
    exact hne _ (h.proc x hx hxun hxpq f y hf hfy)

theorem BInv.pop {g : Graph} {U0 : List Nat} {v K u : Nat} {un q acc : List Nat}
    (h : BInv g U0 v K un (u :: q) acc) (hscan : ∀ p ∈ g.adj u, p.2 ∉ un) :
    BInv g U0 v K un q acc := by
  refine ⟨h.nd, h.sub, h.le, fun x hx => h.pq_ok x (List.mem_cons_of_mem _ hx), h.acc_ok, h.acc_nd,
    h.acyc, h.card, h.conn, h.old, ?_⟩
  intro x hx hxun hxq f y hf hfy
  by_cases hxu : x = u
  · subst hxu
    exact hscan (f, y) ((mem_adj_inc g x f y).2 ⟨hf, hfy⟩)
  · exact h.proc x hx hxun (by simp [hxu, hxq]) f y hf hfy

theorem BInv.scan {g : Graph} {U0 : List Nat} {v K u : Nat} {un q acc : List Nat}
    (h : BInv g U0 v K un (u :: q) acc) :
    BInv g U0 v K (scanAdj u (g.adj u) un q acc).1 (scanAdj u (g.adj u) un q acc).2.1
        (scanAdj u (g.adj u) un q acc).2.2 ∧
      (scanAdj u (g.adj u) un q acc).2.1.length + (scanAdj u (g.adj u) un q acc).1.length
        ≤ q.length + un.length := by
  have hu := h.pq_ok u List.mem_cons_self
  obtain ⟨_, _, h3, h4⟩ := scanAdj_un u (g.adj u) un q acc h.nd hu.2
  refine ⟨?_, Nat.le_of_eq h4⟩
  have := scanAdj_ind u (fun un q acc => BInv g U0 v K un (u :: q) acc) (g.adj u)
    (fun un q acc e w hI hm _ hw => hI.emit u e w List.mem_cons_self hm hw) un q acc h
  exact this.pop h3

theorem JInv.start {g : Graph} {v c : Nat} {un acc : List Nat} (h : JInv g (v :: un) acc c) :
    BInv g (v :: un) v (un.length + acc.length) un [v] acc := by
  have hnd := List.nodup_cons.1 h.nd
  refine ⟨hnd.2, fun x hx => List.mem_cons_of_mem _ hx, by simp, ?_, ?_, h.acc_nd, h.acyc, rfl, ?_,
    h.closed, ?_⟩
  · intro x hx
    have : x = v := by simpa using hx
    subst this
    exact ⟨List.mem_cons_self, hnd.1⟩
  · intro e he
    obtain ⟨a, b, c⟩ := h.acc_ok e he
    exact ⟨a, fun hm => b (List.mem_cons_of_mem _ hm), fun hm => c (List.mem_cons_of_mem _ hm)⟩
  · intro x hx hxun
    rcases List.mem_cons.1 hx with hx | hx
    · subst hx; exact Conn.refl g acc x
    · exact absurd hx hxun
  · intro x hx hxun hxv
    rcases List.mem_cons.1 hx with hx | hx
    · exact absurd (by simp [hx]) hxv
    · exact absurd hx hxun

theorem BInv.finish {g : Graph} {v c : Nat} {un0 acc0 un acc : List Nat}
    (h0 : JInv g (v :: un0) acc0 c)
    (h : BInv g (v :: un0) v (un0.length + acc0.length) un [] acc) : JInv g un acc (c + 1) := by
  have key : ∀ e x y, e < g.m → Inc g e x y → x ∉ un → y ∉ un ∧ Conn g acc x y := by
    intro e x y he hinc hx
    by_cases hxU : x ∈ v :: un0
    · have hy := h.proc x hxU hx (by simp) e y he hinc
      refine ⟨hy, ?_⟩
      by_cases hyU : y ∈ v :: un0
      · exact (h.conn x hxU hx).symm.trans (h.conn y hyU hy)
      · exfalso
        have hor : g.src e ∉ v :: un0 ∨ g.tgt e ∉ v :: un0 := by
          rcases hinc with ⟨_, h2⟩ | ⟨_, h2⟩
          · exact Or.inr (h2 ▸ hyU)
          · exact Or.inl (h2 ▸ hyU)
        obtain ⟨a, b, _⟩ := h.old e he hor
        rcases hinc with ⟨h1, _⟩ | ⟨h1, _⟩
        · exact a (h1 ▸ hxU)
        · exact b (h1 ▸ hxU)
    · have hor : g.src e ∉ v :: un0 ∨ g.tgt e ∉ v :: un0 := by
        rcases hinc with ⟨h1, _⟩ | ⟨h1, _⟩
        · exact Or.inl (h1 ▸ hxU)
        · exact Or.inr (h1 ▸ hxU)
      obtain ⟨a, b, c⟩ := h.old e he hor
      rcases hinc with ⟨h1, h2⟩ | ⟨h1, h2⟩
      · subst h1; subst h2
        exact ⟨fun hm => b (h.sub _ hm), c⟩
      · subst h1; subst h2
        exact ⟨fun hm => a (h.sub _ hm), c.symm⟩
  refine ⟨h.nd, h.acc_ok, h.acc_nd, h.acyc, ?_, ?_⟩
  · have := h.card
    have := h0.card
    simp only [List.length_cons] at this
    omega
  · intro e he hor
    rcases hor with hx | hx
    · obtain ⟨a, b⟩ := key e _ _ he (Inc.src_tgt g e) hx
      exact ⟨hx, a, b⟩
    · obtain ⟨a, b⟩ := key e _ _ he (Inc.tgt_src g e) hx
      exact ⟨a, hx, b.symm⟩

theorem JInv.step {g : Graph} {v c : Nat} {un acc : List Nat} (h : JInv g (v :: un) acc c) :
    JInv g (bfsComp g (un.length + 1) [v] un acc).1 (bfsComp g (un.length + 1) [v] un acc).2 (c + 1) ∧
      (bfsComp g (un.length + 1) [v] un acc).1.length ≤ un.length := by
  have := bfsComp_ind g (fun un' q' acc' => BInv g (v :: un) v (un.length + acc.length) un' q' acc')
    (fun u q un' acc' hI => hI.scan) (un.length + 1) [v] un acc h.start (by simp; omega)
  refine ⟨BInv.finish h this, ?_⟩
  have := this.le
  simp only [List.length_cons] at this
  omega

theorem JInv.init (g : Graph) (order : List Nat) (hs : g.simpleB = true)
    (ho : order.Perm (List.range g.n)) : JInv g order [] 0 := by
  have hmem : ∀ e, e < g.m → g.src e ∈ order ∧ g.tgt e ∈ order := by
    intro e he
    obtain ⟨a, b, _⟩ := simpleB_facts g hs e he
    exact ⟨ho.mem_iff.2 (List.mem_range.2 a), ho.mem_iff.2 (List.mem_range.2 b)⟩
  refine ⟨ho.nodup_iff.2 List.nodup_range, fun e he => (by cases he), List.nodup_nil, ?_, ?_, ?_⟩
  · intro Z _ hsub
    cases Z with
    | nil => rfl
    | cons z Z => exact absurd (hsub z List.mem_cons_self) (by simp)
  · have := ho.length_eq
    simp only [List.length_range] at this
    simp [this]
  · intro e he hor
    obtain ⟨a, b⟩ := hmem e he
    rcases hor with h | h
    · exact absurd a h
    · exact absurd b h

theorem spanningForest_eq (g : Graph) (order : List Nat) (ho : order.Perm (List.range g.n)) :
    spanningForest g order = forestLoop g order.length order [] 0 := by
  unfold spanningForest
  split
  · rename_i h
    rw [h] at ho
    have : order = [] := by simpa using ho
    subst this
    rfl
  · rfl

/-- everything the run guarantees, in one place -/
theorem spanningForest_inv (g : Graph) (order : List Nat) (hs : g.simpleB = true)
    (ho : order.Perm (List.range g.n)) :
    JInv g [] (spanningForest g order).1 (spanningForest g order).2 := by
  rw [spanningForest_eq g order ho]
  exact forestLoop_ind g (JInv g) (fun v un acc c h => h.step) order.length order [] 0
    (JInv.init g order hs ho) (Nat.le_refl _)

/-! ### the numbering loop -/

theorem getD_eq_getElem' {α : Type} (l : List α) (i : Nat) (d : α) (h : i < l.length) :
    l.getD i d = l[i] := by
  simp [List.getD_eq_getElem?_getD, h]

/-- number of forest ids among `e, …, e + cnt - 1` -/
def onF (F : List Nat) : Nat → Nat → Nat
  | 0, _ => 0
  | cnt + 1, e => (if e ∈ F then 1 else 0) + onF F cnt (e + 1)

/-- number of non-forest ids among `e, …, e + cnt - 1` -/
def offF (F : List Nat) : Nat → Nat → Nat
  | 0, _ => 0
  | cnt + 1, e => (if e ∈ F then 0 else 1) + offF F cnt (e + 1)

theorem onF_add_offF (F : List Nat) (cnt e : Nat) : onF F cnt e + offF F cnt e = cnt := by
  induction cnt generalizing e with
  | zero => rfl
  | succ cnt ih =>
    have := ih (e + 1)
    unfold onF offF
    by_cases h : e ∈ F <;> simp only [h, if_true, if_false] <;> omega

theorem numberEdges_length (F : List Nat) (cnt e low high : Nat) :
    (numberEdges F cnt e low high).length = cnt := by
  induction cnt generalizing e low high with
  | zero => rfl
  | succ cnt ih =>
    unfold numberEdges
    by_cases h : e ∈ F <;> simp [h, ih]

theorem numberEdges_perm (F : List Nat) (cnt e low high : Nat) :
    (numberEdges F cnt e low high).Perm
      (List.range' low (offF F cnt e) ++ List.range' high (onF F cnt e)) := by
  induction cnt generalizing e low high with
  | zero => exact List.Perm.refl _
  | succ cnt ih =>
    unfold numberEdges onF offF
    by_cases h : e ∈ F
    · simp only [h, if_true, Nat.zero_add]
      rw [Nat.add_comm 1, List.range'_succ]
      exact ((List.perm_cons high).2 (ih (e + 1) low (high + 1))).trans List.perm_middle.symm
    · simp only [h, if_false, Nat.zero_add]
      rw [Nat.add_comm 1, List.range'_succ]
      exact (List.perm_cons low).2 (ih (e + 1) (low + 1) high)

theorem numberEdges_getD (F : List Nat) (cnt e low high i : Nat) (hi : i < cnt) :
    (e + i ∈ F → high ≤ (numberEdges F cnt e low high).getD i 0) ∧
    (e + i ∉ F → (numberEdges F cnt e low high).getD i 0 < low + offF F cnt e) := by
  induction cnt generalizing e low high i with
  | zero => omega
  | succ cnt ih =>
    unfold numberEdges offF
    by_cases h : e ∈ F
    · simp only [h, if_true, Nat.zero_add]
      cases i with
      | zero =>
        simp only [Nat.add_zero, List.getD_cons_zero]
        exact ⟨fun _ => Nat.le_refl _, fun h' => absurd h h'⟩
      | succ j =>
        rw [List.getD_cons_succ, show e + (j + 1) = e + 1 + j by omega]
        obtain ⟨a, b⟩ := ih (e + 1) low (high + 1) j (by omega)
        exact ⟨fun h' => Nat.le_of_succ_le (a h'), b⟩
    · simp only [h, if_false]
      cases i with
      | zero =>
        simp only [Nat.add_zero, List.getD_cons_zero]
        exact ⟨fun h' => absurd h' h, fun _ => by omega⟩
      | succ j =>
        rw [List.getD_cons_succ, show e + (j + 1) = e + 1 + j by omega]
        obtain ⟨a, b⟩ := ih (e + 1) (low + 1) high j (by omega)
        exact ⟨a, fun h' => by have := b h'; omega⟩

theorem onF_eq_filter (F : List Nat) (cnt e : Nat) :
    onF F cnt e = ((List.range' e cnt).filter (fun x => decide (x ∈ F))).length := by
  induction cnt generalizing e with
  | zero => rfl
  | succ cnt ih =>
    unfold onF
    rw [List.range'_succ, List.filter_cons, ih (e + 1)]
    by_cases h : e ∈ F <;> simp [h] <;> omega

/-- a duplicate-free list of ids below `m` is counted exactly once by the numbering loop -/
theorem onF_full (F : List Nat) (m : Nat) (hnd : F.Nodup) (hlt : ∀ e ∈ F, e < m) :
    onF F m 0 = F.length := by
  rw [onF_eq_filter]
  apply List.Perm.length_eq
  rw [List.perm_ext_iff_of_nodup (List.filter_sublist.nodup (List.nodup_range' 1)) hnd]
  intro a
  rw [List.mem_filter, List.mem_range'_1]
  simp only [decide_eq_true_eq]
  constructor
  · exact fun h => h.2
  · exact fun h => ⟨⟨Nat.zero_le _, by have := hlt a h; omega⟩, h⟩

theorem nodup_length_le (F : List Nat) (m : Nat) (hnd : F.Nodup) (hlt : ∀ e ∈ F, e < m) :
    F.length ≤ m := by
  have := onF_full F m hnd hlt
  have := onF_add_offF F m 0
  omega

theorem index_perm (F : List Nat) (m : Nat) (hnd : F.Nodup) (hlt : ∀ e ∈ F, e < m) :
    (numberEdges F m 0 0 (m - F.length)).Perm (List.range m) := by
  have h1 := onF_full F m hnd hlt
  have h2 := onF_add_offF F m 0
  have h3 : m - F.length = 0 + 1 * offF F m 0 := by omega
  have := numberEdges_perm F m 0 0 (m - F.length)
  rw [h3, List.range'_append, Nat.add_comm (offF F m 0), h2, ← List.range_eq_range', ← h3] at this
  exact this

theorem index_split (F : List Nat) (m e : Nat) (hnd : F.Nodup) (hlt : ∀ e ∈ F, e < m) (he : e < m) :
    (e ∈ F → m - F.length ≤ (numberEdges F m 0 0 (m - F.length)).getD e 0) ∧
    (e ∉ F → (numberEdges F m 0 0 (m - F.length)).getD e 0 < m - F.length) := by
  have h1 := onF_full F m hnd hlt
  have h2 := onF_add_offF F m 0
  obtain ⟨a, b⟩ := numberEdges_getD F m 0 0 (m - F.length) e he
  rw [Nat.zero_add] at a b
  exact ⟨a, fun h => by have := b h; omega⟩

/-! ### inverting a duplicate-free list -/

theorem indexOfNat_getElem (l : List Nat) (hnd : l.Nodup) (i : Nat) (h : i < l.length) :
    indexOfNat l l[i] = i := hnd.idxOf_getElem i h

theorem indexOfNat_lt (l : List Nat) (x : Nat) (h : x ∈ l) : indexOfNat l x < l.length :=
  List.idxOf_lt_length_of_mem h

theorem getElem_indexOfNat (l : List Nat) (x : Nat) (h : x ∈ l) :
    l[indexOfNat l x]'(indexOfNat_lt l x h) = x :=
  List.getElem_idxOf (indexOfNat_lt l x h)

/-- a permutation of `0 … m-1` and its pointwise inverse -/
theorem perm_inverse (l : List Nat) (m : Nat) (hp : l.Perm (List.range m)) :
    (∀ e, e < m → l.getD e 0 < m ∧
      ((List.range m).map (fun i => indexOfNat l i)).getD (l.getD e 0) 0 = e) ∧
    (∀ i, i < m → ((List.range m).map (fun i => indexOfNat l i)).getD i 0 < m ∧
      l.getD (((List.range m).map (fun i => indexOfNat l i)).getD i 0) 0 = i) := by
  have hlen : l.length = m := by simpa using hp.length_eq
  have hnd : l.Nodup := hp.nodup_iff.2 List.nodup_range
  have hrev : ∀ i, i < m → ((List.range m).map (fun i => indexOfNat l i)).getD i 0 = indexOfNat l i := by
    intro i hi
    rw [getD_eq_getElem' _ _ _ (by simpa using hi)]
    simp
  constructor
  · intro e he
    have he' : e < l.length := by omega
    rw [getD_eq_getElem' l e 0 he']
    have hlt : l[e] < m := List.mem_range.1 (hp.mem_iff.1 (List.getElem_mem he'))
    exact ⟨hlt, by rw [hrev _ hlt]; exact indexOfNat_getElem l hnd e he'⟩
  · intro i hi
    have hmem : i ∈ l := hp.mem_iff.2 (List.mem_range.2 hi)
    have hlt := indexOfNat_lt l i hmem
    rw [hrev i hi]
    refine ⟨by omega, ?_⟩
    rw [getD_eq_getElem' l _ 0 hlt]
    exact getElem_indexOfNat l i hmem

/-! ### `createIndex` unfolded -/

theorem createIndex_eq (g : Graph) (order : List Nat) : createIndex g order =
    { n := g.n, m := g.m, k := (spanningForest g order).2,
      index := numberEdges (spanningForest g order).1 g.m 0 0 (g.m + (spanningForest g order).2 - g.n),
      reverse := (List.range g.m).map (fun i => indexOfNat
        (numberEdges (spanningForest g order).1 g.m 0 0 (g.m + (spanningForest g order).2 - g.n)) i),
      forest := (spanningForest g order).1 } := rfl

theorem forest_facts (g : Graph) (order : List Nat) (hs : g.simpleB = true)
    (ho : order.Perm (List.range g.n)) :
    (spanningForest g order).1.Nodup ∧ (∀ e ∈ (spanningForest g order).1, e < g.m) ∧
    (spanningForest g order).1.length + (spanningForest g order).2 = g.n ∧
    (spanningForest g order).1.length ≤ g.m ∧
    g.m + (spanningForest g order).2 - g.n = g.m - (spanningForest g order).1.length := by
  have h := spanningForest_inv g order hs ho
  have hlt : ∀ e ∈ (spanningForest g order).1, e < g.m := fun e he => (h.acc_ok e he).1
  have hle := nodup_length_le _ g.m h.acc_nd hlt
  have hc := h.card
  simp only [List.length_nil, Nat.add_zero] at hc
  exact ⟨h.acc_nd, hlt, hc, hle, by omega⟩

theorem ci_index (g : Graph) (order : List Nat) (hs : g.simpleB = true)
    (ho : order.Perm (List.range g.n)) : (createIndex g order).index =
      numberEdges (spanningForest g order).1 g.m 0 0 (g.m - (spanningForest g order).1.length) := by
  rw [createIndex_eq, (forest_facts g order hs ho).2.2.2.2]

theorem ci_reverse (g : Graph) (order : List Nat) : (createIndex g order).reverse =
    (List.range g.m).map (fun i => indexOfNat (createIndex g order).index i) := rfl

theorem ci_dim (g : Graph) (order : List Nat) (hs : g.simpleB = true)
    (ho : order.Perm (List.range g.n)) :
    (createIndex g order).dim = g.m - (spanningForest g order).1.length := by
  rw [← (forest_facts g order hs ho).2.2.2.2]; rfl

theorem ci_index_perm (g : Graph) (order : List Nat) (hs : g.simpleB = true)
    (ho : order.Perm (List.range g.n)) : (createIndex g order).index.Perm (List.range g.m) := by
  rw [ci_index g order hs ho]
  have h := forest_facts g order hs ho
  exact index_perm _ g.m h.1 h.2.1

theorem ci_split (g : Graph) (order : List Nat) (hs : g.simpleB = true)
    (ho : order.Perm (List.range g.n)) (e : Nat) (he : e < g.m) :
    (e ∈ (spanningForest g order).1 → (createIndex g order).dim ≤ (createIndex g order).index.getD e 0) ∧
    (e ∉ (spanningForest g order).1 → (createIndex g order).index.getD e 0 < (createIndex g order).dim) := by
  rw [ci_index g order hs ho, ci_dim g order hs ho]
  have h := forest_facts g order hs ho
  exact index_split _ g.m e h.1 h.2.1 he

/-! ### transport along the renumbering -/

theorem par_perm {l l' : List Nat} (h : l.Perm l') (f : Nat → Bool) : par l f = par l' f := by
  induction h with
  | nil => rfl
  | cons x _ ih => simp only [par_cons, ih]
  | swap x y l =>
    simp only [par_cons]
    cases f x <;> cases f y <;> cases par l f <;> rfl
  | trans _ _ ih1 ih2 => rw [ih1, ih2]

theorem par_map (l : List Nat) (φ : Nat → Nat) (f : Nat → Bool) :
    par (l.map φ) f = par l (fun e => f (φ e)) := by
  induction l with
  | nil => rfl
  | cons x l ih => simp only [List.map_cons, par_cons, ih]

theorem nodup_map_of_inj_on (l : List Nat) (φ : Nat → Nat) (hnd : l.Nodup)
    (hinj : ∀ a ∈ l, ∀ b ∈ l, φ a = φ b → a = b) : (l.map φ).Nodup := by
  induction l with
  | nil => exact List.nodup_nil
  | cons x l ih =>
    have hnd' := List.nodup_cons.1 hnd
    rw [List.map_cons, List.nodup_cons]
    constructor
    · intro hm
      obtain ⟨y, hy, hxy⟩ := List.mem_map.1 hm
      have := hinj y (List.mem_cons_of_mem _ hy) x List.mem_cons_self hxy
      subst this
      exact hnd'.1 hy
    · exact ih hnd'.2 (fun a ha b hb => hinj a (List.mem_cons_of_mem _ ha) b (List.mem_cons_of_mem _ hb))

/-- renaming the edges of a cycle-space element by a map that is injective on it and preserves
endpoints gives a cycle-space element -/
theorem evenSet_transport (g g' : Graph) (φ : Nat → Nat) (Z : List Nat) (hZ : EvenSet g Z)
    (hinj : ∀ a ∈ Z, ∀ b ∈ Z, φ a = φ b → a = b)
    (hφ : ∀ e ∈ Z, φ e < g'.m ∧ g'.src (φ e) = g.src e ∧ g'.tgt (φ e) = g.tgt e) :
    EvenSet g' (setOf (Z.map φ)) := by
  refine ⟨setOf_sorted _, ?_, ?_⟩
  · intro e he
    obtain ⟨f, hf, rfl⟩ := List.mem_map.1 ((mem_setOf _ _).1 he)
    exact (hφ f hf).1
  · intro v
    have hperm : (setOf (Z.map φ)).Perm (Z.map φ) := by
      rw [List.perm_ext_iff_of_nodup (setOf_sorted _).nodup (nodup_map_of_inj_on Z φ hZ.1.nodup hinj)]
      exact mem_setOf _
    rw [par_perm hperm, par_map, ← hZ.2.2 v]
    apply par_congr
    intro e he
    obtain ⟨_, h1, h2⟩ := hφ e he
    unfold Graph.inc
    rw [h1, h2]

theorem reindex_m (g : Graph) (fi : ForestIdx) : (reindex g fi).m = fi.reverse.length := by
  simp [reindex, Graph.m]

theorem reindex_edge (g : Graph) (fi : ForestIdx) (i : Nat) (hi : i < fi.reverse.length) :
    (reindex g fi).edges.getD i (0, 0, 0) = g.edges.getD (fi.reverse.getD i 0) (0, 0, 0) := by
  rw [getD_eq_getElem' _ _ _ (by simpa [reindex] using hi), getD_eq_getElem' _ _ _ hi]
  simp [reindex]

theorem reindex_src (g : Graph) (fi : ForestIdx) (i : Nat) (hi : i < fi.reverse.length) :
    (reindex g fi).src i = g.src (fi.reverse.getD i 0) := by
  unfold Graph.src; rw [reindex_edge g fi i hi]

theorem reindex_tgt (g : Graph) (fi : ForestIdx) (i : Nat) (hi : i < fi.reverse.length) :
    (reindex g fi).tgt i = g.tgt (fi.reverse.getD i 0) := by
  unfold Graph.tgt; rw [reindex_edge g fi i hi]

theorem reindex_weight (g : Graph) (fi : ForestIdx) (i : Nat) (hi : i < fi.reverse.length) :
    (reindex g fi).weight i = g.weight (fi.reverse.getD i 0) := by
  unfold Graph.weight; rw [reindex_edge g fi i hi]

theorem simpleB_iff (g : Graph) : g.simpleB = true ↔ ∀ x, x < g.m →
    ((g.src x < g.n ∧ g.tgt x < g.n) ∧ g.src x ≠ g.tgt x) ∧
      ∀ y, y < x → (g.src y = g.src x → g.tgt y ≠ g.tgt x) ∧ (g.src y = g.tgt x → g.tgt y ≠ g.src x) := by
  unfold Graph.simpleB
  simp only [List.all_eq_true, List.mem_range, Bool.and_eq_true, decide_eq_true_eq,
    Bool.not_eq_true', Bool.or_eq_false_iff, Bool.and_eq_false_imp, beq_iff_eq, beq_eq_false_iff_ne]

theorem simple_distinct (g : Graph) (hs : g.simpleB = true) (e f : Nat) (he : e < g.m) (hf : f < g.m)
    (hef : f ≠ e) :
    (g.src f = g.src e → g.tgt f ≠ g.tgt e) ∧ (g.src f = g.tgt e → g.tgt f ≠ g.src e) := by
  have h := (simpleB_iff g).1 hs
  rcases Nat.lt_or_gt_of_ne hef with hlt | hlt
  · exact (h e he).2 f hlt
  · obtain ⟨a, b⟩ := (h f hf).2 e hlt
    exact ⟨fun h1 h2 => a h1.symm h2.symm, fun h1 h2 => b h2.symm h1.symm⟩

theorem positiveB_iff (g : Graph) : g.positiveB = true ↔ ∀ e, e < g.m → 0 < g.weight e := by
  unfold Graph.positiveB
  simp only [List.all_eq_true, List.mem_range, decide_eq_true_eq]

/-- C16, last part: in ForestIndex coordinates the graph is in the exact domain -/
theorem exact_domain (g : Graph) (order : List Nat) (hs : g.simpleB = true) (hp : g.positiveB = true)
    (ho : order.Perm (List.range g.n)) :
    ExactDomain (reindex g (createIndex g order)) (createIndex g order).dim := by
  have hinv := spanningForest_inv g order hs ho
  have hff := forest_facts g order hs ho
  have hbij := perm_inverse _ g.m (ci_index_perm g order hs ho)
  rw [← ci_reverse] at hbij
  obtain ⟨hι, hρ⟩ := hbij
  have hsplit := ci_split g order hs ho
  have hdim := ci_dim g order hs ho
  have hlen : (createIndex g order).reverse.length = g.m := by rw [ci_reverse]; simp
  have hm : (reindex g (createIndex g order)).m = g.m := by rw [reindex_m, hlen]
  have hsrc : ∀ i, i < g.m → (reindex g (createIndex g order)).src i =
      g.src ((createIndex g order).reverse.getD i 0) :=
    fun i hi => reindex_src g _ i (by omega)
  have htgt : ∀ i, i < g.m → (reindex g (createIndex g order)).tgt i =
      g.tgt ((createIndex g order).reverse.getD i 0) :=
    fun i hi => reindex_tgt g _ i (by omega)
  have hρinj : ∀ a, a < g.m → ∀ b, b < g.m →
      (createIndex g order).reverse.getD a 0 = (createIndex g order).reverse.getD b 0 → a = b := by
    intro a ha b hb hab
    rw [← (hρ a ha).2, ← (hρ b hb).2, hab]
  have hιinj : ∀ a, a < g.m → ∀ b, b < g.m →
      (createIndex g order).index.getD a 0 = (createIndex g order).index.getD b 0 → a = b := by
    intro a ha b hb hab
    rw [← (hι a ha).2, ← (hι b hb).2, hab]
  have hNle : (createIndex g order).dim ≤ g.m := by omega
  refine ⟨?_, ?_, by omega, ?_, ?_⟩
  · -- simple
    rw [simpleB_iff, hm]
    intro x hx
    obtain ⟨hx1, hx2⟩ := hρ x hx
    obtain ⟨a, b, c⟩ := simpleB_facts g hs _ hx1
    rw [hsrc x hx, htgt x hx]
    refine ⟨⟨⟨a, b⟩, c⟩, ?_⟩
    intro y hy
    have hym : y < g.m := by omega
    rw [hsrc y hym, htgt y hym]
    have hne : (createIndex g order).reverse.getD y 0 ≠ (createIndex g order).reverse.getD x 0 := by
      intro heq
      have := hρinj y hym x hx heq
      omega
    exact simple_distinct g hs _ _ hx1 (hρ y hym).1 hne
  · -- positive
    rw [positiveB_iff, hm]
    intro e he
    rw [reindex_weight g _ e (by omega)]
    exact positiveB_facts g hp _ (hρ e he).1
  · -- forest ids are acyclic
    intro Z hZ hsub
    have hZm : ∀ i ∈ Z, i < g.m := fun i hi => hm ▸ hZ.2.1 i hi
    have hT := evenSet_transport (reindex g (createIndex g order)) g
      (fun i => (createIndex g order).reverse.getD i 0) Z hZ
      (fun a ha b hb hab => hρinj a (hZm a ha) b (hZm b hb) hab)
      (fun i hi => ⟨(hρ i (hZm i hi)).1, (hsrc i (hZm i hi)).symm, (htgt i (hZm i hi)).symm⟩)
    have hall : ∀ f ∈ setOf (Z.map fun i => (createIndex g order).reverse.getD i 0),
        f ∈ (spanningForest g order).1 := by
      intro f hf
      obtain ⟨i, hi, rfl⟩ := List.mem_map.1 ((mem_setOf _ _).1 hf)
      apply Classical.byContradiction
      intro hn
      have h1 := (hsplit _ (hρ i (hZm i hi)).1).2 hn
      rw [(hρ i (hZm i hi)).2] at h1
      have h2 := (List.mem_range'_1.1 (hsub i hi)).1
      omega
    have hnil := hinv.acyc _ hT hall
    cases Z with
    | nil => rfl
    | cons z Z =>
      have : (createIndex g order).reverse.getD z 0 ∈
          setOf ((z :: Z).map fun i => (createIndex g order).reverse.getD i 0) :=
        (mem_setOf _ _).2 (List.mem_map.2 ⟨z, List.mem_cons_self, rfl⟩)
      rw [hnil] at this
      cases this
  · -- fundamental cycles
    intro e' he'
    have he'm : e' < g.m := by omega
    obtain ⟨hem, hie⟩ := hρ e' he'm
    have hnotin : (createIndex g order).reverse.getD e' 0 ∉ (spanningForest g order).1 := by
      intro hin
      have := (hsplit _ hem).1 hin
      rw [hie] at this
      omega
    obtain ⟨Z, hZ, heZ, hZsub⟩ := Conn.closes g _ _ hem (fun f hf => (hinv.acc_ok f hf).1) hnotin
      (hinv.closed _ hem (Or.inl (by simp))).2.2
    have hZm : ∀ f ∈ Z, f < g.m := hZ.2.1
    have hT := evenSet_transport g (reindex g (createIndex g order))
      (fun f => (createIndex g order).index.getD f 0) Z hZ
      (fun a ha b hb hab => hιinj a (hZm a ha) b (hZm b hb) hab)
      (fun f hf => by
        obtain ⟨h1, h2⟩ := hι f (hZm f hf)
        exact ⟨by rw [hm]; exact h1, by rw [hsrc _ h1, h2], by rw [htgt _ h1, h2]⟩)
    refine ⟨_, hT, ?_, ?_⟩
    · rw [mem_setOf]
      exact List.mem_map.2 ⟨_, heZ, hie⟩
    · intro f' hf'
      obtain ⟨f, hf, rfl⟩ := List.mem_map.1 ((mem_setOf _ _).1 hf')
      rcases hZsub f hf with h | h
      · left; rw [h]; exact hie
      · right; exact (hsplit f (hZm f hf)).1 h

end Parmcb
