import Parmcb.Lemmas.Float
/-!
# The returned value on inexact weights (C09): a double accumulation of double accumulations

`mcb_weight` is `fsum` of the per-phase weights, each of which is itself an `fsum` of edge weights.  Two nested
relative errors of 2^-32 give a relative error below 2^-30.
-/
namespace Parmcb.Float

/-- an accumulated sum of non-negative terms is non-negative (same statement as `fsum_nonneg` of Lemmas/FloatCert.lean,
reproved here so that this file depends on Lemmas/Float.lean only) -/
theorem fsum_nonneg_ret (ws : List Int) (hpos : ∀ w ∈ ws, 0 ≤ w) : 0 ≤ fsum ws := by
  unfold fsum
  suffices ∀ acc : Int, 0 ≤ acc → 0 ≤ ws.foldl fadd acc from this 0 (Int.le_refl _)
  induction ws with
  | nil => intro acc h; exact h
  | cons w ws ih =>
    intro acc h
    rw [List.foldl_cons]
    apply ih (fun v hv => hpos v (List.mem_cons_of_mem _ hv))
    unfold fadd
    exact rnd_nonneg (by have := hpos w (List.mem_cons_self ..); omega)

/-- the exact sum of the computed per-phase weights is within `1 ± 2^-32` of the exact total -/
theorem phases_sum_bounds (phases : List (List Int)) (hpos : ∀ ws ∈ phases, ∀ w ∈ ws, 0 ≤ w)
    (hlen : ∀ ws ∈ phases, ws.length ≤ 2 ^ 20) :
    0 ≤ (phases.map List.sum).sum ∧
    (2 ^ 32 - 1) * (phases.map List.sum).sum ≤ 2 ^ 32 * (phases.map fsum).sum ∧
    2 ^ 32 * (phases.map fsum).sum ≤ (2 ^ 32 + 1) * (phases.map List.sum).sum := by
  induction phases with
  | nil => simp
  | cons ws rest ih =>
    obtain ⟨h0, h1, h2⟩ := ih (fun v hv => hpos v (List.mem_cons_of_mem _ hv))
      (fun v hv => hlen v (List.mem_cons_of_mem _ hv))
    have hr := fsum_rel ws (hpos ws (List.mem_cons_self ..)) (hlen ws (List.mem_cons_self ..))
    have hS := sum_nonneg_of ws (hpos ws (List.mem_cons_self ..))
    simp only [List.map_cons, List.sum_cons]
    generalize fsum ws = F at *
    generalize ws.sum = S at *
    generalize (rest.map List.sum).sum = T at *
    generalize (rest.map fsum).sum = C at *
    omega

/-- the returned double: within a relative 2^-30 of the exact total weight -/
theorem fsum_fsum_rel (phases : List (List Int)) (hpos : ∀ ws ∈ phases, ∀ w ∈ ws, 0 ≤ w)
    (hlen : ∀ ws ∈ phases, ws.length ≤ 2 ^ 20) (hN : phases.length ≤ 2 ^ 20) :
    2 ^ 30 * (fsum (phases.map fsum) - (phases.map List.sum).sum).natAbs ≤ ((phases.map List.sum).sum).natAbs := by
  obtain ⟨h0, h1, h2⟩ := phases_sum_bounds phases hpos hlen
  have hcpos : ∀ c ∈ phases.map fsum, 0 ≤ c := by
    intro c hc
    obtain ⟨ws, hws, rfl⟩ := List.mem_map.mp hc
    exact fsum_nonneg_ret ws (hpos ws hws)
  have hr := fsum_rel (phases.map fsum) hcpos (by rw [List.length_map]; exact hN)
  have hC := sum_nonneg_of _ hcpos
  generalize fsum (phases.map fsum) = F at *
  generalize (phases.map List.sum).sum = T at *
  generalize (phases.map fsum).sum = C at *
  omega

end Parmcb.Float
