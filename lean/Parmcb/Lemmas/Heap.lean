import Parmcb.Model.Heap
/-!
The literal 4-ary indirect heap (`Model/Heap.lean`): heap order is an invariant of push / pop / decrease-key, the root
carries a minimum key, and the operations change the contents as they should (as multisets).  Core Lean only.
-/
namespace Parmcb

/-- heap order: no element has a smaller key than its parent -/
def HeapOK (dist : Array (Option Int)) (h : Array Nat) : Prop :=
  ∀ i, 0 < i → i < h.size → keyOf dist h[(i - 1) / 4]! ≤ keyOf dist h[i]!

/-- keys of the elements of `h` are the same under both distance maps -/
def SameKeys (dist dist' : Array (Option Int)) (h : Array Nat) : Prop :=
  ∀ x ∈ h.toList, keyOf dist' x = keyOf dist x

namespace HeapL

theorem get_set_nat (a : Array Nat) (i j : Nat) (x : Nat) :
    (a.set! i x)[j]! = if i = j ∧ i < a.size then x else a[j]! := by
  simp only [Array.set!, Array.getElem!_eq_getD, Array.getD_eq_getD_getElem?, Array.getElem?_setIfInBounds]
  by_cases h : i = j
  · subst h
    by_cases h2 : i < a.size
    · simp [h2]
    · simp [h2]
  · simp [h]

theorem size_set_nat (a : Array Nat) (i : Nat) (x : Nat) : (a.set! i x).size = a.size := by
  simp [Array.set!]

theorem get_push_nat (a : Array Nat) (v j : Nat) :
    (a.push v)[j]! = if j = a.size then v else a[j]! := by
  simp only [Array.getElem!_eq_getD, Array.getD_eq_getD_getElem?, Array.getElem?_push]
  split <;> simp

theorem get_pop_nat (a : Array Nat) (j : Nat) (hj : j < a.size - 1) : a.pop[j]! = a[j]! := by
  simp only [Array.getElem!_eq_getD, Array.getD_eq_getD_getElem?, Array.getElem?_pop, if_pos hj]

theorem get_mem_nat (a : Array Nat) (i : Nat) (hi : i < a.size) : a[i]! ∈ a.toList := by
  rw [getElem!_pos a i hi]
  exact Array.mem_toList_iff.2 (Array.getElem_mem hi)

theorem mem_get_nat (a : Array Nat) (x : Nat) (hx : x ∈ a.toList) : ∃ i, i < a.size ∧ a[i]! = x := by
  obtain ⟨i, hi, h⟩ := List.mem_iff_getElem.1 hx
  have hi' : i < a.size := by simpa using hi
  exact ⟨i, hi', by rw [getElem!_pos a i hi']; simpa using h⟩

theorem swap_perm_nat (h : Array Nat) (i j : Nat) (hi : i < h.size) (hj : j < h.size) :
    ((h.set! i h[j]!).set! j h[i]!).toList.Perm h.toList := by
  have : (h.set! i h[j]!).set! j h[i]! = h.swap i j hi hj := by
    rw [Array.swap_def]
    simp [Array.set!, getElem!_pos, hi, hj, Array.setIfInBounds]
  rw [this]
  exact (Array.swap_perm hi hj).toList


theorem ext_nat (a b : Array Nat) (hs : a.size = b.size) (hg : ∀ i, i < a.size → a[i]! = b[i]!) : a = b := by
  apply Array.ext hs
  intro i h1 h2
  have := hg i h1
  rwa [getElem!_pos a i h1, getElem!_pos b i h2] at this

theorem set_self_nat (h : Array Nat) (i : Nat) : h.set! i h[i]! = h := by
  apply ext_nat _ _ (size_set_nat _ _ _)
  intro j _
  rw [get_set_nat]
  split
  · rename_i hh; rw [hh.1]
  · rfl

/-! ### sift up -/

theorem siftUpAux_perm (dist : Array (Option Int)) (moved : Nat) (fuel : Nat) (h : Array Nat) (i : Nat)
    (hi : i < h.size) : (siftUpAux dist moved fuel h i).toList.Perm (h.set! i moved).toList := by
  induction fuel generalizing h i with
  | zero => exact List.Perm.refl _
  | succ fuel ih =>
    unfold siftUpAux
    split
    · exact List.Perm.refl _
    · rename_i hi0
      simp only []
      split
      · have hp : (i - 1) / 4 < i := by omega
        refine (ih (h.set! i h[(i - 1) / 4]!) ((i - 1) / 4) (by rw [size_set_nat]; omega)).trans ?_
        have hsw := swap_perm_nat (h.set! i moved) i ((i - 1) / 4) (by rw [size_set_nat]; exact hi)
          (by rw [size_set_nat]; omega)
        have e : ((h.set! i moved).set! i (h.set! i moved)[(i - 1) / 4]!).set! ((i - 1) / 4) (h.set! i moved)[i]!
            = (h.set! i h[(i - 1) / 4]!).set! ((i - 1) / 4) moved := by
          apply ext_nat
          · simp only [size_set_nat]
          · intro j _
            simp only [get_set_nat, size_set_nat]
            by_cases h1 : (i - 1) / 4 = j
            · have : ¬ i = j := by omega
              have h3 : ¬ i = (i - 1) / 4 := by omega
              have h4 : (i - 1) / 4 < h.size := by omega
              simp [h1, hi, h1 ▸ h4]
            · by_cases h2 : i = j
              · have h3 : ¬ i = (i - 1) / 4 := by omega
                simp [h2, h2 ▸ hi, h2 ▸ h3]
              · simp [h1, h2]
        rw [e] at hsw
        exact hsw
      · exact List.Perm.refl _

theorem siftUp_perm (dist : Array (Option Int)) (h : Array Nat) (i : Nat) (hi : i < h.size) :
    (siftUp dist h i).toList.Perm h.toList := by
  unfold siftUp
  split
  · exact List.Perm.refl _
  · have := siftUpAux_perm dist h[i]! (i + 1) h i hi
    rwa [set_self_nat] at this


theorem place_ok (dist : Array (Option Int)) (moved : Nat) (h : Array Nat) (i : Nat) (hi : i < h.size)
    (hA : ∀ c, 0 < c → c < h.size → c ≠ i → (c - 1) / 4 ≠ i → keyOf dist h[(c - 1) / 4]! ≤ keyOf dist h[c]!)
    (hB : ∀ c, 0 < c → c < h.size → (c - 1) / 4 = i → keyOf dist moved ≤ keyOf dist h[c]!)
    (hP : 0 < i → keyOf dist h[(i - 1) / 4]! ≤ keyOf dist moved) :
    HeapOK dist (h.set! i moved) := by
  intro c hc0 hcs
  rw [size_set_nat] at hcs
  rw [get_set_nat, get_set_nat]
  by_cases h1 : c = i
  · subst h1
    have : ¬ (c = (c - 1) / 4) := by omega
    simp only [this, false_and, if_false, true_and, hi, if_true]
    exact hP hc0
  · by_cases h2 : (c - 1) / 4 = i
    · have h3 : ¬ i = c := by omega
      simp only [h2, true_and, hi, if_true, h3, false_and, if_false]
      exact hB c hc0 hcs h2
    · have h3 : ¬ i = c := by omega
      have h4 : ¬ i = (c - 1) / 4 := by omega
      simp only [h3, h4, false_and, if_false]
      exact hA c hc0 hcs h1 h2

theorem siftUpAux_ok (dist : Array (Option Int)) (moved : Nat) (fuel : Nat) (h : Array Nat) (i : Nat)
    (hfuel : i < fuel) (hi : i < h.size)
    (hA : ∀ c, 0 < c → c < h.size → c ≠ i → (c - 1) / 4 ≠ i → keyOf dist h[(c - 1) / 4]! ≤ keyOf dist h[c]!)
    (hB : ∀ c, 0 < c → c < h.size → (c - 1) / 4 = i → keyOf dist moved ≤ keyOf dist h[c]!)
    (hC : 0 < i → ∀ c, 0 < c → c < h.size → (c - 1) / 4 = i →
      keyOf dist h[(i - 1) / 4]! ≤ keyOf dist h[c]!) :
    HeapOK dist (siftUpAux dist moved fuel h i) := by
  induction fuel generalizing h i with
  | zero => omega
  | succ fuel ih =>
    unfold siftUpAux
    split
    · exact place_ok dist moved h i hi hA hB (by omega)
    · rename_i hi0
      simp only []
      split
      · rename_i hlt
        have hp : (i - 1) / 4 < i := by omega
        have hget : ∀ j, (h.set! i h[(i - 1) / 4]!)[j]! = if i = j then h[(i - 1) / 4]! else h[j]! := by
          intro j; rw [get_set_nat]; simp only [hi, and_true]
        apply ih (h.set! i h[(i - 1) / 4]!) ((i - 1) / 4) (by omega) (by rw [size_set_nat]; omega)
        · intro c hc0 hcs h1 h2
          rw [size_set_nat] at hcs
          rw [hget, hget]
          by_cases h3 : c = i
          · subst h3; exact absurd rfl h2
          · by_cases h4 : (c - 1) / 4 = i
            · have h5 : ¬ i = c := by omega
              simp only [h4, if_true, h5, if_false]
              exact hC (by omega) c hc0 hcs h4
            · have h5 : ¬ i = c := by omega
              have h6 : ¬ i = (c - 1) / 4 := by omega
              simp only [h5, h6, if_false]
              exact hA c hc0 hcs h3 h4
        · intro c hc0 hcs h1
          rw [size_set_nat] at hcs
          rw [hget]
          by_cases h3 : i = c
          · subst h3; simp only [if_true]; omega
          · simp only [h3, if_false]
            have := hA c hc0 hcs (by omega) (by omega)
            rw [h1] at this
            omega
        · intro hp0 c hc0 hcs h1
          rw [size_set_nat] at hcs
          rw [hget, hget]
          have h2 : ¬ i = ((i - 1) / 4 - 1) / 4 := by omega
          simp only [h2, if_false]
          have hpp := hA ((i - 1) / 4) hp0 (by omega) (by omega) (by omega)
          by_cases h3 : i = c
          · subst h3; simp only [if_true]
            exact hpp
          · simp only [h3, if_false]
            have := hA c hc0 hcs (by omega) (by omega)
            rw [h1] at this
            omega
      · rename_i hnlt
        exact place_ok dist moved h i hi hA hB (fun _ => by omega)

theorem heapOK_congr (dist dist' : Array (Option Int)) (h : Array Nat) (hk : SameKeys dist dist' h)
    (ok : HeapOK dist h) : HeapOK dist' h := by
  intro i hi0 his
  rw [hk _ (get_mem_nat h i his), hk _ (get_mem_nat h ((i - 1) / 4) (by omega))]
  exact ok i hi0 his

theorem top_min_idx (dist : Array (Option Int)) (h : Array Nat) (ok : HeapOK dist h) (i : Nat) (hi : i < h.size) :
    keyOf dist h[0]! ≤ keyOf dist h[i]! := by
  induction i using Nat.strongRecOn with
  | _ i ih =>
    by_cases h0 : i = 0
    · subst h0; exact Int.le_refl _
    · have h1 := ih ((i - 1) / 4) (by omega) (by omega)
      have h2 := ok i (by omega) hi
      omega

/-- the root carries a minimum key -/
theorem top_min (dist : Array (Option Int)) (h : Array Nat) (ok : HeapOK dist h) :
    ∀ x ∈ h.toList, keyOf dist h[0]! ≤ keyOf dist x := by
  intro x hx
  obtain ⟨i, hi, rfl⟩ := mem_get_nat h x hx
  exact top_min_idx dist h ok i hi

theorem push_perm (dist : Array (Option Int)) (h : Array Nat) (v : Nat) :
    (heapPush dist h v).toList.Perm (v :: h.toList) := by
  unfold heapPush
  refine (siftUp_perm dist (h.push v) h.size (by simp)).trans ?_
  rw [Array.toList_push]
  exact List.perm_append_comm

theorem push_ok (dist : Array (Option Int)) (h : Array Nat) (v : Nat) (ok : HeapOK dist h) :
    HeapOK dist (heapPush dist h v) := by
  unfold heapPush siftUp
  split
  · rename_i h0
    intro i hi0 his
    simp only [Array.size_push] at his
    omega
  · apply siftUpAux_ok
    · omega
    · simp
    · intro c hc0 hcs h1 h2
      simp only [Array.size_push] at hcs
      rw [get_push_nat, get_push_nat, if_neg (by omega), if_neg (by omega)]
      exact ok c hc0 (by omega)
    · intro c hc0 hcs h1
      simp only [Array.size_push] at hcs
      omega
    · intro _ c hc0 hcs h1
      simp only [Array.size_push] at hcs
      omega

/-! ### sift down -/

theorem smallestChild_spec (dist : Array (Option Int)) (h : Array Nat) (fc cnt : Nat) :
    (smallestChild dist h fc cnt = 0 ∨ smallestChild dist h fc cnt < cnt) ∧
    ∀ j, j < cnt → keyOf dist h[fc + smallestChild dist h fc cnt]! ≤ keyOf dist h[fc + j]! := by
  induction cnt with
  | zero => exact ⟨Or.inl rfl, fun j hj => by omega⟩
  | succ n ih =>
    have e : smallestChild dist h fc (n + 1) =
        if keyOf dist h[fc + n]! < keyOf dist h[fc + smallestChild dist h fc n]! then n
        else smallestChild dist h fc n := by
      unfold smallestChild
      rw [List.range_succ, List.foldl_append]
      rfl
    rw [e]
    obtain ⟨ih1, ih2⟩ := ih
    split
    · rename_i hlt
      refine ⟨Or.inr (by omega), ?_⟩
      intro j hj
      by_cases hjn : j = n
      · subst hjn; exact Int.le_refl _
      · have := ih2 j (by omega); omega
    · rename_i hnlt
      refine ⟨by omega, ?_⟩
      intro j hj
      by_cases hjn : j = n
      · subst hjn; omega
      · exact ih2 j (by omega)

theorem siftDownAux_perm (dist : Array (Option Int)) (fuel : Nat) (h : Array Nat) (index : Nat) :
    (siftDownAux dist fuel h index).toList.Perm h.toList := by
  induction fuel generalizing h index with
  | zero => exact List.Perm.refl _
  | succ fuel ih =>
    unfold siftDownAux
    simp only []
    split
    · exact List.Perm.refl _
    · rename_i hfc
      generalize hcd : (if 4 * index + 1 + 4 ≤ h.size then 4 else h.size - (4 * index + 1)) = cnt
      have hcnt : 0 < cnt ∧ 4 * index + 1 + cnt ≤ h.size := by rw [← hcd]; split <;> omega
      have hs := (smallestChild_spec dist h (4 * index + 1) cnt).1
      generalize smallestChild dist h (4 * index + 1) cnt = s at hs ⊢
      split
      · exact (ih _ _).trans (swap_perm_nat h index _ (by omega) (by omega))
      · exact List.Perm.refl _

theorem siftDownAux_ok (dist : Array (Option Int)) (fuel : Nat) (h : Array Nat) (index : Nat)
    (hfuel : h.size ≤ fuel + index)
    (hA : ∀ c, 0 < c → c < h.size → (c - 1) / 4 ≠ index → keyOf dist h[(c - 1) / 4]! ≤ keyOf dist h[c]!)
    (hC : 0 < index → ∀ c, 0 < c → c < h.size → (c - 1) / 4 = index →
      keyOf dist h[(index - 1) / 4]! ≤ keyOf dist h[c]!) :
    HeapOK dist (siftDownAux dist fuel h index) := by
  induction fuel generalizing h index with
  | zero =>
    intro c hc0 hcs
    exact hA c hc0 hcs (by simp only [siftDownAux] at hcs; omega)
  | succ fuel ih =>
    unfold siftDownAux
    simp only []
    split
    · intro c hc0 hcs
      exact hA c hc0 hcs (by omega)
    · rename_i hfc
      generalize hcd : (if 4 * index + 1 + 4 ≤ h.size then 4 else h.size - (4 * index + 1)) = cnt
      have hcnt : 0 < cnt ∧ cnt ≤ 4 ∧ 4 * index + 1 + cnt ≤ h.size ∧ (cnt = 4 ∨ 4 * index + 1 + cnt = h.size) := by
        rw [← hcd]; split <;> omega
      obtain ⟨hs1, hs2⟩ := smallestChild_spec dist h (4 * index + 1) cnt
      generalize smallestChild dist h (4 * index + 1) cnt = s at hs1 hs2 ⊢
      have hsc : 4 * index + 1 + s < h.size := by omega
      -- all children of `index` have a key ≥ the smallest child's
      have hmin : ∀ c, 0 < c → c < h.size → (c - 1) / 4 = index →
          keyOf dist h[4 * index + 1 + s]! ≤ keyOf dist h[c]! := by
        intro c hc0 hcs hp
        have := hs2 (c - (4 * index + 1)) (by omega)
        rwa [show 4 * index + 1 + (c - (4 * index + 1)) = c by omega] at this
      split
      · rename_i hlt
        have hg1 : ((h.set! index h[4 * index + 1 + s]!).set! (4 * index + 1 + s) h[index]!)[4 * index + 1 + s]!
            = h[index]! := by
          rw [get_set_nat, size_set_nat]; simp [hsc]
        have hg2 : ((h.set! index h[4 * index + 1 + s]!).set! (4 * index + 1 + s) h[index]!)[index]!
            = h[4 * index + 1 + s]! := by
          rw [get_set_nat, get_set_nat, size_set_nat]
          have h1 : ¬ 4 * index + 1 + s = index := by omega
          have h2 : index < h.size := by omega
          simp [h1, h2]
        have hg3 : ∀ j, j ≠ 4 * index + 1 + s → j ≠ index →
            ((h.set! index h[4 * index + 1 + s]!).set! (4 * index + 1 + s) h[index]!)[j]! = h[j]! := by
          intro j h1 h2
          rw [get_set_nat, get_set_nat, size_set_nat]
          have h3 : ¬ 4 * index + 1 + s = j := by omega
          have h4 : ¬ index = j := by omega
          simp [h3, h4]
        have hsz : ((h.set! index h[4 * index + 1 + s]!).set! (4 * index + 1 + s) h[index]!).size = h.size := by
          simp only [size_set_nat]
        generalize (h.set! index h[4 * index + 1 + s]!).set! (4 * index + 1 + s) h[index]! = g
          at hg1 hg2 hg3 hsz ⊢
        apply ih
        · omega
        · intro c hc0 hcs hp
          rw [hsz] at hcs
          by_cases h1 : c = 4 * index + 1 + s
          · have hpc : (c - 1) / 4 = index := by omega
            rw [hpc, hg2, h1, hg1]; omega
          · by_cases h2 : c = index
            · rw [hg3 ((c - 1) / 4) hp (by omega), h2, hg2]
              exact hC (by omega) _ (by omega) hsc (by omega)
            · rw [hg3 c h1 h2]
              by_cases h3 : (c - 1) / 4 = index
              · rw [h3, hg2]; exact hmin c hc0 hcs h3
              · rw [hg3 _ hp h3]; exact hA c hc0 hcs h3
        · intro _ c hc0 hcs hp
          rw [hsz] at hcs
          have h4 : (4 * index + 1 + s - 1) / 4 = index := by omega
          rw [h4, hg2, hg3 c (by omega) (by omega)]
          have := hA c hc0 hcs (by omega)
          rwa [hp] at this
      · rename_i hnlt
        intro c hc0 hcs
        by_cases hp : (c - 1) / 4 = index
        · have := hmin c hc0 hcs hp
          rw [hp]; omega
        · exact hA c hc0 hcs hp

theorem pop_perm (dist : Array (Option Int)) (h : Array Nat) (hne : 0 < h.size) :
    (h[0]! :: (heapPop dist h).toList).Perm h.toList := by
  unfold heapPop
  split
  · rename_i hsz
    obtain ⟨l⟩ := h
    match l, hne, hsz with
    | [a], _, _ => simp
  · rename_i hsz
    refine (List.Perm.cons _ (siftDownAux_perm dist _ _ 0)).trans ?_
    obtain ⟨l⟩ := h
    match l, hne, hsz with
    | a :: b :: t, _, _ =>
      simp [Array.set!, Array.setIfInBounds]
      have hm := List.dropLast_concat_getLast (l := b :: t) (by simp)
      rw [List.getLast_eq_getElem] at hm
      simp only [List.length_cons, Nat.add_sub_cancel] at hm
      exact (List.perm_append_comm (l₁ := [(b :: t)[t.length]]) (l₂ := (b :: t).dropLast)).trans
        (List.Perm.of_eq hm)

theorem pop_ok (dist : Array (Option Int)) (h : Array Nat) (ok : HeapOK dist h) :
    HeapOK dist (heapPop dist h) := by
  unfold heapPop
  split
  · intro i hi0 his
    simp at his
  · rename_i hsz
    have hsize : ((h.set! 0 h[h.size - 1]!).pop).size = h.size - 1 := by
      rw [Array.size_pop, size_set_nat]
    apply siftDownAux_ok
    · omega
    · intro c hc0 hcs hp
      rw [hsize] at hcs
      rw [get_pop_nat _ _ (by rw [size_set_nat]; omega), get_pop_nat _ _ (by rw [size_set_nat]; omega),
        get_set_nat, get_set_nat, if_neg (by omega), if_neg (by omega)]
      exact ok c hc0 (by omega)
    · intro h0; omega

theorem idxOf?_some (l : List Nat) (v i : Nat) (hh : l.idxOf? v = some i) :
    ∃ hi : i < l.length, l[i] = v := by
  unfold List.idxOf? at hh
  obtain ⟨hi, h1, _⟩ := List.findIdx?_eq_some_iff_getElem.1 hh
  exact ⟨hi, by simpa using h1⟩

theorem idxOf?_none (l : List Nat) (v : Nat) (hh : l.idxOf? v = none) : v ∉ l := by
  unfold List.idxOf? at hh
  intro hv
  have := List.findIdx?_eq_none_iff.1 hh v hv
  simp at this

theorem update_perm (dist : Array (Option Int)) (h : Array Nat) (v : Nat) :
    (heapUpdate dist h v).toList.Perm h.toList := by
  unfold heapUpdate
  split
  · rename_i i hh
    obtain ⟨hi, _⟩ := idxOf?_some _ _ _ hh
    exact siftUp_perm dist h i (by simpa using hi)
  · exact List.Perm.refl _

theorem nodup_get_inj (h : Array Nat) (hnd : h.toList.Nodup) (i j : Nat) (hi : i < h.size) (hj : j < h.size)
    (he : h[i]! = h[j]!) : i = j := by
  rw [getElem!_pos h i hi, getElem!_pos h j hj] at he
  have hi' : i < h.toList.length := by simpa using hi
  have hj' : j < h.toList.length := by simpa using hj
  exact (List.getElem_inj (h₀ := hi') (h₁ := hj') hnd).1 (by simpa using he)

/-- decrease-key: if the key of `v` went down and all other keys stayed, sifting `v` up restores heap order -/
theorem update_ok (dist dist' : Array (Option Int)) (h : Array Nat) (v : Nat) (hnd : h.toList.Nodup)
    (hother : ∀ x ∈ h.toList, x ≠ v → keyOf dist' x = keyOf dist x) (hdec : keyOf dist' v ≤ keyOf dist v)
    (ok : HeapOK dist h) : HeapOK dist' (heapUpdate dist' h v) := by
  unfold heapUpdate
  split
  · rename_i i hh
    obtain ⟨hi, hv⟩ := idxOf?_some _ _ _ hh
    have hi : i < h.size := by simpa using hi
    have hv : h[i]! = v := by rw [getElem!_pos h i hi]; simpa using hv
    -- every other position keeps its key
    have hsame : ∀ c, c < h.size → c ≠ i → keyOf dist' h[c]! = keyOf dist h[c]! := by
      intro c hc hci
      apply hother _ (get_mem_nat h c hc)
      intro he
      exact hci (nodup_get_inj h hnd c i hc hi (he.trans hv.symm))
    have hle : ∀ c, c < h.size → keyOf dist' h[c]! ≤ keyOf dist h[c]! := by
      intro c hc
      by_cases hci : c = i
      · subst hci; rw [hv]; exact hdec
      · rw [hsame c hc hci]; exact Int.le_refl _
    unfold siftUp
    split
    · rename_i hi0
      subst hi0
      intro c hc0 hcs
      have h1 := ok c hc0 hcs
      have h2 := hsame c hcs (by omega)
      have h3 := hle ((c - 1) / 4) (by omega)
      omega
    · rename_i hi0
      apply siftUpAux_ok
      · omega
      · exact hi
      · intro c hc0 hcs h1 h2
        rw [hsame c hcs h1, hsame _ (by omega) h2]
        exact ok c hc0 hcs
      · intro c hc0 hcs h1
        have h2 := ok c hc0 hcs
        rw [h1] at h2
        rw [hsame c hcs (by omega), hv]
        rw [hv] at h2
        omega
      · intro _ c hc0 hcs h1
        have h2 := ok c hc0 hcs
        rw [h1] at h2
        have h3 := ok i (by omega) hi
        rw [hsame c hcs (by omega), hsame _ (by omega) (by omega)]
        omega
  · rename_i hh
    have hv := idxOf?_none _ _ hh
    apply heapOK_congr dist dist' h _ ok
    intro x hx
    exact hother x hx (fun he => hv (he ▸ hx))

end HeapL
end Parmcb
