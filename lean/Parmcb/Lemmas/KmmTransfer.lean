import Parmcb.Lemmas.Kmm
import Parmcb.Lemmas.Meta2
/-! Part B: an exact run on the spanner graph, in the coordinates of the caller's graph.  Core Lean only. -/
namespace Parmcb
open Parmcb.C01 Parmcb.C02

namespace KmmT

/-- positions of the spanner ↦ edge ids of `g` -/
def fw (R : List Nat) (c : List Nat) : List Nat := setOf (c.map fun i => R.getD i 0)

/-- edge ids of `g` inside `R` ↦ positions of the spanner -/
def bw (R : List Nat) (Z : List Nat) : List Nat := setOf (Z.map fun e => R.idxOf e)

theorem translateSp_eq (R : List Nat) (cs : List (List Nat)) : translateSp R cs = cs.map (fw R) := rfl

theorem getD_lt (R : List Nat) (i : Nat) (hi : i < R.length) : R.getD i 0 = R[i] := by
  simp [List.getD_eq_getElem?_getD, List.getElem?_eq_getElem hi]

theorem getD_mem (R : List Nat) (i : Nat) (hi : i < R.length) : R.getD i 0 ∈ R := by
  rw [getD_lt R i hi]; exact List.getElem_mem hi

theorem getD_inj (R : List Nat) (hR : R.Nodup) (i j : Nat) (hi : i < R.length) (hj : j < R.length)
    (h : R.getD i 0 = R.getD j 0) : i = j := by
  rw [getD_lt R i hi, getD_lt R j hj] at h
  have hp := List.pairwise_iff_getElem.1 hR
  rcases Nat.lt_trichotomy i j with hlt | heq | hgt
  · exact absurd h (hp i j hi hj hlt)
  · exact heq
  · exact absurd h.symm (hp j i hj hi hgt)

theorem getD_idxOf (R : List Nat) (e : Nat) (he : e ∈ R) : R.getD (R.idxOf e) 0 = e := by
  have h := List.idxOf_lt_length_of_mem he
  rw [getD_lt R _ h]
  exact List.getElem_idxOf h

theorem mem_fw (R c : List Nat) (z : Nat) : z ∈ fw R c ↔ ∃ i ∈ c, R.getD i 0 = z := by
  unfold fw
  rw [mem_setOf, List.mem_map]

theorem mem_bw (R Z : List Nat) (i : Nat) : i ∈ bw R Z ↔ ∃ e ∈ Z, R.idxOf e = i := by
  unfold bw
  rw [mem_setOf, List.mem_map]

theorem fw_sorted (R c : List Nat) : StrictSorted (fw R c) := setOf_sorted _

theorem bw_sorted (R Z : List Nat) : StrictSorted (bw R Z) := setOf_sorted _

theorem fw_sub (R c : List Nat) (hc : ∀ i ∈ c, i < R.length) : ∀ e ∈ fw R c, e ∈ R := by
  intro e he
  obtain ⟨i, hi, rfl⟩ := (mem_fw R c e).1 he
  exact getD_mem R i (hc i hi)

theorem bw_lt (R Z : List Nat) (hZ : ∀ e ∈ Z, e ∈ R) : ∀ i ∈ bw R Z, i < R.length := by
  intro i hi
  obtain ⟨e, he, rfl⟩ := (mem_bw R Z i).1 hi
  exact List.idxOf_lt_length_of_mem (hZ e he)

/-- membership in `fw R c`, seen from the position -/
theorem mem_fw_pos (R : List Nat) (hR : R.Nodup) (c : List Nat) (hc : ∀ i ∈ c, i < R.length)
    (j : Nat) (hj : j < R.length) : R.getD j 0 ∈ fw R c ↔ j ∈ c := by
  rw [mem_fw]
  constructor
  · rintro ⟨i, hi, h⟩
    have := getD_inj R hR i j (hc i hi) hj h
    exact this ▸ hi
  · intro h; exact ⟨j, h, rfl⟩

theorem fw_xor (R : List Nat) (hR : R.Nodup) (A B : List Nat) (hA : StrictSorted A) (hB : StrictSorted B)
    (hAlt : ∀ i ∈ A, i < R.length) (hBlt : ∀ i ∈ B, i < R.length) :
    fw R (xorMerge A B) = xorMerge (fw R A) (fw R B) := by
  have hAB : ∀ i ∈ xorMerge A B, i < R.length := by
    intro i hi
    rcases mem_xorMerge_of _ _ _ hi with h | h
    · exact hAlt i h
    · exact hBlt i h
  apply StrictSorted.ext (fw_sorted _ _) (xorMerge_sorted _ _ (fw_sorted _ _) (fw_sorted _ _))
  intro z
  rw [mem_xorMerge _ _ (fw_sorted _ _) (fw_sorted _ _)]
  by_cases hz : ∃ j, j < R.length ∧ R.getD j 0 = z
  · obtain ⟨j, hj, rfl⟩ := hz
    rw [mem_fw_pos R hR _ hAB j hj, mem_fw_pos R hR _ hAlt j hj, mem_fw_pos R hR _ hBlt j hj,
      mem_xorMerge _ _ hA hB]
  · have hn : ∀ c : List Nat, (∀ i ∈ c, i < R.length) → z ∉ fw R c := by
      intro c hc hm
      obtain ⟨i, hi, h⟩ := (mem_fw R c z).1 hm
      exact hz ⟨i, hc i hi, h⟩
    simp [hn _ hAB, hn _ hAlt, hn _ hBlt]

theorem fw_nil (R : List Nat) : fw R [] = [] := rfl

theorem fw_eq_nil (R c : List Nat) (h : fw R c = []) : c = [] := by
  cases c with
  | nil => rfl
  | cons i r =>
    have : R.getD i 0 ∈ fw R (i :: r) := (mem_fw R _ _).2 ⟨i, List.mem_cons_self, rfl⟩
    rw [h] at this; cases this

theorem fw_inj (R : List Nat) (hR : R.Nodup) (A B : List Nat) (hA : StrictSorted A) (hB : StrictSorted B)
    (hAlt : ∀ i ∈ A, i < R.length) (hBlt : ∀ i ∈ B, i < R.length) (h : fw R A = fw R B) : A = B := by
  apply StrictSorted.ext hA hB
  intro i
  constructor
  · intro hi
    have := (mem_fw_pos R hR A hAlt i (hAlt i hi)).2 hi
    rw [h] at this
    exact (mem_fw_pos R hR B hBlt i (hAlt i hi)).1 this
  · intro hi
    have := (mem_fw_pos R hR B hBlt i (hBlt i hi)).2 hi
    rw [← h] at this
    exact (mem_fw_pos R hR A hAlt i (hBlt i hi)).1 this

theorem fw_bw (R Z : List Nat) (hZ : StrictSorted Z) (hsub : ∀ e ∈ Z, e ∈ R) : fw R (bw R Z) = Z := by
  apply StrictSorted.ext (fw_sorted _ _) hZ
  intro z
  rw [mem_fw]
  constructor
  · rintro ⟨i, hi, rfl⟩
    obtain ⟨e, he, rfl⟩ := (mem_bw R Z i).1 hi
    rw [getD_idxOf R e (hsub e he)]; exact he
  · intro hz
    exact ⟨R.idxOf z, (mem_bw R Z _).2 ⟨z, hz, rfl⟩, getD_idxOf R z (hsub z hz)⟩

theorem map_nodup (R : List Nat) (hR : R.Nodup) (c : List Nat) (hnd : c.Nodup) (hc : ∀ i ∈ c, i < R.length) :
    (c.map fun i => R.getD i 0).Nodup :=
  nodup_map_of_inj_on c _ hnd (fun a ha b hb h => getD_inj R hR a b (hc a ha) (hc b hb) h)

theorem sp_m (g : Graph) (R : List Nat) : (spannerGraph g R).m = R.length := by
  simp [spannerGraph, Graph.m]

theorem sp_inc (g : Graph) (R : List Nat) (v i : Nat) (hi : i < R.length) :
    (spannerGraph g R).inc v i = g.inc v (R.getD i 0) := by
  have h := C15.c15_weights g R i hi
  unfold Graph.inc
  rw [h.1, h.2.1]

theorem fw_par (g : Graph) (R : List Nat) (hR : R.Nodup) (c : List Nat) (hnd : c.Nodup)
    (hc : ∀ i ∈ c, i < R.length) (v : Nat) :
    par (fw R c) (g.inc v) = par c ((spannerGraph g R).inc v) := by
  unfold fw
  rw [Spanner.par_setOf _ (map_nodup R hR c hnd hc), par_map]
  apply par_congr
  intro i hi
  exact (sp_inc g R v i (hc i hi)).symm

theorem fw_wt (g : Graph) (R : List Nat) (hR : R.Nodup) (c : List Nat) (hnd : c.Nodup)
    (hc : ∀ i ∈ c, i < R.length) : wt g (fw R c) = wt (spannerGraph g R) c := by
  unfold fw
  rw [CertL.wt_setOf g _ (map_nodup R hR c hnd hc)]
  unfold wt
  rw [List.map_map]
  congr 1
  apply List.map_congr_left
  intro i hi
  exact ((C15.c15_weights g R i (hc i hi)).2.2).symm

theorem fw_even (g : Graph) (R : List Nat) (hR : R.Nodup) (hRm : ∀ e ∈ R, e < g.m) (c : List Nat)
    (hc : EvenSet (spannerGraph g R) c) : EvenSet g (fw R c) ∧ ∀ e ∈ fw R c, e ∈ R := by
  have hlt : ∀ i ∈ c, i < R.length := fun i hi => by have := hc.2.1 i hi; rwa [sp_m] at this
  have hsub := fw_sub R c hlt
  refine ⟨⟨fw_sorted _ _, fun e he => hRm e (hsub e he), fun v => ?_⟩, hsub⟩
  rw [fw_par g R hR c hc.1.nodup hlt v]; exact hc.2.2 v

theorem bw_even (g : Graph) (R : List Nat) (hR : R.Nodup) (Z : List Nat) (hZ : EvenSet g Z)
    (hsub : ∀ e ∈ Z, e ∈ R) : EvenSet (spannerGraph g R) (bw R Z) := by
  have hlt := bw_lt R Z hsub
  refine ⟨bw_sorted _ _, fun i hi => by rw [sp_m]; exact hlt i hi, fun v => ?_⟩
  rw [← fw_par g R hR _ (bw_sorted R Z).nodup hlt v, fw_bw R Z hZ.1 hsub]
  exact hZ.2.2 v

theorem fw_xorSel (R : List Nat) (hR : R.Nodup) : ∀ (L : List (List Nat)) (mask : List Bool),
    (∀ X ∈ L, StrictSorted X ∧ ∀ i ∈ X, i < R.length) →
    xorSel (L.map (fw R)) mask = fw R (xorSel L mask) := by
  intro L
  induction L with
  | nil => intro mask _; simp [xorSel, fw_nil]
  | cons c cs ih =>
    intro mask hL
    cases mask with
    | nil => simp [Spanner.xorSel_nil_right, fw_nil]
    | cons b bs =>
      have hcs : ∀ X ∈ cs, StrictSorted X ∧ ∀ i ∈ X, i < R.length :=
        fun X hX => hL X (List.mem_cons_of_mem _ hX)
      rw [List.map_cons, Spanner.xorSel_cons, Spanner.xorSel_cons, ih bs hcs]
      cases b with
      | false => rfl
      | true =>
        simp only [if_true]
        have hc := hL c List.mem_cons_self
        rw [fw_xor R hR _ _ hc.1 (Spanner.xorSel_sorted cs bs (fun X hX => (hcs X hX).1)) hc.2]
        intro i hi
        obtain ⟨X, hX, hiX⟩ := Spanner.xorSel_mem_sub cs bs i hi
        exact (hcs X hX).2 i hiX

theorem fw_tw (g : Graph) (R : List Nat) (hR : R.Nodup) (L : List (List Nat))
    (hL : ∀ X ∈ L, EvenSet (spannerGraph g R) X) :
    totalWeight g (L.map (fw R)) = totalWeight (spannerGraph g R) L := by
  unfold C02.totalWeight
  rw [List.map_map]
  congr 1
  apply List.map_congr_left
  intro X hX
  have h := hL X hX
  exact fw_wt g R hR X h.1.nodup (fun i hi => by have := h.2.1 i hi; rwa [sp_m] at this)

end KmmT

/-- **Part B**: an exact run on the spanner graph, translated -/
theorem spanner_transfer (g : Graph) (R : List Nat) (hR : R.Nodup) (hRm : ∀ e ∈ R, e < g.m)
    (N' : Nat) (v : Variant) (exactCycles : List (List Nat))
    (hd : ExactDomain (spannerGraph g R) N') (hr : FullRun (spannerGraph g R) N' 1 v exactCycles) :
    SpansIn g R (translateSp R exactCycles) ∧
    (∀ mask : List Bool, mask.length = (translateSp R exactCycles).length → true ∈ mask →
        xorSel (translateSp R exactCycles) mask ≠ []) ∧
    totalWeight g (translateSp R exactCycles) = totalWeight (spannerGraph g R) exactCycles ∧
    (∀ L, SpansIn g R L → totalWeight g (translateSp R exactCycles) ≤ totalWeight g L) := by
  have hB := C01.c01_basis (spannerGraph g R) N' 1 v exactCycles hd hr
  have hpos : ∀ (L : List (List Nat)), (∀ X ∈ L, EvenSet (spannerGraph g R) X) →
      ∀ X ∈ L, StrictSorted X ∧ ∀ i ∈ X, i < R.length := by
    intro L hL X hX
    have h := hL X hX
    exact ⟨h.1, fun i hi => by have := h.2.1 i hi; rwa [KmmT.sp_m] at this⟩
  have hcyc := hpos exactCycles hB.1
  have htw := KmmT.fw_tw g R hR exactCycles hB.1
  rw [KmmT.translateSp_eq]
  refine ⟨⟨?_, ?_⟩, ?_, htw, ?_⟩
  · intro C hC
    obtain ⟨c, hc, rfl⟩ := List.mem_map.1 hC
    exact KmmT.fw_even g R hR hRm c (hB.1 c hc)
  · intro Z hZ hsub
    obtain ⟨mask, hl, hm⟩ := hB.2.2 _ (KmmT.bw_even g R hR Z hZ hsub)
    refine ⟨mask, by rw [List.length_map]; exact hl, ?_⟩
    rw [KmmT.fw_xorSel R hR exactCycles mask hcyc, hm, KmmT.fw_bw R Z hZ.1 hsub]
  · intro mask hl ht h0
    rw [List.length_map] at hl
    rw [KmmT.fw_xorSel R hR exactCycles mask hcyc] at h0
    exact hB.2.1 mask hl ht (KmmT.fw_eq_nil R _ h0)
  · intro L hL
    have hL' : ∀ D ∈ L.map (KmmT.bw R), EvenSet (spannerGraph g R) D := by
      intro D hD
      obtain ⟨Z, hZ, rfl⟩ := List.mem_map.1 hD
      exact KmmT.bw_even g R hR Z (hL.1 Z hZ).1 (hL.1 Z hZ).2
    have hback : (L.map (KmmT.bw R)).map (KmmT.fw R) = L := by
      rw [List.map_map]
      conv => rhs; rw [← List.map_id L]
      apply List.map_congr_left
      intro Z hZ
      exact KmmT.fw_bw R Z (hL.1 Z hZ).1.1 (hL.1 Z hZ).2
    have hspan : ∀ Z, EvenSet (spannerGraph g R) Z →
        ∃ mask : List Bool, mask.length = (L.map (KmmT.bw R)).length ∧ xorSel (L.map (KmmT.bw R)) mask = Z := by
      intro Z hZ
      have hf := KmmT.fw_even g R hR hRm Z hZ
      obtain ⟨mask, hl, hm⟩ := hL.2 _ hf.1 hf.2
      refine ⟨mask, by rw [List.length_map]; exact hl, ?_⟩
      have hp := hpos _ hL'
      have hx := KmmT.fw_xorSel R hR _ mask hp
      rw [hback, hm] at hx
      have hs := Spanner.xorSel_sorted (L.map (KmmT.bw R)) mask (fun X hX => (hp X hX).1)
      have hlt : ∀ i ∈ xorSel (L.map (KmmT.bw R)) mask, i < R.length := by
        intro i hi
        obtain ⟨X, hX, hiX⟩ := Spanner.xorSel_mem_sub _ mask i hi
        exact (hp X hX).2 i hiX
      exact KmmT.fw_inj R hR _ _ hs hZ.1 hlt (hpos [Z] (by simpa using hZ) Z (by simp)).2 hx.symm
    have hw := run_weight (spannerGraph g R) N' 1 (by decide) v exactCycles hd hr _ hL' hspan
    have hLw := KmmT.fw_tw g R hR _ hL'
    rw [hback] at hLw
    rw [htw, hLw]
    unfold C02.totalWeight
    rw [Int.one_mul] at hw
    exact hw

end Parmcb
