import Parmcb.Model.Spanner
import Parmcb.Lemmas.Graph
import Parmcb.Props.C01
/-! helper lemmas for C15 / C05 / C06 (hop-bounded BFS, greedy spanner, cycle assembly).  Core Lean only. -/
namespace Parmcb.Spanner
open Parmcb.C01

/-! ### walks -/

/-- `e` joins `x` and `y` -/
def Jn (g : Graph) (e x y : Nat) : Prop := (g.src e = x ∧ g.tgt e = y) ∨ (g.tgt e = x ∧ g.src e = y)

theorem Jn.symm {g : Graph} {e x y : Nat} (h : Jn g e x y) : Jn g e y x := by
  rcases h with ⟨a, b⟩ | ⟨a, b⟩
  · exact Or.inr ⟨b, a⟩
  · exact Or.inl ⟨b, a⟩

theorem isWalk_nil (g : Graph) (a b : Nat) : isWalk g [] a b = true ↔ a = b := by
  simp [isWalk]

theorem isWalk_cons (g : Graph) (e : Nat) (r : List Nat) (a b : Nat) :
    isWalk g (e :: r) a b = true ↔ ∃ c, Jn g e a c ∧ isWalk g r c b = true := by
  simp only [isWalk, Bool.or_eq_true, Bool.and_eq_true, beq_iff_eq, Jn]
  constructor
  · rintro (⟨h1, h2⟩ | ⟨h1, h2⟩)
    · exact ⟨_, Or.inl ⟨h1, rfl⟩, h2⟩
    · exact ⟨_, Or.inr ⟨h1, rfl⟩, h2⟩
  · rintro ⟨c, (⟨h1, h2⟩ | ⟨h1, h2⟩), h3⟩
    · subst h2; exact Or.inl ⟨h1, h3⟩
    · subst h2; exact Or.inr ⟨h1, h3⟩

theorem isWalk_snoc (g : Graph) (es : List Nat) (e a b c : Nat) (h : isWalk g es a b = true)
    (hj : Jn g e b c) : isWalk g (es ++ [e]) a c = true := by
  induction es generalizing a with
  | nil =>
    rw [isWalk_nil] at h; subst h
    rw [List.nil_append, isWalk_cons]
    exact ⟨c, hj, (isWalk_nil g c c).2 rfl⟩
  | cons x r ih =>
    rw [isWalk_cons] at h
    obtain ⟨d, h1, h2⟩ := h
    rw [List.cons_append, isWalk_cons]
    exact ⟨d, h1, ih d h2⟩

theorem inc_of_jn (g : Graph) (e a c x : Nat) (h : Jn g e a c) :
    g.inc x e = xor (x == a) (x == c) := by
  unfold Graph.inc
  rcases h with ⟨h1, h2⟩ | ⟨h1, h2⟩
  · subst h1; subst h2
    rw [BEq.comm (a := g.src e), BEq.comm (a := g.tgt e)]
  · subst h1; subst h2
    rw [BEq.comm (a := g.src e), BEq.comm (a := g.tgt e), Bool.xor_comm]

/-- F1: the boundary of a walk -/
theorem walk_boundary (g : Graph) (es : List Nat) (a b : Nat) (h : isWalk g es a b = true) (x : Nat) :
    par es (g.inc x) = xor (x == a) (x == b) := by
  induction es generalizing a with
  | nil =>
    rw [isWalk_nil] at h; subst h
    simp [par_nil]
  | cons e r ih =>
    rw [isWalk_cons] at h
    obtain ⟨c, h1, h2⟩ := h
    rw [par_cons, ih c h2, inc_of_jn g e a c x h1]
    cases (x == a) <;> cases (x == c) <;> cases (x == b) <;> rfl

theorem par_setOf (l : List Nat) (hnd : l.Nodup) (f : Nat → Bool) : par (setOf l) f = par l f := by
  apply par_perm
  rw [List.perm_ext_iff_of_nodup (setOf_sorted l).nodup hnd]
  intro z; exact mem_setOf l z

/-- walk extraction: a duplicate-free edge list with odd degree exactly at `a ≠ b` contains an `a–b` walk -/
theorem walk_extract (g : Graph) : ∀ (n : Nat) (Z : List Nat) (a b : Nat), Z.length = n → Z.Nodup → a ≠ b →
    (∀ x, par Z (g.inc x) = xor (x == a) (x == b)) →
    ∃ es, es.length ≤ Z.length ∧ (∀ e ∈ es, e ∈ Z) ∧ isWalk g es a b = true := by
  intro n
  induction n with
  | zero =>
    intro Z a b hl _ hab hpar
    have : Z = [] := List.eq_nil_of_length_eq_zero hl
    subst this
    have := hpar a
    simp [par_nil, hab] at this
  | succ n ih =>
    intro Z a b hl hnd hab hpar
    have hpa : par Z (g.inc a) = true := by
      rw [hpar a]; simp [hab]
    have hex : ∃ f ∈ Z, g.inc a f = true := by
      apply Classical.byContradiction
      intro hno
      have : par Z (g.inc a) = false := by
        apply par_all_false
        intro e he
        cases hh : g.inc a e with
        | false => rfl
        | true => exact absurd ⟨e, he, hh⟩ hno
      rw [this] at hpa; cases hpa
    obtain ⟨f, hfZ, hfa⟩ := hex
    have hj : ∃ a', Jn g f a a' ∧ a' ≠ a := by
      unfold Graph.inc at hfa
      by_cases h1 : g.src f = a
      · refine ⟨g.tgt f, Or.inl ⟨h1, rfl⟩, ?_⟩
        intro h2
        rw [beq_iff_eq.2 h1, beq_iff_eq.2 h2] at hfa; cases hfa
      · by_cases h2 : g.tgt f = a
        · exact ⟨g.src f, Or.inr ⟨h2, rfl⟩, h1⟩
        · rw [beq_eq_false_iff_ne.2 h1, beq_eq_false_iff_ne.2 h2] at hfa; cases hfa
    obtain ⟨a', hj, ha'⟩ := hj
    have hperm := List.perm_cons_erase hfZ
    have hnd' : (Z.erase f).Nodup := hnd.erase f
    have hlen : (Z.erase f).length = n := by rw [List.length_erase_of_mem hfZ, hl]; rfl
    have hpar' : ∀ x, par (Z.erase f) (g.inc x) = xor (x == a') (x == b) := by
      intro x
      have h1 := par_perm hperm (g.inc x)
      rw [par_cons, hpar x, inc_of_jn g f a a' x hj] at h1
      revert h1
      cases (x == a) <;> cases (x == a') <;> cases (x == b) <;> cases par (Z.erase f) (g.inc x) <;> simp
    by_cases hab' : a' = b
    · subst hab'
      refine ⟨[f], ?_, ?_, ?_⟩
      · rw [hl]; simp
      · intro e he; rw [List.mem_singleton] at he; subst he; exact hfZ
      · rw [isWalk_cons]; exact ⟨a', hj, (isWalk_nil g _ _).2 rfl⟩
    · obtain ⟨es, h1, h2, h3⟩ := ih (Z.erase f) a' b hlen hnd' hab' hpar'
      refine ⟨f :: es, ?_, ?_, ?_⟩
      · rw [List.length_cons, hl]; omega
      · intro e he
        rcases List.mem_cons.1 he with h | h
        · subst h; exact hfZ
        · exact List.mem_of_mem_erase (h2 e h)
      · rw [isWalk_cons]; exact ⟨a', hj, h3⟩


/-! ### the hop-bounded search -/

theorem mem_spAdj (g : Graph) (R : List Nat) (u w : Nat) :
    w ∈ spAdj g R u ↔ ∃ e ∈ R, Jn g e u w := by
  unfold spAdj Jn
  simp only [List.mem_flatMap, List.mem_append]
  constructor
  · rintro ⟨e, he, h | h⟩
    · by_cases h1 : g.src e = u
      · rw [if_pos h1, List.mem_singleton] at h
        exact ⟨e, he, Or.inl ⟨h1, h.symm⟩⟩
      · rw [if_neg h1] at h; cases h
    · by_cases h1 : g.tgt e = u
      · rw [if_pos h1, List.mem_singleton] at h
        exact ⟨e, he, Or.inr ⟨h1, h.symm⟩⟩
      · rw [if_neg h1] at h; cases h
  · rintro ⟨e, he, ⟨h1, h2⟩ | ⟨h1, h2⟩⟩
    · exact ⟨e, he, Or.inl (by rw [if_pos h1, List.mem_singleton]; exact h2.symm)⟩
    · exact ⟨e, he, Or.inr (by rw [if_pos h1, List.mem_singleton]; exact h2.symm)⟩

/-- joined by a walk of at most `d` edges of `R` -/
def Reach (g : Graph) (R : List Nat) (s u d : Nat) : Prop :=
  ∃ es : List Nat, es.length ≤ d ∧ (∀ e ∈ es, e ∈ R) ∧ isWalk g es s u = true

theorem bfsScan_spec (s u du : Nat) : ∀ (adj vis : List Nat) (q : List (Nat × Nat)),
    ∃ new : List Nat, (bfsScan s u du adj vis q).2 = q ++ new.map (fun w => (w, du + 1)) ∧
      (∀ x, x ∈ (bfsScan s u du adj vis q).1 ↔ x ∈ new ∨ x ∈ vis) ∧ new.Nodup ∧
      (∀ w ∈ new, w ∈ adj ∧ w ≠ u ∧ w ≠ s ∧ w ∉ vis) ∧
      (∀ w ∈ adj, w = u ∨ w = s ∨ w ∈ vis ∨ w ∈ new) := by
  intro adj
  induction adj with
  | nil =>
    intro vis q
    exact ⟨[], by simp [bfsScan], by simp [bfsScan], List.nodup_nil, by simp, by simp⟩
  | cons w r ih =>
    intro vis q
    rw [bfsScan]
    by_cases h1 : w = u
    · rw [if_pos h1]
      obtain ⟨new, a, b, c, d, e⟩ := ih vis q
      refine ⟨new, a, b, c, ?_, ?_⟩
      · intro x hx; have := d x hx; exact ⟨List.mem_cons_of_mem _ this.1, this.2⟩
      · intro x hx
        rcases List.mem_cons.1 hx with h | h
        · exact Or.inl (h.trans h1)
        · exact e x h
    · rw [if_neg h1]
      by_cases h2 : w = s
      · rw [if_pos h2]
        obtain ⟨new, a, b, c, d, e⟩ := ih vis q
        refine ⟨new, a, b, c, ?_, ?_⟩
        · intro x hx; have := d x hx; exact ⟨List.mem_cons_of_mem _ this.1, this.2⟩
        · intro x hx
          rcases List.mem_cons.1 hx with h | h
          · exact Or.inr (Or.inl (h.trans h2))
          · exact e x h
      · rw [if_neg h2]
        by_cases h3 : w ∈ vis
        · rw [if_pos (by simpa using h3)]
          obtain ⟨new, a, b, c, d, e⟩ := ih vis q
          refine ⟨new, a, b, c, ?_, ?_⟩
          · intro x hx; have := d x hx; exact ⟨List.mem_cons_of_mem _ this.1, this.2⟩
          · intro x hx
            rcases List.mem_cons.1 hx with h | h
            · exact Or.inr (Or.inr (Or.inl (h ▸ h3)))
            · exact e x h
        · rw [if_neg (by simpa using h3)]
          obtain ⟨new, a, b, c, d, e⟩ := ih (w :: vis) (q ++ [(w, du + 1)])
          refine ⟨w :: new, ?_, ?_, ?_, ?_, ?_⟩
          · rw [a]; simp
          · intro x; rw [b x]; simp only [List.mem_cons]
            constructor
            · rintro (h | h | h)
              · exact Or.inl (Or.inr h)
              · exact Or.inl (Or.inl h)
              · exact Or.inr h
            · rintro ((h | h) | h)
              · exact Or.inr (Or.inl h)
              · exact Or.inl h
              · exact Or.inr (Or.inr h)
          · rw [List.nodup_cons]
            exact ⟨fun hw => (d w hw).2.2.2 List.mem_cons_self, c⟩
          · intro x hx
            rcases List.mem_cons.1 hx with h | h
            · subst h; exact ⟨List.mem_cons_self, h1, h2, h3⟩
            · have := d x h
              exact ⟨List.mem_cons_of_mem _ this.1, this.2.1, this.2.2.1,
                fun hv => this.2.2.2 (List.mem_cons_of_mem _ hv)⟩
          · intro x hx
            rcases List.mem_cons.1 hx with h | h
            · subst h; exact Or.inr (Or.inr (Or.inr List.mem_cons_self))
            · rcases e x h with h | h | h | h
              · exact Or.inl h
              · exact Or.inr (Or.inl h)
              · rcases List.mem_cons.1 h with h | h
                · subst h; exact Or.inr (Or.inr (Or.inr List.mem_cons_self))
                · exact Or.inr (Or.inr (Or.inl h))
              · exact Or.inr (Or.inr (Or.inr (List.mem_cons_of_mem _ h)))

theorem bfsReach_succ_cons (g : Graph) (R : List Nat) (s t b fuel : Nat) (vis : List Nat) (u du : Nat)
    (q : List (Nat × Nat)) :
    bfsReach g R s t b (fuel + 1) vis ((u, du) :: q) =
      if du > b then false else if u = t then true
      else bfsReach g R s t b fuel (bfsScan s u du (spAdj g R u) vis q).1
        (bfsScan s u du (spAdj g R u) vis q).2 := by
  rw [bfsReach]

theorem Reach.step {g : Graph} {R : List Nat} {s u w d : Nat} (h : Reach g R s u d)
    (hw : w ∈ spAdj g R u) : Reach g R s w (d + 1) := by
  obtain ⟨es, h1, h2, h3⟩ := h
  obtain ⟨e, he, hj⟩ := (mem_spAdj g R u w).1 hw
  refine ⟨es ++ [e], by simp; omega, ?_, isWalk_snoc g es e s u w h3 hj⟩
  intro f hf
  rcases List.mem_append.1 hf with h | h
  · exact h2 f h
  · rw [List.mem_singleton] at h; subst h; exact he

theorem bfsReach_sound (g : Graph) (R : List Nat) (s t b : Nat) : ∀ (fuel : Nat) (vis : List Nat)
    (q : List (Nat × Nat)), (∀ p ∈ q, Reach g R s p.1 p.2) →
    bfsReach g R s t b fuel vis q = true → Reach g R s t b := by
  intro fuel
  induction fuel with
  | zero => intro vis q _ h; simp [bfsReach] at h
  | succ fuel ih =>
    intro vis q hq h
    match q, hq, h with
    | [], _, h => simp [bfsReach] at h
    | (u, du) :: q, hq, h =>
      rw [bfsReach_succ_cons] at h
      by_cases h1 : du > b
      · rw [if_pos h1] at h; cases h
      · rw [if_neg h1] at h
        have hu := hq (u, du) List.mem_cons_self
        by_cases h2 : u = t
        · subst h2
          obtain ⟨es, a, b', c⟩ := hu
          exact ⟨es, by simp at a; omega, b', c⟩
        · rw [if_neg h2] at h
          obtain ⟨new, a, _, _, d, _⟩ := bfsScan_spec s u du (spAdj g R u) vis q
          refine ih _ _ ?_ h
          intro p hp
          rw [a] at hp
          rcases List.mem_append.1 hp with hp | hp
          · exact hq p (List.mem_cons_of_mem _ hp)
          · obtain ⟨w, hw, rfl⟩ := List.mem_map.1 hp
            exact hu.step (d w hw).1


/-- invariant of the search for the completeness direction: `P` = the entries popped so far (in pop
order), so that `P ++ q` is the whole enqueue history -/
structure BfsInv (g : Graph) (R : List Nat) (s t n fuel : Nat) (vis : List Nat)
    (P q : List (Nat × Nat)) : Prop where
  seen : ∀ x, (x = s ∨ x ∈ vis) ↔ ∃ d, (x, d) ∈ P ++ q
  nodup : ((P ++ q).map Prod.fst).Nodup
  lt : ∀ p ∈ P ++ q, p.1 < n
  sorted : (P ++ q).Pairwise (fun a b => a.2 ≤ b.2)
  near : ∀ a ∈ q, ∀ b ∈ q, b.2 ≤ a.2 + 1
  closed : ∀ p ∈ P, p.1 ≠ t ∧ ∀ w ∈ spAdj g R p.1, ∃ dw, dw ≤ p.2 + 1 ∧ (w, dw) ∈ P ++ q
  src0 : (s, 0) ∈ P ++ q
  fuel : n + 1 ≤ fuel + P.length

theorem BfsInv.frontier {g : Graph} {R : List Nat} {s t n fuel : Nat} {vis : List Nat}
    {P q : List (Nat × Nat)} (h : BfsInv g R s t n fuel vis P q) :
    ∀ (es : List Nat) (x dx : Nat), (x, dx) ∈ P ++ q → (∀ e ∈ es, e ∈ R) → isWalk g es x t = true →
      ∃ p ∈ q, p.2 ≤ dx + es.length := by
  intro es
  induction es with
  | nil =>
    intro x dx hx _ hw
    rw [isWalk_nil] at hw; subst hw
    rcases List.mem_append.1 hx with hx | hx
    · exact absurd rfl (h.closed _ hx).1
    · exact ⟨_, hx, Nat.le_add_right _ _⟩
  | cons e r ih =>
    intro x dx hx hR hw
    rcases List.mem_append.1 hx with hxP | hxq
    · rw [isWalk_cons] at hw
      obtain ⟨c, hj, hw'⟩ := hw
      have hc : c ∈ spAdj g R x := (mem_spAdj g R x c).2 ⟨e, hR e List.mem_cons_self, hj⟩
      obtain ⟨dw, hdw, hmem⟩ := (h.closed _ hxP).2 c hc
      obtain ⟨p, hp, hle⟩ := ih c dw hmem (fun f hf => hR f (List.mem_cons_of_mem _ hf)) hw'
      refine ⟨p, hp, ?_⟩
      simp only [List.length_cons] at hdw ⊢
      omega
    · exact ⟨_, hxq, Nat.le_add_right _ _⟩

theorem BfsInv.step {g : Graph} {R : List Nat} {s t n fuel : Nat} {vis : List Nat}
    {P rest : List (Nat × Nat)} {u du : Nat}
    (hadj : ∀ u w, w ∈ spAdj g R u → w < n)
    (h : BfsInv g R s t n (fuel + 1) vis P ((u, du) :: rest)) (hut : u ≠ t) :
    BfsInv g R s t n fuel (bfsScan s u du (spAdj g R u) vis rest).1 (P ++ [(u, du)])
      (bfsScan s u du (spAdj g R u) vis rest).2 := by
  obtain ⟨new, hq, hvis, hnd, hnew, hcov⟩ := bfsScan_spec s u du (spAdj g R u) vis rest
  have hall : (P ++ [(u, du)]) ++ (rest ++ new.map (fun w => (w, du + 1))) =
      (P ++ (u, du) :: rest) ++ new.map (fun w => (w, du + 1)) := by simp
  have hsorted := List.pairwise_append.1 h.sorted
  have hhead : ∀ a ∈ rest, du ≤ a.2 := (List.pairwise_cons.1 hsorted.2.1).1
  have hP : ∀ a ∈ P, a.2 ≤ du := fun a ha => hsorted.2.2 a ha (u, du) List.mem_cons_self
  have hnear : ∀ a ∈ (u, du) :: rest, a.2 ≤ du + 1 := fun a ha => h.near (u, du) List.mem_cons_self a ha
  have hallle : ∀ a ∈ P ++ (u, du) :: rest, a.2 ≤ du + 1 := by
    intro a ha
    rcases List.mem_append.1 ha with ha | ha
    · have := hP a ha; omega
    · exact hnear a ha
  have hmemnew : ∀ p, p ∈ new.map (fun w => (w, du + 1)) ↔ p.1 ∈ new ∧ p.2 = du + 1 := by
    intro p
    rw [List.mem_map]
    constructor
    · rintro ⟨w, hw, rfl⟩; exact ⟨hw, rfl⟩
    · rintro ⟨h1, h2⟩; exact ⟨p.1, h1, by rw [← h2]⟩
  rw [hq]
  constructor
  · -- seen
    intro x
    rw [hall, hvis x]
    constructor
    · rintro (hx | hx | hx)
      · obtain ⟨d, hd⟩ := (h.seen x).1 (Or.inl hx)
        exact ⟨d, List.mem_append_left _ hd⟩
      · exact ⟨du + 1, List.mem_append_right _ ((hmemnew _).2 ⟨hx, rfl⟩)⟩
      · obtain ⟨d, hd⟩ := (h.seen x).1 (Or.inr hx)
        exact ⟨d, List.mem_append_left _ hd⟩
    · rintro ⟨d, hd⟩
      rcases List.mem_append.1 hd with hd | hd
      · rcases (h.seen x).2 ⟨d, hd⟩ with hx | hx
        · exact Or.inl hx
        · exact Or.inr (Or.inr hx)
      · exact Or.inr (Or.inl ((hmemnew _).1 hd).1)
  · -- nodup
    rw [hall, List.map_append, List.nodup_append]
    refine ⟨h.nodup, ?_, ?_⟩
    · rw [List.map_map]
      have : (Prod.fst ∘ fun w => (w, du + 1)) = (id : Nat → Nat) := rfl
      rw [this, List.map_id]; exact hnd
    · intro a ha b hb hab
      obtain ⟨p, hp, rfl⟩ := List.mem_map.1 ha
      obtain ⟨p', hp', rfl⟩ := List.mem_map.1 hb
      have hn := hnew _ ((hmemnew p').1 hp').1
      rw [← hab] at hn
      rcases (h.seen p.1).2 ⟨p.2, hp⟩ with hx | hx
      · exact hn.2.2.1 hx
      · exact hn.2.2.2 hx
  · -- lt
    intro p hp
    rw [hall] at hp
    rcases List.mem_append.1 hp with hp | hp
    · exact h.lt p hp
    · exact hadj u p.1 (hnew _ ((hmemnew p).1 hp).1).1
  · -- sorted
    rw [hall, List.pairwise_append]
    refine ⟨h.sorted, ?_, ?_⟩
    · rw [List.pairwise_map]
      exact List.pairwise_of_forall (fun _ _ => Nat.le_refl _)
    · intro a ha b hb
      rw [((hmemnew b).1 hb).2]
      exact hallle a ha
  · -- near
    intro a ha b hb
    rcases List.mem_append.1 ha with ha | ha <;> rcases List.mem_append.1 hb with hb | hb
    · exact h.near a (List.mem_cons_of_mem _ ha) b (List.mem_cons_of_mem _ hb)
    · rw [((hmemnew b).1 hb).2]; have := hhead a ha; omega
    · rw [((hmemnew a).1 ha).2]; have := hnear b (List.mem_cons_of_mem _ hb); omega
    · rw [((hmemnew a).1 ha).2, ((hmemnew b).1 hb).2]; omega
  · -- closed
    intro p hp
    rw [hall]
    rcases List.mem_append.1 hp with hp | hp
    · refine ⟨(h.closed p hp).1, ?_⟩
      intro w hw
      obtain ⟨dw, h1, h2⟩ := (h.closed p hp).2 w hw
      exact ⟨dw, h1, List.mem_append_left _ h2⟩
    · rw [List.mem_singleton] at hp; subst hp
      refine ⟨hut, ?_⟩
      intro w hw
      have hold : ∀ x, (x = s ∨ x ∈ vis) → ∃ dw, dw ≤ du + 1 ∧
          (x, dw) ∈ (P ++ (u, du) :: rest) ++ new.map (fun w => (w, du + 1)) := by
        intro x hx
        obtain ⟨d, hd⟩ := (h.seen x).1 hx
        exact ⟨d, hallle _ hd, List.mem_append_left _ hd⟩
      rcases hcov w hw with hc | hc | hc | hc
      · subst hc
        exact ⟨du, Nat.le_add_right _ _, List.mem_append_left _
          (List.mem_append_right _ List.mem_cons_self)⟩
      · exact hold w (Or.inl hc)
      · exact hold w (Or.inr hc)
      · exact ⟨du + 1, Nat.le_refl _, List.mem_append_right _ ((hmemnew _).2 ⟨hc, rfl⟩)⟩
  · rw [hall]; exact List.mem_append_left _ h.src0
  · have := h.fuel
    simp only [List.length_append, List.length_cons, List.length_nil] at this ⊢
    omega

theorem bfsReach_complete (g : Graph) (R : List Nat) (s t b n : Nat)
    (hadj : ∀ u w, w ∈ spAdj g R u → w < n) (hreach : Reach g R s t b) :
    ∀ (fuel : Nat) (vis : List Nat) (P q : List (Nat × Nat)), BfsInv g R s t n fuel vis P q →
      bfsReach g R s t b fuel vis q = true := by
  obtain ⟨es, hlen, hes, hwalk⟩ := hreach
  intro fuel
  induction fuel with
  | zero =>
    intro vis P q h
    obtain ⟨p, hp, _⟩ := h.frontier es s 0 h.src0 hes hwalk
    have h1 := nodup_length_le _ n h.nodup (by
      intro x hx
      obtain ⟨p, hp, rfl⟩ := List.mem_map.1 hx
      exact h.lt p hp)
    have h2 := h.fuel
    have h3 : 0 < q.length := List.length_pos_of_mem hp
    simp only [List.length_map, List.length_append] at h1
    omega
  | succ fuel ih =>
    intro vis P q h
    obtain ⟨p, hp, hple⟩ := h.frontier es s 0 h.src0 hes hwalk
    match q, h, hp with
    | (u, du) :: rest, h, hp =>
      rw [bfsReach_succ_cons]
      have hdu : du ≤ p.2 := by
        rcases List.mem_cons.1 hp with hp | hp
        · subst hp; exact Nat.le_refl _
        · exact (List.pairwise_cons.1 (List.pairwise_append.1 h.sorted).2.1).1 p hp
      rw [if_neg (by omega)]
      by_cases hut : u = t
      · rw [if_pos hut]
      · rw [if_neg hut]
        exact ih _ _ _ (h.step hadj hut)

theorem BfsInv.init (g : Graph) (R : List Nat) (s t : Nat) (hs : s < g.n) :
    BfsInv g R s t g.n (g.n + 1) [] [] [(s, 0)] where
  seen := by intro x; simp
  nodup := by simp
  lt := by intro p hp; simp at hp; subst hp; exact hs
  sorted := by simp
  near := by intro a ha b hb; simp at ha hb; subst ha; subst hb; omega
  closed := by intro p hp; cases hp
  src0 := by simp
  fuel := by simp

theorem bfs_iff (g : Graph) (hs : g.simpleB = true) (R : List Nat) (hR : ∀ e ∈ R, e < g.m)
    (s t b : Nat) (hsn : s < g.n) :
    isBfsReachable g R s t b = true ↔ Reach g R s t b := by
  unfold isBfsReachable
  constructor
  · apply bfsReach_sound
    intro p hp
    rw [List.mem_singleton] at hp; subst hp
    exact ⟨[], Nat.le_refl _, by simp, (isWalk_nil g s s).2 rfl⟩
  · intro h
    refine bfsReach_complete g R s t b g.n ?_ h _ _ [] _ (BfsInv.init g R s t hsn)
    intro u w hw
    obtain ⟨e, he, hj⟩ := (mem_spAdj g R u w).1 hw
    have hf := simpleB_facts g hs e (hR e he)
    rcases hj with ⟨_, h2⟩ | ⟨_, h2⟩
    · rw [← h2]; exact hf.2.1
    · rw [← h2]; exact hf.1


/-! ### the greedy spanner -/

/-- one iteration of the `construct_spanner` loop -/
def spStep (g : Graph) (k : Nat) (acc : List Nat × List Nat) (e : Nat) : List Nat × List Nat :=
  if isBfsReachable g acc.1 (g.src e) (g.tgt e) (hopBound k) then (acc.1, acc.2 ++ [e])
  else (acc.1 ++ [e], acc.2)

theorem constructSpanner_eq (g : Graph) (k : Nat) (scan : List Nat) :
    constructSpanner g k scan = scan.foldl (spStep g k) ([], []) := rfl

theorem spFold_spec (g : Graph) (k : Nat) (scan : List Nat) : ∀ (A B : List Nat),
    ((scan.foldl (spStep g k) (A, B)).1 ++ (scan.foldl (spStep g k) (A, B)).2).Perm (A ++ B ++ scan) ∧
    (∃ A', (scan.foldl (spStep g k) (A, B)).1 = A ++ A' ∧ A'.Sublist scan) ∧
    (∃ B', (scan.foldl (spStep g k) (A, B)).2 = B ++ B' ∧ B'.Sublist scan) := by
  induction scan with
  | nil => intro A B; simp
  | cons e scan ih =>
    intro A B
    simp only [List.foldl_cons]
    cases hreach : isBfsReachable g A (g.src e) (g.tgt e) (hopBound k) with
    | true =>
      have hstep : spStep g k (A, B) e = (A, B ++ [e]) := by unfold spStep; simp [hreach]
      rw [hstep]
      obtain ⟨h1, ⟨A', h2, h3⟩, ⟨B', h4, h5⟩⟩ := ih A (B ++ [e])
      refine ⟨?_, ⟨A', h2, h3.trans (List.sublist_cons_self _ _)⟩, ⟨e :: B', ?_, h5.cons_cons _⟩⟩
      · refine h1.trans ?_
        simp
      · rw [h4]; simp
    | false =>
      have hstep : spStep g k (A, B) e = (A ++ [e], B) := by unfold spStep; simp [hreach]
      rw [hstep]
      obtain ⟨h1, ⟨A', h2, h3⟩, ⟨B', h4, h5⟩⟩ := ih (A ++ [e]) B
      refine ⟨?_, ⟨e :: A', ?_, h3.cons_cons _⟩, ⟨B', h4, h5.trans (List.sublist_cons_self _ _)⟩⟩
      · refine h1.trans ?_
        simp only [List.append_assoc, List.singleton_append]
        exact List.Perm.append_left A List.perm_middle.symm
      · rw [h2]; simp

theorem perm_of_subset_length : ∀ (L S : List Nat), L.Nodup → (∀ x ∈ L, x ∈ S) → S.length ≤ L.length →
    S.Perm L := by
  intro L
  induction L with
  | nil =>
    intro S _ _ hl
    have : S = [] := List.eq_nil_of_length_eq_zero (Nat.le_zero.1 hl)
    subst this; exact List.Perm.refl _
  | cons x L ih =>
    intro S hnd hsub hl
    have hx : x ∈ S := hsub x List.mem_cons_self
    have hnd' := List.nodup_cons.1 hnd
    have h1 : (S.erase x).Perm L := by
      apply ih _ hnd'.2
      · intro y hy
        have hyx : y ≠ x := fun h => hnd'.1 (h ▸ hy)
        exact (List.mem_erase_of_ne hyx).2 (hsub y (List.mem_cons_of_mem _ hy))
      · rw [List.length_erase_of_mem hx]
        simp only [List.length_cons] at hl
        omega
    exact (List.perm_cons_erase hx).trans (h1.cons x)

theorem scan_perm (g : Graph) (scan : List Nat) (h : scanOkB g scan = true) :
    scan.Perm (List.range g.m) := by
  unfold scanOkB at h
  simp only [Bool.and_eq_true, decide_eq_true_eq, List.all_eq_true, List.mem_range,
    List.contains_iff_mem] at h
  apply perm_of_subset_length _ _ List.nodup_range
  · intro x hx; exact h.1.2 x (List.mem_range.1 hx)
  · rw [List.length_range, h.1.1]; exact Nat.le_refl _

theorem scan_mono (g : Graph) (scan : List Nat) (h : scanOkB g scan = true) :
    ∀ d i, i + d < scan.length → g.weight (scan.getD i 0) ≤ g.weight (scan.getD (i + d) 0) := by
  unfold scanOkB at h
  simp only [Bool.and_eq_true, decide_eq_true_eq, List.all_eq_true, List.mem_range] at h
  have hadj := h.2
  intro d
  induction d with
  | zero => intro i _; exact Int.le_refl _
  | succ d ih =>
    intro i hi
    have h1 := ih i (by omega)
    have h2 := hadj (i + d) (by omega)
    exact Int.le_trans h1 h2

theorem scan_sorted (g : Graph) (scan : List Nat) (h : scanOkB g scan = true) (pre post : List Nat)
    (e : Nat) (hsplit : scan = pre ++ e :: post) : ∀ f ∈ pre, g.weight f ≤ g.weight e := by
  intro f hf
  obtain ⟨i, hi, hfi⟩ := List.getElem_of_mem hf
  have hm := scan_mono g scan h (pre.length - i) i (by rw [hsplit]; simp; omega)
  have e1 : scan.getD i 0 = f := by
    rw [hsplit, List.getD_eq_getElem?_getD, List.getElem?_append_left hi, List.getElem?_eq_getElem hi, hfi]
    rfl
  have e2 : scan.getD (i + (pre.length - i)) 0 = e := by
    have : i + (pre.length - i) = pre.length := by omega
    rw [this, hsplit, List.getD_eq_getElem?_getD, List.getElem?_append_right (Nat.le_refl _)]
    simp
  rw [e1, e2] at hm
  exact hm

theorem spanner_split (g : Graph) (k : Nat) (pre post : List Nat) (e : Nat)
    (hnd : (pre ++ e :: post).Nodup) :
    (∀ f ∈ (constructSpanner g k pre).1, f ∈ pre ∧ f ∈ (constructSpanner g k (pre ++ e :: post)).1) ∧
    (∀ f ∈ pre, f ∈ (constructSpanner g k (pre ++ e :: post)).1 → f ∈ (constructSpanner g k pre).1) ∧
    (e ∈ (constructSpanner g k (pre ++ e :: post)).2 →
      isBfsReachable g (constructSpanner g k pre).1 (g.src e) (g.tgt e) (hopBound k) = true) ∧
    (e ∈ (constructSpanner g k (pre ++ e :: post)).1 →
      isBfsReachable g (constructSpanner g k pre).1 (g.src e) (g.tgt e) (hopBound k) = false) := by
  have hnd' := List.nodup_append.1 hnd
  have hnd2 := List.nodup_cons.1 hnd'.2.1
  have hepre : e ∉ pre := fun h => hnd'.2.2 e h e List.mem_cons_self rfl
  have hepost : e ∉ post := hnd2.1
  have hdisj : ∀ f ∈ pre, f ∉ post := fun f h1 h2 => hnd'.2.2 f h1 f (List.mem_cons_of_mem _ h2) rfl
  obtain ⟨_, ⟨A1, hA1, hA1s⟩, ⟨B1, hB1, hB1s⟩⟩ := spFold_spec g k pre [] []
  rw [← constructSpanner_eq] at hA1 hB1
  rw [List.nil_append] at hA1 hB1
  have hfold : constructSpanner g k (pre ++ e :: post) =
      post.foldl (spStep g k) (spStep g k (constructSpanner g k pre) e) := by
    rw [constructSpanner_eq, List.foldl_append, List.foldl_cons, ← constructSpanner_eq]
  have hr1pre : ∀ f ∈ (constructSpanner g k pre).1, f ∈ pre := by
    intro f hf; rw [hA1] at hf; exact hA1s.subset hf
  have hr2pre : ∀ f ∈ (constructSpanner g k pre).2, f ∈ pre := by
    intro f hf; rw [hB1] at hf; exact hB1s.subset hf
  cases hreach : isBfsReachable g (constructSpanner g k pre).1 (g.src e) (g.tgt e) (hopBound k) with
  | true =>
    have hstep : spStep g k (constructSpanner g k pre) e =
        ((constructSpanner g k pre).1, (constructSpanner g k pre).2 ++ [e]) := by
      unfold spStep; rw [hreach]; rfl
    obtain ⟨_, ⟨A2, hA2, hA2s⟩, _⟩ := spFold_spec g k post (constructSpanner g k pre).1
      ((constructSpanner g k pre).2 ++ [e])
    rw [← hstep, ← hfold] at hA2
    have hmem : ∀ f, f ∈ (constructSpanner g k (pre ++ e :: post)).1 →
        f ∈ (constructSpanner g k pre).1 ∨ f ∈ post := by
      intro f hf; rw [hA2] at hf
      rcases List.mem_append.1 hf with h | h
      · exact Or.inl h
      · exact Or.inr (hA2s.subset h)
    refine ⟨?_, ?_, fun _ => rfl, ?_⟩
    · intro f hf; exact ⟨hr1pre f hf, by rw [hA2]; exact List.mem_append_left _ hf⟩
    · intro f hf hfr
      rcases hmem f hfr with h | h
      · exact h
      · exact absurd h (hdisj f hf)
    · intro he
      rcases hmem e he with h | h
      · exact absurd (hr1pre e h) hepre
      · exact absurd h hepost
  | false =>
    have hstep : spStep g k (constructSpanner g k pre) e =
        ((constructSpanner g k pre).1 ++ [e], (constructSpanner g k pre).2) := by
      unfold spStep; rw [hreach]; rfl
    obtain ⟨_, ⟨A2, hA2, hA2s⟩, ⟨B2, hB2, hB2s⟩⟩ := spFold_spec g k post
      ((constructSpanner g k pre).1 ++ [e]) (constructSpanner g k pre).2
    rw [← hstep, ← hfold] at hA2 hB2
    refine ⟨?_, ?_, ?_, fun _ => rfl⟩
    · intro f hf
      exact ⟨hr1pre f hf, by rw [hA2]; exact List.mem_append_left _ (List.mem_append_left _ hf)⟩
    · intro f hf hfr
      rw [hA2] at hfr
      rcases List.mem_append.1 hfr with h | h
      · rcases List.mem_append.1 h with h | h
        · exact h
        · rw [List.mem_singleton] at h; subst h; exact absurd hf hepre
      · exact absurd (hA2s.subset h) (hdisj f hf)
    · intro he
      rw [hB2] at he
      rcases List.mem_append.1 he with h | h
      · exact absurd (hr2pre e h) hepre
      · exact absurd (hB2s.subset h) hepost

theorem hopBound_pos (k : Nat) (hk : 1 ≤ k) : hopBound k = 2 * k - 1 := by
  unfold hopBound; rw [if_neg (by omega)]


theorem spanner_partition (g : Graph) (k : Nat) (scan : List Nat) :
    ((constructSpanner g k scan).1 ++ (constructSpanner g k scan).2).Perm scan ∧
    (constructSpanner g k scan).1.Sublist scan ∧ (constructSpanner g k scan).2.Sublist scan := by
  obtain ⟨h1, ⟨A, hA, hAs⟩, ⟨B, hB, hBs⟩⟩ := spFold_spec g k scan [] []
  rw [← constructSpanner_eq] at h1 hA hB
  rw [List.nil_append] at hA hB
  refine ⟨by simpa using h1, by rw [hA]; exact hAs, by rw [hB]; exact hBs⟩

theorem spanner_stretch (g : Graph) (hs : g.simpleB = true) (k : Nat) (hk : 1 ≤ k) (scan : List Nat)
    (hscan : scanOkB g scan = true) :
    ∀ e ∈ (constructSpanner g k scan).2,
      ∃ es : List Nat, es.length ≤ 2 * k - 1 ∧ isWalk g es (g.src e) (g.tgt e) = true ∧
        ∀ f ∈ es, f ∈ (constructSpanner g k scan).1 ∧ g.weight f ≤ g.weight e := by
  intro e he
  have hperm := scan_perm g scan hscan
  have hnd : scan.Nodup := hperm.nodup_iff.2 List.nodup_range
  have hlt : ∀ f ∈ scan, f < g.m := fun f hf => List.mem_range.1 (hperm.mem_iff.1 hf)
  have hes : e ∈ scan := (spanner_partition g k scan).2.2.subset he
  obtain ⟨pre, post, hsplit⟩ := List.append_of_mem hes
  have hsp := spanner_split g k pre post e (hsplit ▸ hnd)
  rw [← hsplit] at hsp
  have hreach := hsp.2.2.1 he
  have hpre : ∀ f ∈ pre, f ∈ scan := fun f hf => by rw [hsplit]; exact List.mem_append_left _ hf
  rw [bfs_iff g hs _ (fun f hf => hlt f (hpre f (hsp.1 f hf).1)) _ _ _
    (simpleB_facts g hs e (hlt e hes)).1, hopBound_pos k hk] at hreach
  obtain ⟨es, h1, h2, h3⟩ := hreach
  refine ⟨es, h1, h3, ?_⟩
  intro f hf
  have := hsp.1 f (h2 f hf)
  exact ⟨this.2, scan_sorted g scan hscan pre post e hsplit f this.1⟩

theorem spanner_k1_aux (g : Graph) (hs : g.simpleB = true) (scan : List Nat)
    (hnd : scan.Nodup) (hlt : ∀ f ∈ scan, f < g.m) :
    ∀ (post pre : List Nat), pre ++ post = scan →
      post.foldl (spStep g 1) (pre, []) = (pre ++ post, []) := by
  intro post
  induction post with
  | nil => intro pre _; simp
  | cons e post ih =>
    intro pre hsplit
    have hem : e < g.m := hlt e (by rw [← hsplit]; simp)
    have hpre : ∀ f ∈ pre, f < g.m := fun f hf => hlt f (by rw [← hsplit]; exact List.mem_append_left _ hf)
    have hepre : e ∉ pre := by
      rw [← hsplit] at hnd
      exact fun h => (List.nodup_append.1 hnd).2.2 e h e List.mem_cons_self rfl
    have hf := simpleB_facts g hs e hem
    have hreach : isBfsReachable g pre (g.src e) (g.tgt e) (hopBound 1) = false := by
      cases hr : isBfsReachable g pre (g.src e) (g.tgt e) (hopBound 1) with
      | false => rfl
      | true =>
        exfalso
        rw [bfs_iff g hs pre hpre _ _ _ hf.1, hopBound_pos 1 (Nat.le_refl _)] at hr
        obtain ⟨es, h1, h2, h3⟩ := hr
        match es, h1, h2, h3 with
        | [], _, _, h3 => exact hf.2.2 ((isWalk_nil g _ _).1 h3)
        | [f], _, h2, h3 =>
          rw [isWalk_cons] at h3
          obtain ⟨c, hj, hc⟩ := h3
          rw [isWalk_nil] at hc; subst hc
          have hfpre : f ∈ pre := h2 f List.mem_cons_self
          have hfe : f ≠ e := fun h => hepre (h ▸ hfpre)
          have hd := simple_distinct g hs e f hem (hpre f hfpre) hfe
          rcases hj with ⟨a, b⟩ | ⟨a, b⟩
          · exact hd.1 a b
          · exact hd.2 b a
        | _ :: _ :: _, h1, _, _ => simp at h1
    rw [List.foldl_cons]
    have hstep : spStep g 1 (pre, []) e = (pre ++ [e], []) := by unfold spStep; simp [hreach]
    rw [hstep, ih (pre ++ [e]) (by rw [← hsplit]; simp)]
    simp

theorem spanner_k1 (g : Graph) (hs : g.simpleB = true) (scan : List Nat) (hscan : scanOkB g scan = true) :
    constructSpanner g 1 scan = (scan, []) := by
  have hperm := scan_perm g scan hscan
  have hnd : scan.Nodup := hperm.nodup_iff.2 List.nodup_range
  have hlt : ∀ f ∈ scan, f < g.m := fun f hf => List.mem_range.1 (hperm.mem_iff.1 hf)
  rw [constructSpanner_eq, spanner_k1_aux g hs scan hnd hlt scan [] rfl]; rfl

/-- the member of a non-empty sub-collection that comes last in `scan` -/
theorem exists_last (scan : List Nat) : ∀ C : List Nat, C ≠ [] → (∀ e ∈ C, e ∈ scan) →
    ∃ e ∈ C, ∃ pre post, scan = pre ++ e :: post ∧ ∀ f ∈ C, f ≠ e → f ∈ pre := by
  induction scan with
  | nil =>
    intro C hC hsub
    match C, hC, hsub with
    | c :: _, _, hsub => exact absurd (hsub c List.mem_cons_self) List.not_mem_nil
  | cons x scan ih =>
    intro C hC hsub
    by_cases hC' : C.filter (fun f => f != x) = []
    · have hall : ∀ f ∈ C, f = x := by
        intro f hf
        apply Classical.byContradiction
        intro hne
        have : f ∈ C.filter (fun f => f != x) := List.mem_filter.2 ⟨hf, by simpa using hne⟩
        rw [hC'] at this; cases this
      match C, hC, hall with
      | c :: C, _, hall =>
        have hc := hall c List.mem_cons_self
        refine ⟨x, hc ▸ List.mem_cons_self, [], scan, rfl, ?_⟩
        intro f hf hne; exact absurd (hall f hf) hne
    · obtain ⟨e, he, pre, post, hsplit, hlast⟩ := ih _ hC' (by
        intro f hf
        obtain ⟨h1, h2⟩ := List.mem_filter.1 hf
        rcases List.mem_cons.1 (hsub f h1) with h | h
        · simp [h] at h2
        · exact h)
      refine ⟨e, (List.mem_filter.1 he).1, x :: pre, post, by rw [hsplit]; rfl, ?_⟩
      intro f hf hne
      by_cases hfx : f = x
      · rw [hfx]; exact List.mem_cons_self
      · exact List.mem_cons_of_mem _ (hlast f (List.mem_filter.2 ⟨hf, by simpa using hfx⟩) hne)

theorem spanner_girth (g : Graph) (hs : g.simpleB = true) (k : Nat) (hk : 1 ≤ k) (scan : List Nat)
    (hscan : scanOkB g scan = true) :
    ∀ C, Circuit g C → (∀ e ∈ C, e ∈ (constructSpanner g k scan).1) → 2 * k < C.length := by
  intro C hC hsub
  apply Classical.byContradiction
  intro hlen
  have hperm := scan_perm g scan hscan
  have hnd : scan.Nodup := hperm.nodup_iff.2 List.nodup_range
  have hlt : ∀ f ∈ scan, f < g.m := fun f hf => List.mem_range.1 (hperm.mem_iff.1 hf)
  have hRs : ∀ f ∈ (constructSpanner g k scan).1, f ∈ scan :=
    fun f hf => (spanner_partition g k scan).2.1.subset hf
  obtain ⟨e, heC, pre, post, hsplit, hlast⟩ := exists_last scan C hC.2.1 (fun f hf => hRs f (hsub f hf))
  have hsp := spanner_split g k pre post e (hsplit ▸ hnd)
  rw [← hsplit] at hsp
  have hnr := hsp.2.2.2 (hsub e heC)
  have hes : e ∈ scan := hRs e (hsub e heC)
  have hf := simpleB_facts g hs e (hlt e hes)
  have hpre : ∀ f ∈ pre, f ∈ scan := fun f hf => by rw [hsplit]; exact List.mem_append_left _ hf
  have hCnd : C.Nodup := hC.1.1.nodup
  have hpar : ∀ x, par (C.erase e) (g.inc x) = xor (x == g.src e) (x == g.tgt e) := by
    intro x
    have h1 := par_perm (List.perm_cons_erase heC) (g.inc x)
    rw [par_cons, hC.1.2.2 x, inc_of_jn g e _ _ x (Or.inl ⟨rfl, rfl⟩)] at h1
    revert h1
    cases (x == g.src e) <;> cases (x == g.tgt e) <;> cases par (C.erase e) (g.inc x) <;> simp
  obtain ⟨es, h1, h2, h3⟩ := walk_extract g _ (C.erase e) (g.src e) (g.tgt e) rfl (hCnd.erase e) hf.2.2 hpar
  have hreach : isBfsReachable g (constructSpanner g k pre).1 (g.src e) (g.tgt e) (hopBound k) = true := by
    rw [bfs_iff g hs _ (fun f hf => hlt f (hpre f (hsp.1 f hf).1)) _ _ _ hf.1, hopBound_pos k hk]
    refine ⟨es, ?_, ?_, h3⟩
    · rw [List.length_erase_of_mem heC] at h1; omega
    · intro f hfes
      have := (hCnd.mem_erase_iff).1 (h2 f hfes)
      exact hsp.2.1 f (hlast f this.2 this.1) (hsub f this.2)
  rw [hreach] at hnr; cases hnr


theorem approxRun_ok (g : Graph) (k : Nat) (R D : List Nat) (exactCycles paths : List (List Nat))
    (cycles : List (List Nat)) (ret : Int)
    (hrun : approxRun g k R D exactCycles paths = .ok cycles ret) :
    cycles = (exactCycles.map fun c => c.map fun i => R.getD i 0) ++
      (paths.zip D).map (fun (p, e) => edgeCycle p e) ∧ ret = (cycles.map (wt g)).sum := by
  unfold approxRun at hrun
  split at hrun
  · cases hrun
  · simp only [ApproxOutcome.ok.injEq] at hrun
    obtain ⟨h1, h2⟩ := hrun
    subst h1
    exact ⟨rfl, h2.symm⟩

theorem approxRun_owner (g : Graph) (k : Nat) (R D : List Nat) (exactCycles paths : List (List Nat))
    (hR : ∀ e ∈ R, e < g.m) (hD : ∀ e ∈ D, e < g.m)
    (hex : ∀ c ∈ exactCycles, ∀ i ∈ c, i < R.length) (hp : ∀ p ∈ paths, ∀ f ∈ p, f ∈ R)
    (cycles : List (List Nat)) (ret : Int)
    (hrun : approxRun g k R D exactCycles paths = .ok cycles ret) :
    (∀ c ∈ cycles, ∀ e ∈ c, e < g.m) ∧ ret = (cycles.map (wt g)).sum := by
  obtain ⟨h1, h2⟩ := approxRun_ok g k R D exactCycles paths cycles ret hrun
  refine ⟨?_, h2⟩
  intro c hc e he
  rw [h1] at hc
  rcases List.mem_append.1 hc with hc | hc
  · obtain ⟨c0, hc0, rfl⟩ := List.mem_map.1 hc
    obtain ⟨i, hi, rfl⟩ := List.mem_map.1 he
    have hlt := hex c0 hc0 i hi
    apply hR
    rw [List.getD_eq_getElem?_getD, List.getElem?_eq_getElem hlt]
    exact List.getElem_mem hlt
  · obtain ⟨⟨p, d⟩, hpd, rfl⟩ := List.mem_map.1 hc
    have hz := List.of_mem_zip hpd
    unfold edgeCycle at he
    rcases List.mem_append.1 he with he | he
    · exact hR e (hp p hz.1 e he)
    · rw [List.mem_singleton] at he; subst he; exact hD _ hz.2


/-! ### selections of a family of canonical sets -/

theorem xorSel_nil_right (L : List (List Nat)) : xorSel L [] = [] := by
  cases L <;> rfl

theorem xorSel_cons (c : List Nat) (cs : List (List Nat)) (b : Bool) (bs : List Bool) :
    xorSel (c :: cs) (b :: bs) = if b then xorMerge c (xorSel cs bs) else xorSel cs bs := rfl

theorem xorSel_mem_sub : ∀ (L : List (List Nat)) (mask : List Bool) (z : Nat),
    z ∈ xorSel L mask → ∃ X ∈ L, z ∈ X := by
  intro L
  induction L with
  | nil => intro mask z h; simp [xorSel] at h
  | cons c cs ih =>
    intro mask z h
    cases mask with
    | nil => simp [xorSel] at h
    | cons b bs =>
      rw [xorSel_cons] at h
      cases b with
      | false =>
        obtain ⟨X, hX, hz⟩ := ih bs z h
        exact ⟨X, List.mem_cons_of_mem _ hX, hz⟩
      | true =>
        rcases mem_xorMerge_of _ _ _ h with h | h
        · exact ⟨c, List.mem_cons_self, h⟩
        · obtain ⟨X, hX, hz⟩ := ih bs z h
          exact ⟨X, List.mem_cons_of_mem _ hX, hz⟩

theorem xorSel_sorted : ∀ (L : List (List Nat)) (mask : List Bool), (∀ X ∈ L, StrictSorted X) →
    StrictSorted (xorSel L mask) := by
  intro L
  induction L with
  | nil => intro mask _; simp [xorSel, StrictSorted]
  | cons c cs ih =>
    intro mask h
    cases mask with
    | nil => simp [xorSel, StrictSorted]
    | cons b bs =>
      rw [xorSel_cons]
      have h' := ih bs (fun X hX => h X (List.mem_cons_of_mem _ hX))
      cases b with
      | false => exact h'
      | true => exact xorMerge_sorted _ _ (h c List.mem_cons_self) h'

theorem xorSel_even (g : Graph) : ∀ (L : List (List Nat)) (mask : List Bool), (∀ X ∈ L, EvenSet g X) →
    EvenSet g (xorSel L mask) := by
  intro L
  induction L with
  | nil => intro mask _; rw [xorSel]; exact evenSet_nil g
  | cons c cs ih =>
    intro mask h
    cases mask with
    | nil => rw [xorSel_nil_right]; exact evenSet_nil g
    | cons b bs =>
      rw [xorSel_cons]
      have h' := ih bs (fun X hX => h X (List.mem_cons_of_mem _ hX))
      cases b with
      | false => exact h'
      | true => exact (h c List.mem_cons_self).add h'

theorem xorSel_all_false : ∀ (L : List (List Nat)) (mask : List Bool), (∀ b ∈ mask, b = false) →
    xorSel L mask = [] := by
  intro L
  induction L with
  | nil => intro mask _; rw [xorSel]
  | cons c cs ih =>
    intro mask h
    cases mask with
    | nil => rfl
    | cons b bs =>
      rw [xorSel_cons, h b List.mem_cons_self]
      exact ih bs (fun b hb => h b (List.mem_cons_of_mem _ hb))

theorem xorSel_append : ∀ (A B : List (List Nat)) (m1 m2 : List Bool), (∀ X ∈ A, StrictSorted X) →
    (∀ X ∈ B, StrictSorted X) → m1.length = A.length →
    xorSel (A ++ B) (m1 ++ m2) = xorMerge (xorSel A m1) (xorSel B m2) := by
  intro A
  induction A with
  | nil =>
    intro B m1 m2 _ _ hl
    have : m1 = [] := List.eq_nil_of_length_eq_zero hl
    subst this
    simp [xorSel, xorMerge_nil_left]
  | cons c cs ih =>
    intro B m1 m2 hA hB hl
    cases m1 with
    | nil => simp at hl
    | cons b bs =>
      simp only [List.length_cons, Nat.add_right_cancel_iff] at hl
      have h' := ih B bs m2 (fun X hX => hA X (List.mem_cons_of_mem _ hX)) hB hl
      rw [List.cons_append, List.cons_append, xorSel_cons, xorSel_cons, h']
      cases b with
      | false => rfl
      | true =>
        simp only [if_true]
        rw [xorMerge_assoc _ _ _ (hA c List.mem_cons_self)
          (xorSel_sorted cs bs (fun X hX => hA X (List.mem_cons_of_mem _ hX))) (xorSel_sorted B m2 hB)]

theorem zip_cover {α β : Type} : ∀ (L : List α) (D : List β) (X : α), L.length ≤ D.length → X ∈ L →
    ∃ e, (X, e) ∈ L.zip D := by
  intro L
  induction L with
  | nil => intro D X _ h; cases h
  | cons c cs ih =>
    intro D X hl hX
    cases D with
    | nil => simp at hl
    | cons e D =>
      rcases List.mem_cons.1 hX with h | h
      · subst h; exact ⟨e, by simp⟩
      · obtain ⟨e', he'⟩ := ih D X (by simpa using hl) h
        exact ⟨e', by rw [List.zip_cons_cons]; exact List.mem_cons_of_mem _ he'⟩

/-- each `D[i]` is private to the `i`-th member: a selection contains it iff the member is selected -/
theorem xorSel_private (InR : Nat → Prop) : ∀ (L : List (List Nat)) (D : List Nat) (mask : List Bool),
    L.length = D.length → mask.length = D.length → D.Nodup → (∀ e ∈ D, ¬ InR e) →
    (∀ p ∈ L.zip D, StrictSorted p.1 ∧ p.2 ∈ p.1 ∧ ∀ z ∈ p.1, InR z ∨ z = p.2) →
    ∀ q ∈ D.zip mask, (q.1 ∈ xorSel L mask ↔ q.2 = true) := by
  intro L
  induction L with
  | nil =>
    intro D mask hl _ _ _ _ q hq
    have : D = [] := List.eq_nil_of_length_eq_zero hl.symm
    subst this; simp at hq
  | cons X L ih =>
    intro D mask hl hml hnd hD hzip q hq
    match D, mask, hl, hml, hnd, hD, hzip, hq with
    | e :: D, b :: mask, hl, hml, hnd, hD, hzip, hq =>
      simp only [List.length_cons, Nat.add_right_cancel_iff] at hl hml
      have hnd' := List.nodup_cons.1 hnd
      have hX := hzip (X, e) (by simp)
      have hzip' : ∀ p ∈ L.zip D, StrictSorted p.1 ∧ p.2 ∈ p.1 ∧ ∀ z ∈ p.1, InR z ∨ z = p.2 :=
        fun p hp => hzip p (by rw [List.zip_cons_cons]; exact List.mem_cons_of_mem _ hp)
      have hLs : ∀ Y ∈ L, StrictSorted Y := by
        intro Y hY
        obtain ⟨e', he'⟩ := zip_cover L D Y (by omega) hY
        exact (hzip' _ he').1
      have hS := xorSel_sorted L mask hLs
      have hSmem : ∀ z ∈ xorSel L mask, InR z ∨ z ∈ D := by
        intro z hz
        obtain ⟨Y, hY, hzY⟩ := xorSel_mem_sub L mask z hz
        obtain ⟨e', he'⟩ := zip_cover L D Y (by omega) hY
        rcases (hzip' _ he').2.2 z hzY with h | h
        · exact Or.inl h
        · exact Or.inr (h ▸ (List.of_mem_zip he').2)
      have ih' := ih D mask hl hml hnd'.2 (fun e he => hD e (List.mem_cons_of_mem _ he)) hzip'
      rw [List.zip_cons_cons] at hq
      rw [xorSel_cons]
      rcases List.mem_cons.1 hq with hq' | hq'
      · subst hq'
        have heS : e ∉ xorSel L mask := by
          intro h
          rcases hSmem e h with h | h
          · exact hD e List.mem_cons_self h
          · exact hnd'.1 h
        cases b with
        | false => simpa using heS
        | true =>
          simp only [if_true, mem_xorMerge _ _ hX.1 hS]
          simp [hX.2.1, heS]
      · have hqD : q.1 ∈ D := (List.of_mem_zip (a := q.1) (b := q.2) hq').1
        have hqX : q.1 ∉ X := by
          intro h
          rcases hX.2.2 q.1 h with h | h
          · exact hD q.1 (List.mem_cons_of_mem _ hqD) h
          · have h : q.1 = e := h
            exact hnd'.1 (h ▸ hqD)
        cases b with
        | false => simpa using ih' q hq'
        | true =>
          simp only [if_true, mem_xorMerge _ _ hX.1 hS]
          rw [← ih' q hq']
          simp [hqX]


theorem zip_cover_right {α β : Type} : ∀ (D : List α) (M : List β) (b : β), M.length ≤ D.length → b ∈ M →
    ∃ e, (e, b) ∈ D.zip M := by
  intro D
  induction D with
  | nil =>
    intro M b hl hb
    have : M = [] := List.eq_nil_of_length_eq_zero (Nat.le_zero.1 hl)
    subst this; cases hb
  | cons e D ih =>
    intro M b hl hb
    cases M with
    | nil => cases hb
    | cons c M =>
      rcases List.mem_cons.1 hb with h | h
      · subst h; exact ⟨e, by simp⟩
      · obtain ⟨e', he'⟩ := ih M b (by simpa using hl) h
        exact ⟨e', by rw [List.zip_cons_cons]; exact List.mem_cons_of_mem _ he'⟩

theorem zip_map_self {β : Type} (f : Nat → β) : ∀ (D : List Nat) (q : Nat × β), q ∈ D.zip (D.map f) → q.2 = f q.1 := by
  intro D
  induction D with
  | nil => intro q hq; simp at hq
  | cons e D ih =>
    intro q hq
    rw [List.map_cons, List.zip_cons_cons] at hq
    rcases List.mem_cons.1 hq with h | h
    · subst h; rfl
    · exact ih q h

/-- the cycle closed by a dropped edge and a duplicate-free path between its endpoints is an element of
the cycle space -/
theorem edgeCycle_even (g : Graph) (p : List Nat) (e : Nat) (hp : p.Nodup) (hep : e ∉ p)
    (hlt : ∀ f ∈ p, f < g.m) (he : e < g.m) (hw : isWalk g p (g.src e) (g.tgt e) = true) :
    EvenSet g (setOf (edgeCycle p e)) := by
  unfold edgeCycle
  refine ⟨setOf_sorted _, ?_, ?_⟩
  · intro f hf
    rw [mem_setOf] at hf
    rcases List.mem_append.1 hf with h | h
    · exact hlt f h
    · rw [List.mem_singleton] at h; subst h; exact he
  · intro v
    have hnd : (p ++ [e]).Nodup := by
      rw [List.nodup_append]
      refine ⟨hp, by simp, ?_⟩
      intro a ha b hb hab
      rw [List.mem_singleton] at hb
      exact hep (hb ▸ hab ▸ ha)
    rw [par_setOf _ hnd, walk_boundary g _ _ _ (isWalk_snoc g p e _ _ _ hw (Or.inr ⟨rfl, rfl⟩)) v]
    cases (v == g.src e) <;> rfl

theorem assembled_basis (g : Graph) (R D : List Nat) (Bs paths : List (List Nat))
    (part : (R ++ D).Perm (List.range g.m))
    (bs_even : ∀ C ∈ Bs, EvenSet g C ∧ ∀ e ∈ C, e ∈ R)
    (bs_indep : ∀ mask : List Bool, mask.length = Bs.length → true ∈ mask → xorSel Bs mask ≠ [])
    (bs_spans : ∀ Z, EvenSet g Z → (∀ e ∈ Z, e ∈ R) →
      ∃ mask : List Bool, mask.length = Bs.length ∧ xorSel Bs mask = Z)
    (plen : paths.length = D.length)
    (pwalk : ∀ (i : Nat) p e, paths[i]? = some p → D[i]? = some e →
      p.Nodup ∧ (∀ f ∈ p, f ∈ R) ∧ isWalk g p (g.src e) (g.tgt e) = true) :
    IsBasis g (Bs ++ (paths.zip D).map fun (p, e) => setOf (edgeCycle p e)) := by
  have hndRD : (R ++ D).Nodup := part.nodup_iff.2 List.nodup_range
  have hnd' := List.nodup_append.1 hndRD
  have hDnd : D.Nodup := hnd'.2.1
  have hdisj : ∀ e ∈ D, e ∉ R := fun e he hr => hnd'.2.2 e hr e he rfl
  have hcover : ∀ e, e < g.m → e ∈ R ∨ e ∈ D := fun e he =>
    List.mem_append.1 (part.mem_iff.2 (List.mem_range.2 he))
  have hRlt : ∀ e ∈ R, e < g.m := fun e he =>
    List.mem_range.1 (part.mem_iff.1 (List.mem_append_left _ he))
  have hDlt : ∀ e ∈ D, e < g.m := fun e he =>
    List.mem_range.1 (part.mem_iff.1 (List.mem_append_right _ he))
  generalize hXs : ((paths.zip D).map fun (p, e) => setOf (edgeCycle p e)) = Xs
  have hXlen : Xs.length = D.length := by rw [← hXs]; simp [plen]
  -- what is known about the `i`-th assembled cycle
  have hX : ∀ (i : Nat) X e, Xs[i]? = some X → D[i]? = some e →
      EvenSet g X ∧ e ∈ X ∧ ∀ z ∈ X, z ∈ R ∨ z = e := by
    intro i X e h1 h2
    rw [← hXs, List.getElem?_map] at h1
    cases hpe : (paths.zip D)[i]? with
    | none => rw [hpe] at h1; cases h1
    | some pe =>
      rw [hpe] at h1
      obtain ⟨h3, h4⟩ := List.getElem?_zip_eq_some.1 hpe
      rw [h2] at h4
      have h4 : e = pe.2 := Option.some.inj h4
      obtain ⟨a, b, c⟩ := pwalk i pe.1 e h3 h2
      have heD : e ∈ D := List.mem_of_getElem? h2
      have hX' : X = setOf (edgeCycle pe.1 e) := by rw [h4]; exact (Option.some.inj h1).symm
      have hep : e ∉ pe.1 := fun h => hdisj e heD (b e h)
      subst hX'
      refine ⟨edgeCycle_even g pe.1 e a hep (fun f hf => hRlt f (b f hf)) (hDlt e heD) c, ?_, ?_⟩
      · rw [mem_setOf]; unfold edgeCycle; simp
      · intro z hz
        rw [mem_setOf] at hz; unfold edgeCycle at hz
        rcases List.mem_append.1 hz with h | h
        · exact Or.inl (b z h)
        · exact Or.inr (List.mem_singleton.1 h)
  have hXeven : ∀ X ∈ Xs, EvenSet g X := by
    intro X hXm
    obtain ⟨i, hi, hiX⟩ := List.getElem_of_mem hXm
    have hiD : i < D.length := hXlen ▸ hi
    exact (hX i X D[i] (by rw [List.getElem?_eq_getElem hi, hiX]) (List.getElem?_eq_getElem hiD)).1
  have hzip : ∀ p ∈ Xs.zip D, StrictSorted p.1 ∧ p.2 ∈ p.1 ∧ ∀ z ∈ p.1, (z ∈ R) ∨ z = p.2 := by
    intro p hp
    obtain ⟨i, hi⟩ := List.mem_iff_getElem?.1 hp
    obtain ⟨h1, h2⟩ := List.getElem?_zip_eq_some.1 hi
    have := hX i p.1 p.2 h1 h2
    exact ⟨this.1.1, this.2⟩
  have hBsorted : ∀ X ∈ Bs, StrictSorted X := fun X h => (bs_even X h).1.1
  have hXsorted : ∀ X ∈ Xs, StrictSorted X := fun X h => (hXeven X h).1
  have hBmem : ∀ (m1 : List Bool) z, z ∈ xorSel Bs m1 → z ∈ R := by
    intro m1 z hz
    obtain ⟨C, hC, hzC⟩ := xorSel_mem_sub Bs m1 z hz
    exact (bs_even C hC).2 z hzC
  have hpriv := fun (mask : List Bool) (hm : mask.length = D.length) =>
    xorSel_private (fun z => z ∈ R) Xs D mask hXlen hm hDnd hdisj hzip
  refine ⟨?_, ?_, ?_⟩
  · intro C hC
    rcases List.mem_append.1 hC with h | h
    · exact (bs_even C h).1
    · exact hXeven C h
  · intro mask hlen htrue hnil
    rw [List.length_append] at hlen
    have hsplit : mask.take Bs.length ++ mask.drop Bs.length = mask := List.take_append_drop _ _
    have hl1 : (mask.take Bs.length).length = Bs.length := by rw [List.length_take]; omega
    have hl2 : (mask.drop Bs.length).length = D.length := by rw [List.length_drop]; omega
    generalize mask.take Bs.length = m1 at hsplit hl1
    generalize mask.drop Bs.length = m2 at hsplit hl2
    subst hsplit
    rw [xorSel_append Bs Xs m1 m2 hBsorted hXsorted hl1] at hnil
    have hS1 := xorSel_sorted Bs m1 hBsorted
    have hS2 := xorSel_sorted Xs m2 hXsorted
    have hfalse : ∀ b ∈ m2, b = false := by
      intro b hb
      obtain ⟨e, he⟩ := zip_cover_right D m2 b (by omega) hb
      have h1 := hpriv m2 hl2 (e, b) he
      have heD : e ∈ D := (List.of_mem_zip he).1
      have h2 : e ∉ xorSel Bs m1 := fun h => hdisj e heD (hBmem m1 e h)
      have h3 : e ∉ xorMerge (xorSel Bs m1) (xorSel Xs m2) := by rw [hnil]; exact List.not_mem_nil
      rw [mem_xorMerge _ _ hS1 hS2] at h3
      cases b with
      | false => rfl
      | true =>
        have : e ∈ xorSel Xs m2 := h1.2 rfl
        simp [h2, this] at h3
    rw [xorSel_all_false Xs m2 hfalse, xorMerge_nil_right] at hnil
    rcases List.mem_append.1 htrue with h | h
    · exact bs_indep m1 hl1 h hnil
    · exact absurd (hfalse true h) (by decide)
  · intro Z hZ
    have hm2 : (D.map fun e => decide (e ∈ Z)).length = D.length := by simp
    generalize hm2def : (D.map fun e => decide (e ∈ Z)) = m2 at hm2
    have hS2 := xorSel_sorted Xs m2 hXsorted
    have hS2even := xorSel_even g Xs m2 hXeven
    have hZ' : EvenSet g (xorMerge Z (xorSel Xs m2)) := hZ.add hS2even
    have hZ'R : ∀ z ∈ xorMerge Z (xorSel Xs m2), z ∈ R := by
      intro z hz
      rcases hcover z (hZ'.2.1 z hz) with h | h
      · exact h
      · exfalso
        obtain ⟨b, hb⟩ := zip_cover D m2 z (by omega) h
        have hbz : b = decide (z ∈ Z) := by
          rw [← hm2def] at hb; exact zip_map_self _ D (z, b) hb
        have h1 := hpriv m2 hm2 (z, b) hb
        rw [mem_xorMerge _ _ hZ.1 hS2] at hz
        simp only [h1, hbz, decide_eq_true_eq] at hz
        exact hz rfl
    obtain ⟨m1, hl1, hm1⟩ := bs_spans _ hZ' hZ'R
    refine ⟨m1 ++ m2, by simp [hl1, hm2, hXlen], ?_⟩
    rw [xorSel_append Bs Xs m1 m2 hBsorted hXsorted hl1, hm1, xorMerge_assoc _ _ _ hZ.1 hS2 hS2,
      xorMerge_self, xorMerge_nil_right]


theorem sum_weight_le (g : Graph) (w : Int) : ∀ (es : List Nat), (∀ f ∈ es, g.weight f ≤ w) →
    (es.map g.weight).sum ≤ (es.length : Int) * w := by
  intro es
  induction es with
  | nil => intro _; simp
  | cons x es ih =>
    intro h
    have h1 := h x List.mem_cons_self
    have h2 := ih (fun f hf => h f (List.mem_cons_of_mem _ hf))
    simp only [List.map_cons, List.sum_cons, List.length_cons]
    rw [Int.natCast_add, Int.add_mul]
    simp only [Int.cast_ofNat_Int, Int.one_mul]
    omega

theorem edge_cycle_bound (g : Graph) (hs : g.simpleB = true) (hp : g.positiveB = true) (k : Nat) (hk : 1 ≤ k)
    (scan : List Nat) (hscan : scanOkB g scan = true) (e : Nat) (he : e ∈ (constructSpanner g k scan).2)
    (p : List Nat)
    (hshort : ∀ es : List Nat, (∀ f ∈ es, f ∈ (constructSpanner g k scan).1) →
        isWalk g es (g.src e) (g.tgt e) = true → (p.map g.weight).sum ≤ (es.map g.weight).sum) :
    ((edgeCycle p e).map g.weight).sum ≤ 2 * (k : Int) * g.weight e := by
  obtain ⟨es, h1, h2, h3⟩ := spanner_stretch g hs k hk scan hscan e he
  have hes : e ∈ scan := (spanner_partition g k scan).2.2.subset he
  have hem : e < g.m := List.mem_range.1 ((scan_perm g scan hscan).mem_iff.1 hes)
  have hw : 0 < g.weight e := positiveB_facts g hp e hem
  have h4 := hshort es (fun f hf => (h3 f hf).1) h2
  have h5 := sum_weight_le g (g.weight e) es (fun f hf => (h3 f hf).2)
  have h6 : (es.length : Int) * g.weight e ≤ ((2 * k - 1 : Nat) : Int) * g.weight e :=
    Int.mul_le_mul_of_nonneg_right (Int.ofNat_le.2 h1) (Int.le_of_lt hw)
  have h7 : ((2 * k - 1 : Nat) : Int) = 2 * (k : Int) - 1 := by omega
  rw [h7, Int.sub_mul, Int.one_mul] at h6
  unfold edgeCycle
  simp only [List.map_append, List.sum_append, List.map_cons, List.map_nil, List.sum_cons, List.sum_nil]
  omega

end Parmcb.Spanner
