import Parmcb.Model.TreesAlgo
import Parmcb.Lemmas.Horton
import Parmcb.Lemmas.IsoE
import Parmcb.Lemmas.Sched
import Parmcb.Props.C02e
import Parmcb.Props.C03
/-!
End-to-end correctness of the literal model of the tree variants (`Model/TreesAlgo.lean`): the candidate builder with its
weight limit, the sequential and the TBB lookup, the main loop, and the composition with ForestIndex, greedy_fvs, the
lexicographic trees and the candidate collections.  Core Lean only.
-/
namespace Parmcb

/-- what `std::sort` by weight guarantees, whatever it does with ties -/
def SortOK (sorter : List Cand → List Cand) : Prop :=
  ∀ l, (sorter l).Perm l ∧ (sorter l).Pairwise (fun a b => a.weight ≤ b.weight)

/-- the cycles the candidates of a list stand for -/
def InCands (g : Graph) (trees : List SPTree) (cands : List Cand) (C : List Nat) : Prop :=
  ∃ c ∈ cands, ∃ t, trees[c.tree]? = some t ∧ unfoldCand g t c = some C

/-- every candidate of the list was created by `create_candidate_cycles` of a certified tree -/
def CandsOK (g : Graph) (trees : List SPTree) (cands : List Cand) : Prop :=
  (∀ t ∈ trees, checkSPT g t = true ∧ checkFirst g t = true) ∧
  ∀ c ∈ cands, ∃ t, trees[c.tree]? = some t ∧ c ∈ createCandidates g t c.tree (List.range g.m)

namespace TreesAlgoL
open Parmcb.TreesL

theorem setOf_congr (a b : List Nat) (h : ∀ z, z ∈ a ↔ z ∈ b) : setOf a = setOf b := by
  apply StrictSorted.ext (setOf_sorted a) (setOf_sorted b)
  intro z
  rw [mem_setOf, mem_setOf]; exact h z

/-- the weight-limit test of `CandidateCycleBuilder` -/
def overLim (limit : Option Int) (cw : Int) : Bool :=
  match limit with | some l => decide (l < cw) | none => false

theorem overLim_false (limit : Option Int) (cw : Int) (h : ∀ l, limit = some l → cw ≤ l) : overLim limit cw = false := by
  cases limit with
  | none => rfl
  | some l => have := h l rfl; simp only [overLim, decide_eq_false_iff_not]; omega

theorem overLim_true (l cw : Int) (h : l < cw) : overLim (some l) cw = true := by
  simp only [overLim, decide_eq_true_eq]; exact h

/-- `walkUp` follows `rootPath`; with non-negative weights the limit test fires iff the total exceeds the limit -/
theorem walkUp_spec (g : Graph) (t : SPTree) (limit : Option Int) :
    ∀ (fuel v : Nat) (acc : List Nat) (cw : Int),
      (rootPath g t fuel v).Nodup → (∀ a ∈ rootPath g t fuel v, a ∉ acc) →
      (∀ a ∈ rootPath g t fuel v, 0 ≤ g.weight a) →
      ((∀ l, limit = some l → cw + wt g (rootPath g t fuel v) ≤ l) →
        walkUp g t limit fuel v acc cw =
          some ((rootPath g t fuel v).reverse ++ acc, cw + wt g (rootPath g t fuel v))) ∧
      ((∃ l, limit = some l ∧ cw ≤ l ∧ l < cw + wt g (rootPath g t fuel v)) →
        walkUp g t limit fuel v acc cw = none) := by
  intro fuel
  induction fuel with
  | zero =>
    intro v acc cw _ _ _
    simp only [rootPath, walkUp, wt_nil, List.reverse_nil, List.nil_append, Int.add_zero]
    refine ⟨fun _ => trivial, ?_⟩
    rintro ⟨l, _, h1, h2⟩; omega
  | succ fuel ih =>
    intro v acc cw hnd hdis hpos
    cases hpe : t.pred.getD v none with
    | none =>
      simp only [rootPath, walkUp, hpe, wt_nil, List.reverse_nil, List.nil_append, Int.add_zero]
      refine ⟨fun _ => trivial, ?_⟩
      rintro ⟨l, _, h1, h2⟩; omega
    | some a =>
      have hrp : rootPath g t (fuel + 1) v = a :: rootPath g t fuel (g.other a v) := by
        simp only [rootPath, hpe]
      rw [hrp] at hnd hdis hpos ⊢
      have hnd' := List.nodup_cons.1 hnd
      have ha : acc.contains a = false := by
        have := hdis a List.mem_cons_self
        simpa using this
      have hdis' : ∀ b ∈ rootPath g t fuel (g.other a v), b ∉ a :: acc := by
        intro b hb hmem
        rcases List.mem_cons.1 hmem with h | h
        · subst h; exact hnd'.1 hb
        · exact hdis b (List.mem_cons_of_mem _ hb) h
      have hpos' : ∀ b ∈ rootPath g t fuel (g.other a v), 0 ≤ g.weight b :=
        fun b hb => hpos b (List.mem_cons_of_mem _ hb)
      have hwp : 0 ≤ wt g (rootPath g t fuel (g.other a v)) := by
        generalize rootPath g t fuel (g.other a v) = p at hpos'
        induction p with
        | nil => rw [wt_nil]; omega
        | cons x r ihp =>
          rw [wt_cons]
          have := hpos' x List.mem_cons_self
          have := ihp (fun b hb => hpos' b (List.mem_cons_of_mem _ hb))
          omega
      have hwa := hpos a List.mem_cons_self
      obtain ⟨ih1, ih2⟩ := ih (g.other a v) (a :: acc) (cw + g.weight a) hnd'.2 hdis' hpos'
      have hunf : walkUp g t limit (fuel + 1) v acc cw =
          if overLim limit (cw + g.weight a) = true then none
          else walkUp g t limit fuel (g.other a v) (a :: acc) (cw + g.weight a) := by
        simp only [walkUp, hpe, ha]
        rfl
      rw [hunf, wt_cons]
      constructor
      · intro hl
        have hc : overLim limit (cw + g.weight a) = false :=
          overLim_false _ _ (by intro l hl'; have := hl l hl'; omega)
        rw [hc, if_neg (by simp), ih1 (by intro l hl'; have := hl l hl'; omega)]
        simp only [List.reverse_cons, List.append_assoc, List.singleton_append, Int.add_assoc]
      · rintro ⟨l, rfl, h1, h2⟩
        by_cases hlt : l < cw + g.weight a
        · rw [if_pos (overLim_true _ _ hlt)]
        · rw [overLim_false _ _ (by intro l' hl'; cases hl'; omega), if_neg (by simp)]
          exact ih2 ⟨l, rfl, by omega, by omega⟩

theorem wt_nonneg' (g : Graph) (hp : g.positiveB = true) (Z : List Nat) (hZ : ∀ e ∈ Z, e < g.m) :
    ∀ a ∈ Z, 0 ≤ g.weight a := by
  intro a ha
  have := positiveB_facts g hp a (hZ a ha)
  omega

/-- **the candidate builder**: for a created candidate of a certified tree, `CandidateCycleBuilder` returns the unfolded
cycle with its true weight exactly when the candidate is odd against the signed edges and not heavier than the limit;
the duplicate-edge test never fires -/
theorem buildCandLim_spec (g : Graph) (hs : g.simpleB = true) (hp : g.positiveB = true) (trees : List SPTree) (t : SPTree)
    (c : Cand) (ht : trees[c.tree]? = some t) (hc : checkSPT g t = true) (hf : checkFirst g t = true)
    (hmem : c ∈ createCandidates g t c.tree (List.range g.m)) (S : List Nat) (L : Option Int) :
    ∃ Z, unfoldCand g t c = some Z ∧ wt g Z = c.weight ∧
      buildCandLim g trees S L c =
        if candOdd g t S c = true ∧ (∀ l, L = some l → c.weight ≤ l) then some (Z, c.weight) else none := by
  obtain ⟨dv, du, he, hnd, w1, w2, k1, k2, hw, hlt⟩ := cand_core g hs hp t c.tree hc hf c hmem
  have hnd' := List.nodup_cons.1 hnd
  have hnd2 := List.nodup_append.1 hnd'.2
  have hwe := positiveB_facts g hp c.edge he
  have hlt1 : ∀ f ∈ rootPath g t g.n (g.src c.edge), f < g.m := fun f h => hlt f (List.mem_append_left _ h)
  have hlt2 : ∀ f ∈ rootPath g t g.n (g.tgt c.edge), f < g.m := fun f h => hlt f (List.mem_append_right _ h)
  have hdv : 0 ≤ dv := by rw [← k1]; exact wt_nonneg g hp _ hlt1
  have hdu : 0 ≤ du := by rw [← k2]; exact wt_nonneg g hp _ hlt2
  refine ⟨setOf (c.edge :: (rootPath g t g.n (g.src c.edge) ++ rootPath g t g.n (g.tgt c.edge))), ?_, ?_, ?_⟩
  · unfold unfoldCand
    simp only
    rw [eraseDups_of_nodup _ hnd, if_pos rfl]
  · rw [wt_setOf g _ hnd, wt_cons, wt_app, k1, k2, hw]; omega
  · have hunf : buildCandLim g trees S L c =
        if candOdd g t S c = true then
          if overLim L (g.weight c.edge) = true then none
          else
            match walkUp g t L g.n (g.src c.edge) [c.edge] (g.weight c.edge) with
            | none => none
            | some (acc1, cw1) =>
              match walkUp g t L g.n (g.tgt c.edge) acc1 cw1 with
              | none => none
              | some (acc2, cw2) => some (setOf acc2, cw2)
        else none := by
      simp only [buildCandLim, ht]
      rfl
    rw [hunf]
    by_cases hodd : candOdd g t S c = true
    · rw [if_pos hodd]
      obtain ⟨a1, a2⟩ := walkUp_spec g t L g.n (g.src c.edge) [c.edge] (g.weight c.edge) hnd2.1
        (by
          intro a ha hm
          rw [List.mem_singleton] at hm; subst hm
          exact hnd'.1 (List.mem_append_left _ ha))
        (wt_nonneg' g hp _ hlt1)
      rw [k1] at a1 a2
      by_cases hL : ∀ l, L = some l → c.weight ≤ l
      · rw [if_pos (And.intro hodd hL), overLim_false _ _ (by intro l hl; have := hL l hl; omega), if_neg (by simp),
          a1 (by intro l hl; have := hL l hl; omega)]
        simp only
        obtain ⟨b1, _⟩ := walkUp_spec g t L g.n (g.tgt c.edge)
          ((rootPath g t g.n (g.src c.edge)).reverse ++ [c.edge]) (g.weight c.edge + dv) hnd2.2.1
          (by
            intro a ha hm
            rcases List.mem_append.1 hm with h | h
            · exact hnd2.2.2 a (List.mem_reverse.1 h) a ha rfl
            · rw [List.mem_singleton] at h; subst h
              exact hnd'.1 (List.mem_append_right _ ha))
          (wt_nonneg' g hp _ hlt2)
        rw [k2] at b1
        rw [b1 (by intro l hl; have := hL l hl; omega)]
        simp only
        have e1 : g.weight c.edge + dv + du = c.weight := by omega
        rw [e1]
        congr 2
        apply setOf_congr
        intro z
        simp only [List.mem_append, List.mem_reverse, List.mem_cons, List.not_mem_nil, or_false]
        constructor
        · rintro (h | h | h)
          · exact Or.inr (Or.inr h)
          · exact Or.inr (Or.inl h)
          · exact Or.inl h
        · rintro (h | h | h)
          · exact Or.inr (Or.inr h)
          · exact Or.inr (Or.inl h)
          · exact Or.inl h
      · rw [if_neg (show ¬ (candOdd g t S c = true ∧ ∀ l, L = some l → c.weight ≤ l) from fun h => hL h.2)]
        have hL' : ∃ l, L = some l ∧ l < c.weight := by
          apply Classical.byContradiction
          intro hno
          apply hL
          intro l hl
          apply Classical.byContradiction
          intro hlt
          exact hno ⟨l, hl, by omega⟩
        obtain ⟨l, rfl, hl⟩ := hL'
        by_cases h0 : l < g.weight c.edge
        · rw [if_pos (overLim_true _ _ h0)]
        · rw [overLim_false _ _ (by intro l' hl'; cases hl'; omega), if_neg (by simp)]
          by_cases h1 : l < g.weight c.edge + dv
          · rw [a2 ⟨l, rfl, by omega, h1⟩]
          · rw [a1 (by intro l' hl'; cases hl'; omega)]
            simp only
            obtain ⟨_, b2⟩ := walkUp_spec g t (some l) g.n (g.tgt c.edge)
              ((rootPath g t g.n (g.src c.edge)).reverse ++ [c.edge]) (g.weight c.edge + dv) hnd2.2.1
              (by
                intro a ha hm
                rcases List.mem_append.1 hm with h | h
                · exact hnd2.2.2 a (List.mem_reverse.1 h) a ha rfl
                · rw [List.mem_singleton] at h; subst h
                  exact hnd'.1 (List.mem_append_right _ ha))
              (wt_nonneg' g hp _ hlt2)
            rw [k2] at b2
            rw [b2 ⟨l, rfl, by omega, by omega⟩]
    · rw [if_neg hodd, if_neg (show ¬ (candOdd g t S c = true ∧ ∀ l, L = some l → c.weight ≤ l) from fun h => hodd h.1)]

/-- everything the lookups need to know about a candidate `c` and the cycle `C` it stands for -/
def Rep (g : Graph) (trees : List SPTree) (S : List Nat) (c : Cand) (C : List Nat) : Prop :=
  wt g C = c.weight ∧ EvenSet g C ∧
  (∀ L, dotPar C S = true → (∀ l, L = some l → c.weight ≤ l) → buildCandLim g trees S L c = some (C, c.weight)) ∧
  (∀ L r, buildCandLim g trees S L c = some r → dotPar C S = true ∧ r = (C, c.weight))

theorem rep_of (g : Graph) (hs : g.simpleB = true) (hp : g.positiveB = true) (trees : List SPTree)
    (cands : List Cand) (hok : CandsOK g trees cands) (S : List Nat) (hS : StrictSorted S)
    (c : Cand) (hc : c ∈ cands) (t : SPTree) (ht : trees[c.tree]? = some t) (C : List Nat)
    (hC : unfoldCand g t c = some C) : Rep g trees S c C := by
  obtain ⟨t', ht', hmem⟩ := hok.2 c hc
  rw [ht] at ht'; cases ht'
  obtain ⟨hck, hcf⟩ := hok.1 t (List.mem_of_getElem? ht)
  obtain ⟨Z, hZ, hE, _, _⟩ := cand_sound g hs hp t c.tree hck hcf c hmem
  rw [hC] at hZ; cases hZ
  have hpar := parity_label g hs hp t c.tree hck hcf c hmem S hS C hC
  refine ⟨?_, hE, ?_, ?_⟩
  · obtain ⟨Z, hZ, hw, _⟩ := buildCandLim_spec g hs hp trees t c ht hck hcf hmem S none
    rw [hC] at hZ; cases hZ; exact hw
  · intro L hodd hL
    obtain ⟨Z, hZ, hw, hb⟩ := buildCandLim_spec g hs hp trees t c ht hck hcf hmem S L
    rw [hC] at hZ; cases hZ
    rw [hb, if_pos (And.intro (hpar.trans hodd) hL)]
  · intro L r hr
    obtain ⟨Z, hZ, hw, hb⟩ := buildCandLim_spec g hs hp trees t c ht hck hcf hmem S L
    rw [hC] at hZ; cases hZ
    rw [hb] at hr
    split at hr
    · rename_i h
      cases hr
      exact ⟨hpar.symm.trans h.1, rfl⟩
    · cases hr

theorem rep_A (g : Graph) (hs : g.simpleB = true) (hp : g.positiveB = true) (trees : List SPTree)
    (cands : List Cand) (hok : CandsOK g trees cands) (S : List Nat) (hS : StrictSorted S)
    (c : Cand) (hc : c ∈ cands) : ∃ C, InCands g trees cands C ∧ Rep g trees S c C := by
  obtain ⟨t, ht, hmem⟩ := hok.2 c hc
  obtain ⟨hck, hcf⟩ := hok.1 t (List.mem_of_getElem? ht)
  obtain ⟨Z, hZ, _⟩ := cand_sound g hs hp t c.tree hck hcf c hmem
  exact ⟨Z, ⟨c, hc, t, ht, hZ⟩, rep_of g hs hp trees cands hok S hS c hc t ht Z hZ⟩

theorem rep_B (g : Graph) (hs : g.simpleB = true) (hp : g.positiveB = true) (trees : List SPTree)
    (cands : List Cand) (hok : CandsOK g trees cands) (S : List Nat) (hS : StrictSorted S)
    (C : List Nat) (hC : InCands g trees cands C) : ∃ c ∈ cands, Rep g trees S c C := by
  obtain ⟨c, hc, t, ht, hZ⟩ := hC
  exact ⟨c, hc, rep_of g hs hp trees cands hok S hS c hc t ht C hZ⟩

/-- **sequential lookup**: over a weight-sorted list the first candidate that builds is a minimum-weight odd candidate -/
theorem lookupSorted_spec (g : Graph) (hs : g.simpleB = true) (hp : g.positiveB = true) (trees : List SPTree)
    (cands : List Cand) (hok : CandsOK g trees cands) (hsorted : cands.Pairwise (fun a b => a.weight ≤ b.weight))
    (S : List Nat) (hS : StrictSorted S) :
    (∀ r, lookupSorted g trees cands S = some r →
        PhaseOKIn g (InCands g trees cands) S r.1 ∧ r.2 = wt g r.1) ∧
    (lookupSorted g trees cands S = none → ∀ C, InCands g trees cands C → dotPar C S = false) := by
  unfold lookupSorted
  constructor
  · intro r hr
    rw [List.findSome?_eq_some_iff] at hr
    obtain ⟨l₁, a, l₂, hsplit, hfa, hpre⟩ := hr
    have ha : a ∈ cands := by rw [hsplit]; simp
    obtain ⟨C, hCin, hrep⟩ := rep_A g hs hp trees cands hok S hS a ha
    obtain ⟨hodd, hr⟩ := hrep.2.2.2 none r hfa
    subst hr
    refine ⟨⟨hCin, hrep.2.1, hodd, ?_⟩, hrep.1.symm⟩
    intro Z hZin _ hZodd
    obtain ⟨c', hc', hrep'⟩ := rep_B g hs hp trees cands hok S hS Z hZin
    rw [hrep.1, hrep'.1]
    rw [hsplit] at hc' hsorted
    rcases List.mem_append.1 hc' with h | h
    · have h1 := hpre c' h
      rw [hrep'.2.2.1 none hZodd (by intro l hl; cases hl)] at h1
      cases h1
    · rcases List.mem_cons.1 h with h | h
      · subst h; exact Int.le_refl _
      · exact (List.pairwise_cons.1 (List.pairwise_append.1 hsorted).2.1).1 c' h
  · intro hnone C hCin
    rw [List.findSome?_eq_none_iff] at hnone
    obtain ⟨c, hc, hrep⟩ := rep_B g hs hp trees cands hok S hS C hCin
    cases hd : dotPar C S with
    | false => rfl
    | true =>
      have h1 := hnone c hc
      rw [hrep.2.2.1 none hd (by intro l hl; cases hl)] at h1
      cases h1

/-! ### the result of a reduction is one of the values the searches returned -/

theorem takeBetter_pred {C : Type} (P : Int × C → Prop) (run res : Cyc C)
    (h1 : ∀ r, run = some r → P r) (h2 : ∀ r, res = some r → P r) : ∀ r, takeBetter run res = some r → P r := by
  cases run <;> cases res <;> simp only [takeBetter] <;> try assumption
  split <;> assumption

theorem cycleMin_pred {C : Type} (P : Int × C → Prop) (a b : Cyc C)
    (h1 : ∀ r, a = some r → P r) (h2 : ∀ r, b = some r → P r) : ∀ r, cycleMin a b = some r → P r := by
  cases a <;> cases b <;> simp only [cycleMin] <;> try assumption
  split <;> assumption

theorem minFold_pred {C : Type} (P : Int × C → Prop) (srch : Nat → Option Int → Cyc C) (lo hi : Nat)
    (hP : ∀ i L r, lo ≤ i → i < hi → srch i L = some r → P r)
    (is : List Nat) (his : ∀ i ∈ is, lo ≤ i ∧ i < hi) (x : Cyc C) (hx : ∀ r, x = some r → P r) :
    ∀ r, minFold srch is x = some r → P r := by
  induction is generalizing x with
  | nil => exact hx
  | cons i is ih =>
    rw [minFold_cons]
    have hi' := his i List.mem_cons_self
    exact ih (fun j hj => his j (List.mem_cons_of_mem _ hj)) _
      (takeBetter_pred P _ _ hx (fun r hr => hP i _ r hi'.1 hi'.2 hr))

theorem evalReduce_pred {C : Type} (P : Int × C → Prop) (srch : Nat → Option Int → Cyc C) (lo hi : Nat)
    (hP : ∀ i L r, lo ≤ i → i < hi → srch i L = some r → P r)
    {s : Sched} {a b : Nat} (hs : s.Covers a b) (ha : lo ≤ a) (hb : b ≤ hi) (x : Cyc C)
    (hx : ∀ r, x = some r → P r) :
    ∀ r, evalReduce (minBody srch) cycleMin none s x = some r → P r := by
  induction hs generalizing x with
  | leaf a b hab =>
    simp only [evalReduce, minBody_eq]
    exact minFold_pred P srch lo hi hP _ (fun i hi' => by rw [range'_sub_mem] at hi'; omega) x hx
  | seq hl hr ihl ihr =>
    have h1 := hl.le
    have h2 := hr.le
    simp only [evalReduce]
    exact ihr (by omega) hb _ (ihl ha (by omega) x hx)
  | fork hl hr ihl ihr =>
    have h1 := hl.le
    have h2 := hr.le
    simp only [evalReduce]
    exact cycleMin_pred P _ _ (ihl ha (by omega) x hx) (ihr (by omega) hb none (by intro r hr; cases hr))

theorem reduceMin_pred {C : Type} (P : Int × C → Prop) (srch : Nat → Option Int → Cyc C) (lo hi : Nat)
    (hP : ∀ i L r, lo ≤ i → i < hi → srch i L = some r → P r)
    {s : Sched} (hs : s.Covers lo hi) : ∀ r, reduceMin srch s = some r → P r :=
  evalReduce_pred P srch lo hi hP hs (Nat.le_refl _) (Nat.le_refl _) none (by intro r hr; cases hr)

theorem exists_min_weight (p : Cand → Prop) : ∀ (l : List Cand), (∃ c ∈ l, p c) →
    ∃ c ∈ l, p c ∧ ∀ c' ∈ l, p c' → c.weight ≤ c'.weight
  | [], h => by obtain ⟨c, hc, _⟩ := h; cases hc
  | a :: r, h => by
    by_cases hr : ∃ c ∈ r, p c
    · obtain ⟨c, hc, hpc, hmin⟩ := exists_min_weight p r hr
      by_cases hpa : p a ∧ a.weight < c.weight
      · refine ⟨a, List.mem_cons_self, hpa.1, ?_⟩
        intro c' hc' hpc'
        rcases List.mem_cons.1 hc' with e | e
        · subst e; exact Int.le_refl _
        · have := hmin c' e hpc'; omega
      · refine ⟨c, List.mem_cons_of_mem _ hc, hpc, ?_⟩
        intro c' hc' hpc'
        rcases List.mem_cons.1 hc' with e | e
        · subst e
          apply Classical.byContradiction
          intro hlt
          exact hpa ⟨hpc', by omega⟩
        · exact hmin c' e hpc'
    · obtain ⟨c, hc, hpc⟩ := h
      rcases List.mem_cons.1 hc with e | e
      · subst e
        refine ⟨c, List.mem_cons_self, hpc, ?_⟩
        intro c' hc' hpc'
        rcases List.mem_cons.1 hc' with e | e
        · subst e; exact Int.le_refl _
        · exact absurd ⟨c', e, hpc'⟩ hr
      · exact absurd ⟨c, e, hpc⟩ hr

/-- the per-index search of the TBB lookup -/
def tbbSrch (g : Graph) (trees : List SPTree) (cands : List Cand) (signed : List Nat) : Nat → Option Int → Cyc (List Nat) :=
  fun i L => match cands[i]? with
    | none => none
    | some c => (buildCandLim g trees signed L c).map fun r => (r.2, r.1)

theorem lookupTbb_eq (g : Graph) (trees : List SPTree) (cands : List Cand) (signed : List Nat) (s : Sched) :
    lookupTbb g trees cands signed s = (reduceMin (tbbSrch g trees cands signed) s).map fun r => (r.2, r.1) := rfl

/-- **TBB lookup**: the same, for EVERY execution of the `parallel_reduce` (any partition, any accumulation runs, any join
tree), with the running minimum used as weight limit inside each run -/
theorem lookupTbb_spec (g : Graph) (hs : g.simpleB = true) (hp : g.positiveB = true) (trees : List SPTree)
    (cands : List Cand) (hok : CandsOK g trees cands) (S : List Nat) (hS : StrictSorted S)
    (s : Sched) (hcov : s.Covers 0 cands.length) :
    (∀ r, lookupTbb g trees cands S s = some r →
        PhaseOKIn g (InCands g trees cands) S r.1 ∧ r.2 = wt g r.1) ∧
    (lookupTbb g trees cands S s = none → ∀ C, InCands g trees cands C → dotPar C S = false) := by
  rw [lookupTbb_eq]
  -- what a search result looks like
  have hsrch : ∀ i L r, tbbSrch g trees cands S i L = some r →
      ∃ c ∈ cands, InCands g trees cands r.2 ∧ Rep g trees S c r.2 ∧ dotPar r.2 S = true ∧ r.1 = c.weight := by
    intro i L r hr
    unfold tbbSrch at hr
    cases hci : cands[i]? with
    | none => rw [hci] at hr; cases hr
    | some c =>
      rw [hci] at hr
      simp only [Option.map_eq_some_iff] at hr
      obtain ⟨r', hr', hrr⟩ := hr
      have hc := List.mem_of_getElem? hci
      obtain ⟨C, hCin, hrep⟩ := rep_A g hs hp trees cands hok S hS c hc
      obtain ⟨hodd, hr2⟩ := hrep.2.2.2 L r' hr'
      subst hr2; subst hrr
      exact ⟨c, hc, hCin, hrep, hodd, rfl⟩
  by_cases hex : ∃ c ∈ cands, ∃ C, Rep g trees S c C ∧ dotPar C S = true
  · obtain ⟨cs, hcs, ⟨Cs, hreps, hodds⟩, hmin⟩ := exists_min_weight _ cands hex
    obtain ⟨istar, histar⟩ := List.mem_iff_getElem?.1 hcs
    have hilt : istar < cands.length := by
      rcases Nat.lt_or_ge istar cands.length with h | h
      · exact h
      · rw [List.getElem?_eq_none h] at histar; cases histar
    have hw : cycW (reduceMin (tbbSrch g trees cands S) s) = some cs.weight := by
      apply reduceMin_w (lo := 0) (hi := cands.length) _ _ hcov
      · intro i L r _ _ hr
        obtain ⟨c, hc, _, hrep, hodd, hrw⟩ := hsrch i L r hr
        rw [hrw]
        exact hmin c hc ⟨r.2, hrep, hodd⟩
      · refine ⟨istar, Nat.zero_le _, hilt, ?_⟩
        intro L hL
        refine ⟨Cs, ?_⟩
        unfold tbbSrch
        rw [histar]
        simp only
        rw [hreps.2.2.1 L hodds (by intro l hl; have := hL l hl; omega)]
        rfl
    cases hres : reduceMin (tbbSrch g trees cands S) s with
    | none => rw [hres] at hw; cases hw
    | some r =>
      rw [hres] at hw
      have hr1 : r.1 = cs.weight := by simpa [cycW] using hw
      obtain ⟨c, hc, hCin, hrep, hodd, hrw⟩ :=
        reduceMin_pred (fun r => ∃ c ∈ cands, InCands g trees cands r.2 ∧ Rep g trees S c r.2 ∧ dotPar r.2 S = true ∧
          r.1 = c.weight) (tbbSrch g trees cands S) 0 cands.length (fun i L r _ _ hr => hsrch i L r hr) hcov r hres
      constructor
      · intro r' hr'
        simp only [Option.map_some, Option.some.injEq] at hr'
        subst hr'
        refine ⟨⟨hCin, hrep.2.1, hodd, ?_⟩, ?_⟩
        · intro Z hZin _ hZodd
          obtain ⟨c', hc', hrep'⟩ := rep_B g hs hp trees cands hok S hS Z hZin
          have := hmin c' hc' ⟨Z, hrep', hZodd⟩
          show wt g r.2 ≤ wt g Z
          rw [hrep.1, hrep'.1, ← hrw, hr1]; exact this
        · show r.1 = wt g r.2
          rw [hrep.1, hrw]
      · intro h; simp at h
  · have hnone : reduceMin (tbbSrch g trees cands S) s = none := by
      apply C03.c03_reduce_none _ 0 cands.length _ s hcov
      intro i L _ _
      cases hr : tbbSrch g trees cands S i L with
      | none => rfl
      | some r =>
        obtain ⟨c, hc, _, hrep, hodd, _⟩ := hsrch i L r hr
        exact absurd ⟨c, hc, r.2, hrep, hodd⟩ hex
    rw [hnone]
    constructor
    · intro r hr; cases hr
    · intro _ C hCin
      obtain ⟨c, hc, hrep⟩ := rep_B g hs hp trees cands hok S hS C hCin
      cases hd : dotPar C S with
      | false => rfl
      | true => exact absurd ⟨c, hc, C, hrep, hd⟩ hex

/-- the contract of a per-phase lookup that the main loop needs -/
def LookupOK (g : Graph) (cand : List Nat → Prop) (lookup : Nat → List Nat → Option CycW) : Prop :=
  ∀ k S, StrictSorted S →
    (∀ r, lookup k S = some r → PhaseOKIn g cand S r.1 ∧ r.2 = wt g r.1) ∧
    (lookup k S = none → ∀ C, cand C → dotPar C S = false)

theorem swapAt_self (sup : List (List Nat)) (k : Nat) : swapAt sup k k = sup := by
  unfold swapAt
  cases h : sup[k]? with
  | none => rfl
  | some a =>
    simp only
    rw [List.set_set]
    apply List.ext_getElem?
    intro i
    rw [List.getElem?_set]
    split
    · rename_i hik; subst hik
      split
      · exact h.symm
      · rename_i hlt; rw [List.getElem?_eq_none (by omega)]
    · rfl

theorem phaseSupport_trees (sup : List (List Nat)) (k : Nat) : phaseSupport .trees sup k = sup.getD k [] := by
  unfold phaseSupport swapIndex
  rw [swapAt_self]

theorem phaseStep_trees (sup : List (List Nat)) (k : Nat) (c : List Nat) :
    phaseStep .trees sup k c = updateSup sup k c := by
  unfold phaseStep swapIndex
  rw [swapAt_self]

theorem runSupports_snoc (v : Variant) : ∀ (cs : List (List Nat)) (k : Nat) (sup : List (List Nat)) (c : List Nat),
    runSupports v k sup (cs ++ [c]) = phaseStep v (runSupports v k sup cs) (k + cs.length) c
  | [], k, sup, c => rfl
  | d :: cs, k, sup, c => by
    simp only [List.cons_append, runSupports, List.length_cons]
    rw [runSupports_snoc v cs (k + 1) _ c]
    congr 1; omega

theorem getD_sorted (sup : List (List Nat)) (h : ∀ S ∈ sup, StrictSorted S) (k : Nat) : StrictSorted (sup.getD k []) := by
  rw [List.getD_eq_getElem?_getD]
  cases hk : sup[k]? with
  | none => exact trivial
  | some S => exact h S (List.mem_of_getElem? hk)

theorem treesPhases_runIn (g : Graph) (N : Nat) (hd : ExactDomain g N) (cand : List Nat → Prop)
    (lookup : Nat → List Nat → Option CycW) (hl : LookupOK g cand lookup)
    (hsuff : ∀ S, StrictSorted S → (∃ Z, EvenSet g Z ∧ dotPar Z S = true) →
        ∃ C, cand C ∧ EvenSet g C ∧ dotPar C S = true) :
    ∀ (cnt : Nat) (done : List (List Nat)), done.length + cnt = N →
      (∀ (k : Nat) (c : List Nat), done[k]? = some c →
        StrictSorted c ∧ dotPar c (phaseSupport .trees (runSupports .trees 0 (unitSupports N) (done.take k)) k) = true) →
      (∀ S ∈ runSupports .trees 0 (unitSupports N) done, StrictSorted S) →
      (treesPhases lookup cnt done.length (runSupports .trees 0 (unitSupports N) done)).length = cnt ∧
      RunIn g cand .trees done.length (runSupports .trees 0 (unitSupports N) done)
        ((treesPhases lookup cnt done.length (runSupports .trees 0 (unitSupports N) done)).map (·.1)) ∧
      ∀ p ∈ treesPhases lookup cnt done.length (runSupports .trees 0 (unitSupports N) done), p.2 = wt g p.1 := by
  intro cnt
  induction cnt with
  | zero =>
    intro done _ _ _
    simp only [treesPhases, List.length_nil, List.map_nil, RunIn, List.not_mem_nil, false_imp_iff, implies_true,
      and_self]
  | succ cnt ih =>
    intro done hlen hodd hsorted
    have hprog := run_progress g N .trees (unitSupports N) done hd (List.Perm.refl _) (by omega) hodd
    simp only at hprog
    rw [phaseSupport_trees] at hprog
    have hSs := getD_sorted _ hsorted done.length
    generalize hsup : runSupports .trees 0 (unitSupports N) done = sup at hprog hSs hsorted ⊢
    generalize hS : sup.getD done.length [] = S at hprog hSs
    obtain ⟨C0, hC0c, hC0e, hC0o⟩ := hsuff S hSs hprog.2
    obtain ⟨hl1, hl2⟩ := hl done.length S hSs
    cases hlk : lookup done.length S with
    | none =>
      have := hl2 hlk C0 hC0c
      rw [hC0o] at this; cases this
    | some r =>
      obtain ⟨hph, hrw⟩ := hl1 r hlk
      have hunf : treesPhases lookup (cnt + 1) done.length sup =
          r :: treesPhases lookup cnt (done.length + 1) (updateSup sup done.length r.1) := by
        simp only [treesPhases, hS, hlk, Option.getD_some]
      have hstep : runSupports .trees 0 (unitSupports N) (done ++ [r.1]) = updateSup sup done.length r.1 := by
        rw [runSupports_snoc, Nat.zero_add, hsup, phaseStep_trees]
      have hsorted' : ∀ T ∈ updateSup sup done.length r.1, StrictSorted T := by
        rw [← phaseStep_trees]
        exact phaseStep_sorted .trees sup done.length r.1 hsorted
      have hodd' : ∀ (k : Nat) (c : List Nat), (done ++ [r.1])[k]? = some c →
          StrictSorted c ∧
            dotPar c (phaseSupport .trees (runSupports .trees 0 (unitSupports N) ((done ++ [r.1]).take k)) k) = true := by
        intro k c hk
        rcases Nat.lt_or_ge k done.length with hlt | hge
        · rw [List.getElem?_append_left hlt] at hk
          rw [List.take_append_of_le_length (by omega)]
          exact hodd k c hk
        · rw [List.getElem?_append_right hge] at hk
          have hk0 : k - done.length = 0 := by
            rcases Nat.eq_zero_or_pos (k - done.length) with h | h
            · exact h
            · rw [List.getElem?_eq_none (by simp; omega)] at hk; cases hk
          rw [hk0] at hk
          simp only [List.getElem?_cons_zero, Option.some.injEq] at hk
          subst hk
          have hkk : k = done.length := by omega
          subst hkk
          rw [List.take_append_of_le_length (Nat.le_refl _), List.take_length, hsup, phaseSupport_trees, hS]
          exact ⟨hph.2.1.1, hph.2.2.1⟩
      have ih' := ih (done ++ [r.1]) (by simp; omega) hodd' (by rw [hstep]; exact hsorted')
      rw [hstep] at ih'
      simp only [List.length_append, List.length_cons, List.length_nil, Nat.zero_add] at ih'
      rw [hunf]
      refine ⟨by simp [ih'.1], ?_, ?_⟩
      · simp only [List.map_cons, RunIn]
        rw [phaseSupport_trees, hS, phaseStep_trees]
        exact ⟨hph, ih'.2.1⟩
      · intro p hp'
        rcases List.mem_cons.1 hp' with e | e
        · subst e; exact hrw
        · exact ih'.2.2 p e

theorem foldl_weight (g : Graph) (ph : List CycW) (h : ∀ p ∈ ph, p.2 = wt g p.1) :
    ∀ a : Int, ph.foldl (fun acc p => acc + p.2) a = a + ((ph.map (·.1)).map (wt g)).sum := by
  induction ph with
  | nil => intro a; simp
  | cons p r ih =>
    intro a
    simp only [List.foldl_cons, List.map_cons, List.sum_cons]
    rw [ih (fun q hq => h q (List.mem_cons_of_mem _ hq)), h p List.mem_cons_self]
    omega

theorem unitSupports_sorted (N : Nat) : ∀ S ∈ unitSupports N, StrictSorted S := by
  rw [← vals_unitS]; exact mem_vals_sorted _

/-- **main loop**: if the collection offers, for every support vector against which some element of the cycle space is
odd, an odd candidate (sufficiency of the collection), then no lookup of the literal main loop ever fails, its cycles
form a run of the relational model restricted to the collection, and the accumulated weight is their total weight -/
theorem mcbTreesCore_runIn (g : Graph) (N : Nat) (hd : ExactDomain g N) (cand : List Nat → Prop)
    (lookup : Nat → List Nat → Option CycW) (hl : LookupOK g cand lookup)
    (hsuff : ∀ S, StrictSorted S → (∃ Z, EvenSet g Z ∧ dotPar Z S = true) →
        ∃ C, cand C ∧ EvenSet g C ∧ dotPar C S = true) :
    (mcbTreesCore N lookup).cycles.length = N ∧
    RunIn g cand .trees 0 (unitSupports N) (mcbTreesCore N lookup).cycles ∧
    (mcbTreesCore N lookup).weight = ((mcbTreesCore N lookup).cycles.map (wt g)).sum := by
  have h := treesPhases_runIn g N hd cand lookup hl hsuff N [] (by simp) (by intro k c hk; simp at hk)
    (by simpa [runSupports] using unitSupports_sorted N)
  simp only [List.length_nil, runSupports] at h
  unfold mcbTreesCore
  simp only
  refine ⟨by rw [List.length_map]; exact h.1, h.2.1, ?_⟩
  rw [foldl_weight g _ h.2.2 0, Int.zero_add]

end TreesAlgoL

open Parmcb.C01 Parmcb.C02

/-- the four end-to-end statements share this conclusion: a minimum cycle basis of the CALLER's graph, the returned value
is its weight, and the number of cycles is `m - n + c` -/
def McbCorrect (g : Graph) (order : List Nat) (r : McbResult) : Prop :=
  IsMCB g r.cycles ∧ r.weight = totalWeight g r.cycles ∧
  ((r.cycles.length : Int) = (g.m : Int) - g.n + (spanningForest g order).2)

namespace TreesAlgoL

/-- the common part of the four end-to-end theorems -/
theorem core_correct (g : Graph) (hs : g.simpleB = true) (hp : g.positiveB = true)
    (order : List Nat) (ho : order.Perm (List.range g.n)) (cand : List Nat → Prop)
    (lookup : Nat → List Nat → Option CycW)
    (hl : LookupOK (reindex g (createIndex g order)) cand lookup)
    (hsuff : ∀ S, StrictSorted S → ∀ Z, EvenSet (reindex g (createIndex g order)) Z → dotPar Z S = true →
      (∀ Z', EvenSet (reindex g (createIndex g order)) Z' → dotPar Z' S = true →
        wt (reindex g (createIndex g order)) Z ≤ wt (reindex g (createIndex g order)) Z') →
      ∃ C, cand C ∧ EvenSet (reindex g (createIndex g order)) C ∧ dotPar C S = true ∧
        wt (reindex g (createIndex g order)) C ≤ wt (reindex g (createIndex g order)) Z) :
    McbCorrect g order
      { cycles := translateBack (createIndex g order).reverse (mcbTreesCore (createIndex g order).dim lookup).cycles,
        weight := (mcbTreesCore (createIndex g order).dim lookup).weight } := by
  have hd := C16.c16_exact_domain g order hs hp ho
  generalize hgi : reindex g (createIndex g order) = gi at hl hsuff hd
  have hmin : ∀ S, StrictSorted S → (∃ Z, EvenSet gi Z ∧ dotPar Z S = true) →
      ∃ Z0, EvenSet gi Z0 ∧ dotPar Z0 S = true ∧ ∀ Z', EvenSet gi Z' → dotPar Z' S = true → wt gi Z0 ≤ wt gi Z' := by
    intro S _ hex
    obtain ⟨Z0, hZ0, hZ0odd, hZ0min⟩ := phaseOK_exists gi hd.positive S hex
    refine ⟨Z0, hZ0, hZ0odd, ?_⟩
    intro Z' h1 h2
    have := hZ0min Z' h1 h2
    rwa [Int.one_mul] at this
  obtain ⟨hlen, hrunIn, hweight⟩ := mcbTreesCore_runIn gi _ hd cand lookup hl (by
    intro S hS hex
    obtain ⟨Z0, h1, h2, h3⟩ := hmin S hS hex
    obtain ⟨C, c1, c2, c3, _⟩ := hsuff S hS Z0 h1 h2 h3
    exact ⟨C, c1, c2, c3⟩)
  generalize (mcbTreesCore (createIndex g order).dim lookup).cycles = cycles at hlen hrunIn hweight ⊢
  generalize (mcbTreesCore (createIndex g order).dim lookup).weight = w at hweight ⊢
  have himp : ∀ S C, StrictSorted S → PhaseOKIn gi cand S C → PhaseOK gi 1 S C := by
    intro S C hS h
    obtain ⟨hcand, hE, hodd, hmn⟩ := h
    obtain ⟨Z0, h1, h2, h3⟩ := hmin S hS ⟨C, hE, hodd⟩
    obtain ⟨C', c1, c2, c3, c4⟩ := hsuff S hS Z0 h1 h2 h3
    refine ⟨hE, hodd, ?_⟩
    intro Z hZ hZodd
    have a1 := hmn C' c1 c2 c3
    have a2 := h3 Z hZ hZodd
    rw [Int.one_mul]; omega
  rw [← vals_unitS] at hrunIn
  have hrun := HortonL.runIn_run gi cand .trees himp cycles 0 _ hrunIn
  rw [vals_unitS] at hrun
  have hfull : FullRun gi (createIndex g order).dim 1 .trees cycles := ⟨hlen, hrun⟩
  subst hgi
  obtain ⟨hmcb, htw⟩ := c02_caller_numbering g hs hp order ho .trees cycles hfull
  refine ⟨hmcb, ?_, ?_⟩
  · show w = totalWeight g (translateSp (createIndex g order).reverse cycles)
    rw [htw, hweight]; rfl
  · show ((translateBack (createIndex g order).reverse cycles).length : Int) = _
    unfold translateBack
    rw [List.length_map, hlen]
    exact (C16.c16_dim g order hs ho).2.1

theorem mem_collCands (g : Graph) (trees : List SPTree) (c : Cand) :
    c ∈ (trees.zipIdx).flatMap (fun (t, i) => createCandidates g t i (List.range g.m)) ↔
      ∃ t, trees[c.tree]? = some t ∧ c ∈ createCandidates g t c.tree (List.range g.m) := by
  simp only [List.mem_flatMap]
  constructor
  · rintro ⟨⟨t, i⟩, hti, hc⟩
    rw [List.mk_mem_zipIdx_iff_getElem?] at hti
    simp only at hc
    have hi : c.tree = i := ((TreesL.mem_createCandidates g t i _ c).1 hc).2.1
    subst hi
    exact ⟨t, hti, hc⟩
  · rintro ⟨t, ht, hc⟩
    exact ⟨(t, c.tree), List.mk_mem_zipIdx_iff_getElem?.2 ht, hc⟩

theorem fvs_setup (g : Graph) (hs : g.simpleB = true) (hp : g.positiveB = true) (picks : List Nat)
    (hpicks : ∀ x, x < g.n → x ∈ picks) (sorter : List Cand → List Cand) (hsort : SortOK sorter) :
    CandsOK g (fvsCands g (greedyFvs g picks)).1 (sorter (fvsCands g (greedyFvs g picks)).2) ∧
    (∀ S, StrictSorted S → ∀ Z, EvenSet g Z → dotPar Z S = true →
      (∀ Z', EvenSet g Z' → dotPar Z' S = true → wt g Z ≤ wt g Z') →
      ∃ C, InCands g (fvsCands g (greedyFvs g picks)).1 (sorter (fvsCands g (greedyFvs g picks)).2) C ∧
        EvenSet g C ∧ dotPar C S = true ∧ wt g C ≤ wt g Z) := by
  have hv := C13.c13_vertices g hs picks
  have hck : ∀ t ∈ (fvsCands g (greedyFvs g picks)).1, checkSPT g t = true ∧ checkFirst g t = true := by
    intro t ht
    have ht' : t ∈ (greedyFvs g picks).map (buildTree g) := ht
    rw [List.mem_map] at ht'
    obtain ⟨s, hsn, rfl⟩ := ht'
    exact C12.c12_dijkstra g hs hp s (hv.1 s hsn)
  have hperm := (hsort (fvsCands g (greedyFvs g picks)).2).1
  have hmem : ∀ c, c ∈ sorter (fvsCands g (greedyFvs g picks)).2 ↔
      ∃ t, (fvsCands g (greedyFvs g picks)).1[c.tree]? = some t ∧ c ∈ createCandidates g t c.tree (List.range g.m) := by
    intro c
    rw [hperm.mem_iff]
    exact mem_collCands g _ c
  refine ⟨⟨hck, fun c hc => (hmem c).1 hc⟩, ?_⟩
  intro S hS Z hZ hodd hmin
  have hhit : Acyclic g (C13.survivingEdges g ((fvsCands g (greedyFvs g picks)).1.map (·.source))) := by
    have hsrc : ∀ X : List Nat, (fvsCands g X).1.map (·.source) = X := by
      intro X
      show (X.map (buildTree g)).map (·.source) = X
      rw [List.map_map]
      induction X with
      | nil => rfl
      | cons a X ih => rw [List.map_cons, ih]; rfl
    rw [hsrc]
    exact C13.c13_fvs g hs picks hpicks
  obtain ⟨C, ⟨i, t, c, hi, hc, hunf⟩, hE, hCodd, hCw⟩ := cand_sufficient g hs hp _ hck hhit S hS Z hZ hodd hmin
  have hci : c.tree = i := ((TreesL.mem_createCandidates g t i _ c).1 hc).2.1
  subst hci
  exact ⟨C, ⟨c, (hmem c).2 ⟨t, hi, hc⟩, t, hi, hunf⟩, hE, hCodd, hCw⟩

theorem isoCands_fst (g : Graph) : (isoCands g).1 = (hortonCands g).1 := rfl

theorem iso_setup (g : Graph) (hs : g.simpleB = true) (hp : g.positiveB = true)
    (sorter : List Cand → List Cand) (hsort : SortOK sorter) :
    CandsOK g (isoCands g).1 (sorter (isoCands g).2) ∧
    (∀ S, StrictSorted S → ∀ Z, EvenSet g Z → dotPar Z S = true →
      (∀ Z', EvenSet g Z' → dotPar Z' S = true → wt g Z ≤ wt g Z') →
      ∃ C, InCands g (isoCands g).1 (sorter (isoCands g).2) C ∧
        EvenSet g C ∧ dotPar C S = true ∧ wt g C ≤ wt g Z) := by
  have hperm := (hsort (isoCands g).2).1
  rw [isoCands_fst]
  refine ⟨⟨?_, ?_⟩, ?_⟩
  · intro t ht
    have ht' : t ∈ (List.range g.n).map (buildTree g) := ht
    rw [List.mem_map] at ht'
    obtain ⟨s, hsn, rfl⟩ := ht'
    exact C12.c12_dijkstra g hs hp s (List.mem_range.1 hsn)
  · intro c hc
    have h1 := TreesL.isoCands_subset g c (hperm.mem_iff.1 hc)
    exact (mem_collCands g (hortonCands g).1 c).1 h1
  · intro S hS Z hZ hodd hmin
    obtain ⟨C, ⟨c, hc, hcyc⟩, hE, hCodd, hCw⟩ := iso_phase_sufficient g hs hp S hS Z hZ hodd hmin
    refine ⟨C, ⟨c, hperm.mem_iff.2 hc, ?_⟩, hE, hCodd, hCw⟩
    unfold candCycle isoTrees at hcyc
    cases ht : (hortonCands g).1[c.tree]? with
    | none => rw [ht] at hcyc; cases hcyc
    | some t => rw [ht] at hcyc; exact ⟨t, rfl, hcyc⟩

theorem lookupOK_sorted (g : Graph) (hs : g.simpleB = true) (hp : g.positiveB = true) (trees : List SPTree)
    (cands : List Cand) (hok : CandsOK g trees cands) (hsorted : cands.Pairwise (fun a b => a.weight ≤ b.weight)) :
    LookupOK g (InCands g trees cands) (fun _ S => lookupSorted g trees cands S) :=
  fun _ S hS => lookupSorted_spec g hs hp trees cands hok hsorted S hS

theorem lookupOK_tbb (g : Graph) (hs : g.simpleB = true) (hp : g.positiveB = true) (trees : List SPTree)
    (cands : List Cand) (hok : CandsOK g trees cands) (scheds : Nat → Sched)
    (hcov : ∀ k, (scheds k).Covers 0 cands.length) :
    LookupOK g (InCands g trees cands) (fun k S => lookupTbb g trees cands S (scheds k)) :=
  fun k S hS => lookupTbb_spec g hs hp trees cands hok S hS (scheds k) (hcov k)

end TreesAlgoL

theorem mcbFvsTrees_correct (g : Graph) (hs : g.simpleB = true) (hp : g.positiveB = true)
    (order : List Nat) (ho : order.Perm (List.range g.n)) (picks : List Nat) (hpicks : ∀ x, x < g.n → x ∈ picks)
    (sorter : List Cand → List Cand) (hsort : SortOK sorter) :
    McbCorrect g order (mcbFvsTrees g order picks sorter) := by
  have hd := C16.c16_exact_domain g order hs hp ho
  obtain ⟨hok, hsuff⟩ := TreesAlgoL.fvs_setup (reindex g (createIndex g order)) hd.simple hd.positive picks hpicks
    sorter hsort
  exact TreesAlgoL.core_correct g hs hp order ho _ _
    (TreesAlgoL.lookupOK_sorted _ hd.simple hd.positive _ _ hok (hsort _).2) hsuff

theorem mcbIsoTrees_correct (g : Graph) (hs : g.simpleB = true) (hp : g.positiveB = true)
    (order : List Nat) (ho : order.Perm (List.range g.n))
    (sorter : List Cand → List Cand) (hsort : SortOK sorter) :
    McbCorrect g order (mcbIsoTrees g order sorter) := by
  have hd := C16.c16_exact_domain g order hs hp ho
  obtain ⟨hok, hsuff⟩ := TreesAlgoL.iso_setup (reindex g (createIndex g order)) hd.simple hd.positive sorter hsort
  exact TreesAlgoL.core_correct g hs hp order ho _ _
    (TreesAlgoL.lookupOK_sorted _ hd.simple hd.positive _ _ hok (hsort _).2) hsuff

theorem mcbFvsTreesTbb_correct (g : Graph) (hs : g.simpleB = true) (hp : g.positiveB = true)
    (order : List Nat) (ho : order.Perm (List.range g.n)) (picks : List Nat) (hpicks : ∀ x, x < g.n → x ∈ picks)
    (sorter : List Cand → List Cand) (hsort : SortOK sorter) (scheds : Nat → Sched)
    (hcov : ∀ k, (scheds k).Covers 0
      (fvsCands (reindex g (createIndex g order)) (greedyFvs (reindex g (createIndex g order)) picks)).2.length) :
    McbCorrect g order (mcbFvsTreesTbb g order picks sorter scheds) := by
  have hd := C16.c16_exact_domain g order hs hp ho
  obtain ⟨hok, hsuff⟩ := TreesAlgoL.fvs_setup (reindex g (createIndex g order)) hd.simple hd.positive picks hpicks
    sorter hsort
  exact TreesAlgoL.core_correct g hs hp order ho _ _
    (TreesAlgoL.lookupOK_tbb _ hd.simple hd.positive _ _ hok scheds
      (by intro k; rw [(hsort _).1.length_eq]; exact hcov k)) hsuff

theorem mcbIsoTreesTbb_correct (g : Graph) (hs : g.simpleB = true) (hp : g.positiveB = true)
    (order : List Nat) (ho : order.Perm (List.range g.n))
    (sorter : List Cand → List Cand) (hsort : SortOK sorter) (scheds : Nat → Sched)
    (hcov : ∀ k, (scheds k).Covers 0 (isoCands (reindex g (createIndex g order))).2.length) :
    McbCorrect g order (mcbIsoTreesTbb g order sorter scheds) := by
  have hd := C16.c16_exact_domain g order hs hp ho
  obtain ⟨hok, hsuff⟩ := TreesAlgoL.iso_setup (reindex g (createIndex g order)) hd.simple hd.positive sorter hsort
  exact TreesAlgoL.core_correct g hs hp order ho _ _
    (TreesAlgoL.lookupOK_tbb _ hd.simple hd.positive _ _ hok scheds
      (by intro k; rw [(hsort _).1.length_eq]; exact hcov k)) hsuff

theorem insertByWeight_perm (c : Cand) : ∀ l, (insertByWeight c l).Perm (c :: l)
  | [] => List.Perm.refl _
  | d :: r => by
    unfold insertByWeight
    split
    · exact List.Perm.refl _
    · exact ((insertByWeight_perm c r).cons d).trans (List.Perm.swap c d r)

theorem insertByWeight_sorted (c : Cand) : ∀ l, l.Pairwise (fun a b => a.weight ≤ b.weight) →
    (insertByWeight c l).Pairwise (fun a b => a.weight ≤ b.weight)
  | [], _ => by simp [insertByWeight]
  | d :: r, h => by
    unfold insertByWeight
    have h' := List.pairwise_cons.1 h
    split
    · rename_i hlt
      refine List.pairwise_cons.2 ⟨?_, h⟩
      intro a ha
      rcases List.mem_cons.1 ha with e | e
      · subst e; omega
      · have := h'.1 a e; omega
    · rename_i hge
      refine List.pairwise_cons.2 ⟨?_, insertByWeight_sorted c r h'.2⟩
      intro a ha
      rcases List.mem_cons.1 ((insertByWeight_perm c r).mem_iff.1 ha) with e | e
      · subst e; omega
      · exact h'.1 a e

/-- the driver's concrete sorter is admissible -/
theorem sortByWeight_ok : SortOK sortByWeight := by
  intro l
  induction l with
  | nil => exact ⟨List.Perm.refl _, List.Pairwise.nil⟩
  | cons c r ih =>
    have e : sortByWeight (c :: r) = insertByWeight c (sortByWeight r) := rfl
    rw [e]
    exact ⟨(insertByWeight_perm c _).trans (ih.1.cons c), insertByWeight_sorted c _ ih.2⟩

end Parmcb
