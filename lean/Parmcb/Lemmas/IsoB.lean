import Parmcb.Lemmas.IsoDefs
import Parmcb.Lemmas.LexDijkstraOpt
/-! Part B: representations of a pairwise isometric circuit in Horton's collection.  Core Lean only. -/
namespace Parmcb

namespace IsoBL
open Parmcb.Spanner Parmcb.TreesL Parmcb.HortonL

/-! ### the collection -/

theorem buildTree_source (g : Graph) (s : Nat) : (buildTree g s).source = s := rfl

/-- the `k`-th tree of Horton's collection is the lexicographic shortest-path tree rooted at `k` -/
theorem isoTrees_get (g : Graph) (k : Nat) (hk : k < g.n) : (isoTrees g)[k]? = some (buildTree g k) := by
  unfold isoTrees hortonCands
  simp only
  rw [List.getElem?_map, List.getElem?_range hk]; rfl

theorem isoTrees_get_lt (g : Graph) (k : Nat) (t : SPTree) (h : (isoTrees g)[k]? = some t) :
    k < g.n ∧ t = buildTree g k := by
  unfold isoTrees hortonCands at h
  simp only at h
  rw [List.getElem?_map] at h
  by_cases hk : k < g.n
  · rw [List.getElem?_range hk] at h
    simp only [Option.map_some, Option.some.injEq] at h
    exact ⟨hk, h.symm⟩
  · rw [List.getElem?_eq_none (by simp; omega)] at h; cases h

/-- membership in Horton's collection -/
theorem mem_isoAll (g : Graph) (c : Cand) :
    c ∈ isoAll g ↔ ∃ k, k < g.n ∧ c ∈ createCandidates g (buildTree g k) k (List.range g.m) := by
  have key : ∀ (t : SPTree) (i : Nat), (t, i) ∈ (isoTrees g).zipIdx ↔ i < g.n ∧ t = buildTree g i := by
    intro t i
    rw [List.mk_mem_zipIdx_iff_getElem?]
    constructor
    · exact isoTrees_get_lt g i t
    · rintro ⟨h1, h2⟩; rw [h2]; exact isoTrees_get g i h1
  show c ∈ ((isoTrees g).zipIdx).flatMap (fun (p : SPTree × Nat) => createCandidates g p.1 p.2 (List.range g.m)) ↔ _
  rw [List.mem_flatMap]
  constructor
  · rintro ⟨⟨t, i⟩, hti, hc⟩
    obtain ⟨h1, h2⟩ := (key t i).1 hti
    subst h2
    exact ⟨i, h1, hc⟩
  · rintro ⟨k, hk, hc⟩
    exact ⟨(buildTree g k, k), (key _ _).2 ⟨hk, rfl⟩, hc⟩

/-- the cycle of a candidate of the `k`-th tree -/
theorem candCycle_eq (g : Graph) (c : Cand) (hk : c.tree < g.n) :
    candCycle g c = unfoldCand g (buildTree g c.tree) c := by
  unfold candCycle
  rw [isoTrees_get g c.tree hk]

/-! ### vertices of an edge set -/

theorem mem_vertsOf (g : Graph) (C : List Nat) (x : Nat) :
    x ∈ vertsOf g C ↔ ∃ e, e ∈ C ∧ (g.src e = x ∨ g.tgt e = x) := by
  unfold vertsOf
  rw [mem_setOf, List.mem_flatMap]
  constructor
  · rintro ⟨e, he, h⟩
    simp only [List.mem_cons, List.not_mem_nil, or_false] at h
    exact ⟨e, he, h.imp Eq.symm Eq.symm⟩
  · rintro ⟨e, he, h⟩
    refine ⟨e, he, ?_⟩
    simp only [List.mem_cons, List.not_mem_nil, or_false]
    exact h.imp Eq.symm Eq.symm

theorem src_mem_vertsOf (g : Graph) (C : List Nat) (e : Nat) (he : e ∈ C) : g.src e ∈ vertsOf g C :=
  (mem_vertsOf g C _).2 ⟨e, he, Or.inl rfl⟩

theorem tgt_mem_vertsOf (g : Graph) (C : List Nat) (e : Nat) (he : e ∈ C) : g.tgt e ∈ vertsOf g C :=
  (mem_vertsOf g C _).2 ⟨e, he, Or.inr rfl⟩

/-- the vertices of a set of edges of a simple graph are vertices of the graph -/
theorem vertsOf_lt (g : Graph) (hs : g.simpleB = true) (C : List Nat) (hC : ∀ e ∈ C, e < g.m) (x : Nat)
    (hx : x ∈ vertsOf g C) : x < g.n := by
  obtain ⟨e, he, h⟩ := (mem_vertsOf g C x).1 hx
  have := simpleB_facts g hs e (hC e he)
  rcases h with h | h <;> omega

/-- symmetric difference, in disjunctive form -/
theorem mem_xorMerge' (a b : List Nat) (ha : StrictSorted a) (hb : StrictSorted b) (z : Nat) :
    z ∈ xorMerge a b ↔ (z ∈ a ∧ z ∉ b) ∨ (z ∉ a ∧ z ∈ b) := by
  rw [mem_xorMerge a b ha hb]
  by_cases h1 : z ∈ a <;> by_cases h2 : z ∈ b <;> simp [h1, h2]

/-- a one-element vector is odd against a canonical set containing the element -/
theorem dotPar_singleton (C : List Nat) (hC : StrictSorted C) (e : Nat) (he : e ∈ C) : dotPar C [e] = true := by
  rw [dotPar_eq_par C [e] hC trivial]
  apply par_unique C _ e hC.nodup he
  · simp
  · intro z _ hz; simpa using hz

/-! ### root paths of a certified tree -/

/-- the edges of a root path are predecessor edges -/
theorem rootPath_treeEdges (g : Graph) (hs : g.simpleB = true) (hp : g.positiveB = true) (t : SPTree)
    (ok : SPTOk g t) (v : Nat) (hv : v < g.n) (d : Int) (hd : t.dist.getD v none = some d) :
    ∀ f ∈ rootPath g t g.n v, f < g.m ∧ f ∈ treeEdges g t := by
  intro f hf
  obtain ⟨_, _, _, h⟩ := chain_spec g hs hp t ok _ v d hv hd (rootPath_isChain g hs hp t ok v hv d hd)
  obtain ⟨h1, w, dw, w1, _, w3, _⟩ := h f hf
  refine ⟨h1, ?_⟩
  unfold treeEdges
  rw [List.mem_filterMap]
  exact ⟨w, List.mem_range.2 w1, w3⟩

/-- the root paths of the lexicographic Dijkstra tree are lexicographically optimal -/
theorem rootPath_lexOpt (g : Graph) (hs : g.simpleB = true) (hp : g.positiveB = true) (s : Nat) (hsn : s < g.n)
    (v : Nat) (hv : v < g.n) (d : Int) (hd : (buildTree g s).dist.getD v none = some d) :
    LexOpt g v s (rootPath g (buildTree g s) g.n v) :=
  buildTree_lexOpt g hs hp s hsn v hv d hd

/-- degree parities of the edge set of a root path: odd exactly at its two ends -/
theorem pathset_boundary (g : Graph) (hs : g.simpleB = true) (hp : g.positiveB = true) (t : SPTree)
    (hc : checkSPT g t = true) (v : Nat) (hv : v < g.n) (d : Int) (hd : t.dist.getD v none = some d) (x : Nat) :
    par (setOf (rootPath g t g.n v)) (g.inc x) = xor (x == v) (x == t.source) := by
  obtain ⟨h1, _, h3⟩ := dist_attained g hs hp t hc v hv d hd
  rw [par_setOf _ h3, walk_boundary g _ _ _ h1 x]

/-- the two root paths of the endpoints of an edge, together with the edge, form an element of the cycle space -/
theorem theta_evenSet (g : Graph) (hs : g.simpleB = true) (hp : g.positiveB = true) (t : SPTree)
    (hc : checkSPT g t = true) (f : Nat) (hfm : f < g.m) (dx dy : Int)
    (hdx : t.dist.getD (g.src f) none = some dx) (hdy : t.dist.getD (g.tgt f) none = some dy) :
    EvenSet g (xorMerge (xorMerge (setOf (rootPath g t g.n (g.src f))) (setOf (rootPath g t g.n (g.tgt f)))) [f]) := by
  have ok := checkSPT_ok g t hc
  have hst := simpleB_facts g hs f hfm
  have hPX := setOf_sorted (rootPath g t g.n (g.src f))
  have hPY := setOf_sorted (rootPath g t g.n (g.tgt f))
  have hXY := xorMerge_sorted _ _ hPX hPY
  have hF : StrictSorted [f] := trivial
  have hj : Jn g f (g.src f) (g.tgt f) := Or.inl ⟨rfl, rfl⟩
  refine ⟨xorMerge_sorted _ _ hXY hF, ?_, ?_⟩
  · intro a ha
    rcases mem_xorMerge_of _ _ _ ha with h | h
    · rcases mem_xorMerge_of _ _ _ h with h | h
      · rw [mem_setOf] at h; exact (rootPath_treeEdges g hs hp t ok _ hst.1 dx hdx a h).1
      · rw [mem_setOf] at h; exact (rootPath_treeEdges g hs hp t ok _ hst.2.1 dy hdy a h).1
    · rw [List.mem_singleton] at h; subst h; exact hfm
  · intro x
    rw [par_xorMerge, par_xorMerge, pathset_boundary g hs hp t hc _ hst.1 dx hdx,
      pathset_boundary g hs hp t hc _ hst.2.1 dy hdy, par_cons, par_nil, inc_of_jn g f _ _ x hj]
    cases (x == g.src f) <;> cases (x == g.tgt f) <;> cases (x == t.source) <;> rfl

/-- a circuit that contains a non-tree edge `f` and the root paths of both endpoints of `f` IS the candidate of `f`:
the two root paths are edge-disjoint, the `first` labels differ, and the unfolded edge set is the circuit -/
theorem circuit_cand (g : Graph) (hs : g.simpleB = true) (hp : g.positiveB = true) (t : SPTree)
    (hc : checkSPT g t = true) (hf : checkFirst g t = true) (C : List Nat) (hC : Circuit g C)
    (f : Nat) (hfC : f ∈ C) (hnt : f ∉ treeEdges g t) (dx dy : Int)
    (hdx : t.dist.getD (g.src f) none = some dx) (hdy : t.dist.getD (g.tgt f) none = some dy)
    (h1 : ∀ e ∈ rootPath g t g.n (g.src f), e ∈ C) (h2 : ∀ e ∈ rootPath g t g.n (g.tgt f), e ∈ C) :
    (f :: (rootPath g t g.n (g.src f) ++ rootPath g t g.n (g.tgt f))).Nodup ∧
    setOf (f :: (rootPath g t g.n (g.src f) ++ rootPath g t g.n (g.tgt f))) = C ∧
    t.first.getD (g.src f) 0 ≠ t.first.getD (g.tgt f) 0 := by
  have ok := checkSPT_ok g t hc
  have fok := checkFirst_ok g t hf
  have hfm : f < g.m := hC.1.2.1 f hfC
  have hst := simpleB_facts g hs f hfm
  have tr1 := rootPath_treeEdges g hs hp t ok _ hst.1 dx hdx
  have tr2 := rootPath_treeEdges g hs hp t ok _ hst.2.1 dy hdy
  have hf1 : f ∉ rootPath g t g.n (g.src f) := fun h => hnt (tr1 f h).2
  have hf2 : f ∉ rootPath g t g.n (g.tgt f) := fun h => hnt (tr2 f h).2
  have hX := theta_evenSet g hs hp t hc f hfm dx dy hdx hdy
  have hPX := setOf_sorted (rootPath g t g.n (g.src f))
  have hPY := setOf_sorted (rootPath g t g.n (g.tgt f))
  have hXY := xorMerge_sorted _ _ hPX hPY
  have hF : StrictSorted [f] := trivial
  have hXmem : ∀ z, z ∈ xorMerge (xorMerge (setOf (rootPath g t g.n (g.src f)))
      (setOf (rootPath g t g.n (g.tgt f)))) [f] ↔
      (z = f ∨ (z ∈ rootPath g t g.n (g.src f) ∧ z ∉ rootPath g t g.n (g.tgt f)) ∨
        (z ∉ rootPath g t g.n (g.src f) ∧ z ∈ rootPath g t g.n (g.tgt f))) := by
    intro z
    rw [mem_xorMerge' _ _ hXY hF, mem_xorMerge' _ _ hPX hPY, mem_setOf, mem_setOf, List.mem_singleton]
    by_cases hz : z = f
    · subst hz; simp [hf1, hf2]
    · simp [hz]
  have hXC : ∀ e ∈ xorMerge (xorMerge (setOf (rootPath g t g.n (g.src f)))
      (setOf (rootPath g t g.n (g.tgt f)))) [f], e ∈ C := by
    intro e he
    rcases (hXmem e).1 he with h | h | h
    · subst h; exact hfC
    · exact h1 e h.1
    · exact h2 e h.2
  have hXne : xorMerge (xorMerge (setOf (rootPath g t g.n (g.src f)))
      (setOf (rootPath g t g.n (g.tgt f)))) [f] ≠ [] := by
    intro h
    have : f ∈ xorMerge (xorMerge (setOf (rootPath g t g.n (g.src f)))
      (setOf (rootPath g t g.n (g.tgt f)))) [f] := (hXmem f).2 (Or.inl rfl)
    rw [h] at this; cases this
  have hXeq := hC.2.2 _ hX hXne hXC
  have hdisj : ∀ e, e ∈ rootPath g t g.n (g.src f) → e ∈ rootPath g t g.n (g.tgt f) → False := by
    intro e he1 he2
    have : e ∈ xorMerge (xorMerge (setOf (rootPath g t g.n (g.src f)))
      (setOf (rootPath g t g.n (g.tgt f)))) [f] := by rw [hXeq]; exact h1 e he1
    rcases (hXmem e).1 this with h | h | h
    · subst h; exact hf1 he1
    · exact h.2 he2
    · exact h.1 he1
  obtain ⟨_, _, n1⟩ := dist_attained g hs hp t hc _ hst.1 dx hdx
  obtain ⟨_, _, n2⟩ := dist_attained g hs hp t hc _ hst.2.1 dy hdy
  refine ⟨?_, ?_, ?_⟩
  · refine List.nodup_cons.2 ⟨?_, ?_⟩
    · intro hmem
      rcases List.mem_append.1 hmem with h | h
      · exact hf1 h
      · exact hf2 h
    · rw [List.nodup_append]
      refine ⟨n1, n2, ?_⟩
      intro a ha b hb hab
      subst hab
      exact hdisj a ha hb
  · apply StrictSorted.ext (setOf_sorted _) hC.1.1
    intro z
    rw [mem_setOf, ← hXeq, hXmem, List.mem_cons, List.mem_append]
    have := hdisj z
    by_cases a1 : z ∈ rootPath g t g.n (g.src f) <;> by_cases a2 : z ∈ rootPath g t g.n (g.tgt f) <;>
      simp_all
  · intro hfirst
    have hxr : g.src f ≠ t.source := by
      intro h
      have hy : g.tgt f ≠ t.source := fun h' => hst.2.2 (h.trans h'.symm)
      apply first_ne_source g hs hp t hc hf _ hst.2.1 hy dy hdy
      rw [← hfirst, h]; exact fok.first_src
    have hyr : g.tgt f ≠ t.source := by
      intro h
      apply first_ne_source g hs hp t hc hf _ hst.1 hxr dx hdx
      rw [hfirst, h]; exact fok.first_src
    have chx := rootPath_isChain g hs hp t ok _ hst.1 dx hdx
    have chy := rootPath_isChain g hs hp t ok _ hst.2.1 dy hdy
    obtain ⟨e, hex, hpe⟩ := chain_first_pred g hs hp t ok fok _ _ hst.1 hxr chx
    obtain ⟨e', hey, hpe'⟩ := chain_first_pred g hs hp t ok fok _ _ hst.2.1 hyr chy
    rw [← hfirst, hpe] at hpe'
    cases hpe'
    exact hdisj e hex hey

end IsoBL

/-- every Horton candidate stands for a cycle -/
theorem candCycle_some (g : Graph) (hs : g.simpleB = true) (hp : g.positiveB = true) (i : Nat) (c : Cand)
    (hc : (isoAll g)[i]? = some c) : ∃ C, candCycle g c = some C ∧ EvenSet g C ∧ wt g C = c.weight := by
  obtain ⟨k, hk, hmem⟩ := (IsoBL.mem_isoAll g c).1 (List.mem_of_getElem? hc)
  have htree : c.tree = k := ((TreesL.mem_createCandidates g _ k _ c).1 hmem).2.1
  obtain ⟨h1, h2⟩ := C12.c12_dijkstra g hs hp k hk
  obtain ⟨Z, hZ, hev, _, hw⟩ := TreesL.cand_sound g hs hp _ k h1 h2 c hmem
  refine ⟨Z, ?_, hev, hw⟩
  rw [IsoBL.candCycle_eq g c (by omega), htree]; exact hZ

/-- a pairwise isometric circuit has a representation in the tree of each of its vertices -/
theorem iso_repr (g : Graph) (hs : g.simpleB = true) (hp : g.positiveB = true) (C : List Nat) (hC : Circuit g C)
    (hiso : PairIso g C) (x : Nat) (hx : x ∈ vertsOf g C) :
    ∃ (i : Nat) (c : Cand), (isoAll g)[i]? = some c ∧ c.tree = x ∧ candCycle g c = some C := by
  have hev := hC.1
  have hxn : x < g.n := IsoBL.vertsOf_lt g hs C hev.2.1 x hx
  obtain ⟨hc, hf⟩ := C12.c12_dijkstra g hs hp x hxn
  obtain ⟨f0, hf0, hr⟩ := (IsoBL.mem_vertsOf g C x).1 hx
  obtain ⟨f, hfC, hnt, _⟩ := HortonL.odd_nontree g hs hp (buildTree g x) hc [f0] trivial C hev
    (IsoBL.dotPar_singleton C hev.1 f0 hf0)
  obtain ⟨dx, dy, hdx, hdy, _⟩ := HortonL.weight_bound g hs (buildTree g x) hc C hC f0 hf0 hr f hfC
  have hfm := hev.2.1 f hfC
  have hst := simpleB_facts g hs f hfm
  have h1 : ∀ e ∈ rootPath g (buildTree g x) g.n (g.src f), e ∈ C :=
    hiso (g.src f) x (IsoBL.src_mem_vertsOf g C f hfC) hx _ (buildTree_lexOpt g hs hp x hxn _ hst.1 dx hdx)
  have h2 : ∀ e ∈ rootPath g (buildTree g x) g.n (g.tgt f), e ∈ C :=
    hiso (g.tgt f) x (IsoBL.tgt_mem_vertsOf g C f hfC) hx _ (buildTree_lexOpt g hs hp x hxn _ hst.2.1 dy hdy)
  obtain ⟨hnd, hset, hfirst⟩ := IsoBL.circuit_cand g hs hp _ hc hf C hC f hfC hnt dx dy hdx hdy h1 h2
  have hmem : (⟨x, f, g.weight f + dx + dy⟩ : Cand) ∈ createCandidates g (buildTree g x) x (List.range g.m) := by
    rw [TreesL.mem_createCandidates]
    exact ⟨List.mem_range.2 hfm, rfl, hnt, dx, dy, hdx, hdy, hfirst, rfl⟩
  have hall := (IsoBL.mem_isoAll g _).2 ⟨x, hxn, hmem⟩
  obtain ⟨i, hi⟩ := List.getElem?_of_mem hall
  refine ⟨i, _, hi, rfl, ?_⟩
  rw [IsoBL.candCycle_eq g _ hxn]
  unfold unfoldCand
  simp only
  rw [TreesL.eraseDups_of_nodup _ hnd, if_pos rfl, hset]

end Parmcb
