import Parmcb.Model.Sched
import Parmcb.Model.Mpi
import Parmcb.Model.DePina
import Parmcb.Lemmas.Gf2
/-! helper lemmas for C03 / C04 (schedules, reductions, slices).  Core Lean only. -/
namespace Parmcb

/-! ### weights of results; the invariants `CycOk` / `CycHit` -/

/-- mirror of `C03.wOf` -/
def cycW {C : Type} (r : Cyc C) : Option Int := r.map (·.1)

/-- a result never weighs less than `μ` -/
def CycOk {C : Type} (μ : Int) (x : Cyc C) : Prop := ∀ r, x = some r → μ ≤ r.1

/-- a result of weight exactly `μ` -/
def CycHit {C : Type} (μ : Int) (x : Cyc C) : Prop := ∃ c, x = some (μ, c)

theorem cycOk_none {C : Type} (μ : Int) : CycOk μ (none : Cyc C) := by
  intro r h; cases h

theorem CycHit.ok {C : Type} {μ : Int} {x : Cyc C} (h : CycHit μ x) : CycOk μ x := by
  obtain ⟨c, rfl⟩ := h
  intro r hr; cases hr; exact Int.le_refl _

theorem CycHit.w {C : Type} {μ : Int} {x : Cyc C} (h : CycHit μ x) : cycW x = some μ := by
  obtain ⟨c, rfl⟩ := h; rfl

theorem cycHit_of_w {C : Type} {μ : Int} {a : Int × C} (h : a.1 = μ) : CycHit μ (some a) := by
  obtain ⟨w, c⟩ := a
  simp only at h; subst h; exact ⟨c, rfl⟩

/-! ### `cycleMin`, `minOpMpi`, `takeBetter` -/

/-- minimum of two optional weights, `none` = identity -/
def wMin : Option Int → Option Int → Option Int
  | none, y => y
  | some a, none => some a
  | some a, some b => some (min a b)

theorem wMin_assoc (a b c : Option Int) : wMin (wMin a b) c = wMin a (wMin b c) := by
  cases a <;> cases b <;> cases c <;> simp [wMin, Int.min_assoc]

theorem wMin_comm (a b : Option Int) : wMin a b = wMin b a := by
  cases a <;> cases b <;> simp [wMin, Int.min_comm]

theorem cycW_cycleMin {C : Type} (a b : Cyc C) : cycW (cycleMin a b) = wMin (cycW a) (cycW b) := by
  cases a <;> cases b <;> simp only [cycleMin, cycW, wMin, Option.map_some, Option.map_none]
  split <;> simp only [Option.map_some, Option.some.injEq] <;> omega

theorem cycW_minOpMpi {C : Type} (a b : Cyc C) : cycW (minOpMpi a b) = wMin (cycW a) (cycW b) := by
  cases a <;> cases b <;> simp only [minOpMpi, cycW, wMin, Option.map_some, Option.map_none]
  split <;> simp only [Option.map_some, Option.some.injEq] <;> omega

theorem cycleMin_assoc_w {C : Type} (a b c : Cyc C) :
    cycW (cycleMin (cycleMin a b) c) = cycW (cycleMin a (cycleMin b c)) := by
  simp only [cycW_cycleMin, wMin_assoc]

theorem cycleMin_ident {C : Type} (a : Cyc C) : cycleMin none a = a ∧ cycleMin a none = a := by
  cases a <;> simp [cycleMin]

theorem cycleMin_prefers_left {C : Type} (a b : Int × C) (h : a.1 = b.1) :
    cycleMin (some a) (some b) = some a := by
  simp [cycleMin, h]

theorem cycleMin_ok {C : Type} {μ : Int} {a b : Cyc C} (ha : CycOk μ a) (hb : CycOk μ b) :
    CycOk μ (cycleMin a b) := by
  cases a <;> cases b <;> simp only [cycleMin] <;> try assumption
  split <;> assumption

theorem cycleMin_hit_left {C : Type} {μ : Int} {a b : Cyc C} (ha : CycHit μ a) (hb : CycOk μ b) :
    CycHit μ (cycleMin a b) := by
  obtain ⟨c, rfl⟩ := ha
  cases b with
  | none => exact ⟨c, rfl⟩
  | some b =>
    have := hb b rfl
    simp only [cycleMin]
    split
    · exact ⟨c, rfl⟩
    · apply cycHit_of_w; omega

theorem cycleMin_hit_right {C : Type} {μ : Int} {a b : Cyc C} (ha : CycOk μ a) (hb : CycHit μ b) :
    CycHit μ (cycleMin a b) := by
  obtain ⟨c, rfl⟩ := hb
  cases a with
  | none => exact ⟨c, rfl⟩
  | some a =>
    have := ha a rfl
    simp only [cycleMin]
    split
    · apply cycHit_of_w; omega
    · exact ⟨c, rfl⟩

theorem minOpMpi_assoc_w {C : Type} (a b c : Cyc C) :
    cycW (minOpMpi (minOpMpi a b) c) = cycW (minOpMpi a (minOpMpi b c)) := by
  simp only [cycW_minOpMpi, wMin_assoc]

theorem minOpMpi_comm_w {C : Type} (a b : Cyc C) : cycW (minOpMpi a b) = cycW (minOpMpi b a) := by
  simp only [cycW_minOpMpi, wMin_comm]

theorem minOpMpi_ident {C : Type} (a : Cyc C) : minOpMpi none a = a ∧ minOpMpi a none = a := by
  cases a <;> simp [minOpMpi]

theorem minOpMpi_ok {C : Type} {μ : Int} {a b : Cyc C} (ha : CycOk μ a) (hb : CycOk μ b) :
    CycOk μ (minOpMpi a b) := by
  cases a <;> cases b <;> simp only [minOpMpi] <;> try assumption
  split <;> assumption

theorem minOpMpi_hit_left {C : Type} {μ : Int} {a b : Cyc C} (ha : CycHit μ a) (hb : CycOk μ b) :
    CycHit μ (minOpMpi a b) := by
  obtain ⟨c, rfl⟩ := ha
  cases b with
  | none => exact ⟨c, rfl⟩
  | some b =>
    have := hb b rfl
    simp only [minOpMpi]
    split
    · exact ⟨c, rfl⟩
    · apply cycHit_of_w; omega

theorem minOpMpi_hit_right {C : Type} {μ : Int} {a b : Cyc C} (ha : CycOk μ a) (hb : CycHit μ b) :
    CycHit μ (minOpMpi a b) := by
  obtain ⟨c, rfl⟩ := hb
  cases a with
  | none => exact ⟨c, rfl⟩
  | some a =>
    have := ha a rfl
    simp only [minOpMpi]
    split
    · apply cycHit_of_w; omega
    · exact ⟨c, rfl⟩

theorem takeBetter_ok {C : Type} {μ : Int} {run res : Cyc C} (h1 : CycOk μ run) (h2 : CycOk μ res) :
    CycOk μ (takeBetter run res) := by
  cases run <;> cases res <;> simp only [takeBetter] <;> try assumption
  split <;> assumption

theorem takeBetter_hit {C : Type} {μ : Int} {run res : Cyc C} (h1 : CycHit μ run) (h2 : CycOk μ res) :
    CycHit μ (takeBetter run res) := by
  obtain ⟨c, rfl⟩ := h1
  cases res with
  | none => exact ⟨c, rfl⟩
  | some r =>
    have := h2 r rfl
    simp only [takeBetter]
    split
    · apply cycHit_of_w; omega
    · exact ⟨c, rfl⟩

/-! ### the reduce body as a fold over an index list -/

/-- the loop of `minBody` over an arbitrary list of indices -/
def minFold {C : Type} (srch : Nat → Option Int → Cyc C) (is : List Nat) (x : Cyc C) : Cyc C :=
  is.foldl (fun run i => takeBetter run (srch i (run.map (·.1)))) x

theorem minBody_eq {C : Type} (srch : Nat → Option Int → Cyc C) (a b : Nat) (x : Cyc C) :
    minBody srch a b x = minFold srch (List.range' a (b - a)) x := rfl

theorem minFold_cons {C : Type} (srch : Nat → Option Int → Cyc C) (i : Nat) (is : List Nat) (x : Cyc C) :
    minFold srch (i :: is) x = minFold srch is (takeBetter x (srch i (x.map (·.1)))) := rfl

section
variable {C : Type} {srch : Nat → Option Int → Cyc C} {lo hi : Nat} {μ : Int}

theorem srch_ok (sound : ∀ i L r, lo ≤ i → i < hi → srch i L = some r → μ ≤ r.1)
    {i : Nat} (h1 : lo ≤ i) (h2 : i < hi) (L : Option Int) : CycOk μ (srch i L) :=
  fun r hr => sound i L r h1 h2 hr

theorem minFold_ok (sound : ∀ i L r, lo ≤ i → i < hi → srch i L = some r → μ ≤ r.1)
    (is : List Nat) (his : ∀ i ∈ is, lo ≤ i ∧ i < hi) (x : Cyc C) (hx : CycOk μ x) :
    CycOk μ (minFold srch is x) := by
  induction is generalizing x with
  | nil => exact hx
  | cons i is ih =>
    rw [minFold_cons]
    have hi' := his i (List.mem_cons_self ..)
    exact ih (fun j hj => his j (List.mem_cons_of_mem _ hj)) _
      (takeBetter_ok hx (srch_ok sound hi'.1 hi'.2 _))

theorem minFold_hit (sound : ∀ i L r, lo ≤ i → i < hi → srch i L = some r → μ ≤ r.1)
    (is : List Nat) (his : ∀ i ∈ is, lo ≤ i ∧ i < hi) (x : Cyc C) (hx : CycHit μ x) :
    CycHit μ (minFold srch is x) := by
  induction is generalizing x with
  | nil => exact hx
  | cons i is ih =>
    rw [minFold_cons]
    have hi' := his i (List.mem_cons_self ..)
    exact ih (fun j hj => his j (List.mem_cons_of_mem _ hj)) _
      (takeBetter_hit hx (srch_ok sound hi'.1 hi'.2 _))

/-- the step at the special index produces a result of weight `μ` -/
theorem step_star (sound : ∀ i L r, lo ≤ i → i < hi → srch i L = some r → μ ≤ r.1)
    {istar : Nat} (h1 : lo ≤ istar) (h2 : istar < hi)
    (hstar : ∀ L, (∀ l, L = some l → μ < l) → ∃ c, srch istar L = some (μ, c))
    (x : Cyc C) (hx : CycOk μ x) : CycHit μ (takeBetter x (srch istar (x.map (·.1)))) := by
  cases x with
  | none =>
    obtain ⟨c, hc⟩ := hstar none (fun l hl => by cases hl)
    simp only [Option.map_none, hc, takeBetter]
    exact ⟨c, rfl⟩
  | some b =>
    have hb := hx b rfl
    by_cases hlt : μ < b.1
    · obtain ⟨c, hc⟩ := hstar (some b.1) (fun l hl => by cases hl; exact hlt)
      simp only [Option.map_some, hc, takeBetter, hlt, if_true]
      exact ⟨c, rfl⟩
    · exact takeBetter_hit (cycHit_of_w (by omega)) (srch_ok sound h1 h2 _)

theorem minFold_star (sound : ∀ i L r, lo ≤ i → i < hi → srch i L = some r → μ ≤ r.1)
    {istar : Nat} (hstar : ∀ L, (∀ l, L = some l → μ < l) → ∃ c, srch istar L = some (μ, c))
    (is : List Nat) (his : ∀ i ∈ is, lo ≤ i ∧ i < hi) (hmem : istar ∈ is)
    (x : Cyc C) (hx : CycOk μ x) : CycHit μ (minFold srch is x) := by
  induction is generalizing x with
  | nil => cases hmem
  | cons i is ih =>
    rw [minFold_cons]
    have hi' := his i (List.mem_cons_self ..)
    have his' : ∀ j ∈ is, lo ≤ j ∧ j < hi := fun j hj => his j (List.mem_cons_of_mem _ hj)
    rcases List.mem_cons.1 hmem with rfl | hm
    · exact minFold_hit sound is his' _ (step_star sound hi'.1 hi'.2 hstar x hx)
    · exact ih his' hm _ (takeBetter_ok hx (srch_ok sound hi'.1 hi'.2 _))

end

/-! ### schedules -/

theorem Sched.Covers.le {s : Sched} {a b : Nat} (h : s.Covers a b) : a ≤ b := by
  induction h with
  | leaf lo hi h => exact h
  | seq _ _ ih1 ih2 => exact Nat.le_trans ih1 ih2
  | fork _ _ ih1 ih2 => exact Nat.le_trans ih1 ih2

theorem range'_sub_mem {a b i : Nat} : i ∈ List.range' a (b - a) ↔ a ≤ i ∧ i < b := by
  rw [List.mem_range'_1]; omega

/-- the invariant of the minimum reduction along any schedule covering a sub-range of `[lo,hi)` -/
theorem evalReduce_min_inv {C : Type} {srch : Nat → Option Int → Cyc C} {lo hi : Nat} {μ : Int}
    (sound : ∀ i L r, lo ≤ i → i < hi → srch i L = some r → μ ≤ r.1)
    {istar : Nat} (hstar : ∀ L, (∀ l, L = some l → μ < l) → ∃ c, srch istar L = some (μ, c))
    {s : Sched} {a b : Nat} (hs : s.Covers a b) (ha : lo ≤ a) (hb : b ≤ hi)
    (x : Cyc C) (hx : CycOk μ x) :
    CycOk μ (evalReduce (minBody srch) cycleMin none s x) ∧
    ((CycHit μ x ∨ (a ≤ istar ∧ istar < b)) → CycHit μ (evalReduce (minBody srch) cycleMin none s x)) := by
  induction hs generalizing x with
  | leaf a b hab =>
    have his : ∀ i ∈ List.range' a (b - a), lo ≤ i ∧ i < hi := by
      intro i hi'; rw [range'_sub_mem] at hi'; omega
    simp only [evalReduce, minBody_eq]
    refine ⟨minFold_ok sound _ his x hx, ?_⟩
    rintro (h | h)
    · exact minFold_hit sound _ his x h
    · exact minFold_star sound hstar _ his (range'_sub_mem.2 h) x hx
  | @seq l r a mid b hl hr ihl ihr =>
    have h1 := hl.le
    have h2 := hr.le
    simp only [evalReduce]
    obtain ⟨okl, hitl⟩ := ihl ha (by omega) x hx
    obtain ⟨okr, hitr⟩ := ihr (by omega) hb _ okl
    refine ⟨okr, ?_⟩
    rintro (h | h)
    · exact hitr (Or.inl (hitl (Or.inl h)))
    · by_cases hm : istar < mid
      · exact hitr (Or.inl (hitl (Or.inr ⟨h.1, hm⟩)))
      · exact hitr (Or.inr ⟨by omega, h.2⟩)
  | @fork l r a mid b hl hr ihl ihr =>
    have h1 := hl.le
    have h2 := hr.le
    simp only [evalReduce]
    obtain ⟨okl, hitl⟩ := ihl ha (by omega) x hx
    obtain ⟨okr, hitr⟩ := ihr (by omega) hb none (cycOk_none μ)
    refine ⟨cycleMin_ok okl okr, ?_⟩
    rintro (h | h)
    · exact cycleMin_hit_left (hitl (Or.inl h)) okr
    · by_cases hm : istar < mid
      · exact cycleMin_hit_left (hitl (Or.inr ⟨h.1, hm⟩)) okr
      · exact cycleMin_hit_right okl (hitr (Or.inr ⟨by omega, h.2⟩))

/-- local result of a reduction over a sub-range: never below `μ`; weight `μ` if it contains `i*` -/
theorem reduceMin_inv {C : Type} {srch : Nat → Option Int → Cyc C} {lo hi : Nat} {μ : Int}
    (sound : ∀ i L r, lo ≤ i → i < hi → srch i L = some r → μ ≤ r.1)
    {istar : Nat} (hstar : ∀ L, (∀ l, L = some l → μ < l) → ∃ c, srch istar L = some (μ, c))
    {s : Sched} {a b : Nat} (hs : s.Covers a b) (ha : lo ≤ a) (hb : b ≤ hi) :
    CycOk μ (reduceMin srch s) ∧ ((a ≤ istar ∧ istar < b) → CycHit μ (reduceMin srch s)) := by
  have h := evalReduce_min_inv sound hstar hs ha hb none (cycOk_none μ)
  exact ⟨h.1, fun hi' => h.2 (Or.inr hi')⟩

theorem reduceMin_w {C : Type} {srch : Nat → Option Int → Cyc C} {lo hi : Nat} {μ : Int}
    (sound : ∀ i L r, lo ≤ i → i < hi → srch i L = some r → μ ≤ r.1)
    (complete : ∃ i, lo ≤ i ∧ i < hi ∧ ∀ L, (∀ l, L = some l → μ < l) → ∃ c, srch i L = some (μ, c))
    {s : Sched} (hs : s.Covers lo hi) : cycW (reduceMin srch s) = some μ := by
  obtain ⟨istar, h1, h2, hstar⟩ := complete
  exact ((reduceMin_inv sound hstar hs (Nat.le_refl _) (Nat.le_refl _)).2 ⟨h1, h2⟩).w

theorem seqMin_w {C : Type} {srch : Nat → Option Int → Cyc C} {lo hi : Nat} {μ : Int}
    (sound : ∀ i L r, lo ≤ i → i < hi → srch i L = some r → μ ≤ r.1)
    (complete : ∃ i, lo ≤ i ∧ i < hi ∧ ∀ L, (∀ l, L = some l → μ < l) → ∃ c, srch i L = some (μ, c)) :
    cycW (seqMin srch lo hi) = some μ := by
  have hle : lo ≤ hi := by obtain ⟨i, h1, h2, _⟩ := complete; omega
  exact reduceMin_w (s := .leaf lo hi) sound complete (.leaf lo hi hle)

/-! ### nothing found -/

theorem minFold_none {C : Type} {srch : Nat → Option Int → Cyc C} {lo hi : Nat}
    (hn : ∀ i L, lo ≤ i → i < hi → srch i L = none)
    (is : List Nat) (his : ∀ i ∈ is, lo ≤ i ∧ i < hi) (x : Cyc C) : minFold srch is x = x := by
  induction is generalizing x with
  | nil => rfl
  | cons i is ih =>
    have hi' := his i (List.mem_cons_self ..)
    rw [minFold_cons, hn i _ hi'.1 hi'.2, ih (fun j hj => his j (List.mem_cons_of_mem _ hj))]
    cases x <;> rfl

theorem evalReduce_none {C : Type} {srch : Nat → Option Int → Cyc C} {lo hi : Nat}
    (hn : ∀ i L, lo ≤ i → i < hi → srch i L = none)
    {s : Sched} {a b : Nat} (hs : s.Covers a b) (ha : lo ≤ a) (hb : b ≤ hi) (x : Cyc C) :
    evalReduce (minBody srch) cycleMin none s x = x := by
  induction hs generalizing x with
  | leaf a b hab =>
    simp only [evalReduce, minBody_eq]
    exact minFold_none hn _ (fun i hi' => by rw [range'_sub_mem] at hi'; omega) x
  | seq hl hr ihl ihr =>
    have h1 := hl.le
    have h2 := hr.le
    simp only [evalReduce]
    rw [ihl ha (by omega), ihr (by omega) hb]
  | fork hl hr ihl ihr =>
    have h1 := hl.le
    have h2 := hr.le
    simp only [evalReduce]
    rw [ihl ha (by omega), ihr (by omega) hb, (cycleMin_ident x).2]

/-! ### sums -/

theorem foldl_add_eq (ws : Nat → Int) (is : List Nat) (x : Int) :
    is.foldl (fun a i => a + ws i) x = x + (is.map ws).sum := by
  induction is generalizing x with
  | nil => simp
  | cons i is ih => simp only [List.foldl_cons, ih, List.map_cons, List.sum_cons]; omega

theorem evalReduce_sum (ws : Nat → Int) {s : Sched} {a b : Nat} (hs : s.Covers a b) (x : Int) :
    evalReduce (fun lo hi x => (List.range' lo (hi - lo)).foldl (fun a i => a + ws i) x) (· + ·) 0 s x
      = x + ((List.range' a (b - a)).map ws).sum := by
  induction hs generalizing x with
  | leaf a b hab => simp only [evalReduce, foldl_add_eq]
  | @seq l r a mid b hl hr ihl ihr =>
    have h1 := hl.le
    have h2 := hr.le
    have : List.range' a (b - a) = List.range' a (mid - a) ++ List.range' mid (b - mid) := by
      have : mid = a + (mid - a) := by omega
      conv => rhs; rhs; rw [this]
      rw [List.range'_append_1]; congr 1; omega
    simp only [evalReduce, ihl, ihr, this, List.map_append, List.sum_append_int]; omega
  | @fork l r a mid b hl hr ihl ihr =>
    have h1 := hl.le
    have h2 := hr.le
    have : List.range' a (b - a) = List.range' a (mid - a) ++ List.range' mid (b - mid) := by
      have : mid = a + (mid - a) := by omega
      conv => rhs; rhs; rw [this]
      rw [List.range'_append_1]; congr 1; omega
    simp only [evalReduce, ihl, ihr, this, List.map_append, List.sum_append_int]; omega

/-! ### parallel_for: flattening, the visited indices are a permutation of the range -/

/-- the indices a `parallel_for` execution visits, in order -/
def ForSched.idx (fs : ForSched) : List Nat := fs.flatMap fun l => List.range' l.1 (l.2 - l.1)

theorem evalFor_eq {σ : Type} (body : Nat → σ → σ) (fs : ForSched) (s : σ) :
    evalFor body fs s = (ForSched.idx fs).foldl (fun st i => body i st) s := by
  unfold evalFor ForSched.idx
  induction fs generalizing s with
  | nil => rfl
  | cons l fs ih => simp only [List.foldl_cons, List.flatMap_cons, List.foldl_append, ih]

theorem count_idx (fs : ForSched) (i : Nat) :
    (ForSched.idx fs).count i = (fs.filter fun l => decide (l.1 ≤ i ∧ i < l.2)).length := by
  unfold ForSched.idx
  induction fs with
  | nil => rfl
  | cons l fs ih =>
    simp only [List.flatMap_cons, List.count_append, ih, List.count_range_1', List.filter_cons]
    by_cases h : l.1 ≤ i ∧ i < l.2
    · have h' : l.1 ≤ i ∧ i < l.1 + (l.2 - l.1) := by omega
      rw [if_pos h', if_pos (decide_eq_true h), List.length_cons]; omega
    · have h' : ¬ (l.1 ≤ i ∧ i < l.1 + (l.2 - l.1)) := by omega
      rw [if_neg h', if_neg (by rw [decide_eq_true_eq]; exact h)]; omega

theorem mem_idx {fs : ForSched} {i : Nat} : i ∈ ForSched.idx fs ↔ ∃ l ∈ fs, l.1 ≤ i ∧ i < l.2 := by
  unfold ForSched.idx
  simp only [List.mem_flatMap, range'_sub_mem]

theorem idx_perm {fs : ForSched} {lo hi : Nat} (ht : fs.Tiles lo hi) :
    (ForSched.idx fs).Perm (List.range' lo (hi - lo)) := by
  rw [List.perm_iff_count]
  intro i
  rw [List.count_range_1']
  by_cases h : lo ≤ i ∧ i < hi
  · have h' : lo ≤ i ∧ i < lo + (hi - lo) := by omega
    rw [if_pos h', count_idx, ht.2 i h.1 h.2]
  · have h' : ¬ (lo ≤ i ∧ i < lo + (hi - lo)) := by omega
    rw [if_neg h', List.count_eq_zero, mem_idx]
    rintro ⟨l, hl, h1, h2⟩
    have := ht.1 l hl
    omega

theorem idx_nodup {fs : ForSched} {lo hi : Nat} (ht : fs.Tiles lo hi) : (ForSched.idx fs).Nodup :=
  (idx_perm ht).nodup_iff.2 (List.nodup_range' 1)

theorem mem_idx_of_tiles {fs : ForSched} {lo hi : Nat} (ht : fs.Tiles lo hi) {i : Nat} :
    i ∈ ForSched.idx fs ↔ lo ≤ i ∧ i < hi := by
  rw [(idx_perm ht).mem_iff, range'_sub_mem]

/-! ### the support update -/

theorem updateRow_length (k : Nat) (cyc : List Nat) (i : Nat) (st : List (List Nat)) :
    (updateRow k cyc i st).length = st.length := by
  unfold updateRow
  split
  · split <;> simp
  · rfl

/-- folding `updateRow` over distinct indices above `k` updates exactly those rows -/
theorem foldl_updateRow (k : Nat) (cyc Sk : List Nat) (is : List Nat) (hnd : is.Nodup)
    (st : List (List Nat)) (his : ∀ i ∈ is, k < i ∧ i < st.length) (hk : st[k]? = some Sk) :
    is.foldl (fun st i => updateRow k cyc i st) st
      = st.mapIdx fun l S => if l ∈ is ∧ dotPar S cyc = true then xorMerge S Sk else S := by
  induction is generalizing st with
  | nil =>
    apply List.ext_getElem?
    intro l
    simp only [List.foldl_nil, List.getElem?_mapIdx, List.not_mem_nil, false_and, if_false]
    cases st[l]? <;> rfl
  | cons i is ih =>
    have hi' := his i (List.mem_cons_self ..)
    have hnd' := List.nodup_cons.1 hnd
    rw [List.foldl_cons, ih hnd'.2]
    · apply List.ext_getElem?
      intro l
      simp only [List.getElem?_mapIdx]
      obtain ⟨Si, hSi⟩ : ∃ Si, st[i]? = some Si := ⟨st[i], List.getElem?_eq_getElem hi'.2⟩
      by_cases hl : l = i
      · subst hl
        simp only [updateRow, hSi, hk, List.mem_cons, true_or, true_and, Option.map_some]
        cases hd : dotPar Si cyc with
        | true =>
          simp only [if_true, List.getElem?_set_self hi'.2, Option.map_some, hnd'.1, false_and,
            if_false]
        | false =>
          simp only [Bool.false_eq_true, if_false, hSi, Option.map_some, hnd'.1, false_and]
      · have hmem : (l ∈ i :: is) ↔ l ∈ is := by simp [hl]
        have hget : (updateRow k cyc i st)[l]? = st[l]? := by
          simp only [updateRow, hSi, hk]
          split
          · rw [List.getElem?_set_ne (Ne.symm hl)]
          · rfl
        rw [hget]
        cases st[l]? with
        | none => rfl
        | some S => simp only [Option.map_some, hmem]
    · intro j hj
      rw [updateRow_length]
      exact his j (List.mem_cons_of_mem _ hj)
    · have hne : i ≠ k := by omega
      simp only [updateRow]
      split
      · split
        · rw [List.getElem?_set_ne hne]; exact hk
        · exact hk
      · exact hk

theorem evalFor_updateRow (sup : List (List Nat)) (k : Nat) (cyc : List Nat) (fs : ForSched)
    (ht : fs.Tiles (k + 1) sup.length) :
    evalFor (updateRow k cyc) fs sup = updateSup sup k cyc := by
  rw [evalFor_eq]
  unfold updateSup
  cases hk : sup[k]? with
  | none =>
    have hlen : sup.length ≤ k := by
      rcases Nat.lt_or_ge k sup.length with h | h
      · rw [List.getElem?_eq_getElem h] at hk; cases hk
      · exact h
    have hp := idx_perm ht
    have h0 : sup.length - (k + 1) = 0 := by omega
    rw [h0] at hp
    simp only [List.range'_zero] at hp
    rw [List.Perm.eq_nil hp]
    rfl
  | some Sk =>
    simp only
    rw [foldl_updateRow k cyc Sk _ (idx_nodup ht) sup
      (fun i hi' => by have := (mem_idx_of_tiles ht).1 hi'; omega) hk]
    apply List.ext_getElem?
    intro l
    simp only [List.getElem?_mapIdx]
    rcases Nat.lt_or_ge l sup.length with h | h
    · rw [List.getElem?_eq_getElem h]
      have : l ∈ ForSched.idx fs ↔ k < l := by rw [mem_idx_of_tiles ht]; omega
      simp only [Option.map_some, this]
    · rw [List.getElem?_eq_none h]; rfl

/-! ### the support initialisation -/

theorem foldl_push (is : List Nat) (v : List (List Nat)) :
    is.foldl (fun (st : List (List Nat)) i => st ++ [[i]]) v = v ++ is.map fun i => [i] := by
  induction is generalizing v with
  | nil => simp
  | cons i is ih => simp only [List.foldl_cons, ih, List.map_cons, List.append_assoc, List.cons_append,
      List.nil_append]

theorem evalFor_push_perm (N : Nat) (fs : ForSched) (ht : fs.Tiles 0 N) :
    (evalFor (fun i (v : List (List Nat)) => v ++ [[i]]) fs []).Perm (unitSupports N) := by
  rw [evalFor_eq, foldl_push, List.nil_append, unitSupports, List.range_eq_range']
  exact (idx_perm ht).map _

/-! ### footprints -/

theorem updateFootprint_no_conflict (k lo₁ hi₁ lo₂ hi₂ : Nat) (h1 : k < lo₁) (h2 : k < lo₂)
    (hd : hi₁ ≤ lo₂ ∨ hi₂ ≤ lo₁) :
    conflict (updateFootprint k lo₁ hi₁) (updateFootprint k lo₂ hi₂) = false := by
  simp [conflict, updateFootprint]
  refine ⟨fun x a b => ?_, fun x a b => ?_⟩ <;> omega

theorem parityFootprint_no_conflict (lo₁ hi₁ lo₂ hi₂ : Nat) (hd : hi₁ ≤ lo₂ ∨ hi₂ ≤ lo₁) :
    conflict (parityFootprint lo₁ hi₁) (parityFootprint lo₂ hi₂) = false := by
  simp [conflict, parityFootprint]
  refine ⟨fun x a b => ?_, fun x a b => ?_⟩ <;> omega

theorem searchFootprint_no_conflict (n : Nat) :
    conflict (searchFootprint n) (searchFootprint n) = false := by
  simp [conflict, searchFootprint]

/-! ### MPI slices -/

theorem stride_bound (total P : Nat) (hP : 1 ≤ P) : total ≤ P * stride total P := by
  unfold stride
  have h1 := Nat.div_add_mod (total + P - 1) P
  have h2 := Nat.mod_lt (total + P - 1) (show 0 < P from hP)
  omega

theorem range_append_range' {a b : Nat} (h : a ≤ b) : List.range a ++ List.range' a (b - a) = List.range b := by
  rw [List.range_eq_range', List.range_eq_range']
  have := @List.range'_append_1 0 a (b - a)
  rw [Nat.zero_add] at this
  rw [this]; congr 1; omega

theorem slices_prefix (total P n : Nat) :
    (List.range n).flatMap (slice total P) = List.range (min (n * stride total P) total) := by
  induction n with
  | zero => simp
  | succ n ih =>
    rw [List.range_succ, List.flatMap_append, ih, List.flatMap_singleton, slice, sliceLo, sliceHi,
      range_append_range' (by omega), Nat.succ_mul]

theorem slices_partition (total P : Nat) (hP : 1 ≤ P) :
    (List.range P).flatMap (slice total P) = List.range total := by
  rw [slices_prefix]
  have := stride_bound total P hP
  congr 1; omega

theorem slice_bounds (total P r : Nat) :
    sliceLo total P r ≤ sliceHi total P r ∧ sliceHi total P r ≤ total := by
  simp only [sliceLo, sliceHi]; omega

theorem slices_adjacent (total P : Nat) (hP : 1 ≤ P) :
    sliceLo total P 0 = 0 ∧ sliceHi total P (P - 1) = total ∧
    ∀ r, r + 1 < P → sliceHi total P r = sliceLo total P (r + 1) := by
  refine ⟨by simp [sliceLo], ?_, ?_⟩
  · have h := stride_bound total P hP
    have h2 : (P - 1) * stride total P + stride total P = P * stride total P := by
      rw [← Nat.succ_mul]; congr 1; omega
    simp only [sliceHi, h2]; omega
  · intro r _
    simp only [sliceHi, sliceLo, Nat.succ_mul]

theorem mem_slice {total P r i : Nat} :
    i ∈ slice total P r ↔ sliceLo total P r ≤ i ∧ i < sliceHi total P r := by
  rw [slice, range'_sub_mem]

/-! ### the MPI reduction tree -/

theorem RTree.eval_inv {C : Type} {μ : Int} (loc : Nat → Cyc C) (P rstar : Nat)
    (hok : ∀ r, r < P → CycOk μ (loc r)) (hhit : CycHit μ (loc rstar))
    (t : RTree) (ht : ∀ r ∈ t.leaves, r < P) :
    CycOk μ (t.eval loc) ∧ (rstar ∈ t.leaves → CycHit μ (t.eval loc)) := by
  induction t with
  | leaf r =>
    simp only [RTree.eval, RTree.leaves, List.mem_singleton]
    exact ⟨hok r (ht r (by simp [RTree.leaves])), fun h => h ▸ hhit⟩
  | node l r ihl ihr =>
    simp only [RTree.leaves, List.mem_append] at ht ⊢
    obtain ⟨okl, hitl⟩ := ihl (fun x hx => ht x (Or.inl hx))
    obtain ⟨okr, hitr⟩ := ihr (fun x hx => ht x (Or.inr hx))
    simp only [RTree.eval]
    refine ⟨minOpMpi_ok okl okr, ?_⟩
    rintro (h | h)
    · exact minOpMpi_hit_left (hitl h) okr
    · exact minOpMpi_hit_right okl (hitr h)

theorem mpiPhase_w {C : Type} (srch : Nat → Option Int → Cyc C) (total P : Nat) (hP : 1 ≤ P) (μ : Int)
    (sound : ∀ i L r, 0 ≤ i → i < total → srch i L = some r → μ ≤ r.1)
    (complete : ∃ i, 0 ≤ i ∧ i < total ∧ ∀ L, (∀ l, L = some l → μ < l) → ∃ c, srch i L = some (μ, c))
    (scheds : Nat → Sched) (hs : ∀ r, r < P → (scheds r).Covers (sliceLo total P r) (sliceHi total P r))
    (t : RTree) (ht : t.leaves.Perm (List.range P)) :
    cycW (mpiPhase srch scheds t) = some μ := by
  obtain ⟨istar, _, h2, hstar⟩ := complete
  have hmem : istar ∈ (List.range P).flatMap (slice total P) := by
    rw [slices_partition total P hP]; exact List.mem_range.2 h2
  obtain ⟨rstar, hr, hin⟩ := List.mem_flatMap.1 hmem
  rw [List.mem_range] at hr
  rw [mem_slice] at hin
  have hloc : ∀ r, r < P → CycOk μ (reduceMin srch (scheds r)) ∧
      ((sliceLo total P r ≤ istar ∧ istar < sliceHi total P r) → CycHit μ (reduceMin srch (scheds r))) :=
    fun r hr => reduceMin_inv sound hstar (hs r hr) (Nat.zero_le _) (slice_bounds total P r).2
  have := RTree.eval_inv (μ := μ) (fun r => reduceMin srch (scheds r)) P rstar
    (fun r hr => (hloc r hr).1) ((hloc rstar hr).2 hin) t
    (fun r hr' => List.mem_range.1 (ht.mem_iff.1 hr'))
  exact (this.2 (ht.mem_iff.2 (List.mem_range.2 hr))).w

/-! ### hidden pairs -/

theorem pairs_same_order (σ : List Nat) (P : Nat) (hP : 1 ≤ P) :
    (List.range P).flatMap (rankPairs (fun _ => σ) σ.length P) = hiddenPairs σ := by
  unfold hiddenPairs
  rw [← slices_partition σ.length P hP, List.map_flatMap]
  rfl

end Parmcb
