import Parmcb.Props.C08
import Parmcb.Lemmas.Cert
/-!
C08, remaining transformations: adding a bridge and subdividing an edge.  Core Lean only.
-/
namespace Parmcb
open Parmcb.C01 Parmcb.C02

/-- add an edge `(u, v, w)` (new edge id `g.m`) -/
def addEdge (g : Graph) (u v : Nat) (w : Int) : Graph := { n := g.n, edges := g.edges ++ [(u, v, w)] }

/-- `u` and `v` lie in different connected components of `g` -/
def Disconnected (g : Graph) (u v : Nat) : Prop :=
  ¬ ∃ es : List Nat, (∀ e ∈ es, e < g.m) ∧ isWalk g es u v = true

namespace Meta2L
open Parmcb.MetaL

/-! ### removing one element from a canonical set -/

/-- `Z` without `x` -/
def rm (x : Nat) (Z : List Nat) : List Nat := Z.filter (fun e => e != x)

theorem mem_rm (x : Nat) (Z : List Nat) (z : Nat) : z ∈ rm x Z ↔ z ∈ Z ∧ z ≠ x := by
  simp [rm]

theorem rm_sorted (x : Nat) (Z : List Nat) (h : StrictSorted Z) : StrictSorted (rm x Z) := by
  rw [strictSorted_iff_pairwise] at h ⊢
  exact h.filter _

theorem rm_of_not_mem (x : Nat) (Z : List Nat) (h : x ∉ Z) : rm x Z = Z :=
  List.filter_eq_self.2 (fun a ha => by
    have : a ≠ x := fun e => h (e ▸ ha)
    simpa using this)

theorem rm_cons_self (x : Nat) (Z : List Nat) : rm x (x :: Z) = rm x Z := by
  simp [rm]

theorem rm_cons_ne (x y : Nat) (Z : List Nat) (h : y ≠ x) : rm x (y :: Z) = y :: rm x Z := by
  simp [rm, h]

theorem par_append (a b : List Nat) (f : Nat → Bool) : par (a ++ b) f = xor (par a f) (par b f) := by
  induction a with
  | nil => simp [par_nil]
  | cons x a ih =>
    simp only [List.cons_append, par_cons, ih]
    cases f x <;> cases par a f <;> cases par b f <;> rfl

theorem par_rm (Z : List Nat) (x : Nat) (f : Nat → Bool) (hnd : Z.Nodup) (hx : x ∈ Z) :
    par Z f = xor (f x) (par (rm x Z) f) := by
  induction Z with
  | nil => cases hx
  | cons y Z ih =>
    have hnd' := List.nodup_cons.1 hnd
    by_cases hy : y = x
    · subst hy
      rw [rm_cons_self, rm_of_not_mem y Z hnd'.1, par_cons]
    · have hxZ : x ∈ Z := by
        rcases List.mem_cons.1 hx with h | h
        · exact absurd h.symm hy
        · exact h
      rw [rm_cons_ne x y Z hy, par_cons, par_cons, ih hnd'.2 hxZ]
      cases f x <;> cases f y <;> cases par (rm x Z) f <;> rfl

theorem wt_append (g : Graph) (a b : List Nat) : wt g (a ++ b) = wt g a + wt g b := by
  unfold wt
  rw [List.map_append, List.sum_append]

theorem wt_rm (g : Graph) (Z : List Nat) (x : Nat) (hnd : Z.Nodup) (hx : x ∈ Z) :
    wt g Z = g.weight x + wt g (rm x Z) := by
  induction Z with
  | nil => cases hx
  | cons y Z ih =>
    have hnd' := List.nodup_cons.1 hnd
    by_cases hy : y = x
    · subst hy
      rw [rm_cons_self, rm_of_not_mem y Z hnd'.1, wt_cons]
    · have hxZ : x ∈ Z := by
        rcases List.mem_cons.1 hx with h | h
        · exact absurd h.symm hy
        · exact h
      rw [rm_cons_ne x y Z hy, wt_cons, wt_cons, ih hnd'.2 hxZ]
      omega

theorem sorted_snoc (Z : List Nat) (m : Nat) (hZ : StrictSorted Z) (hlt : ∀ e ∈ Z, e < m) :
    StrictSorted (Z ++ [m]) := by
  rw [strictSorted_iff_pairwise] at hZ ⊢
  rw [List.pairwise_append]
  refine ⟨hZ, List.pairwise_singleton _ _, ?_⟩
  intro a ha b hb
  rw [List.mem_singleton] at hb
  subst hb
  exact hlt a ha

/-! ### transfer of minimum cycle bases along a weight-preserving linear bijection of cycle spaces -/

/-- `φ : cycle space of g → cycle space of g'` and `ψ` are mutually inverse, `φ` is additive and preserves
weights -/
structure CycIso (g g' : Graph) (φ ψ : List Nat → List Nat) : Prop where
  fwd : ∀ Z, EvenSet g Z → EvenSet g' (φ Z)
  bwd : ∀ Z, EvenSet g' Z → EvenSet g (ψ Z)
  left : ∀ Z, EvenSet g Z → ψ (φ Z) = Z
  right : ∀ Z, EvenSet g' Z → φ (ψ Z) = Z
  add : ∀ A B, EvenSet g A → EvenSet g B → φ (xorMerge A B) = xorMerge (φ A) (φ B)
  wt : ∀ Z, EvenSet g Z → wt g' (φ Z) = wt g Z

theorem CycIso.nil {g g' φ ψ} (h : CycIso g g' φ ψ) : φ [] = [] := by
  have := h.add [] [] (evenSet_nil g) (evenSet_nil g)
  rw [xorMerge_self] at this
  rw [xorMerge_self] at this
  exact this

theorem CycIso.symm {g g' φ ψ} (h : CycIso g g' φ ψ) : CycIso g' g ψ φ where
  fwd := h.bwd
  bwd := h.fwd
  left := h.right
  right := h.left
  add := by
    intro A B hA hB
    have hA' := h.bwd A hA
    have hB' := h.bwd B hB
    have := h.add _ _ hA' hB'
    rw [h.right A hA, h.right B hB] at this
    rw [← this, h.left _ (hA'.add hB')]
  wt := by
    intro Z hZ
    rw [← h.wt _ (h.bwd Z hZ), h.right Z hZ]

theorem CycIso.xorSel {g g' φ ψ} (h : CycIso g g' φ ψ) : ∀ (L : List (List Nat)) (mask : List Bool),
    (∀ X ∈ L, EvenSet g X) → Parmcb.xorSel (L.map φ) mask = φ (Parmcb.xorSel L mask) := by
  intro L
  induction L with
  | nil => intro mask _; simp [Parmcb.xorSel, h.nil]
  | cons c cs ih =>
    intro mask hL
    cases mask with
    | nil => simp [Spanner.xorSel_nil_right, h.nil]
    | cons b bs =>
      have hcs : ∀ X ∈ cs, EvenSet g X := fun X hX => hL X (List.mem_cons_of_mem _ hX)
      have ih' := ih bs hcs
      rw [List.map_cons, Spanner.xorSel_cons, Spanner.xorSel_cons, ih']
      cases b with
      | false => rfl
      | true =>
        simp only [if_true]
        rw [h.add _ _ (hL c List.mem_cons_self) (Spanner.xorSel_even g cs bs hcs)]

theorem CycIso.basis {g g' φ ψ} (h : CycIso g g' φ ψ) (L : List (List Nat)) (hB : IsBasis g L) :
    IsBasis g' (L.map φ) := by
  refine ⟨?_, ?_, ?_⟩
  · intro C hC
    obtain ⟨Y, hY, rfl⟩ := List.mem_map.1 hC
    exact h.fwd Y (hB.1 Y hY)
  · intro mask hl ht h0
    rw [List.length_map] at hl
    rw [h.xorSel L mask hB.1] at h0
    have he := Spanner.xorSel_even g L mask hB.1
    have := h.left _ he
    rw [h0, ← h.nil, h.left _ (evenSet_nil g)] at this
    exact hB.2.1 mask hl ht this.symm
  · intro Z hZ
    obtain ⟨mask, hl, hm⟩ := hB.2.2 _ (h.bwd Z hZ)
    refine ⟨mask, by rw [List.length_map]; exact hl, ?_⟩
    rw [h.xorSel L mask hB.1, hm, h.right Z hZ]

theorem CycIso.tw {g g' φ ψ} (h : CycIso g g' φ ψ) (L : List (List Nat))
    (hL : ∀ X ∈ L, EvenSet g X) : totalWeight g' (L.map φ) = totalWeight g L := by
  unfold C02.totalWeight
  induction L with
  | nil => rfl
  | cons X L ih =>
    have := ih (fun Y hY => hL Y (List.mem_cons_of_mem _ hY))
    simp only [List.map_cons, List.sum_cons]
    rw [h.wt X (hL X List.mem_cons_self), this]

theorem CycIso.mcb {g g' φ ψ} (h : CycIso g g' φ ψ) (L : List (List Nat)) (hM : IsMCB g L) :
    IsMCB g' (L.map φ) ∧ totalWeight g' (L.map φ) = totalWeight g L := by
  have htw := h.tw L hM.1.1
  refine ⟨⟨h.basis L hM.1, ?_⟩, htw⟩
  intro L' hL'
  have hb := h.symm.basis L' hL'
  have := hM.2 _ hb
  rw [h.symm.tw L' hL'.1] at this
  rw [htw]; exact this

/-! ### bridge -/

theorem addEdge_m (g : Graph) (u v : Nat) (w : Int) : (addEdge g u v w).m = g.m + 1 := by
  simp [Graph.m, addEdge]

theorem addEdge_edge_lt (g : Graph) (u v : Nat) (w : Int) (e : Nat) (he : e < g.m) :
    (addEdge g u v w).edges.getD e (0, 0, 0) = g.edges.getD e (0, 0, 0) :=
  getD_append_lt g.edges _ e _ he

theorem addEdge_edge_new (g : Graph) (u v : Nat) (w : Int) :
    (addEdge g u v w).edges.getD g.m (0, 0, 0) = (u, v, w) := by
  simp [Graph.m, addEdge]

theorem addEdge_inc_lt (g : Graph) (u v : Nat) (w : Int) (x e : Nat) (he : e < g.m) :
    (addEdge g u v w).inc x e = g.inc x e := by
  unfold Graph.inc Graph.src Graph.tgt; rw [addEdge_edge_lt g u v w e he]

theorem addEdge_inc_new (g : Graph) (u v : Nat) (w : Int) (x : Nat) :
    (addEdge g u v w).inc x g.m = xor (x == u) (x == v) := by
  unfold Graph.inc Graph.src Graph.tgt; rw [addEdge_edge_new g u v w]
  show xor (u == x) (v == x) = _
  rw [Bool.beq_comm (a := u), Bool.beq_comm (a := v)]

theorem bridge_evenSet (g : Graph) (u v : Nat) (huv : u ≠ v) (w : Int) (hd : Disconnected g u v)
    (Z : List Nat) : EvenSet (addEdge g u v w) Z ↔ EvenSet g Z := by
  constructor
  · rintro ⟨h1, h2, h3⟩
    have hle : ∀ e ∈ Z, e < g.m + 1 := fun e he => by have := h2 e he; rwa [addEdge_m] at this
    have hnot : g.m ∉ Z := by
      intro hmem
      apply hd
      have hlt : ∀ e ∈ rm g.m Z, e < g.m := by
        intro e he
        have := (mem_rm _ _ _).1 he
        have := hle e this.1
        omega
      have hpar : ∀ x, par (rm g.m Z) (g.inc x) = xor (x == u) (x == v) := by
        intro x
        have h := par_rm Z g.m ((addEdge g u v w).inc x) h1.nodup hmem
        rw [h3 x, addEdge_inc_new] at h
        rw [par_congr _ _ _ (fun e he => (addEdge_inc_lt g u v w x e (hlt e he)).symm)]
        revert h
        cases (x == u) <;> cases (x == v) <;> cases par (rm g.m Z) ((addEdge g u v w).inc x) <;> simp
      obtain ⟨es, _, hsub, hw⟩ :=
        Spanner.walk_extract g _ (rm g.m Z) u v rfl (rm_sorted _ _ h1).nodup huv hpar
      exact ⟨es, fun e he => hlt e (hsub e he), hw⟩
    have h2' : ∀ e ∈ Z, e < g.m := by
      intro e he
      have := hle e he
      have : e ≠ g.m := fun h => hnot (h ▸ he)
      omega
    refine ⟨h1, h2', fun x => ?_⟩
    rw [← h3 x]
    exact par_congr _ _ _ (fun e he => (addEdge_inc_lt g u v w x e (h2' e he)).symm)
  · rintro ⟨h1, h2, h3⟩
    refine ⟨h1, fun e he => by rw [addEdge_m]; exact Nat.lt_succ_of_lt (h2 e he), fun x => ?_⟩
    rw [← h3 x]
    exact par_congr _ _ _ (fun e he => addEdge_inc_lt g u v w x e (h2 e he))

end Meta2L

/-- **bridge**: an edge joining two different components lies on no cycle, so every minimum cycle basis of
`g` is one of `g + bridge` with the same weight -/
theorem mcb_bridge (g : Graph) (hs : g.simpleB = true) (u v : Nat) (hu : u < g.n) (hv : v < g.n) (huv : u ≠ v)
    (w : Int) (hd : Disconnected g u v) (L : List (List Nat)) (h : IsMCB g L) :
    IsMCB (addEdge g u v w) L ∧ totalWeight (addEdge g u v w) L = totalWeight g L := by
  have _ := hs; have _ := hu; have _ := hv
  apply MetaL.isMCB_transfer_one g _ (Meta2L.bridge_evenSet g u v huv w hd) _ L h
  intro Z hZ
  apply MetaL.wt_congr_one
  intro e he
  unfold Graph.weight; rw [Meta2L.addEdge_edge_lt g u v w e (hZ.2.1 e he)]

/-- replace edge `e0 = (u, v, w)` by the path `u — x — v` through a new vertex `x = g.n`: edge id `e0` becomes
`(u, x, w₁)`, the new edge id `g.m` is `(x, v, w₂)` -/
def subdivide (g : Graph) (e0 : Nat) (w₁ w₂ : Int) : Graph :=
  { n := g.n + 1,
    edges := g.edges.set e0 (g.src e0, g.n, w₁) ++ [(g.n, g.tgt e0, w₂)] }

/-- how an edge set of `g` is written in the subdivided graph: the second half goes wherever the first goes -/
def subdivSet (g : Graph) (e0 : Nat) (Z : List Nat) : List Nat := if e0 ∈ Z then Z ++ [g.m] else Z

namespace Meta2L
open Parmcb.MetaL

/-! ### subdivision -/

theorem sub_m (g : Graph) (e0 : Nat) (w₁ w₂ : Int) : (subdivide g e0 w₁ w₂).m = g.m + 1 := by
  simp [Graph.m, subdivide]

theorem sub_edge_old (g : Graph) (e0 : Nat) (w₁ w₂ : Int) (e : Nat) (he : e < g.m) (hne : e ≠ e0) :
    (subdivide g e0 w₁ w₂).edges.getD e (0, 0, 0) = g.edges.getD e (0, 0, 0) := by
  unfold subdivide
  show (g.edges.set e0 _ ++ _).getD e _ = _
  rw [getD_append_lt _ _ e _ (by rw [List.length_set]; exact he)]
  rw [List.getD_eq_getElem?_getD, List.getD_eq_getElem?_getD, List.getElem?_set_ne (Ne.symm hne)]

theorem sub_edge_e0 (g : Graph) (e0 : Nat) (w₁ w₂ : Int) (he0 : e0 < g.m) :
    (subdivide g e0 w₁ w₂).edges.getD e0 (0, 0, 0) = (g.src e0, g.n, w₁) := by
  unfold subdivide
  show (g.edges.set e0 _ ++ _).getD e0 _ = _
  rw [getD_append_lt _ _ e0 _ (by rw [List.length_set]; exact he0)]
  rw [List.getD_eq_getElem?_getD, List.getElem?_set_self he0]
  rfl

theorem sub_edge_new (g : Graph) (e0 : Nat) (w₁ w₂ : Int) :
    (subdivide g e0 w₁ w₂).edges.getD g.m (0, 0, 0) = (g.n, g.tgt e0, w₂) := by
  simp [Graph.m, subdivide]

theorem sub_inc_old (g : Graph) (e0 : Nat) (w₁ w₂ : Int) (y e : Nat) (he : e < g.m) (hne : e ≠ e0) :
    (subdivide g e0 w₁ w₂).inc y e = g.inc y e := by
  unfold Graph.inc Graph.src Graph.tgt; rw [sub_edge_old g e0 w₁ w₂ e he hne]

theorem sub_inc_e0 (g : Graph) (e0 : Nat) (w₁ w₂ : Int) (he0 : e0 < g.m) (y : Nat) :
    (subdivide g e0 w₁ w₂).inc y e0 = xor (g.src e0 == y) (g.n == y) := by
  unfold Graph.inc; unfold Graph.src Graph.tgt; rw [sub_edge_e0 g e0 w₁ w₂ he0]; rfl

theorem sub_inc_new (g : Graph) (e0 : Nat) (w₁ w₂ : Int) (y : Nat) :
    (subdivide g e0 w₁ w₂).inc y g.m = xor (g.n == y) (g.tgt e0 == y) := by
  unfold Graph.inc; unfold Graph.src Graph.tgt; rw [sub_edge_new g e0 w₁ w₂]; rfl

theorem sub_inc_pair (g : Graph) (e0 : Nat) (w₁ w₂ : Int) (he0 : e0 < g.m) (y : Nat) :
    xor ((subdivide g e0 w₁ w₂).inc y e0) ((subdivide g e0 w₁ w₂).inc y g.m) = g.inc y e0 := by
  rw [sub_inc_e0 g e0 w₁ w₂ he0, sub_inc_new]
  unfold Graph.inc
  cases (g.src e0 == y) <;> cases (g.n == y) <;> cases (g.tgt e0 == y) <;> rfl

theorem sub_weight_old (g : Graph) (e0 : Nat) (w₁ w₂ : Int) (e : Nat) (he : e < g.m) (hne : e ≠ e0) :
    (subdivide g e0 w₁ w₂).weight e = g.weight e := by
  unfold Graph.weight; rw [sub_edge_old g e0 w₁ w₂ e he hne]

theorem sub_weight_e0 (g : Graph) (e0 : Nat) (w₁ w₂ : Int) (he0 : e0 < g.m) :
    (subdivide g e0 w₁ w₂).weight e0 = w₁ := by
  unfold Graph.weight; rw [sub_edge_e0 g e0 w₁ w₂ he0]

theorem sub_weight_new (g : Graph) (e0 : Nat) (w₁ w₂ : Int) :
    (subdivide g e0 w₁ w₂).weight g.m = w₂ := by
  unfold Graph.weight; rw [sub_edge_new g e0 w₁ w₂]

/-- membership in `subdivSet g e0 Z` for a set of old ids -/
theorem mem_subdivSet (g : Graph) (e0 : Nat) (Z : List Nat) (hlt : ∀ e ∈ Z, e < g.m) (z : Nat) :
    z ∈ subdivSet g e0 Z ↔ (z ≤ g.m ∧ (if z = g.m then e0 else z) ∈ Z) := by
  have hm : g.m ∉ Z := fun h => Nat.lt_irrefl _ (hlt _ h)
  unfold subdivSet
  by_cases h0 : e0 ∈ Z
  · rw [if_pos h0, List.mem_append, List.mem_singleton]
    by_cases hz : z = g.m
    · subst hz; simp [h0]
    · simp only [hz, if_false, or_false]
      exact ⟨fun h => ⟨Nat.le_of_lt (hlt z h), h⟩, fun h => h.2⟩
  · rw [if_neg h0]
    by_cases hz : z = g.m
    · subst hz; simp [h0, hm]
    · simp only [hz, if_false]
      exact ⟨fun h => ⟨Nat.le_of_lt (hlt z h), h⟩, fun h => h.2⟩

theorem subdivSet_sorted (g : Graph) (e0 : Nat) (Z : List Nat) (hZ : StrictSorted Z)
    (hlt : ∀ e ∈ Z, e < g.m) : StrictSorted (subdivSet g e0 Z) := by
  unfold subdivSet
  split
  · exact sorted_snoc Z g.m hZ hlt
  · exact hZ

theorem subdivSet_xor (g : Graph) (e0 : Nat) (A B : List Nat) (hA : StrictSorted A)
    (hB : StrictSorted B) (hAlt : ∀ e ∈ A, e < g.m) (hBlt : ∀ e ∈ B, e < g.m) :
    subdivSet g e0 (xorMerge A B) = xorMerge (subdivSet g e0 A) (subdivSet g e0 B) := by
  have hAB : ∀ e ∈ xorMerge A B, e < g.m := by
    intro e he
    rcases mem_xorMerge_of _ _ _ he with h | h
    · exact hAlt e h
    · exact hBlt e h
  have hsA := subdivSet_sorted g e0 A hA hAlt
  have hsB := subdivSet_sorted g e0 B hB hBlt
  apply StrictSorted.ext (subdivSet_sorted g e0 _ (xorMerge_sorted _ _ hA hB) hAB) (xorMerge_sorted _ _ hsA hsB)
  intro z
  rw [mem_subdivSet g e0 _ hAB, mem_xorMerge _ _ hA hB, mem_xorMerge _ _ hsA hsB,
    mem_subdivSet g e0 A hAlt, mem_subdivSet g e0 B hBlt]
  by_cases h0 : z ≤ g.m <;> by_cases h1 : (if z = g.m then e0 else z) ∈ A <;>
    by_cases h2 : (if z = g.m then e0 else z) ∈ B <;> simp [h0, h1, h2]

/-- parities are preserved at EVERY vertex (the new vertex sees both halves or none) -/
theorem subdivSet_par (g : Graph) (e0 : Nat) (w₁ w₂ : Int) (he0 : e0 < g.m) (Z : List Nat)
    (hZ : StrictSorted Z) (hlt : ∀ e ∈ Z, e < g.m) (y : Nat) :
    par (subdivSet g e0 Z) ((subdivide g e0 w₁ w₂).inc y) = par Z (g.inc y) := by
  unfold subdivSet
  by_cases h0 : e0 ∈ Z
  · rw [if_pos h0, par_append, par_cons, par_nil, Bool.xor_false,
      par_rm Z e0 _ hZ.nodup h0, par_rm Z e0 (g.inc y) hZ.nodup h0, ← sub_inc_pair g e0 w₁ w₂ he0 y]
    have : par (rm e0 Z) ((subdivide g e0 w₁ w₂).inc y) = par (rm e0 Z) (g.inc y) := by
      apply par_congr
      intro e he
      have := (mem_rm _ _ _).1 he
      exact sub_inc_old g e0 w₁ w₂ y e (hlt e this.1) this.2
    rw [this]
    cases (subdivide g e0 w₁ w₂).inc y e0 <;> cases (subdivide g e0 w₁ w₂).inc y g.m <;>
      cases par (rm e0 Z) (g.inc y) <;> rfl
  · rw [if_neg h0]
    apply par_congr
    intro e he
    exact sub_inc_old g e0 w₁ w₂ y e (hlt e he) (fun h => h0 (h ▸ he))

theorem subdivSet_wt (g : Graph) (e0 : Nat) (w₁ w₂ : Int) (he0 : e0 < g.m) (hw : w₁ + w₂ = g.weight e0)
    (Z : List Nat) (hZ : StrictSorted Z) (hlt : ∀ e ∈ Z, e < g.m) :
    wt (subdivide g e0 w₁ w₂) (subdivSet g e0 Z) = wt g Z := by
  unfold subdivSet
  by_cases h0 : e0 ∈ Z
  · rw [if_pos h0, wt_append, wt_cons, wt_nil, sub_weight_new,
      wt_rm _ Z e0 hZ.nodup h0, wt_rm g Z e0 hZ.nodup h0, sub_weight_e0 g e0 w₁ w₂ he0]
    have : wt (subdivide g e0 w₁ w₂) (rm e0 Z) = wt g (rm e0 Z) := by
      apply wt_congr_one
      intro e he
      have := (mem_rm _ _ _).1 he
      exact sub_weight_old g e0 w₁ w₂ e (hlt e this.1) this.2
    rw [this]
    omega
  · rw [if_neg h0]
    apply wt_congr_one
    intro e he
    exact sub_weight_old g e0 w₁ w₂ e (hlt e he) (fun h => h0 (h ▸ he))

theorem subdiv_fwd (g : Graph) (e0 : Nat) (w₁ w₂ : Int) (he0 : e0 < g.m) (Z : List Nat)
    (hZ : EvenSet g Z) : EvenSet (subdivide g e0 w₁ w₂) (subdivSet g e0 Z) := by
  refine ⟨subdivSet_sorted g e0 Z hZ.1 hZ.2.1, ?_, fun y => ?_⟩
  · intro e he
    rw [sub_m]
    have := ((mem_subdivSet g e0 Z hZ.2.1 e).1 he).1
    omega
  · rw [subdivSet_par g e0 w₁ w₂ he0 Z hZ.1 hZ.2.1 y]; exact hZ.2.2 y

theorem subdiv_left (g : Graph) (e0 : Nat) (Z : List Nat) (hlt : ∀ e ∈ Z, e < g.m) :
    rm g.m (subdivSet g e0 Z) = Z := by
  have hm : g.m ∉ Z := fun h => Nat.lt_irrefl _ (hlt _ h)
  unfold subdivSet
  split
  · unfold rm
    rw [List.filter_append]
    have := rm_of_not_mem g.m Z hm
    unfold rm at this
    rw [this]; simp
  · exact rm_of_not_mem g.m Z hm

/-- the parity at the new vertex couples the two halves -/
theorem subdiv_couple (g : Graph) (hs : g.simpleB = true) (e0 : Nat) (w₁ w₂ : Int) (he0 : e0 < g.m)
    (Z : List Nat) (hZ : EvenSet (subdivide g e0 w₁ w₂) Z) : e0 ∈ Z ↔ g.m ∈ Z := by
  have hf := simpleB_facts g hs e0 he0
  have hle : ∀ e ∈ Z, e < g.m + 1 := fun e he => by have := hZ.2.1 e he; rwa [sub_m] at this
  have hi0 : (subdivide g e0 w₁ w₂).inc g.n e0 = true := by
    rw [sub_inc_e0 g e0 w₁ w₂ he0]
    have : (g.src e0 == g.n) = false := beq_eq_false_iff_ne.2 (by omega)
    simp [this]
  have him : (subdivide g e0 w₁ w₂).inc g.n g.m = true := by
    rw [sub_inc_new]
    have : (g.tgt e0 == g.n) = false := beq_eq_false_iff_ne.2 (by omega)
    simp [this]
  have hother : ∀ e ∈ Z, e ≠ e0 → e ≠ g.m → (subdivide g e0 w₁ w₂).inc g.n e = false := by
    intro e he h1 h2
    have hlt : e < g.m := by have := hle e he; omega
    rw [sub_inc_old g e0 w₁ w₂ g.n e hlt h1]
    exact inc_false_of_ge g hs g.n (Nat.le_refl _) e hlt
  have hpar := hZ.2.2 g.n
  constructor
  · intro h0
    apply Classical.byContradiction
    intro hm
    have := par_unique Z _ e0 hZ.1.nodup h0 hi0 (by
      intro e he hi
      apply Classical.byContradiction
      intro hne
      rw [hother e he hne (fun h => hm (h ▸ he))] at hi; cases hi)
    rw [hpar] at this; cases this
  · intro hm
    apply Classical.byContradiction
    intro h0
    have := par_unique Z _ g.m hZ.1.nodup hm him (by
      intro e he hi
      apply Classical.byContradiction
      intro hne
      rw [hother e he (fun h => h0 (h ▸ he)) hne] at hi; cases hi)
    rw [hpar] at this; cases this

theorem subdiv_right (g : Graph) (hs : g.simpleB = true) (e0 : Nat) (w₁ w₂ : Int) (he0 : e0 < g.m)
    (Z : List Nat) (hZ : EvenSet (subdivide g e0 w₁ w₂) Z) : subdivSet g e0 (rm g.m Z) = Z := by
  have hle : ∀ e ∈ Z, e < g.m + 1 := fun e he => by have := hZ.2.1 e he; rwa [sub_m] at this
  have hlt : ∀ e ∈ rm g.m Z, e < g.m := by
    intro e he
    have := (mem_rm _ _ _).1 he
    have := hle e this.1
    omega
  have hc := subdiv_couple g hs e0 w₁ w₂ he0 Z hZ
  apply StrictSorted.ext (subdivSet_sorted g e0 _ (rm_sorted _ _ hZ.1) hlt) hZ.1
  intro z
  rw [mem_subdivSet g e0 _ hlt, mem_rm]
  by_cases hz : z = g.m
  · subst hz
    simp only [if_true, Nat.le_refl, true_and]
    rw [← hc]
    exact ⟨fun h => h.1, fun h => ⟨h, by omega⟩⟩
  · simp only [hz, if_false]
    exact ⟨fun h => h.2.1, fun h => ⟨by have := hle z h; omega, h, hz⟩⟩

theorem subdiv_bwd (g : Graph) (hs : g.simpleB = true) (e0 : Nat) (w₁ w₂ : Int) (he0 : e0 < g.m)
    (Z : List Nat) (hZ : EvenSet (subdivide g e0 w₁ w₂) Z) : EvenSet g (rm g.m Z) := by
  have hle : ∀ e ∈ Z, e < g.m + 1 := fun e he => by have := hZ.2.1 e he; rwa [sub_m] at this
  have hlt : ∀ e ∈ rm g.m Z, e < g.m := by
    intro e he
    have := (mem_rm _ _ _).1 he
    have := hle e this.1
    omega
  refine ⟨rm_sorted _ _ hZ.1, hlt, fun y => ?_⟩
  rw [← subdivSet_par g e0 w₁ w₂ he0 _ (rm_sorted _ _ hZ.1) hlt y, subdiv_right g hs e0 w₁ w₂ he0 Z hZ]
  exact hZ.2.2 y

theorem subdiv_iso (g : Graph) (hs : g.simpleB = true) (e0 : Nat) (he0 : e0 < g.m) (w₁ w₂ : Int)
    (hw : w₁ + w₂ = g.weight e0) : CycIso g (subdivide g e0 w₁ w₂) (subdivSet g e0) (rm g.m) where
  fwd := subdiv_fwd g e0 w₁ w₂ he0
  bwd := subdiv_bwd g hs e0 w₁ w₂ he0
  left := fun Z hZ => subdiv_left g e0 Z hZ.2.1
  right := subdiv_right g hs e0 w₁ w₂ he0
  add := fun A B hA hB => subdivSet_xor g e0 A B hA.1 hB.1 hA.2.1 hB.2.1
  wt := fun Z hZ => subdivSet_wt g e0 w₁ w₂ he0 hw Z hZ.1 hZ.2.1

end Meta2L

/-- **subdivision**: splitting an edge into two edges of the same total weight maps minimum cycle bases to
minimum cycle bases of the same weight -/
theorem mcb_subdivide (g : Graph) (hs : g.simpleB = true) (e0 : Nat) (he0 : e0 < g.m) (w₁ w₂ : Int)
    (hw : w₁ + w₂ = g.weight e0) (L : List (List Nat)) (h : IsMCB g L) :
    IsMCB (subdivide g e0 w₁ w₂) (L.map (subdivSet g e0)) ∧
    totalWeight (subdivide g e0 w₁ w₂) (L.map (subdivSet g e0)) = totalWeight g L :=
  (Meta2L.subdiv_iso g hs e0 he0 w₁ w₂ hw).mcb L h

end Parmcb
