import Parmcb.Lemmas.LexOpt
/-!
Part I: the literal model of `lex_dijkstra` + `SPTree::initialize` (`buildTree`) produces lexicographically optimal root
paths.  Core Lean only.
-/
namespace Parmcb

namespace LexDijL
open TreesL DijL Spanner

/-! ### set insertion -/

theorem setInsert_of_mem {x : Nat} : ∀ {l : List Nat}, StrictSorted l → x ∈ l → setInsert x l = l
  | [], _, h => by cases h
  | y :: r, hs, h => by
    rw [setInsert]
    rcases List.mem_cons.1 h with h | h
    · subst h
      rw [if_neg (Nat.lt_irrefl _), if_pos rfl]
    · have := hs.head_lt x h
      rw [if_neg (by omega), if_neg (by omega), setInsert_of_mem hs.tail h]

theorem setInsert_length {x : Nat} : ∀ {l : List Nat}, x ∉ l → (setInsert x l).length = l.length + 1
  | [], _ => rfl
  | y :: r, h => by
    rw [setInsert]
    have hxy : x ≠ y := fun hh => h (hh ▸ List.mem_cons_self)
    have hxr : x ∉ r := fun hh => h (List.mem_cons_of_mem _ hh)
    by_cases h1 : x < y
    · rw [if_pos h1]; rfl
    · rw [if_neg h1, if_neg hxy, List.length_cons, setInsert_length hxr]; rfl

/-! ### labels -/

theorem jn_other {g : Graph} {e y y' : Nat} (h : Jn g e y y') : g.other e y = y' := by
  unfold Graph.other
  rcases h with ⟨h1, h2⟩ | ⟨h1, h2⟩
  · rw [if_pos h1]; exact h2
  · by_cases h3 : g.src e = y
    · rw [if_pos h3, h1, ← h3, h2]
    · rw [if_neg h3]; exact h2

theorem adj_jn {g : Graph} {u e w : Nat} (h : (e, w) ∈ g.adj u) : Jn g e w u := by
  obtain ⟨_, ⟨h1, h2⟩ | ⟨h1, h2⟩⟩ := (mem_adj g u e w).1 h
  · exact Or.inr ⟨h2.symm, h1⟩
  · exact Or.inl ⟨h2.symm, h1⟩

theorem jn_adj {g : Graph} {e y y' : Nat} (he : e < g.m) (h : Jn g e y y') : (e, y) ∈ g.adj y' := by
  rw [mem_adj]
  refine ⟨he, ?_⟩
  rcases h with ⟨h1, h2⟩ | ⟨h1, h2⟩
  · exact Or.inr ⟨h2, h1.symm⟩
  · exact Or.inl ⟨h2, h1.symm⟩

theorem mem_combine (g : Graph) (a : LexLabel) (e z : Nat) :
    z ∈ (lexCombine g a e).verts ↔ z = g.src e ∨ z = g.tgt e ∨ z ∈ a.verts := by
  show z ∈ setInsert (g.src e) (setInsert (g.tgt e) a.verts) ↔ _
  rw [mem_setInsert, mem_setInsert]

/-- extending a path that ends in `y'` by an edge to `y`: the new vertex set -/
theorem mem_combine_jn {g : Graph} {a : LexLabel} {e y y' : Nat} (hj : Jn g e y y') (hy' : y' ∈ a.verts) (z : Nat) :
    z ∈ (lexCombine g a e).verts ↔ z = y ∨ z ∈ a.verts := by
  rw [mem_combine]
  rcases hj with ⟨h1, h2⟩ | ⟨h1, h2⟩
  · rw [h1, h2]
    constructor
    · rintro (h | h | h)
      · exact Or.inl h
      · exact Or.inr (h ▸ hy')
      · exact Or.inr h
    · rintro (h | h)
      · exact Or.inl h
      · exact Or.inr (Or.inr h)
  · rw [h1, h2]
    constructor
    · rintro (h | h | h)
      · exact Or.inr (h ▸ hy')
      · exact Or.inl h
      · exact Or.inr h
    · rintro (h | h)
      · exact Or.inr (Or.inl h)
      · exact Or.inr (Or.inr h)

theorem labOK_combine {g : Graph} {a : LexLabel} {e y y' : Nat} (ha : LabOK a) (hj : Jn g e y y')
    (hy' : y' ∈ a.verts) (hy : y ∉ a.verts) : LabOK (lexCombine g a e) := by
  refine ⟨setInsert_sorted _ _ (setInsert_sorted _ _ ha.1), ?_⟩
  show (setInsert (g.src e) (setInsert (g.tgt e) a.verts)).length = a.cnt + 1 + 1
  rcases hj with ⟨h1, h2⟩ | ⟨h1, h2⟩
  · rw [h1, h2, setInsert_of_mem ha.1 hy', setInsert_length hy, ha.2]
  · rw [h1, h2]
    have hs := setInsert_sorted y a.verts ha.1
    rw [setInsert_of_mem hs ((mem_setInsert _ _ _).2 (Or.inr hy')), setInsert_length hy, ha.2]

/-- `a ≤ b ≤ c` -/
theorem le_trans' {a b c : LexLabel} (ha : LabOK a) (hb : LabOK b) (hc : LabOK c)
    (h1 : lexLess b a = false) (h2 : lexLess c b = false) : lexLess c a = false := by
  cases h : lexLess c a with
  | false => rfl
  | true =>
    rcases lexLess_total a b ha hb with h3 | h3 | h3
    · rw [lexLess_trans c a b hc ha hb h h3] at h2; cases h2
    · rw [h3] at h1; cases h1
    · subst h3; rw [h] at h2; cases h2

/-- `c < b ≤ x` gives `c ≤ x` -/
theorem le_of_lt_le {c b x : LexLabel} (hc : LabOK c) (hb : LabOK b) (hx : LabOK x)
    (h1 : lexLess c b = true) (h2 : lexLess x b = false) : lexLess x c = false := by
  cases h : lexLess x c with
  | false => rfl
  | true => rw [lexLess_trans x c b hx hc hb h h1] at h2; cases h2

theorem lexLess_false_of_dist {a b : LexLabel} (h : b.dist < a.dist) : lexLess a b = false := by
  cases h' : lexLess a b with
  | false => rfl
  | true => have := lexLess_true_dist a b h'; omega

/-- extension by the same edge to the same new vertex is monotone -/
theorem combine_mono {g : Graph} {a b : LexLabel} {e y y' : Nat} (ha : LabOK a) (hb : LabOK b) (hj : Jn g e y y')
    (hay' : y' ∈ a.verts) (hby' : y' ∈ b.verts) (hay : y ∉ a.verts) (hby : y ∉ b.verts)
    (h : lexLess b a = false) : lexLess (lexCombine g b e) (lexCombine g a e) = false := by
  cases h' : lexLess (lexCombine g b e) (lexCombine g a e) with
  | false => rfl
  | true =>
    have hca := labOK_combine ha hj hay' hay
    have hcb := labOK_combine hb hj hby' hby
    have : lexLess b a = true := by
      rw [lexLess_iff] at h' ⊢
      have e1 : (lexCombine g a e).dist = a.dist + g.weight e := rfl
      have e2 : (lexCombine g b e).dist = b.dist + g.weight e := rfl
      have e3 : (lexCombine g a e).cnt = a.cnt + 1 := rfl
      have e4 : (lexCombine g b e).cnt = b.cnt + 1 := rfl
      rcases h' with h' | ⟨h1, h' | ⟨h2, h'⟩⟩
      · left; omega
      · right; exact ⟨by omega, Or.inl (by omega)⟩
      · right
        refine ⟨by omega, Or.inr ⟨by omega, ?_⟩⟩
        rw [setLess_iff _ _ hcb.1 hca.1 (by rw [hcb.2, hca.2, h2])] at h'
        rw [setLess_iff _ _ hb.1 ha.1 (by rw [hb.2, ha.2]; omega)]
        obtain ⟨x, x1, x2, x3⟩ := h'
        rw [mem_combine_jn hj hby'] at x1
        rw [mem_combine_jn hj hay'] at x2
        have hxy : x ≠ y := fun hh => x2 (Or.inl hh)
        refine ⟨x, x1.elim (fun hh => absurd hh hxy) id, fun hh => x2 (Or.inr hh), ?_⟩
        intro z hz
        have := x3 z hz
        rw [mem_combine_jn hj hby', mem_combine_jn hj hay'] at this
        by_cases hzy : z = y
        · subst hzy
          exact ⟨fun hh => absurd hh hby, fun hh => absurd hh hay⟩
        · constructor
          · intro hh; exact (this.1 (Or.inr hh)).elim (fun h0 => absurd h0 hzy) id
          · intro hh; exact (this.2 (Or.inr hh)).elim (fun h0 => absurd h0 hzy) id
    rw [this] at h; cases h

/-! ### walks and their labels -/

theorem walkVerts_head (g : Graph) (es : List Nat) (a : Nat) : a ∈ walkVerts g es a := by
  cases es with
  | nil => exact List.mem_cons_self
  | cons e r => exact List.mem_cons_self

theorem walkLabel_nil (g : Graph) (a : Nat) : walkLabel g [] a = ⟨0, 0, [a]⟩ := rfl

theorem walkLabel_cons {g : Graph} {e y y' : Nat} (Q : List Nat) (hj : Jn g e y y') :
    walkLabel g (e :: Q) y = lexCombine g (walkLabel g Q y') e := by
  have hy' : y' ∈ (walkLabel g Q y').verts := (mem_setOf _ _).2 (walkVerts_head g Q y')
  have h3 : (walkLabel g (e :: Q) y).verts = (lexCombine g (walkLabel g Q y') e).verts := by
    apply StrictSorted.ext (setOf_sorted _) (setInsert_sorted _ _ (setInsert_sorted _ _ (setOf_sorted _)))
    intro z
    refine Iff.trans ?_ (mem_combine_jn hj hy' z).symm
    show z ∈ setOf (walkVerts g (e :: Q) y) ↔ z = y ∨ z ∈ setOf (walkVerts g Q y')
    rw [mem_setOf, mem_setOf]
    show z ∈ y :: walkVerts g Q (g.other e y) ↔ _
    rw [jn_other hj, List.mem_cons]
  have h1 : (walkLabel g (e :: Q) y).dist = (lexCombine g (walkLabel g Q y') e).dist := by
    show ((e :: Q).map g.weight).sum = (Q.map g.weight).sum + g.weight e
    rw [List.map_cons, List.sum_cons]; omega
  have h2 : (walkLabel g (e :: Q) y).cnt = (lexCombine g (walkLabel g Q y') e).cnt := rfl
  cases hA : walkLabel g (e :: Q) y
  cases hB : lexCombine g (walkLabel g Q y') e
  rw [hA, hB] at h1 h2 h3
  simp only at h1 h2 h3
  subst h1; subst h2; subst h3; rfl

theorem simplePath_nil {g : Graph} {y s : Nat} (h : SimplePath g [] y s) : y = s :=
  (isWalk_nil g y s).1 h.1

theorem simplePath_cons {g : Graph} {e : Nat} {Q : List Nat} {y s : Nat} (h : SimplePath g (e :: Q) y s) :
    ∃ y', Jn g e y y' ∧ e < g.m ∧ SimplePath g Q y' s ∧ y ∉ walkVerts g Q y' := by
  obtain ⟨h1, h2, h3⟩ := h
  obtain ⟨c, hj, hw⟩ := (isWalk_cons g e Q y s).1 h1
  have h3' : (y :: walkVerts g Q (g.other e y)).Nodup := h3
  rw [jn_other hj, List.nodup_cons] at h3'
  exact ⟨c, hj, h2 e List.mem_cons_self, ⟨hw, fun f hf => h2 f (List.mem_cons_of_mem _ hf), h3'.2⟩, h3'.1⟩

theorem simplePath_ok {g : Graph} {s : Nat} : ∀ (Q : List Nat) (y : Nat), SimplePath g Q y s →
    LabOK (walkLabel g Q y) ∧ s ∈ (walkLabel g Q y).verts
  | [], y, h => by
    have := simplePath_nil h
    subst this
    rw [walkLabel_nil]
    exact ⟨⟨trivial, rfl⟩, List.mem_cons_self⟩
  | e :: Q, y, h => by
    obtain ⟨y', hj, _, hQ, hy⟩ := simplePath_cons h
    obtain ⟨i1, i2⟩ := simplePath_ok Q y' hQ
    have hy' : y' ∈ (walkLabel g Q y').verts := (mem_setOf _ _).2 (walkVerts_head g Q y')
    have hyn : y ∉ (walkLabel g Q y').verts := fun hh => hy ((mem_setOf _ _).1 hh)
    rw [walkLabel_cons Q hj]
    exact ⟨labOK_combine i1 hj hy' hyn, (mem_combine_jn hj hy' s).2 (Or.inr i2)⟩

/-! ### the label-level invariant (on top of `DijL.Inv`) -/

/-- what a relaxed out-edge `(e, w)` of the popped vertex `a` guarantees -/
def EdgeOK (g : Graph) (lab : List (Option LexLabel)) (a e w : Nat) : Prop :=
  (e, w) ∈ g.adj a ∧ ∃ la lw, lab.getD a none = some la ∧ lab.getD w none = some lw ∧
    (w ∉ la.verts → lexLess (lexCombine g la e) lw = false)

structure LInv (g : Graph) (s : Nat) (st : LexState) (D : List Nat) (R : Nat → Nat → Nat → Prop) : Prop where
  /-- a label is the label of the parent extended by the predecessor edge -/
  tl : ∀ v e, st.pred.getD v none = some e → ∃ lp, st.lab.getD (g.other e v) none = some lp ∧
    st.lab.getD v none = some (lexCombine g lp e) ∧ v ∉ lp.verts
  ok : ∀ v l, st.lab.getD v none = some l → LabOK l ∧ v ∈ l.verts ∧ s ∈ l.verts ∧ ∀ x ∈ l.verts, x = v ∨ x ∈ D
  /-- popped vertices carry optimal labels -/
  opt : ∀ d ∈ D, ∀ l, st.lab.getD d none = some l → ∀ Q, SimplePath g Q d s → lexLess (walkLabel g Q d) l = false
  edge : ∀ a e w, R a e w → EdgeOK g st.lab a e w

theorem LInv.setR {g : Graph} {s : Nat} {st : LexState} {D : List Nat} {R R' : Nat → Nat → Nat → Prop}
    (h : LInv g s st D R) (hR : ∀ a e w, R' a e w → EdgeOK g st.lab a e w) : LInv g s st D R' :=
  ⟨h.tl, h.ok, h.opt, hR⟩

/-- `lab[w] := combine(lab[u], e)`, `pred[w] := e` -/
theorem LInv.update {g : Graph} {s : Nat} {st : LexState} {D : List Nat} {R : Nat → Nat → Nat → Prop}
    (h : Inv g s st D R) (hl : LInv g s st D R)
    (u e w : Nat) (du : LexLabel) (q' : List Nat) (hu : u ∈ D) (hdu : st.lab.getD u none = some du)
    (hadj : (e, w) ∈ g.adj u) (hwn : w < g.n) (hws : w ≠ s) (hwD : w ∉ D)
    (hlt : ∀ lw, Disc s st.pred w → st.lab.getD w none = some lw → lexLess (lexCombine g du e) lw = true) :
    LInv g s ⟨st.lab.set w (some (lexCombine g du e)), st.pred.set w (some e), q'⟩ D
      (fun a e' w' => R a e' w' ∨ (a = u ∧ e' = e ∧ w' = w)) := by
  have hj : Jn g e w u := adj_jn hadj
  have hwu : w ≠ u := fun hh => hwD (hh ▸ hu)
  have hwl : w < st.lab.length := by rw [h.len_lab]; exact hwn
  have hwp : w < st.pred.length := by rw [h.len_pred]; exact hwn
  obtain ⟨ok1, ok2, ok3, ok4⟩ := hl.ok u du hdu
  have ok4' : ∀ x ∈ du.verts, x ∈ D := fun x hx => (ok4 x hx).elim (fun hh => hh ▸ hu) id
  have hwdu : w ∉ du.verts := fun hh => hwD (ok4' w hh)
  have hc := labOK_combine ok1 hj ok2 hwdu
  have hmem := mem_combine_jn (g := g) (e := e) hj ok2
  have hDne : ∀ d ∈ D, w ≠ d := fun d hd hh => hwD (hh ▸ hd)
  have hlw : (st.lab.set w (some (lexCombine g du e))).getD w none = some (lexCombine g du e) :=
    getD_set_self _ _ _ _ hwl
  have hlne : ∀ v, w ≠ v → (st.lab.set w (some (lexCombine g du e))).getD v none = st.lab.getD v none :=
    fun v hv => getD_set_ne _ _ _ _ _ hv
  refine ⟨?_, ?_, ?_, ?_⟩
  · intro v e' hv
    have hv' : (st.pred.set w (some e)).getD v none = some e' := hv
    show ∃ lp, (st.lab.set w (some (lexCombine g du e))).getD (g.other e' v) none = some lp ∧
      (st.lab.set w (some (lexCombine g du e))).getD v none = some (lexCombine g lp e') ∧ v ∉ lp.verts
    by_cases hvw : w = v
    · subst hvw
      rw [getD_set_self _ _ _ _ hwp] at hv'
      cases hv'
      rw [jn_other hj, hlne u hwu, hlw]
      exact ⟨du, hdu, rfl, hwdu⟩
    · rw [getD_set_ne _ _ _ _ _ hvw] at hv'
      obtain ⟨lp, t1, t2, t3⟩ := hl.tl v e' hv'
      rw [hlne v hvw, hlne _ (hDne _ (h.tree v e' hv').2.2.1)]
      exact ⟨lp, t1, t2, t3⟩
  · intro v l hv
    have hv' : (st.lab.set w (some (lexCombine g du e))).getD v none = some l := hv
    by_cases hvw : w = v
    · subst hvw
      rw [hlw] at hv'
      cases hv'
      refine ⟨hc, (hmem w).2 (Or.inl rfl), (hmem s).2 (Or.inr ok3), ?_⟩
      intro x hx
      rcases (hmem x).1 hx with hx | hx
      · exact Or.inl hx
      · exact Or.inr (ok4' x hx)
    · rw [hlne v hvw] at hv'
      exact hl.ok v l hv'
  · intro d hd l hdl
    have hdl' : (st.lab.set w (some (lexCombine g du e))).getD d none = some l := hdl
    rw [hlne d (hDne d hd)] at hdl'
    exact hl.opt d hd l hdl'
  · intro a e' w' hR
    show (e', w') ∈ g.adj a ∧ ∃ la lw, (st.lab.set w (some (lexCombine g du e))).getD a none = some la ∧
      (st.lab.set w (some (lexCombine g du e))).getD w' none = some lw ∧
      (w' ∉ la.verts → lexLess (lexCombine g la e') lw = false)
    rcases hR with hR | ⟨rfl, rfl, rfl⟩
    · obtain ⟨e1, e2, _⟩ := h.edge a e' w' hR
      obtain ⟨f1, la, lw, f2, f3, f4⟩ := hl.edge a e' w' hR
      rw [hlne a (hDne a e1)]
      refine ⟨f1, la, ?_⟩
      by_cases hww : w = w'
      · subst hww
        rw [hlw]
        refine ⟨_, f2, rfl, ?_⟩
        intro hnot
        obtain ⟨a1, a2, _, _⟩ := hl.ok a la f2
        have hca := labOK_combine a1 (adj_jn f1) a2 hnot
        exact le_of_lt_le hc (hl.ok w lw f3).1 hca (hlt lw e2 f3) (f4 hnot)
      · rw [hlne w' hww]
        exact ⟨lw, f2, f3, f4⟩
    · rw [hlne a hwu, hlw]
      exact ⟨hadj, du, _, hdu, rfl, fun _ => lexLess_irrefl _⟩

theorem LInv.step {g : Graph} {s : Nat} {st : LexState} {D : List Nat} {R : Nat → Nat → Nat → Prop}
    (hs : g.simpleB = true) (hp : g.positiveB = true) (h : Inv g s st D R) (hl : LInv g s st D R)
    (u e w : Nat) (du : LexLabel)
    (hu : u ∈ D) (hmax : ∀ d ∈ D, dOf st.lab d ≤ dOf st.lab u)
    (hdu : st.lab.getD u none = some du) (hadj : (e, w) ∈ g.adj u) :
    LInv g s (relaxStep g s u du (e, w) st) D (fun a e' w' => R a e' w' ∨ (a = u ∧ e' = e ∧ w' = w)) := by
  obtain ⟨hem, hwn, hun, hwu, hinc, hoth⟩ := adj_facts g hs u e w hadj
  have hpos := positiveB_facts g hp e hem
  have hdu' : dOf st.lab u = du.dist := dOf_some _ _ _ hdu
  have hcd : (lexCombine g du e).dist = dOf st.lab u + g.weight e := by rw [hdu']; rfl
  have same : ∀ lw, st.lab.getD w none = some lw → (w ∉ du.verts → lexLess (lexCombine g du e) lw = false) →
      LInv g s st D (fun a e' w' => R a e' w' ∨ (a = u ∧ e' = e ∧ w' = w)) := by
    intro lw h1 h2
    refine hl.setR ?_
    rintro a e' w' (hR | ⟨rfl, rfl, rfl⟩)
    · exact hl.edge a e' w' hR
    · exact ⟨hadj, du, lw, hdu, h1, h2⟩
  unfold relaxStep
  dsimp only
  rw [if_neg hwu]
  by_cases hws : w = s
  · rw [if_pos hws]
    refine same _ (hws ▸ h.lab_s) ?_
    intro hh
    exact absurd (hws ▸ (hl.ok u du hdu).2.2.1) hh
  rw [if_neg hws]
  split
  · rename_i hpw
    have hnd : ¬ Disc s st.pred w := by
      rintro (h1 | ⟨e1, h1⟩)
      · exact hws h1
      · rw [hpw] at h1; cases h1
    have hwD : w ∉ D := fun hh => hnd ((h.disc_iff w).2 (Or.inl hh))
    exact LInv.update h hl u e w du _ hu hdu hadj hwn hws hwD (fun _ hh => absurd hh hnd)
  · rename_i e0 hpw
    have hdw : Disc s st.pred w := Or.inr ⟨e0, hpw⟩
    split
    · rename_i lw hlw
      have hdw' : dOf st.lab w = lw.dist := dOf_some _ _ _ hlw
      split
      · rename_i hless
        have hle := lexLess_true_dist _ _ hless
        have hwD : w ∉ D := by
          intro hh
          have := hmax w hh
          omega
        refine LInv.update h hl u e w du _ hu hdu hadj hwn hws hwD ?_
        intro lw' _ hlw'
        rw [hlw] at hlw'; cases hlw'
        exact hless
      · rename_i hless
        exact same lw hlw (fun _ => by simpa using hless)
    · rename_i hlw
      obtain ⟨l, hl'⟩ := h.lab_some w hdw
      rw [hlw] at hl'; cases hl'

/-- the whole loop over (a suffix of) the out-edges of the popped vertex -/
theorem LInv.relax {g : Graph} {s : Nat} {D : List Nat}
    (hs : g.simpleB = true) (hp : g.positiveB = true) (u : Nat) (du : LexLabel) (hu : u ∈ D) :
    ∀ (r : List (Nat × Nat)) (st : LexState) (R : Nat → Nat → Nat → Prop), Inv g s st D R → LInv g s st D R →
    (∀ d ∈ D, dOf st.lab d ≤ dOf st.lab u) → st.lab.getD u none = some du →
    (∀ ew ∈ r, ew ∈ g.adj u) →
    LInv g s (lexRelax g s u du r st) D (fun a e w => R a e w ∨ (a = u ∧ (e, w) ∈ r))
  | [], st, R, h, hl, _, _, _ => by
    rw [lexRelax]
    refine hl.setR ?_
    rintro a e w (hR | ⟨_, hR⟩)
    · exact hl.edge a e w hR
    · cases hR
  | (e, w) :: r, st, R, h, hl, hmax, hdu, hr => by
    rw [lexRelax_cons]
    obtain ⟨h1, h2⟩ := h.step hs hp u e w du hu hmax hdu (hr _ List.mem_cons_self)
    have hl1 := hl.step hs hp h u e w du hu hmax hdu (hr _ List.mem_cons_self)
    have hd : ∀ d ∈ D, dOf (relaxStep g s u du (e, w) st).lab d = dOf st.lab d := by
      intro d hd; unfold dOf; rw [h2 d hd]
    have := LInv.relax hs hp u du hu r _ _ h1 hl1 (by
        intro d hd'; rw [hd d hd', hd u hu]; exact hmax d hd')
      (by rw [h2 u hu]; exact hdu) (fun ew hew => hr ew (List.mem_cons_of_mem _ hew))
    refine this.setR ?_
    rintro a e' w' (hR | ⟨rfl, hR⟩)
    · exact this.edge a e' w' (Or.inl (Or.inl hR))
    · rcases List.mem_cons.1 hR with hR | hR
      · cases hR
        exact this.edge a e w (Or.inl (Or.inr ⟨rfl, rfl, rfl⟩))
      · exact this.edge a e' w' (Or.inr ⟨rfl, hR⟩)

/-! ### popping the minimum -/

/-- the popped vertex carries a smallest label of the queue, in the full order -/
theorem lexArgmin_full (lab : List (Option LexLabel)) : ∀ (q : List Nat),
    (∀ x ∈ q, ∃ l, lab.getD x none = some l ∧ LabOK l) →
    ∀ u, lexArgmin lab q = some u → ∀ x ∈ q, ∀ lx lu, lab.getD x none = some lx → lab.getD u none = some lu →
      lexLess lx lu = false
  | [], _, u, hu => by rw [lexArgmin] at hu; cases hu
  | v :: r, hq, m, hm => by
    have ih := lexArgmin_full lab r (fun x hx => hq x (List.mem_cons_of_mem _ hx))
    have hspec := lexArgmin_spec lab r (fun x hx => by
      obtain ⟨l, hl, _⟩ := hq x (List.mem_cons_of_mem _ hx); exact ⟨l, hl⟩)
    rw [lexArgmin] at hm
    cases hr : lexArgmin lab r with
    | none =>
      rw [hr] at hm hspec
      dsimp only at hm hspec
      cases hm
      subst hspec
      intro x hx lx lu h1 h2
      rw [List.mem_singleton] at hx
      subst hx
      rw [h1] at h2; cases h2
      exact lexLess_irrefl _
    | some u =>
      rw [hr] at hm hspec
      dsimp only at hm hspec
      have ih' := ih u hr
      obtain ⟨lv, hlv, okv⟩ := hq v List.mem_cons_self
      obtain ⟨lu, hlu, oku⟩ := hq u (List.mem_cons_of_mem _ hspec.1)
      rw [hlv, hlu] at hm
      dsimp only at hm
      by_cases hless : lexLess lu lv = true
      · rw [if_pos hless] at hm
        cases hm
        intro x hx lx lm h1 h2
        rw [hlu] at h2; cases h2
        rcases List.mem_cons.1 hx with hx | hx
        · subst hx
          rw [hlv] at h1; cases h1
          exact lexLess_asymm _ _ oku okv hless
        · exact ih' x hx lx _ h1 hlu
      · rw [if_neg hless] at hm
        cases hm
        intro x hx lx lm h1 h2
        rw [hlv] at h2; cases h2
        rcases List.mem_cons.1 hx with hx | hx
        · subst hx
          rw [hlv] at h1; cases h1
          exact lexLess_irrefl _
        · obtain ⟨lx', hlx', okx⟩ := hq x (List.mem_cons_of_mem _ hx)
          rw [h1] at hlx'; cases hlx'
          -- lm ≤ lu ≤ lx
          exact le_trans' okv oku okx (by simpa using hless) (ih' x hx lx lu h1 hlu)

/-- every simple path from a vertex that has not been popped costs at least the label of the queue minimum -/
theorem pop_opt {g : Graph} {s : Nat} {st : LexState} {D : List Nat} (hp : g.positiveB = true)
    (h : Inv g s st D (Full g D)) (hl : LInv g s st D (Full g D)) (lu : LexLabel) (oku : LabOK lu)
    (hmin : ∀ x ∈ st.queue, ∀ lx, st.lab.getD x none = some lx → lexLess lx lu = false) :
    ∀ (Q : List Nat) (y : Nat), SimplePath g Q y s → y ∉ D → lexLess (walkLabel g Q y) lu = false
  | [], y, hQ, hy => by
    have := simplePath_nil hQ
    subst this
    rw [walkLabel_nil]
    have hq : y ∈ st.queue := ((h.disc_iff y).1 (Or.inl rfl)).elim (fun hh => absurd hh hy) id
    exact hmin y hq _ h.lab_s
  | e :: Q, y, hQ, hy => by
    obtain ⟨y', hj, hem, hQ', hyQ⟩ := simplePath_cons hQ
    have hpos := positiveB_facts g hp e hem
    have hlab := walkLabel_cons Q hj
    by_cases hy' : y' ∈ D
    · obtain ⟨a1, a2, a3⟩ := h.edge y' e y ⟨hy', jn_adj hem hj⟩
      obtain ⟨_, la, ly, b1, b2, b3⟩ := hl.edge y' e y ⟨hy', jn_adj hem hj⟩
      have hq : y ∈ st.queue := ((h.disc_iff y).1 a2).elim (fun hh => absurd hh hy) id
      obtain ⟨c1, c2, c3, c4⟩ := hl.ok y' la b1
      obtain ⟨d1, _⟩ := simplePath_ok Q y' hQ'
      have hy'Q : y' ∈ (walkLabel g Q y').verts := (mem_setOf _ _).2 (walkVerts_head g Q y')
      have hynQ : y ∉ (walkLabel g Q y').verts := fun hh => hyQ ((mem_setOf _ _).1 hh)
      have hyy' : y ≠ y' := fun hh => hy (hh ▸ hy')
      have hynla : y ∉ la.verts := fun hh => (c4 y hh).elim hyy' hy
      -- ly ≤ combine la e ≤ combine (label Q) e = label (e :: Q), lu ≤ ly
      have s1 := b3 hynla
      have s2 := combine_mono (g := g) (e := e) c1 d1 hj c2 hy'Q hynla hynQ (hl.opt y' hy' la b1 Q hQ')
      have s3 := hmin y hq ly b2
      have oky := (hl.ok y ly b2).1
      have okc := labOK_combine c1 hj c2 hynla
      have okQ := labOK_combine d1 hj hy'Q hynQ
      rw [hlab]
      exact le_trans' oku oky okQ s3 (le_trans' oky okc okQ s1 s2)
    · have ih := pop_opt hp h hl lu oku hmin Q y' hQ' hy'
      have := lexLess_false_dist _ _ ih
      apply lexLess_false_of_dist
      rw [hlab]
      show lu.dist < (walkLabel g Q y').dist + g.weight e
      omega

theorem LInv.pop {g : Graph} {s : Nat} {st : LexState} {D : List Nat} (hp : g.positiveB = true)
    (h : Inv g s st D (Full g D)) (hl : LInv g s st D (Full g D)) (u : Nat) (hu : u ∈ st.queue)
    (hmin : ∀ x ∈ st.queue, ∀ lx lu, st.lab.getD x none = some lx → st.lab.getD u none = some lu →
      lexLess lx lu = false) :
    LInv g s { st with queue := st.queue.erase u } (u :: D) (Full g D) := by
  refine ⟨hl.tl, ?_, ?_, hl.edge⟩
  · intro v l hv
    obtain ⟨a1, a2, a3, a4⟩ := hl.ok v l hv
    exact ⟨a1, a2, a3, fun x hx => (a4 x hx).elim Or.inl (fun hh => Or.inr (List.mem_cons_of_mem _ hh))⟩
  · intro d hd l hdl Q hQ
    rcases List.mem_cons.1 hd with hd | hd
    · subst hd
      exact pop_opt hp h hl l (hl.ok d l hdl).1 (fun x hx lx hlx => hmin x hx lx l hlx hdl) Q d hQ (h.q_D d hu)
    · exact hl.opt d hd l hdl Q hQ

theorem LInv.loop {g : Graph} {s : Nat} (hs : g.simpleB = true) (hp : g.positiveB = true) (hsn : s < g.n) :
    ∀ (fuel : Nat) (st : LexState) (D : List Nat), Inv g s st D (Full g D) → LInv g s st D (Full g D) →
    g.n + 1 ≤ fuel + D.length →
    ∃ D', Inv g s (lexLoop g s fuel st) D' (Full g D') ∧ LInv g s (lexLoop g s fuel st) D' (Full g D') ∧
      (lexLoop g s fuel st).queue = []
  | 0, st, D, h, _, hf => by
    have := DijL.nodup_length_le g.n D h.D_nd h.D_lt
    omega
  | fuel + 1, st, D, h, hl, hf => by
    rw [lexLoop]
    have hlab : ∀ x ∈ st.queue, ∃ l, st.lab.getD x none = some l :=
      fun x hx => h.lab_some x ((h.disc_iff x).2 (Or.inr hx))
    have hspec := lexArgmin_spec st.lab st.queue hlab
    have hfull := lexArgmin_full st.lab st.queue (fun x hx => by
      obtain ⟨l, hl'⟩ := hlab x hx
      exact ⟨l, hl', (hl.ok x l hl').1⟩)
    cases ha : lexArgmin st.lab st.queue with
    | none =>
      rw [ha] at hspec
      exact ⟨D, h, hl, hspec⟩
    | some u =>
      rw [ha] at hspec
      dsimp only at hspec ⊢
      obtain ⟨hu, hmin⟩ := hspec
      obtain ⟨h1, hmax⟩ := h.pop hsn u hu hmin
      have hl1 := hl.pop hp h u hu (hfull u ha)
      obtain ⟨du, hdu⟩ := hlab u hu
      rw [hdu]
      dsimp only
      have h2 := Inv.relax hs hp u du List.mem_cons_self (g.adj u) _ _ h1 hmax hdu (fun _ hh => hh)
      have hl2 := LInv.relax hs hp u du List.mem_cons_self (g.adj u) _ _ h1 hl1 hmax hdu (fun _ hh => hh)
      have h3 : Inv g s (lexRelax g s u du (g.adj u) { st with queue := st.queue.erase u }) (u :: D)
          (Full g (u :: D)) := by
        refine h2.setR ?_
        rintro a e w ⟨ha, hew⟩
        rcases List.mem_cons.1 ha with ha | ha
        · subst ha; exact h2.edge a e w (Or.inr ⟨rfl, hew⟩)
        · exact h2.edge a e w (Or.inl ⟨ha, hew⟩)
      have hl3 : LInv g s (lexRelax g s u du (g.adj u) { st with queue := st.queue.erase u }) (u :: D)
          (Full g (u :: D)) := by
        refine hl2.setR ?_
        rintro a e w ⟨ha, hew⟩
        rcases List.mem_cons.1 ha with ha | ha
        · subst ha; exact hl2.edge a e w (Or.inr ⟨rfl, hew⟩)
        · exact hl2.edge a e w (Or.inl ⟨ha, hew⟩)
      exact LInv.loop hs hp hsn fuel _ (u :: D) h3 hl3 (by rw [List.length_cons]; omega)

theorem LInv.init (g : Graph) (s : Nat) (hsn : s < g.n) :
    LInv g s { lab := (List.replicate g.n none).set s (some { dist := 0, cnt := 0, verts := [s] }),
               pred := List.replicate g.n none, queue := [s] } [] (Full g []) := by
  refine ⟨?_, ?_, ?_, ?_⟩
  · intro v e hv
    have hv' : (List.replicate g.n (none : Option Nat)).getD v none = some e := hv
    rw [getD_replicate] at hv'; cases hv'
  · intro v l hv
    have hv' : ((List.replicate g.n (none : Option LexLabel)).set s (some ⟨0, 0, [s]⟩)).getD v none = some l := hv
    by_cases hvs : s = v
    · subst hvs
      rw [getD_set_self _ _ _ _ (by simp [hsn])] at hv'
      cases hv'
      exact ⟨⟨trivial, rfl⟩, List.mem_cons_self, List.mem_cons_self,
        fun x hx => Or.inl (List.mem_singleton.1 hx)⟩
    · rw [getD_set_ne _ _ _ _ _ hvs, getD_replicate] at hv'; cases hv'
  · intro d hd; cases hd
  · intro a e w hh; cases hh.1

theorem final_linv (g : Graph) (hs : g.simpleB = true) (hp : g.positiveB = true) (s : Nat) (hsn : s < g.n) :
    ∃ D, Inv g s (lexDijkstra g s) D (Full g D) ∧ LInv g s (lexDijkstra g s) D (Full g D) ∧
      (lexDijkstra g s).queue = [] :=
  LInv.loop hs hp hsn (g.n + 1) _ [] (Inv.init g s hsn) (LInv.init g s hsn) (by simp)

/-! ### the predecessor chain carries the label -/

theorem chain_label {g : Graph} {s : Nat} {D : List Nat} {R : Nat → Nat → Nat → Prop}
    (h : Inv g s (lexDijkstra g s) D R) (hl : LInv g s (lexDijkstra g s) D R) :
    ∀ (p : List Nat) (v : Nat), IsChain g (buildTree g s) v p →
    (lexDijkstra g s).lab.getD v none = some (walkLabel g p v) ∧ SimplePath g p v s
  | [], v, hch => by
    have hv : v = s := hch
    subst hv
    exact ⟨h.lab_s, (isWalk_nil g v v).2 rfl, fun e he => (by cases he),
      List.nodup_cons.2 ⟨List.not_mem_nil, List.nodup_nil⟩⟩
  | e :: p, v, hch => by
    obtain ⟨_, hpe, hch'⟩ := hch
    have hpe' : (lexDijkstra g s).pred.getD v none = some e := hpe
    obtain ⟨i1, i2, i3, i4⟩ := chain_label h hl p (g.other e v) hch'
    obtain ⟨t1, t2, _, _⟩ := h.tree v e hpe'
    obtain ⟨lp, l1, l2, l3⟩ := hl.tl v e hpe'
    rw [i1] at l1; cases l1
    have hj : Jn g e v (g.other e v) := by
      unfold Graph.other
      rcases t2 with t2 | t2
      · rw [if_pos t2]; exact Or.inl ⟨t2, rfl⟩
      · by_cases h0 : g.src e = v
        · rw [if_pos h0]; exact Or.inl ⟨h0, rfl⟩
        · rw [if_neg h0]; exact Or.inr ⟨t2, rfl⟩
    refine ⟨by rw [l2, walkLabel_cons p hj], ?_, ?_, ?_⟩
    · rw [isWalk_cons]; exact ⟨_, hj, i2⟩
    · intro f hf
      rcases List.mem_cons.1 hf with hf | hf
      · subst hf; exact t1
      · exact i3 f hf
    · show (v :: walkVerts g p (g.other e v)).Nodup
      exact List.nodup_cons.2 ⟨fun hh => l3 ((mem_setOf _ _).2 hh), i4⟩

/-- the statement of `buildTree_lexOpt`, proved inside the namespace -/
theorem main (g : Graph) (hs : g.simpleB = true) (hp : g.positiveB = true) (s : Nat) (hsn : s < g.n)
    (v : Nat) (hv : v < g.n) (d : Int) (hd : (buildTree g s).dist.getD v none = some d) :
    LexOpt g v s (rootPath g (buildTree g s) g.n v) := by
  obtain ⟨D, h, hl, hq⟩ := final_linv g hs hp s hsn
  have hch := rootPath_isChain g hs hp (buildTree g s) (final_ok g hs hp s hsn) v hv d hd
  obtain ⟨c1, c2⟩ := chain_label h hl _ v hch
  have hdisc : Disc s (lexDijkstra g s).pred v := by
    apply Classical.byContradiction
    intro hn
    rw [bt_dist_ndisc g s v hn] at hd; cases hd
  have hvD : v ∈ D := by
    rcases (h.disc_iff v).1 hdisc with hh | hh
    · exact hh
    · rw [hq] at hh; cases hh
  exact ⟨c2, fun es' hes' => hl.opt v hvD _ c1 es' hes'⟩

end LexDijL

theorem buildTree_lexOpt (g : Graph) (hs : g.simpleB = true) (hp : g.positiveB = true) (s : Nat) (hsn : s < g.n)
    (v : Nat) (hv : v < g.n) (d : Int) (hd : (buildTree g s).dist.getD v none = some d) :
    LexOpt g v s (rootPath g (buildTree g s) g.n v) := by
  exact LexDijL.main g hs hp s hsn v hv d hd

end Parmcb
