import Parmcb.Model.ApproxAlgo
import Parmcb.Lemmas.SignedAlgo
import Parmcb.Lemmas.TreesAlgo
import Parmcb.Props.C06b
import Parmcb.Props.C05b
/-!
End-to-end correctness of the literal model of the approximate algorithms (`Model/ApproxAlgo.lean`): the literal
`parmcb::dijkstra` with predecessor edges returns shortest spanner paths for every heap behaviour, and the composition
spanner → exact phase (any of the end-to-end exact models) → translation → one cycle per dropped edge is a cycle basis
of the caller's graph of weight at most `(2k-1)` times ANY cycle basis.  Core Lean only.
-/
namespace Parmcb
open Parmcb.C01 Parmcb.C02

namespace ApproxAlgoL
open Parmcb.Spanner Parmcb.BiDijL Parmcb.BiSearchL

/-! ### the adjacency `parmcb::dijkstra` sees -/

theorem plainAdjE_size (g : Graph) : (plainAdjE g).size = g.n := by
  unfold plainAdjE; exact Array.size_ofFn

theorem plainAdjE_get (g : Graph) (u : Nat) (hu : u < g.n) :
    (plainAdjE g)[u]! = (g.adj u).filterMap fun (e, w) => if w = u then none else some (w, g.weight e, e) := by
  unfold plainAdjE
  rw [getElem!_pos _ u (by rw [Array.size_ofFn]; exact hu), Array.getElem_ofFn]

theorem mem_plainAdjE (g : Graph) (u : Nat) (hu : u < g.n) (w : Nat) (c : Int) (e : Nat) :
    (w, c, e) ∈ (plainAdjE g)[u]! ↔ e < g.m ∧ c = g.weight e ∧ w ≠ u ∧ Jn g e u w := by
  rw [plainAdjE_get g u hu, List.mem_filterMap]
  constructor
  · rintro ⟨⟨e', w'⟩, hmem, heq⟩
    simp only at heq
    split at heq
    · cases heq
    · rename_i hne
      cases heq
      obtain ⟨he, h⟩ := (mem_adj g u e w).1 hmem
      refine ⟨he, rfl, hne, ?_⟩
      rcases h with ⟨h1, h2⟩ | ⟨h1, h2⟩
      · exact Or.inl ⟨h1, h2.symm⟩
      · exact Or.inr ⟨h1, h2.symm⟩
  · rintro ⟨he, rfl, hne, hj⟩
    refine ⟨(e, w), (mem_adj g u e w).2 ⟨he, ?_⟩, by simp [hne]⟩
    rcases hj with ⟨h1, h2⟩ | ⟨h1, h2⟩
    · exact Or.inl ⟨h1, h2.symm⟩
    · exact Or.inr ⟨h1, h2.symm⟩

theorem jn_lt' (g : Graph) (hs : g.simpleB = true) (e a b : Nat) (he : e < g.m) (hj : Jn g e a b) :
    a < g.n ∧ b < g.n ∧ a ≠ b := by
  have hf := simpleB_facts g hs e he
  rcases hj with ⟨p, q⟩ | ⟨p, q⟩ <;> (subst p; subst q; refine ⟨?_, ?_, ?_⟩ <;> omega)

theorem plainAdjE_ok (g : Graph) (hs : g.simpleB = true) (hp : g.positiveB = true) :
    AdjEOK (plainAdjE g) g.weight := by
  refine ⟨⟨?_, ?_, ?_⟩, ?_, ?_⟩
  · intro u hu p hp'
    rw [projAdj_size, plainAdjE_size] at hu ⊢
    rw [projAdj_get] at hp'
    obtain ⟨⟨y, c, e⟩, hq, rfl⟩ := List.mem_map.1 hp'
    obtain ⟨hem, _, _, hj⟩ := (mem_plainAdjE g u hu y c e).1 hq
    exact (jn_lt' g hs e u y hem hj).2.1
  · intro u hu p hp'
    rw [projAdj_size, plainAdjE_size] at hu
    rw [projAdj_get] at hp'
    obtain ⟨⟨y, c, e⟩, hq, rfl⟩ := List.mem_map.1 hp'
    obtain ⟨hem, rfl, _, _⟩ := (mem_plainAdjE g u hu y c e).1 hq
    exact positiveB_facts g hp e hem
  · intro u hu p hp'
    rw [projAdj_size, plainAdjE_size] at hu
    rw [projAdj_get] at hp' ⊢
    obtain ⟨⟨y, c, e⟩, hq, rfl⟩ := List.mem_map.1 hp'
    obtain ⟨hem, rfl, hne, hj⟩ := (mem_plainAdjE g u hu y c e).1 hq
    refine List.mem_map.2 ⟨(u, g.weight e, e), ?_, rfl⟩
    rw [mem_plainAdjE g y (jn_lt' g hs e u y hem hj).2.1]
    exact ⟨hem, rfl, fun h => hne h.symm, hj.symm⟩
  · intro u hu p hp'
    rw [plainAdjE_size] at hu
    obtain ⟨y, c, e⟩ := p
    obtain ⟨_, rfl, _, _⟩ := (mem_plainAdjE g u hu y c e).1 hp'
    rfl
  · intro u hu p hp'
    rw [plainAdjE_size] at hu
    obtain ⟨y, c, e⟩ := p
    obtain ⟨hem, rfl, hne, hj⟩ := (mem_plainAdjE g u hu y c e).1 hp'
    show (u, g.weight e, e) ∈ _
    rw [mem_plainAdjE g y (jn_lt' g hs e u y hem hj).2.1]
    exact ⟨hem, rfl, fun h => hne h.symm, hj.symm⟩

theorem ewalk_isWalk (g : Graph) {a b : Nat} {es : List Nat} (h : EWalk (plainAdjE g) a b es) :
    isWalk g es a b = true ∧ ∀ e ∈ es, e < g.m := by
  induction h with
  | nil a _ => exact ⟨(isWalk_nil g a a).2 rfl, fun e he => by cases he⟩
  | @cons a v b c e es ha hmem r ih =>
    rw [plainAdjE_size] at ha
    obtain ⟨hem, _, _, hj⟩ := (mem_plainAdjE g a ha v c e).1 hmem
    refine ⟨(isWalk_cons g e es a b).2 ⟨v, hj, ih.1⟩, ?_⟩
    intro f hf
    rcases List.mem_cons.1 hf with rfl | hf
    · exact hem
    · exact ih.2 f hf

theorem isWalk_ewalk (g : Graph) (hs : g.simpleB = true) : ∀ (es : List Nat) (a b : Nat), a < g.n →
    (∀ e ∈ es, e < g.m) → isWalk g es a b = true → EWalk (plainAdjE g) a b es := by
  intro es
  induction es with
  | nil =>
    intro a b ha _ hw
    rw [isWalk_nil] at hw; subst hw
    exact EWalk.nil a (by rw [plainAdjE_size]; exact ha)
  | cons e r ih =>
    intro a b ha hes hw
    rw [isWalk_cons] at hw
    obtain ⟨d, hj, hw⟩ := hw
    have he := hes e List.mem_cons_self
    have hd := jn_lt' g hs e a d he hj
    refine EWalk.cons (c := g.weight e) (by rw [plainAdjE_size]; exact ha) ?_
      (ih d b hd.2.1 (fun f hf => hes f (List.mem_cons_of_mem _ hf)) hw)
    exact (mem_plainAdjE g a ha d _ e).2 ⟨he, rfl, fun h => hd.2.2 h.symm, hj⟩

/-! ### the loop -/

theorem dijkScan_cons (u : Nat) (du : Int) (w : Nat) (c : Int) (e : Nat) (r : List (Nat × Int × Nat)) (f : FrontierP) :
    dijkScan u du ((w, c, e) :: r) f = dijkScan u du r (f.update w (du + c) u e) := rfl

theorem dijkLoop_succ (adjE : Array (List (Nat × Int × Nat))) (pick : Pick) (fuel : Nat) (f : FrontierP) :
    dijkLoop adjE pick (fuel + 1) f =
      if f.queue.isEmpty then f
      else match f.dist[pick fuel f.toF.minNodes]! with
        | none => f
        | some du => dijkLoop adjE pick fuel (dijkScan (pick fuel f.toF.minNodes) du adjE[pick fuel f.toF.minNodes]!
            { f with queue := f.queue.erase (pick fuel f.toF.minNodes) }) := rfl

theorem below_none (x : Int) : Below none x := fun l hl => by cases hl

variable {adjE : Array (List (Nat × Int × Nat))}

theorem dijkScan_inv {wOf : Nat → Int} (hE : AdjEOK adjE wOf) {s u : Nat} {du : Int} {P : List Nat} (huP : u ∈ P) :
    ∀ (l : List (Nat × Int × Nat)) (f : FrontierP), (∀ p ∈ l, p ∈ adjE[u]!) → f.dist[u]! = some du →
      FInv (projAdj adjE) none s f.toF P u (projL l) → PInv adjE s f →
      FInv (projAdj adjE) none s (dijkScan u du l f).toF P u [] ∧ PInv adjE s (dijkScan u du l f)
  | [], f, _, _, h1, h2 => ⟨h1, h2⟩
  | (w, c, e) :: r, f, hsub, hdu, h1, h2 => by
    rw [dijkScan_cons]
    have he := hsub (w, c, e) List.mem_cons_self
    have hsub' : ∀ p ∈ r, p ∈ adjE[u]! := fun p hp => hsub p (List.mem_cons_of_mem _ hp)
    have hu : u < adjE.size := by rw [← h2.dsize]; exact lab_lt _ _ _ hdu
    have hu' : u < (projAdj adjE).size := by rw [projAdj_size]; exact hu
    have hc : 0 < c := hE.ok.pos u hu' _ (mem_proj he)
    have hw : w < adjE.size := by
      have := hE.ok.range u hu' _ (mem_proj he)
      rw [projAdj_size] at this; exact this
    have h1' : FInv (projAdj adjE) none s f.toF P u ((w, c) :: projL r) := h1
    obtain ⟨hf', hP⟩ := h1'.relax hE.ok (du := du) hdu (mem_proj he) (below_none _)
    rw [← update_toF f w (du + c) u e] at hf' hP
    obtain ⟨hp', _, _⟩ := h2.update hdu (Int.le_refl du) he hc hw
    refine dijkScan_inv hE huP r _ hsub' ?_ hf' hp'
    have := hP u huP
    exact this.trans hdu

theorem dijkLoop_inv {wOf : Nat → Int} (hE : AdjEOK adjE wOf) (pick : Pick) (hp : PickOK pick) {s : Nat} :
    ∀ (fuel : Nat) (f : FrontierP) (P : List Nat) (u : Nat), FInv (projAdj adjE) none s f.toF P u [] → PInv adjE s f →
      adjE.size + 1 ≤ fuel + P.length →
      ∃ P' u', FInv (projAdj adjE) none s (dijkLoop adjE pick fuel f).toF P' u' [] ∧
        PInv adjE s (dijkLoop adjE pick fuel f) ∧ (dijkLoop adjE pick fuel f).queue = []
  | 0, f, P, u, h1, _, hf => by
    have := BiDijL.nodup_length_le adjE.size P h1.pNd (fun x hx => by
      obtain ⟨d, hd⟩ := h1.pLab x hx
      have := walk_lt_right (h1.walk x d hd)
      rw [projAdj_size] at this; exact this)
    omega
  | fuel + 1, f, P, u0, h1, h2, hf => by
    rw [dijkLoop_succ]
    by_cases hq : f.queue.isEmpty = true
    · rw [if_pos hq]
      exact ⟨P, u0, h1, h2, List.isEmpty_iff.1 hq⟩
    · rw [if_neg hq]
      have hne : f.toF.queue ≠ [] := fun e => hq (List.isEmpty_iff.2 e)
      obtain ⟨du, hu, hdu, _, hmin⟩ := pick_spec pick hp fuel f.toF hne h1.qLab
      have hdu' : f.dist[pick fuel f.toF.minNodes]! = some du := hdu
      rw [hdu']
      simp only []
      have hpop := h1.pop hE.ok hu hdu hmin
      rw [projAdj_get] at hpop
      have hscan := dijkScan_inv hE (s := s) (du := du) (List.mem_cons_self (a := pick fuel f.toF.minNodes) (l := P))
        adjE[pick fuel f.toF.minNodes]! { f with queue := f.queue.erase (pick fuel f.toF.minNodes) } (fun p hp => hp) hdu'
        hpop (h2.queue _)
      exact dijkLoop_inv hE pick hp fuel _ (pick fuel f.toF.minNodes :: P) (pick fuel f.toF.minNodes) hscan.1 hscan.2
        (by simp only [List.length_cons]; omega)

/-! ### the path -/

theorem pchain_unique {F : FrontierP} {x : Nat} {es es' : List Nat} (h : PChain F x es) (h' : PChain F x es') :
    es = es' := by
  induction h generalizing es' with
  | nil =>
    cases h' with
    | nil => rfl
    | cons hx _ _ => exact absurd rfl hx
  | @cons x u e es hx hp r ih =>
    cases h' with
    | nil => exact absurd rfl hx
    | @cons _ u' e' es'' _ hp' r' =>
      rw [hp] at hp'
      cases hp'
      rw [ih r']

theorem pathBack_eq {F : FrontierP} {x : Nat} {es : List Nat} (h : PChain F x es) :
    ∀ (fuel : Nat), es.length ≤ fuel → pathBack F fuel x = es := by
  induction h with
  | nil =>
    intro fuel _
    cases fuel with
    | zero => rfl
    | succ k => simp [pathBack]
  | @cons x u e es hx hp r ih =>
    intro fuel hf
    cases fuel with
    | zero => simp at hf
    | succ k =>
      rw [pathBack, if_neg (by simpa using hx), hp]
      simp only []
      rw [ih k (by simpa using hf)]

/-- the chain of records visits strictly decreasing labels: no edge is repeated -/
theorem chain_nd (g : Graph) (hs : g.simpleB = true) {r : Nat} {F : FrontierP} (h : PInv (plainAdjE g) r F) :
    ∀ (n : Nat) (x : Nat) (d : Int), F.dist[x]! = some d → d ≤ n →
      ∃ es, PChain F x es ∧ es.Nodup ∧
        ∀ e ∈ es, ∃ d1 d2, F.dist[g.src e]! = some d1 ∧ d1 ≤ d ∧ F.dist[g.tgt e]! = some d2 ∧ d2 ≤ d
  | n, x, d, hd, hn => by
    have hd0 := h.nonneg x d hd
    by_cases hxr : x = r
    · subst hxr
      refine ⟨[], ?_, List.nodup_nil, fun e he => by cases he⟩
      have := PChain.nil (F := F)
      rw [h.src] at this
      exact this
    · obtain ⟨u, e, c, du, h1, h2, h3, h4, h5⟩ := h.link x d hxr hd
      have hdu0 := h.nonneg u du h4
      cases n with
      | zero => omega
      | succ n =>
        obtain ⟨es, g1, g2, g3⟩ := chain_nd g hs h n u du h4 (by omega)
        have hu : u < g.n := by
          have : u < (plainAdjE g).size := by rw [← h.dsize]; exact lab_lt _ _ _ h4
          rwa [plainAdjE_size] at this
        obtain ⟨hem, _, _, hj⟩ := (mem_plainAdjE g u hu x c e).1 h2
        refine ⟨e :: es, PChain.cons (by rw [h.src]; exact hxr) h1 g1, List.nodup_cons.2 ⟨?_, g2⟩, ?_⟩
        · intro hmem
          obtain ⟨d1, d2, q1, q2, q3, q4⟩ := g3 e hmem
          rcases hj with ⟨_, p2⟩ | ⟨_, p2⟩
          · rw [p2, hd] at q3; cases q3; omega
          · rw [p2, hd] at q1; cases q1; omega
        · intro f hf
          rcases List.mem_cons.1 hf with rfl | hf
          · rcases hj with ⟨p1, p2⟩ | ⟨p1, p2⟩
            · exact ⟨du, d, by rw [p1]; exact h4, by omega, by rw [p2]; exact hd, Int.le_refl _⟩
            · exact ⟨d, du, by rw [p2]; exact hd, Int.le_refl _, by rw [p1]; exact h4, by omega⟩
          · obtain ⟨d1, d2, q1, q2, q3, q4⟩ := g3 f hf
            exact ⟨d1, d2, q1, by omega, q3, by omega⟩

/-- **`parmcb::dijkstra`, literal, every heap behaviour**: after the loop every vertex `t ≠ s` reachable from `s` has a
predecessor record, and walking the records back from `t` yields the edges of a shortest walk between `t` and `s`
without repeated edge; an unreachable vertex has no record -/
theorem dijkstraP_path (g : Graph) (hs : g.simpleB = true) (hp : g.positiveB = true) (pick : Pick)
    (hpick : PickOK pick) (s t : Nat) (hsn : s < g.n) (htn : t < g.n) (hst : s ≠ t)
    (hreach : ∃ es, (∀ e ∈ es, e < g.m) ∧ isWalk g es s t = true) :
    let p := pathBack (dijkstraP g pick s) (g.n + 1) t
    p.Nodup ∧ (∀ e ∈ p, e < g.m) ∧ isWalk g p t s = true ∧
    ∀ es : List Nat, (∀ e ∈ es, e < g.m) → isWalk g es s t = true → C05.listWeight g p ≤ C05.listWeight g es := by
  have _ := htn
  have _ := hst
  have hE := plainAdjE_ok g hs hp
  have hsz := plainAdjE_size g
  have hinitF : FInv (projAdj (plainAdjE g)) none s (FrontierP.init g.n s).toF [] 0 [] :=
    FInv.init (adj := projAdj (plainAdjE g)) (L := none) g.n s 0 (by rw [projAdj_size, hsz]) hsn
  have hinitP : PInv (plainAdjE g) s (FrontierP.init g.n s) := by
    have := PInv.init (adjE := plainAdjE g) s (by rw [hsz]; exact hsn)
    rw [hsz] at this; exact this
  obtain ⟨P', u', hF, hP, hq⟩ := dijkLoop_inv hE pick hpick (g.n + 1) _ [] 0 hinitF hinitP
    (by rw [hsz]; simp)
  have hdef : dijkstraP g pick s = dijkLoop (plainAdjE g) pick (g.n + 1) (FrontierP.init g.n s) := rfl
  rw [← hdef] at hF hP hq
  have key : ∀ W, AdjWalk (projAdj (plainAdjE g)) s t W →
      ∃ dt, (dijkstraP g pick s).dist[t]! = some dt ∧ dt ≤ W := by
    intro W hW
    rcases hF.frontier hE.ok hW (below_none W) with ⟨dz, _, h2, h3⟩ | ⟨y, _, _, _, h1, _⟩
    · exact ⟨dz, h2, h3⟩
    · have h1' : y ∈ (dijkstraP g pick s).queue := h1
      rw [hq] at h1'; cases h1'
  obtain ⟨es0, hes0, hw0⟩ := hreach
  obtain ⟨dt, hdt, _⟩ := key _ (ewalk_adj hE (isWalk_ewalk g hs es0 s t hsn hes0 hw0))
  obtain ⟨es, c1, w1, s1, l1⟩ := chain_exists' hE hP t dt hdt
  obtain ⟨es', c2, nd, _⟩ := chain_nd g hs hP dt.toNat t dt hdt (by omega)
  have := pchain_unique c2 c1
  subst this
  have hpb := pathBack_eq c1 (g.n + 1) (by rw [hsz] at l1; omega)
  intro p
  have hpe : p = es' := hpb
  rw [hpe]
  obtain ⟨i1, i2⟩ := ewalk_isWalk g w1
  refine ⟨nd, i2, i1, ?_⟩
  intro es'' h1 h2
  obtain ⟨dt', hdt', hle⟩ := key _ (ewalk_adj hE (isWalk_ewalk g hs es'' s t hsn h1 h2))
  rw [hdt] at hdt'; cases hdt'
  unfold C05.listWeight
  omega

end ApproxAlgoL

/-- what every approximate entry point delivers for `k ≥ 1`: it returns (no exception); the emitted cycles are a basis
of the cycle space of the CALLER's graph made of the caller's edges; the returned value is their total weight; their
number is `m - n + c`; and they weigh at most `(2k-1)` times ANY cycle basis — in particular a minimum one -/
def ApproxCorrect (g : Graph) (k : Nat) (order0 : List Nat) (o : ApproxOutcome) : Prop :=
  ∃ cycles ret, o = .ok cycles ret ∧ IsBasis g cycles ∧ ret = totalWeight g cycles ∧
    ((cycles.length : Int) = (g.m : Int) - g.n + (spanningForest g order0).2) ∧
    (∀ C ∈ cycles, ∀ e ∈ C, e < g.m) ∧
    ∀ B, IsBasis g B → totalWeight g cycles ≤ (2 * (k : Int) - 1) * totalWeight g B

namespace ApproxAlgoL
open Parmcb.Spanner


/-! ### the spanner as a graph of its own -/

theorem sp_simple (g : Graph) (hs : g.simpleB = true) (R : List Nat) (hR : R.Nodup) (hRm : ∀ e ∈ R, e < g.m) :
    (spannerGraph g R).simpleB = true := by
  rw [simpleB_iff, KmmT.sp_m]
  intro x hx
  obtain ⟨e1, e2, _⟩ := C15.c15_weights g R x hx
  have hxm := hRm _ (KmmT.getD_mem R x hx)
  obtain ⟨a, b, c⟩ := simpleB_facts g hs _ hxm
  rw [e1, e2]
  refine ⟨⟨⟨a, b⟩, c⟩, ?_⟩
  intro y hy
  have hyl : y < R.length := by omega
  obtain ⟨f1, f2, _⟩ := C15.c15_weights g R y hyl
  rw [f1, f2]
  have hne : R.getD y 0 ≠ R.getD x 0 := by
    intro heq
    have := KmmT.getD_inj R hR y x hyl hx heq
    omega
  exact simple_distinct g hs _ _ hxm (hRm _ (KmmT.getD_mem R y hyl)) hne

theorem sp_positive (g : Graph) (hp : g.positiveB = true) (R : List Nat) (hRm : ∀ e ∈ R, e < g.m) :
    (spannerGraph g R).positiveB = true := by
  rw [positiveB_iff, KmmT.sp_m]
  intro e he
  rw [(C15.c15_weights g R e he).2.2]
  exact positiveB_facts g hp _ (hRm _ (KmmT.getD_mem R e he))

theorem sp_jn (g : Graph) (R : List Nat) (i : Nat) (hi : i < R.length) (a b : Nat) :
    Jn (spannerGraph g R) i a b ↔ Jn g (R.getD i 0) a b := by
  obtain ⟨e1, e2, _⟩ := C15.c15_weights g R i hi
  unfold Jn
  rw [e1, e2]

/-- a walk of the spanner graph, read through `_edge_spanner_to_g`, is a walk of `g` of the same weight -/
theorem sp_walk_fw (g : Graph) (R : List Nat) : ∀ (p : List Nat) (a b : Nat), (∀ i ∈ p, i < R.length) →
    isWalk (spannerGraph g R) p a b = true → isWalk g (p.map fun i => R.getD i 0) a b = true := by
  intro p
  induction p with
  | nil => intro a b _ h; rw [isWalk_nil] at h; subst h; exact (isWalk_nil g a a).2 rfl
  | cons i r ih =>
    intro a b hp h
    rw [isWalk_cons] at h
    obtain ⟨c, hj, h⟩ := h
    rw [List.map_cons, isWalk_cons]
    exact ⟨c, (sp_jn g R i (hp i List.mem_cons_self) a c).1 hj,
      ih c b (fun j hj => hp j (List.mem_cons_of_mem _ hj)) h⟩

theorem sp_walk_bw (g : Graph) (R : List Nat) : ∀ (es : List Nat) (a b : Nat), (∀ e ∈ es, e ∈ R) →
    isWalk g es a b = true → isWalk (spannerGraph g R) (es.map fun e => R.idxOf e) a b = true := by
  intro es
  induction es with
  | nil => intro a b _ h; rw [isWalk_nil] at h; subst h; exact (isWalk_nil _ a a).2 rfl
  | cons e r ih =>
    intro a b hes h
    rw [isWalk_cons] at h
    obtain ⟨c, hj, h⟩ := h
    rw [List.map_cons, isWalk_cons]
    have he := hes e List.mem_cons_self
    refine ⟨c, (sp_jn g R _ (List.idxOf_lt_length_of_mem he) a c).2 ?_,
      ih c b (fun j hj => hes j (List.mem_cons_of_mem _ hj)) h⟩
    rw [KmmT.getD_idxOf R e he]; exact hj

theorem sp_listWeight_fw (g : Graph) (R : List Nat) (p : List Nat) (hp : ∀ i ∈ p, i < R.length) :
    C05.listWeight g (p.map fun i => R.getD i 0) = C05.listWeight (spannerGraph g R) p := by
  unfold C05.listWeight
  rw [List.map_map]
  congr 1
  apply List.map_congr_left
  intro i hi
  exact ((C15.c15_weights g R i (hp i hi)).2.2).symm

theorem sp_listWeight_bw (g : Graph) (R : List Nat) (es : List Nat) (hes : ∀ e ∈ es, e ∈ R) :
    C05.listWeight (spannerGraph g R) (es.map fun e => R.idxOf e) = C05.listWeight g es := by
  unfold C05.listWeight
  rw [List.map_map]
  congr 1
  apply List.map_congr_left
  intro e he
  show (spannerGraph g R).weight (R.idxOf e) = g.weight e
  rw [(C15.c15_weights g R _ (List.idxOf_lt_length_of_mem (hes e he))).2.2, KmmT.getD_idxOf R e (hes e he)]

/-- **from the spanner's numbering to the caller's**, starting from a minimum cycle basis of the spanner graph -/
theorem transfer_mcb (g : Graph) (hp : g.positiveB = true) (R : List Nat) (hR : R.Nodup) (hRm : ∀ e ∈ R, e < g.m)
    (cs : List (List Nat)) (h : IsMCB (spannerGraph g R) cs) :
    SpansIn g R (translateSp R cs) ∧
    (∀ mask : List Bool, mask.length = (translateSp R cs).length → true ∈ mask →
        xorSel (translateSp R cs) mask ≠ []) ∧
    totalWeight g (translateSp R cs) = totalWeight (spannerGraph g R) cs ∧
    (∀ L, SpansIn g R L → totalWeight g (translateSp R cs) ≤ totalWeight g L) := by
  have hB := h.1
  have hpos : ∀ (L : List (List Nat)), (∀ X ∈ L, EvenSet (spannerGraph g R) X) →
      ∀ X ∈ L, StrictSorted X ∧ ∀ i ∈ X, i < R.length := by
    intro L hL X hX
    have h := hL X hX
    exact ⟨h.1, fun i hi => by have := h.2.1 i hi; rwa [KmmT.sp_m] at this⟩
  have hcyc := hpos cs hB.1
  have htw := KmmT.fw_tw g R hR cs hB.1
  rw [KmmT.translateSp_eq]
  refine ⟨⟨?_, ?_⟩, ?_, htw, ?_⟩
  · intro C hC
    obtain ⟨c, hc, rfl⟩ := List.mem_map.1 hC
    exact KmmT.fw_even g R hR hRm c (hB.1 c hc)
  · intro Z hZ hsub
    obtain ⟨mask, hl, hm⟩ := hB.2.2 _ (KmmT.bw_even g R hR Z hZ hsub)
    refine ⟨mask, by rw [List.length_map]; exact hl, ?_⟩
    rw [KmmT.fw_xorSel R hR cs mask hcyc, hm, KmmT.fw_bw R Z hZ.1 hsub]
  · intro mask hl ht h0
    rw [List.length_map] at hl
    rw [KmmT.fw_xorSel R hR cs mask hcyc] at h0
    exact hB.2.1 mask hl ht (KmmT.fw_eq_nil R _ h0)
  · intro L hL
    have hL' : ∀ D ∈ L.map (KmmT.bw R), EvenSet (spannerGraph g R) D := by
      intro D hD
      obtain ⟨Z, hZ, rfl⟩ := List.mem_map.1 hD
      exact KmmT.bw_even g R hR Z (hL.1 Z hZ).1 (hL.1 Z hZ).2
    have hback : (L.map (KmmT.bw R)).map (KmmT.fw R) = L := by
      rw [List.map_map]
      conv => rhs; rw [← List.map_id L]
      apply List.map_congr_left
      intro Z hZ
      exact KmmT.fw_bw R Z (hL.1 Z hZ).1.1 (hL.1 Z hZ).2
    have hspan : ∀ Z, EvenSet (spannerGraph g R) Z →
        ∃ mask : List Bool, mask.length = (L.map (KmmT.bw R)).length ∧ xorSel (L.map (KmmT.bw R)) mask = Z := by
      intro Z hZ
      have hf := KmmT.fw_even g R hR hRm Z hZ
      obtain ⟨mask, hl, hm⟩ := hL.2 _ hf.1 hf.2
      refine ⟨mask, by rw [List.length_map]; exact hl, ?_⟩
      have hp' := hpos _ hL'
      have hx := KmmT.fw_xorSel R hR _ mask hp'
      rw [hback, hm] at hx
      have hs := Spanner.xorSel_sorted (L.map (KmmT.bw R)) mask (fun X hX => (hp' X hX).1)
      have hlt : ∀ i ∈ xorSel (L.map (KmmT.bw R)) mask, i < R.length := by
        intro i hi
        obtain ⟨X, hX, hiX⟩ := Spanner.xorSel_mem_sub _ mask i hi
        exact (hp' X hX).2 i hiX
      exact KmmT.fw_inj R hR _ _ hs hZ.1 hlt (hpos [Z] (by simpa using hZ) Z (by simp)).2 hx.symm
    have hw := MetaL.mcb_le_spanning (spannerGraph g R) (sp_positive g hp R hRm) cs h _ hL' hspan
    have hLw := KmmT.fw_tw g R hR _ hL'
    rw [hback] at hLw
    rw [htw, hLw]
    exact hw



/-! ### the cycle of one dropped edge -/

/-- the spanner path of `nonSpannerCycle`, as edge ids of `g` (order: from the target back to the source) -/
def spPath (g : Graph) (R : List Nat) (pick : Pick) (e : Nat) : List Nat :=
  (pathBack (dijkstraP (spannerGraph g R) pick (g.src e)) (g.n + 1) (g.tgt e)).map fun i => R.getD i 0

theorem nonSpannerCycle_eq (g : Graph) (R : List Nat) (pick : Pick) (e : Nat) :
    nonSpannerCycle g R pick e =
      (spPath g R pick e ++ [e], ((spPath g R pick e ++ [e]).map g.weight).sum) := rfl

theorem spPath_spec (g : Graph) (hs : g.simpleB = true) (hp : g.positiveB = true) (R : List Nat) (hR : R.Nodup)
    (hRm : ∀ e ∈ R, e < g.m) (pick : Pick) (hpick : PickOK pick) (e : Nat) (he : e < g.m)
    (hreach : ∃ es : List Nat, (∀ f ∈ es, f ∈ R) ∧ isWalk g es (g.src e) (g.tgt e) = true) :
    (spPath g R pick e).Nodup ∧ (∀ f ∈ spPath g R pick e, f ∈ R) ∧
    isWalk g (spPath g R pick e) (g.tgt e) (g.src e) = true ∧
    ∀ es : List Nat, (∀ f ∈ es, f ∈ R) → isWalk g es (g.src e) (g.tgt e) = true →
      C05.listWeight g (spPath g R pick e) ≤ C05.listWeight g es := by
  obtain ⟨a, b, c⟩ := simpleB_facts g hs e he
  obtain ⟨es0, h01, h02⟩ := hreach
  have hidx : ∀ (es : List Nat), (∀ f ∈ es, f ∈ R) → ∀ i ∈ es.map (fun e => R.idxOf e), i < (spannerGraph g R).m := by
    intro es hes i hi
    obtain ⟨f, hf, rfl⟩ := List.mem_map.1 hi
    rw [KmmT.sp_m]; exact List.idxOf_lt_length_of_mem (hes f hf)
  have h := dijkstraP_path (spannerGraph g R) (sp_simple g hs R hR hRm) (sp_positive g hp R hRm) pick hpick
    (g.src e) (g.tgt e) a b c ⟨_, hidx es0 h01, sp_walk_bw g R es0 _ _ h01 h02⟩
  obtain ⟨h1, h2, h3, h4⟩ := h
  have h2' : ∀ i ∈ pathBack (dijkstraP (spannerGraph g R) pick (g.src e)) (g.n + 1) (g.tgt e), i < R.length := by
    intro i hi
    have := h2 i hi
    rwa [KmmT.sp_m] at this
  refine ⟨KmmT.map_nodup R hR _ h1 h2', ?_, sp_walk_fw g R _ _ _ h2' h3, ?_⟩
  · intro f hf
    obtain ⟨i, hi, rfl⟩ := List.mem_map.1 hf
    exact KmmT.getD_mem R i (h2' i hi)
  · intro es hes hw
    have := h4 _ (hidx es hes) (sp_walk_bw g R es _ _ hes hw)
    rw [sp_listWeight_bw g R es hes] at this
    unfold spPath
    rw [sp_listWeight_fw g R _ h2']
    exact this

theorem zip_map_self {α β : Type} (f : Nat → α) (F : α × Nat → β) : ∀ (D : List Nat),
    ((D.map f).zip D).map F = D.map fun e => F (f e, e)
  | [] => rfl
  | e :: D => by
    simp only [List.map_cons, List.zip_cons_cons]
    rw [zip_map_self f F D]

/-- **the assembly**: a minimum cycle basis of the retained subgraph (in the spanner's numbering) and one literal
`nonSpannerCycle` per dropped edge -/
theorem assemble_gen (g : Graph) (hs : g.simpleB = true) (hp : g.positiveB = true) (T : Int) (hT : 1 ≤ T)
    (R D : List Nat) (hpart : (R ++ D).Perm (List.range g.m))
    (hstretch : ∀ e ∈ D, ∃ q : List Nat, (∀ x ∈ q, x ∈ R) ∧ isWalk g q (g.src e) (g.tgt e) = true ∧
      C05.listWeight g q ≤ T * g.weight e)
    (cs : List (List Nat)) (hcs : IsMCB (spannerGraph g R) cs) (pickD : Nat → Pick) (hpickD : ∀ e, PickOK (pickD e)) :
    IsBasis g (translateSp R cs ++ D.map fun e => setOf (nonSpannerCycle g R (pickD e) e).1) ∧
    (∀ B, IsBasis g B →
      totalWeight g (translateSp R cs ++ D.map fun e => setOf (nonSpannerCycle g R (pickD e) e).1) ≤ T * totalWeight g B) ∧
    totalWeight g (translateSp R cs ++ D.map fun e => setOf (nonSpannerCycle g R (pickD e) e).1) =
      totalWeight (spannerGraph g R) cs + (D.map fun e => (nonSpannerCycle g R (pickD e) e).2).sum := by
  have hndRD : (R ++ D).Nodup := hpart.nodup_iff.2 List.nodup_range
  have hR : R.Nodup := (List.nodup_append.1 hndRD).1
  have hRm : ∀ e ∈ R, e < g.m := fun e he => List.mem_range.1 (hpart.mem_iff.1 (List.mem_append_left _ he))
  have hDm : ∀ e ∈ D, e < g.m := fun e he => List.mem_range.1 (hpart.mem_iff.1 (List.mem_append_right _ he))
  have hdisj : ∀ e, e ∈ R → e ∈ D → False := fun e h1 h2 => (List.nodup_append.1 hndRD).2.2 e h1 e h2 rfl
  obtain ⟨t1, t2, t3, t4⟩ := transfer_mcb g hp R hR hRm cs hcs
  have hspec : ∀ e ∈ D, _ := fun e he => spPath_spec g hs hp R hR hRm (pickD e) (hpickD e) e (hDm e he)
    (by obtain ⟨q, q1, q2, _⟩ := hstretch e he; exact ⟨q, q1, q2⟩)
  -- the paths, oriented from the source to the target
  have hget : ∀ (i : Nat) p e, (D.map fun e => (spPath g R (pickD e) e).reverse)[i]? = some p → D[i]? = some e →
      p = (spPath g R (pickD e) e).reverse ∧ e ∈ D := by
    intro i p e h1 h2
    rw [List.getElem?_map, h2] at h1
    simp only [Option.map_some, Option.some.injEq] at h1
    exact ⟨h1.symm, List.mem_of_getElem? h2⟩
  have hpwalk : ∀ (i : Nat) p e, (D.map fun e => (spPath g R (pickD e) e).reverse)[i]? = some p → D[i]? = some e →
      p.Nodup ∧ (∀ f ∈ p, f ∈ R) ∧ isWalk g p (g.src e) (g.tgt e) = true := by
    intro i p e h1 h2
    obtain ⟨rfl, he⟩ := hget i p e h1 h2
    obtain ⟨s1, s2, s3, _⟩ := hspec e he
    exact ⟨((List.reverse_perm _).nodup_iff).2 s1, fun f hf => s2 f (List.mem_reverse.1 hf), KmmL.isWalk_reverse g _ _ _ s3⟩
  have hpshort : ∀ (i : Nat) p e, (D.map fun e => (spPath g R (pickD e) e).reverse)[i]? = some p → D[i]? = some e →
      ∀ es : List Nat, (∀ f ∈ es, f ∈ R) → isWalk g es (g.src e) (g.tgt e) = true →
        C05.listWeight g p ≤ C05.listWeight g es := by
    intro i p e h1 h2 es hes hw
    obtain ⟨rfl, he⟩ := hget i p e h1 h2
    rw [KmmL.listWeight_reverse]
    exact (hspec e he).2.2.2 es hes hw
  have hfam : C05.emitted (translateSp R cs) (D.map fun e => (spPath g R (pickD e) e).reverse) D =
      translateSp R cs ++ D.map fun e => setOf (nonSpannerCycle g R (pickD e) e).1 := by
    unfold C05.emitted
    rw [zip_map_self]
    congr 1
    apply List.map_congr_left
    intro e _
    show setOf (edgeCycle (spPath g R (pickD e) e).reverse e) = setOf (spPath g R (pickD e) e ++ [e])
    exact BiSearchL.setOf_perm' ((List.reverse_perm _).append_right [e])
  have hbasis := C05.c05_basis g hs R D (translateSp R cs) (D.map fun e => (spPath g R (pickD e) e).reverse)
    { part := hpart, bs_even := t1.1, bs_indep := t2, bs_spans := t1.2, plen := by rw [List.length_map],
      pwalk := hpwalk }
  have X : KmmL.Ctx g T R D (D.map fun e => (spPath g R (pickD e) e).reverse) :=
    { hs := hs, hp := hp, hT := hT, part := hpart, plen := by rw [List.length_map], pwalk := hpwalk,
      pshort := hpshort, stretch := hstretch }
  rw [hfam] at hbasis
  refine ⟨hbasis, ?_, ?_⟩
  · intro B hB
    have := KmmL.kmm_core X (translateSp R cs) t4 B hB
    rw [hfam] at this
    exact this
  · rw [KmmL.totalWeight_append, t3]
    congr 1
    unfold totalWeight
    rw [List.map_map]
    congr 1
    apply List.map_congr_left
    intro e he
    obtain ⟨s1, s2, _, _⟩ := hspec e he
    show wt g (setOf (spPath g R (pickD e) e ++ [e])) = ((spPath g R (pickD e) e ++ [e]).map g.weight).sum
    rw [CertL.wt_setOf]
    · rfl
    · refine List.nodup_append.2 ⟨s1, List.nodup_cons.2 ⟨List.not_mem_nil, List.nodup_nil⟩, ?_⟩
      intro a ha b hb hab
      rw [List.mem_singleton.1 hb] at hab
      exact hdisj e (hab ▸ s2 a ha) he



theorem stretch_of (g : Graph) (hs : g.simpleB = true) (hp : g.positiveB = true) (k : Nat) (hk : 1 ≤ k)
    (scan : List Nat) (hscan : scanOkB g scan = true) :
    ∀ e ∈ (constructSpanner g k scan).2, ∃ q : List Nat, (∀ x ∈ q, x ∈ (constructSpanner g k scan).1) ∧
      isWalk g q (g.src e) (g.tgt e) = true ∧ C05.listWeight g q ≤ (2 * (k : Int) - 1) * g.weight e := by
  intro e he
  have hpart := (Spanner.spanner_partition g k scan).1.trans (Spanner.scan_perm g scan hscan)
  obtain ⟨es, h1, h2, h3⟩ := Spanner.spanner_stretch g hs k hk scan hscan e he
  refine ⟨es, fun x hx => (h3 x hx).1, h2, ?_⟩
  have hem : e < g.m := List.mem_range.1 (hpart.mem_iff.1 (List.mem_append_right _ he))
  have hw : 0 < g.weight e := positiveB_facts g hp e hem
  have h5 := Spanner.sum_weight_le g (g.weight e) es (fun f hf => (h3 f hf).2)
  have h6 : (es.length : Int) * g.weight e ≤ ((2 * k - 1 : Nat) : Int) * g.weight e :=
    Int.mul_le_mul_of_nonneg_right (Int.ofNat_le.2 h1) (Int.le_of_lt hw)
  have h7 : ((2 * k - 1 : Nat) : Int) = 2 * (k : Int) - 1 := by omega
  rw [h7] at h6
  unfold C05.listWeight
  omega

/-- every cycle basis of a simple positive graph has `m - n + c` elements -/
theorem basis_count (g : Graph) (hs : g.simpleB = true) (hp : g.positiveB = true) (order0 : List Nat)
    (ho0 : order0.Perm (List.range g.n)) (L : List (List Nat)) (hL : IsBasis g L) :
    (L.length : Int) = (g.m : Int) - g.n + (spanningForest g order0).2 := by
  have h := mcbIsoTrees_correct g hs hp order0 ho0 sortByWeight sortByWeight_ok
  rw [basis_card_eq g L _ hL h.1.1]
  exact h.2.2

theorem foldl_add_sum (l : List Int) (x : Int) : l.foldl (· + ·) x = x + l.sum := by
  induction l generalizing x with
  | nil => simp
  | cons a l ih => simp only [List.foldl_cons, ih, List.sum_cons]; omega

theorem map_range_getD' (D : List Nat) : (List.range D.length).map (fun i => D.getD i 0) = D := by
  apply List.ext_getElem
  · simp
  · intro i h1 h2
    simp [List.getD_eq_getElem?_getD, h2]

theorem map_range'_getD {α β : Type} (f : α → β) (d : α) (L : List α) :
    (List.range' 0 L.length).map (fun i => f (L.getD i d)) = L.map f := by
  apply List.ext_getElem
  · simp
  · intro i h1 h2
    have h3 : i < L.length := by simpa using h2
    simp [List.getD_eq_getElem?_getD, h3]

/-- what the composition delivers for any arrangement `D'` of the dropped edges -/
theorem approx_family (g : Graph) (hs : g.simpleB = true) (hp : g.positiveB = true) (k : Nat) (hk : 1 ≤ k)
    (scan : List Nat) (hscan : scanOkB g scan = true) (order0 : List Nat) (ho0 : order0.Perm (List.range g.n))
    (exact : Graph → McbResult) (orderSp : List Nat)
    (hex : McbCorrect (spannerGraph g (constructSpanner g k scan).1) orderSp
      (exact (spannerGraph g (constructSpanner g k scan).1)))
    (pickD : Nat → Pick) (hpickD : ∀ e, PickOK (pickD e)) (D' : List Nat) (hD' : D'.Perm (constructSpanner g k scan).2)
    (ret : Int)
    (hret : ret = (exact (spannerGraph g (constructSpanner g k scan).1)).weight +
      (D'.map fun e => (nonSpannerCycle g (constructSpanner g k scan).1 (pickD e) e).2).sum) :
    ApproxCorrect g k order0 (.ok
      (translateSp (constructSpanner g k scan).1 (exact (spannerGraph g (constructSpanner g k scan).1)).cycles ++
        D'.map fun e => setOf (nonSpannerCycle g (constructSpanner g k scan).1 (pickD e) e).1) ret) := by
  obtain ⟨hex1, hex2, _⟩ := hex
  have hpart := (Spanner.spanner_partition g k scan).1.trans (Spanner.scan_perm g scan hscan)
  have hpart' : ((constructSpanner g k scan).1 ++ D').Perm (List.range g.m) :=
    (hD'.append_left _).trans hpart
  obtain ⟨a1, a2, a3⟩ := assemble_gen g hs hp (2 * (k : Int) - 1) (by omega) _ D' hpart'
    (fun e he => stretch_of g hs hp k hk scan hscan e (hD'.mem_iff.1 he)) _ hex1 pickD hpickD
  refine ⟨_, _, rfl, a1, ?_, basis_count g hs hp order0 ho0 _ a1, fun C hC => (a1.1 C hC).2.1, a2⟩
  rw [hret, a3, hex2]

end ApproxAlgoL

/-- the generic composition: any exact phase that is correct on the spanner graph -/
theorem approxCore_correct (g : Graph) (hs : g.simpleB = true) (hp : g.positiveB = true) (k : Nat) (hk : 1 ≤ k)
    (scan : List Nat) (hscan : scanOkB g scan = true) (order0 : List Nat) (ho0 : order0.Perm (List.range g.n))
    (exact : Graph → McbResult) (orderSp : List Nat)
    (hex : McbCorrect (spannerGraph g (constructSpanner g k scan).1) orderSp
      (exact (spannerGraph g (constructSpanner g k scan).1)))
    (pickD : Nat → Pick) (hpickD : ∀ e, PickOK (pickD e)) :
    ApproxCorrect g k order0 (approxCore g k scan exact pickD) := by
  have heq : approxCore g k scan exact pickD = .ok
      (translateSp (constructSpanner g k scan).1 (exact (spannerGraph g (constructSpanner g k scan).1)).cycles ++
        (constructSpanner g k scan).2.map fun e => setOf (nonSpannerCycle g (constructSpanner g k scan).1 (pickD e) e).1)
      ((exact (spannerGraph g (constructSpanner g k scan).1)).weight +
        ((constructSpanner g k scan).2.map fun e => (nonSpannerCycle g (constructSpanner g k scan).1 (pickD e) e).2).sum) := by
    unfold approxCore
    rw [if_neg (by omega)]
    simp only [List.map_map, ApproxAlgoL.foldl_add_sum, Int.zero_add]
    rfl
  rw [heq]
  exact ApproxAlgoL.approx_family g hs hp k hk scan hscan order0 ho0 exact orderSp hex pickD hpickD _
    (List.Perm.refl _) _ rfl

/-- … and with the TBB builder: any order of the concurrent `push_back`s, any schedule of the weight reduction -/
theorem approxCoreTbb_correct (g : Graph) (hs : g.simpleB = true) (hp : g.positiveB = true) (k : Nat) (hk : 1 ≤ k)
    (scan : List Nat) (hscan : scanOkB g scan = true) (order0 : List Nat) (ho0 : order0.Perm (List.range g.n))
    (exact : Graph → McbResult) (orderSp : List Nat)
    (hex : McbCorrect (spannerGraph g (constructSpanner g k scan).1) orderSp
      (exact (spannerGraph g (constructSpanner g k scan).1)))
    (pickD : Nat → Pick) (hpickD : ∀ e, PickOK (pickD e))
    (pushOrder : List Nat) (hpush : pushOrder.Perm (List.range (constructSpanner g k scan).2.length))
    (s : Sched) (hcov : s.Covers 0 (constructSpanner g k scan).2.length) :
    ApproxCorrect g k order0 (approxCoreTbb g k scan exact pickD pushOrder s) := by
  have hD' : (pushOrder.map fun i => (constructSpanner g k scan).2.getD i 0).Perm (constructSpanner g k scan).2 := by
    have := hpush.map fun i => (constructSpanner g k scan).2.getD i 0
    rw [ApproxAlgoL.map_range_getD'] at this
    exact this
  have hlen : (pushOrder.map fun i => nonSpannerCycle g (constructSpanner g k scan).1 (pickD ((constructSpanner g k scan).2.getD i 0))
      ((constructSpanner g k scan).2.getD i 0)).length = (constructSpanner g k scan).2.length := by
    rw [List.length_map, hpush.length_eq, List.length_range]
  have hsum : reduceSum (fun i => ((pushOrder.map fun i => nonSpannerCycle g (constructSpanner g k scan).1 (pickD ((constructSpanner g k scan).2.getD i 0))
      ((constructSpanner g k scan).2.getD i 0)).getD i ([], 0)).2) s =
      ((pushOrder.map fun i => (constructSpanner g k scan).2.getD i 0).map fun e =>
        (nonSpannerCycle g (constructSpanner g k scan).1 (pickD e) e).2).sum := by
    rw [C03.c03_reduce_sum _ 0 _ s hcov, Nat.sub_zero, ← hlen,
      ApproxAlgoL.map_range'_getD (fun p : List Nat × Int => p.2), List.map_map, List.map_map]
    rfl
  have heq : approxCoreTbb g k scan exact pickD pushOrder s = .ok
      (translateSp (constructSpanner g k scan).1 (exact (spannerGraph g (constructSpanner g k scan).1)).cycles ++
        (pushOrder.map fun i => (constructSpanner g k scan).2.getD i 0).map fun e =>
          setOf (nonSpannerCycle g (constructSpanner g k scan).1 (pickD e) e).1)
      ((exact (spannerGraph g (constructSpanner g k scan).1)).weight +
        ((pushOrder.map fun i => (constructSpanner g k scan).2.getD i 0).map fun e =>
          (nonSpannerCycle g (constructSpanner g k scan).1 (pickD e) e).2).sum) := by
    unfold approxCoreTbb
    rw [if_neg (by omega)]
    simp only []
    rw [hsum]
    simp only [List.map_map]
    rfl
  rw [heq]
  exact ApproxAlgoL.approx_family g hs hp k hk scan hscan order0 ho0 exact orderSp hex pickD hpickD _ hD' _ rfl

/-- `k = 0` is rejected and nothing is emitted -/
theorem approxCore_k0 (g : Graph) (scan : List Nat) (exact : Graph → McbResult) (pickD : Nat → Pick) :
    approxCore g 0 scan exact pickD = .error := by
  rfl

theorem approxCoreTbb_k0 (g : Graph) (scan : List Nat) (exact : Graph → McbResult) (pickD : Nat → Pick)
    (pushOrder : List Nat) (s : Sched) : approxCoreTbb g 0 scan exact pickD pushOrder s = .error := by
  rfl

/-- `k = 1`: the result is a minimum cycle basis -/
theorem approxCorrect_k1 (g : Graph) (order0 : List Nat) (o : ApproxOutcome) (h : ApproxCorrect g 1 order0 o) :
    ∃ cycles ret, o = .ok cycles ret ∧ IsMCB g cycles ∧ ret = totalWeight g cycles := by
  obtain ⟨cycles, ret, h1, h2, h3, _, _, h6⟩ := h
  refine ⟨cycles, ret, h1, ⟨h2, fun B hB => ?_⟩, h3⟩
  have := h6 B hB
  have e : (2 * ((1 : Nat) : Int) - 1) * totalWeight g B = totalWeight g B := by
    rw [show (2 * ((1 : Nat) : Int) - 1) = 1 from rfl, Int.one_mul]
  rw [e] at this
  exact this

/-! ### the entry points -/

theorem approxSigned_correct (g : Graph) (hs : g.simpleB = true) (hp : g.positiveB = true) (k : Nat) (hk : 1 ≤ k)
    (scan : List Nat) (hscan : scanOkB g scan = true) (order : List Nat) (ho : order.Perm (List.range g.n))
    (pick : Nat → PickFam) (hpick : ∀ j i L, PickOK (pick j i L)) (σ : Nat → List Nat → List Nat) (hσ : ∀ j S, (σ j S).Perm S)
    (pickD : Nat → Pick) (hpickD : ∀ e, PickOK (pickD e)) :
    ApproxCorrect g k order (approxSigned g k scan order pick σ pickD) := by
  obtain ⟨hnd, hm⟩ := C06.retained_facts g k scan hscan
  have hss := ApproxAlgoL.sp_simple g hs _ hnd hm
  have hsp := ApproxAlgoL.sp_positive g hp _ hm
  exact approxCore_correct g hs hp k hk scan hscan order ho _ order
    (mcbSigned_correct _ hss hsp order ho pick hpick σ hσ) pickD hpickD

theorem approxFvsTrees_correct (g : Graph) (hs : g.simpleB = true) (hp : g.positiveB = true) (k : Nat) (hk : 1 ≤ k)
    (scan : List Nat) (hscan : scanOkB g scan = true) (order : List Nat) (ho : order.Perm (List.range g.n))
    (picks : List Nat) (hpicks : ∀ x, x < g.n → x ∈ picks) (sorter : List Cand → List Cand) (hsort : SortOK sorter)
    (pickD : Nat → Pick) (hpickD : ∀ e, PickOK (pickD e)) :
    ApproxCorrect g k order (approxFvsTrees g k scan order picks sorter pickD) := by
  obtain ⟨hnd, hm⟩ := C06.retained_facts g k scan hscan
  have hss := ApproxAlgoL.sp_simple g hs _ hnd hm
  have hsp := ApproxAlgoL.sp_positive g hp _ hm
  exact approxCore_correct g hs hp k hk scan hscan order ho _ order
    (mcbFvsTrees_correct _ hss hsp order ho picks hpicks sorter hsort) pickD hpickD

theorem approxIsoTrees_correct (g : Graph) (hs : g.simpleB = true) (hp : g.positiveB = true) (k : Nat) (hk : 1 ≤ k)
    (scan : List Nat) (hscan : scanOkB g scan = true) (order : List Nat) (ho : order.Perm (List.range g.n))
    (picks : List Nat) (hpicks : ∀ x, x < g.n → x ∈ picks)
    (sorter : List Cand → List Cand) (hsort : SortOK sorter) (pickD : Nat → Pick) (hpickD : ∀ e, PickOK (pickD e)) :
    ApproxCorrect g k order (approxIsoTrees g k scan order picks sorter pickD) := by
  obtain ⟨hnd, hm⟩ := C06.retained_facts g k scan hscan
  have hss := ApproxAlgoL.sp_simple g hs _ hnd hm
  have hsp := ApproxAlgoL.sp_positive g hp _ hm
  exact approxCore_correct g hs hp k hk scan hscan order ho _ order
    (mcbFvsTrees_correct _ hss hsp order ho picks hpicks sorter hsort) pickD hpickD

theorem approxSignedTbb_correct (g : Graph) (hs : g.simpleB = true) (hp : g.positiveB = true) (k : Nat) (hk : 1 ≤ k)
    (scan : List Nat) (hscan : scanOkB g scan = true) (order : List Nat) (ho : order.Perm (List.range g.n))
    (pick : Nat → PickFam) (hpick : ∀ j i L, PickOK (pick j i L)) (σ : Nat → List Nat → List Nat) (hσ : ∀ j S, (σ j S).Perm S)
    (perm : List Nat)
    (hperm : perm.Perm (List.range (createIndex (spannerGraph g (constructSpanner g k scan).1) order).dim))
    (scheds : Nat → List Nat → Sched)
    (hcovS : ∀ j S, (scheds j S).Covers 0 (if g.n ≤ S.length then g.n else S.length))
    (pickD : Nat → Pick) (hpickD : ∀ e, PickOK (pickD e))
    (pushOrder : List Nat) (hpush : pushOrder.Perm (List.range (constructSpanner g k scan).2.length))
    (s : Sched) (hcov : s.Covers 0 (constructSpanner g k scan).2.length) :
    ApproxCorrect g k order (approxSignedTbb g k scan order pick σ perm scheds pickD pushOrder s) := by
  obtain ⟨hnd, hm⟩ := C06.retained_facts g k scan hscan
  have hss := ApproxAlgoL.sp_simple g hs _ hnd hm
  have hsp := ApproxAlgoL.sp_positive g hp _ hm
  exact approxCoreTbb_correct g hs hp k hk scan hscan order ho _ order
    (mcbSignedTbb_correct _ hss hsp order ho pick hpick σ hσ perm hperm scheds hcovS) pickD hpickD pushOrder hpush s hcov

theorem approxFvsTreesTbb_correct (g : Graph) (hs : g.simpleB = true) (hp : g.positiveB = true) (k : Nat) (hk : 1 ≤ k)
    (scan : List Nat) (hscan : scanOkB g scan = true) (order : List Nat) (ho : order.Perm (List.range g.n))
    (picks : List Nat) (hpicks : ∀ x, x < g.n → x ∈ picks) (sorter : List Cand → List Cand) (hsort : SortOK sorter)
    (scheds : Nat → Sched)
    (hcovS : ∀ j, (scheds j).Covers 0
      (fvsCands (reindex (spannerGraph g (constructSpanner g k scan).1)
          (createIndex (spannerGraph g (constructSpanner g k scan).1) order))
        (greedyFvs (reindex (spannerGraph g (constructSpanner g k scan).1)
          (createIndex (spannerGraph g (constructSpanner g k scan).1) order)) picks)).2.length)
    (pickD : Nat → Pick) (hpickD : ∀ e, PickOK (pickD e))
    (pushOrder : List Nat) (hpush : pushOrder.Perm (List.range (constructSpanner g k scan).2.length))
    (s : Sched) (hcov : s.Covers 0 (constructSpanner g k scan).2.length) :
    ApproxCorrect g k order (approxFvsTreesTbb g k scan order picks sorter scheds pickD pushOrder s) := by
  obtain ⟨hnd, hm⟩ := C06.retained_facts g k scan hscan
  have hss := ApproxAlgoL.sp_simple g hs _ hnd hm
  have hsp := ApproxAlgoL.sp_positive g hp _ hm
  exact approxCoreTbb_correct g hs hp k hk scan hscan order ho _ order
    (mcbFvsTreesTbb_correct _ hss hsp order ho picks hpicks sorter hsort scheds hcovS) pickD hpickD pushOrder hpush s hcov

theorem approxIsoTreesTbb_correct (g : Graph) (hs : g.simpleB = true) (hp : g.positiveB = true) (k : Nat) (hk : 1 ≤ k)
    (scan : List Nat) (hscan : scanOkB g scan = true) (order : List Nat) (ho : order.Perm (List.range g.n))
    (sorter : List Cand → List Cand) (hsort : SortOK sorter) (scheds : Nat → Sched)
    (hcovS : ∀ j, (scheds j).Covers 0
      (isoCands (reindex (spannerGraph g (constructSpanner g k scan).1)
          (createIndex (spannerGraph g (constructSpanner g k scan).1) order))).2.length)
    (pickD : Nat → Pick) (hpickD : ∀ e, PickOK (pickD e))
    (pushOrder : List Nat) (hpush : pushOrder.Perm (List.range (constructSpanner g k scan).2.length))
    (s : Sched) (hcov : s.Covers 0 (constructSpanner g k scan).2.length) :
    ApproxCorrect g k order (approxIsoTreesTbb g k scan order sorter scheds pickD pushOrder s) := by
  obtain ⟨hnd, hm⟩ := C06.retained_facts g k scan hscan
  have hss := ApproxAlgoL.sp_simple g hs _ hnd hm
  have hsp := ApproxAlgoL.sp_positive g hp _ hm
  exact approxCoreTbb_correct g hs hp k hk scan hscan order ho _ order
    (mcbIsoTreesTbb_correct _ hss hsp order ho sorter hsort scheds hcovS) pickD hpickD pushOrder hpush s hcov

end Parmcb
