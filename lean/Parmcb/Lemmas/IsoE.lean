import Parmcb.Lemmas.IsoA
import Parmcb.Lemmas.IsoC
import Parmcb.Lemmas.IsoComp
/-! Part E: sufficiency of the isometric collection.  Core Lean only. -/
namespace Parmcb
open Parmcb.C01 Parmcb.C02

/-- `C` is (the edge set of) a cycle the isometric collection offers -/
def InIso (g : Graph) (C : List Nat) : Prop := ∃ c ∈ (isoCands g).2, candCycle g c = some C

namespace IsoEL

def comp (g : Graph) : Array Nat := isoComponents (isoAll g).length (isoLinks g)
def badComp (g : Graph) : List Nat :=
  ((((isoLinkOf g).map (·.isNone)).zipIdx).filter (·.1)).map fun (_, i) => (comp g)[i]!
def keep (g : Graph) : List Nat :=
  (List.range (isoAll g).length).filter fun i => !((badComp g).contains (comp g)[i]!) && (comp g)[i]! == i

theorem isoCands_snd (g : Graph) : (isoCands g).2 = (keep g).filterMap fun i => (isoAll g)[i]? := rfl

theorem mem_isoLinks (g : Graph) (a b : Nat) : (a, b) ∈ isoLinks g ↔ (isoLinkOf g)[a]? = some (some b) := by
  unfold isoLinks
  rw [List.mem_filterMap]
  constructor
  · rintro ⟨⟨l, i⟩, hmem, h⟩
    rw [List.mk_mem_zipIdx_iff_getElem?] at hmem
    cases l with
    | none => simp at h
    | some j =>
      simp only [Option.map_some, Option.some.injEq, Prod.mk.injEq] at h
      obtain ⟨rfl, rfl⟩ := h
      exact hmem
  · intro h
    exact ⟨(some b, a), by rw [List.mk_mem_zipIdx_iff_getElem?]; exact h, rfl⟩

theorem mem_badComp (g : Graph) (x : Nat) : x ∈ badComp g → ∃ i : Nat, (isoLinkOf g)[i]? = some none ∧ (comp g)[i]! = x := by
  unfold badComp
  intro h
  rw [List.mem_map] at h
  obtain ⟨⟨b, i⟩, hmem, h⟩ := h
  rw [List.mem_filter, List.mk_mem_zipIdx_iff_getElem?, List.getElem?_map] at hmem
  obtain ⟨h1, h2⟩ := hmem
  simp only at h2 h
  subst h2
  refine ⟨i, ?_, h⟩
  cases hl : (isoLinkOf g)[i]? with
  | none => rw [hl] at h1; cases h1
  | some o =>
    rw [hl] at h1
    cases o with
    | none => rfl
    | some j => simp at h1

theorem mem_keep (g : Graph) (i : Nat) (h1 : i < (isoAll g).length) (h2 : (comp g)[i]! ∉ badComp g) (h3 : (comp g)[i]! = i) :
    i ∈ keep g := by
  unfold keep
  rw [List.mem_filter, List.mem_range]
  refine ⟨h1, ?_⟩
  have : (badComp g).contains (comp g)[i]! = false := by
    cases hc : (badComp g).contains (comp g)[i]! with
    | false => rfl
    | true => exact absurd (List.contains_iff_mem.1 hc) h2
  rw [this, h3]; simp


theorem LinkConn.trans' {links : List (Nat × Nat)} {a b c : Nat} (h1 : LinkConn links a b) (h2 : LinkConn links b c) :
    LinkConn links a c := by
  induction h2 with
  | refl => exact h1
  | step _ hl ih => exact LinkConn.step ih hl

theorem LinkConn.symm' {links : List (Nat × Nat)} {a b : Nat} (h : LinkConn links a b) : LinkConn links b a := by
  induction h with
  | refl => exact LinkConn.refl _
  | step _ hl ih =>
    exact LinkConn.trans' (LinkConn.step (LinkConn.refl _) (hl.symm)) ih

/-- index `i` is a representation of `C` -/
def Rep (g : Graph) (C : List Nat) (i : Nat) : Prop := ∃ c, (isoAll g)[i]? = some c ∧ candCycle g c = some C

theorem Rep.lt {g : Graph} {C : List Nat} {i : Nat} (h : Rep g C i) : i < (isoAll g).length := by
  obtain ⟨c, hc, _⟩ := h
  exact (List.getElem?_eq_some_iff.1 hc).1

theorem isoLinkOf_length (g : Graph) : (isoLinkOf g).length = (isoAll g).length := by
  unfold isoLinkOf; rw [List.length_map]

theorem rep_link (g : Graph) (hs : g.simpleB = true) (hp : g.positiveB = true) (C : List Nat) (a b : Nat)
    (h : (a, b) ∈ isoLinks g) : Rep g C a ↔ Rep g C b := by
  rw [mem_isoLinks] at h
  constructor
  · rintro ⟨c, hc, hC⟩
    exact link_same g hs hp a b c C hc hC h
  · rintro ⟨cb, hcb, hCb⟩
    have ha : a < (isoAll g).length := by
      rw [← isoLinkOf_length]; exact (List.getElem?_eq_some_iff.1 h).1
    have hca : (isoAll g)[a]? = some (isoAll g)[a] := List.getElem?_eq_getElem ha
    obtain ⟨C', hC', _, _⟩ := candCycle_some g hs hp a _ hca
    obtain ⟨c', hc', hC''⟩ := link_same g hs hp a b _ C' hca hC' h
    rw [hcb] at hc'
    cases hc'
    rw [hCb] at hC''
    cases hC''
    exact ⟨_, hca, hC'⟩

theorem rep_conn (g : Graph) (hs : g.simpleB = true) (hp : g.positiveB = true) (C : List Nat) (a b : Nat)
    (h : LinkConn (isoLinks g) a b) : Rep g C a ↔ Rep g C b := by
  induction h with
  | refl => exact Iff.rfl
  | step _ hl ih =>
    rcases hl with hl | hl
    · exact ih.trans (rep_link g hs hp C _ _ hl)
    · exact ih.trans (rep_link g hs hp C _ _ hl).symm

theorem comp_conn (g : Graph) (hs : g.simpleB = true) (hp : g.positiveB = true) (C : List Nat) (a b : Nat)
    (h : LinkConn (isoLinks g) a b) (ha : Rep g C a) : (comp g)[a]! = (comp g)[b]! := by
  induction h with
  | refl => rfl
  | @step b c hab hl ih =>
    have hb : Rep g C b := (rep_conn g hs hp C _ _ hab).1 ha
    have h3 := (isoComponents_spec (isoAll g).length (isoLinks g)).2.2
    rcases hl with hl | hl
    · have hc : Rep g C c := (rep_link g hs hp C _ _ hl).1 hb
      exact ih.trans (h3 _ _ hl hb.lt hc.lt)
    · have hc : Rep g C c := (rep_link g hs hp C _ _ hl).2 hb
      exact ih.trans (h3 _ _ hl hc.lt hb.lt).symm

/-- a pairwise isometric circuit with a representation is offered by the isometric collection -/
theorem rep_inIso (g : Graph) (hs : g.simpleB = true) (hp : g.positiveB = true) (C : List Nat)
    (hCc : Circuit g C) (hiso : PairIso g C) (i0 : Nat) (h0 : Rep g C i0) :
    ∃ c ∈ (isoCands g).2, candCycle g c = some C := by
  have hspec := (isoComponents_spec (isoAll g).length (isoLinks g)).2.1
  obtain ⟨hle, hconn⟩ := hspec i0 h0.lt
  have hstar : Rep g C (comp g)[i0]! := (rep_conn g hs hp C _ _ hconn).2 h0
  have hfix : (comp g)[(comp g)[i0]!]! = (comp g)[i0]! := comp_conn g hs hp C _ _ hconn hstar
  have hnb : (comp g)[(comp g)[i0]!]! ∉ badComp g := by
    intro hmem
    obtain ⟨i, hi, hci⟩ := mem_badComp g _ hmem
    have hil : i < (isoAll g).length := by
      rw [← isoLinkOf_length]; exact (List.getElem?_eq_some_iff.1 hi).1
    have hc2 := (hspec i hil).2
    have hci' : (comp g)[i]! = (comp g)[i0]! := hci.trans hfix
    have hconn' : LinkConn (isoLinks g) (comp g)[i0]! i := by
      have := hc2
      change LinkConn (isoLinks g) (comp g)[i]! i at this
      rwa [hci'] at this
    obtain ⟨c, hc, hC⟩ := (rep_conn g hs hp C _ _ hconn').1 hstar
    exact link_good g hs hp i c C hCc hiso hc hC hi
  have hk := mem_keep g _ hstar.lt hnb hfix
  obtain ⟨c, hc, hC⟩ := hstar
  refine ⟨c, ?_, hC⟩
  rw [isoCands_snd, List.mem_filterMap]
  exact ⟨_, hk, hc⟩


theorem verts_nonempty (g : Graph) (C : List Nat) (h : C ≠ []) : ∃ x, x ∈ vertsOf g C := by
  cases C with
  | nil => exact absurd rfl h
  | cons e C' =>
    refine ⟨g.src e, ?_⟩
    unfold vertsOf
    rw [mem_setOf, List.mem_flatMap]
    exact ⟨e, List.mem_cons_self, List.mem_cons_self⟩

end IsoEL

theorem iso_phase_sufficient (g : Graph) (hs : g.simpleB = true) (hp : g.positiveB = true)
    (S : List Nat) (hS : StrictSorted S) (Z : List Nat) (hZ : EvenSet g Z) (hodd : dotPar Z S = true)
    (hmin : ∀ Z', EvenSet g Z' → dotPar Z' S = true → wt g Z ≤ wt g Z') :
    ∃ C, InIso g C ∧ EvenSet g C ∧ dotPar C S = true ∧ wt g C ≤ wt g Z := by
  have _ := hmin
  obtain ⟨C, hC⟩ := isoMin_exists g hs hp S hS ⟨Z, hZ, hodd⟩
  have hiso := isoMin_pairwise g hs hp S hS C hC
  obtain ⟨hE, hCodd, hCmin, _⟩ := hC
  have hCc := minOdd_circuit g hp S C hS hE hCodd hCmin
  obtain ⟨x, hx⟩ := IsoEL.verts_nonempty g C hCc.2.1
  obtain ⟨i0, c0, hc0, _, hC0⟩ := iso_repr g hs hp C hCc hiso x hx
  exact ⟨C, IsoEL.rep_inIso g hs hp C hCc hiso i0 ⟨c0, hc0, hC0⟩, hE, hCodd, hCmin Z hZ hodd⟩

theorem phaseOKIn_phaseOK_iso (g : Graph) (hs : g.simpleB = true) (hp : g.positiveB = true)
    (S : List Nat) (hS : StrictSorted S) (C : List Nat)
    (h : PhaseOKIn g (InIso g) S C) : PhaseOK g 1 S C := by
  obtain ⟨hcand, hE, hodd, hmin⟩ := h
  obtain ⟨Z0, hZ0, hZ0odd, hZ0min⟩ := phaseOK_exists g hp S ⟨C, hE, hodd⟩
  have hmin0 : ∀ Z', EvenSet g Z' → dotPar Z' S = true → wt g Z0 ≤ wt g Z' := by
    intro Z' h1 h2
    have := hZ0min Z' h1 h2
    rwa [Int.one_mul] at this
  obtain ⟨C', hC'in, hC'E, hC'odd, hC'w⟩ := iso_phase_sufficient g hs hp S hS Z0 hZ0 hZ0odd hmin0
  refine ⟨hE, hodd, ?_⟩
  intro Z hZ hZodd
  have h1 := hmin C' hC'in hC'E hC'odd
  have h2 := hmin0 Z hZ hZodd
  rw [Int.one_mul]; omega

theorem iso_sufficient (g : Graph) (N : Nat) (v : Variant) (sup0 cycles : List (List Nat)) (hd : ExactDomain g N)
    (hperm : sup0.Perm (unitSupports N)) (hlen : cycles.length = N)
    (hr : RunIn g (InIso g) v 0 sup0 cycles) : IsMCB g cycles := by
  have hs := hd.simple
  have hp := hd.positive
  obtain ⟨Ss0, hv, _⟩ := DP2.init_exists N sup0 hperm
  subst hv
  have hrun : Run g 1 v 0 (vals Ss0) cycles :=
    HortonL.runIn_run g _ v (fun S C hS h => phaseOKIn_phaseOK_iso g hs hp S hS C h) cycles 0 Ss0 hr
  have hb := runIn_basis g N _ v _ cycles hd hperm hlen hr
  refine ⟨⟨hb.1, ?_, ?_⟩, ?_⟩
  · intro mask hm; exact hb.2.1 mask (by rw [hm, hlen])
  · intro Z hZ
    obtain ⟨mask, hm, he⟩ := hb.2.2 Z hZ
    exact ⟨mask, by rw [hm, hlen], he⟩
  · intro L hL
    have := runFrom_weight g N 1 (by decide) v _ cycles hd hperm ⟨hlen, hrun⟩ L hL.1 hL.2.2
    simpa [totalWeight] using this

end Parmcb
