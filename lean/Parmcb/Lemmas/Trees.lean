import Parmcb.Model.TreeCheck
import Parmcb.Model.Iso
import Parmcb.Lemmas.Spanner
/-! helper lemmas for C12 / C14 (lexicographic labels, tree certificates, candidates).  Core Lean only. -/
namespace Parmcb.TreesL
open Parmcb Parmcb.Spanner

/-! ### candidate collections -/

/-- the list of predecessor edges scanned by `createCandidates` -/
def treeEdges (g : Graph) (t : SPTree) : List Nat := (List.range g.n).filterMap fun v => t.pred.getD v none

theorem mem_createCandidates (g : Graph) (t : SPTree) (i : Nat) (es : List Nat) (c : Cand) :
    c ∈ createCandidates g t i es ↔
      c.edge ∈ es ∧ c.tree = i ∧ c.edge ∉ treeEdges g t ∧
      ∃ dv du, t.dist.getD (g.src c.edge) none = some dv ∧ t.dist.getD (g.tgt c.edge) none = some du ∧
        t.first.getD (g.src c.edge) 0 ≠ t.first.getD (g.tgt c.edge) 0 ∧
        c.weight = g.weight c.edge + dv + du := by
  unfold createCandidates
  simp only [List.mem_filterMap]
  constructor
  · rintro ⟨e, he, h⟩
    split at h
    · cases h
    · rename_i hte
      split at h
      · rename_i dv du h1 h2
        split at h
        · cases h
        · rename_i hfi
          cases h
          refine ⟨he, rfl, ?_, dv, du, h1, h2, hfi, rfl⟩
          simpa [treeEdges] using hte
      · cases h
  · rintro ⟨he, hi, hte, dv, du, h1, h2, hfi, hw⟩
    refine ⟨c.edge, he, ?_⟩
    have hte' : ((List.range g.n).filterMap fun v => t.pred.getD v none).contains c.edge = false := by
      simpa [treeEdges] using hte
    rw [if_neg (by rw [hte']; simp)]
    simp only [h1, h2]
    rw [if_neg hfi]
    cases c
    simp only at hi hw
    subst hi; subst hw
    rfl

theorem isoCands_subset (g : Graph) : ∀ c ∈ (isoCands g).2, c ∈ (hortonCands g).2 := by
  intro c hc
  unfold isoCands at hc
  simp only at hc
  rw [List.mem_filterMap] at hc
  obtain ⟨i, _, hi⟩ := hc
  exact List.mem_of_getElem? hi

theorem fvsCands_subset (g : Graph) (fvs : List Nat) (hf : ∀ v ∈ fvs, v < g.n) :
    ∀ c ∈ (fvsCands g fvs).2, ∃ v, fvs[c.tree]? = some v ∧
      { tree := v, edge := c.edge, weight := c.weight : Cand } ∈ (hortonCands g).2 := by
  intro c hc
  unfold fvsCands at hc
  simp only [List.mem_flatMap] at hc
  obtain ⟨⟨t, i⟩, hti, hc⟩ := hc
  rw [List.mk_mem_zipIdx_iff_getElem?, List.getElem?_map] at hti
  simp only at hc
  rw [mem_createCandidates] at hc
  obtain ⟨h1, h2, h3, h4⟩ := hc
  cases hv : fvs[i]? with
  | none => rw [hv] at hti; cases hti
  | some v =>
    rw [hv] at hti
    simp only [Option.map_some, Option.some.injEq] at hti
    refine ⟨v, by rw [h2]; exact hv, ?_⟩
    unfold hortonCands
    simp only [List.mem_flatMap]
    refine ⟨(t, v), ?_, ?_⟩
    · rw [List.mk_mem_zipIdx_iff_getElem?, List.getElem?_map]
      have hvn : v < g.n := hf v (List.mem_of_getElem? hv)
      rw [List.getElem?_range hvn, ← hti]; rfl
    · simp only
      rw [mem_createCandidates]
      exact ⟨h1, rfl, h3, h4⟩

/-! ### the comparison of labels -/

theorem filter_sorted (p : Nat → Bool) : ∀ (l : List Nat), StrictSorted l → StrictSorted (l.filter p)
  | [], _ => trivial
  | x :: r, h => by
    have ih := filter_sorted p r h.tail
    rw [List.filter_cons]
    split
    · apply StrictSorted.cons ih
      intro z hz
      exact h.head_lt z (List.mem_filter.1 hz).1
    · exact ih

theorem mem_setDiff (A B : List Nat) (z : Nat) : z ∈ setDiff A B ↔ z ∈ A ∧ z ∉ B := by
  simp [setDiff]

theorem setDiff_sorted (A B : List Nat) (hA : StrictSorted A) : StrictSorted (setDiff A B) :=
  filter_sorted _ A hA

theorem setDiff_self (A : List Nat) : setDiff A A = [] := by
  apply List.eq_nil_iff_forall_not_mem.2
  intro z hz
  rw [mem_setDiff] at hz
  exact hz.2 hz.1

/-- the set comparison at the end of `lexLess` -/
def setLess (A B : List Nat) : Bool :=
  let na := setDiff A B
  let nb := setDiff B A
  if na.isEmpty && !nb.isEmpty then true
  else if !na.isEmpty && nb.isEmpty then false
  else match na, nb with
    | x :: _, y :: _ => decide (x < y)
    | _, _ => false

theorem lexLess_iff (a b : LexLabel) : lexLess a b = true ↔
    a.dist < b.dist ∨ (a.dist = b.dist ∧ (a.cnt < b.cnt ∨ (a.cnt = b.cnt ∧ setLess a.verts b.verts = true))) := by
  unfold lexLess
  by_cases h1 : a.dist < b.dist
  · rw [if_pos h1]; exact ⟨fun _ => Or.inl h1, fun _ => rfl⟩
  · rw [if_neg h1]
    by_cases h2 : a.dist > b.dist
    · rw [if_pos h2]
      constructor
      · intro h; cases h
      · rintro (h | ⟨h, _⟩) <;> omega
    · rw [if_neg h2]
      have hd : a.dist = b.dist := by omega
      by_cases h3 : a.cnt < b.cnt
      · rw [if_pos h3]; exact ⟨fun _ => Or.inr ⟨hd, Or.inl h3⟩, fun _ => rfl⟩
      · rw [if_neg h3]
        by_cases h4 : a.cnt > b.cnt
        · rw [if_pos h4]
          constructor
          · intro h; cases h
          · rintro (h | ⟨_, h | ⟨h, _⟩⟩) <;> omega
        · rw [if_neg h4]
          have hc : a.cnt = b.cnt := by omega
          show setLess a.verts b.verts = true ↔ _
          constructor
          · intro h; exact Or.inr ⟨hd, Or.inr ⟨hc, h⟩⟩
          · rintro (h | ⟨_, h | ⟨_, h⟩⟩)
            · omega
            · omega
            · exact h

theorem lexLess_irrefl (a : LexLabel) : lexLess a a = false := by
  cases h : lexLess a a with
  | false => rfl
  | true =>
    rw [lexLess_iff] at h
    rcases h with h | ⟨_, h | ⟨_, h⟩⟩
    · omega
    · omega
    · unfold setLess at h
      rw [setDiff_self] at h
      simp at h

/-- the order on sets behind `setLess`: the least element of the symmetric difference lies in `A` -/
def LexLt (A B : List Nat) : Prop := ∃ x, x ∈ A ∧ x ∉ B ∧ ∀ y, y < x → (y ∈ A ↔ y ∈ B)

theorem LexLt.asymm {A B : List Nat} (h1 : LexLt A B) (h2 : LexLt B A) : False := by
  obtain ⟨x, hxA, hxB, hx⟩ := h1
  obtain ⟨y, hyB, hyA, hy⟩ := h2
  rcases Nat.lt_trichotomy x y with h | h | h
  · exact hxB ((hy x h).2 hxA)
  · subst h; exact hxB hyB
  · exact hyA ((hx y h).2 hyB)

theorem LexLt.trans {A B C : List Nat} (h1 : LexLt A B) (h2 : LexLt B C) : LexLt A C := by
  obtain ⟨x, hxA, hxB, hx⟩ := h1
  obtain ⟨y, hyB, hyC, hy⟩ := h2
  rcases Nat.lt_trichotomy x y with h | h | h
  · refine ⟨x, hxA, fun hc => hxB ((hy x h).2 hc), ?_⟩
    intro z hz
    exact (hx z hz).trans (hy z (Nat.lt_trans hz h))
  · subst h; exact absurd hyB hxB
  · refine ⟨y, (hx y h).2 hyB, hyC, ?_⟩
    intro z hz
    exact (hx z (Nat.lt_trans hz h)).trans (hy z hz)

theorem subset_of_length (A B : List Nat) (hnd : A.Nodup) (hsub : ∀ x ∈ A, x ∈ B) (hl : B.length ≤ A.length) :
    ∀ x ∈ B, x ∈ A := by
  intro x hx
  exact (perm_of_subset_length A B hnd hsub hl).mem_iff.1 hx

theorem eq_of_setDiff_nil (A B : List Nat) (hA : StrictSorted A) (hB : StrictSorted B)
    (hl : A.length = B.length) (h : setDiff A B = []) : A = B := by
  have hsub : ∀ x ∈ A, x ∈ B := by
    intro x hx
    apply Classical.byContradiction
    intro hxB
    have : x ∈ setDiff A B := (mem_setDiff A B x).2 ⟨hx, hxB⟩
    rw [h] at this; cases this
  apply StrictSorted.ext hA hB
  intro z
  exact ⟨hsub z, subset_of_length A B hA.nodup hsub (by omega) z⟩

theorem setLess_cons_cons (A B : List Nat) (x y : Nat) (ra rb : List Nat) (h1 : setDiff A B = x :: ra)
    (h2 : setDiff B A = y :: rb) : setLess A B = decide (x < y) := by
  unfold setLess
  rw [h1, h2]
  simp

/-- the heads of the two differences (both exist for different sets of equal size) -/
theorem setDiff_heads (A B : List Nat) (hA : StrictSorted A) (hB : StrictSorted B)
    (hl : A.length = B.length) (hne : A ≠ B) :
    ∃ x ra y rb, setDiff A B = x :: ra ∧ setDiff B A = y :: rb := by
  cases h1 : setDiff A B with
  | nil => exact absurd (eq_of_setDiff_nil A B hA hB hl h1) hne
  | cons x ra =>
    cases h2 : setDiff B A with
    | nil => exact absurd (eq_of_setDiff_nil B A hB hA hl.symm h2).symm hne
    | cons y rb => exact ⟨x, ra, y, rb, rfl, rfl⟩

theorem head_le_of_mem (x : Nat) (r : List Nat) (h : StrictSorted (x :: r)) (z : Nat) (hz : z ∈ x :: r) : x ≤ z := by
  rcases List.mem_cons.1 hz with h1 | h1
  · omega
  · exact Nat.le_of_lt (h.head_lt z h1)

theorem lexLt_of_heads (A B : List Nat) (hA : StrictSorted A) (hB : StrictSorted B) (x y : Nat) (ra rb : List Nat)
    (h1 : setDiff A B = x :: ra) (h2 : setDiff B A = y :: rb) (hxy : x < y) : LexLt A B := by
  have hx : x ∈ setDiff A B := by rw [h1]; exact List.mem_cons_self
  rw [mem_setDiff] at hx
  have s1 := setDiff_sorted A B hA
  have s2 := setDiff_sorted B A hB
  rw [h1] at s1; rw [h2] at s2
  refine ⟨x, hx.1, hx.2, ?_⟩
  intro z hz
  constructor
  · intro hzA
    apply Classical.byContradiction
    intro hzB
    have : z ∈ x :: ra := by rw [← h1]; exact (mem_setDiff A B z).2 ⟨hzA, hzB⟩
    have := head_le_of_mem x ra s1 z this
    omega
  · intro hzB
    apply Classical.byContradiction
    intro hzA
    have : z ∈ y :: rb := by rw [← h2]; exact (mem_setDiff B A z).2 ⟨hzB, hzA⟩
    have := head_le_of_mem y rb s2 z this
    omega

theorem setLess_iff (A B : List Nat) (hA : StrictSorted A) (hB : StrictSorted B) (hl : A.length = B.length) :
    setLess A B = true ↔ LexLt A B := by
  by_cases hne : A = B
  · subst hne
    constructor
    · intro h
      unfold setLess at h
      rw [setDiff_self] at h
      simp at h
    · intro h; exact (h.asymm h).elim
  · obtain ⟨x, ra, y, rb, h1, h2⟩ := setDiff_heads A B hA hB hl hne
    rw [setLess_cons_cons A B x y ra rb h1 h2, decide_eq_true_eq]
    constructor
    · exact lexLt_of_heads A B hA hB x y ra rb h1 h2
    · intro h
      rcases Nat.lt_trichotomy x y with h3 | h3 | h3
      · exact h3
      · subst h3
        have hx : x ∈ setDiff A B := by rw [h1]; exact List.mem_cons_self
        have hy : x ∈ setDiff B A := by rw [h2]; exact List.mem_cons_self
        rw [mem_setDiff] at hx hy
        exact absurd hx.1 hy.2
      · exact (h.asymm (lexLt_of_heads B A hB hA y x rb ra h2 h1 h3)).elim

theorem setLess_total (A B : List Nat) (hA : StrictSorted A) (hB : StrictSorted B) (hl : A.length = B.length) :
    setLess A B = true ∨ setLess B A = true ∨ A = B := by
  by_cases hne : A = B
  · exact Or.inr (Or.inr hne)
  · obtain ⟨x, ra, y, rb, h1, h2⟩ := setDiff_heads A B hA hB hl hne
    rw [setLess_cons_cons A B x y ra rb h1 h2, setLess_cons_cons B A y x rb ra h2 h1, decide_eq_true_eq,
      decide_eq_true_eq]
    rcases Nat.lt_trichotomy x y with h3 | h3 | h3
    · exact Or.inl h3
    · subst h3
      have hx : x ∈ setDiff A B := by rw [h1]; exact List.mem_cons_self
      have hy : x ∈ setDiff B A := by rw [h2]; exact List.mem_cons_self
      rw [mem_setDiff] at hx hy
      exact absurd hx.1 hy.2
    · exact Or.inr (Or.inl h3)

/-- canonical labels (`C12.LabelOK`) -/
def LabOK (a : LexLabel) : Prop := StrictSorted a.verts ∧ a.verts.length = a.cnt + 1

theorem lexLess_asymm (a b : LexLabel) (ha : LabOK a) (hb : LabOK b) :
    lexLess a b = true → lexLess b a = false := by
  intro h1
  cases h2 : lexLess b a with
  | false => rfl
  | true =>
    rw [lexLess_iff] at h1 h2
    rcases h1 with h1 | ⟨e1, h1 | ⟨e2, h1⟩⟩ <;> rcases h2 with h2 | ⟨e3, h2 | ⟨e4, h2⟩⟩ <;> try omega
    have hl : a.verts.length = b.verts.length := by rw [ha.2, hb.2, e2]
    rw [setLess_iff _ _ ha.1 hb.1 hl] at h1
    rw [setLess_iff _ _ hb.1 ha.1 hl.symm] at h2
    exact (h1.asymm h2).elim

theorem lexLess_trans (a b c : LexLabel) (ha : LabOK a) (hb : LabOK b) (hc : LabOK c) :
    lexLess a b = true → lexLess b c = true → lexLess a c = true := by
  intro h1 h2
  rw [lexLess_iff] at h1 h2 ⊢
  rcases h1 with h1 | ⟨e1, h1 | ⟨e2, h1⟩⟩ <;> rcases h2 with h2 | ⟨e3, h2 | ⟨e4, h2⟩⟩
  · left; omega
  · left; omega
  · left; omega
  · left; omega
  · right; exact ⟨by omega, Or.inl (by omega)⟩
  · right; exact ⟨by omega, Or.inl (by omega)⟩
  · left; omega
  · right; exact ⟨by omega, Or.inl (by omega)⟩
  · right
    refine ⟨by omega, Or.inr ⟨by omega, ?_⟩⟩
    have hl1 : a.verts.length = b.verts.length := by rw [ha.2, hb.2, e2]
    have hl2 : b.verts.length = c.verts.length := by rw [hb.2, hc.2, e4]
    rw [setLess_iff _ _ ha.1 hb.1 hl1] at h1
    rw [setLess_iff _ _ hb.1 hc.1 hl2] at h2
    rw [setLess_iff _ _ ha.1 hc.1 (hl1.trans hl2)]
    exact h1.trans h2

theorem lexLess_total (a b : LexLabel) (ha : LabOK a) (hb : LabOK b) :
    lexLess a b = true ∨ lexLess b a = true ∨ a = b := by
  rw [lexLess_iff, lexLess_iff]
  rcases Int.lt_trichotomy a.dist b.dist with h | h | h
  · exact Or.inl (Or.inl h)
  · rcases Nat.lt_trichotomy a.cnt b.cnt with h' | h' | h'
    · exact Or.inl (Or.inr ⟨h, Or.inl h'⟩)
    · have hl : a.verts.length = b.verts.length := by rw [ha.2, hb.2, h']
      rcases setLess_total _ _ ha.1 hb.1 hl with h3 | h3 | h3
      · exact Or.inl (Or.inr ⟨h, Or.inr ⟨h', h3⟩⟩)
      · exact Or.inr (Or.inl (Or.inr ⟨h.symm, Or.inr ⟨h'.symm, h3⟩⟩))
      · right; right
        cases a; cases b
        simp only at h h' h3
        subst h; subst h'; subst h3; rfl
    · exact Or.inr (Or.inl (Or.inr ⟨h.symm, Or.inl h'⟩))
  · exact Or.inr (Or.inl (Or.inl h))

/-! ### the tree certificate -/

/-- what `checkSPT` establishes, clause by clause -/
structure SPTOk (g : Graph) (t : SPTree) : Prop where
  src_lt : t.source < g.n
  dist_src : t.dist.getD t.source none = some 0
  pred_src : t.pred.getD t.source none = none
  node : ∀ v, v < g.n → v ≠ t.source →
    (t.dist.getD v none = none ∧ t.pred.getD v none = none) ∨
    (∃ dv e dp, t.dist.getD v none = some dv ∧ t.pred.getD v none = some e ∧ e < g.m ∧
      (g.src e = v ∨ g.tgt e = v) ∧ t.dist.getD (g.other e v) none = some dp ∧ dv = dp + g.weight e)
  edge : ∀ e, e < g.m →
    (t.dist.getD (g.src e) none = none ∧ t.dist.getD (g.tgt e) none = none) ∨
    (∃ a b, t.dist.getD (g.src e) none = some a ∧ t.dist.getD (g.tgt e) none = some b ∧
      b ≤ a + g.weight e ∧ a ≤ b + g.weight e)

theorem checkSPT_ok (g : Graph) (t : SPTree) (hc : checkSPT g t = true) : SPTOk g t := by
  unfold checkSPT at hc
  simp only [Bool.and_eq_true, decide_eq_true_eq, List.all_eq_true, List.mem_range, beq_iff_eq] at hc
  obtain ⟨⟨⟨⟨⟨⟨h1, _⟩, _⟩, h4⟩, h5⟩, h6⟩, h7⟩ := hc
  refine ⟨h1, h4, h5, ?_, ?_⟩
  · intro v hv hne
    have h := h6 v hv
    rw [if_neg hne] at h
    split at h
    · rename_i a b; exact Or.inl ⟨a, b⟩
    · rename_i dv e a b
      simp only [Bool.and_eq_true, decide_eq_true_eq, Bool.or_eq_true, beq_iff_eq] at h
      obtain ⟨⟨h8, h9⟩, h10⟩ := h
      split at h10
      · rename_i dp hdp
        exact Or.inr ⟨dv, e, dp, a, b, h8, h9, hdp, by simpa using h10⟩
      · cases h10
    · cases h
  · intro e he
    have h := h7 e he
    split at h
    · rename_i a b h1 h2
      simp only [Bool.and_eq_true, decide_eq_true_eq] at h
      exact Or.inr ⟨a, b, h1, h2, h.1, h.2⟩
    · rename_i h1 h2; exact Or.inl ⟨h1, h2⟩
    · cases h

theorem dist_lower_aux (g : Graph) (t : SPTree) (ok : SPTOk g t) : ∀ (es : List Nat) (a v : Nat),
    (∀ e ∈ es, e < g.m) → isWalk g es a v = true → ∀ da, t.dist.getD a none = some da →
    ∃ dv, t.dist.getD v none = some dv ∧ dv ≤ da + wt g es := by
  intro es
  induction es with
  | nil =>
    intro a v _ hw da hda
    rw [isWalk_nil] at hw; subst hw
    exact ⟨da, hda, by rw [wt_nil]; omega⟩
  | cons e r ih =>
    intro a v he hw da hda
    rw [isWalk_cons] at hw
    obtain ⟨c, hj, hw'⟩ := hw
    have hem : e < g.m := he e List.mem_cons_self
    have hc : ∃ dc, t.dist.getD c none = some dc ∧ dc ≤ da + g.weight e := by
      rcases ok.edge e hem with ⟨h1, h2⟩ | ⟨x, y, h1, h2, h3, h4⟩
      · rcases hj with ⟨j1, j2⟩ | ⟨j1, j2⟩
        · rw [j1, hda] at h1; cases h1
        · rw [j1, hda] at h2; cases h2
      · rcases hj with ⟨j1, j2⟩ | ⟨j1, j2⟩
        · rw [j1, hda] at h1; cases h1
          rw [j2] at h2
          exact ⟨y, h2, h3⟩
        · rw [j1, hda] at h2; cases h2
          rw [j2] at h1
          exact ⟨x, h1, h4⟩
    obtain ⟨dc, hdc, hle⟩ := hc
    obtain ⟨dv, hdv, hle'⟩ := ih c v (fun f hf => he f (List.mem_cons_of_mem _ hf)) hw' dc hdc
    refine ⟨dv, hdv, ?_⟩
    rw [wt_cons]; omega

theorem dist_lower (g : Graph) (t : SPTree) (hc : checkSPT g t = true)
    (v : Nat) (es : List Nat) (he : ∀ e ∈ es, e < g.m) (hw : isWalk g es t.source v = true) :
    ∃ d, t.dist.getD v none = some d ∧ d ≤ wt g es := by
  have ok := checkSPT_ok g t hc
  obtain ⟨d, h1, h2⟩ := dist_lower_aux g t ok es t.source v he hw 0 ok.dist_src
  exact ⟨d, h1, by omega⟩

/-- the predecessor chain of `v`, independent of fuel -/
def IsChain (g : Graph) (t : SPTree) : Nat → List Nat → Prop
  | v, [] => v = t.source
  | v, e :: r => v ≠ t.source ∧ t.pred.getD v none = some e ∧ IsChain g t (g.other e v) r

theorem other_lt (g : Graph) (hs : g.simpleB = true) (e v : Nat) (he : e < g.m) : g.other e v < g.n := by
  have := simpleB_facts g hs e he
  unfold Graph.other
  split
  · exact this.2.1
  · exact this.1

/-- the facts about a node with a predecessor -/
theorem node_facts (g : Graph) (hp : g.positiveB = true) (t : SPTree) (ok : SPTOk g t)
    (v : Nat) (hv : v < g.n) (hne : v ≠ t.source) :
    (t.dist.getD v none = none ∧ t.pred.getD v none = none) ∨
    (∃ dv e dp, t.dist.getD v none = some dv ∧ t.pred.getD v none = some e ∧ e < g.m ∧
      (g.src e = v ∨ g.tgt e = v) ∧ t.dist.getD (g.other e v) none = some dp ∧ dv = dp + g.weight e ∧ dp < dv) := by
  rcases ok.node v hv hne with h | ⟨dv, e, dp, h1, h2, h3, h4, h5, h6⟩
  · exact Or.inl h
  · have := positiveB_facts g hp e h3
    exact Or.inr ⟨dv, e, dp, h1, h2, h3, h4, h5, h6, by omega⟩

theorem rootPath_chain (g : Graph) (hs : g.simpleB = true) (hp : g.positiveB = true) (t : SPTree)
    (ok : SPTOk g t) : ∀ (fuel v : Nat) (vis : List Nat) (d : Int), v < g.n → t.dist.getD v none = some d →
    vis.Nodup → (∀ u ∈ vis, u < g.n ∧ ∃ du, t.dist.getD u none = some du ∧ d < du) →
    g.n ≤ vis.length + fuel → IsChain g t v (rootPath g t fuel v) := by
  intro fuel
  induction fuel with
  | zero =>
    intro v vis d hv hd hnd hvis hlen
    exfalso
    have hnv : v ∉ vis := by
      intro h
      obtain ⟨_, du, h1, h2⟩ := hvis v h
      rw [hd] at h1; cases h1; omega
    have := nodup_length_le (v :: vis) g.n (List.nodup_cons.2 ⟨hnv, hnd⟩) (by
      intro u hu
      rcases List.mem_cons.1 hu with h | h
      · subst h; exact hv
      · exact (hvis u h).1)
    simp only [List.length_cons] at this
    omega
  | succ fuel ih =>
    intro v vis d hv hd hnd hvis hlen
    by_cases hne : v = t.source
    · subst hne
      simp only [rootPath, ok.pred_src]
      exact rfl
    · rcases node_facts g hp t ok v hv hne with ⟨h, _⟩ | ⟨dv, e, dp, h1, h2, h3, h4, h5, h6, h7⟩
      · rw [hd] at h; cases h
      · rw [hd] at h1; cases h1
        simp only [rootPath, h2]
        refine ⟨hne, h2, ?_⟩
        have hnv : v ∉ vis := by
          intro h
          obtain ⟨_, du, h1, h2⟩ := hvis v h
          rw [hd] at h1; cases h1; omega
        apply ih (g.other e v) (v :: vis) dp (other_lt g hs e v h3) h5 (List.nodup_cons.2 ⟨hnv, hnd⟩)
        · intro u hu
          rcases List.mem_cons.1 hu with h | h
          · subst h; exact ⟨hv, d, hd, h7⟩
          · obtain ⟨a, du, b, c⟩ := hvis u h
            exact ⟨a, du, b, by omega⟩
        · simp only [List.length_cons]; omega

theorem rootPath_isChain (g : Graph) (hs : g.simpleB = true) (hp : g.positiveB = true) (t : SPTree)
    (ok : SPTOk g t) (v : Nat) (hv : v < g.n) (d : Int) (hd : t.dist.getD v none = some d) :
    IsChain g t v (rootPath g t g.n v) :=
  rootPath_chain g hs hp t ok g.n v [] d hv hd List.nodup_nil (by intro u hu; cases hu) (by simp)

/-- an edge is the predecessor edge of at most one vertex -/
theorem pred_inj (g : Graph) (hp : g.positiveB = true) (t : SPTree) (ok : SPTOk g t)
    (v w e : Nat) (hv : v < g.n) (hw : w < g.n) (hvs : v ≠ t.source) (hws : w ≠ t.source)
    (h1 : t.pred.getD v none = some e) (h2 : t.pred.getD w none = some e) : v = w := by
  rcases node_facts g hp t ok v hv hvs with ⟨_, h⟩ | ⟨dv, e1, dpv, a1, a2, a3, a4, a5, a6, a7⟩
  · rw [h1] at h; cases h
  rcases node_facts g hp t ok w hw hws with ⟨_, h⟩ | ⟨dw, e2, dpw, b1, b2, b3, b4, b5, b6, b7⟩
  · rw [h2] at h; cases h
  rw [h1] at a2; cases a2
  rw [h2] at b2; cases b2
  apply Classical.byContradiction
  intro hne
  unfold Graph.other at a5 b5
  rcases a4 with a4 | a4 <;> rcases b4 with b4 | b4
  · exact hne (a4.symm.trans b4)
  · rw [if_pos a4, b4, b1] at a5
    have : ¬ g.src e = w := by rw [a4]; exact hne
    rw [if_neg this, a4, a1] at b5
    cases a5; cases b5; omega
  · have : ¬ g.src e = v := by rw [b4]; exact fun h => hne h.symm
    rw [if_neg this, b4, b1] at a5
    rw [if_pos b4, a4, a1] at b5
    cases a5; cases b5; omega
  · exact hne (a4.symm.trans b4)

theorem chain_spec (g : Graph) (hs : g.simpleB = true) (hp : g.positiveB = true) (t : SPTree)
    (ok : SPTOk g t) : ∀ (p : List Nat) (v : Nat) (d : Int), v < g.n → t.dist.getD v none = some d →
    IsChain g t v p →
    isWalk g p v t.source = true ∧ wt g p = d ∧ p.Nodup ∧
    (∀ f ∈ p, f < g.m ∧ ∃ w dw, w < g.n ∧ w ≠ t.source ∧ t.pred.getD w none = some f ∧
      t.dist.getD w none = some dw ∧ dw ≤ d) := by
  intro p
  induction p with
  | nil =>
    intro v d hv hd hch
    have : v = t.source := hch
    subst this
    rw [ok.dist_src] at hd; cases hd
    exact ⟨(isWalk_nil g _ _).2 rfl, rfl, List.nodup_nil, by intro f hf; cases hf⟩
  | cons e r ih =>
    intro v d hv hd hch
    obtain ⟨hne, hpe, hch'⟩ := hch
    rcases node_facts g hp t ok v hv hne with ⟨_, h⟩ | ⟨dv, e1, dp, a1, a2, a3, a4, a5, a6, a7⟩
    · rw [hpe] at h; cases h
    rw [hpe] at a2; cases a2
    rw [hd] at a1; cases a1
    obtain ⟨i1, i2, i3, i4⟩ := ih (g.other e v) dp (other_lt g hs e v a3) a5 hch'
    refine ⟨?_, ?_, ?_, ?_⟩
    · rw [isWalk_cons]
      refine ⟨g.other e v, ?_, i1⟩
      unfold Graph.other Jn
      rcases a4 with a4 | a4
      · rw [if_pos a4]; exact Or.inl ⟨a4, rfl⟩
      · by_cases h : g.src e = v
        · rw [if_pos h]; exact Or.inl ⟨h, rfl⟩
        · rw [if_neg h]; exact Or.inr ⟨a4, rfl⟩
    · rw [wt_cons, i2]; omega
    · refine List.nodup_cons.2 ⟨?_, i3⟩
      intro hmem
      obtain ⟨_, w, dw, w1, w2, w3, w4, w5⟩ := i4 e hmem
      have := pred_inj g hp t ok v w e hv w1 hne w2 hpe w3
      subst this
      rw [hd] at w4; cases w4; omega
    · intro f hf
      rcases List.mem_cons.1 hf with h | h
      · subst h
        exact ⟨a3, v, d, hv, hne, hpe, hd, Int.le_refl _⟩
      · obtain ⟨k1, w, dw, w1, w2, w3, w4, w5⟩ := i4 f h
        exact ⟨k1, w, dw, w1, w2, w3, w4, by omega⟩

theorem dist_attained (g : Graph) (hs : g.simpleB = true) (hp : g.positiveB = true) (t : SPTree)
    (hc : checkSPT g t = true) (v : Nat) (hv : v < g.n) (d : Int) (hd : t.dist.getD v none = some d) :
    isWalk g (rootPath g t g.n v) v t.source = true ∧ wt g (rootPath g t g.n v) = d ∧
    (rootPath g t g.n v).Nodup := by
  have ok := checkSPT_ok g t hc
  obtain ⟨h1, h2, h3, _⟩ := chain_spec g hs hp t ok _ v d hv hd (rootPath_isChain g hs hp t ok v hv d hd)
  exact ⟨h1, h2, h3⟩

/-! ### first-in-path -/

structure FirstOk (g : Graph) (t : SPTree) : Prop where
  first_src : t.first.getD t.source 0 = t.source
  step : ∀ v e, v < g.n → v ≠ t.source → t.pred.getD v none = some e →
    (g.other e v = t.source → t.first.getD v 0 = v) ∧
    (g.other e v ≠ t.source → t.first.getD v 0 = t.first.getD (g.other e v) 0)

theorem checkFirst_ok (g : Graph) (t : SPTree) (hf : checkFirst g t = true) : FirstOk g t := by
  unfold checkFirst at hf
  simp only [Bool.and_eq_true, decide_eq_true_eq, List.all_eq_true, List.mem_range, beq_iff_eq] at hf
  obtain ⟨⟨_, h2⟩, h3⟩ := hf
  refine ⟨h2, ?_⟩
  intro v e hv hne hpe
  have h := h3 v hv
  rw [if_neg hne, hpe] at h
  simp only at h
  constructor
  · intro hp; rw [if_pos hp] at h; simpa using h
  · intro hp; rw [if_neg hp] at h; simpa using h

theorem chain_source_nil (g : Graph) (t : SPTree) (r : List Nat) (h : IsChain g t t.source r) : r = [] := by
  cases r with
  | nil => rfl
  | cons e r => exact absurd rfl h.1

theorem inc_of_endpoint (g : Graph) (hs : g.simpleB = true) (e v : Nat) (he : e < g.m)
    (h : g.src e = v ∨ g.tgt e = v) : g.inc v e = true := by
  have hf := simpleB_facts g hs e he
  unfold Graph.inc
  rcases h with h | h
  · have : (g.tgt e == v) = false := beq_eq_false_iff_ne.2 (by rw [← h]; exact fun x => hf.2.2 x.symm)
    rw [this, beq_iff_eq.2 h]; rfl
  · have : (g.src e == v) = false := beq_eq_false_iff_ne.2 (by rw [← h]; exact hf.2.2)
    rw [this, beq_iff_eq.2 h]; rfl

theorem chain_first (g : Graph) (hs : g.simpleB = true) (hp : g.positiveB = true) (t : SPTree)
    (ok : SPTOk g t) (fok : FirstOk g t) : ∀ (p : List Nat) (v : Nat), v < g.n → v ≠ t.source →
    IsChain g t v p →
    (∀ f ∈ p, ∃ w, w < g.n ∧ w ≠ t.source ∧ t.pred.getD w none = some f ∧
      t.first.getD w 0 = t.first.getD v 0) ∧
    ∃ e, p.getLast? = some e ∧ g.other e (t.first.getD v 0) = t.source ∧ g.inc (t.first.getD v 0) e = true := by
  intro p
  induction p with
  | nil => intro v _ hne hch; exact absurd hch hne
  | cons e r ih =>
    intro v hv hne hch
    obtain ⟨_, hpe, hch'⟩ := hch
    rcases node_facts g hp t ok v hv hne with ⟨_, h⟩ | ⟨dv, e1, dp, a1, a2, a3, a4, a5, a6, a7⟩
    · rw [hpe] at h; cases h
    rw [hpe] at a2; cases a2
    have hst := fok.step v e hv hne hpe
    by_cases hps : g.other e v = t.source
    · rw [hps] at hch'
      have := chain_source_nil g t r hch'
      subst this
      have hfv := hst.1 hps
      refine ⟨?_, e, rfl, ?_, ?_⟩
      · intro f hf
        rw [List.mem_singleton] at hf; subst hf
        exact ⟨v, hv, hne, hpe, rfl⟩
      · rw [hfv]; exact hps
      · rw [hfv]; exact inc_of_endpoint g hs e v a3 a4
    · have hfv := hst.2 hps
      obtain ⟨i1, e', i2, i3, i4⟩ := ih (g.other e v) (other_lt g hs e v a3) hps hch'
      refine ⟨?_, e', ?_, ?_, ?_⟩
      · intro f hf
        rcases List.mem_cons.1 hf with h | h
        · subst h; exact ⟨v, hv, hne, hpe, rfl⟩
        · obtain ⟨w, w1, w2, w3, w4⟩ := i1 f h
          exact ⟨w, w1, w2, w3, by rw [w4, hfv]⟩
      · cases r with
        | nil => exact absurd hch' hps
        | cons e2 r2 => rw [List.getLast?_cons_cons]; exact i2
      · rw [hfv]; exact i3
      · rw [hfv]; exact i4

theorem first_spec (g : Graph) (hs : g.simpleB = true) (hp : g.positiveB = true) (t : SPTree)
    (hc : checkSPT g t = true) (hf : checkFirst g t = true) (v : Nat) (hv : v < g.n) (hne : v ≠ t.source)
    (d : Int) (hd : t.dist.getD v none = some d) :
    ∃ e, (rootPath g t g.n v).getLast? = some e ∧ g.other e (t.first.getD v 0) = t.source ∧
      g.inc (t.first.getD v 0) e = true := by
  have ok := checkSPT_ok g t hc
  exact (chain_first g hs hp t ok (checkFirst_ok g t hf) _ v hv hne (rootPath_isChain g hs hp t ok v hv d hd)).2

/-! ### candidates of a certified tree -/

theorem eraseDups_of_nodup : ∀ (l : List Nat), l.Nodup → l.eraseDups = l
  | [], _ => rfl
  | a :: r, h => by
    have h' := List.nodup_cons.1 h
    rw [List.eraseDups_cons]
    have : r.filter (fun b => !b == a) = r := by
      rw [List.filter_eq_self]
      intro b hb
      have : b ≠ a := fun e => h'.1 (e ▸ hb)
      simp [this]
    rw [this, eraseDups_of_nodup r h'.2]

theorem par_app (a b : List Nat) (f : Nat → Bool) : par (a ++ b) f = xor (par a f) (par b f) := by
  induction a with
  | nil => simp [par_nil]
  | cons x r ih => rw [List.cons_append, par_cons, par_cons, ih, Bool.xor_assoc]

theorem wt_app (g : Graph) (a b : List Nat) : wt g (a ++ b) = wt g a + wt g b := by
  induction a with
  | nil => simp [wt_nil]
  | cons x r ih => rw [List.cons_append, wt_cons, wt_cons, ih]; omega

theorem wt_perm (g : Graph) {l l' : List Nat} (h : l.Perm l') : wt g l = wt g l' := by
  induction h with
  | nil => rfl
  | cons x _ ih => rw [wt_cons, wt_cons, ih]
  | swap x y l => rw [wt_cons, wt_cons, wt_cons, wt_cons]; omega
  | trans _ _ ih1 ih2 => rw [ih1, ih2]

theorem wt_setOf (g : Graph) (l : List Nat) (hnd : l.Nodup) : wt g (setOf l) = wt g l := by
  apply wt_perm
  rw [List.perm_ext_iff_of_nodup (setOf_sorted l).nodup hnd]
  intro z; exact mem_setOf l z

/-- the two root paths of a candidate and its non-tree edge -/
theorem cand_core (g : Graph) (hs : g.simpleB = true) (hp : g.positiveB = true) (t : SPTree) (i : Nat)
    (hc : checkSPT g t = true) (hf : checkFirst g t = true)
    (c : Cand) (hmem : c ∈ createCandidates g t i (List.range g.m)) :
    ∃ dv du, c.edge < g.m ∧
      (c.edge :: (rootPath g t g.n (g.src c.edge) ++ rootPath g t g.n (g.tgt c.edge))).Nodup ∧
      isWalk g (rootPath g t g.n (g.src c.edge)) (g.src c.edge) t.source = true ∧
      isWalk g (rootPath g t g.n (g.tgt c.edge)) (g.tgt c.edge) t.source = true ∧
      wt g (rootPath g t g.n (g.src c.edge)) = dv ∧ wt g (rootPath g t g.n (g.tgt c.edge)) = du ∧
      c.weight = g.weight c.edge + dv + du ∧
      ∀ f ∈ rootPath g t g.n (g.src c.edge) ++ rootPath g t g.n (g.tgt c.edge), f < g.m := by
  have ok := checkSPT_ok g t hc
  have fok := checkFirst_ok g t hf
  rw [mem_createCandidates] at hmem
  obtain ⟨he, _, hte, dv, du, h1, h2, hfi, hw⟩ := hmem
  rw [List.mem_range] at he
  have hst := simpleB_facts g hs c.edge he
  have ch1 := rootPath_isChain g hs hp t ok _ hst.1 dv h1
  have ch2 := rootPath_isChain g hs hp t ok _ hst.2.1 du h2
  obtain ⟨w1, k1, n1, m1⟩ := chain_spec g hs hp t ok _ _ dv hst.1 h1 ch1
  obtain ⟨w2, k2, n2, m2⟩ := chain_spec g hs hp t ok _ _ du hst.2.1 h2 ch2
  have htree : ∀ f w, w < g.n → t.pred.getD w none = some f → f ≠ c.edge := by
    intro f w hw hpw hfe
    apply hte
    unfold treeEdges
    rw [List.mem_filterMap]
    exact ⟨w, List.mem_range.2 hw, hfe ▸ hpw⟩
  refine ⟨dv, du, he, ?_, w1, w2, k1, k2, hw, ?_⟩
  · refine List.nodup_cons.2 ⟨?_, ?_⟩
    · intro hmem
      rcases List.mem_append.1 hmem with h | h
      · obtain ⟨_, w, _, a1, _, a3, _⟩ := m1 _ h
        exact htree _ w a1 a3 rfl
      · obtain ⟨_, w, _, a1, _, a3, _⟩ := m2 _ h
        exact htree _ w a1 a3 rfl
    · rw [List.nodup_append]
      refine ⟨n1, n2, ?_⟩
      intro a ha b hb hab
      subst hab
      have hs1 : g.src c.edge ≠ t.source := by
        intro h
        rw [h] at ch1
        rw [h, chain_source_nil g t _ ch1] at ha
        cases ha
      have hs2 : g.tgt c.edge ≠ t.source := by
        intro h
        rw [h] at ch2
        rw [h, chain_source_nil g t _ ch2] at hb
        cases hb
      obtain ⟨x1, x2, x3, x4, x5⟩ := (chain_first g hs hp t ok fok _ _ hst.1 hs1 ch1).1 a ha
      obtain ⟨y1, y2, y3, y4, y5⟩ := (chain_first g hs hp t ok fok _ _ hst.2.1 hs2 ch2).1 a hb
      have := pred_inj g hp t ok x1 y1 a x2 y2 x3 y3 x4 y4
      subst this
      exact hfi (x5.symm.trans y5)
  · intro f hf'
    rcases List.mem_append.1 hf' with h | h
    · exact (m1 f h).1
    · exact (m2 f h).1

theorem cand_sound (g : Graph) (hs : g.simpleB = true) (hp : g.positiveB = true) (t : SPTree) (i : Nat)
    (hc : checkSPT g t = true) (hf : checkFirst g t = true)
    (c : Cand) (hmem : c ∈ createCandidates g t i (List.range g.m)) :
    ∃ Z, unfoldCand g t c = some Z ∧ EvenSet g Z ∧ c.edge ∈ Z ∧ wt g Z = c.weight := by
  obtain ⟨dv, du, he, hnd, w1, w2, k1, k2, hw, hlt⟩ := cand_core g hs hp t i hc hf c hmem
  refine ⟨setOf (c.edge :: (rootPath g t g.n (g.src c.edge) ++ rootPath g t g.n (g.tgt c.edge))),
    ?_, ⟨setOf_sorted _, ?_, ?_⟩, ?_, ?_⟩
  · unfold unfoldCand
    simp only
    rw [eraseDups_of_nodup _ hnd, if_pos rfl]
  · intro f hf'
    rw [mem_setOf] at hf'
    rcases List.mem_cons.1 hf' with h | h
    · subst h; exact he
    · exact hlt f h
  · intro x
    rw [par_setOf _ hnd, par_cons, par_app, walk_boundary g _ _ _ w1 x, walk_boundary g _ _ _ w2 x]
    unfold Graph.inc
    rw [BEq.comm (a := g.src c.edge), BEq.comm (a := g.tgt c.edge)]
    cases (x == g.src c.edge) <;> cases (x == g.tgt c.edge) <;> cases (x == t.source) <;> rfl
  · rw [mem_setOf]; exact List.mem_cons_self
  · rw [wt_setOf g _ hnd, wt_cons, wt_app, k1, k2, hw]; omega

theorem parity_label (g : Graph) (hs : g.simpleB = true) (hp : g.positiveB = true) (t : SPTree) (i : Nat)
    (hc : checkSPT g t = true) (hf : checkFirst g t = true)
    (c : Cand) (hmem : c ∈ createCandidates g t i (List.range g.m)) (S : List Nat) (hS : StrictSorted S)
    (Z : List Nat) (hZ : unfoldCand g t c = some Z) :
    candOdd g t S c = dotPar Z S := by
  obtain ⟨dv, du, he, hnd, _⟩ := cand_core g hs hp t i hc hf c hmem
  unfold unfoldCand at hZ
  simp only at hZ
  rw [eraseDups_of_nodup _ hnd, if_pos rfl] at hZ
  cases hZ
  rw [dotPar_eq_par _ _ (setOf_sorted _) hS, par_setOf _ hnd, par_cons, par_app]
  unfold candOdd treeParity
  have hfun : (fun e => S.contains e) = (fun e => decide (e ∈ S)) := by
    funext e; simp
  rw [hfun, List.contains_eq_mem]
  cases decide (c.edge ∈ S) <;> cases par (rootPath g t g.n (g.src c.edge)) (fun e => decide (e ∈ S)) <;>
    cases par (rootPath g t g.n (g.tgt c.edge)) (fun e => decide (e ∈ S)) <;> rfl

end Parmcb.TreesL
