import Parmcb.Props.C06
import Parmcb.Props.C02b
/-!
The (2k−1) guarantee of the approximate algorithms (Kavitha–Mehlhorn–Michail).  Core Lean only.

Part A (`kmm_bound`), in the coordinates of the caller's graph `g`: `R`/`D` retained / dropped edges of the spanner
construction, `Bs` a family of elements of the cycle space inside `R` that is no heavier than any family spanning the
cycle space of the retained subgraph, one SHORTEST spanner path per dropped edge.  Then the emitted family weighs at
most `(2k-1)` times ANY basis of `g`.

Part B (`spanner_transfer`): what an exact run on the spanner graph (a graph of its own, edge `i` = `R[i]`) gives in
the coordinates of `g`.
-/
namespace Parmcb.KmmL
open Parmcb Parmcb.C01 Parmcb.C02 Parmcb.Spanner

/-! ### sums -/

theorem sum_perm {l l' : List Int} (h : l.Perm l') : l.sum = l'.sum := by
  induction h with
  | nil => rfl
  | cons x _ ih => simp only [List.sum_cons, ih]
  | swap x y l => simp only [List.sum_cons]; omega
  | trans _ _ ih1 ih2 => exact ih1.trans ih2

theorem sum_erase (w : Nat → Int) (X : List Nat) (a : Nat) (ha : a ∈ X) :
    (X.map w).sum = w a + ((X.erase a).map w).sum := by
  have := sum_perm ((List.perm_cons_erase ha).map w)
  simpa using this

theorem sum_nonneg (w : Nat → Int) : ∀ (X : List Nat), (∀ x ∈ X, 0 ≤ w x) → 0 ≤ (X.map w).sum := by
  intro X
  induction X with
  | nil => intro _; simp
  | cons x X ih =>
    intro hnn
    have := hnn x List.mem_cons_self
    have := ih (fun y hy => hnn y (List.mem_cons_of_mem _ hy))
    simp only [List.map_cons, List.sum_cons]
    omega

/-- a duplicate-free list inside `X` weighs at most `X` (non-negative weights) -/
theorem sum_le_of_subset (w : Nat → Int) : ∀ (A X : List Nat), A.Nodup → (∀ a ∈ A, a ∈ X) →
    (∀ x ∈ X, 0 ≤ w x) → (A.map w).sum ≤ (X.map w).sum := by
  intro A
  induction A with
  | nil => intro X _ _ hnn; simpa using sum_nonneg w X hnn
  | cons a A ih =>
    intro X hnd hsub hnn
    have hnd' := List.nodup_cons.1 hnd
    have haX := hsub a List.mem_cons_self
    rw [sum_erase w X a haX]
    have := ih (X.erase a) hnd'.2
      (fun b hb => (List.mem_erase_of_ne (fun h => hnd'.1 (by rw [← h]; exact hb))).2
        (hsub b (List.mem_cons_of_mem _ hb)))
      (fun x hx => hnn x (List.mem_of_mem_erase hx))
    simp only [List.map_cons, List.sum_cons]
    omega


/-! ### GF(2) identities on canonical lists -/

local macro "sorted_tac" : tactic => `(tactic| repeat' (first | assumption | apply xorMerge_sorted))

local macro "xor_ext" : tactic =>
  `(tactic| (apply StrictSorted.ext (by sorted_tac) (by sorted_tac); intro z;
             simp (disch := sorted_tac) only [mem_xorMerge, ne_eq, eq_iff_iff]; grind))

theorem xor4 (a b c : List Nat) (ha : StrictSorted a) (hb : StrictSorted b) (hc : StrictSorted c) :
    xorMerge (xorMerge a b) (xorMerge a c) = xorMerge b c := by
  xor_ext


/-! ### spans -/

def Span (L : List (List Nat)) (Y : List Nat) : Prop :=
  ∃ mask : List Bool, mask.length = L.length ∧ xorSel L mask = Y

theorem span_nil_eq (Y : List Nat) (h : Span [] Y) : Y = [] := by
  obtain ⟨mask, _, h⟩ := h
  rw [← h]; rfl

theorem span_zero (L : List (List Nat)) : Span L [] :=
  ⟨List.replicate L.length false, by simp, xorSel_all_false L _ (by intro b hb; exact (List.mem_replicate.1 hb).2)⟩

theorem span_cons_of (X : List Nat) {L : List (List Nat)} {Y : List Nat} (h : Span L Y) : Span (X :: L) Y := by
  obtain ⟨mask, hl, h⟩ := h
  exact ⟨false :: mask, by simp [hl], by rw [xorSel_cons]; simpa using h⟩

theorem span_cons_add (X : List Nat) {L : List (List Nat)} {Y : List Nat} (h : Span L Y) :
    Span (X :: L) (xorMerge X Y) := by
  obtain ⟨mask, hl, h⟩ := h
  exact ⟨true :: mask, by simp [hl], by rw [xorSel_cons, h]; rfl⟩

theorem span_cons_cases {X : List Nat} {L : List (List Nat)} {Y : List Nat} (h : Span (X :: L) Y) :
    Span L Y ∨ ∃ Y', Span L Y' ∧ Y = xorMerge X Y' := by
  obtain ⟨mask, hl, h⟩ := h
  cases mask with
  | nil => simp at hl
  | cons b bs =>
    simp only [List.length_cons, Nat.add_right_cancel_iff] at hl
    rw [xorSel_cons] at h
    cases b with
    | false => exact Or.inl ⟨bs, hl, by simpa using h⟩
    | true => exact Or.inr ⟨_, ⟨bs, hl, rfl⟩, by simpa using h.symm⟩

theorem span_sorted {L : List (List Nat)} {Y : List Nat} (hL : ∀ X ∈ L, StrictSorted X) (h : Span L Y) :
    StrictSorted Y := by
  obtain ⟨mask, _, h⟩ := h
  rw [← h]; exact xorSel_sorted L mask hL

theorem span_add : ∀ (L : List (List Nat)), (∀ X ∈ L, StrictSorted X) → ∀ Y Y', Span L Y → Span L Y' →
    Span L (xorMerge Y Y') := by
  intro L
  induction L with
  | nil =>
    intro _ Y Y' h h'
    rw [span_nil_eq Y h, span_nil_eq Y' h', xorMerge_nil_left]; exact span_zero []
  | cons X L ih =>
    intro hL Y Y' h h'
    have hX := hL X List.mem_cons_self
    have hL' : ∀ X ∈ L, StrictSorted X := fun X hX => hL X (List.mem_cons_of_mem _ hX)
    rcases span_cons_cases h with h1 | ⟨Z, h1, rfl⟩ <;> rcases span_cons_cases h' with h2 | ⟨Z', h2, rfl⟩
    · exact span_cons_of X (ih hL' _ _ h1 h2)
    · have hY := span_sorted hL' h1
      have hZ' := span_sorted hL' h2
      have : xorMerge Y (xorMerge X Z') = xorMerge X (xorMerge Y Z') := by xor_ext
      rw [this]; exact span_cons_add X (ih hL' _ _ h1 h2)
    · have hZ := span_sorted hL' h1
      have hY' := span_sorted hL' h2
      have : xorMerge (xorMerge X Z) Y' = xorMerge X (xorMerge Z Y') := by xor_ext
      rw [this]; exact span_cons_add X (ih hL' _ _ h1 h2)
    · have hZ := span_sorted hL' h1
      have hZ' := span_sorted hL' h2
      have : xorMerge (xorMerge X Z) (xorMerge X Z') = xorMerge Z Z' := by xor_ext
      rw [this]; exact span_cons_of X (ih hL' _ _ h1 h2)

/-- an additive map sends a selection to the same selection of the images -/
theorem xorSel_map (h : List Nat → List Nat) (h0 : h [] = [])
    (hadd : ∀ X Y, StrictSorted X → StrictSorted Y → h (xorMerge X Y) = xorMerge (h X) (h Y)) :
    ∀ (L : List (List Nat)) (mask : List Bool), (∀ X ∈ L, StrictSorted X) →
      xorSel (L.map h) mask = h (xorSel L mask) := by
  intro L
  induction L with
  | nil => intro mask _; simp [xorSel, h0]
  | cons X L ih =>
    intro mask hL
    cases mask with
    | nil => simp [xorSel_nil_right, h0]
    | cons b bs =>
      have hL' : ∀ X ∈ L, StrictSorted X := fun X hX => hL X (List.mem_cons_of_mem _ hX)
      rw [List.map_cons, xorSel_cons, xorSel_cons, ih bs hL']
      cases b with
      | false => rfl
      | true =>
        simp only [if_true]
        rw [hadd _ _ (hL X List.mem_cons_self) (xorSel_sorted L bs hL')]

theorem span_map (h : List Nat → List Nat) (h0 : h [] = [])
    (hadd : ∀ X Y, StrictSorted X → StrictSorted Y → h (xorMerge X Y) = xorMerge (h X) (h Y))
    {L : List (List Nat)} {Y : List Nat} (hL : ∀ X ∈ L, StrictSorted X) (hs : Span L Y) :
    Span (L.map h) (h Y) := by
  obtain ⟨mask, hl, hm⟩ := hs
  exact ⟨mask, by simp [hl], by rw [xorSel_map h h0 hadd L mask hL, hm]⟩

/-- exchange: if `e` lies in a member `C` of the span, some generator containing `e` can be traded for `C` -/
theorem peel (e : Nat) : ∀ (L : List (List Nat)), (∀ X ∈ L, StrictSorted X) → ∀ C, Span L C → e ∈ C →
    ∃ A X A', L = A ++ X :: A' ∧ e ∈ X ∧
      ∀ Y, Span L Y → Span (A ++ A') Y ∨ Span (A ++ A') (xorMerge Y C) := by
  intro L
  induction L with
  | nil => intro _ C h he; rw [span_nil_eq C h] at he; cases he
  | cons X L ih =>
    intro hL C hC he
    have hX := hL X List.mem_cons_self
    have hL' : ∀ X ∈ L, StrictSorted X := fun X hX => hL X (List.mem_cons_of_mem _ hX)
    have sub : ∀ A X0 A', L = A ++ X0 :: A' → ∀ Z ∈ A ++ A', StrictSorted Z := by
      intro A X0 A' hA Z hZ
      apply hL'; rw [hA]
      rcases List.mem_append.1 hZ with h | h
      · exact List.mem_append_left _ h
      · exact List.mem_append_right _ (List.mem_cons_of_mem _ h)
    rcases span_cons_cases hC with hC | ⟨C', hC', rfl⟩
    · obtain ⟨A, X0, A', hA, heX, hsp⟩ := ih hL' C hC he
      have hCs := span_sorted hL' hC
      have hsub := sub A X0 A' hA
      refine ⟨X :: A, X0, A', by rw [hA]; rfl, heX, ?_⟩
      intro Y hY
      rw [List.cons_append]
      rcases span_cons_cases hY with hY | ⟨Y', hY', rfl⟩
      · rcases hsp Y hY with h | h
        · exact Or.inl (span_cons_of X h)
        · exact Or.inr (span_cons_of X h)
      · rcases hsp Y' hY' with h | h
        · exact Or.inl (span_cons_add X h)
        · right
          have hY's := span_sorted hL' hY'
          have : xorMerge (xorMerge X Y') C = xorMerge X (xorMerge Y' C) := by xor_ext
          rw [this]; exact span_cons_add X h
    · have hC's := span_sorted hL' hC'
      by_cases heX : e ∈ X
      · refine ⟨[], X, L, rfl, heX, ?_⟩
        intro Y hY
        rw [List.nil_append]
        rcases span_cons_cases hY with hY | ⟨Y', hY', rfl⟩
        · exact Or.inl hY
        · right
          have hY's := span_sorted hL' hY'
          have : xorMerge (xorMerge X Y') (xorMerge X C') = xorMerge Y' C' := by xor_ext
          rw [this]; exact span_add L hL' _ _ hY' hC'
      · have he' : e ∈ C' := by
          rw [mem_xorMerge _ _ hX hC's] at he
          simp only [heX, ne_eq, eq_iff_iff, false_iff, Decidable.not_not] at he
          exact he
        obtain ⟨A, X0, A', hA, heX0, hsp⟩ := ih hL' C' hC' he'
        have hsub := sub A X0 A' hA
        refine ⟨X :: A, X0, A', by rw [hA]; rfl, heX0, ?_⟩
        intro Y hY
        rw [List.cons_append]
        rcases span_cons_cases hY with hY | ⟨Y', hY', rfl⟩
        · have hYs := span_sorted hL' hY
          rcases hsp Y hY with h | h
          · exact Or.inl (span_cons_of X h)
          · right
            have : xorMerge Y (xorMerge X C') = xorMerge X (xorMerge Y C') := by xor_ext
            rw [this]; exact span_cons_add X h
        · have hY's := span_sorted hL' hY'
          rcases hsp Y' hY' with h | h
          · exact Or.inl (span_cons_add X h)
          · right
            have : xorMerge (xorMerge X Y') (xorMerge X C') = xorMerge Y' C' := by xor_ext
            rw [this]; exact span_cons_of X h


/-! ### the projection along the edge cycles -/

def proj1 (c : Nat → List Nat) (e : Nat) (X : List Nat) : List Nat := if e ∈ X then xorMerge X (c e) else X

def proj (c : Nat → List Nat) : List Nat → List Nat → List Nat
  | [], X => X
  | e :: J, X => proj1 c e (proj c J X)

structure Good (D : List Nat) (c : Nat → List Nat) : Prop where
  sorted : ∀ e ∈ D, StrictSorted (c e)
  self : ∀ e ∈ D, e ∈ c e
  priv : ∀ e ∈ D, ∀ f ∈ c e, f ∈ D → f = e

theorem proj1_sorted {c : Nat → List Nat} {e : Nat} {X : List Nat} (hc : StrictSorted (c e))
    (hX : StrictSorted X) : StrictSorted (proj1 c e X) := by
  unfold proj1; split
  · exact xorMerge_sorted _ _ hX hc
  · exact hX

theorem proj_sorted {c : Nat → List Nat} : ∀ (J : List Nat) (X : List Nat), (∀ e ∈ J, StrictSorted (c e)) →
    StrictSorted X → StrictSorted (proj c J X) := by
  intro J
  induction J with
  | nil => intro X _ hX; exact hX
  | cons e J ih =>
    intro X hJ hX
    exact proj1_sorted (hJ e List.mem_cons_self) (ih X (fun f hf => hJ f (List.mem_cons_of_mem _ hf)) hX)

theorem proj1_add {c : Nat → List Nat} {e : Nat} {X Y : List Nat} (hc : StrictSorted (c e))
    (hX : StrictSorted X) (hY : StrictSorted Y) :
    proj1 c e (xorMerge X Y) = xorMerge (proj1 c e X) (proj1 c e Y) := by
  have hm := mem_xorMerge _ _ hX hY e
  unfold proj1
  by_cases h1 : e ∈ X <;> by_cases h2 : e ∈ Y
  · have h3 : e ∉ xorMerge X Y := by rw [hm]; simp [h1, h2]
    rw [if_neg h3, if_pos h1, if_pos h2]; xor_ext
  · have h3 : e ∈ xorMerge X Y := by rw [hm]; simp [h1, h2]
    rw [if_pos h3, if_pos h1, if_neg h2]; xor_ext
  · have h3 : e ∈ xorMerge X Y := by rw [hm]; simp [h1, h2]
    rw [if_pos h3, if_neg h1, if_pos h2]; xor_ext
  · have h3 : e ∉ xorMerge X Y := by rw [hm]; simp [h1, h2]
    rw [if_neg h3, if_neg h1, if_neg h2]

theorem proj_add {c : Nat → List Nat} : ∀ (J : List Nat) (X Y : List Nat), (∀ e ∈ J, StrictSorted (c e)) →
    StrictSorted X → StrictSorted Y → proj c J (xorMerge X Y) = xorMerge (proj c J X) (proj c J Y) := by
  intro J
  induction J with
  | nil => intro X Y _ _ _; rfl
  | cons e J ih =>
    intro X Y hJ hX hY
    have hJ' : ∀ f ∈ J, StrictSorted (c f) := fun f hf => hJ f (List.mem_cons_of_mem _ hf)
    show proj1 c e (proj c J (xorMerge X Y)) = xorMerge (proj1 c e (proj c J X)) (proj1 c e (proj c J Y))
    rw [ih X Y hJ' hX hY, proj1_add (hJ e List.mem_cons_self) (proj_sorted J X hJ' hX) (proj_sorted J Y hJ' hY)]

theorem proj1_nil (c : Nat → List Nat) (e : Nat) : proj1 c e [] = [] := by simp [proj1]

theorem proj_nil (c : Nat → List Nat) : ∀ J : List Nat, proj c J [] = [] := by
  intro J
  induction J with
  | nil => rfl
  | cons e J ih => show proj1 c e (proj c J []) = []; rw [ih, proj1_nil]

theorem proj1_even {g : Graph} {c : Nat → List Nat} {e : Nat} {X : List Nat} (hc : EvenSet g (c e))
    (hX : EvenSet g X) : EvenSet g (proj1 c e X) := by
  unfold proj1; split
  · exact hX.add hc
  · exact hX

theorem proj_even {g : Graph} {c : Nat → List Nat} : ∀ (J : List Nat) (X : List Nat), (∀ e ∈ J, EvenSet g (c e)) →
    EvenSet g X → EvenSet g (proj c J X) := by
  intro J
  induction J with
  | nil => intro X _ hX; exact hX
  | cons e J ih =>
    intro X hJ hX
    exact proj1_even (hJ e List.mem_cons_self) (ih X (fun f hf => hJ f (List.mem_cons_of_mem _ hf)) hX)

theorem mem_proj1_other {c : Nat → List Nat} {e f : Nat} {X : List Nat} (hc : StrictSorted (c e))
    (hX : StrictSorted X) (hf : f ∉ c e) : f ∈ proj1 c e X ↔ f ∈ X := by
  unfold proj1; split
  · rw [mem_xorMerge _ _ hX hc]; simp [hf]
  · exact Iff.rfl

theorem not_mem_proj1 {c : Nat → List Nat} {e : Nat} {X : List Nat} (hc : StrictSorted (c e))
    (hX : StrictSorted X) (he : e ∈ c e) : e ∉ proj1 c e X := by
  unfold proj1; split
  · next h => rw [mem_xorMerge _ _ hX hc]; simp [h, he]
  · next h => exact h

theorem mem_proj_other {D : List Nat} {c : Nat → List Nat} (G : Good D c) {f : Nat} (hf : f ∈ D) :
    ∀ (J : List Nat) (X : List Nat), (∀ e ∈ J, e ∈ D) → f ∉ J → StrictSorted X → (f ∈ proj c J X ↔ f ∈ X) := by
  intro J
  induction J with
  | nil => intro X _ _ _; exact Iff.rfl
  | cons e J ih =>
    intro X hJ hfJ hX
    have hJ' : ∀ f ∈ J, f ∈ D := fun f hf => hJ f (List.mem_cons_of_mem _ hf)
    have heD := hJ e List.mem_cons_self
    have hne : f ≠ e := fun h => hfJ (h ▸ List.mem_cons_self)
    show f ∈ proj1 c e (proj c J X) ↔ f ∈ X
    rw [mem_proj1_other (G.sorted e heD) (proj_sorted J X (fun e he => G.sorted e (hJ' e he)) hX)
      (fun h => hne (G.priv e heD f h hf))]
    exact ih X hJ' (fun h => hfJ (List.mem_cons_of_mem _ h)) hX

theorem proj_avoid {D : List Nat} {c : Nat → List Nat} (G : Good D c) :
    ∀ (J : List Nat) (X : List Nat), (∀ e ∈ J, e ∈ D) → StrictSorted X → ∀ f ∈ J, f ∉ proj c J X := by
  intro J
  induction J with
  | nil => intro X _ _ f hf; cases hf
  | cons e J ih =>
    intro X hJ hX f hf
    have hJ' : ∀ f ∈ J, f ∈ D := fun f hf => hJ f (List.mem_cons_of_mem _ hf)
    have heD := hJ e List.mem_cons_self
    have hs := proj_sorted J X (fun e he => G.sorted e (hJ' e he)) hX
    show f ∉ proj1 c e (proj c J X)
    by_cases hfe : f = e
    · subst hfe; exact not_mem_proj1 (G.sorted f heD) hs (G.self f heD)
    · have hfJ : f ∈ J := by
        rcases List.mem_cons.1 hf with h | h
        · exact absurd h hfe
        · exact h
      rw [mem_proj1_other (G.sorted e heD) hs (fun h => hfe (G.priv e heD f h (hJ' f hfJ)))]
      exact ih X hJ' hX f hfJ

theorem proj_fix (c : Nat → List Nat) : ∀ (J : List Nat) (X : List Nat), (∀ e ∈ J, e ∉ X) → proj c J X = X := by
  intro J
  induction J with
  | nil => intro X _; rfl
  | cons e J ih =>
    intro X h
    show proj1 c e (proj c J X) = X
    rw [ih X (fun f hf => h f (List.mem_cons_of_mem _ hf))]
    unfold proj1; rw [if_neg (h e List.mem_cons_self)]

theorem proj1_kill (c : Nat → List Nat) (e : Nat) (he : e ∈ c e) : proj1 c e (c e) = [] := by
  unfold proj1; rw [if_pos he, xorMerge_self]


/-! ### peeling the dropped edges off a basis -/

theorem totalWeight_append (g : Graph) (A B : List (List Nat)) :
    totalWeight g (A ++ B) = totalWeight g A + totalWeight g B := by
  simp [totalWeight, List.map_append, List.sum_append]

theorem totalWeight_cons (g : Graph) (X : List Nat) (B : List (List Nat)) :
    totalWeight g (X :: B) = wt g X + totalWeight g B := by
  simp [totalWeight]

theorem partition (g : Graph) (T : Int) (D : List Nat) (c : Nat → List Nat) (G : Good D c)
    (hce : ∀ e ∈ D, EvenSet g (c e))
    (h3 : ∀ e ∈ D, ∀ Z, EvenSet g Z → e ∈ Z → wt g (c e) ≤ T * wt g Z)
    (B : List (List Nat)) (hBe : ∀ X ∈ B, EvenSet g X) (hBs : ∀ Z, EvenSet g Z → Span B Z) :
    ∀ J : List Nat, J.Nodup → (∀ e ∈ J, e ∈ D) →
      ∃ Rs : List (List Nat), (∀ r ∈ Rs, EvenSet g r) ∧
        (∀ Y, EvenSet g Y → (∀ e ∈ J, e ∉ Y) → Span (Rs.map (proj c J)) Y) ∧
        T * totalWeight g Rs + ((J.map c).map (wt g)).sum ≤ T * totalWeight g B := by
  intro J
  induction J with
  | nil =>
    intro _ _
    refine ⟨B, hBe, ?_, by simp⟩
    intro Y hY _
    have : B.map (proj c []) = B := by
      show B.map (fun X => X) = B
      simp
    rw [this]; exact hBs Y hY
  | cons e J ih =>
    intro hnd hJ
    have hnd' := List.nodup_cons.1 hnd
    have hJ' : ∀ f ∈ J, f ∈ D := fun f hf => hJ f (List.mem_cons_of_mem _ hf)
    have heD := hJ e List.mem_cons_self
    have hJs : ∀ f ∈ J, StrictSorted (c f) := fun f hf => G.sorted f (hJ' f hf)
    obtain ⟨Rs, hRe, hRs, hRw⟩ := ih hnd'.2 hJ'
    -- the edge cycle of `e` avoids `J`
    have hCJ : ∀ f ∈ J, f ∉ c e := by
      intro f hf hfc
      have := G.priv e heD f hfc (hJ' f hf)
      exact hnd'.1 (this ▸ hf)
    have hLs : ∀ X ∈ Rs.map (proj c J), StrictSorted X := by
      intro X hX
      obtain ⟨r, hr, rfl⟩ := List.mem_map.1 hX
      exact proj_sorted J r hJs (hRe r hr).1
    obtain ⟨A, X, A', hsplit, heX, hex⟩ := peel e _ hLs (c e) (hRs (c e) (hce e heD) hCJ) (G.self e heD)
    obtain ⟨A0, t0, rfl, hA, ht0⟩ := List.map_eq_append_iff.1 hsplit
    obtain ⟨r0, A0', rfl, hr0, hA'⟩ := List.map_eq_cons_iff.1 ht0
    have hr0R : r0 ∈ A0 ++ r0 :: A0' := List.mem_append_right _ List.mem_cons_self
    have her0 : e ∈ r0 := by
      rw [← hr0] at heX
      exact (mem_proj_other G heD J r0 hJ' hnd'.1 (hRe r0 hr0R).1).1 heX
    have hsubR : ∀ r ∈ A0 ++ A0', r ∈ A0 ++ r0 :: A0' := by
      intro r hr
      rcases List.mem_append.1 hr with h | h
      · exact List.mem_append_left _ h
      · exact List.mem_append_right _ (List.mem_cons_of_mem _ h)
    refine ⟨A0 ++ A0', fun r hr => hRe r (hsubR r hr), ?_, ?_⟩
    · intro Y hY hYJ
      have heY : e ∉ Y := hYJ e List.mem_cons_self
      have hmm : (A0 ++ A0').map (proj c (e :: J)) = ((A0 ++ A0').map (proj c J)).map (proj1 c e) := by
        rw [List.map_map]; rfl
      have hAA : A ++ A' = (A0 ++ A0').map (proj c J) := by rw [List.map_append, hA, hA']
      have hLs' : ∀ X ∈ (A0 ++ A0').map (proj c J), StrictSorted X := by
        intro X hX
        obtain ⟨r, hr, rfl⟩ := List.mem_map.1 hX
        exact proj_sorted J r hJs (hRe r (hsubR r hr)).1
      have hfix : proj1 c e Y = Y := by unfold proj1; rw [if_neg heY]
      rw [hmm]
      rcases hex Y (hRs Y hY (fun f hf => hYJ f (List.mem_cons_of_mem _ hf))) with h | h
      · rw [hAA] at h
        have := span_map (proj1 c e) (proj1_nil c e)
          (fun X Y hX hY => proj1_add (G.sorted e heD) hX hY) hLs' h
        rwa [hfix] at this
      · rw [hAA] at h
        have := span_map (proj1 c e) (proj1_nil c e)
          (fun X Y hX hY => proj1_add (G.sorted e heD) hX hY) hLs' h
        rwa [proj1_add (G.sorted e heD) hY.1 (G.sorted e heD), hfix, proj1_kill c e (G.self e heD),
          xorMerge_nil_right] at this
    · have hw := h3 e heD r0 (hRe r0 hr0R) her0
      rw [totalWeight_append, totalWeight_cons] at hRw
      rw [totalWeight_append]
      simp only [List.map_cons, List.sum_cons]
      rw [Int.mul_add] at hRw ⊢
      rw [Int.mul_add] at hRw
      omega


/-! ### walks -/

theorem isWalk_append (g : Graph) : ∀ (es es' : List Nat) (a b c : Nat), isWalk g es a b = true →
    isWalk g es' b c = true → isWalk g (es ++ es') a c = true := by
  intro es
  induction es with
  | nil =>
    intro es' a b c h h'
    rw [isWalk_nil] at h; subst h; exact h'
  | cons x r ih =>
    intro es' a b c h h'
    rw [isWalk_cons] at h
    obtain ⟨d, h1, h2⟩ := h
    rw [List.cons_append, isWalk_cons]
    exact ⟨d, h1, ih es' d b c h2 h'⟩

theorem isWalk_reverse (g : Graph) : ∀ (es : List Nat) (a b : Nat), isWalk g es a b = true →
    isWalk g es.reverse b a = true := by
  intro es
  induction es with
  | nil =>
    intro a b h
    rw [isWalk_nil] at h; subst h
    exact (isWalk_nil g a a).2 rfl
  | cons x r ih =>
    intro a b h
    rw [isWalk_cons] at h
    obtain ⟨d, h1, h2⟩ := h
    rw [List.reverse_cons]
    exact isWalk_snoc g _ x b d a (ih d b h2) h1.symm

/-- `walk_extract` with a duplicate-free result -/
theorem walk_extract_nd (g : Graph) : ∀ (n : Nat) (Z : List Nat) (a b : Nat), Z.length = n → Z.Nodup → a ≠ b →
    (∀ x, par Z (g.inc x) = xor (x == a) (x == b)) →
    ∃ es, es.Nodup ∧ (∀ e ∈ es, e ∈ Z) ∧ isWalk g es a b = true := by
  intro n
  induction n with
  | zero =>
    intro Z a b hl _ hab hpar
    have : Z = [] := List.eq_nil_of_length_eq_zero hl
    subst this
    have := hpar a
    simp [par_nil, hab] at this
  | succ n ih =>
    intro Z a b hl hnd hab hpar
    have hpa : par Z (g.inc a) = true := by
      rw [hpar a]; simp [hab]
    have hex : ∃ f ∈ Z, g.inc a f = true := by
      apply Classical.byContradiction
      intro hno
      have : par Z (g.inc a) = false := by
        apply par_all_false
        intro e he
        cases hh : g.inc a e with
        | false => rfl
        | true => exact absurd ⟨e, he, hh⟩ hno
      rw [this] at hpa; cases hpa
    obtain ⟨f, hfZ, hfa⟩ := hex
    have hj : ∃ a', Jn g f a a' ∧ a' ≠ a := by
      unfold Graph.inc at hfa
      by_cases h1 : g.src f = a
      · refine ⟨g.tgt f, Or.inl ⟨h1, rfl⟩, ?_⟩
        intro h2
        rw [beq_iff_eq.2 h1, beq_iff_eq.2 h2] at hfa; cases hfa
      · by_cases h2 : g.tgt f = a
        · exact ⟨g.src f, Or.inr ⟨h2, rfl⟩, h1⟩
        · rw [beq_eq_false_iff_ne.2 h1, beq_eq_false_iff_ne.2 h2] at hfa; cases hfa
    obtain ⟨a', hj, ha'⟩ := hj
    have hperm := List.perm_cons_erase hfZ
    have hnd' : (Z.erase f).Nodup := hnd.erase f
    have hlen : (Z.erase f).length = n := by rw [List.length_erase_of_mem hfZ, hl]; rfl
    have hpar' : ∀ x, par (Z.erase f) (g.inc x) = xor (x == a') (x == b) := by
      intro x
      have h1 := par_perm hperm (g.inc x)
      rw [par_cons, hpar x, inc_of_jn g f a a' x hj] at h1
      revert h1
      cases (x == a) <;> cases (x == a') <;> cases (x == b) <;> cases par (Z.erase f) (g.inc x) <;> simp
    by_cases hab' : a' = b
    · subst hab'
      refine ⟨[f], by simp, ?_, ?_⟩
      · intro e he; rw [List.mem_singleton] at he; subst he; exact hfZ
      · rw [isWalk_cons]; exact ⟨a', hj, (isWalk_nil g _ _).2 rfl⟩
    · obtain ⟨es, h1, h2, h3⟩ := ih (Z.erase f) a' b hlen hnd' hab' hpar'
      refine ⟨f :: es, ?_, ?_, ?_⟩
      · rw [List.nodup_cons]
        exact ⟨fun h => (hnd.mem_erase_iff.1 (h2 f h)).1 rfl, h1⟩
      · intro e he
        rcases List.mem_cons.1 he with h | h
        · subst h; exact hfZ
        · exact List.mem_of_mem_erase (h2 e h)
      · rw [isWalk_cons]; exact ⟨a', hj, h3⟩

theorem listWeight_append (g : Graph) (a b : List Nat) :
    C05.listWeight g (a ++ b) = C05.listWeight g a + C05.listWeight g b := by
  simp [C05.listWeight, List.map_append, List.sum_append]

theorem listWeight_cons (g : Graph) (x : Nat) (b : List Nat) :
    C05.listWeight g (x :: b) = g.weight x + C05.listWeight g b := by
  simp [C05.listWeight]

theorem listWeight_reverse (g : Graph) (a : List Nat) : C05.listWeight g a.reverse = C05.listWeight g a := by
  unfold C05.listWeight
  exact sum_perm ((List.reverse_perm a).map g.weight)

/-- replace every edge of a walk by a detour of weight at most `T` times its own -/
theorem walk_replace (g : Graph) (T : Int) (hT : 1 ≤ T) (InR : Nat → Prop) :
    ∀ (es : List Nat) (a b : Nat),
      (∀ f ∈ es, 0 ≤ g.weight f ∧ (InR f ∨ ∃ q : List Nat, (∀ x ∈ q, InR x) ∧
        isWalk g q (g.src f) (g.tgt f) = true ∧ C05.listWeight g q ≤ T * g.weight f)) →
      isWalk g es a b = true →
      ∃ es' : List Nat, (∀ x ∈ es', InR x) ∧ isWalk g es' a b = true ∧
        C05.listWeight g es' ≤ T * C05.listWeight g es := by
  intro es
  induction es with
  | nil =>
    intro a b _ h
    exact ⟨[], by simp, h, by simp [C05.listWeight]⟩
  | cons f r ih =>
    intro a b hdet h
    rw [isWalk_cons] at h
    obtain ⟨d, h1, h2⟩ := h
    obtain ⟨r', hr1, hr2, hr3⟩ := ih d b (fun x hx => hdet x (List.mem_cons_of_mem _ hx)) h2
    obtain ⟨hw, hf⟩ := hdet f List.mem_cons_self
    rw [listWeight_cons, Int.mul_add]
    rcases hf with hf | ⟨q, hq1, hq2, hq3⟩
    · refine ⟨f :: r', ?_, ?_, ?_⟩
      · intro x hx
        rcases List.mem_cons.1 hx with h | h
        · subst h; exact hf
        · exact hr1 x h
      · rw [isWalk_cons]; exact ⟨d, h1, hr2⟩
      · rw [listWeight_cons]
        have : g.weight f ≤ T * g.weight f := by
          have := Int.mul_le_mul_of_nonneg_right hT hw
          omega
        omega
    · have hqw : ∃ q' : List Nat, (∀ x ∈ q', InR x) ∧ isWalk g q' a d = true ∧
          C05.listWeight g q' ≤ T * g.weight f := by
        rcases h1 with ⟨e1, e2⟩ | ⟨e1, e2⟩
        · subst e1; subst e2; exact ⟨q, hq1, hq2, hq3⟩
        · subst e1; subst e2
          refine ⟨q.reverse, fun x hx => hq1 x (List.mem_reverse.1 hx), isWalk_reverse g q _ _ hq2, ?_⟩
          rw [listWeight_reverse]; exact hq3
      obtain ⟨q', hq'1, hq'2, hq'3⟩ := hqw
      refine ⟨q' ++ r', ?_, isWalk_append g q' r' a d b hq'2 hr2, ?_⟩
      · intro x hx
        rcases List.mem_append.1 hx with h | h
        · exact hq'1 x h
        · exact hr1 x h
      · rw [listWeight_append]; omega


/-! ### the edge cycles of the dropped edges -/

/-- the path chosen for a dropped edge -/
def pathOf : List (List Nat) → List Nat → Nat → List Nat
  | p :: ps, d :: ds, e => if d = e then p else pathOf ps ds e
  | _, _, _ => []

theorem pathOf_spec : ∀ (paths : List (List Nat)) (D : List Nat), paths.length = D.length → ∀ e ∈ D,
    ∃ i : Nat, paths[i]? = some (pathOf paths D e) ∧ D[i]? = some e := by
  intro paths
  induction paths with
  | nil =>
    intro D hl e he
    have : D = [] := List.eq_nil_of_length_eq_zero hl.symm
    subst this; cases he
  | cons p ps ih =>
    intro D hl e he
    cases D with
    | nil => cases he
    | cons d ds =>
      by_cases hde : d = e
      · exact ⟨0, by simp [pathOf, hde], by simp [hde]⟩
      · have he' : e ∈ ds := by
          rcases List.mem_cons.1 he with h | h
          · exact absurd h.symm hde
          · exact h
        obtain ⟨i, h1, h2⟩ := ih ds (by simpa using hl) e he'
        exact ⟨i + 1, by simpa [pathOf, hde] using h1, by simpa using h2⟩

theorem zip_map_pathOf {α : Type} (F : List Nat → Nat → α) : ∀ (paths : List (List Nat)) (D : List Nat),
    paths.length = D.length → D.Nodup →
    (paths.zip D).map (fun pe => F pe.1 pe.2) = D.map (fun e => F (pathOf paths D e) e) := by
  intro paths
  induction paths with
  | nil =>
    intro D hl _
    have : D = [] := List.eq_nil_of_length_eq_zero hl.symm
    subst this; rfl
  | cons p ps ih =>
    intro D hl hnd
    cases D with
    | nil => simp at hl
    | cons d ds =>
      have hnd' := List.nodup_cons.1 hnd
      rw [List.zip_cons_cons, List.map_cons, List.map_cons, ih ds (by simpa using hl) hnd'.2]
      congr 1
      · simp [pathOf]
      · apply List.map_congr_left
        intro e he
        have : d ≠ e := fun h => hnd'.1 (h ▸ he)
        simp [pathOf, this]

def cyc (paths : List (List Nat)) (D : List Nat) (e : Nat) : List Nat := setOf (pathOf paths D e ++ [e])

theorem cyc_mem {paths : List (List Nat)} {D : List Nat} {e z : Nat} (hz : z ∈ cyc paths D e) :
    z = e ∨ z ∈ pathOf paths D e := by
  unfold cyc at hz
  rw [mem_setOf] at hz
  rcases List.mem_append.1 hz with h | h
  · exact Or.inr h
  · exact Or.inl (by simpa using h)

structure Ctx (g : Graph) (T : Int) (R D : List Nat) (paths : List (List Nat)) : Prop where
  hs : g.simpleB = true
  hp : g.positiveB = true
  hT : 1 ≤ T
  part : (R ++ D).Perm (List.range g.m)
  plen : paths.length = D.length
  pwalk : ∀ (i : Nat) p e, paths[i]? = some p → D[i]? = some e →
    p.Nodup ∧ (∀ f ∈ p, f ∈ R) ∧ isWalk g p (g.src e) (g.tgt e) = true
  pshort : ∀ (i : Nat) p e, paths[i]? = some p → D[i]? = some e →
    ∀ es : List Nat, (∀ f ∈ es, f ∈ R) → isWalk g es (g.src e) (g.tgt e) = true →
      C05.listWeight g p ≤ C05.listWeight g es
  stretch : ∀ e ∈ D, ∃ q : List Nat, (∀ x ∈ q, x ∈ R) ∧ isWalk g q (g.src e) (g.tgt e) = true ∧
    C05.listWeight g q ≤ T * g.weight e

namespace Ctx
variable {g : Graph} {T : Int} {R D : List Nat} {paths : List (List Nat)} (X : Ctx g T R D paths)
include X

theorem nodupRD : (R ++ D).Nodup := X.part.nodup_iff.2 List.nodup_range

theorem nodupD : D.Nodup := (List.nodup_append.1 X.nodupRD).2.1

theorem disj {e : Nat} (h1 : e ∈ R) (h2 : e ∈ D) : False :=
  (List.nodup_append.1 X.nodupRD).2.2 e h1 e h2 rfl

theorem ltR {e : Nat} (h : e ∈ R) : e < g.m := List.mem_range.1 (X.part.mem_iff.1 (List.mem_append_left _ h))

theorem ltD {e : Nat} (h : e ∈ D) : e < g.m := List.mem_range.1 (X.part.mem_iff.1 (List.mem_append_right _ h))

theorem cover {e : Nat} (h : e < g.m) : e ∈ R ∨ e ∈ D := List.mem_append.1 (X.part.mem_iff.2 (List.mem_range.2 h))

theorem wpos {e : Nat} (h : e < g.m) : 0 < g.weight e := positiveB_facts g X.hp e h

theorem path_facts {e : Nat} (he : e ∈ D) :
    (pathOf paths D e).Nodup ∧ (∀ f ∈ pathOf paths D e, f ∈ R) ∧
    isWalk g (pathOf paths D e) (g.src e) (g.tgt e) = true ∧
    ∀ es : List Nat, (∀ f ∈ es, f ∈ R) → isWalk g es (g.src e) (g.tgt e) = true →
      C05.listWeight g (pathOf paths D e) ≤ C05.listWeight g es := by
  obtain ⟨i, h1, h2⟩ := pathOf_spec paths D X.plen e he
  obtain ⟨a, b, c⟩ := X.pwalk i _ e h1 h2
  exact ⟨a, b, c, X.pshort i _ e h1 h2⟩

theorem path_weight {e : Nat} (he : e ∈ D) : C05.listWeight g (pathOf paths D e) ≤ T * g.weight e := by
  obtain ⟨q, h1, h2, h3⟩ := X.stretch e he
  have := (X.path_facts he).2.2.2 q h1 h2
  omega

theorem cyc_good : Good D (cyc paths D) where
  sorted := fun e _ => setOf_sorted _
  self := fun e _ => by unfold cyc; rw [mem_setOf]; simp
  priv := by
    intro e he f hf hfD
    unfold cyc at hf
    rw [mem_setOf] at hf
    rcases List.mem_append.1 hf with h | h
    · exact (X.disj ((X.path_facts he).2.1 f h) hfD).elim
    · simpa using h

theorem cyc_even {e : Nat} (he : e ∈ D) : EvenSet g (cyc paths D e) := by
  obtain ⟨a, b, c, _⟩ := X.path_facts he
  exact edgeCycle_even g _ e a (fun h => X.disj (b e h) he) (fun f hf => X.ltR (b f hf)) (X.ltD he) c

theorem wt_cyc_le {e : Nat} (he : e ∈ D) :
    wt g (cyc paths D e) ≤ g.weight e + C05.listWeight g (pathOf paths D e) := by
  have hpf := X.path_facts he
  have := sum_le_of_subset g.weight (cyc paths D e) (e :: pathOf paths D e) (setOf_sorted _).nodup
    (fun z hz => by
      rcases cyc_mem hz with h | h
      · exact h ▸ List.mem_cons_self
      · exact List.mem_cons_of_mem _ h)
    (fun z hz => by
      rcases List.mem_cons.1 hz with h | h
      · exact Int.le_of_lt (X.wpos (h ▸ X.ltD he))
      · exact Int.le_of_lt (X.wpos (X.ltR (hpf.2.1 z h))))
  simpa [wt, C05.listWeight] using this

/-- adding the edge cycle of `e` to a set through `e` -/
theorem xor_cyc_weight {e : Nat} (he : e ∈ D) (Y : List Nat) (hY : StrictSorted Y) (hlt : ∀ f ∈ Y, f < g.m)
    (heY : e ∈ Y) : wt g (xorMerge Y (cyc paths D e)) ≤ wt g Y + (T - 1) * g.weight e := by
  have hpf := X.path_facts he
  have hG := X.cyc_good
  have hcs := hG.sorted e he
  have h1 := sum_le_of_subset g.weight (xorMerge Y (cyc paths D e)) (Y.erase e ++ pathOf paths D e)
    (xorMerge_sorted _ _ hY hcs).nodup
    (fun z hz => by
      rw [mem_xorMerge _ _ hY hcs] at hz
      by_cases hze : z = e
      · subst hze; simp [heY, hG.self z he] at hz
      · by_cases hzY : z ∈ Y
        · exact List.mem_append_left _ ((List.mem_erase_of_ne hze).2 hzY)
        · have hzc : z ∈ cyc paths D e := by simpa [hzY] using hz
          rcases cyc_mem hzc with h | h
          · exact absurd h hze
          · exact List.mem_append_right _ h)
    (fun z hz => by
      rcases List.mem_append.1 hz with h | h
      · exact Int.le_of_lt (X.wpos (hlt z (List.mem_of_mem_erase h)))
      · exact Int.le_of_lt (X.wpos (X.ltR (hpf.2.1 z h))))
  have h2 := sum_erase g.weight Y e heY
  have h3 := X.path_weight he
  simp only [List.map_append, List.sum_append] at h1
  unfold C05.listWeight at h3
  unfold wt
  rw [Int.sub_mul]
  omega

/-- the edge cycle of a dropped edge against ANY cycle through that edge -/
theorem cyc_le_cycle {e : Nat} (he : e ∈ D) (Z : List Nat) (hZ : EvenSet g Z) (heZ : e ∈ Z) :
    wt g (cyc paths D e) ≤ T * wt g Z := by
  have hem := X.ltD he
  have hne := (simpleB_facts g X.hs e hem).2.2
  have hnd : (Z.erase e).Nodup := hZ.1.nodup.erase e
  have hpar : ∀ x, par (Z.erase e) (g.inc x) = xor (x == g.src e) (x == g.tgt e) := by
    intro x
    have h1 := par_perm (List.perm_cons_erase heZ) (g.inc x)
    rw [par_cons, hZ.2.2 x, inc_of_jn g e (g.src e) (g.tgt e) x (Or.inl ⟨rfl, rfl⟩)] at h1
    revert h1
    cases (x == g.src e) <;> cases (x == g.tgt e) <;> cases par (Z.erase e) (g.inc x) <;> simp
  obtain ⟨es, hes1, hes2, hes3⟩ := walk_extract_nd g _ (Z.erase e) _ _ rfl hnd hne hpar
  have hltZ : ∀ f ∈ Z.erase e, f < g.m := fun f hf => hZ.2.1 f (List.mem_of_mem_erase hf)
  obtain ⟨es', h1, h2, h3⟩ := walk_replace g T X.hT (fun f => f ∈ R) es _ _
    (fun f hf => by
      have hfm := hltZ f (hes2 f hf)
      refine ⟨Int.le_of_lt (X.wpos hfm), ?_⟩
      rcases X.cover hfm with h | h
      · exact Or.inl h
      · exact Or.inr (X.stretch f h)) hes3
  have h4 := (X.path_facts he).2.2.2 es' h1 h2
  have h5 := sum_le_of_subset g.weight es (Z.erase e) hes1 hes2
    (fun z hz => Int.le_of_lt (X.wpos (hltZ z hz)))
  have h6 := sum_erase g.weight Z e heZ
  have h7 := X.wt_cyc_le he
  have hT0 : 0 ≤ T := by have := X.hT; omega
  have h8 : T * C05.listWeight g es ≤ T * (wt g Z - g.weight e) := by
    apply Int.mul_le_mul_of_nonneg_left _ hT0
    unfold C05.listWeight wt; omega
  have h9 : g.weight e ≤ T * g.weight e := by
    have := Int.mul_le_mul_of_nonneg_right X.hT (Int.le_of_lt (X.wpos hem))
    omega
  rw [Int.mul_sub] at h8
  omega

theorem proj_weight : ∀ J : List Nat, J.Nodup → (∀ e ∈ J, e ∈ D) → ∀ Z, EvenSet g Z →
    wt g (proj (cyc paths D) J Z) ≤
      wt g Z + (T - 1) * ((J.filter (fun z => decide (z ∈ Z))).map g.weight).sum := by
  intro J
  induction J with
  | nil => intro _ _ Z _; simp [proj]
  | cons e J ih =>
    intro hnd hJ Z hZ
    have hnd' := List.nodup_cons.1 hnd
    have hJ' : ∀ f ∈ J, f ∈ D := fun f hf => hJ f (List.mem_cons_of_mem _ hf)
    have heD := hJ e List.mem_cons_self
    have hY := proj_even (g := g) (c := cyc paths D) J Z (fun f hf => X.cyc_even (hJ' f hf)) hZ
    have hiff := mem_proj_other X.cyc_good heD J Z hJ' hnd'.1 hZ.1
    have h1 := ih hnd'.2 hJ' Z hZ
    show wt g (proj1 (cyc paths D) e (proj (cyc paths D) J Z)) ≤ _
    by_cases heZ : e ∈ Z
    · have h2 := X.xor_cyc_weight heD _ hY.1 hY.2.1 (hiff.2 heZ)
      unfold proj1; rw [if_pos (hiff.2 heZ)]
      rw [List.filter_cons_of_pos (by simpa using heZ), List.map_cons, List.sum_cons, Int.mul_add]
      omega
    · unfold proj1; rw [if_neg (fun h => heZ (hiff.1 h))]
      rw [List.filter_cons_of_neg (by simpa using heZ)]
      exact h1

theorem proj_weight_le (Z : List Nat) (hZ : EvenSet g Z) :
    wt g (proj (cyc paths D) D Z) ≤ T * wt g Z := by
  have h1 := X.proj_weight D X.nodupD (fun e he => he) Z hZ
  have h2 := sum_le_of_subset g.weight (D.filter (fun z => decide (z ∈ Z))) Z
    (X.nodupD.sublist List.filter_sublist)
    (fun a ha => by simpa using (List.mem_filter.1 ha).2)
    (fun z hz => Int.le_of_lt (X.wpos (hZ.2.1 z hz)))
  have h3 : (T - 1) * ((D.filter (fun z => decide (z ∈ Z))).map g.weight).sum ≤ (T - 1) * wt g Z :=
    Int.mul_le_mul_of_nonneg_left h2 (by have := X.hT; omega)
  have h4 : (T - 1) * wt g Z = T * wt g Z - wt g Z := by rw [Int.sub_mul, Int.one_mul]
  omega

end Ctx

theorem totalWeight_map_le (g : Graph) (T : Int) (f : List Nat → List Nat) : ∀ (Rs : List (List Nat)),
    (∀ r ∈ Rs, wt g (f r) ≤ T * wt g r) → totalWeight g (Rs.map f) ≤ T * totalWeight g Rs := by
  intro Rs
  induction Rs with
  | nil => intro _; simp [totalWeight]
  | cons r Rs ih =>
    intro h
    have h1 := h r List.mem_cons_self
    have h2 := ih (fun x hx => h x (List.mem_cons_of_mem _ hx))
    rw [List.map_cons, totalWeight_cons, totalWeight_cons, Int.mul_add]
    omega


theorem kmm_core {g : Graph} {T : Int} {R D : List Nat} {paths : List (List Nat)} (X : Ctx g T R D paths)
    (Bs : List (List Nat))
    (hmin : ∀ L, (((∀ C ∈ L, EvenSet g C ∧ ∀ e ∈ C, e ∈ R) ∧
      ∀ Z, EvenSet g Z → (∀ e ∈ Z, e ∈ R) → Span L Z)) → totalWeight g Bs ≤ totalWeight g L)
    (B : List (List Nat)) (hB : IsBasis g B) :
    totalWeight g (C05.emitted Bs paths D) ≤ T * totalWeight g B := by
  have hG := X.cyc_good
  obtain ⟨Rs, hRe, hRs, hRw⟩ := partition g T D (cyc paths D) hG (fun e he => X.cyc_even he)
    (fun e he Z hZ heZ => X.cyc_le_cycle he Z hZ heZ) B hB.1 (fun Z hZ => hB.2.2 Z hZ) D X.nodupD
    (fun e he => he)
  have h1 := hmin (Rs.map (proj (cyc paths D) D)) ⟨?_, ?_⟩
  · have h2 := totalWeight_map_le g T (proj (cyc paths D) D) Rs (fun r hr => X.proj_weight_le r (hRe r hr))
    have h3 : (paths.zip D).map (fun (pe : List Nat × Nat) => setOf (edgeCycle pe.1 pe.2)) =
        D.map (cyc paths D) :=
      zip_map_pathOf (fun p e => setOf (edgeCycle p e)) paths D X.plen X.nodupD
    unfold C05.emitted
    rw [totalWeight_append]
    have h4 : totalWeight g ((paths.zip D).map fun (p, e) => setOf (edgeCycle p e)) =
        ((D.map (cyc paths D)).map (wt g)).sum := by
      rw [← h3]; rfl
    rw [h4]
    omega
  · intro C hC
    obtain ⟨r, hr, rfl⟩ := List.mem_map.1 hC
    have hev := proj_even (g := g) (c := cyc paths D) D r (fun f hf => X.cyc_even hf) (hRe r hr)
    refine ⟨hev, ?_⟩
    intro e he
    rcases X.cover (hev.2.1 e he) with h | h
    · exact h
    · exact absurd he (proj_avoid hG D r (fun e he => he) (hRe r hr).1 e h)
  · intro Z hZ hZR
    exact hRs Z hZ (fun e he h => X.disj (hZR e h) he)

end Parmcb.KmmL

namespace Parmcb
open Parmcb.C01 Parmcb.C02

/-- translate a family from spanner edge positions to (canonical) sets of edge ids of `g` -/
def translateSp (R : List Nat) (cs : List (List Nat)) : List (List Nat) :=
  cs.map fun c => setOf (c.map fun i => R.getD i 0)

/-- `L` spans the cycle space of the subgraph with edge set `R` -/
def SpansIn (g : Graph) (R : List Nat) (L : List (List Nat)) : Prop :=
  (∀ C ∈ L, EvenSet g C ∧ ∀ e ∈ C, e ∈ R) ∧
  ∀ Z, EvenSet g Z → (∀ e ∈ Z, e ∈ R) → ∃ mask : List Bool, mask.length = L.length ∧ xorSel L mask = Z

/-- **Part A** -/
theorem kmm_bound (g : Graph) (hs : g.simpleB = true) (hp : g.positiveB = true) (k : Nat) (hk : 1 ≤ k)
    (scan : List Nat) (hscan : scanOkB g scan = true)
    (Bs paths : List (List Nat))
    (hBs : SpansIn g (constructSpanner g k scan).1 Bs)
    (hmin : ∀ L, SpansIn g (constructSpanner g k scan).1 L → totalWeight g Bs ≤ totalWeight g L)
    (plen : paths.length = (constructSpanner g k scan).2.length)
    (pwalk : ∀ (i : Nat) p e, paths[i]? = some p → (constructSpanner g k scan).2[i]? = some e →
      p.Nodup ∧ (∀ f ∈ p, f ∈ (constructSpanner g k scan).1) ∧ isWalk g p (g.src e) (g.tgt e) = true)
    (pshort : ∀ (i : Nat) p e, paths[i]? = some p → (constructSpanner g k scan).2[i]? = some e →
      ∀ es : List Nat, (∀ f ∈ es, f ∈ (constructSpanner g k scan).1) →
        isWalk g es (g.src e) (g.tgt e) = true → C05.listWeight g p ≤ C05.listWeight g es)
    (B : List (List Nat)) (hB : IsBasis g B) :
    totalWeight g (C05.emitted Bs paths (constructSpanner g k scan).2) ≤ (2 * (k : Int) - 1) * totalWeight g B := by
  have _ := hBs
  have hpart := (Spanner.spanner_partition g k scan).1.trans (Spanner.scan_perm g scan hscan)
  have X : KmmL.Ctx g (2 * (k : Int) - 1) (constructSpanner g k scan).1 (constructSpanner g k scan).2 paths := {
    hs := hs, hp := hp, hT := by omega, part := hpart, plen := plen, pwalk := pwalk, pshort := pshort
    stretch := by
      intro e he
      obtain ⟨es, h1, h2, h3⟩ := Spanner.spanner_stretch g hs k hk scan hscan e he
      refine ⟨es, fun x hx => (h3 x hx).1, h2, ?_⟩
      have hem : e < g.m := List.mem_range.1 (hpart.mem_iff.1 (List.mem_append_right _ he))
      have hw : 0 < g.weight e := positiveB_facts g hp e hem
      have h5 := Spanner.sum_weight_le g (g.weight e) es (fun f hf => (h3 f hf).2)
      have h6 : (es.length : Int) * g.weight e ≤ ((2 * k - 1 : Nat) : Int) * g.weight e :=
        Int.mul_le_mul_of_nonneg_right (Int.ofNat_le.2 h1) (Int.le_of_lt hw)
      have h7 : ((2 * k - 1 : Nat) : Int) = 2 * (k : Int) - 1 := by omega
      rw [h7] at h6
      unfold C05.listWeight
      omega }
  exact KmmL.kmm_core X Bs hmin B hB


end Parmcb
