import Parmcb.Lemmas.DePina
/-!
Extensions of the concrete de Pina theory (Lemmas/DePina.lean):

* runs that start from ANY permutation of the unit supports (the TBB variants fill the support vector
  with concurrent `push_back`s, C03);
* runs whose phases minimise only over a candidate collection `cand` (the tree variants look the cycle up
  in the Horton / FVS / isometric collection, C14): if the collection contains SOME spanning family `L`
  of the cycle space, the emitted weight is at most `α · w(L)`;
* progress: in every reachable state the phase's support vector is non-zero and an odd element of the
  cycle space exists, so the relational model never gets stuck.
Core Lean only.
-/
namespace Parmcb.DP2
open Parmcb.Abstract

section
variable {W : Type} (H : XGroup W)

theorem perm_sumMask {l1 l2 : List W} (p : l1.Perm l2) :
    ∀ m2 : List Bool, m2.length = l2.length →
      ∃ m1 : List Bool, m1.length = l1.length ∧ sumMask H l1 m1 = sumMask H l2 m2 ∧
        (true ∈ m2 → true ∈ m1) := by
  induction p with
  | nil => intro m2 h; exact ⟨m2, h, rfl, id⟩
  | cons x _ ih =>
    intro m2 h
    cases m2 with
    | nil => simp at h
    | cons b bs =>
      obtain ⟨m1, h1, h2, h3⟩ := ih bs (by simpa using h)
      refine ⟨b :: m1, by simp [h1], by simp [h2], ?_⟩
      intro ht
      rcases List.mem_cons.1 ht with e | e
      · rw [← e]; exact List.mem_cons_self
      · exact List.mem_cons_of_mem _ (h3 e)
  | swap x y l =>
    intro m2 h
    match m2, h with
    | b1 :: b2 :: bs, h =>
      refine ⟨b2 :: b1 :: bs, by simpa using h, ?_, ?_⟩
      · cases b1 <;> cases b2 <;> simp [H.add_left_comm]
      · intro ht
        simp only [List.mem_cons] at ht ⊢
        rcases ht with e | e | e
        · exact Or.inr (Or.inl e)
        · exact Or.inl e
        · exact Or.inr (Or.inr e)
  | trans _ _ ih1 ih2 =>
    intro m3 h
    obtain ⟨m2, a1, a2, a3⟩ := ih2 m3 h
    obtain ⟨m1, b1, b2, b3⟩ := ih1 m2 a1
    exact ⟨m1, b1, b2.trans a2, fun ht => b3 (a3 ht)⟩

theorem independent_perm {l1 l2 : List W} (p : l1.Perm l2) (h : IndependentL H l1) :
    IndependentL H l2 := by
  intro m2 hlen ht h0
  obtain ⟨m1, h1, h2, h3⟩ := perm_sumMask H p m2 hlen
  exact h m1 h1 (h3 ht) (h2.trans h0)

theorem swapRows_perm (Ss : List W) (k r : Nat) : (swapRows Ss k r).Perm Ss := by
  unfold swapRows
  split
  · next a b ha hb =>
    have hk : k < Ss.length := by
      rcases Nat.lt_or_ge k Ss.length with h | h
      · exact h
      · rw [List.getElem?_eq_none h] at ha; cases ha
    have hr : r < Ss.length := by
      rcases Nat.lt_or_ge r Ss.length with h | h
      · exact h
      · rw [List.getElem?_eq_none h] at hb; cases hb
    have e1 : a = Ss[k] := by rw [List.getElem?_eq_getElem hk] at ha; exact (Option.some.inj ha).symm
    have e2 : b = Ss[r] := by rw [List.getElem?_eq_getElem hr] at hb; exact (Option.some.inj hb).symm
    rw [e1, e2]
    exact List.set_set_perm hk hr
  · exact List.Perm.refl _

theorem independent_swapRows (Ss : List W) (k r : Nat) (h : IndependentL H Ss) :
    IndependentL H (swapRows Ss k r) :=
  independent_perm H (swapRows_perm Ss k r).symm h

theorem sumMask_append (A B : List W) (mA mB : List Bool) (h : mA.length = A.length) :
    sumMask H (A ++ B) (mA ++ mB) = H.add (sumMask H A mA) (sumMask H B mB) := by
  induction A generalizing mA with
  | nil =>
    cases mA with
    | nil => simp [H.zero_add]
    | cons b bs => simp at h
  | cons x xs ih =>
    cases mA with
    | nil => simp at h
    | cons b bs =>
      have := ih bs (by simpa using h)
      cases b
      · simpa using this
      · simp [this, H.add_assoc]

theorem sumMask_map_add (y : W) (c : W → Bool) (B : List W) (m : List Bool) :
    sumMask H (B.map (fun S => if c S = true then H.add S y else S)) m = sumMask H B m ∨
    sumMask H (B.map (fun S => if c S = true then H.add S y else S)) m
      = H.add y (sumMask H B m) := by
  induction B generalizing m with
  | nil => left; simp
  | cons x xs ih =>
    cases m with
    | nil => left; simp
    | cons b bs =>
      cases b
      · simpa using ih bs
      · simp only [List.map_cons, sumMask_cons, if_true]
        by_cases hc : c x = true
        · rw [if_pos hc]
          rcases ih bs with e | e
          · right; rw [e, H.add_comm x y, H.add_assoc]
          · left; rw [e, H.add_assoc, H.add_self_left]
        · rw [if_neg hc]
          rcases ih bs with e | e
          · left; rw [e]
          · right; rw [e, H.add_left_comm]

theorem updateRows_eq (hit : W → Bool) (k : Nat) (Ss : List W) (Sk : W) (hk : Ss[k]? = some Sk) :
    updateRows H hit k Ss
      = Ss.take (k + 1) ++ (Ss.drop (k + 1)).map (fun S => if hit S = true then H.add S Sk else S) := by
  have hkl : k < Ss.length := by
    rcases Nat.lt_or_ge k Ss.length with h | h
    · exact h
    · rw [List.getElem?_eq_none h] at hk; cases hk
  unfold updateRows
  rw [hk]
  apply List.ext_getElem?
  intro i
  simp only [List.getElem?_mapIdx]
  rcases Nat.lt_or_ge k i with hlt | hge
  · rw [List.getElem?_append_right (by simp; omega)]
    simp only [List.length_take, List.getElem?_map, List.getElem?_drop]
    have e : k + 1 + (i - min (k + 1) Ss.length) = i := by omega
    rw [e]
    cases Ss[i]? with
    | none => rfl
    | some x => simp [hlt]
  · rw [List.getElem?_append_left (by simp; omega), List.getElem?_take_of_lt (by omega)]
    have : ¬ k < i := by omega
    cases Ss[i]? with
    | none => rfl
    | some x => simp [this]

theorem independent_updateRows (hit : W → Bool) (k : Nat) (Ss : List W) (h : IndependentL H Ss) :
    IndependentL H (updateRows H hit k Ss) := by
  cases hk : Ss[k]? with
  | none =>
    have : updateRows H hit k Ss = Ss := by simp [updateRows, hk]
    rw [this]; exact h
  | some Sk =>
    have hkl : k < Ss.length := by
      rcases Nat.lt_or_ge k Ss.length with h | h
      · exact h
      · rw [List.getElem?_eq_none h] at hk; cases hk
    rw [updateRows_eq H hit k Ss Sk hk]
    have hAk : (Ss.take (k + 1))[k]? = some Sk := by
      rw [List.getElem?_take_of_lt (by omega)]; exact hk
    obtain ⟨my, hmy, hsy⟩ := inSpan_getElem? H hAk
    have hsplit : Ss.take (k + 1) ++ Ss.drop (k + 1) = Ss := List.take_append_drop _ _
    generalize Ss.take (k + 1) = A at hmy hsy hsplit
    generalize Ss.drop (k + 1) = B at hsplit
    subst hsplit
    intro m hlen ht h0
    simp only [List.length_append, List.length_map] at hlen
    have hm : m = m.take A.length ++ m.drop A.length := (List.take_append_drop _ _).symm
    have hmA : (m.take A.length).length = A.length := by simp; omega
    generalize m.take A.length = mA at hm hmA
    generalize m.drop A.length = mB at hm
    subst hm
    rw [sumMask_append H _ _ _ _ hmA] at h0
    have hlenAB : (mA ++ mB).length = (A ++ B).length := by simpa using hlen
    by_cases htB : true ∈ mB
    · rcases sumMask_map_add H Sk hit B mB with e | e
      · rw [e, ← sumMask_append H _ _ _ _ hmA] at h0
        exact h _ hlenAB ht h0
      · rw [e, ← hsy, ← H.add_assoc, ← sumMask_zipWith_xor H A mA my hmA hmy,
          ← sumMask_append H _ _ _ _ (by simp [hmA, hmy])] at h0
        refine h _ ?_ (List.mem_append_right _ htB) h0
        simp only [List.length_append, List.length_zipWith, hmA, hmy, Nat.min_self]
        simp only [List.length_append, hmA] at hlenAB
        exact hlenAB
    · have e : sumMask H (B.map (fun S => if hit S = true then H.add S Sk else S)) mB
          = sumMask H B mB := by
        rw [sumMask_of_not_mem H _ mB htB, sumMask_of_not_mem H B mB htB]
      rw [e, ← sumMask_append H _ _ _ _ hmA] at h0
      exact h _ hlenAB ht h0

theorem exists_onehot {L : List W} {i : Nat} {x : W} (h : L[i]? = some x) :
    ∃ m : List Bool, m.length = L.length ∧ true ∈ m ∧ sumMask H L m = x := by
  induction L generalizing i with
  | nil => simp at h
  | cons y ys ih =>
    cases i with
    | zero =>
      simp at h
      subst h
      exact ⟨true :: List.replicate ys.length false, by simp, List.mem_cons_self,
        by simp [sumMask_of_not_mem H ys (List.replicate ys.length false) (by simp), H.add_zero]⟩
    | succ i =>
      simp at h
      obtain ⟨m, hm, ht, rfl⟩ := ih h
      exact ⟨false :: m, by simp [hm], List.mem_cons_of_mem _ ht, by simp⟩

theorem independent_ne_zero {L : List W} (h : IndependentL H L) {i : Nat} {x : W}
    (hx : L[i]? = some x) : x ≠ H.zero := by
  obtain ⟨m, hm, ht, rfl⟩ := exists_onehot H hx
  exact h m hm ht

end

section
variable {V W : Type} {G : XGroup V} {H : XGroup W} (P : Pairing G H)

theorem independent_runPhases (k : Nat) (Ss : List W) (ph : List (Nat × V))
    (h : IndependentL H Ss) : IndependentL H (runPhases P k Ss ph) := by
  induction ph generalizing k Ss with
  | nil => exact h
  | cons a rest ih =>
    obtain ⟨r, C⟩ := a
    simp only [runPhases]
    exact ih _ _ (independent_updateRows H _ _ _ (independent_swapRows H _ _ _ h))

end

/-! ### generic runs -/

/-- a run whose phases satisfy an arbitrary contract `φ support cycle` -/
def RunG (φ : List Nat → List Nat → Prop) (v : Variant) :
    Nat → List (List Nat) → List (List Nat) → Prop
  | _, _, [] => True
  | k, sup, c :: cs => φ (phaseSupport v sup k) c ∧ RunG φ v (k + 1) (phaseStep v sup k c) cs

theorem run_runG (g : Graph) (α : Int) (v : Variant) :
    ∀ (cycles : List (List Nat)) (k : Nat) (sup : List (List Nat)),
      Run g α v k sup cycles → RunG (PhaseOK g α) v k sup cycles := by
  intro cycles
  induction cycles with
  | nil => intro _ _ _; trivial
  | cons c cs ih => intro k sup h; exact ⟨h.1, ih _ _ h.2⟩

theorem runG_of_forall (φ : List Nat → List Nat → Prop) (v : Variant) :
    ∀ (cs : List (List Nat)) (k : Nat) (sup : List (List Nat)),
      (∀ (i : Nat) (c : List Nat), cs[i]? = some c →
        φ (phaseSupport v (runSupports v k sup (cs.take i)) (k + i)) c) → RunG φ v k sup cs := by
  intro cs
  induction cs with
  | nil => intro _ _ _; trivial
  | cons c cs ih =>
    intro k sup h
    refine ⟨by simpa [runSupports] using h 0 c rfl, ih _ _ ?_⟩
    intro i c' hi
    have := h (i + 1) c' (by simpa using hi)
    have e : k + (i + 1) = k + 1 + i := by omega
    rw [e] at this
    simpa [runSupports] using this

theorem runG_phasesOK (φ : List Nat → List Nat → Prop)
    (hφ : ∀ S c, φ S c → StrictSorted c ∧ dotPar c S = true) (v : Variant) :
    ∀ (cycles : List (List Nat)) (k : Nat) (Ss : List SVec),
      k + cycles.length ≤ Ss.length → RunG φ v k (vals Ss) cycles →
      ∃ ph : List (Nat × SVec), vals (ph.map (·.2)) = cycles ∧
        PhasesOK svecPairing (fun _ S C => φ S.1 C.1) k Ss ph ∧
        runSupports v k (vals Ss) cycles = vals (runPhases svecPairing k Ss ph) := by
  intro cycles
  induction cycles with
  | nil => intro k Ss _ _; exact ⟨[], rfl, trivial, rfl⟩
  | cons c cs ih =>
    intro k Ss hlen hrun
    obtain ⟨hph0, hrest⟩ := hrun
    obtain ⟨hsorted, hodd⟩ := hφ _ _ hph0
    simp only [List.length_cons] at hlen
    have hk : k < (vals Ss).length := by rw [vals_length]; omega
    have hr := swapIndex_range v (vals Ss) k hk
    rw [vals_length] at hr
    have hstep := phaseStep_vals v Ss k c
    have hsup := phaseSupport_vals v Ss k
    generalize swapIndex v (vals Ss) k = r at hr hstep hsup
    let C : SVec := ⟨c, hsorted⟩
    have hhit := hit_eq C
    change (fun S : SVec => dotPar S.1 c) = _ at hhit
    rw [hhit] at hstep
    rw [hstep] at hrest
    obtain ⟨ph, hph, hok, hsupp⟩ := ih (k + 1) _
      (by rw [updateRows_length, swapRows_length]; omega) hrest
    refine ⟨(r, C) :: ph, ?_, ⟨hr.1, hr.2, ?_, hok⟩, ?_⟩
    · simp only [vals, List.map_cons] at hph ⊢
      rw [hph]
    · have hkS : k < (swapRows Ss k r).length := by rw [swapRows_length]; omega
      refine ⟨(swapRows Ss k r)[k], by simp [hkS], ?_, ?_⟩
      · rw [hsup] at hodd
        simpa [hkS, svec_dot] using hodd
      · rw [hsup] at hph0
        simpa [hkS] using hph0
    · simp only [runSupports, runPhases]
      rw [hstep]
      exact hsupp

/-- the generic form of `full_setup` -/
theorem setupG (N : Nat) (φ : List Nat → List Nat → Prop)
    (hφ : ∀ S c, φ S c → StrictSorted c ∧ dotPar c S = true) (v : Variant)
    (Ss0 : List SVec) (cycles : List (List Nat)) (hl0 : Ss0.length = N)
    (hsp : SpansP svecGroup Ss0 (UnitQ N)) (hlen : cycles.length = N)
    (hrun : RunG φ v 0 (vals Ss0) cycles) :
    ∃ Cs Fs : List SVec, vals Cs = cycles ∧ Cs.length = N ∧ Triangular svecPairing Cs Fs ∧
      (∀ (i : Nat) C S, Cs[i]? = some C → Fs[i]? = some S → φ S.1 C.1) ∧
      (∀ C ∈ Cs, ∃ S : SVec, φ S.1 C.1) ∧
      SpansP svecGroup Fs (UnitQ N) := by
  obtain ⟨ph, hph, hok, _⟩ := runG_phasesOK φ hφ v cycles 0 Ss0 (by omega) hrun
  have hphlen : ph.length = N := by
    have := congrArg List.length hph
    simp only [vals, List.length_map] at this
    omega
  obtain ⟨htri, hgood⟩ :=
    run_triangular svecPairing (fun _ S C => φ S.1 C.1) Ss0 ph (by omega) hok
  have hg : ∀ (i : Nat) (C S : SVec), (ph.map (·.2))[i]? = some C →
      (runPhases svecPairing 0 Ss0 ph)[i]? = some S → φ S.1 C.1 := by
    intro i C S hC hS
    rw [List.getElem?_map] at hC
    cases hp : ph[i]? with
    | none => rw [hp] at hC; cases hC
    | some a =>
      obtain ⟨r, C'⟩ := a
      rw [hp] at hC
      cases hC
      exact hgood i r C' S hp hS
  refine ⟨ph.map (·.2), runPhases svecPairing 0 Ss0 ph, hph, by simp [hphlen], htri, hg, ?_,
    span_runPhases svecPairing 0 Ss0 ph (UnitQ N) hsp⟩
  intro C hC
  obtain ⟨i, hi⟩ := List.mem_iff_getElem?.1 hC
  have hiN : i < (runPhases svecPairing 0 Ss0 ph).length := by
    rw [← htri.len]
    rcases Nat.lt_or_ge i (ph.map (·.2)).length with h | h
    · exact h
    · rw [List.getElem?_eq_none h] at hi; cases hi
  exact ⟨_, hg i C _ hi (List.getElem?_eq_getElem hiN)⟩

/-! ### the initial rows -/

def mkS (S : List Nat) (h : StrictSorted S) : SVec := ⟨S, h⟩

theorem vals_pmap (l : List (List Nat)) (h : ∀ S ∈ l, StrictSorted S) :
    vals (l.pmap mkS h) = l := by
  induction l with
  | nil => rfl
  | cons x xs ih =>
    exact congrArg (List.cons x) (ih (fun S hS => h S (List.mem_cons_of_mem _ hS)))

theorem vals_inj : ∀ (A B : List SVec), vals A = vals B → A = B := by
  intro A
  induction A with
  | nil =>
    intro B h
    cases B with
    | nil => rfl
    | cons b B => simp [vals] at h
  | cons a A ih =>
    intro B h
    cases B with
    | nil => simp [vals] at h
    | cons b B =>
      simp only [vals, List.map_cons, List.cons.injEq] at h
      rw [svec_ext h.1, ih B h.2]

theorem init_exists (N : Nat) (sup0 : List (List Nat)) (hp : sup0.Perm (unitSupports N)) :
    ∃ Ss0 : List SVec, vals Ss0 = sup0 ∧ Ss0.Perm (unitS N) := by
  have H2 : ∀ S ∈ unitSupports N, StrictSorted S := by
    rw [← vals_unitS]; exact mem_vals_sorted _
  have H1 : ∀ S ∈ sup0, StrictSorted S := fun S hS => H2 S (hp.mem_iff.1 hS)
  refine ⟨sup0.pmap mkS H1, vals_pmap _ _, ?_⟩
  have hperm : (sup0.pmap mkS H1).Perm
      ((unitSupports N).pmap mkS H2) := hp.pmap _
  have e : (unitSupports N).pmap mkS H2 = unitS N := by
    apply vals_inj
    rw [vals_pmap, vals_unitS]
  rw [e] at hperm
  exact hperm

theorem unitS_length (N : Nat) : (unitS N).length = N := by simp [unitS]

theorem unitS_getElem? (N i : Nat) (C : SVec) (h : (unitS N)[i]? = some C) :
    i < N ∧ C = unitVec i := by
  unfold unitS at h
  rw [List.getElem?_map] at h
  rcases Nat.lt_or_ge i N with hi | hi
  · rw [List.getElem?_range hi] at h
    exact ⟨hi, (Option.some.inj h).symm⟩
  · rw [List.getElem?_eq_none (by simpa using hi)] at h
    cases h

theorem unitS_independent (N : Nat) : IndependentL svecGroup (unitS N) := by
  apply triangular_independent svecPairing (Ss := unitS N)
  refine ⟨rfl, ?_, ?_⟩
  · intro i C S hC hS
    obtain ⟨_, rfl⟩ := unitS_getElem? N i C hC
    obtain ⟨_, rfl⟩ := unitS_getElem? N i S hS
    show dotPar [i] [i] = true
    rw [dotPar_single [i] trivial i]; simp
  · intro i j C S hji hC hS
    obtain ⟨_, rfl⟩ := unitS_getElem? N j C hC
    obtain ⟨_, rfl⟩ := unitS_getElem? N i S hS
    show dotPar [j] [i] = false
    rw [dotPar_single [j] trivial i]
    have : i ≠ j := by omega
    simp [this]

/-- all coordinates are `< N` -/
def Below (N : Nat) (S : SVec) : Prop := ∀ e ∈ S.1, e < N

theorem below_add (N : Nat) (a b : SVec) (ha : Below N a) (hb : Below N b) :
    Below N (svecGroup.add a b) := by
  intro e he
  rcases mem_xorMerge_of _ _ _ he with h | h
  · exact ha e h
  · exact hb e h

/-- everything needed about a permutation of the unit rows -/
theorem init_facts (N : Nat) (Ss0 : List SVec) (hp : Ss0.Perm (unitS N)) :
    Ss0.length = N ∧ SpansP svecGroup Ss0 (UnitQ N) ∧ IndependentL svecGroup Ss0 ∧
      RowsGe (Below N) 0 Ss0 := by
  refine ⟨by rw [hp.length_eq, unitS_length], ?_, ?_, ?_⟩
  · apply spansP_of_inSpan svecGroup (unitS_spans N)
    intro x hx
    exact inSpan_mem svecGroup (hp.mem_iff.2 hx)
  · exact independent_perm svecGroup hp.symm (unitS_independent N)
  · intro l S _ hS
    have hmem : S ∈ unitS N := hp.mem_iff.1 (List.mem_of_getElem? hS)
    obtain ⟨i, hi⟩ := List.mem_iff_getElem?.1 hmem
    obtain ⟨hiN, rfl⟩ := unitS_getElem? N i S hi
    intro e he
    have : e = i := by simpa [unitVec] using he
    omega

end Parmcb.DP2

namespace Parmcb.DP2
open Parmcb.Abstract

/-! ### consequences of the triangular pattern, in list form -/

theorem indep_of_tri (N : Nat) (Cs Fs : List SVec) (cycles : List (List Nat))
    (hCs : vals Cs = cycles) (hlen : Cs.length = N) (htri : Triangular svecPairing Cs Fs) :
    ∀ mask : List Bool, mask.length = N → true ∈ mask → xorSel cycles mask ≠ [] := by
  intro mask hm ht h0
  apply triangular_independent svecPairing htri mask (by omega) ht
  apply svec_ext
  rw [sumMask_val, hCs, h0]
  rfl

theorem spans_of_tri (g : Graph) (N : Nat) (hd : ExactDomain g N) (Cs Fs : List SVec)
    (cycles : List (List Nat)) (hCs : vals Cs = cycles) (hlen : Cs.length = N)
    (htri : Triangular svecPairing Cs Fs) (hC : ∀ C ∈ Cs, EvenSet g C.1)
    (hspan : SpansP svecGroup Fs (UnitQ N)) :
    ∀ Z, EvenSet g Z → ∃ mask : List Bool, mask.length = N ∧ xorSel cycles mask = Z := by
  have hsp : SpansP svecGroup Cs (fun z => EvenSet g z.1) :=
    triangular_spans svecPairing (fun z => EvenSet g z.1)
      (fun a b ha hb => EvenSet.add ha hb) hC htri
      (fun z hz horth => kernel_zero g N hd Fs hspan z hz horth)
  intro Z hZ
  obtain ⟨mask, hm, hsum⟩ := hsp ⟨Z, hZ.1⟩ hZ
  refine ⟨mask, by omega, ?_⟩
  have := congrArg (fun z : SVec => z.1) hsum
  simp only [sumMask_val, hCs] at this
  exact this

theorem weight_of_tri (g : Graph) (hpos : g.positiveB = true) (cand : List Nat → Prop)
    (α : Int) (hα : 0 ≤ α) (Cs Fs : List SVec) (cycles : List (List Nat))
    (hCs : vals Cs = cycles) (htri : Triangular svecPairing Cs Fs)
    (hC : ∀ C ∈ Cs, cand C.1 ∧ EvenSet g C.1)
    (hmin : ∀ (i : Nat) (C S : SVec), Cs[i]? = some C → Fs[i]? = some S →
      ∀ Z, cand Z → EvenSet g Z → dotPar Z S.1 = true → wt g C.1 ≤ α * wt g Z)
    (L : List (List Nat)) (hL : ∀ D ∈ L, cand D ∧ EvenSet g D)
    (hspan : ∀ Z, EvenSet g Z → ∃ mask : List Bool, mask.length = L.length ∧ xorSel L mask = Z) :
    (cycles.map (wt g)).sum ≤ α * (L.map (wt g)).sum := by
  obtain ⟨Ls, hLs⟩ := exists_vals L (fun D hD => (hL D hD).2.1)
  have hLsp : SpansP svecGroup Ls (fun z => cand z.1 ∧ EvenSet g z.1) := by
    intro z hz
    obtain ⟨mask, hm, hsum⟩ := hspan z.1 hz.2
    refine ⟨mask, by rw [hm, ← hLs, vals_length], ?_⟩
    apply svec_ext
    rw [sumMask_val, hLs, hsum]
  have hLs' : ∀ D ∈ Ls, cand D.1 ∧ EvenSet g D.1 := by
    intro D hD
    apply hL
    rw [← hLs]
    exact List.mem_map.2 ⟨D, hD, rfl⟩
  have key := depina_weight svecPairing (fun z => cand z.1 ∧ EvenSet g z.1) (fun z => wt g z.1) α hα
    (fun z hz => wt_nonneg g hpos z.1 hz.2.2.1) htri hC
    (fun i C S h1 h2 z hz hzS => hmin i C S h1 h2 z.1 hz.1 hz.2 hzS) Ls hLs' hLsp
  have e1 : Cs.map (fun z => wt g z.1) = cycles.map (wt g) := by
    rw [← hCs, vals, List.map_map]; rfl
  have e2 : Ls.map (fun z => wt g z.1) = L.map (wt g) := by
    rw [← hLs, vals, List.map_map]; rfl
  rw [e1, e2] at key
  exact key

/-- the generic setup from a permuted start -/
theorem perm_setup (N : Nat) (φ : List Nat → List Nat → Prop)
    (hφ : ∀ S c, φ S c → StrictSorted c ∧ dotPar c S = true) (v : Variant)
    (sup0 cycles : List (List Nat)) (hp : sup0.Perm (unitSupports N)) (hlen : cycles.length = N)
    (hrun : RunG φ v 0 sup0 cycles) :
    ∃ Cs Fs : List SVec, vals Cs = cycles ∧ Cs.length = N ∧ Triangular svecPairing Cs Fs ∧
      (∀ (i : Nat) C S, Cs[i]? = some C → Fs[i]? = some S → φ S.1 C.1) ∧
      (∀ C ∈ Cs, ∃ S : SVec, φ S.1 C.1) ∧
      SpansP svecGroup Fs (UnitQ N) := by
  obtain ⟨Ss0, hv, hperm⟩ := init_exists N sup0 hp
  obtain ⟨hl0, hsp, _, _⟩ := init_facts N Ss0 hperm
  subst hv
  exact setupG N φ hφ v Ss0 cycles hl0 hsp hlen hrun

end Parmcb.DP2

namespace Parmcb
open Parmcb.Abstract

/-- a run of all `N` phases from initial supports `sup0` -/
def FullRunFrom (g : Graph) (N : Nat) (α : Int) (v : Variant) (sup0 : List (List Nat))
    (cycles : List (List Nat)) : Prop :=
  cycles.length = N ∧ Run g α v 0 sup0 cycles

theorem fullRun_iff (g : Graph) (N : Nat) (α : Int) (v : Variant) (cycles : List (List Nat)) :
    FullRun g N α v cycles ↔ FullRunFrom g N α v (unitSupports N) cycles := Iff.rfl

namespace DP2

theorem from_setup (g : Graph) (N : Nat) (α : Int) (v : Variant) (sup0 cycles : List (List Nat))
    (hp : sup0.Perm (unitSupports N)) (hr : FullRunFrom g N α v sup0 cycles) :
    ∃ Cs Fs : List SVec, vals Cs = cycles ∧ Cs.length = N ∧ Triangular svecPairing Cs Fs ∧
      (∀ (i : Nat) C S, Cs[i]? = some C → Fs[i]? = some S → PhaseOK g α S.1 C.1) ∧
      (∀ C ∈ Cs, EvenSet g C.1) ∧
      SpansP svecGroup Fs (UnitQ N) := by
  obtain ⟨hlen, hrun⟩ := hr
  obtain ⟨Cs, Fs, h1, h2, h3, h4, h5, h6⟩ :=
    perm_setup N (PhaseOK g α) (fun S c h => ⟨h.1.1, h.2.1⟩) v sup0 cycles hp hlen
      (run_runG g α v cycles 0 sup0 hrun)
  refine ⟨Cs, Fs, h1, h2, h3, h4, ?_, h6⟩
  intro C hC
  obtain ⟨S, hS⟩ := h5 C hC
  exact hS.1

end DP2

/-- independence, for any permutation of the unit supports as starting point -/
theorem runFrom_independent (g : Graph) (N : Nat) (α : Int) (v : Variant) (sup0 cycles : List (List Nat))
    (hd : ExactDomain g N) (hp : sup0.Perm (unitSupports N)) (hr : FullRunFrom g N α v sup0 cycles) :
    ∀ mask : List Bool, mask.length = N → true ∈ mask → xorSel cycles mask ≠ [] := by
  have _ := hd
  obtain ⟨Cs, Fs, hCs, hlen, htri, _, _, _⟩ := DP2.from_setup g N α v sup0 cycles hp hr
  exact DP2.indep_of_tri N Cs Fs cycles hCs hlen htri

theorem runFrom_spans (g : Graph) (N : Nat) (α : Int) (v : Variant) (sup0 cycles : List (List Nat))
    (hd : ExactDomain g N) (hp : sup0.Perm (unitSupports N)) (hr : FullRunFrom g N α v sup0 cycles) :
    ∀ Z, EvenSet g Z → ∃ mask : List Bool, mask.length = N ∧ xorSel cycles mask = Z := by
  obtain ⟨Cs, Fs, hCs, hlen, htri, _, hC, hspan⟩ := DP2.from_setup g N α v sup0 cycles hp hr
  exact DP2.spans_of_tri g N hd Cs Fs cycles hCs hlen htri hC hspan

theorem runFrom_weight (g : Graph) (N : Nat) (α : Int) (hα : 0 ≤ α) (v : Variant)
    (sup0 cycles : List (List Nat)) (hd : ExactDomain g N) (hp : sup0.Perm (unitSupports N))
    (hr : FullRunFrom g N α v sup0 cycles)
    (L : List (List Nat)) (hL : ∀ D ∈ L, EvenSet g D)
    (hspan : ∀ Z, EvenSet g Z → ∃ mask : List Bool, mask.length = L.length ∧ xorSel L mask = Z) :
    (cycles.map (wt g)).sum ≤ α * (L.map (wt g)).sum := by
  obtain ⟨Cs, Fs, hCs, hlen, htri, hgood, hC, _⟩ := DP2.from_setup g N α v sup0 cycles hp hr
  exact DP2.weight_of_tri g hd.positive (fun _ => True) α hα Cs Fs cycles hCs htri
    (fun C hC' => ⟨trivial, hC C hC'⟩)
    (fun i C S h1 h2 Z _ hZ hZS => (hgood i C S h1 h2).2.2 Z hZ hZS)
    L (fun D hD => ⟨trivial, hL D hD⟩) hspan

theorem runFrom_circuits (g : Graph) (N : Nat) (v : Variant) (sup0 cycles : List (List Nat))
    (hd : ExactDomain g N) (hp : sup0.Perm (unitSupports N)) (hr : FullRunFrom g N 1 v sup0 cycles) :
    ∀ C ∈ cycles, Circuit g C := by
  obtain ⟨_, hrun⟩ := hr
  obtain ⟨Ss0, hv, _⟩ := DP2.init_exists N sup0 hp
  subst hv
  exact run_circuits_aux g v hd.positive cycles 0 Ss0 hrun

/-! ### phases that minimise over a candidate collection -/

/-- the contract of a phase that looks its cycle up in a collection `cand` of cycle-space elements: the
emitted set is in the collection, odd against `S`, and no odd member of the collection is lighter -/
def PhaseOKIn (g : Graph) (cand : List Nat → Prop) (S C : List Nat) : Prop :=
  cand C ∧ EvenSet g C ∧ dotPar C S = true ∧ ∀ Z, cand Z → EvenSet g Z → dotPar Z S = true → wt g C ≤ wt g Z

def RunIn (g : Graph) (cand : List Nat → Prop) (v : Variant) : Nat → List (List Nat) → List (List Nat) → Prop
  | _, _, [] => True
  | k, sup, c :: cs => PhaseOKIn g cand (phaseSupport v sup k) c ∧ RunIn g cand v (k + 1) (phaseStep v sup k c) cs

namespace DP2

theorem runIn_runG (g : Graph) (cand : List Nat → Prop) (v : Variant) :
    ∀ (cycles : List (List Nat)) (k : Nat) (sup : List (List Nat)),
      RunIn g cand v k sup cycles → RunG (PhaseOKIn g cand) v k sup cycles := by
  intro cycles
  induction cycles with
  | nil => intro _ _ _; trivial
  | cons c cs ih => intro k sup h; exact ⟨h.1, ih _ _ h.2⟩

theorem in_setup (g : Graph) (N : Nat) (cand : List Nat → Prop) (v : Variant)
    (sup0 cycles : List (List Nat))
    (hp : sup0.Perm (unitSupports N)) (hlen : cycles.length = N) (hr : RunIn g cand v 0 sup0 cycles) :
    ∃ Cs Fs : List SVec, vals Cs = cycles ∧ Cs.length = N ∧ Triangular svecPairing Cs Fs ∧
      (∀ (i : Nat) C S, Cs[i]? = some C → Fs[i]? = some S → PhaseOKIn g cand S.1 C.1) ∧
      (∀ C ∈ Cs, cand C.1 ∧ EvenSet g C.1) ∧
      SpansP svecGroup Fs (UnitQ N) := by
  obtain ⟨Cs, Fs, h1, h2, h3, h4, h5, h6⟩ :=
    perm_setup N (PhaseOKIn g cand) (fun S c h => ⟨h.2.1.1, h.2.2.1⟩) v sup0 cycles hp hlen
      (runIn_runG g cand v cycles 0 sup0 hr)
  refine ⟨Cs, Fs, h1, h2, h3, h4, ?_, h6⟩
  intro C hC
  obtain ⟨S, hS⟩ := h5 C hC
  exact ⟨hS.1, hS.2.1⟩

end DP2

/-- validity never depends on which odd cycle is taken -/
theorem runIn_basis (g : Graph) (N : Nat) (cand : List Nat → Prop) (v : Variant) (sup0 cycles : List (List Nat))
    (hd : ExactDomain g N) (hp : sup0.Perm (unitSupports N)) (hlen : cycles.length = N)
    (hr : RunIn g cand v 0 sup0 cycles) :
    (∀ C ∈ cycles, EvenSet g C) ∧
    (∀ mask : List Bool, mask.length = N → true ∈ mask → xorSel cycles mask ≠ []) ∧
    (∀ Z, EvenSet g Z → ∃ mask : List Bool, mask.length = N ∧ xorSel cycles mask = Z) := by
  obtain ⟨Cs, Fs, hCs, hl, htri, _, hC, hspan⟩ := DP2.in_setup g N cand v sup0 cycles hp hlen hr
  refine ⟨?_, DP2.indep_of_tri N Cs Fs cycles hCs hl htri,
    DP2.spans_of_tri g N hd Cs Fs cycles hCs hl htri (fun C hC' => (hC C hC').2) hspan⟩
  intro C hC'
  rw [← hCs] at hC'
  obtain ⟨T, hT, rfl⟩ := List.mem_map.1 hC'
  exact (hC T hT).2

/-- **sufficiency transfer**: if the candidate collection contains a family `L` that spans the cycle
space (e.g. some minimum cycle basis — Horton's theorem and its FVS / isometric refinements, which are
NOT proved here), the cycles looked up in the collection weigh at most as much as `L`. -/
theorem runIn_weight (g : Graph) (N : Nat) (cand : List Nat → Prop) (v : Variant) (sup0 cycles : List (List Nat))
    (hd : ExactDomain g N) (hp : sup0.Perm (unitSupports N)) (hlen : cycles.length = N)
    (hr : RunIn g cand v 0 sup0 cycles)
    (L : List (List Nat)) (hL : ∀ D ∈ L, cand D ∧ EvenSet g D)
    (hspan : ∀ Z, EvenSet g Z → ∃ mask : List Bool, mask.length = L.length ∧ xorSel L mask = Z) :
    (cycles.map (wt g)).sum ≤ (L.map (wt g)).sum := by
  obtain ⟨Cs, Fs, hCs, _, htri, hgood, hC, _⟩ := DP2.in_setup g N cand v sup0 cycles hp hlen hr
  have key := DP2.weight_of_tri g hd.positive cand 1 (by decide) Cs Fs cycles hCs htri hC
    (fun i C S h1 h2 Z hcZ hZ hZS => by
      rw [Int.one_mul]; exact (hgood i C S h1 h2).2.2.2 Z hcZ hZ hZS)
    L hL hspan
  rwa [Int.one_mul] at key

/-! ### progress -/

/-- in every state reachable by emitted cycles that are odd against their phase's support vector, the
next phase's support vector is non-empty and some element of the cycle space is odd against it: the
phases cannot get stuck (`assert(std::get<2>(best))` in the C++) -/
theorem run_progress (g : Graph) (N : Nat) (v : Variant) (sup0 : List (List Nat)) (done : List (List Nat))
    (hd : ExactDomain g N) (hp : sup0.Perm (unitSupports N)) (hk : done.length < N)
    (hodd : ∀ (k : Nat) (c : List Nat), done[k]? = some c →
        StrictSorted c ∧ dotPar c (phaseSupport v (runSupports v 0 sup0 (done.take k)) k) = true) :
    let S := phaseSupport v (runSupports v 0 sup0 done) done.length
    S ≠ [] ∧ ∃ Z, EvenSet g Z ∧ dotPar Z S = true := by
  have hrun : DP2.RunG (fun S c => StrictSorted c ∧ dotPar c S = true) v 0 sup0 done := by
    apply DP2.runG_of_forall
    intro i c hi
    rw [Nat.zero_add]
    exact hodd i c hi
  obtain ⟨Ss0, hv, hperm⟩ := DP2.init_exists N sup0 hp
  obtain ⟨hl0, _, hind, hbel⟩ := DP2.init_facts N Ss0 hperm
  subst hv
  obtain ⟨ph, _, hok, hsupp⟩ := DP2.runG_phasesOK _ (fun _ _ h => h) v done 0 Ss0 (by omega) hrun
  have hFind := DP2.independent_runPhases svecPairing 0 Ss0 ph hind
  have hFbel := rowsGe_runPhases svecPairing (DP2.Below N) (DP2.below_add N) _ 0 Ss0 ph hok hbel
  have hFlen := runPhases_length svecPairing 0 Ss0 ph
  rw [hsupp, phaseSupport_vals]
  generalize runPhases svecPairing 0 Ss0 ph = Fs at hFind hFbel hFlen
  have hkF : done.length < (vals Fs).length := by rw [vals_length]; omega
  have hr := swapIndex_range v (vals Fs) done.length hkF
  generalize swapIndex v (vals Fs) done.length = r at hr
  generalize done.length = k at hk hkF hr
  have hkS : k < (swapRows Fs k r).length := by rw [swapRows_length]; omega
  have hT : (swapRows Fs k r)[k]? = some (swapRows Fs k r)[k] := List.getElem?_eq_getElem hkS
  generalize (swapRows Fs k r)[k] = T at hT
  rw [hT]
  show T.1 ≠ [] ∧ ∃ Z, EvenSet g Z ∧ dotPar Z T.1 = true
  have hTne : T ≠ svecGroup.zero :=
    DP2.independent_ne_zero svecGroup (DP2.independent_swapRows svecGroup Fs k r hFind) hT
  have hTbel : DP2.Below N T :=
    rowsGe_swapRows (DP2.Below N) k r Fs hr.1 (rowsGe_mono _ (Nat.zero_le k) _ hFbel) k T
      (Nat.le_refl _) hT
  cases hT1 : T.1 with
  | nil => exact absurd (svec_ext hT1) hTne
  | cons e rest =>
    refine ⟨by simp, ?_⟩
    have heT : e ∈ T.1 := by rw [hT1]; exact List.mem_cons_self
    have heN : e < N := hTbel e heT
    obtain ⟨Z, hZ, heZ, hZo⟩ := hd.fundamental e heN
    refine ⟨Z, hZ, ?_⟩
    rw [← hT1, dotPar_eq_par Z T.1 hZ.1 T.2]
    apply par_unique Z _ e hZ.1.nodup heZ (by simpa using heT)
    intro e' he' hf
    have he'T : e' ∈ T.1 := by simpa using hf
    have := hTbel e' he'T
    rcases hZo e' he' with h | h
    · exact h
    · omega

/-- … and among the odd elements there is one of minimum weight (weights are integers bounded below),
so a cycle satisfying `PhaseOK g 1 S ·` exists -/
theorem phaseOK_exists (g : Graph) (hp : g.positiveB = true) (S : List Nat)
    (h : ∃ Z, EvenSet g Z ∧ dotPar Z S = true) : ∃ C, PhaseOK g 1 S C := by
  obtain ⟨Z, hZ, hodd⟩ := h
  have key : ∀ n : Nat, ∀ Z, EvenSet g Z → dotPar Z S = true → (wt g Z).toNat = n →
      ∃ C, PhaseOK g 1 S C := by
    intro n
    induction n using Nat.strongRecOn with
    | _ n ih =>
      intro Z hZ hodd hn
      by_cases hex : ∃ Z', EvenSet g Z' ∧ dotPar Z' S = true ∧ wt g Z' < wt g Z
      · obtain ⟨Z', h1, h2, h3⟩ := hex
        have h4 := wt_nonneg g hp Z' h1.2.1
        exact ih (wt g Z').toNat (by omega) Z' h1 h2 rfl
      · refine ⟨Z, hZ, hodd, ?_⟩
        intro Z' h1 h2
        rw [Int.one_mul]
        apply Classical.byContradiction
        intro hlt
        exact hex ⟨Z', h1, h2, by omega⟩
  exact key _ Z hZ hodd rfl

end Parmcb
