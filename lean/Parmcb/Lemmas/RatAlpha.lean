import Parmcb.Lemmas.DePina
/-!
de Pina phases with a RATIONAL approximation factor `p / q` per phase (C09: `p / q = 1 + ε`).  The integer
version is `run_weight` (Lemmas/DePina.lean); here the phase contract is `q · w(C) ≤ p · w(Z)`.
-/

/-! ### the exchange argument of Lemmas/Abstract.lean for an arbitrary relation `R C z`
(in place of `w C ≤ α * w z`); literal copies of `ExInv`, `exInv_step`, `exInv_exists`,
`exchange_injection` -/
namespace Parmcb.Abstract
section
variable {V W : Type} {G : XGroup V} {H : XGroup W} (P : Pairing G H)

/-- invariant of the exchange argument after `n` steps (relation version) -/
structure ExInvR (G : XGroup V) (space : V → Prop) (R : V → V → Prop) (Cs L : List V)
    (n : Nat) (B : List V) (p : List Nat) : Prop where
  plen : p.length = n
  nodup : p.Nodup
  range : ∀ q ∈ p, q < L.length
  blen : B.length = L.length
  bspace : ∀ D ∈ B, space D
  bspan : SpansP G B space
  bp : ∀ (j q : Nat), p[j]? = some q → B[q]? = Cs[j]?
  bl : ∀ (q : Nat), q ∉ p → B[q]? = L[q]?
  wt : ∀ (i : Nat) C (q : Nat) D, Cs[i]? = some C → p[i]? = some q → L[q]? = some D →
    R C D

theorem exInvR_step {Cs : List V} {Ss : List W} (space : V → Prop) (R : V → V → Prop)
    (h : Triangular P Cs Ss)
    (hC : ∀ C ∈ Cs, space C)
    (hmin : ∀ (i : Nat) C S, Cs[i]? = some C → Ss[i]? = some S →
        ∀ z, space z → P.dot z S = true → R C z)
    (L : List V) (n : Nat) (hn : n < Cs.length) (B : List V) (p : List Nat)
    (inv : ExInvR G space R Cs L n B p) :
    ∃ B' p', ExInvR G space R Cs L (n + 1) B' p' := by
  obtain ⟨C, hCn⟩ : ∃ C, Cs[n]? = some C := ⟨Cs[n], by simp [hn]⟩
  obtain ⟨S, hSn⟩ : ∃ S, Ss[n]? = some S :=
    ⟨Ss[n]'(by rw [← h.len]; exact hn), by simp [← h.len, hn]⟩
  have hCs : space C := hC C (List.mem_of_getElem? hCn)
  obtain ⟨m, hmlen, hm⟩ := inv.bspan C hCs
  have hdot : P.dot C S = true := h.diag n C S hCn hSn
  rw [← hm] at hdot
  obtain ⟨q, y, hBq, hmq, hy⟩ := dot_sumMask_true P B m S hdot
  have hqB : q < B.length := by
    rcases Nat.lt_or_ge q B.length with h | h
    · exact h
    · rw [List.getElem?_eq_none h] at hBq; cases hBq
  have hqp : q ∉ p := by
    intro hq
    obtain ⟨j, hj⟩ := List.mem_iff_getElem?.1 hq
    have hjn : j < n := by
      rw [← inv.plen]
      rcases Nat.lt_or_ge j p.length with h | h
      · exact h
      · rw [List.getElem?_eq_none h] at hj; cases hj
    have h1 := inv.bp j q hj
    have h2 := h.lower n j y S hjn (by rw [← h1]; exact hBq) hSn
    rw [hy] at h2; cases h2
  have hLq : L[q]? = some y := by rw [← inv.bl q hqp]; exact hBq
  have hys : space y := inv.bspace y (List.mem_of_getElem? hBq)
  have hwy : R C y := hmin n C S hCn hSn y hys hy
  refine ⟨B.set q C, p ++ [q], ?_⟩
  refine
    { plen := by simp [inv.plen]
      nodup := ?_
      range := ?_
      blen := by simp [inv.blen]
      bspace := ?_
      bspan := ?_
      bp := ?_
      bl := ?_
      wt := ?_ }
  · rw [List.nodup_append]
    refine ⟨inv.nodup, by simp, ?_⟩
    intro a ha b hb hab
    simp at hb
    subst hb; subst hab
    exact hqp ha
  · intro q' hq'
    rcases List.mem_append.1 hq' with h1 | h1
    · exact inv.range q' h1
    · simp at h1; subst h1; rw [← inv.blen]; exact hqB
  · intro D hD
    rcases List.mem_or_eq_of_mem_set hD with h1 | h1
    · exact inv.bspace D h1
    · subst h1; exact hCs
  · have := inSpan_exchange (G := G) B m q y hBq hmq
    rw [hm] at this
    exact spansP_of_inSpan G inv.bspan this
  · intro j q' hj
    rw [List.getElem?_append] at hj
    split at hj
    · next hlt =>
      have hne : q' ≠ q := by
        intro he; subst he
        exact hqp (List.mem_of_getElem? hj)
      rw [List.getElem?_set]
      simp [Ne.symm hne]
      exact inv.bp j q' hj
    · next hge =>
      have hjn : j = n := by
        rcases Nat.lt_or_ge (j - p.length) 1 with h1 | h1
        · have := inv.plen; omega
        · rw [List.getElem?_eq_none (by simpa using h1)] at hj; cases hj
      subst hjn
      have : j - p.length = 0 := by have := inv.plen; omega
      rw [this] at hj
      simp at hj
      subst hj
      rw [List.getElem?_set]
      simp [hqB, hCn]
  · intro q' hq'
    simp only [List.mem_append, List.mem_singleton, not_or] at hq'
    rw [List.getElem?_set]
    simp [Ne.symm hq'.2]
    exact inv.bl q' hq'.1
  · intro i C' q' D hCi hpi hLD
    rw [List.getElem?_append] at hpi
    split at hpi
    · exact inv.wt i C' q' D hCi hpi hLD
    · next hge =>
      have hin : i = n := by
        rcases Nat.lt_or_ge (i - p.length) 1 with h1 | h1
        · have := inv.plen; omega
        · rw [List.getElem?_eq_none (by simpa using h1)] at hpi; cases hpi
      subst hin
      have : i - p.length = 0 := by have := inv.plen; omega
      rw [this] at hpi
      simp at hpi
      subst hpi
      rw [hCn] at hCi; cases hCi
      rw [hLq] at hLD; cases hLD
      exact hwy

theorem exInvR_exists {Cs : List V} {Ss : List W} (space : V → Prop) (R : V → V → Prop)
    (h : Triangular P Cs Ss)
    (hC : ∀ C ∈ Cs, space C)
    (hmin : ∀ (i : Nat) C S, Cs[i]? = some C → Ss[i]? = some S →
        ∀ z, space z → P.dot z S = true → R C z)
    (L : List V) (hL : ∀ D ∈ L, space D) (hspan : SpansP G L space)
    (n : Nat) (hn : n ≤ Cs.length) :
    ∃ B p, ExInvR G space R Cs L n B p := by
  induction n with
  | zero =>
    exact ⟨L, [],
      { plen := rfl
        nodup := List.nodup_nil
        range := by simp
        blen := rfl
        bspace := hL
        bspan := hspan
        bp := by simp
        bl := by simp
        wt := by simp }⟩
  | succ n ih =>
    obtain ⟨B, p, inv⟩ := ih (by omega)
    exact exInvR_step P space R h hC hmin L n (by omega) B p inv

/-- F6(c): the α-robust exchange argument.  Against ANY family `L ⊆ space` that spans `space`
there is an injection `i ↦ p[i]` of the emitted elements into the positions of `L` with
`R C_i L[p i]`.  No dimension theory, no independence of `L` needed. -/
theorem exchange_injectionR {Cs : List V} {Ss : List W} (space : V → Prop) (R : V → V → Prop)
    (h : Triangular P Cs Ss)
    (hC : ∀ C ∈ Cs, space C)
    (hmin : ∀ (i : Nat) C S, Cs[i]? = some C → Ss[i]? = some S →
        ∀ z, space z → P.dot z S = true → R C z)
    (L : List V) (hL : ∀ D ∈ L, space D) (hspan : SpansP G L space) :
    ∃ p : List Nat, p.length = Cs.length ∧ p.Nodup ∧ (∀ q ∈ p, q < L.length) ∧
      ∀ (i : Nat) C (q : Nat) D, Cs[i]? = some C → p[i]? = some q → L[q]? = some D → R C D := by
  obtain ⟨B, p, inv⟩ := exInvR_exists P space R h hC hmin L hL hspan Cs.length (Nat.le_refl _)
  exact ⟨p, inv.plen, inv.nodup, inv.range, inv.wt⟩

theorem sum_map_le_of_pointwise_rat (w : V → Int) (a b : Int) (ws : List Int) (Cs : List V)
    (p : List Nat) (hlen : p.length = Cs.length)
    (hw : ∀ (i : Nat) C (q : Nat), Cs[i]? = some C → p[i]? = some q →
      b * w C ≤ a * (ws[q]?.getD 0)) :
    b * (Cs.map w).sum ≤ a * (p.map (fun q => ws[q]?.getD 0)).sum := by
  induction Cs generalizing p with
  | nil =>
    cases p with
    | nil => simp
    | cons q p => simp at hlen
  | cons C Cs ih =>
    cases p with
    | nil => simp at hlen
    | cons q p =>
      have h0 := hw 0 C q (by simp) (by simp)
      have h1 := ih p (by simpa using hlen) (fun i C' q' hC' hq' =>
        hw (i + 1) C' q' (by simpa using hC') (by simpa using hq'))
      simp only [List.map_cons, List.sum_cons, Int.mul_add]
      omega

/-- total weight bound with a rational factor `a / b` -/
theorem depina_weight_rat {Cs : List V} {Ss : List W} (space : V → Prop) (w : V → Int) (a b : Int)
    (ha : 0 ≤ a) (hw : ∀ z, space z → 0 ≤ w z)
    (h : Triangular P Cs Ss)
    (hC : ∀ C ∈ Cs, space C)
    (hmin : ∀ (i : Nat) C S, Cs[i]? = some C → Ss[i]? = some S →
        ∀ z, space z → P.dot z S = true → b * w C ≤ a * w z)
    (L : List V) (hL : ∀ D ∈ L, space D) (hspan : SpansP G L space) :
    b * (Cs.map w).sum ≤ a * (L.map w).sum := by
  obtain ⟨p, hplen, hnd, hrange, hwt⟩ :=
    exchange_injectionR P space (fun C z => b * w C ≤ a * w z) h hC hmin L hL hspan
  have h1 : b * (Cs.map w).sum ≤ a * (p.map (fun q => (L.map w)[q]?.getD 0)).sum := by
    apply sum_map_le_of_pointwise_rat w a b (L.map w) Cs p hplen
    intro i C q hCi hpi
    have hq : q < L.length := hrange q (List.mem_of_getElem? hpi)
    have hLq : L[q]? = some L[q] := by simp [hq]
    have := hwt i C q L[q] hCi hpi hLq
    simpa [hq] using this
  have h2 : (p.map (fun q => (L.map w)[q]?.getD 0)).sum ≤ (L.map w).sum := by
    apply sum_nodup_le _ _ p hnd
    intro x hx
    obtain ⟨D, hD, rfl⟩ := List.mem_map.1 hx
    exact hw D (hL D hD)
  exact Int.le_trans h1 (Int.mul_le_mul_of_nonneg_left h2 ha)

end
end Parmcb.Abstract

namespace Parmcb
open Parmcb.Abstract

/-- phase contract: `C` is in the cycle space, odd against the phase's support vector, and at most `p/q`
times as heavy as any odd element of the cycle space -/
def PhaseOKRat (g : Graph) (p q : Int) (S C : List Nat) : Prop :=
  EvenSet g C ∧ dotPar C S = true ∧ ∀ Z, EvenSet g Z → dotPar Z S = true → q * wt g C ≤ p * wt g Z

def RunRat (g : Graph) (p q : Int) (v : Variant) : Nat → List (List Nat) → List (List Nat) → Prop
  | _, _, [] => True
  | k, sup, c :: cs => PhaseOKRat g p q (phaseSupport v sup k) c ∧ RunRat g p q v (k + 1) (phaseStep v sup k c) cs

def FullRunRat (g : Graph) (N : Nat) (p q : Int) (v : Variant) (cycles : List (List Nat)) : Prop :=
  cycles.length = N ∧ RunRat g p q v 0 (unitSupports N) cycles

theorem phaseOKRat_phaseOK (g : Graph) (p q : Int) (hq : 0 < q) (hpos : g.positiveB = true)
    (S C : List Nat) (h : PhaseOKRat g p q S C) : PhaseOK g p S C := by
  obtain ⟨hE, hodd, hmin⟩ := h
  refine ⟨hE, hodd, ?_⟩
  intro Z hZ hZS
  have h1 := hmin Z hZ hZS
  have h0 : 0 ≤ wt g C := wt_nonneg g hpos C hE.2.1
  have h2 : 1 * wt g C ≤ q * wt g C := Int.mul_le_mul_of_nonneg_right (by omega) h0
  omega

theorem runRat_run (g : Graph) (p q : Int) (hq : 0 < q) (hpos : g.positiveB = true) (v : Variant) :
    ∀ (cycles : List (List Nat)) (k : Nat) (sup : List (List Nat)),
      RunRat g p q v k sup cycles → Run g p v k sup cycles := by
  intro cycles
  induction cycles with
  | nil => intro k sup _; trivial
  | cons c cs ih =>
    intro k sup hrun
    exact ⟨phaseOKRat_phaseOK g p q hq hpos _ _ hrun.1, ih _ _ hrun.2⟩

/-- a rational-factor run is in particular an integer-factor run (factor `p`): all structural theorems
(basis, count, circuits of C01) apply to it -/
theorem fullRunRat_fullRun (g : Graph) (N : Nat) (p q : Int) (hq : 0 < q) (v : Variant)
    (cycles : List (List Nat)) (hd : ExactDomain g N) (hr : FullRunRat g N p q v cycles) :
    FullRun g N p v cycles :=
  ⟨hr.1, runRat_run g p q hq hd.positive v cycles 0 _ hr.2⟩

/-- what is recorded about phase `k` (rational factor) -/
def goodRat (g : Graph) (p q : Int) (_k : Nat) (S C : SVec) : Prop :=
  ∀ z : SVec, EvenSet g z.1 → svecPairing.dot z S = true → q * wt g C.1 ≤ p * wt g z.1

theorem runRat_evenSet (g : Graph) (p q : Int) (v : Variant) :
    ∀ (cycles : List (List Nat)) (k : Nat) (sup : List (List Nat)),
      RunRat g p q v k sup cycles → ∀ c ∈ cycles, EvenSet g c := by
  intro cycles
  induction cycles with
  | nil => intro k sup _ c hc; cases hc
  | cons c0 cs ih =>
    intro k sup hrun c hc
    obtain ⟨hph, hrest⟩ := hrun
    rcases List.mem_cons.1 hc with rfl | hc
    · exact hph.1
    · exact ih _ _ hrest c hc

theorem runRat_phasesOK (g : Graph) (p q : Int) (v : Variant) :
    ∀ (cycles : List (List Nat)) (k : Nat) (Ss : List SVec),
      k + cycles.length = Ss.length → RunRat g p q v k (vals Ss) cycles →
      ∃ ph : List (Nat × SVec), vals (ph.map (·.2)) = cycles ∧
        PhasesOK svecPairing (goodRat g p q) k Ss ph := by
  intro cycles
  induction cycles with
  | nil => intro k Ss _ _; exact ⟨[], rfl, trivial⟩
  | cons c cs ih =>
    intro k Ss hlen hrun
    obtain ⟨⟨hE, hodd, hmin⟩, hrest⟩ := hrun
    simp only [List.length_cons] at hlen
    have hk : k < (vals Ss).length := by rw [vals_length]; omega
    have hr := swapIndex_range v (vals Ss) k hk
    rw [vals_length] at hr
    have hstep := phaseStep_vals v Ss k c
    have hsup := phaseSupport_vals v Ss k
    generalize swapIndex v (vals Ss) k = r at hr hstep hsup
    let C : SVec := ⟨c, hE.1⟩
    have hhit := hit_eq C
    change (fun S : SVec => dotPar S.1 c) = _ at hhit
    rw [hhit] at hstep
    rw [hstep] at hrest
    obtain ⟨ph, hph, hok⟩ := ih (k + 1) _
      (by rw [updateRows_length, swapRows_length]; omega) hrest
    refine ⟨(r, C) :: ph, ?_, hr.1, hr.2, ?_, hok⟩
    · simp only [vals, List.map_cons] at hph ⊢
      rw [hph]
    · have hkS : k < (swapRows Ss k r).length := by rw [swapRows_length]; omega
      refine ⟨(swapRows Ss k r)[k], by simp [hkS], ?_, ?_⟩
      · rw [hsup] at hodd
        simpa [hkS, svec_dot] using hodd
      · intro z hz hzS
        apply hmin z.1 hz
        rw [hsup]
        simpa [hkS, svec_dot] using hzS

/-- `full_setup` for a rational-factor run -/
theorem full_setup_rat (g : Graph) (N : Nat) (p q : Int) (v : Variant) (cycles : List (List Nat))
    (hr : FullRunRat g N p q v cycles) :
    ∃ Cs Fs : List SVec, vals Cs = cycles ∧ Cs.length = N ∧ Triangular svecPairing Cs Fs ∧
      (∀ (i : Nat) C S, Cs[i]? = some C → Fs[i]? = some S → goodRat g p q i S C) ∧
      (∀ C ∈ Cs, EvenSet g C.1) ∧
      SpansP svecGroup Fs (UnitQ N) := by
  obtain ⟨hlen, hrun⟩ := hr
  rw [← vals_unitS] at hrun
  have hl0 : (unitS N).length = N := by simp [unitS]
  obtain ⟨ph, hph, hok⟩ := runRat_phasesOK g p q v cycles 0 (unitS N) (by omega) hrun
  have hphlen : ph.length = N := by
    have := congrArg List.length hph
    simp only [vals, List.length_map] at this
    omega
  obtain ⟨htri, hgood⟩ := run_triangular svecPairing (goodRat g p q) (unitS N) ph (by omega) hok
  refine ⟨ph.map (·.2), runPhases svecPairing 0 (unitS N) ph, hph, by simp [hphlen], htri, ?_, ?_,
    span_runPhases svecPairing 0 (unitS N) ph (UnitQ N) (unitS_spans N)⟩
  · intro i C S hC hS
    rw [List.getElem?_map] at hC
    cases hp : ph[i]? with
    | none => rw [hp] at hC; cases hC
    | some a =>
      obtain ⟨r, C'⟩ := a
      rw [hp] at hC
      cases hC
      exact hgood i r C' S hp hS
  · intro C hC
    apply runRat_evenSet g p q v cycles 0 _ hrun
    rw [← hph]
    exact List.mem_map.2 ⟨C, hC, rfl⟩

/-- against ANY family of cycle-space elements that spans the cycle space the emitted cycles weigh at most
`p / q` times as much -/
theorem run_weight_rat (g : Graph) (N : Nat) (p q : Int) (hp : 0 ≤ p) (hq : 0 < q) (v : Variant)
    (cycles : List (List Nat)) (hd : ExactDomain g N) (hr : FullRunRat g N p q v cycles)
    (L : List (List Nat)) (hL : ∀ D ∈ L, EvenSet g D)
    (hspan : ∀ Z, EvenSet g Z → ∃ mask : List Bool, mask.length = L.length ∧ xorSel L mask = Z) :
    q * (cycles.map (wt g)).sum ≤ p * (L.map (wt g)).sum := by
  have _ := hq
  obtain ⟨Cs, Fs, hCs, hlen, htri, hgood, hC, _⟩ := full_setup_rat g N p q v cycles hr
  obtain ⟨Ls, hLs⟩ := exists_vals L (fun D hD => (hL D hD).1)
  have hLsp : SpansP svecGroup Ls (fun z => EvenSet g z.1) := by
    intro z hz
    obtain ⟨mask, hm, hsum⟩ := hspan z.1 hz
    refine ⟨mask, by rw [hm, ← hLs, vals_length], ?_⟩
    apply svec_ext
    rw [sumMask_val, hLs, hsum]
  have hLs' : ∀ D ∈ Ls, EvenSet g D.1 := by
    intro D hD
    apply hL
    rw [← hLs]
    exact List.mem_map.2 ⟨D, hD, rfl⟩
  have key := depina_weight_rat svecPairing (fun z => EvenSet g z.1) (fun z => wt g z.1) p q hp
    (fun z hz => wt_nonneg g hd.positive z.1 hz.2.1) htri hC
    (fun i C S h1 h2 z hz hzS => hgood i C S h1 h2 z hz hzS) Ls hLs' hLsp
  have e1 : Cs.map (fun z => wt g z.1) = cycles.map (wt g) := by
    rw [← hCs, vals, List.map_map]; rfl
  have e2 : Ls.map (fun z => wt g z.1) = L.map (wt g) := by
    rw [← hLs, vals, List.map_map]; rfl
  rw [e1, e2] at key
  exact key

end Parmcb
